/-
C19 driver: replays a harness trace.
 (S) monitor  = `routeOK` on the real route against the printed graph + request;
 (X) model    = `newRoute` on the real path (amounts, time locks, totals, Go fee
                accessors), the search replay (`getEdge`/`processEdge` along the
                real path), `getOutgoingBalance` early exits and completeness for
                an admissible direct channel.
-/
import LndModel.Prelude.Lines
import LndModel.C19.Model
import LndModel.C19.Search
import LndModel.C19.Bandwidth
import LndModel.C19.Session

open LndModel LndModel.Lines LndModel.C19

namespace LndModel.C19.Driver

structure RouteHdr where
  totalAmt : Nat := 0
  totalTL : Nat := 0
  src : Int := 0
  nhops : Nat := 0
  totalFees : Nat := 0
  recv : Nat := 0
  payload : Nat := 0
  payloadMax : Nat := 0
  hopsMax : Nat := 0

/-- what the search itself used when it relaxed one edge of the returned chain. -/
structure Stored where
  idx : Nat
  cnt : Nat
  amt : Nat
  schan : Option Nat
  samt : Option Nat
  scltv : Option Nat

/-- one `processEdge` call of the real search that reached the probability source. -/
structure Ev where
  frm : Nat
  to : Nat
  amt : Nat
  pbits : Nat

/-- a blinded payment tail as the harness built it: introduction node, the blinded hops and
    the NUMS target (node indices), the channel id of the aggregate edge, the aggregate relay
    parameters as given by the payer, and the `HasMaxHTLC` flag the CODE put on the aggregate
    edge's policy. -/
structure BlInfo where
  intro : Nat
  nodes : List Nat
  chan : Nat
  agg : BlindedAgg
  hasMaxCode : Bool

structure SearchInfo where
  penBits : Nat
  minBits : Nat
  lastPay : Nat
  maxPay : Nat
  nrelax : Nat

/-! ### The search replayed with IEEE doubles -/

def maxInt64 : Int := 9223372036854775807

/-- `getProbabilityBasedDist`. -/
def goDist (pen : Float) (w : Int) (p : Float) : Int :=
  if p == 0 then maxInt64 else
  let d := Float.ofInt w + pen / p
  if d > 9000000000000000000 then maxInt64 else d.toInt64.toInt

def floatAlg (pen minp : Float) : ProbAlg :=
  { P := Float, le := fun p q => decide (p ≤ q), mul := fun p q => p * q, one := 1.0,
    dist := goDist pen, valid := fun p => decide (0 < p) && decide (p ≤ 1),
    minOk := fun p => !decide (p < minp) }

/-- would the real loop call the probability source for `u → pivot`? -/
def wouldCall (g : Graph) (r : Req) (s : SState Float) (u : Nat) : Option (UEdge × Nat) :=
  match relaxEdge g r s u with
  | none => none
  | some e => if reachesProb r e s.pv.ent then some (e, sendAmt e s.pv.ent) else none

def silentPivot (g : Graph) (r : Req) (n : Nat) (s : SState Float) : Bool :=
  (List.range (n + 1)).all fun u => (wouldCall g r s u).isNone

structure Replay where
  s : SState Float
  pops : Nat := 0
  relaxes : Nat := 0
  silent : Nat := 0
  stores : Nat := 0

/-- Replays the real search: the model pops / relaxes exactly as the trace says
    and checks, step by step, that the trace is a run of the model: every
    relaxation the implementation made is one the model makes (same edge
    amount), every relaxation the model expects from a pivot was made, every
    node the implementation expanded was a heap minimum of the model (nodes
    without callbacks are popped silently when they are minimal). -/
def replaySearchLoop (A : ProbAlg) (hP : A.P = Float) (g : Graph) (r : Req) (c : SCfg) (n : Nat)
    (evs : List Ev) : Except String Replay := do
  let cast (p : Float) : A.P := hP ▸ p
  let toF (s : SState A.P) : SState Float := hP ▸ s
  let mut s : SState A.P := SState.init A.one r c
  let mut seen : List Nat := []
  let mut pops := 0
  let mut relaxes := 0
  let mut silent := 0
  let mut stores := 0
  let complete (s : SState A.P) (seen : List Nat) : Except String Unit := do
    for u in List.range (n + 1) do
      if !seen.contains u then
        match wouldCall g r (toF s) u with
        | some (e, a) =>
          throw s!"pivot {s.pv.node}: model relaxes {u}->{s.pv.node} over chan {e.chan} amt {a}, impl did not"
        | none => pure ()
  for ev in evs do
    if ev.to != s.pv.node then
      complete s seen
      seen := []
      -- advance the pivot to `ev.to`
      let mut found := false
      for _ in List.range (n + 3) do
        if !found then
          let mins := s.opn.filter (isMin A s)
          if mins.contains ev.to then
            s := popStep r s ev.to
            pops := pops + 1
            found := true
          else
            match mins.find? (fun m => m != r.source && silentPivot g r n (toF (popStep r s m))) with
            | some m =>
              s := popStep r s m
              pops := pops + 1
              silent := silent + 1
            | none => throw s!"pop order: impl expanded {ev.to}, model heap minima {mins} of {s.opn}"
      if !found then throw s!"pop order: impl expanded {ev.to}, not reachable"
      if s.done then throw s!"impl expanded the source {ev.to}"
    if seen.contains ev.frm then throw s!"pivot {ev.to}: {ev.frm} relaxed twice"
    match wouldCall g r (toF s) ev.frm with
    | none => throw s!"impl relaxed {ev.frm}->{ev.to} amt {ev.amt}, model does not reach the probability source"
    | some (_, a) =>
      if a != ev.amt then throw s!"relax {ev.frm}->{ev.to}: amount model={a} impl={ev.amt}"
    let ep := Float.ofBits ev.pbits.toUInt64
    if ep != 0 then
      let before := s.D.length
      s := relaxStep A g r c s ev.frm (cast ep)
      if s.D.length != before then stores := stores + 1
    seen := ev.frm :: seen
    relaxes := relaxes + 1
  complete s seen
  -- drain the heap until the source is popped or it is empty
  for _ in List.range (n + 3) do
    if !s.done && !s.opn.isEmpty then
      let mins := s.opn.filter (isMin A s)
      if mins.contains r.source then
        s := popStep r s r.source
        pops := pops + 1
      else
        match mins.find? (fun m => silentPivot g r n (toF (popStep r s m))) with
        | some m =>
          s := popStep r s m
          pops := pops + 1
          silent := silent + 1
        | none => throw s!"end of trace: model still expands one of {mins}"
  if !s.done && !s.opn.isEmpty then throw "end of trace: model heap not drained"
  return { s := toF s, pops := pops, relaxes := relaxes, silent := silent, stores := stores }

structure St where
  caseId : String := "0"
  hdr : String := ""
  kind : String := ""
  via : String := ""
  req : Req := default
  graph : Graph := []
  hintIds : List Nat := []
  /-- `link` lines (via=route): state of the switch's link per own channel. -/
  links : List (Nat × LinkInfo) := []
  find : String := ""
  edges : List UEdge := []
  routeOk : Bool := false
  rh : RouteHdr := {}
  hops : List Hop := []
  hopFees : List Nat := []
  stored : List Stored := []
  probOk : Bool := true
  relaxDup : Bool := false
  badParse : Bool := false
  rhints : List (List HopHint) := []
  bl : Option BlInfo := none
  dropped : List (Nat × Nat × Int × Int) := []
  srch : Option SearchInfo := none
  evs : List Ev := []
  probBits : Option Nat := none
  -- counters
  lines : Nat := 0
  cases : Nat := 0
  mismatches : Nat := 0
  monitorFails : Nat := 0
  routes : Nat := 0
  monitored : Nat := 0
  wrapSkipped : Nat := 0
  nopath : Nat := 0
  insufficient : Nat := 0
  otherErr : Nat := 0
  hops1 : Nat := 0
  hops2 : Nat := 0
  hops3 : Nat := 0
  hops4p : Nat := 0
  selfPay : Nat := 0
  negInbound : Nat := 0
  clamped : Nat := 0
  parallelUsed : Nat := 0
  tlRaised : Nat := 0
  feeTight : Nat := 0
  cltvTight : Nat := 0
  restrCases : Nat := 0
  dbCases : Nat := 0
  sessCases : Nat := 0
  directComplete : Nat := 0
  routeCases : Nat := 0
  v2Pols : Nat := 0
  v2OneBit : Nat := 0
  hintRoutes : Nat := 0
  metaCases : Nat := 0
  storedChecked : Nat := 0
  storedCltvChecked : Nat := 0
  distinctProb : Nat := 0
  payloadTight : Nat := 0
  noEdges : Nat := 0
  usesHint : Bool := false
  metaLen : Nat := 0
  probMode : Int := 0
  samples : Nat := 0
  blindedCases : Nat := 0
  linkDownCases : Nat := 0
  sessGlue : Nat := 0
  linkDownAvoided : Nat := 0
  blindedRoutes : Nat := 0
  blindedMax : Nat := 0
  reannounced : Nat := 0
  staleCached : Nat := 0
  invHintCases : Nat := 0
  invChained : Nat := 0
  invChainedRoutes : Nat := 0
  srchReplays : Nat := 0
  srchRelax : Nat := 0
  srchStores : Nat := 0
  srchPops : Nat := 0
  srchSilent : Nat := 0
  srchWrapped : Nat := 0
  srchNoPath : Nat := 0
  srchMulti : Nat := 0

def mismatch (s : St) (detail : String) : IO St := do
  IO.println s!"MISMATCH case={s.caseId} line={s.lines} {detail}"
  return { s with mismatches := s.mismatches + 1 }

def monitor (s : St) (clause detail : String) : IO St := do
  IO.println s!"MONITOR case={s.caseId} clause={clause} line={s.lines} {detail}"
  return { s with monitorFails := s.monitorFails + 1 }

def parseNatList (v : String) : List Nat :=
  if v == "-" then [] else (v.splitOn ",").filterMap nat?

def parsePairs (v : String) : List (Nat × Nat) :=
  if v == "-" then [] else
  (v.splitOn ",").filterMap fun p =>
    match p.splitOn ">" with
    | [a, b] => match nat? a, nat? b with
      | some x, some y => some (x, y)
      | _, _ => none
    | _ => none

def parsePol (v : String) : Option (Option Policy) :=
  if v == "-" then some none else
  match v.splitOn "," with
  | [mn, mx, hm, b, r, d, dis, ib, ir] =>
    match nat? mn, nat? mx, nat? hm, nat? b, nat? r, nat? d, nat? dis, int? ib, int? ir with
    | some mn, some mx, some hm, some b, some r, some d, some dis, some ib, some ir =>
      some (some ⟨mn, mx, hm != 0, b, r, d, dis != 0, ib, ir⟩)
    | _, _, _, _, _, _, _, _, _ => none
  | _ => none

/-- The fee the forwarding node demands when evaluated with Go's wrapping
    arithmetic (`ComputeFee` in uint64, `CalcFee` in int64) on the graph's policy. -/
def requiredFeeGo (p : Policy) (inb : Int × Int) (fwdAmt : Nat) : Nat :=
  let outFee := computeFee p.base p.rate fwdAmt
  let inFee := calcInFee inb.1 inb.2 (u64 (fwdAmt + outFee))
  let fee := i64 (i64 outFee + inFee)
  if fee < 0 then 0 else fee.toNat

/-- All violated clauses of `routeOK` as `(clause, detail)` (diagnostics; the
    decision itself is `routeOK`).  A fee clause is tagged `+overflow` only when,
    at that very hop, Go's wrapping fee arithmetic on that hop's own policy
    differs from the exact fee and the route does pay the wrapped fee. -/
def violations (g : Graph) (r : Req) (rt : Route) (cached : Bool := false)
    (dropped : List (Nat × Nat × Int × Int) := []) : List (String × String) := Id.run do
  let mut out : List (String × String) := []
  if rt.source != r.source then out := out ++ [("source", "")]
  if rt.hops.isEmpty then return out ++ [("empty", "")]
  let n := rt.hops.length
  let mut cur := r.source
  let mut amtIn := rt.totalAmt
  let mut tlIn := rt.totalTL
  let mut i := 0
  let mut prevHop : Option (Nat × Hop × Nat × Nat) := none
  for h in rt.hops do
    let last := i + 1 == n
    match g.dirPol h.chan cur h.to with
    | none => return out ++ [("connected", s!"hop={i}")]
    | some (p, cap) =>
      let loc := cur == r.self
      if !loc && p.disabled then out := out ++ [("enabled", s!"hop={i}")]
      if amtIn < p.minHtlc then out := out ++ [("min_htlc", s!"hop={i}")]
      if p.hasMax && amtIn > p.maxHtlc then out := out ++ [("max_htlc", s!"hop={i}")]
      if cap != 0 && amtIn > cap * 1000 then out := out ++ [("capacity", s!"hop={i}")]
      if loc then
        match r.bwOf h.chan with
        | some b => if amtIn > b then out := out ++ [("bandwidth", s!"hop={i}")]
        | none => pure ()
        if !r.outChans.isEmpty && !r.outChans.contains h.chan then
          out := out ++ [("outgoing_chan", s!"hop={i}")]
      if last then
        match r.lastHop with
        | some l => if cur != l then out := out ++ [("last_hop", "")]
        | none => pure ()
      if r.ignNodes.contains cur then out := out ++ [("ignored_node", s!"hop={i}")]
      if r.ignPairs.contains (cur, h.to) then out := out ++ [("ignored_pair", s!"hop={i}")]
      match prevHop with
      | some (prev, hIn, aIn, tIn) =>
        let inb := g.inboundOf hIn.chan prev hIn.to
        let need := requiredFee p inb hIn.amt
        if hIn.amt + need > aIn then
          let needGo := requiredFeeGo p inb hIn.amt
          -- the graph cache keeps the inbound fee of a policy that was re-announced without
          -- an inbound-fee record: the route pays what the OLD inbound fee demands
          -- (a fee failure after a re-announcement without inbound-fee record is a plain `fee`
          -- violation: the graph cache must not keep the dropped inbound fee; the detail says
          -- whether the route pays what the OLD inbound fee demands)
          let staleHit := cached && dropped.any fun d =>
            d.1 == hIn.chan && d.2.1 == cur &&
              decide (hIn.amt + requiredFee p (d.2.2.1, d.2.2.2) hIn.amt ≤ aIn)
          let tag := if needGo != need && hIn.amt + needGo ≤ aIn then "fee+overflow" else "fee"
          let det0 := if staleHit then " pays_fee_of_dropped_inbound_record=1" else ""
          out := out ++ [(tag, s!"hop={i} node={cur} in={aIn} fwd={hIn.amt} need={need} need_wrapped={needGo} base={p.base} rate={p.rate} inbound={inb.1},{inb.2}{det0}")]
        if hIn.tl + p.delta > tIn then
          out := out ++ [("timelock", s!"hop={i} node={cur} in={tIn} out={hIn.tl} delta={p.delta}")]
      | none => pure ()
      if last then
        if h.to != r.target then out := out ++ [("target", "")]
        if h.amt != amtIn || amtIn != r.amt then out := out ++ [("final_amount", "")]
        if h.tl != tlIn || tlIn != r.height + r.finalDelta then out := out ++ [("final_timelock", "")]
    prevHop := some (cur, h, amtIn, tlIn)
    cur := h.to
    amtIn := h.amt
    tlIn := h.tl
    i := i + 1
  if rt.totalAmt > r.amt + r.feeLimit then out := out ++ [("fee_limit", "")]
  if rt.totalTL > r.height + r.finalDelta + r.cltvLimit then out := out ++ [("cltv_limit", "")]
  if rt.totalAmt != r.amt + rt.hopFees.sum then out := out ++ [("sum_fees", "")]
  if rt.totalTL != r.height + r.finalDelta + rt.hopGaps.sum then out := out ++ [("sum_timelocks", "")]
  return out

def showHops (hs : List Hop) : String :=
  " ".intercalate (hs.map fun h => s!"[{h.chan}>{h.to} {h.amt}@{h.tl}]")

def endCase (s : St) : IO St := do
  let mut s := s
  -- via=route: the real bandwidth manager over the switch's links; the hints the search sees are
  -- derived from the printed link states with the model of `availableChanBandwidth`
  let r : Req := if s.via == "route" then
      { s.req with bw := s.req.bw ++ managerHints (localChans s.graph s.hintIds s.req.self) s.links }
    else s.req
  if s.via == "route" && s.links.any (fun p => p.2.st != .up) then
    s := { s with linkDownCases := s.linkDownCases + 1 }
  -- A blinded tail is a hint chain whose first edge carries the aggregate policy. The
  -- correspondence part (`g`) uses the max-HTLC flag the code put on that edge, the monitor
  -- (`gTrue`) the payer's parameters: a maximum is in force whenever one is given.
  let (g, gTrue) := match s.bl with
    | some b =>
      (s.graph ++ blindedChans b.chan b.hasMaxCode b.agg (b.intro :: b.nodes),
       s.graph ++ blindedChans b.chan (b.agg.max != 0) b.agg (b.intro :: b.nodes))
    | none => (s.graph, s.graph)
  if s.badParse then
    s ← mismatch s "unparsed case"
    return s
  if s.kind != "mem" then s := { s with dbCases := s.dbCases + 1 }
  if !s.rhints.isEmpty then s := { s with invHintCases := s.invHintCases + 1 }
  if s.bl.isSome then s := { s with blindedCases := s.blindedCases + 1 }
  if s.rhints.any (·.length ≥ 2) then s := { s with invChained := s.invChained + 1 }
  if s.via == "sess" then s := { s with sessCases := s.sessCases + 1 }
  if r.lastHop.isSome || !r.outChans.isEmpty || !r.ignNodes.isEmpty || !r.ignPairs.isEmpty then
    s := { s with restrCases := s.restrCases + 1 }
  let exact := s.kind == "mem"
  -- (X) early exits of findPath on the local balance
  let pre := preCheck g r
  match pre with
  | some v =>
    if s.find != v then
      s ← mismatch s s!"local balance pre-check: model={v} impl={s.find}"
  | none =>
    if s.find == "insufficient" then
      s ← mismatch s s!"local balance pre-check: model=continue impl=insufficient"
  -- (X) completeness for an admissible direct channel
  if pre.isNone && r.source != r.target then
    match getEdge g r r.source r.target true r.initEntry with
    | some e =>
      if (replaySearch g r true [e]).isSome then
        s := { s with directComplete := s.directComplete + 1 }
        if s.find != "ok" then
          s ← mismatch s s!"direct channel {e.chan} is admissible but impl={s.find}"
    | none => pure ()
  -- (X) the whole search: the real sequence of relaxations is a run of the model's main
  -- loop, and the model's final distance map yields the returned path / no path
  if pre.isNone && exact && (s.find == "ok" || s.find == "nopath") then
    match s.srch with
    | none => s ← mismatch s "no search trace for an in-memory case"
    | some si =>
      if si.nrelax != s.evs.length then
        s ← mismatch s s!"search trace: {s.evs.length} relax lines, header says {si.nrelax}"
      let A := floatAlg (Float.ofBits si.penBits.toUInt64) (Float.ofBits si.minBits.toUInt64)
      let n := (g.foldl (fun m c => max m (max c.n1 c.n2)) (max r.source r.target))
      match replaySearchLoop A rfl g r ⟨si.lastPay, si.maxPay⟩ n s.evs with
      | .error msg => s ← mismatch s s!"search loop replay: {msg}"
      | .ok rp =>
        s := { s with srchReplays := s.srchReplays + 1, srchRelax := s.srchRelax + rp.relaxes,
                      srchStores := s.srchStores + rp.stores,
                      srchPops := s.srchPops + rp.pops, srchSilent := s.srchSilent + rp.silent }
        if rp.s.wrapped then s := { s with srchWrapped := s.srchWrapped + 1 }
        if rp.pops ≥ 3 then s := { s with srchMulti := s.srchMulti + 1 }
        let fin := rp.s
        match getD fin.D r.source with
        | none =>
          if s.find == "ok" then
            s ← mismatch s "search loop replay: model has no entry for the source, impl returned a path"
          else s := { s with srchNoPath := s.srchNoPath + 1 }
        | some x =>
          if s.find != "ok" then
            s ← mismatch s s!"search loop replay: model reaches the source (amount {x.ent.recv}), impl={s.find}"
          else
            match walk fin.D r.target (fin.D.length + 1) r.source with
            | none => s ← mismatch s "search loop replay: model reconstruction does not reach the target"
            | some E =>
              if !(s.via == "route" && s.edges.isEmpty) && E != s.edges then
                s ← mismatch s s!"search loop replay: model path chans={E.map (·.chan)} impl chans={s.edges.map (·.chan)} (or edge fields differ)"
              if s.routeOk then
                if x.ent.recv != s.rh.totalAmt then
                  s ← mismatch s s!"search loop replay: amount stored for the source model={x.ent.recv} route total={s.rh.totalAmt}"
                if x.ent.cltv != (s.rh.totalTL : Int) then
                  s ← mismatch s s!"search loop replay: cltv stored for the source model={x.ent.cltv} route total={s.rh.totalTL}"
              match s.probBits with
              | some pb =>
                if x.prob.toBits.toNat != pb then
                  s ← mismatch s s!"search loop replay: probability of the source model={x.prob} impl bits={pb}"
              | none => s ← mismatch s "find line without probbits"
  match s.find with
  | "nopath" => return { s with nopath := s.nopath + 1 }
  | "insufficient" => return { s with insufficient := s.insufficient + 1 }
  | "ok" => pure ()
  | other =>
    s ← mismatch s s!"unexpected find result {other}"
    return { s with otherErr := s.otherErr + 1 }
  if !s.routeOk then
    s ← mismatch s "newRoute failed on a path returned by findPath"
    return s
  let rt : Route := ⟨s.rh.src.toNat, s.rh.totalAmt, s.rh.totalTL, s.hops⟩
  s := { s with routes := s.routes + 1 }
  if s.rh.src < 0 then
    s ← mismatch s "route source is not a graph node"
  let n := s.hops.length
  s := match n with
    | 1 => { s with hops1 := s.hops1 + 1 }
    | 2 => { s with hops2 := s.hops2 + 1 }
    | 3 => { s with hops3 := s.hops3 + 1 }
    | _ => { s with hops4p := s.hops4p + 1 }
  if r.source == r.target then s := { s with selfPay := s.selfPay + 1 }
  if s.via == "route" then s := { s with routeCases := s.routeCases + 1 }
  if s.metaLen > 0 then s := { s with metaCases := s.metaCases + 1 }
  if s.probMode < 0 then s := { s with distinctProb := s.distinctProb + 1 }
  let haveEdges := !(s.via == "route" && s.edges.isEmpty)
  if !haveEdges then s := { s with noEdges := s.noEdges + 1 }
  -- blinded: the search's last edge is the dummy hop to the NUMS key, removed by newRoute
  let routeEdges := if s.bl.isSome then s.edges.dropLast else s.edges
  if s.bl.isSome && haveEdges && (s.edges.getLast?.map (·.to)) != some r.target then
    s ← mismatch s "blinded: the returned path does not end with the dummy hop to the NUMS key"
  if n != s.rh.nhops || (haveEdges && n != routeEdges.length) then
    s ← mismatch s s!"hop/edge count: hops={n} nhops={s.rh.nhops} edges={s.edges.length}"
  if haveEdges then
    -- (X) newRoute model on the real path
    match newRoute r.source routeEdges r.height r.amt r.finalDelta with
    | none => s ← mismatch s "model newRoute: no hops"
    | some m0 =>
      let m : Route := match s.bl with
        | some b => { m0 with hops := blindHops b.intro false m0.hops }
        | none => m0
      if m != rt then
        s ← mismatch s s!"newRoute: model total={m.totalAmt}@{m.totalTL} {showHops m.hops} impl total={rt.totalAmt}@{rt.totalTL} {showHops rt.hops}"
    -- (X) the search's admissibility decisions along the real path
    match replaySearch g r exact s.edges with
    | none =>
      s ← mismatch s "search replay: the returned path is not what getEdge/processEdge admit"
    | some x =>
      if x.recv != rt.totalAmt then
        s ← mismatch s s!"search replay: amount at source model={x.recv} impl={rt.totalAmt}"
  if rt.hopFeesGo != s.hopFees then
    s ← mismatch s s!"HopFee: model={rt.hopFeesGo} impl={s.hopFees}"
  if rt.totalFeesGo != s.rh.totalFees then
    s ← mismatch s s!"TotalFees: model={rt.totalFeesGo} impl={s.rh.totalFees}"
  if rt.receiverAmt != s.rh.recv then
    s ← mismatch s s!"ReceiverAmt: model={rt.receiverAmt} impl={s.rh.recv}"
  if s.relaxDup then
    s ← mismatch s "finality: a node pair was relaxed twice in one search (head node expanded twice)"
  -- distribution
  let usedNeg := s.edges.any (fun e => e.inBase < 0 || e.inRate < 0)
  if usedNeg then s := { s with negInbound := s.negInbound + 1 }
  let rec clampedAny : List UEdge → List Hop → Bool
    | e :: e' :: es, h :: hs =>
      let outFee := computeFeeI e'.base e'.rate h.amt
      (decide ((outFee : Int) + calcInFeeI e.inBase e.inRate (h.amt + outFee) < 0)) ||
        clampedAny (e' :: es) hs
    | _, _ => false
  if clampedAny s.edges s.hops then s := { s with clamped := s.clamped + 1 }
  if s.edges.any (fun e => (g.cands e.frm e.to true).length > 1) then
    s := { s with parallelUsed := s.parallelUsed + 1 }
  if s.edges.any (fun e => match g.dirPol e.chan e.frm e.to with
      | some (p, _) => p.delta < e.delta
      | none => false) then
    s := { s with tlRaised := s.tlRaised + 1 }
  if rt.totalAmt == r.amt + r.feeLimit then s := { s with feeTight := s.feeTight + 1 }
  if rt.totalTL == r.height + r.finalDelta + r.cltvLimit then
    s := { s with cltvTight := s.cltvTight + 1 }
  -- (S) the property monitor: always, in exact arithmetic
  s := { s with monitored := s.monitored + 1 }
  -- blinded: the payloads of the blinded portion carry no amounts; what they stand for (zero fee
  -- and delta inside the blinded portion) is the final hop's amount / time lock, and the real
  -- destination is the last blinded hop
  let (rM, rtM) : Req × Route := match s.bl, rt.hops.getLast? with
    | some b, some fin =>
      ({ r with target := fin.to }, { rt with hops := unblindHops b.intro fin false rt.hops })
    | _, _ => (r, rt)
  if s.bl.isSome then s := { s with blindedRoutes := s.blindedRoutes + 1 }
  if s.via == "route" && s.links.any (fun p => p.2.st != .up) then
    s := { s with linkDownAvoided := s.linkDownAvoided + 1 }
  if !routeOK gTrue rM rtM then
    let vs0 := violations gTrue rM rtM (s.kind == "dbc") s.dropped
    -- the aggregate edge of a blinded path whose policy the code built without HasMaxHTLC
    let vs := vs0.map fun (cl, det) =>
      match s.bl with
      | some b =>
        let aggHop := (rtM.hops.zipIdx.find? (fun (h, _) => h.chan == b.chan)).map (·.2)
        if cl == "max_htlc" && !b.hasMaxCode && aggHop.map (fun i => s!"hop={i}") == some det then
          ("max_htlc+blinded-hasmax-unset", det ++ s!" blinded_max={b.agg.max}")
        else (cl, det)
      | none => (cl, det)
    let vs := if vs.isEmpty then [("unknown", "")] else vs
    for (cl, det) in vs do
      if cl == "fee+overflow" then s := { s with wrapSkipped := s.wrapSkipped + 1 }
      if cl == "max_htlc+blinded-hasmax-unset" then s := { s with blindedMax := s.blindedMax + 1 }
      let det := if cl == "bandwidth" then
          match rt.hops.head?.bind (fun h => s.links.find? (fun p => p.1 == h.chan)) with
          | some (_, l) => det ++ s!" link_state={repr l.st} link_bandwidth={l.bandwidth}"
          | none => det
        else det
      s ← monitor s cl s!"{det} route total={rt.totalAmt}@{rt.totalTL} {showHops rt.hops}"
  -- (S) finality: the entries the search used when it relaxed the edges of the returned
  -- chain are the ones recomputed along the chain
  if !s.probOk then
    s ← monitor s "stale-entry" s!"probability stored for the source is not the product along the returned chain; route total={rt.totalAmt}@{rt.totalTL} {showHops rt.hops}"
  let amtIns := rtM.totalAmt :: (rtM.hops.map (·.amt))
  let tlIns := rtM.totalTL :: (rtM.hops.map (·.tl))
  for st in s.stored do
    let aIn := amtIns.getD st.idx 0
    let tIn := tlIns.getD st.idx 0
    let hc := (rt.hops.getD st.idx default).chan
    s := { s with storedChecked := s.storedChecked + 1 }
    if st.cnt == 0 || st.amt != aIn then
      s ← monitor s "stale-entry" s!"hop={st.idx} the search relaxed this edge with amount {st.amt} (relaxations={st.cnt}), the route carries {aIn}; route total={rt.totalAmt}@{rt.totalTL} {showHops rt.hops}"
    match st.schan, st.samt, st.scltv with
    | some c, some a, some t =>
      s := { s with storedCltvChecked := s.storedCltvChecked + 1 }
      if c != hc || a != aIn || t != tIn then
        s ← monitor s "stale-entry" s!"hop={st.idx} entry stored by the search: chan={c} amt={a} cltv={t}; returned chain: chan={hc} amt={aIn} cltv={tIn}; route total={rt.totalAmt}@{rt.totalTL} {showHops rt.hops}"
    | _, _, _ => pure ()
  if s.stored.length != n then
    s ← mismatch s s!"stored lines: {s.stored.length} for {n} hops"
  -- (S) onion payload (real size function) within the sphinx limits
  if s.rh.payloadMax > 0 then
    if s.rh.payload > s.rh.payloadMax || n > s.rh.hopsMax then
      s ← monitor s "payload_size" s!"payload={s.rh.payload} max={s.rh.payloadMax} hops={n} max_hops={s.rh.hopsMax}"
    if s.rh.payload + 40 > s.rh.payloadMax then s := { s with payloadTight := s.payloadTight + 1 }
  else
    s ← mismatch s "route line without payload size"
  if s.usesHint then s := { s with hintRoutes := s.hintRoutes + 1 }
  -- a route that uses a hop hint which is not the last of its route hint
  if s.rhints.any (fun hs => hs.dropLast.any (fun h => s.hops.any (·.chan == h.chan))) then
    s := { s with invChainedRoutes := s.invChainedRoutes + 1 }
  if s.samples < 4 && n ≥ 2 then
    IO.println s!"SAMPLE {s.hdr} => total={rt.totalAmt}@{rt.totalTL} {showHops rt.hops}"
    s := { s with samples := s.samples + 1 }
  return s

def resOf (ws : List String) : String :=
  match ws.dropWhile (· ≠ "=>") with
  | _ :: r :: _ => r
  | _ => "?"

def step (s : St) (line : String) : IO St := do
  let s := { s with lines := s.lines + 1 }
  let ws := words line
  match ws with
  | "FACT" :: rest =>
    let chk (s : St) (key : String) (v : Nat) : IO St :=
      if kvNat? rest key == some v then pure s
      else mismatch s s!"fact {key}: model={v} impl={(kv? rest key).getD "?"}"
    let s ← chk s "riskFactorBillionths" riskFactorBillionths
    let s ← chk s "blockPadding" blockPadding
    let s ← chk s "hintcap" fakeHopHintCap
    chk s "feeRateParts" feeRateParts
  | "CASE" :: id :: rest =>
    let nat (k : String) : Nat := (kvNat? rest k).getD 0
    let req : Req := {
      self := nat "self", source := nat "src", target := nat "tgt", amt := nat "amt",
      feeLimit := nat "feeLimit", cltvLimit := nat "cltvLimit", height := nat "height",
      finalDelta := nat "finalDelta",
      lastHop := (kv? rest "lastHop").bind nat?,
      outChans := parseNatList ((kv? rest "outChans").getD "-"),
      ignNodes := parseNatList ((kv? rest "ignNodes").getD "-"),
      ignPairs := parsePairs ((kv? rest "ignPairs").getD "-"),
      bw := [] }
    let bad := (kvNat? rest "amt").isNone || (kvNat? rest "src").isNone || (kvNat? rest "tgt").isNone
    return { s with caseId := id, hdr := line, kind := (kv? rest "kind").getD "",
                    via := (kv? rest "via").getD "", req := req, graph := [], hintIds := [], links := [],
                    find := "",
                    edges := [], routeOk := false, rh := {}, hops := [], hopFees := [],
                    stored := [], probOk := true, relaxDup := false, usesHint := false,
                    srch := none, evs := [], probBits := none, rhints := [], dropped := [], bl := none,
                    metaLen := nat "meta", probMode := (kvInt? rest "prob").getD 0,
                    badParse := bad, cases := s.cases + 1 }
  | "chan" :: id :: a :: b :: rest =>
    match nat? id, nat? a, nat? b, kvNat? rest "cap",
          (kv? rest "p1").bind parsePol, (kv? rest "p2").bind parsePol with
    | some id, some a, some b, some cap, some p1, some p2 =>
      let hs := if kvNat? rest "hint" == some 1 then id :: s.hintIds else s.hintIds
      let pvs := [(kv? rest "pv1").getD "-", (kv? rest "pv2").getD "-"]
      let v2 := (pvs.filter (fun v => v.startsWith "2:")).length
      let one := (pvs.filter (fun v => v == "2:1" || v == "2:2")).length
      return { s with graph := s.graph ++ [⟨id, a, b, cap, p1, p2⟩], hintIds := hs,
                      v2Pols := s.v2Pols + v2, v2OneBit := s.v2OneBit + one }
    | _, _, _, _, _, _ => return { s with badParse := true }
  | ["rhint", v] =>
    -- one invoice route hint as given by the payer: chained hop hints
    let hops := (v.splitOn ",").map fun part =>
      match (part.splitOn ":").map nat? with
      | [some a, some id, some b, some rt, some d] => some (⟨a, id, b, rt, d⟩ : HopHint)
      | _ => none
    if hops.all (·.isSome) then
      let hs := hops.filterMap id
      return { s with rhints := s.rhints ++ [hs], hintIds := hs.map (·.chan) ++ s.hintIds }
    else return { s with badParse := true }
  | "blinded" :: rest =>
    match kvNat? rest "intro", kv? rest "nodes", kvNat? rest "chan", kvNat? rest "min", kvNat? rest "max",
          kvNat? rest "base", kvNat? rest "rate", kvNat? rest "delta", kvNat? rest "hasmax_code" with
    | some i, some ns, some c, some mn, some mx, some b, some rt, some d, some hm =>
      return { s with bl := some ⟨i, parseNatList ns, c, ⟨mn, mx, b, rt, d⟩, hm != 0⟩,
                      hintIds := (List.range 8).map (· + c) ++ s.hintIds }
    | _, _, _, _, _, _, _, _, _ => return { s with badParse := true }
  | ["droppedinb", c, n, ib, ir] =>
    match nat? c, nat? n, int? ib, int? ir with
    | some c, some n, some ib, some ir =>
      return { s with dropped := s.dropped ++ [(c, n, ib, ir)], reannounced := s.reannounced + 1 }
    | _, _, _, _ => return { s with badParse := true }
  | "sess" :: rest =>
    -- (X) the glue of `RequestRoute`: restrictions / final expiry derived from the payment
    match kvNat? rest "pay_cltv", kvNat? rest "pay_final", kvNat? rest "height", kvNat? rest "validate",
          kvNat? rest "restr_cltv", kvInt? rest "final_expiry", kvNat? rest "restr_fee",
          kvNat? rest "pay_fee", kvNat? rest "amt", kvNat? rest "pay_amt" with
    | some pc, some pf, some h, some v, some rc, some fe, some rf, some pfee, some a, some pa =>
      let pay : Payment := ⟨pc, pf⟩
      let mut s := { s with sessGlue := s.sessGlue + 1 }
      if sessCltvLimit pay != rc then
        s ← mismatch s s!"RequestRoute glue: cltv limit model={sessCltvLimit pay} impl={rc}"
      if sessFinalExpiry h pay != fe then
        s ← mismatch s s!"RequestRoute glue: final expiry model={sessFinalExpiry h pay} impl={fe}"
      if (validateCltvLimit pay) != (v != 0) then
        s ← mismatch s s!"ValidateCLTVLimit: model={validateCltvLimit pay} impl={v}"
      if rf != pfee || a != pa then
        s ← mismatch s s!"RequestRoute glue: fee limit / amount not handed through ({rf} vs {pfee}, {a} vs {pa})"
      if sessCltvLimit pay != s.req.cltvLimit || sessFinalDelta pay != s.req.finalDelta then
        s ← mismatch s s!"RequestRoute glue: derived request differs from the case's request"
      return s
    | _, _, _, _, _, _, _, _, _, _ => return { s with badParse := true }
  | ["link", id, st, v] =>
    let st? : Option LinkSt := match st with
      | "up" => some .up
      | "ineligible" => some .ineligible
      | "cannotadd" => some .cannotAdd
      | "nolink" => some .noLink
      | _ => none
    match nat? id, st?, nat? v with
    | some id, some st, some v => return { s with links := s.links ++ [(id, ⟨st, v⟩)] }
    | _, _, _ => return { s with badParse := true }
  | ["bw", id, v] =>
    match nat? id, nat? v with
    | some id, some v =>
      let rq := s.req
      let rq' : Req := { rq with bw := rq.bw ++ [(id, v)] }
      return { s with req := rq' }
    | _, _ => return { s with badParse := true }
  | "find" :: _ =>
    return { s with find := resOf ws, probOk := kvNat? ws "probok" != some 0,
                    relaxDup := kvNat? ws "relaxdup" == some 1,
                    probBits := kvNat? ws "probbits" }
  | "search" :: rest =>
    match kvNat? rest "penbits", kvNat? rest "minbits", kvNat? rest "lastpay", kvNat? rest "maxpay",
          kvNat? rest "nrelax" with
    | some a, some b, some c, some d, some e => return { s with srch := some ⟨a, b, c, d, e⟩ }
    | _, _, _, _, _ => return { s with badParse := true }
  | ["relax", f, t, a, pb] =>
    match nat? f, nat? t, nat? a, nat? pb with
    | some f, some t, some a, some pb => return { s with evs := s.evs ++ [⟨f, t, a, pb⟩] }
    | _, _, _, _ => return { s with badParse := true }
  | "stored" :: i :: rest =>
    match nat? i, kvNat? rest "cnt", kvNat? rest "amt" with
    | some i, some cnt, some amt =>
      return { s with stored := s.stored ++
        [⟨i, cnt, amt, kvNat? rest "schan", kvNat? rest "samt", kvNat? rest "scltv"⟩] }
    | _, _, _ => return { s with badParse := true }
  | "edge" :: _ :: rest =>
    match kvNat? rest "chan", kvNat? rest "from", kvNat? rest "to", kvNat? rest "base",
          kvNat? rest "rate", kvNat? rest "delta", kvInt? rest "ibase", kvInt? rest "irate",
          kvNat? rest "cap" with
    | some c, some f, some t, some b, some r, some d, some ib, some ir, some cap =>
      return { s with edges := s.edges ++ [⟨c, f, t, b, r, d, ib, ir, cap⟩] }
    | _, _, _, _, _, _, _, _, _ => return { s with badParse := true }
  | "route" :: _ =>
    if resOf ws == "ok" then
      let h : RouteHdr := ⟨(kvNat? ws "total_amt").getD 0, (kvNat? ws "total_tl").getD 0,
        (kvInt? ws "src").getD (-1), (kvNat? ws "nhops").getD 0,
        (kvNat? ws "total_fees").getD 0, (kvNat? ws "recv").getD 0,
        (kvNat? ws "payload").getD 0, (kvNat? ws "payload_max").getD 0,
        (kvNat? ws "hops_max").getD 0⟩
      return { s with routeOk := true, rh := h }
    else return { s with routeOk := false }
  | "hop" :: _ :: rest =>
    match kvNat? rest "chan", kvNat? rest "to", kvNat? rest "amt", kvNat? rest "tl", kvNat? rest "fee" with
    | some c, some t, some a, some tl, some fee =>
      return { s with hops := s.hops ++ [⟨c, t, a, tl⟩], hopFees := s.hopFees ++ [fee],
                      usesHint := s.usesHint || s.hintIds.contains c }
    | _, _, _, _, _ => return { s with badParse := true }
  | ["END"] =>
    -- the topology of invoice route hints is derived from the hint list
    endCase { s with graph := s.graph ++ routeHintsToChans s.req.target s.rhints }
  | [] => return s
  | _ => mismatch s s!"unparsed line: {line.take 60}"

end LndModel.C19.Driver

open LndModel.C19.Driver in
def main : IO Unit := do
  let s ← LndModel.Lines.foldStdin step {}
  IO.println s!"STAT lines={s.lines}"
  IO.println s!"STAT cases={s.cases}"
  IO.println s!"STAT evaluations={s.cases}"
  IO.println s!"STAT nontrivial={s.routes}"
  IO.println s!"STAT routes={s.routes}"
  IO.println s!"STAT routes_monitored={s.monitored}"
  IO.println s!"STAT fee_overflow_violations={s.wrapSkipped}"
  IO.println s!"STAT cases_after_inbound_fee_record_dropped={s.reannounced}"
  IO.println s!"STAT nopath={s.nopath}"
  IO.println s!"STAT insufficient_balance={s.insufficient}"
  IO.println s!"STAT other_errors={s.otherErr}"
  IO.println s!"STAT hops_1={s.hops1}"
  IO.println s!"STAT hops_2={s.hops2}"
  IO.println s!"STAT hops_3={s.hops3}"
  IO.println s!"STAT hops_4plus={s.hops4p}"
  IO.println s!"STAT self_payments={s.selfPay}"
  IO.println s!"STAT routes_with_negative_inbound_fee={s.negInbound}"
  IO.println s!"STAT routes_with_node_fee_clamped_at_zero={s.clamped}"
  IO.println s!"STAT routes_over_parallel_channels={s.parallelUsed}"
  IO.println s!"STAT routes_with_unified_timelock_raised={s.tlRaised}"
  IO.println s!"STAT routes_exactly_at_fee_limit={s.feeTight}"
  IO.println s!"STAT routes_exactly_at_cltv_limit={s.cltvTight}"
  IO.println s!"STAT cases_with_restrictions={s.restrCases}"
  IO.println s!"STAT cases_graph_db={s.dbCases}"
  IO.println s!"STAT cases_payment_session={s.sessCases}"
  IO.println s!"STAT direct_channel_completeness_checks={s.directComplete}"
  IO.println s!"STAT policies_gossip_v2={s.v2Pols}"
  IO.println s!"STAT policies_gossip_v2_one_disable_bit={s.v2OneBit}"
  IO.println s!"STAT routes_via_FindRoute={s.routeCases}"
  IO.println s!"STAT routes_FindRoute_without_edge_replay={s.noEdges}"
  IO.println s!"STAT routes_over_route_hints={s.hintRoutes}"
  IO.println s!"STAT cases_with_blinded_tail={s.blindedCases}"
  IO.println s!"STAT request_route_glue_compared={s.sessGlue}"
  IO.println s!"STAT route_cases_with_a_link_down={s.linkDownCases}"
  IO.println s!"STAT routes_found_while_a_link_of_the_source_is_down={s.linkDownAvoided}"
  IO.println s!"STAT routes_over_blinded_tail={s.blindedRoutes}"
  IO.println s!"STAT blinded_max_htlc_not_enforced={s.blindedMax}"
  IO.println s!"STAT cases_with_invoice_route_hints={s.invHintCases}"
  IO.println s!"STAT cases_with_chained_invoice_route_hints={s.invChained}"
  IO.println s!"STAT routes_over_chained_invoice_route_hints={s.invChainedRoutes}"
  IO.println s!"STAT routes_with_large_metadata={s.metaCases}"
  IO.println s!"STAT routes_payload_within_40_bytes_of_limit={s.payloadTight}"
  IO.println s!"STAT routes_with_distinct_edge_probabilities={s.distinctProb}"
  IO.println s!"STAT stored_entry_amount_checks={s.storedChecked}"
  IO.println s!"STAT stored_entry_cltv_checks={s.storedCltvChecked}"
  IO.println s!"STAT search_loop_replays={s.srchReplays}"
  IO.println s!"STAT search_loop_relaxations={s.srchRelax}"
  IO.println s!"STAT search_loop_entries_stored={s.srchStores}"
  IO.println s!"STAT search_loop_pops={s.srchPops}"
  IO.println s!"STAT search_loop_silent_pops={s.srchSilent}"
  IO.println s!"STAT search_loop_three_or_more_pops={s.srchMulti}"
  IO.println s!"STAT search_loop_nopath_confirmed={s.srchNoPath}"
  IO.println s!"STAT search_loop_weight_wrapped={s.srchWrapped}"
  IO.println s!"STAT mismatches={s.mismatches}"
  IO.println s!"STAT monitor_failures={s.monitorFails}"
