/-
C19 property theorems for blinded payment tails (`newRoute`'s blinded pass and
the dummy hop to the NUMS key).  Lemmas in `Blinded.lean`.
-/
import LndModel.C19.Blinded
import LndModel.C19.ReachLemmas
import LndModel.C19.Finality

namespace LndModel.C19

/-- **The blinded pass of `newRoute` loses no information.**  For EVERY path
    `pre ++ eIn :: tail` in which `eIn` is the first edge arriving at the
    introduction node and `tail` (aggregate edge first) is a zero chain — what
    `blindedChans` produces: zero fee, zero delta, no inbound fee after the
    aggregate edge — `newRoute` (Go integer semantics, under `Fits`) succeeds,
    its final hop carries exactly `amt` / `height + fdelta`, and un-blinding
    (`unblindHops`, the monitor's reading) the hops that the blinded pass
    (`blindHops`) zeroed gives back `newRoute`'s own hops.  Hence the route the
    monitor judges with `routeOK` IS the route of `newRoute_sound` /
    `search_sound`. -/
theorem newRoute_blinded_faithful (src intro height amt fd : Nat) (pre : List UEdge) (eIn : UEdge)
    (tail : List UEdge) (hin : eIn.to = intro) (hpre : ∀ e ∈ pre, e.to ≠ intro) (htl : tail ≠ [])
    (hz : ZeroTail tail) (hf : Fits height amt fd (pre ++ eIn :: tail)) :
    ∃ rt fin, newRoute src (pre ++ eIn :: tail) height amt fd = some rt ∧
      rt.hops.getLast? = some fin ∧ fin.amt = amt ∧ fin.tl = height + fd ∧
      unblindHops intro fin false (blindHops intro false rt.hops) = rt.hops := by
  rw [newRoute_eq hf]
  have hne : pre ++ eIn :: tail ≠ [] := by simp
  obtain ⟨fin, h1, h2, h3⟩ := buildI_last height amt fd _ hne
  have hemp : (pre ++ eIn :: tail).isEmpty = false := by
    cases pre <;> rfl
  refine ⟨_, fin, by simp only [newRouteI, hemp]; rfl, h1, h2, h3, ?_⟩
  exact unblind_blind intro fin false _
    (buildI_tailConst intro height amt fd fin h2 h3 eIn hin tail htl hz pre hpre)

/-! ### dropping the dummy hop keeps the route valid -/

theorem PathIn_dropLast {g : Graph} (d : UEdge) : ∀ {src : Nat} (es : List UEdge), es ≠ [] →
    PathIn g src (es ++ [d]) → PathIn g src es
  | _, [], hne, _ => absurd rfl hne
  | _, [e], _, h => by
    obtain ⟨h1, _, h3, _⟩ := (h : PathIn g _ (e :: d :: []))
    exact ⟨h1, h3⟩
  | _, e :: e' :: rest, _, h => by
    obtain ⟨h1, h2, h3, h4⟩ := (h : PathIn g _ (e :: e' :: (rest ++ [d])))
    exact ⟨h1, h2, h3, PathIn_dropLast d (e' :: rest) (by simp) h4⟩

theorem Fits_dropLast (h amt fd : Nat) (d : UEdge) : ∀ (es : List UEdge) (hne : es ≠ []),
    ZeroPair (es.getLast hne) d → Fits h amt fd (es ++ [d]) → Fits h amt fd es
  | [], hne, _, _ => absurd rfl hne
  | [e], _, _, hf => (hf : Fits h amt fd (e :: d :: [])).1
  | e :: e' :: rest, _, hz, hf => by
    have hz' : ZeroPair ((e' :: rest).getLast (by simp)) d := by
      simpa [List.getLast_cons] using hz
    have hf' : Fits h amt fd ((e' :: rest) ++ [d]) ∧
        StepFits e e' (buildI h amt fd ((e' :: rest) ++ [d])).2.1 ∧
        (buildI h amt fd ((e' :: rest) ++ [d])).2.2 + e'.delta < 2 ^ 31 := hf
    obtain ⟨f1, f2, f3⟩ := hf'
    have hb := buildI_dummy h amt fd d (e' :: rest) (by simp) hz'
    rw [hb] at f2 f3
    exact ⟨Fits_dropLast h amt fd d (e' :: rest) (by simp) hz' f1, f2, f3⟩

/-- changing only the target of the request does not change what a hop must satisfy. -/
theorem HopValid_retarget {g : Graph} {r : Req} (t : Nat) {last : Bool} {cur a : Nat} {h : Hop}
    (hv : HopValid g r last cur a h) (hl : r.lastHop = none) :
    HopValid g { r with target := t } true cur a h := by
  obtain ⟨p, cap, h1, h2, h3, h4, h5, h6, h7, _, h9, h10⟩ := hv
  exact ⟨p, cap, h1, h2, h3, h4, h5, h6, h7, fun _ l hl' => by simp [hl] at hl', h9, h10⟩

theorem HopsValid_dropLast {g : Graph} {r : Req} (hl : r.lastHop = none) (dh : Hop) :
    ∀ {cur a : Nat} (hs : List Hop) (hne : hs ≠ []), HopsValid g r cur a (hs ++ [dh]) →
      HopsValid g { r with target := (hs.getLast hne).to } cur a hs
  | _, _, [], hne, _ => absurd rfl hne
  | _, _, [h], _, hv => by
    obtain ⟨h1, _⟩ := (hv : HopsValid g r _ _ (h :: dh :: []))
    exact ⟨HopValid_retarget _ h1 hl, rfl⟩
  | _, _, h :: h' :: rest, _, hv => by
    obtain ⟨h1, h2⟩ := (hv : HopsValid g r _ _ (h :: h' :: (rest ++ [dh])))
    have ih := HopsValid_dropLast hl dh (h' :: rest) (by simp) h2
    obtain ⟨p, cap, a1, a2, a3, a4, a5, a6, a7, _, a9, a10⟩ := h1
    refine ⟨⟨p, cap, a1, a2, a3, a4, a5, a6, a7, (fun hc => by cases hc), a9, a10⟩, ?_⟩
    simpa [List.getLast_cons] using ih

/-- **Soundness of the search for blinded payments.**  The search runs to the
    NUMS key over the hint chain of the blinded path plus a dummy hop `d` (zero
    policy); `newRoute` removes that hop.  For every reachable state of the
    main loop (`Run`, as in `search_sound`) whose reconstruction returns
    `E0 ++ [d]` with `ZeroPair (last E0) d`, `newRoute` on `E0` succeeds and the
    route is `RouteValid` for the request whose target is the last blinded hop
    (`d.frm`), with the same total amount as the entry stored for the source:
    every clause of the property — min/max HTLC incl. the aggregate minimum and
    maximum on the edge out of the introduction node, fee of every forwarding
    node incl. the aggregate fee left at the introduction node, time-lock
    deltas, fee limit, CLTV limit, restrictions — holds for the route that is
    actually sent.  (`r.lastHop = none`: lnd does not combine a last-hop
    restriction with a blinded path.) -/
theorem blinded_search_sound (A : ProbAlg) (hA : A.Lawful) (g : Graph) (r : Req) (c : SCfg)
    (hg : GraphOK g) {s : SState A.P} (hrun : Run A g r c s) (hw : s.wrapped = false)
    {fuel : Nat} {E0 : List UEdge} {d : UEdge} (hne : E0 ≠ [])
    (hE : walk s.D r.target fuel r.source = some (E0 ++ [d]))
    (hz : ZeroPair (E0.getLast hne) d) (hl : r.lastHop = none)
    (hf : Fits r.height r.amt r.finalDelta (E0 ++ [d])) :
    ∃ x rt0, getD s.D r.source = some x ∧
      newRoute r.source E0 r.height r.amt r.finalDelta = some rt0 ∧
      RouteValid g { r with target := (E0.getLast hne).to } rt0 ∧ rt0.totalAmt = x.ent.recv := by
  cases fuel with
  | zero => simp [walk] at hE
  | succ n =>
    cases hx : getD s.D r.source with
    | none => simp [walk, hx] at hE
    | some x =>
      obtain ⟨E', hlk⟩ := (run_inv hA hg hrun hw).link _ x hx
      have hEE := link_walk hlk _ _ hE
      subst hEE
      have hR := link_reach hlk
      have hts := link_tail_src hlk
      obtain ⟨e, path, hep⟩ := List.exists_cons_of_ne_nil (l := E0 ++ [d]) (by simp)
      have inv0 := reach_inv hg hR e path hep
        (by have := hts; rw [hep] at this; simpa using this) hf
      have ipath := inv0.pathIn
      have ihops := inv0.hops
      have iout := inv0.out
      have irecv := inv0.recv
      have icltv := inv0.cltv
      have ifeeLim := inv0.feeLim
      have icltvLim := inv0.cltvLim
      rw [← hep] at ipath ihops iout irecv icltv ifeeLim
      -- the full route (with the dummy hop) and the one that is sent
      have hf0 := Fits_dropLast r.height r.amt r.finalDelta d E0 hne hz hf
      have hbd := buildI_dummy r.height r.amt r.finalDelta d E0 hne hz
      have hp0 : PathIn g r.source E0 := PathIn_dropLast d E0 hne ipath
      rw [newRoute_eq hf0]
      have hemp : E0.isEmpty = false := by
        cases E0 with
        | nil => exact absurd rfl hne
        | cons => rfl
      refine ⟨x, _, rfl, by simp only [newRouteI, hemp]; rfl, ?_, ?_⟩
      · have hfees := buildI_fees g E0 (h := r.height) (amt := r.amt) (fd := r.finalDelta) hp0
        have hs := fees_sums hfees
        have hhops := ihops
        have hfl := ifeeLim
        rw [hbd] at hhops hfl
        have hchan := buildI_chans r.height r.amt r.finalDelta E0
        have hne' := buildI_hops_ne_nil r.height r.amt r.finalDelta E0 hne
        have hd := HopsValid_dropLast hl _ _ hne' hhops
        have hlast : ((buildI r.height r.amt r.finalDelta E0).1.getLast hne').to =
            (E0.getLast hne).to := by
          have := hchan.2
          have h1 : ((buildI r.height r.amt r.finalDelta E0).1.map (·.to)).getLast
              (by simpa using hne') = (E0.map (·.to)).getLast (by simpa using hne) := by
            simp only [this]
          simpa [List.getLast_map] using h1
        rw [hlast] at hd
        refine ⟨rfl, hd, hfees, hfl, ?_, hs.1, hs.2⟩
        -- CLTV limit: same total time lock
        have hc := icltv
        have hcl := icltvLim
        have hesrc : e.frm = r.source := by
          have := inv0.pathIn
          exact (PathIn_head this).2
        have hdl : r.dlOf e = 0 := by simp [Req.dlOf, hesrc]
        obtain ⟨hamt, hhf⟩ := fits_base (es := E0 ++ [d]) (by simp) hf
        obtain ⟨_, httl⟩ := fits_top (es := E0) hne hf0
        have hb22 : (buildI r.height r.amt r.finalDelta (E0 ++ [d])).2.2 =
            (buildI r.height r.amt r.finalDelta E0).2.2 := by rw [hbd]
        rw [hdl, hb22] at hc
        rw [hc] at hcl
        rw [i32_of_range (by omega) (by omega), i32_of_range (by omega) (by omega)] at hcl
        unfold u64OfInt at hcl
        show (buildI r.height r.amt r.finalDelta E0).2.2 ≤ r.height + r.finalDelta + r.cltvLimit
        omega
      · have hesrc : e.frm = r.source := by
          have := inv0.pathIn
          exact (PathIn_head this).2
        obtain ⟨hA', _⟩ := fits_top (es := E0 ++ [d]) (by simp) hf
        have ho := iout
        have hr := irecv
        have : r.outOf e (buildI r.height r.amt r.finalDelta (E0 ++ [d])).2.1 = 0 := by
          simp [Req.outOf, hesrc]
        have hb21 : (buildI r.height r.amt r.finalDelta (E0 ++ [d])).2.1 =
            (buildI r.height r.amt r.finalDelta E0).2.1 := by rw [hbd]
        rw [this] at ho
        rw [ho, Nat.add_zero, u64_of_lt (by omega), hb21] at hr
        exact hr.symm

/-- fixed-point probability algebra (as `Props.fixAlg`; lawful, see `fixAlg_lawful`). -/
def exAlgB : ProbAlg :=
  { P := Nat, le := fun p q => decide (p ≤ q), mul := fun p q => p * q / 1000000, one := 1000000,
    dist := fun w p => w + ((100000 * 1000000 / max p 1 : Nat) : Int),
    valid := fun p => decide (0 < p) && decide (p ≤ 1000000),
    minOk := fun p => decide (10000 ≤ p) }

/-! ### Non-vacuity: a payment over `0 —1→ 1` into a blinded path with introduction
node 1, one real blinded hop (node 2) and the NUMS target (node 3) -/

def blAgg : BlindedAgg := ⟨1000, 2000000, 1500, 2000, 80⟩

def blGraph : Graph :=
  [⟨1, 0, 1, 100000, some ⟨1, 0, false, 0, 0, 144, false, 0, 0⟩,
                      some ⟨1, 0, false, 7, 1, 18, false, -300, 0⟩⟩] ++
    blindedChans 9000 true blAgg [1, 2, 3]

def blReq : Req :=
  { self := 0, source := 0, target := 3, amt := 1000000, feeLimit := 3200, cltvLimit := 80,
    height := 800000, finalDelta := 0, lastHop := none, outChans := [], ignNodes := [],
    ignPairs := [], bw := [(1, 1003200)] }

def blE0 : List UEdge :=
  [⟨1, 0, 1, 0, 0, 144, -300, 0, 100000⟩, ⟨9000, 1, 2, 1500, 2000, 80, 0, 0, 1000000000⟩]
def blDummy : UEdge := ⟨9001, 2, 3, 0, 0, 0, 0, 0, 1000000000⟩

def blS : SState exAlgB.P :=
  popStep blReq (relaxStep exAlgB blGraph blReq ⟨40, 1300⟩
    (popStep blReq (relaxStep exAlgB blGraph blReq ⟨40, 1300⟩
      (popStep blReq (relaxStep exAlgB blGraph blReq ⟨40, 1300⟩
        (SState.init exAlgB.one blReq ⟨40, 1300⟩) 2 (1000000 : Nat)) 2) 1 (950000 : Nat)) 1)
      0 (1000000 : Nat)) 0

/-- the hypotheses of `blinded_search_sound` are satisfiable: a complete run of the main loop
    (relax the dummy hop 2→3, pop 2, relax the aggregate edge 1→2, pop the introduction node,
    relax 0→1, pop the source) whose reconstruction is `blE0 ++ [blDummy]`; the route that is
    sent leaves the introduction node 1500 + 0.2 % − 300 = 3200 msat and 80 blocks, exactly the
    fee limit and CLTV limit of the request. -/
example : GraphOK blGraph ∧ blS.wrapped = false ∧
    walk blS.D blReq.target 4 blReq.source = some (blE0 ++ [blDummy]) ∧
    ZeroPair (blE0.getLast (by decide)) blDummy ∧
    newRoute 0 blE0 800000 1000000 0 =
      some ⟨0, 1003200, 800080, [⟨1, 1, 1000000, 800000⟩, ⟨9000, 2, 1000000, 800000⟩]⟩ := by
  refine ⟨⟨by decide, by decide⟩, by decide, by decide, ⟨rfl, rfl, rfl, rfl, rfl⟩, by decide⟩

example : Run exAlgB blGraph blReq ⟨40, 1300⟩ blS :=
  Run.pop 0 (Run.relax 0 _ (Run.pop 1 (Run.relax 1 _ (Run.pop 2 (Run.relax 2 _ Run.init
    (by decide)) (by decide) (by decide)) (by decide)) (by decide) (by decide)) (by decide))
    (by decide) (by decide)

/-- `newRoute_blinded_faithful` on the example: the blinded pass zeroes the payload of the hop
    arriving at the introduction node, the monitor's reading restores it. -/
example : blindHops 1 false [⟨1, 1, 1000000, 800000⟩, ⟨9000, 2, 1000000, 800000⟩] =
      [⟨1, 1, 0, 0⟩, ⟨9000, 2, 1000000, 800000⟩] ∧
    unblindHops 1 ⟨9000, 2, 1000000, 800000⟩ false [⟨1, 1, 0, 0⟩, ⟨9000, 2, 1000000, 800000⟩] =
      [⟨1, 1, 1000000, 800000⟩, ⟨9000, 2, 1000000, 800000⟩] := by decide

/-- … and the checker accepts it for the target "last blinded hop", rejects it one msat of fee
    limit or one block of CLTV limit lower, and rejects it when the amount exceeds the blinded
    path's maximum. -/
example : routeOK blGraph { blReq with target := 2 }
      ⟨0, 1003200, 800080, [⟨1, 1, 1000000, 800000⟩, ⟨9000, 2, 1000000, 800000⟩]⟩ = true ∧
    routeOK blGraph { blReq with target := 2, feeLimit := 3199 }
      ⟨0, 1003200, 800080, [⟨1, 1, 1000000, 800000⟩, ⟨9000, 2, 1000000, 800000⟩]⟩ = false ∧
    routeOK blGraph { blReq with target := 2, cltvLimit := 79 }
      ⟨0, 1003200, 800080, [⟨1, 1, 1000000, 800000⟩, ⟨9000, 2, 1000000, 800000⟩]⟩ = false := by
  decide

end LndModel.C19
