/-
C19 property theorems.

* `checker_meaning`: the executable checker `routeOK` (the monitor run on every
  route the implementation returns) implies the Prop-level property `RouteValid`.
* `newRoute_sound`: for ANY edge list that forms a path in the graph and any
  final-hop parameters, the route built by `newRoute` (Go integer semantics)
  pays every forwarding node at least its policy fee (outbound + inbound,
  floored at zero), leaves it at least its time-lock delta, delivers exactly
  `amt`/`height + finalDelta` to the receiver and its totals are the sums of
  the per-hop fees and gaps.
-/
import LndModel.C19.ReachLemmas
import LndModel.C19.Finality
import LndModel.C19.CrossC09

namespace LndModel.C19

/-- The monitor is a verified oracle: whenever the executable checker accepts
    a route, the route satisfies every clause of the property. -/
theorem checker_meaning (g : Graph) (r : Req) (rt : Route) (H : routeOK g r rt = true) :
    RouteValid g r rt := by
  simp only [routeOK, Bool.and_eq_true, beq_iff_eq, decide_eq_true_eq] at H
  obtain ⟨⟨⟨⟨⟨h1, h2⟩, h3⟩, h4⟩, h5⟩, h6⟩ := H
  have hc := chainOK_valid h2
  exact ⟨h1, hc.1, hc.2, h3, h4, h5, h6⟩

/-- … and conversely the checker accepts every route that satisfies the property:
    the monitor never fires on a route for which the property holds. -/
theorem checker_complete (g : Graph) (r : Req) (rt : Route) (H : RouteValid g r rt) :
    routeOK g r rt = true := by
  obtain ⟨h1, h2, h3, h4, h5, h6, h7⟩ := H
  simp only [routeOK, Bool.and_eq_true, beq_iff_eq, decide_eq_true_eq]
  exact ⟨⟨⟨⟨⟨h1, chainOK_complete h2 h3⟩, h4⟩, h5⟩, h6⟩, h7⟩

/-- Soundness of route construction, for every path and every final-hop
    parameters (no-overflow hypothesis `Fits`). -/
theorem newRoute_sound (g : Graph) (src : Nat) (es : List UEdge) (height amt fdelta : Nat)
    (hp : PathIn g src es) (hf : Fits height amt fdelta es) :
    ∃ rt, newRoute src es height amt fdelta = some rt ∧ rt.source = src ∧
      FeesValid g amt (height + fdelta) src rt.totalAmt rt.totalTL rt.hops ∧
      rt.totalAmt = amt + rt.hopFees.sum ∧
      rt.totalTL = height + fdelta + rt.hopGaps.sum ∧
      rt.hops.map (·.chan) = es.map (·.chan) ∧ rt.hops.map (·.to) = es.map (·.to) := by
  rw [newRoute_eq hf]
  cases es with
  | nil => simp [PathIn] at hp
  | cons e rest =>
    refine ⟨_, rfl, rfl, ?_⟩
    have hfees := buildI_fees g (e :: rest) (h := height) (amt := amt) (fd := fdelta) hp
    have hs := fees_sums hfees
    have hc := buildI_chans height amt fdelta (e :: rest)
    exact ⟨hfees, hs.1, hs.2, hc.1, hc.2⟩

/-- Soundness of the search, under Dijkstra's finality discipline as an explicit
    hypothesis: if the chain `E` that `findPath` returns was built by relaxing,
    from the target backwards, each edge with the entry that is finally stored
    for its head node (`Reach`: every edge is the one `getEdge` picks —
    `amtInRange`, disabled filter, local bandwidth, outgoing-channel restriction
    — and passes `processEdge` — fee limit and CLTV limit on the accumulated
    totals, ignored nodes/pairs — and the last-hop restriction holds), and only
    the first edge leaves the source, then `newRoute E` succeeds and the route
    satisfies the complete property `RouteValid`; the amount the search
    accounted for at the source is the route's total amount.

    Full statement (not proved): the same for every run of the relaxation
    system, with finality ("the entry of a popped node is never overwritten")
    derived from the monotonicity of the distance along extensions instead of
    being assumed through `Reach`. -/
theorem search_sound_partial (g : Graph) (r : Req) (hg : GraphOK g) {y : Entry} {E : List UEdge}
    (hR : Reach g r r.source y E) (hne : E ≠ [])
    (hsrc : ∀ e ∈ E.tail, e.frm ≠ r.source)
    (hf : Fits r.height r.amt r.finalDelta E) :
    ∃ rt, newRoute r.source E r.height r.amt r.finalDelta = some rt ∧ RouteValid g r rt ∧
      rt.totalAmt = y.recv := by
  cases E with
  | nil => exact absurd rfl hne
  | cons e path =>
    have inv := reach_inv hg hR e path rfl hsrc hf
    rw [newRoute_eq hf]
    refine ⟨_, rfl, ?_, ?_⟩
    · have hfees := buildI_fees g (e :: path) (h := r.height) (amt := r.amt) (fd := r.finalDelta)
        inv.pathIn
      have hs := fees_sums hfees
      have hesrc : e.frm = r.source := (PathIn_head inv.pathIn).2
      obtain ⟨hamt, hhf⟩ := fits_base (es := e :: path) (by simp) hf
      obtain ⟨_, httl⟩ := fits_top (es := e :: path) (by simp) hf
      refine ⟨rfl, inv.hops, hfees, inv.feeLim, ?_, hs.1, hs.2⟩
      have hc := inv.cltv
      have hl := inv.cltvLim
      have hdl : r.dlOf e = 0 := by simp [Req.dlOf, hesrc]
      rw [hdl] at hc
      rw [hc] at hl
      rw [i32_of_range (by omega) (by omega), i32_of_range (by omega) (by omega)] at hl
      unfold u64OfInt at hl
      show (buildI r.height r.amt r.finalDelta (e :: path)).2.2 ≤ _
      omega
    · have hesrc : e.frm = r.source := (PathIn_head inv.pathIn).2
      obtain ⟨hA, _⟩ := fits_top (es := e :: path) (by simp) hf
      have ho := inv.out
      have hr := inv.recv
      have : r.outOf e (buildI r.height r.amt r.finalDelta (e :: path)).2.1 = 0 := by
        simp [Req.outOf, hesrc]
      rw [this] at ho
      rw [ho, Nat.add_zero, u64_of_lt (by omega)] at hr
      exact hr.symm

/-! ### The search loop itself (`findPath`'s main loop, `Run`) -/

/-- Pointer-chain consistency of the distance map, for every reachable state of
    the main loop (any probability source with values in `(0,1]`, any order of
    the incoming edges, any choice among equal heap minima) in which no stored
    entry was computed with an overflowing `edgeWeight`: following `nextHop`
    from any node `v` of the map reaches the target over edges `E`, and each
    entry on the way is what `getEdge` + `processEdge` compute from the entry
    of its successor AS IT IS NOW STORED (`Link`; in particular a `Reach`). -/
theorem pointer_chain_consistent (A : ProbAlg) (hA : A.Lawful) (g : Graph) (r : Req) (c : SCfg)
    (hg : GraphOK g) {s : SState A.P} (hrun : Run A g r c s) (hw : s.wrapped = false)
    {v : Nat} {x : NodeEnt A.P} (hv : getD s.D v = some x) :
    ∃ E, Link g r s.D s.opn v x E ∧ Reach g r v x.ent E ∧
      walk s.D r.target E.length v = some E := by
  obtain ⟨E, hl⟩ := (run_inv hA hg hrun hw).link v x hv
  exact ⟨E, hl, link_reach hl, link_walk_total hl⟩

/-- Dijkstra finality, derived (not assumed): in every reachable state a
    `processEdge` call never replaces the entry of an expanded node (a node of
    the distance map that is no longer on the heap).  Uses: accumulated weight
    does not decrease (`edgeWeight ≥ 0` because the fee is floored at zero and no
    int64 overflow happened), edge probabilities are at most one, the distance
    function is monotone, and `heap.Pop` returns a `Less`-minimal element. -/
theorem expanded_entry_final (A : ProbAlg) (hA : A.Lawful) (g : Graph) (r : Req) (c : SCfg)
    (hg : GraphOK g) {s : SState A.P} (hrun : Run A g r c s) (u : Nat) (ep : A.P)
    (hep : A.valid ep = true) (hw : (relaxStep A g r c s u ep).wrapped = false)
    {v : Nat} {x : NodeEnt A.P} (hv : getD s.D v = some x) (hclosed : v ∉ s.opn) :
    getD (relaxStep A g r c s u ep).D v = some x ∧ v ∉ (relaxStep A g r c s u ep).opn := by
  rcases relaxStep_spec A g r c s u ep with h | ⟨e, y, he, hy, hb, heq⟩
  · rw [h]; exact ⟨hv, hclosed⟩
  · rw [heq] at hw ⊢
    have hw' : (s.wrapped || !weightFits s.pv.weight (sendAmt e s.pv.ent) (relFee e s.pv.ent y)
        (r.dlOf e)) = false := hw
    simp only [Bool.or_eq_false_iff, Bool.not_eq_false'] at hw'
    have hI := run_inv hA hg hrun hw'.1
    obtain ⟨_, _, _, _, _, _, _, hopen⟩ := relax_facts hA hI he hep hw'.2 hb
    have hvu : v ≠ u := by
      intro h
      subst h
      exact hclosed (hopen x hv)
    refine ⟨by rw [storeState_D, getD_cons_ne _ _ hvu]; exact hv, ?_⟩
    intro hmem
    rcases (storeState_mem s u _ _ v).mp hmem with h | h
    · exact hvu h
    · exact hclosed h

/-- Soundness of the search, with NO finality hypothesis: whatever the
    reconstruction loop (`walk`: follow `nextHop` from the source) returns in
    any reachable state of the main loop is a chain for which `newRoute`
    succeeds, the route satisfies the complete property `RouteValid`, and its
    total amount is the amount stored for the source.  Remaining hypotheses:
    `Fits` (no uint64/int64 overflow in `newRoute`'s fee arithmetic along the
    returned chain — necessary, see `fee_wrap_violates_*`) and
    `s.wrapped = false` (no int64 overflow of `edgeWeight` / accumulated weight
    in an entry stored during this search; it needs amount·delta·15 ≥ 2^63). -/
theorem search_sound (A : ProbAlg) (hA : A.Lawful) (g : Graph) (r : Req) (c : SCfg)
    (hg : GraphOK g) {s : SState A.P} (hrun : Run A g r c s) (hw : s.wrapped = false)
    {fuel : Nat} {E : List UEdge} (hE : walk s.D r.target fuel r.source = some E)
    (hf : Fits r.height r.amt r.finalDelta E) :
    ∃ x rt, getD s.D r.source = some x ∧
      newRoute r.source E r.height r.amt r.finalDelta = some rt ∧ RouteValid g r rt ∧
      rt.totalAmt = x.ent.recv := by
  cases fuel with
  | zero => simp [walk] at hE
  | succ n =>
    cases hx : getD s.D r.source with
    | none => simp [walk, hx] at hE
    | some x =>
      obtain ⟨E', hl⟩ := (run_inv hA hg hrun hw).link _ x hx
      have hEE := link_walk hl _ _ hE
      subst hEE
      obtain ⟨E'', hE'', _⟩ := link_head hl
      obtain ⟨rt, h1, h2, h3⟩ := search_sound_partial g r hg (link_reach hl)
        (by rw [hE'']; exact List.cons_ne_nil _ _) (link_tail_src hl) hf
      exact ⟨x, rt, rfl, h1, h2, h3⟩

/-- A lawful probability algebra (fixed point, parts per million; attempt cost
    `pen`, minimum probability `minp`): the hypotheses `ProbAlg.Lawful` are
    satisfiable. -/
def fixAlg (pen minp : Nat) : ProbAlg :=
  { P := Nat, le := fun p q => decide (p ≤ q), mul := fun p q => p * q / 1000000, one := 1000000,
    dist := fun w p => w + ((pen * 1000000 / max p 1 : Nat) : Int),
    valid := fun p => decide (0 < p) && decide (p ≤ 1000000),
    minOk := fun p => decide (minp ≤ p) }

theorem fixAlg_lawful (pen minp : Nat) : (fixAlg pen minp).Lawful := by
  refine ⟨?_, ?_, ?_, ?_, ?_⟩
  · intro p q
    simp only [fixAlg, decide_eq_true_eq]
    omega
  · intro p q s
    simp only [fixAlg, decide_eq_true_eq]
    omega
  · intro p q hq
    simp only [fixAlg, Bool.and_eq_true, decide_eq_true_eq] at hq ⊢
    apply Nat.div_le_of_le_mul
    rw [Nat.mul_comm 1000000 p]
    exact Nat.mul_le_mul_left p hq.2
  · intro w w' (p : Nat) (p' : Nat) hw hp
    simp only [fixAlg, decide_eq_true_eq] at hp ⊢
    have : pen * 1000000 / max p 1 ≤ pen * 1000000 / max p' 1 :=
      Nat.div_le_div_left (by omega) (by omega)
    generalize pen * 1000000 / max p 1 = a at *
    generalize pen * 1000000 / max p' 1 = b at *
    omega
  · intro w (p : Nat) hw
    simp only [fixAlg]
    generalize pen * 1000000 / max p 1 = a
    omega

/-! ### Cross-property link to C09 (forwarding decision of every hop) -/

/-- C19's per-hop fee demand is C09's `requiredFee` (outbound fee of the outgoing
    channel + inbound fee of the incoming channel on amount + outbound fee, rate
    clamped, truncating division), floored at zero: the formulas coincide. -/
theorem requiredFee_coincides_C09 (p : Policy) (inb : Int × Int) (amtIn out tlIn tlOut height : Nat) :
    (requiredFee p inb out : Int) =
      max 0 (C09.Spec.requiredFee (toC09Policy p) (toC09Inputs amtIn out tlIn tlOut height inb)) :=
  requiredFee_eq_C09 p inb amtIn out tlIn tlOut height

/-- Every hop of a route that satisfies C19 passes C09's forwarding check at
    that hop: at each forwarding node, `CheckHtlcForward` (C09's exact-integer
    decision `C09.Spec.checkHtlcForward`, which C09 proves equal to the Go
    arithmetic on its domain) evaluated with the node's own graph policy for the
    outgoing channel, its inbound fee on the incoming channel and the route's
    amounts/expiries accepts — fee, time-lock delta, min/max HTLC — for every
    run-time state of the node in which the rules that do not depend on the
    route hold (expiry not too soon / too far for the current height,
    bandwidth of the outgoing link, incoming−outgoing delta ≤ max CLTV). -/
theorem route_hop_passes_C09 (g : Graph) (r : Req) (rt : Route) (H : RouteValid g r rt) :
    AllFwdPassC09 g r.source rt.totalAmt rt.totalTL rt.hops :=
  chain_passes_C09 H.hops H.fees

/-- … in particular for every route the monitor accepts. -/
theorem routeOK_hop_passes_C09 (g : Graph) (r : Req) (rt : Route) (H : routeOK g r rt = true) :
    AllFwdPassC09 g r.source rt.totalAmt rt.totalTL rt.hops :=
  route_hop_passes_C09 g r rt (checker_meaning g r rt H)

/-! ### Invoice route hints (`RouteHintsToEdges`) -/

/-- `cs` is a chain of one-directional channels from `a` to `b`. -/
def ChansPath : Nat → Nat → List Chan → Prop
  | a, b, [] => a = b
  | a, b, c :: cs => c.n1 = a ∧ c.p1.isSome = true ∧ c.p2 = none ∧ ChansPath c.n2 b cs

/-- The additional edges of one route hint form a connected chain from the
    first hop hint's node to the target, over exactly the hinted channels in
    order, each carrying its own hop hint's fee policy (the edge of hop hint
    `i` ends where hop hint `i+1` starts). -/
theorem hintChans_path (target : Nat) : ∀ (h : HopHint) (hs : List HopHint),
    ChansPath h.node target (hintChans target (h :: hs)) ∧
    (hintChans target (h :: hs)).map (·.id) = (h :: hs).map (·.chan) ∧
    (hintChans target (h :: hs)).map (·.p1) = (h :: hs).map (fun x => some x.policy)
  | h, [] => by simp [hintChans, ChansPath]
  | h, h' :: rest => by
    obtain ⟨i1, i2, i3⟩ := hintChans_path target h' rest
    simp only [hintChans, ChansPath, List.map_cons, Option.isSome_some]
    exact ⟨by simp [i1], by rw [i2]; rfl, by rw [i3]; rfl⟩

/-- hint chains between blinded hops are connected … -/
theorem zeroChans_path : ∀ (id a : Nat) (rest : List Nat) (l : Nat),
    (a :: rest).getLast? = some l → ChansPath a l (zeroChans id (a :: rest))
  | id, a, [], l, h => by
    simp at h
    simp [zeroChans, ChansPath, h]
  | id, a, b :: rest, l, h => by
    have h' : (b :: rest).getLast? = some l := by simpa [List.getLast?_cons_cons] using h
    have ih := zeroChans_path (id + 1) b rest l h'
    simp [zeroChans, ChansPath, ih]

/-- A blinded path is a connected hint chain from the introduction node to its
    last node whose FIRST edge carries the aggregate policy, including both the
    minimum and the maximum HTLC of the blinded portion. -/
theorem blindedChans_path (id : Nat) (hasMax : Bool) (agg : BlindedAgg) (a b : Nat)
    (rest : List Nat) (l : Nat) (h : (b :: rest).getLast? = some l) :
    ChansPath a l (blindedChans id hasMax agg (a :: b :: rest)) ∧
    (blindedChans id hasMax agg (a :: b :: rest)).head?.bind (·.p1) =
      some ⟨agg.min, agg.max, hasMax, agg.base, agg.rate, agg.delta, false, 0, 0⟩ := by
  have ih := zeroChans_path (id + 1) b rest l h
  simp [blindedChans, ChansPath, ih]

/-- with the flag set, the executable checker rejects an amount above the
    blinded maximum on the aggregate edge (and accepts it at the maximum). -/
example : amtFits ⟨0, 1000, true, 0, 0, 40, false, 0, 0⟩ fakeHopHintCap 1001 = false ∧
    amtFits ⟨0, 1000, true, 0, 0, 40, false, 0, 0⟩ fakeHopHintCap 1000 = true := by decide

/-! ### Non-vacuity -/

/-- A three-node line `0 —1→ 1 —2→ 2` where node 1 charges 1000 msat + 1 %, with a
    negative inbound fee of −500 msat on channel 1, delta 40. -/
def exGraph : Graph :=
  [ ⟨1, 0, 1, 100000, some ⟨1, 0, false, 0, 0, 144, false, 0, 0⟩,
                       some ⟨1, 0, false, 7, 1, 18, false, -500, 0⟩⟩,
    ⟨2, 1, 2, 100000, some ⟨1000, 50000000, true, 1000, 10000, 40, false, 0, 0⟩, none⟩ ]

def exReq : Req :=
  { self := 0, source := 0, target := 2, amt := 1000000, feeLimit := 10500, cltvLimit := 40,
    height := 800000, finalDelta := 9, lastHop := some 1, outChans := [1], ignNodes := [],
    ignPairs := [(2, 1)], bw := [(1, 1010500)] }

def exEdges : List UEdge :=
  [⟨1, 0, 1, 0, 0, 144, -500, 0, 100000⟩, ⟨2, 1, 2, 1000, 10000, 40, 0, 0, 100000⟩]

def exRoute : Route :=
  ⟨0, 1010500, 800049, [⟨1, 1, 1000000, 800009⟩, ⟨2, 2, 1000000, 800009⟩]⟩

example : newRoute 0 exEdges 800000 1000000 9 = some exRoute := by decide
example : routeOK exGraph exReq exRoute = true := by decide
/-- the limits of `exReq` are tight: one msat less fee limit or one block less is rejected. -/
example : routeOK exGraph { exReq with feeLimit := 10499 } exRoute = false := by decide
example : routeOK exGraph { exReq with cltvLimit := 39 } exRoute = false := by decide
/-- underpaying node 1 by one msat is rejected. -/
example : routeOK exGraph exReq { exRoute with totalAmt := 1010499 } = false := by decide

/-- the hypotheses of `newRoute_sound` are satisfiable. -/
example : PathIn exGraph 0 exEdges ∧ Fits 800000 1000000 9 exEdges := by
  refine ⟨⟨⟨_, _, rfl, rfl, rfl, by decide⟩, rfl, rfl, ⟨_, _, rfl, rfl, rfl, by decide⟩, rfl⟩, ?_⟩
  refine ⟨⟨by decide, by decide⟩, ⟨by decide, by decide, by decide, by decide, by decide⟩, by decide⟩

/-- the hypotheses of `search_sound_partial` are satisfiable: the search reaches the
    source of `exReq` over exactly `exEdges`. -/
example : GraphOK exGraph ∧ Reach exGraph exReq exReq.source ⟨1010500, 0, 800049⟩ exEdges ∧
    (∀ e ∈ exEdges.tail, e.frm ≠ exReq.source) := by
  refine ⟨⟨by decide, by decide⟩, ?_, by decide⟩
  have h1 : Reach exGraph exReq 1 ⟨1011000, 11000, 800049⟩ [⟨2, 1, 2, 1000, 10000, 40, 0, 0, 100000⟩] :=
    Reach.step Reach.start (by decide) (by decide) (by decide)
  exact Reach.step h1 (by intro h; cases h) (by decide) (by decide)

/-- the hypotheses of `search_sound` are satisfiable: a complete run of the main
    loop on `exReq` (relax 1→2 with edge probability 0.95, pop node 1, relax 0→1,
    pop the source), ending with the source popped, no wrapped weight, and the
    reconstruction returning `exEdges`. -/
def exCfg : SCfg := ⟨40, 1300⟩
def exAlg : ProbAlg := fixAlg 100000 10000
def exS1 : SState exAlg.P :=
  relaxStep exAlg exGraph exReq exCfg (SState.init exAlg.one exReq exCfg) 1 (950000 : Nat)
def exS2 : SState exAlg.P := popStep exReq exS1 1
def exS3 : SState exAlg.P := relaxStep exAlg exGraph exReq exCfg exS2 0 (1000000 : Nat)
def exS4 : SState exAlg.P := popStep exReq exS3 0

example : Run exAlg exGraph exReq exCfg exS4 ∧ exS4.wrapped = false ∧ exS4.done = true ∧
    walk exS4.D exReq.target 3 exReq.source = some exEdges := by
  refine ⟨?_, by decide, by decide, by decide⟩
  exact Run.pop 0 (Run.relax 0 _ (Run.pop 1 (Run.relax 1 _ Run.init (by decide)) (by decide)
    (by decide)) (by decide)) (by decide) (by decide)

/-- `route_hop_passes_C09` on the example: node 1 of `exRoute` accepts the forward
    under C09's decision (reject delta 3, max CLTV 2016, bandwidth 2·10^6), and
    rejects it with `FeeInsufficient` when the route underpays by one msat. -/
example : AllFwdPassC09 exGraph exReq.source exRoute.totalAmt exRoute.totalTL exRoute.hops :=
  route_hop_passes_C09 exGraph exReq exRoute (checker_meaning _ _ _ (by decide))
example : C09.Spec.checkHtlcForward (toC09Policy ⟨1000, 50000000, true, 1000, 10000, 40, false, 0, 0⟩)
    ⟨3, 2016, 2000000⟩ (toC09Inputs 1010500 1000000 800049 800009 800000 (-500, 0)) = .accept := by
  decide
example : C09.Spec.checkHtlcForward (toC09Policy ⟨1000, 50000000, true, 1000, 10000, 40, false, 0, 0⟩)
    ⟨3, 2016, 2000000⟩ (toC09Inputs 1010499 1000000 800049 800009 800000 (-500, 0)) =
      .feeInsufficient := by
  decide
/-- a chained route hint `5 —1001→ 6 —1002→ target 2`. -/
example : (hintChans 2 [⟨5, 1001, 1000, 1, 40⟩, ⟨6, 1002, 2000, 0, 30⟩]).map (fun c => (c.id, c.n1, c.n2)) =
    [(1001, 5, 6), (1002, 6, 2)] := by decide

/-! ### The `Fits` hypothesis is necessary (finding: fee arithmetic wraps)

Both instances are reproduced on the real `findPath` + `newRoute` by the
harness corpus (cases 1 and 2 of every run) and reported by the monitor as
`clause=fee+overflow`. -/

def ovReq (amt : Nat) : Req :=
  { self := 0, source := 0, target := 2, amt := amt, feeLimit := 18446744073709551615,
    cltvLimit := 4294967295, height := 800000, finalDelta := 40, lastHop := none,
    outChans := [], ignNodes := [], ignPairs := [], bw := [] }

/-- `0 —1→ 1 —2→ 2`; node 1 charges the maximal uint32 proportional fee. -/
def ovGraphA : Graph :=
  [ ⟨1, 0, 1, 8589934592, some ⟨0, 0, false, 0, 0, 40, false, 0, 0⟩, none⟩,
    ⟨2, 1, 2, 8589934592, some ⟨0, 0, false, 0, 4294967295, 40, false, 0, 0⟩, none⟩ ]
def ovEdgesA : List UEdge :=
  [⟨1, 0, 1, 0, 0, 40, 0, 0, 8589934592⟩, ⟨2, 1, 2, 0, 4294967295, 40, 0, 0, 8589934592⟩]

/-- node 1 charges an inbound fee at the clamp (10^7 ppm) on channel 1. -/
def ovGraphB : Graph :=
  [ ⟨1, 0, 1, 8589934592, some ⟨0, 0, false, 0, 0, 40, false, 0, 0⟩,
                          some ⟨0, 0, false, 0, 0, 40, false, 0, 10000000⟩⟩,
    ⟨2, 1, 2, 8589934592, some ⟨0, 0, false, 0, 0, 40, false, 0, 0⟩, none⟩ ]
def ovEdgesB : List UEdge :=
  [⟨1, 0, 1, 0, 0, 40, 0, 10000000, 8589934592⟩, ⟨2, 1, 2, 0, 0, 40, 0, 0, 8589934592⟩]

/-- `ComputeFee` wraps in uint64 (`amt * rate = 2^64 + 2^32 − 2`): the search admits
    the chain, `newRoute` builds a route that leaves node 1 4294 msat, while the
    exact policy fee is 18446744078004 msat — the route is not `RouteValid`. -/
theorem fee_wrap_violates_computeFee :
    PathIn ovGraphA 0 ovEdgesA ∧
    Reach ovGraphA (ovReq 4294967298) 0 ⟨4294971592, 0, 800080⟩ ovEdgesA ∧
    newRoute 0 ovEdgesA 800000 4294967298 40 =
      some ⟨0, 4294971592, 800080, [⟨1, 1, 4294967298, 800040⟩, ⟨2, 2, 4294967298, 800040⟩]⟩ ∧
    requiredFee ⟨0, 0, false, 0, 4294967295, 40, false, 0, 0⟩ (0, 0) 4294967298 = 18446744078004 ∧
    ¬ RouteValid ovGraphA (ovReq 4294967298)
      ⟨0, 4294971592, 800080, [⟨1, 1, 4294967298, 800040⟩, ⟨2, 2, 4294967298, 800040⟩]⟩ := by
  refine ⟨⟨⟨_, _, rfl, rfl, rfl, by decide⟩, rfl, rfl, ⟨_, _, rfl, rfl, rfl, by decide⟩, rfl⟩,
    ?_, by decide, by decide, ?_⟩
  · have h1 : Reach ovGraphA (ovReq 4294967298) 1 ⟨4294971592, 4294, 800080⟩
        [⟨2, 1, 2, 0, 4294967295, 40, 0, 0, 8589934592⟩] :=
      Reach.step Reach.start (by intro _ l h; cases h) (by decide) (by decide)
    exact Reach.step h1 (by intro h; cases h) (by decide) (by decide)
  · intro h
    have := checker_complete _ _ _ h
    revert this
    decide

/-- `InboundFee.CalcFee` wraps in int64 (`10^7 * 930000000000 ≥ 2^63`): node 1 is left
    0 msat while its exact inbound fee is 9.3·10^12 msat. -/
theorem fee_wrap_violates_calcFee :
    PathIn ovGraphB 0 ovEdgesB ∧
    Reach ovGraphB (ovReq 930000000000) 0 ⟨930000000000, 0, 800080⟩ ovEdgesB ∧
    newRoute 0 ovEdgesB 800000 930000000000 40 =
      some ⟨0, 930000000000, 800080, [⟨1, 1, 930000000000, 800040⟩, ⟨2, 2, 930000000000, 800040⟩]⟩ ∧
    requiredFee ⟨0, 0, false, 0, 0, 40, false, 0, 0⟩ (0, 10000000) 930000000000 = 9300000000000 ∧
    ¬ RouteValid ovGraphB (ovReq 930000000000)
      ⟨0, 930000000000, 800080, [⟨1, 1, 930000000000, 800040⟩, ⟨2, 2, 930000000000, 800040⟩]⟩ := by
  refine ⟨⟨⟨_, _, rfl, rfl, rfl, by decide⟩, by unfold InbIn; decide, rfl, ⟨_, _, rfl, rfl, rfl, by decide⟩, rfl⟩,
    ?_, by decide, by decide, ?_⟩
  · have h1 : Reach ovGraphB (ovReq 930000000000) 1 ⟨930000000000, 0, 800080⟩
        [⟨2, 1, 2, 0, 0, 40, 0, 0, 8589934592⟩] :=
      Reach.step Reach.start (by intro _ l h; cases h) (by decide) (by decide)
    exact Reach.step h1 (by intro h; cases h) (by decide) (by decide)
  · intro h
    have := checker_complete _ _ _ h
    revert this
    decide

end LndModel.C19
