/-
C19 model of the glue between a payment and the search in
`paymentSession.RequestRoute` (routing/payment_session.go): the final CLTV delta
gets `BlockPadding` added (uint16), the search's CLTV limit is the payment's
limit minus that padded delta (uint32 subtraction), the final HTLC expiry is
`int32(height) + int32(delta)`, fee limit and amount are handed through; and the
guard `ValidateCLTVLimit` that the RPC layer applies to the payment before.
Core Lean only.
-/
import LndModel.C19.Model
import LndModel.C19.Spec
namespace LndModel.C19

def u16 (n : Nat) : Nat := n % 2 ^ 16

/-- the fields of `LightningPayment` that `RequestRoute` turns into restrictions. -/
structure Payment where
  /-- `CltvLimit` (uint32): maximum total time lock relative to the height, INCLUDING the
      final delta. -/
  cltvLimit : Nat
  /-- `FinalCLTVDelta` (uint16), as demanded by the invoice. -/
  finalDelta : Nat
deriving Repr, Inhabited

/-- `finalCltvDelta := p.payment.FinalCLTVDelta; finalCltvDelta += BlockPadding` (uint16). -/
def sessFinalDelta (p : Payment) : Nat := u16 (p.finalDelta + blockPadding)

/-- `cltvLimit := p.payment.CltvLimit - uint32(finalCltvDelta)` (uint32, wraps). -/
def sessCltvLimit (p : Payment) : Nat := u32 (p.cltvLimit + 2 ^ 32 - sessFinalDelta p)

/-- `finalHtlcExpiry := int32(height) + int32(finalCltvDelta)`. -/
def sessFinalExpiry (height : Nat) (p : Payment) : Int := i32 (i32 height + i32 (sessFinalDelta p))

/-- `ValidateCLTVLimit(limit, delta, includePad = true)`: `true` = no error. -/
def validateCltvLimit (p : Payment) : Bool := !decide (p.cltvLimit ≤ u16 (p.finalDelta + blockPadding))

/-- The request the search and `newRoute` are run with. -/
def sessReq (r : Req) (p : Payment) : Req :=
  { r with cltvLimit := sessCltvLimit p, finalDelta := sessFinalDelta p }

theorem sessFinalDelta_eq (p : Payment) (hd : p.finalDelta + blockPadding < 2 ^ 16) :
    sessFinalDelta p = p.finalDelta + blockPadding := by
  unfold sessFinalDelta u16
  exact Nat.mod_eq_of_lt hd
theorem sessCltvLimit_eq (p : Payment) (hge : sessFinalDelta p ≤ p.cltvLimit) (hl : p.cltvLimit < 2 ^ 32) :
    sessCltvLimit p = p.cltvLimit - sessFinalDelta p := by
  unfold sessCltvLimit u32
  generalize sessFinalDelta p = d at *
  have : p.cltvLimit + 2 ^ 32 - d = (p.cltvLimit - d) + 2 ^ 32 := by omega
  rw [this, Nat.add_mod_right]
  exact Nat.mod_eq_of_lt (by omega)
theorem validate_lt (p : Payment) (hv : validateCltvLimit p = true) (hd : p.finalDelta + blockPadding < 2 ^ 16) :
    sessFinalDelta p < p.cltvLimit := by
  unfold validateCltvLimit at hv
  rw [sessFinalDelta_eq p hd]
  unfold u16 at hv
  rw [Nat.mod_eq_of_lt hd] at hv
  simpa using hv

theorem routeValid_limits (g : Graph) (r : Req) (rt : Route) (a b : Nat)
    (H : RouteValid g { r with cltvLimit := a, finalDelta := b } rt) :
    rt.totalTL ≤ r.height + b + a ∧ rt.totalTL = r.height + b + rt.hopGaps.sum :=
  ⟨H.cltvLimit, H.sumGaps⟩

/-- **The payer's CLTV limit is honoured and the receiver gets its padded delta.**
    For a payment that passes `ValidateCLTVLimit` (and whose padded delta does not
    wrap uint16), every route that is `RouteValid` for the request `RequestRoute`
    derives — by `search_sound`, every route the search returns — has a total time
    lock of at most `height + payment.CltvLimit`, and its final hop's expiry is at
    least `height + FinalCLTVDelta + BlockPadding`. -/
theorem sess_route_within_payment_cltv (g : Graph) (r : Req) (p : Payment) (rt : Route)
    (hv : validateCltvLimit p = true) (hd : p.finalDelta + blockPadding < 2 ^ 16)
    (hl : p.cltvLimit < 2 ^ 32) (H : RouteValid g (sessReq r p) rt) :
    rt.totalTL ≤ r.height + p.cltvLimit ∧
      rt.totalTL = r.height + (p.finalDelta + blockPadding) + rt.hopGaps.sum := by
  have hlt := validate_lt p hv hd
  obtain ⟨h1, h2⟩ := routeValid_limits g r rt (sessCltvLimit p) (sessFinalDelta p) H
  rw [sessCltvLimit_eq p (Nat.le_of_lt hlt) hl] at h1
  rw [sessFinalDelta_eq p hd] at h1 h2 hlt
  exact ⟨by omega, h2⟩

/-- Without the guard the subtraction wraps: a payment whose CLTV limit is below its padded
    final delta yields a search limit of almost 2^32 blocks (`ValidateCLTVLimit` is what keeps
    `RequestRoute` sound; it is applied by the RPC layer, not by `RequestRoute` itself). -/
example : validateCltvLimit ⟨40, 40⟩ = false ∧ sessCltvLimit ⟨40, 40⟩ = 4294967293 := by decide

/-- satisfiable hypotheses: limit 184 = 144 + 40 passes the guard with delta 37 (+3). -/
example : validateCltvLimit ⟨184, 37⟩ = true ∧ sessCltvLimit ⟨184, 37⟩ = 144 ∧
    sessFinalDelta ⟨184, 37⟩ = 40 ∧ sessFinalExpiry 800000 ⟨184, 37⟩ = 800040 := by decide

end LndModel.C19
