/-
C19 helper lemmas for the search: graph lookups, soundness of the edge
unification folds (`getEdgeLocal`, `getEdgeNetwork`, `getEdge`).
-/
import LndModel.C19.Lemmas
namespace LndModel.C19

theorem find_of_mem_nodup : ∀ {g : Graph} {c : Chan}, (g.map (·.id)).Nodup → c ∈ g →
    g.find? (fun x => x.id == c.id) = some c
  | [], _, _, hc => by simp at hc
  | a :: g, c, hn, hc => by
    simp only [List.map_cons, List.nodup_cons] at hn
    simp only [List.find?_cons]
    rcases List.mem_cons.mp hc with rfl | hc'
    · simp
    · have hne : ¬ (a.id = c.id) := by
        intro h
        apply hn.1
        rw [h]
        exact List.mem_map.mpr ⟨c, hc', rfl⟩
      have hb : (a.id == c.id) = false := by simp [hne]
      rw [hb]
      exact find_of_mem_nodup hn.2 hc'

theorem cands_sound {g : Graph} {frm to : Nat} {ui : Bool} {c : Cand} (hg : GraphOK g)
    (hc : c ∈ g.cands frm to ui) :
    g.dirPol c.chan frm to = some (c.pol, c.cap) ∧
    (ui = true → (c.inBase, c.inRate) = g.inboundOf c.chan frm to) ∧
    (ui = false → c.inBase = 0 ∧ c.inRate = 0) := by
  unfold Graph.cands at hc
  obtain ⟨ch, hch, hf⟩ := List.mem_filterMap.mp hc
  have hfind := find_of_mem_nodup hg.1 hch
  have hne := hg.2 ch hch
  dsimp only at hf
  split at hf
  · rename_i h1
    simp only [Bool.and_eq_true, beq_iff_eq] at h1
    have hft : ¬ (frm = to) := by rw [← h1.1, ← h1.2]; exact hne
    have hne' : ¬ (ch.n1 = to ∧ ch.n2 = frm) := by
      intro h; apply hne; rw [h.1, ← h1.2]
    cases hp : ch.p1 with
    | none => simp [hp] at hf
    | some p =>
      simp only [hp, Option.map_some, Option.some.injEq] at hf
      cases ui with
      | true =>
        simp only [if_true] at hf
        subst hf
        refine ⟨?_, ?_, by simp⟩
        · simp [Graph.dirPol, hfind, h1, hp]
        · intro _
          have e1 : (ch.n1 == to && ch.n2 == frm) = false := by simp [h1, hft]
          have e2 : (ch.n2 == to && ch.n1 == frm) = true := by simp [h1]
          simp only [Graph.inboundOf, Graph.dirPol, hfind, e1, e2, if_true, Bool.false_eq_true,
            if_false]
          cases ch.p2 <;> rfl
      | false =>
        simp only [Bool.false_eq_true, if_false] at hf
        subst hf
        refine ⟨?_, by simp, by simp⟩
        simp [Graph.dirPol, hfind, h1, hp]
  · rename_i h1
    split at hf
    · rename_i h2
      simp only [Bool.and_eq_true, beq_iff_eq] at h2
      cases hp : ch.p2 with
      | none => simp [hp] at hf
      | some p =>
        simp only [hp, Option.map_some, Option.some.injEq] at hf
        have e2 : (ch.n2 == frm && ch.n1 == to) = true := by simp [h2]
        have e3 : (ch.n1 == to && ch.n2 == frm) = true := by simp [h2]
        cases ui with
        | true =>
          simp only [if_true] at hf
          subst hf
          refine ⟨?_, ?_, by simp⟩
          · simp [Graph.dirPol, hfind, h1, e2, hp]
          · intro _
            simp only [Graph.inboundOf, Graph.dirPol, hfind, e3, if_true]
            cases ch.p1 <;> rfl
        | false =>
          simp only [Bool.false_eq_true, if_false] at hf
          subst hf
          refine ⟨?_, by simp, by simp⟩
          simp [Graph.dirPol, hfind, h1, e2, hp]
    · simp at hf


/-- amount the search sends over candidate `c` into a pivot with entry `(recv, nextOut)`. -/
def amtOf (c : Cand) (recv nextOut : Nat) : Nat :=
  u64 (recv + u64OfInt (cappedIn c.inBase c.inRate recv nextOut))

theorem foldl_inv {α β : Type} (P : β → Prop) (f : β → α → β) (L : List α)
    (hf : ∀ s a, a ∈ L → P s → P (f s a)) :
    ∀ (cs : List α) (s : β), (∀ a ∈ cs, a ∈ L) → P s → P (cs.foldl f s)
  | [], s, _, hs => hs
  | a :: cs, s, hsub, hs => by
    simp only [List.foldl_cons]
    apply foldl_inv P f L hf cs
    · intro b hb; exact hsub b (List.mem_cons_of_mem _ hb)
    · exact hf s a (hsub a (List.mem_cons_self ..)) hs

def NetInv (L : List Cand) (recv nextOut : Nat) (s : NetAcc) : Prop :=
  ∀ c, s.best = some c → c ∈ L ∧ amtInRange c.pol c.cap (amtOf c recv nextOut) = true ∧
    c.pol.disabled = false ∧ c.pol.delta ≤ s.maxTL

theorem netStep_inv {L : List Cand} {recv nextOut : Nat} (s : NetAcc) (c : Cand) (hc : c ∈ L)
    (hs : NetInv L recv nextOut s) : NetInv L recv nextOut (netStep recv nextOut s c) := by
  unfold netStep
  dsimp only
  split
  · exact hs
  · rename_i hr
    split
    · exact hs
    · rename_i hd
      split
      · intro c0 h0
        obtain ⟨a1, a2, a3, a4⟩ := hs c0 h0
        refine ⟨a1, a2, a3, ?_⟩
        simp only
        omega
      · intro c0 h0
        simp only [Option.some.injEq] at h0
        subst h0
        refine ⟨hc, ?_, ?_, ?_⟩
        · simpa [amtOf] using hr
        · simpa using hd
        · simp only
          omega

theorem getEdgeNetwork_sound {cs : List Cand} {frm to recv nextOut : Nat} {e : UEdge}
    (h : getEdgeNetwork cs frm to recv nextOut = some e) :
    ∃ c ∈ cs, amtInRange c.pol c.cap (amtOf c recv nextOut) = true ∧ c.pol.disabled = false ∧
      c.pol.delta ≤ e.delta ∧ e.chan = c.chan ∧ e.frm = frm ∧ e.to = to ∧
      e.base = c.pol.base ∧ e.rate = c.pol.rate ∧ e.inBase = c.inBase ∧ e.inRate = c.inRate := by
  unfold getEdgeNetwork at h
  dsimp only at h
  have hinv : NetInv cs recv nextOut (cs.foldl (netStep recv nextOut) {}) :=
    foldl_inv (NetInv cs recv nextOut) (netStep recv nextOut) cs
      (fun s a ha hs => netStep_inv s a ha hs) cs {} (fun _ h => h) (by intro c hc; simp at hc)
  generalize cs.foldl (netStep recv nextOut) {} = s at h hinv
  cases hb : s.best with
  | none => simp [hb] at h
  | some c =>
    simp only [hb, Option.map_some, Option.some.injEq] at h
    obtain ⟨a1, a2, a3, a4⟩ := hinv c hb
    subst h
    exact ⟨c, a1, a2, a3, a4, rfl, rfl, rfl, rfl, rfl, rfl, rfl⟩

def LocInv (bwOf : Nat → Option Nat) (L : List Cand) (recv nextOut : Nat) (s : LocAcc) : Prop :=
  ∀ c, s.best = some c → c ∈ L ∧ amtInRange c.pol c.cap (amtOf c recv nextOut) = true ∧
    ∀ b, bwOf c.chan = some b → amtOf c recv nextOut ≤ b

theorem locStep_inv {bwOf : Nat → Option Nat} {L : List Cand} {recv nextOut : Nat} (s : LocAcc)
    (c : Cand) (hc : c ∈ L) (hs : LocInv bwOf L recv nextOut s) :
    LocInv bwOf L recv nextOut (locStep bwOf recv nextOut s c) := by
  unfold locStep
  dsimp only
  split
  · exact hs
  · rename_i hr
    split
    · exact hs
    · rename_i hbw
      split
      · exact hs
      · intro c0 h0
        simp only [Option.some.injEq] at h0
        subst h0
        refine ⟨hc, by simpa [amtOf] using hr, ?_⟩
        intro b hb
        rw [hb] at hbw
        simp only [amtOf, Option.getD_some] at hbw ⊢
        omega

theorem getEdgeLocal_sound {bwOf : Nat → Option Nat} {cs : List Cand}
    {frm to recv nextOut : Nat} {e : UEdge}
    (h : getEdgeLocal bwOf cs frm to recv nextOut = some e) :
    ∃ c ∈ cs, amtInRange c.pol c.cap (amtOf c recv nextOut) = true ∧
      (∀ b, bwOf c.chan = some b → amtOf c recv nextOut ≤ b) ∧
      c.pol.delta ≤ e.delta ∧ e.chan = c.chan ∧ e.frm = frm ∧ e.to = to ∧
      e.base = c.pol.base ∧ e.rate = c.pol.rate ∧ e.inBase = c.inBase ∧ e.inRate = c.inRate := by
  unfold getEdgeLocal at h
  dsimp only at h
  have hinv : LocInv bwOf cs recv nextOut (cs.foldl (locStep bwOf recv nextOut) {}) :=
    foldl_inv (LocInv bwOf cs recv nextOut) (locStep bwOf recv nextOut) cs
      (fun s a ha hs => locStep_inv s a ha hs) cs {} (fun _ h => h) (by intro c hc; simp at hc)
  generalize cs.foldl (locStep bwOf recv nextOut) {} = s at h hinv
  cases hb : s.best with
  | none => simp [hb] at h
  | some c =>
    simp only [hb, Option.map_some, Option.some.injEq] at h
    obtain ⟨a1, a2, a3⟩ := hinv c hb
    subst h
    exact ⟨c, a1, a2, a3, Nat.le_refl _, rfl, rfl, rfl, rfl, rfl, rfl, rfl⟩



/-- amount the search sends over edge `e` into a pivot with entry `x`. -/
def sendOf (e : UEdge) (x : Entry) : Nat :=
  u64 (x.recv + u64OfInt (cappedIn e.inBase e.inRate x.recv x.outFee))

theorem getEdge_sound {g : Graph} {r : Req} {frm to : Nat} {exit : Bool} {x : Entry} {e : UEdge}
    (hg : GraphOK g) (h : getEdge g r frm to exit x = some e) :
    ∃ p cap, g.dirPol e.chan frm to = some (p, cap) ∧ e.frm = frm ∧ e.to = to ∧
      e.base = p.base ∧ e.rate = p.rate ∧ p.delta ≤ e.delta ∧
      (exit = false → (e.inBase, e.inRate) = g.inboundOf e.chan frm to) ∧
      (exit = true → e.inBase = 0 ∧ e.inRate = 0) ∧
      amtInRange p cap (sendOf e x) = true ∧
      (frm ≠ r.self → p.disabled = false) ∧
      (frm = r.self → ∀ b, r.bwOf e.chan = some b → sendOf e x ≤ b) ∧
      (frm = r.self → r.outChans ≠ [] → e.chan ∈ r.outChans) := by
  unfold getEdge at h
  dsimp only at h
  split at h
  · rename_i hself
    have hself' : frm = r.self := by simpa using hself
    obtain ⟨c, hc, a1, a2, a3, a4, a5, a6, a7, a8, a9, a10⟩ := getEdgeLocal_sound h
    have hc' : c ∈ g.cands frm to (!exit) ∧ (r.outChans ≠ [] → c.chan ∈ r.outChans) := by
      split at hc
      · rename_i he
        refine ⟨hc, fun hne => ?_⟩
        simp [List.isEmpty_iff] at he
        exact absurd he hne
      · have := List.mem_filter.mp hc
        exact ⟨this.1, fun _ => by simpa using this.2⟩
    obtain ⟨b1, b2, b3⟩ := cands_sound hg hc'.1
    refine ⟨c.pol, c.cap, by rw [a4]; exact b1, a5, a6, a7, a8, a3, ?_, ?_, ?_, ?_, ?_, ?_⟩
    · intro he; rw [a9, a10, a4]; exact b2 (by simp [he])
    · intro he; rw [a9, a10]; exact b3 (by simp [he])
    · simpa [sendOf, amtOf, a9, a10] using a1
    · intro hne; exact absurd hself' hne
    · intro _ b hb
      have := a2 b (by rw [← a4]; exact hb)
      simpa [sendOf, amtOf, a9, a10] using this
    · intro _ hne; rw [a4]; exact hc'.2 hne
  · rename_i hself
    have hself' : frm ≠ r.self := by simpa using hself
    obtain ⟨c, hc, a1, a2, a3, a4, a5, a6, a7, a8, a9, a10⟩ := getEdgeNetwork_sound h
    obtain ⟨b1, b2, b3⟩ := cands_sound hg hc
    refine ⟨c.pol, c.cap, by rw [a4]; exact b1, a5, a6, a7, a8, a3, ?_, ?_, ?_, ?_, ?_, ?_⟩
    · intro he; rw [a9, a10, a4]; exact b2 (by simp [he])
    · intro he; rw [a9, a10]; exact b3 (by simp [he])
    · simpa [sendOf, amtOf, a9, a10] using a1
    · intro _; exact a2
    · intro he; exact absurd he hself'
    · intro he; exact absurd he hself'

end LndModel.C19
