/-
C19 model: route construction (`routing/pathfind.go: newRoute`), the fee
functions (`CachedEdgePolicy.ComputeFee`, `InboundFee.CalcFee`), the per-pair
edge unification (`routing/unified_edges.go`), the admissibility part of
`processEdge`, and the executable specification `routeOK` of the property
"every returned route is payable under all stated constraints".

Everything is core Lean (no Mathlib).  Go's fixed-width arithmetic is modelled
explicitly: `u64`/`u32` wrap unsigned values, `i64`/`i32` wrap signed values,
`Int.tdiv` is Go's truncating division.  The `…I` ("ideal") variants are the
same functions over unbounded `Nat`/`Int`; they are what the specification
uses, and `Lemmas.lean` proves the two coincide whenever nothing overflows.
-/
namespace LndModel.C19

/-! ## Go integer semantics -/

def u64 (n : Nat) : Nat := n % 2 ^ 64
def u32 (n : Nat) : Nat := n % 2 ^ 32
/-- two's complement reinterpretation / wrap to `int64`. -/
def i64 (z : Int) : Int := (z + 2 ^ 63) % 2 ^ 64 - 2 ^ 63
def i32 (z : Int) : Int := (z + 2 ^ 31) % 2 ^ 32 - 2 ^ 31
/-- `uint64(x)` of an `int64` value. -/
def u64OfInt (z : Int) : Nat := (z % 2 ^ 64).toNat

def feeRateParts : Nat := 1000000
/-- `models.maxFeeRate = 10 * feeRateParts`. -/
def maxFeeRate : Int := 10000000
def riskFactorBillionths : Nat := 15
def blockPadding : Nat := 3

/-! ## Graph -/

/-- One direction of a channel: the policy announced by the node that forwards
    *out* over the channel in this direction.  `inBase/inRate` is the inbound
    fee this same node charges for HTLCs *arriving* over the channel. -/
structure Policy where
  minHtlc : Nat
  maxHtlc : Nat
  hasMax : Bool
  base : Nat
  rate : Nat
  delta : Nat
  disabled : Bool
  inBase : Int
  inRate : Int
deriving Repr, BEq, Inhabited

/-- A channel between `n1` and `n2` with capacity `cap` (satoshi, 0 = unknown);
    `p1` is `n1`'s policy (direction `n1 → n2`), `p2` is `n2`'s. -/
structure Chan where
  id : Nat
  n1 : Nat
  n2 : Nat
  cap : Nat
  p1 : Option Policy
  p2 : Option Policy
deriving Repr, Inhabited

abbrev Graph := List Chan

/-- Policy of `frm` for forwarding over channel `cid` towards `to`, with the
    channel capacity; `none` when no such channel direction exists. -/
def Graph.dirPol (g : Graph) (cid frm to : Nat) : Option (Policy × Nat) :=
  match g.find? (fun c => c.id == cid) with
  | none => none
  | some c =>
    if c.n1 == frm && c.n2 == to then c.p1.map (fun p => (p, c.cap))
    else if c.n2 == frm && c.n1 == to then c.p2.map (fun p => (p, c.cap))
    else none

/-- Inbound fee `(base, rate)` that node `to` charges on channel `cid` for
    HTLCs arriving from `frm`: taken from `to`'s own policy on that channel
    (zero when `to` has not announced one). -/
def Policy.inb : Option Policy → Int × Int
  | some q => (q.inBase, q.inRate)
  | none => (0, 0)

def Graph.inboundOf (g : Graph) (cid frm to : Nat) : Int × Int :=
  Policy.inb ((g.dirPol cid to frm).map (·.1))

/-! ## Fee functions -/

/-- `CachedEdgePolicy.ComputeFee` (uint64). -/
def computeFee (base rate amt : Nat) : Nat :=
  u64 (base + u64 (amt * rate) / feeRateParts)

def computeFeeI (base rate amt : Nat) : Nat :=
  base + amt * rate / feeRateParts

def clampRate (r : Int) : Int :=
  if r > maxFeeRate then maxFeeRate else if r < -maxFeeRate then -maxFeeRate else r

/-- `InboundFee.CalcFee` (int64; `amt` is a uint64 converted with `int64(amt)`). -/
def calcInFee (ib ir : Int) (amt : Nat) : Int :=
  i64 (ib + Int.tdiv (i64 (clampRate ir * i64 amt)) 1000000)

def calcInFeeI (ib ir : Int) (amt : Nat) : Int :=
  ib + Int.tdiv (clampRate ir * amt) 1000000

/-! ## Routes -/

/-- A unified edge as returned by `findPath`. `base/rate/delta` belong to the
    node `frm`; `inBase/inRate` is the inbound fee of node `to`. -/
structure UEdge where
  chan : Nat
  frm : Nat
  to : Nat
  base : Nat
  rate : Nat
  delta : Nat
  inBase : Int
  inRate : Int
  cap : Nat
deriving Repr, BEq, DecidableEq, Inhabited

structure Hop where
  chan : Nat
  to : Nat
  amt : Nat
  tl : Nat
deriving Repr, BEq, DecidableEq, Inhabited

structure Route where
  source : Nat
  totalAmt : Nat
  totalTL : Nat
  hops : List Hop
deriving Repr, BEq, DecidableEq, Inhabited

/-- Fee that the node between `e` (incoming) and `e'` (outgoing) keeps when it
    forwards `a`: `newRoute`'s `fee = int64(outboundFee) + inboundFee`, clamped
    at zero. -/
def feeStep (e e' : UEdge) (a : Nat) : Nat :=
  let outFee := computeFee e'.base e'.rate a
  let inFee := calcInFee e.inBase e.inRate (u64 (a + outFee))
  let fee := i64 (i64 outFee + inFee)
  if fee < 0 then 0 else fee.toNat

def feeStepI (e e' : UEdge) (a : Nat) : Nat :=
  let outFee := computeFeeI e'.base e'.rate a
  let inFee := calcInFeeI e.inBase e.inRate (a + outFee)
  ((outFee : Int) + inFee).toNat

/-- The backward loop of `newRoute`, written as a recursion on the suffix of the
    path: returns the hops of the suffix, `nextIncomingAmount` (the amount that
    has to enter the first edge of the suffix) and `totalTimeLock`. -/
def build (height amt fdelta : Nat) : List UEdge → List Hop × Nat × Nat
  | [] => ([], 0, u32 height)
  | [e] =>
    let tl := u32 (height + fdelta)
    ([⟨e.chan, e.to, amt, tl⟩], amt, tl)
  | e :: e' :: rest =>
    let r := build height amt fdelta (e' :: rest)
    let a := r.2.1
    let ttl := r.2.2
    (⟨e.chan, e.to, a, ttl⟩ :: r.1, u64 (a + feeStep e e' a), u32 (ttl + e'.delta))

def buildI (height amt fdelta : Nat) : List UEdge → List Hop × Nat × Nat
  | [] => ([], 0, height)
  | [e] =>
    let tl := height + fdelta
    ([⟨e.chan, e.to, amt, tl⟩], amt, tl)
  | e :: e' :: rest =>
    let r := buildI height amt fdelta (e' :: rest)
    let a := r.2.1
    let ttl := r.2.2
    (⟨e.chan, e.to, a, ttl⟩ :: r.1, a + feeStepI e e' a, ttl + e'.delta)

/-- `newRoute` (no blinded path): `none` is `ErrNoRouteHopsProvided`. -/
def newRoute (src : Nat) (es : List UEdge) (height amt fdelta : Nat) : Option Route :=
  if es.isEmpty then none else
  let r := build height amt fdelta es
  some ⟨src, r.2.1, r.2.2, r.1⟩

def newRouteI (src : Nat) (es : List UEdge) (height amt fdelta : Nat) : Option Route :=
  if es.isEmpty then none else
  let r := buildI height amt fdelta es
  some ⟨src, r.2.1, r.2.2, r.1⟩

def Route.receiverAmt (rt : Route) : Nat :=
  match rt.hops.getLast? with
  | some h => h.amt
  | none => 0

/-- `Route.HopFee` (uint64 subtraction, with the special cases for zero amounts). -/
def hopFeeGo (recv inAmt outAmt : Nat) : Nat :=
  if inAmt != 0 && outAmt != 0 then u64 (inAmt + 2 ^ 64 - outAmt)
  else if inAmt == 0 then 0
  else u64 (inAmt + 2 ^ 64 - recv)

/-- `HopFee i` for all hops; the incoming amount of hop 0 is `TotalAmount`, then
    the previous hop's `AmtToForward`. -/
def hopFeesGoFrom (recv : Nat) : Nat → List Hop → List Nat
  | _, [] => []
  | amtIn, h :: rest => hopFeeGo recv amtIn h.amt :: hopFeesGoFrom recv h.amt rest

def Route.hopFeesGo (rt : Route) : List Nat := hopFeesGoFrom rt.receiverAmt rt.totalAmt rt.hops

/-- `Route.TotalFees`. -/
def Route.totalFeesGo (rt : Route) : Nat :=
  if rt.hops.isEmpty then 0 else u64 (rt.totalAmt + 2 ^ 64 - rt.receiverAmt)

/-- Fee left at each hop: amount carried on the hop's channel minus the amount
    the hop is told to forward. -/
def hopFeesFrom : Nat → List Hop → List Nat
  | _, [] => []
  | amtIn, h :: rest => (amtIn - h.amt) :: hopFeesFrom h.amt rest

/-- Expiry gap at each hop. -/
def hopGapsFrom : Nat → List Hop → List Nat
  | _, [] => []
  | tlIn, h :: rest => (tlIn - h.tl) :: hopGapsFrom h.tl rest

def Route.hopFees (rt : Route) : List Nat := hopFeesFrom rt.totalAmt rt.hops
def Route.hopGaps (rt : Route) : List Nat := hopGapsFrom rt.totalTL rt.hops

/-! ## The request -/

structure Req where
  self : Nat
  source : Nat
  target : Nat
  amt : Nat
  feeLimit : Nat
  /-- maximum sum of time-lock deltas (excludes the final delta). -/
  cltvLimit : Nat
  height : Nat
  finalDelta : Nat
  lastHop : Option Nat
  /-- allowed outgoing channels for hops leaving `self`; `[]` = unrestricted. -/
  outChans : List Nat
  ignNodes : List Nat
  ignPairs : List (Nat × Nat)
  /-- local bandwidth hints `(channel, msat)`. -/
  bw : List (Nat × Nat)
deriving Repr, Inhabited

def Req.bwOf (r : Req) (cid : Nat) : Option Nat :=
  (r.bw.find? (fun p => p.1 == cid)).map (·.2)

/-! ## Executable specification -/

/-- `amt` may be carried over a channel with policy `p` and capacity `cap`. -/
def amtFits (p : Policy) (cap amt : Nat) : Bool :=
  decide (p.minHtlc ≤ amt) && (!p.hasMax || decide (amt ≤ p.maxHtlc)) &&
    (cap == 0 || decide (amt ≤ cap * 1000))

/-- The HTLC of `amtIn` offered by `cur` over `h.chan` to `h.to` uses an
    existing, enabled channel direction, is within that direction's limits (and
    the local bandwidth if `cur` is our own node) and respects the
    restrictions. -/
def hopOK (g : Graph) (r : Req) (last : Bool) (cur amtIn : Nat) (h : Hop) : Bool :=
  match g.dirPol h.chan cur h.to with
  | none => false
  | some (p, cap) =>
    let loc := cur == r.self
    (loc || !p.disabled) && amtFits p cap amtIn &&
    (!loc || (match r.bwOf h.chan with
              | some b => decide (amtIn ≤ b)
              | none => true)) &&
    (!loc || r.outChans.isEmpty || r.outChans.contains h.chan) &&
    (!last || (match r.lastHop with
               | some l => cur == l
               | none => true)) &&
    !r.ignNodes.contains cur && !r.ignPairs.contains (cur, h.to)

/-- Fee the forwarding node demands: its outbound policy fee on `cOut` plus its
    inbound fee on `cIn`, the sum floored at zero. -/
def requiredFee (p : Policy) (inb : Int × Int) (fwdAmt : Nat) : Nat :=
  let outFee := computeFeeI p.base p.rate fwdAmt
  ((outFee : Int) + calcInFeeI inb.1 inb.2 (fwdAmt + outFee)).toNat

/-- Node `hIn.to` received `amtIn`/`tlIn` from `prev` over `hIn.chan` and is told
    to forward `hIn.amt`/`hIn.tl` over `hOut.chan`: the fee left and the expiry
    gap satisfy its policy. -/
def fwdOK (g : Graph) (prev : Nat) (hIn hOut : Hop) (amtIn tlIn : Nat) : Bool :=
  match g.dirPol hOut.chan hIn.to hOut.to with
  | none => false
  | some (p, _) =>
    decide (hIn.amt + requiredFee p (g.inboundOf hIn.chan prev hIn.to) hIn.amt ≤ amtIn) &&
    decide (hIn.tl + p.delta ≤ tlIn)

def chainOK (g : Graph) (r : Req) : (cur amtIn tlIn : Nat) → List Hop → Bool
  | _, _, _, [] => false
  | cur, amtIn, tlIn, [h] =>
    hopOK g r true cur amtIn h && h.to == r.target &&
      h.amt == amtIn && h.tl == tlIn && amtIn == r.amt && tlIn == r.height + r.finalDelta
  | cur, amtIn, tlIn, h :: h' :: rest =>
    hopOK g r false cur amtIn h && fwdOK g cur h h' amtIn tlIn &&
      chainOK g r h.to h.amt h.tl (h' :: rest)

/-- The property of C19 as a decision procedure. -/
def routeOK (g : Graph) (r : Req) (rt : Route) : Bool :=
  rt.source == r.source &&
  chainOK g r r.source rt.totalAmt rt.totalTL rt.hops &&
  decide (rt.totalAmt ≤ r.amt + r.feeLimit) &&
  decide (rt.totalTL ≤ r.height + r.finalDelta + r.cltvLimit) &&
  rt.totalAmt == r.amt + rt.hopFees.sum &&
  rt.totalTL == r.height + r.finalDelta + rt.hopGaps.sum

/-! ## Edge unification and `processEdge` (admissibility part of the search) -/

/-- A candidate channel from `frm` to the pivot: `frm`'s policy, the capacity and
    the pivot's inbound fee on the channel. -/
structure Cand where
  chan : Nat
  pol : Policy
  cap : Nat
  inBase : Int
  inRate : Int
deriving Repr, Inhabited

/-- Channels `frm → to` in graph order (what `addGraphPolicies` collects for the
    pivot `to`), inbound fees zeroed for the exit hop. -/
def Graph.cands (g : Graph) (frm to : Nat) (useInbound : Bool) : List Cand :=
  g.filterMap fun c =>
    let mk (pol : Policy) (own : Option Policy) : Cand :=
      if useInbound then ⟨c.id, pol, c.cap, (Policy.inb own).1, (Policy.inb own).2⟩
      else ⟨c.id, pol, c.cap, 0, 0⟩
    if c.n1 == frm && c.n2 == to then c.p1.map (fun p => mk p c.p2)
    else if c.n2 == frm && c.n1 == to then c.p2.map (fun p => mk p c.p1)
    else none

/-- `unifiedEdge.amtInRange`. -/
def amtInRange (pol : Policy) (cap amt : Nat) : Bool :=
  !(decide (cap > 0) && decide (amt > u64 (cap * 1000))) &&
  !(pol.hasMax && decide (amt > pol.maxHtlc)) &&
  !decide (amt < pol.minHtlc)

/-- `calcCappedInboundFee`. -/
def cappedIn (ib ir : Int) (recv nextOut : Nat) : Int :=
  let f := calcInFee ib ir recv
  if f < -(i64 nextOut) then -(i64 nextOut) else f

def Cand.toEdge (c : Cand) (frm to : Nat) (delta cap : Nat) : UEdge :=
  ⟨c.chan, frm, to, c.pol.base, c.pol.rate, delta, c.inBase, c.inRate, cap⟩

structure NetAcc where
  best : Option Cand := none
  maxFee : Int := -(2 ^ 63)
  maxTL : Nat := 0
  maxCap : Nat := 0

def netStep (recv nextOut : Nat) (s : NetAcc) (c : Cand) : NetAcc :=
  let inb := cappedIn c.inBase c.inRate recv nextOut
  let amt := u64 (recv + u64OfInt inb)
  if !amtInRange c.pol c.cap amt then s else
  if c.pol.disabled then s else
  let capM0 := u64 (c.cap * 1000)
  let capM := if capM0 == 0 && c.pol.hasMax then c.pol.maxHtlc else capM0
  let maxCap := max capM s.maxCap
  let maxTL := max s.maxTL c.pol.delta
  let fee := i64 (i64 (computeFee c.pol.base c.pol.rate amt) + inb)
  if fee < s.maxFee then { s with maxCap := maxCap, maxTL := maxTL }
  else { best := some c, maxFee := fee, maxTL := maxTL, maxCap := maxCap }

/-- `edgeUnifier.getEdgeNetwork`. -/
def getEdgeNetwork (cs : List Cand) (frm to recv nextOut : Nat) : Option UEdge :=
  let s := cs.foldl (netStep recv nextOut) {}
  s.best.map fun c => c.toEdge frm to s.maxTL (s.maxCap / 1000)

structure LocAcc where
  best : Option Cand := none
  maxBw : Nat := 0

def locStep (bwOf : Nat → Option Nat) (recv nextOut : Nat) (s : LocAcc) (c : Cand) : LocAcc :=
  let inb := cappedIn c.inBase c.inRate recv nextOut
  let amt := u64 (recv + u64OfInt inb)
  if !amtInRange c.pol c.cap amt then s else
  let bw := (bwOf c.chan).getD 18446744073709551615
  if amt > bw then s else
  if bw < s.maxBw then s else
  { best := some c, maxBw := bw }

/-- `edgeUnifier.getEdgeLocal`. -/
def getEdgeLocal (bwOf : Nat → Option Nat) (cs : List Cand) (frm to recv nextOut : Nat) :
    Option UEdge :=
  let s := cs.foldl (locStep bwOf recv nextOut) {}
  s.best.map fun c => c.toEdge frm to c.pol.delta c.cap

/-- Search state stored for a node (`nodeWithDist`, integer part relevant to
    admissibility). -/
structure Entry where
  recv : Nat
  outFee : Nat
  cltv : Int
deriving Repr, BEq, DecidableEq, Inhabited

def Req.initEntry (r : Req) : Entry := ⟨r.amt, 0, i32 (r.height + r.finalDelta)⟩

def Req.ignored (r : Req) (frm to : Nat) : Bool :=
  r.ignNodes.contains frm || r.ignPairs.contains (frm, to)

/-- The source pays itself no fee and needs no time-lock delta. -/
def Req.outOf (r : Req) (e : UEdge) (send : Nat) : Nat :=
  if e.frm == r.source then 0 else computeFee e.base e.rate send
def Req.dlOf (r : Req) (e : UEdge) : Nat :=
  if e.frm == r.source then 0 else e.delta

/-- The admissibility checks of `processEdge` (fee limit, probability zero for
    ignored nodes/pairs, CLTV limit) and the entry it stores for `e.frm`. -/
def processEdge (r : Req) (e : UEdge) (x : Entry) : Option Entry :=
  let inb := cappedIn e.inBase e.inRate x.recv x.outFee
  let send := u64 (x.recv + u64OfInt inb)
  let totalFee := i64 (i64 send - i64 r.amt)
  if totalFee > 0 && u64OfInt totalFee > r.feeLimit then none else
  if r.ignored e.frm e.to then none else
  let out := r.outOf e send
  let cltv := i32 (x.cltv + r.dlOf e)
  if u64OfInt cltv > r.cltvLimit + u64OfInt (i32 (r.height + r.finalDelta)) then none else
  some ⟨u64 (send + out), out, cltv⟩

/-- The edge the search would use from `frm` into the pivot `to` whose stored
    entry is `x` (outgoing-channel restriction applied to local channels). -/
def getEdge (g : Graph) (r : Req) (frm to : Nat) (exit : Bool) (x : Entry) : Option UEdge :=
  let cs := g.cands frm to (!exit)
  if frm == r.self then
    let cs := if r.outChans.isEmpty then cs else cs.filter (fun c => r.outChans.contains c.chan)
    getEdgeLocal r.bwOf cs frm to x.recv x.outFee
  else getEdgeNetwork cs frm to x.recv x.outFee

/-- Walk a forward path backwards from the target the way the search does:
    each edge must be what `getEdge` yields for the entry of its `to` node and
    must pass `processEdge`. Returns the entry of the first node. `exact`
    demands the very same edge (same iteration order), otherwise equality up
    to the tie-break between equal-fee parallel channels. -/
def sameEdge (exact loc : Bool) (a b : UEdge) : Bool :=
  if exact then a == b
  else a.frm == b.frm && a.to == b.to && (loc || (a.delta == b.delta && a.cap == b.cap))

def replaySearch (g : Graph) (r : Req) (exact : Bool) : List UEdge → Option Entry
  | [] => some r.initEntry
  | e :: rest =>
    match replaySearch g r exact rest with
    | none => none
    | some x =>
      if r.lastHop.isSome && rest.isEmpty && r.lastHop != some e.frm then none else
      match getEdge g r e.frm e.to rest.isEmpty x with
      | none => none
      | some e' => if sameEdge exact (e.frm == r.self) e' e then processEdge r e x else none

/-- `getOutgoingBalance` + the two early exits of `findPath` when the source is
    our own node: `some "insufficient"`, `some "nopath"` or `none` (continue). -/
def preCheck (g : Graph) (r : Req) : Option String :=
  if r.source != r.self then none else
  let bws : List Nat := g.filterMap fun c =>
    let own := if c.n1 == r.self then c.p1 else if c.n2 == r.self then c.p2 else none
    if !(c.n1 == r.self || c.n2 == r.self) then none else
    if own.isNone then none else
    if !r.outChans.isEmpty && !r.outChans.contains c.id then none else
    some (match r.bwOf c.id with
          | some b => b
          | none => u64 (c.cap * 1000))
  let mx := bws.foldl max 0
  let total := bws.foldl (fun t b => if b > 2 ^ 64 - 1 - t then 2 ^ 64 - 1 else t + b) 0
  if total < r.amt then some "insufficient"
  else if mx < r.amt then some "nopath"
  else none

/-! ## Invoice route hints (`RouteHintsToEdges`, routing/payment_session_source.go) -/

/-- `zpay32.HopHint`: start node of the private channel, channel id, fee policy. -/
structure HopHint where
  node : Nat
  chan : Nat
  base : Nat
  rate : Nat
  delta : Nat
deriving Repr, Inhabited

/-- `fakeHopHintCapacity` (10 BTC in satoshi). -/
def fakeHopHintCap : Nat := 1000000000

/-- the `CachedEdgePolicy` built for a hop hint: only fee and delta are set. -/
def HopHint.policy (h : HopHint) : Policy := ⟨0, 0, false, h.base, h.rate, h.delta, false, 0, 0⟩

/-- The additional edges of ONE route hint: the hop hints are chained, each
    leads to the start node of the next one, the last one to the target.  As
    channels of the model graph: one-directional (`p2 = none`), fake capacity,
    no inbound fee. -/
def hintChans (target : Nat) : List HopHint → List Chan
  | [] => []
  | [h] => [⟨h.chan, h.node, target, fakeHopHintCap, some h.policy, none⟩]
  | h :: h' :: rest =>
    ⟨h.chan, h.node, h'.node, fakeHopHintCap, some h.policy, none⟩ :: hintChans target (h' :: rest)

/-- `RouteHintsToEdges`: all route hints, in order. -/
def routeHintsToChans (target : Nat) (hints : List (List HopHint)) : List Chan :=
  hints.flatMap (hintChans target)

/-! ## Blinded payment tails (`BlindedPayment.toRouteHints`, routing/blinding.go) -/

/-- the aggregate relay parameters of a blinded path (`BlindedPayment`):
    `HtlcMinimum`, `HtlcMaximum`, `BaseFee`, `ProportionalFeeRate`,
    `CltvExpiryDelta` (includes the receiver's final delta). -/
structure BlindedAgg where
  min : Nat
  max : Nat
  base : Nat
  rate : Nat
  delta : Nat
deriving Repr, Inhabited

def zeroPolicy : Policy := ⟨0, 0, false, 0, 0, 0, false, 0, 0⟩

/-- hints between consecutive blinded hops: no fee, no delta (the relay
    parameters are in the encrypted blobs). -/
def zeroChans : Nat → List Nat → List Chan
  | id, a :: b :: rest => ⟨id, a, b, fakeHopHintCap, some zeroPolicy, none⟩ :: zeroChans (id + 1) (b :: rest)
  | _, _ => []

/-- A blinded path as a hint chain over `nodes = [introduction node, blinded
    hop 1, …]` (channel ids `id, id+1, …`): the edge out of the introduction
    node carries the AGGREGATE policy of the whole blinded portion, including
    its minimum and maximum HTLC; `hasMax` is the `HasMaxHTLC` flag of that
    edge's policy. -/
def blindedChans (id : Nat) (hasMax : Bool) (agg : BlindedAgg) : List Nat → List Chan
  | a :: b :: rest =>
    ⟨id, a, b, fakeHopHintCap,
      some ⟨agg.min, agg.max, hasMax, agg.base, agg.rate, agg.delta, false, 0, 0⟩, none⟩ ::
      zeroChans (id + 1) (b :: rest)
  | _ => []

/-- `newRoute`'s second pass for blinded payments: from the hop that arrives at
    the introduction node on, every hop except the final one carries zero
    amount / time lock in its payload (the values are in the encrypted data). -/
def blindHops (intro : Nat) : Bool → List Hop → List Hop
  | _, [] => []
  | _, [h] => [h]
  | inB, h :: h' :: rest =>
    let inB' := inB || h.to == intro
    (if inB' then { h with amt := 0, tl := 0 } else h) :: blindHops intro inB' (h' :: rest)

/-- What the payloads of the blinded portion stand for: zero fee / zero delta
    inside, so every hop from the introduction node on forwards the final
    amount with the final time lock. -/
def unblindHops (intro : Nat) (fin : Hop) : Bool → List Hop → List Hop
  | _, [] => []
  | _, [h] => [h]
  | inB, h :: h' :: rest =>
    let inB' := inB || h.to == intro
    (if inB' then { h with amt := fin.amt, tl := fin.tl } else h) :: unblindHops intro fin inB' (h' :: rest)

end LndModel.C19
