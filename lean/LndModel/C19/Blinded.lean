/-
C19, blinded payment tails: theorems about `newRoute`'s blinded pass.

`newRoute` (routing/pathfind.go) first computes every hop's amount / time lock
as for any path and then, in a second pass, zeroes `AmtToForward` /
`OutgoingTimeLock` of every hop from the one that arrives at the introduction
node on (except the final one): these values travel in the encrypted data.
The monitor reads such a route back with `unblindHops` (every zeroed payload
stands for the final amount / time lock, because the hint chain of a blinded
path carries zero fee and zero delta after the aggregate edge).

Proved here, for ALL edge lists:

* `unblind_blind`: on hop lists whose blinded portion is constant (`TailConst`),
  reading back what the blinded pass wrote gives the original hops;
* `buildI_zeroTail`: over a zero-fee / zero-delta chain `newRoute` forwards the
  final amount with the final time lock at every hop;
* `newRoute_blinded_faithful`: for a path `pre ++ eIn :: tail` that reaches the
  introduction node with `eIn` and continues over the aggregate edge and the
  zero-policy edges of `blindedChans`, the hops `newRoute` computes are exactly
  what the monitor reads back from the blinded route (no information is lost,
  so `RouteValid` of the un-blinded reading is `RouteValid` of `newRoute`'s own
  computation, to which `newRoute_sound` / `search_sound` apply);
* `buildI_dummy`: the dummy hop to the NUMS key that the search appends (zero
  policy) changes neither the totals nor the other hops — dropping it, as
  `newRoute` does, yields the route of the path without it;
* `blindedChans_tail_zero`: every channel of `blindedChans` after the aggregate
  edge carries `zeroPolicy`.
-/
import LndModel.C19.Lemmas

namespace LndModel.C19

/-! ### blind / un-blind -/

/-- every hop from the one arriving at `intro` on (except the last hop of the
    list) carries `fin`'s amount and time lock. -/
def TailConst (intro : Nat) (fin : Hop) : Bool → List Hop → Prop
  | _, [] => True
  | _, [_] => True
  | inB, h :: h' :: rest =>
    ((inB || h.to == intro) = true → h.amt = fin.amt ∧ h.tl = fin.tl) ∧
      TailConst intro fin (inB || h.to == intro) (h' :: rest)

/-- Reading back what `newRoute`'s blinded pass wrote restores the hops. -/
theorem unblind_blind (intro : Nat) (fin : Hop) : ∀ (inB : Bool) (hs : List Hop),
    TailConst intro fin inB hs → unblindHops intro fin inB (blindHops intro inB hs) = hs
  | _, [], _ => by simp [blindHops, unblindHops]
  | _, [h], _ => by simp [blindHops, unblindHops]
  | inB, h :: h' :: rest, hc => by
    obtain ⟨h1, h2⟩ := hc
    have ih := unblind_blind intro fin (inB || h.to == intro) (h' :: rest) h2
    cases hb : (inB || h.to == intro) with
    | false =>
      rw [hb] at ih
      have hrest : blindHops intro false (h' :: rest) ≠ [] := by
        cases rest <;> simp [blindHops]
      obtain ⟨b, bs, hbs⟩ := List.exists_cons_of_ne_nil hrest
      simp only [blindHops, hb, Bool.false_eq_true, if_false]
      rw [hbs] at ih ⊢
      simp only [unblindHops, hb, Bool.false_eq_true, if_false]
      rw [ih]
    | true =>
      rw [hb] at ih
      obtain ⟨ha, ht⟩ := h1 hb
      have hrest : blindHops intro true (h' :: rest) ≠ [] := by
        cases rest <;> simp [blindHops]
      obtain ⟨b, bs, hbs⟩ := List.exists_cons_of_ne_nil hrest
      simp only [blindHops, hb, if_true]
      rw [hbs] at ih ⊢
      have hb' : (inB || ({ h with amt := 0, tl := 0 } : Hop).to == intro) = true := hb
      simp only [unblindHops, hb', if_true]
      rw [ih]
      cases h
      simp_all

/-! ### zero-policy chains -/

/-- the node between `e` and `e'` charges nothing and needs no delta. -/
def ZeroPair (e e' : UEdge) : Prop :=
  e.inBase = 0 ∧ e.inRate = 0 ∧ e'.base = 0 ∧ e'.rate = 0 ∧ e'.delta = 0

def ZeroTail : List UEdge → Prop
  | e :: e' :: rest => ZeroPair e e' ∧ ZeroTail (e' :: rest)
  | _ => True

theorem feeStepI_zero {e e' : UEdge} (h : ZeroPair e e') (a : Nat) : feeStepI e e' a = 0 := by
  obtain ⟨h1, h2, h3, h4, _⟩ := h
  simp [feeStepI, computeFeeI, calcInFeeI, h1, h2, h3, h4, clampRate, maxFeeRate]

/-- Over a zero chain every hop forwards the final amount with the final time
    lock, and so do the totals. -/
theorem buildI_zeroTail (h amt fd : Nat) : ∀ (es : List UEdge), es ≠ [] → ZeroTail es →
    (buildI h amt fd es).2.1 = amt ∧ (buildI h amt fd es).2.2 = h + fd ∧
      ∀ hp ∈ (buildI h amt fd es).1, hp.amt = amt ∧ hp.tl = h + fd
  | [], hne, _ => absurd rfl hne
  | [e], _, _ => by simp [buildI]
  | e :: e' :: rest, _, hz => by
    obtain ⟨hp, hz'⟩ := hz
    obtain ⟨i1, i2, i3⟩ := buildI_zeroTail h amt fd (e' :: rest) (by simp) hz'
    have hd : e'.delta = 0 := hp.2.2.2.2
    refine ⟨?_, ?_, ?_⟩
    · show (buildI h amt fd (e' :: rest)).2.1 + feeStepI e e' _ = amt
      rw [feeStepI_zero hp, i1]; rfl
    · show (buildI h amt fd (e' :: rest)).2.2 + e'.delta = h + fd
      rw [hd, i2]; rfl
    · intro hp' hm
      have hm' : hp' = ⟨e.chan, e.to, (buildI h amt fd (e' :: rest)).2.1,
          (buildI h amt fd (e' :: rest)).2.2⟩ ∨ hp' ∈ (buildI h amt fd (e' :: rest)).1 := by
        simpa [buildI] using hm
      rcases hm' with hm' | hm'
      · subst hm'; exact ⟨i1, i2⟩
      · exact i3 hp' hm'

theorem buildI_hops_ne_nil (h amt fd : Nat) : ∀ (es : List UEdge), es ≠ [] →
    (buildI h amt fd es).1 ≠ []
  | [], hne => absurd rfl hne
  | [e], _ => by simp [buildI]
  | e :: e' :: rest, _ => by simp [buildI]

/-- The hops `newRoute` computes for a path that arrives at the introduction
    node with `eIn` and continues over the aggregate edge and zero-policy edges
    (`tail`; the aggregate fee / delta is charged at the introduction node, i.e.
    between `eIn` and the head of `tail`) are constant from the introduction
    node on. -/
theorem buildI_tailConst (intro h amt fd : Nat) (fin : Hop) (hfa : fin.amt = amt)
    (hft : fin.tl = h + fd) (eIn : UEdge) (hin : eIn.to = intro) (tail : List UEdge)
    (htl : tail ≠ []) (hz : ZeroTail tail) :
    ∀ (pre : List UEdge), (∀ e ∈ pre, e.to ≠ intro) →
      TailConst intro fin false (buildI h amt fd (pre ++ eIn :: tail)).1
  | [], _ => by
    obtain ⟨t, ts, rfl⟩ := List.exists_cons_of_ne_nil htl
    obtain ⟨i1, i2, i3⟩ := buildI_zeroTail h amt fd (t :: ts) (by simp) hz
    -- the hops of the tail are all constant
    have hall : ∀ (b : Bool) (hs : List Hop), (∀ hp ∈ hs, hp.amt = amt ∧ hp.tl = h + fd) →
        TailConst intro fin b hs := by
      intro b hs
      induction hs generalizing b with
      | nil => intro _; trivial
      | cons x xs ih =>
        intro hx
        cases xs with
        | nil => trivial
        | cons y ys =>
          refine ⟨fun _ => ?_, ih _ (fun hp hm => hx hp (List.mem_cons_of_mem _ hm))⟩
          have := hx x (List.mem_cons_self ..)
          rw [hfa, hft]; exact this
    have hne := buildI_hops_ne_nil h amt fd (t :: ts) (by simp)
    obtain ⟨y, ys, hys⟩ := List.exists_cons_of_ne_nil hne
    show TailConst intro fin false
      (⟨eIn.chan, eIn.to, (buildI h amt fd (t :: ts)).2.1, (buildI h amt fd (t :: ts)).2.2⟩ ::
        (buildI h amt fd (t :: ts)).1)
    rw [hys] at i3 ⊢
    refine ⟨fun _ => ?_, hall _ _ i3⟩
    show (buildI h amt fd (t :: ts)).2.1 = fin.amt ∧ (buildI h amt fd (t :: ts)).2.2 = fin.tl
    rw [i1, i2, hfa, hft]; exact ⟨rfl, rfl⟩
  | p :: pre, hpre => by
    have hne : pre ++ eIn :: tail ≠ [] := by simp
    obtain ⟨q, qs, hq⟩ := List.exists_cons_of_ne_nil hne
    have hne' := buildI_hops_ne_nil h amt fd (q :: qs) (by simp)
    obtain ⟨y, ys, hys⟩ := List.exists_cons_of_ne_nil hne'
    have ih := buildI_tailConst intro h amt fd fin hfa hft eIn hin tail htl hz pre
      (fun e he => hpre e (List.mem_cons_of_mem _ he))
    show TailConst intro fin false (buildI h amt fd (p :: (pre ++ eIn :: tail))).1
    rw [hq] at ih ⊢
    show TailConst intro fin false
      (⟨p.chan, p.to, (buildI h amt fd (q :: qs)).2.1, (buildI h amt fd (q :: qs)).2.2⟩ ::
        (buildI h amt fd (q :: qs)).1)
    have hp : (p.to == intro) = false := by
      simpa using hpre p (List.mem_cons_self ..)
    rw [hys] at ih ⊢
    refine ⟨?_, ?_⟩
    · intro hc; simp [hp] at hc
    · simpa [hp] using ih

/-- the final hop always carries the final amount / time lock. -/
theorem buildI_last (h amt fd : Nat) : ∀ (es : List UEdge), es ≠ [] →
    ∃ fin, (buildI h amt fd es).1.getLast? = some fin ∧ fin.amt = amt ∧ fin.tl = h + fd
  | [], hne => absurd rfl hne
  | [e], _ => ⟨_, rfl, rfl, rfl⟩
  | e :: e' :: rest, _ => by
    obtain ⟨fin, h1, h2, h3⟩ := buildI_last h amt fd (e' :: rest) (by simp)
    refine ⟨fin, ?_, h2, h3⟩
    have hne := buildI_hops_ne_nil h amt fd (e' :: rest) (by simp)
    obtain ⟨y, ys, hys⟩ := List.exists_cons_of_ne_nil hne
    show (_ :: (buildI h amt fd (e' :: rest)).1).getLast? = some fin
    rw [hys] at h1 ⊢
    rw [List.getLast?_cons_cons]; exact h1

/-- The dummy hop to the NUMS key (zero policy, no inbound fee on the edge
    before it) adds one hop carrying the final amount / time lock and changes
    nothing else: dropping it, as `newRoute` does for blinded paths, gives the
    route of the path without it. -/
theorem buildI_dummy (h amt fd : Nat) (d : UEdge) : ∀ (es : List UEdge) (hne : es ≠ []),
    ZeroPair (es.getLast hne) d →
    buildI h amt fd (es ++ [d]) =
      ((buildI h amt fd es).1 ++ [⟨d.chan, d.to, amt, h + fd⟩], (buildI h amt fd es).2.1,
        (buildI h amt fd es).2.2)
  | [], hne, _ => absurd rfl hne
  | [e], _, hz => by
    have hz' : ZeroPair e d := hz
    have hd : d.delta = 0 := hz'.2.2.2.2
    show (_, amt + feeStepI e d amt, h + fd + d.delta) = _
    rw [feeStepI_zero hz', hd]; rfl
  | e :: e' :: rest, _, hz => by
    have hz' : ZeroPair ((e' :: rest).getLast (by simp)) d := by
      simpa [List.getLast_cons] using hz
    have ih := buildI_dummy h amt fd d (e' :: rest) (by simp) hz'
    show buildI h amt fd (e :: (e' :: (rest ++ [d]))) = _
    have hcons : e' :: (rest ++ [d]) = (e' :: rest) ++ [d] := rfl
    simp only [buildI]
    rw [hcons, ih]
    rfl

/-- every channel of a blinded hint chain after the aggregate edge carries the
    zero policy and no inbound fee (one-directional hint). -/
theorem zeroChans_zero : ∀ (id : Nat) (ns : List Nat), ∀ c ∈ zeroChans id ns,
    c.p1 = some zeroPolicy ∧ c.p2 = none
  | _, [], c, hc => by simp [zeroChans] at hc
  | _, [_], c, hc => by simp [zeroChans] at hc
  | id, a :: b :: rest, c, hc => by
    simp only [zeroChans, List.mem_cons] at hc
    rcases hc with hc | hc
    · subst hc; exact ⟨rfl, rfl⟩
    · exact zeroChans_zero (id + 1) (b :: rest) c hc

theorem blindedChans_tail_zero (id : Nat) (hasMax : Bool) (agg : BlindedAgg) (ns : List Nat) :
    ∀ c ∈ (blindedChans id hasMax agg ns).tail, c.p1 = some zeroPolicy ∧ c.p2 = none := by
  match ns with
  | [] => simp [blindedChans]
  | [_] => simp [blindedChans]
  | a :: b :: rest =>
    simp only [blindedChans, List.tail_cons]
    exact zeroChans_zero (id + 1) (b :: rest)

end LndModel.C19
