/-
C19 specification at `Prop` level (core only).  This is the statement of the
property "every returned route is payable under all stated constraints",
clause by clause; `Props.checker_meaning` shows that the executable checker
`routeOK` (used as the monitor on the implementation's routes) implies it.
-/
import LndModel.C19.Model

namespace LndModel.C19

/-- The HTLC of `amtIn` that `cur` offers to `h.to` over channel `h.chan`:
  * the channel direction `cur → h.to` exists in the graph,
  * it is enabled.  WEAKENED for channels of our own node (`cur = r.self`): as in
    lnd, the gossip `disabled` flag is ignored there and availability is decided
    by the bandwidth hints only; when no hint is known for the channel
    (`r.bwOf = none`) there is NO availability condition at all (listed under
    `assumptions` of the check),
  * `amtIn` lies within the direction's min/max HTLC and the capacity,
  * on our own channels it does not exceed the known local bandwidth and the
    outgoing-channel restriction is respected,
  * the last-hop restriction holds for the hop into the target,
  * neither `cur` nor the pair `(cur, h.to)` is ignored. -/
def HopValid (g : Graph) (r : Req) (last : Bool) (cur amtIn : Nat) (h : Hop) : Prop :=
  ∃ p cap, g.dirPol h.chan cur h.to = some (p, cap) ∧
    (cur ≠ r.self → p.disabled = false) ∧
    p.minHtlc ≤ amtIn ∧ (p.hasMax = true → amtIn ≤ p.maxHtlc) ∧
    (cap ≠ 0 → amtIn ≤ cap * 1000) ∧
    (cur = r.self → ∀ b, r.bwOf h.chan = some b → amtIn ≤ b) ∧
    (cur = r.self → r.outChans ≠ [] → h.chan ∈ r.outChans) ∧
    (last = true → ∀ l, r.lastHop = some l → cur = l) ∧
    cur ∉ r.ignNodes ∧ (cur, h.to) ∉ r.ignPairs

/-- Node `hIn.to` received `amtIn` with expiry `tlIn` from `prev` over `hIn.chan`
    and has to forward `hIn.amt` with expiry `hIn.tl` over `hOut.chan`: the
    outgoing direction exists, the fee left is at least the node's policy fee
    (outbound fee of the outgoing channel plus inbound fee of the incoming
    channel, the sum floored at zero) and the expiry gap is at least the
    outgoing policy's time-lock delta. -/
def FwdValid (g : Graph) (prev : Nat) (hIn hOut : Hop) (amtIn tlIn : Nat) : Prop :=
  ∃ p cap, g.dirPol hOut.chan hIn.to hOut.to = some (p, cap) ∧
    hIn.amt + requiredFee p (g.inboundOf hIn.chan prev hIn.to) hIn.amt ≤ amtIn ∧
    hIn.tl + p.delta ≤ tlIn

/-- Every hop is admissible and the last one reaches the target. -/
def HopsValid (g : Graph) (r : Req) : (cur amtIn : Nat) → List Hop → Prop
  | _, _, [] => False
  | cur, amtIn, [h] => HopValid g r true cur amtIn h ∧ h.to = r.target
  | cur, amtIn, h :: h' :: rest =>
    HopValid g r false cur amtIn h ∧ HopsValid g r h.to h.amt (h' :: rest)

/-- Every forwarding node is paid and given enough time; the final hop receives
    exactly `amt` with expiry `finalTL`. -/
def FeesValid (g : Graph) (amt finalTL : Nat) : (cur amtIn tlIn : Nat) → List Hop → Prop
  | _, _, _, [] => False
  | _, amtIn, tlIn, [h] => h.amt = amtIn ∧ h.tl = tlIn ∧ amtIn = amt ∧ tlIn = finalTL
  | cur, amtIn, tlIn, h :: h' :: rest =>
    FwdValid g cur h h' amtIn tlIn ∧ FeesValid g amt finalTL h.to h.amt h.tl (h' :: rest)

/-- The property of C19 for one returned route. -/
structure RouteValid (g : Graph) (r : Req) (rt : Route) : Prop where
  /-- the route starts at the requested source … -/
  source : rt.source = r.source
  /-- … is connected over existing, enabled, sufficiently large channel
      directions up to the target, respecting all restrictions, -/
  hops : HopsValid g r r.source rt.totalAmt rt.hops
  /-- pays every forwarding node its fee and leaves it its time-lock delta, -/
  fees : FeesValid g r.amt (r.height + r.finalDelta) r.source rt.totalAmt rt.totalTL rt.hops
  /-- total fees within the fee limit, -/
  feeLimit : rt.totalAmt ≤ r.amt + r.feeLimit
  /-- total time lock within the CLTV limit, -/
  cltvLimit : rt.totalTL ≤ r.height + r.finalDelta + r.cltvLimit
  /-- and the per-hop values add up to the totals. -/
  sumFees : rt.totalAmt = r.amt + rt.hopFees.sum
  sumGaps : rt.totalTL = r.height + r.finalDelta + rt.hopGaps.sum

/-! ### Hypotheses of the soundness theorems -/

/-- `e` carries the fee policy of its channel direction in `g`; its time-lock
    delta may have been raised by the unification of parallel channels. -/
def EdgeIn (g : Graph) (e : UEdge) : Prop :=
  ∃ p cap, g.dirPol e.chan e.frm e.to = some (p, cap) ∧
    e.base = p.base ∧ e.rate = p.rate ∧ p.delta ≤ e.delta

/-- `e` carries the inbound fee of its `to` node. -/
def InbIn (g : Graph) (e : UEdge) : Prop :=
  (e.inBase, e.inRate) = g.inboundOf e.chan e.frm e.to

/-- `es` is a path in `g` starting at `src` (the inbound fee of the final edge is
    irrelevant: the receiver charges none). -/
def PathIn (g : Graph) : Nat → List UEdge → Prop
  | _, [] => False
  | src, [e] => EdgeIn g e ∧ e.frm = src
  | src, e :: e' :: rest => EdgeIn g e ∧ InbIn g e ∧ e.frm = src ∧ PathIn g e.to (e' :: rest)

/-- No-overflow condition for one step of `newRoute`: forwarding `a` over `e'`
    after receiving over `e`. -/
def StepFits (e e' : UEdge) (a : Nat) : Prop :=
  a * e'.rate < 2 ^ 64 ∧
  a + computeFeeI e'.base e'.rate a < 2 ^ 61 ∧
  (clampRate e.inRate).natAbs * (a + computeFeeI e'.base e'.rate a) < 2 ^ 61 ∧
  -(2 ^ 31) ≤ e.inBase ∧ e.inBase < 2 ^ 31

/-- No-overflow condition for the whole construction (stated on the unbounded
    computation `buildI`). -/
def Fits (height amt fdelta : Nat) : List UEdge → Prop
  | [] => True
  | [_] => amt < 2 ^ 61 ∧ height + fdelta < 2 ^ 31
  | e :: e' :: rest =>
    Fits height amt fdelta (e' :: rest) ∧
    StepFits e e' (buildI height amt fdelta (e' :: rest)).2.1 ∧
    (buildI height amt fdelta (e' :: rest)).2.2 + e'.delta < 2 ^ 31

/-- A run of the backward search restricted to the chain it finally returns:
    `Reach g r v x es` says that the entry `x` stored for node `v` was produced
    by relaxing, from the target backwards, exactly the edges `es` (forward
    order), each chosen by `getEdge` for the entry of its head node and accepted
    by `processEdge`.  That the entries along the returned chain are the ones
    the edges were relaxed with is Dijkstra's finality discipline. -/
inductive Reach (g : Graph) (r : Req) : Nat → Entry → List UEdge → Prop
  | start : Reach g r r.target r.initEntry []
  | step {to frm : Nat} {x y : Entry} {path : List UEdge} {e : UEdge} :
      Reach g r to x path →
      (path = [] → ∀ l, r.lastHop = some l → frm = l) →
      getEdge g r frm to path.isEmpty x = some e →
      processEdge r e x = some y →
      Reach g r frm y (e :: path)

/-- Channel ids identify channels, channels connect distinct nodes. -/
def GraphOK (g : Graph) : Prop :=
  (g.map (·.id)).Nodup ∧ ∀ c ∈ g, c.n1 ≠ c.n2

end LndModel.C19
