/-
Lemmas about the helpers of LndModel.Gen.GoInt, shared by the CXX/GenRefine.lean files
(hand-written, core Lean only).
-/
import LndModel.Gen.GoInt

namespace LndModel.Gen.GoInt

theorem wrapI64_id (x : Int) (h1 : -9223372036854775808 ≤ x) (h2 : x < 9223372036854775808) :
    wrapI64 x = x := by
  simp only [wrapI64]; omega

theorem wrapU64_id (x : Int) (h1 : 0 ≤ x) (h2 : x < 18446744073709551616) : wrapU64 x = x := by
  simp only [wrapU64]; omega

theorem wrapI64_range (x : Int) : IsI64 (wrapI64 x) := by
  simp only [IsI64, wrapI64]; omega

theorem andU_cast (a b : Nat) : andU a b = ((a &&& b : Nat) : Int) := by
  simp only [andU, Int.toNat_natCast]
theorem orU_cast (a b : Nat) : orU a b = ((a ||| b : Nat) : Int) := by
  simp only [orU, Int.toNat_natCast]
theorem xorU_cast (a b : Nat) : xorU a b = ((a ^^^ b : Nat) : Int) := by
  simp only [xorU, Int.toNat_natCast]

/-- the Go idiom `c & bit == bit` for a single bit `2^k` is the bit test. -/
theorem and_two_pow_eq_iff (c k : Nat) : c &&& 2 ^ k = 2 ^ k ↔ c.testBit k = true := by
  constructor
  · intro h
    have := congrArg (fun x => Nat.testBit x k) h
    simp only [Nat.testBit_and, Nat.testBit_two_pow_self, Bool.and_true] at this
    exact this
  · intro h
    apply Nat.eq_of_testBit_eq
    intro j
    rw [Nat.testBit_and, Nat.testBit_two_pow]
    by_cases hj : k = j
    · subst hj; simp only [h, decide_true, Bool.and_self]
    · simp only [hj, decide_false, Bool.and_false]

/-- truncating division by a positive literal stays in the int64 range. -/
theorem tdiv_range (z d : Int) (hd : 0 < d) (h : IsI64 z) : IsI64 (Int.tdiv z d) := by
  simp only [IsI64] at h ⊢
  by_cases hz : 0 ≤ z
  · rw [Int.tdiv_eq_ediv_of_nonneg hz]
    have h1 : 0 ≤ z / d := Int.ediv_nonneg hz (Int.le_of_lt hd)
    have h2 : z / d ≤ z := Int.ediv_le_self d hz
    omega
  · have e : Int.tdiv z d = -(Int.tdiv (-z) d) := by rw [Int.neg_tdiv]; omega
    have hz' : 0 ≤ -z := by omega
    rw [e, Int.tdiv_eq_ediv_of_nonneg hz']
    have h1 : 0 ≤ -z / d := Int.ediv_nonneg hz' (Int.le_of_lt hd)
    have h2 : -z / d ≤ -z := Int.ediv_le_self d hz'
    omega

end LndModel.Gen.GoInt
