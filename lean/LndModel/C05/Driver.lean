/-
C05 driver: replays a harness trace.
 (X) correspondence: script templates vs input/script_utils.go, the model's
     script / witness / sequence / locktime for every resolution vs what
     ForceClose / NewUnilateralCloseSummary and the resolver-style sweep produced,
     and the symbolic interpreter's verdict vs the btcd engine's verdict on
     every executed input (positives and generated negatives)     -> MISMATCH
 (S) monitor: every spend the node is supposed to hold is accepted by the
     engine; recorded indexes / amounts are those of the real outputs; second
     level transactions have the right locktime / sequence / amount; the value
     covered by the resolutions is balance + non-dust HTLCs, recomputed here
     from the commitment's raw numbers                              -> MONITOR
-/
import LndModel.Prelude.Lines
import LndModel.C05.Model
import LndModel.C05.Persist
import LndModel.C05.CodecParse
import LndModel.C04.Parse

open LndModel LndModel.Lines LndModel.C05 LndModel.C04.Script LndModel.C04.Parse

namespace LndModel.C05.Driver

structure St where
  caseId : String := "0"
  ctype : String := ""
  ct : ChanType := {}
  csv : Array Nat := #[5, 4]
  thaw : Nat := 0
  initA : Bool := true
  w : Weights := {}
  sweepHeight : Nat := 800000
  lines : Nat := 0
  cases : Nat := 0
  mismatches : Nat := 0
  monitorFails : Nat := 0
  evals : Nat := 0
  probesLocal : Nat := 0
  probesRemote : Nat := 0
  probesPending : Nat := 0
  probesReload : Nat := 0
  spendsPos : Nat := 0
  spendsNeg : Nat := 0
  negRejected : Nat := 0
  modelChecked : Nat := 0
  modelSkipped : Nat := 0
  structChecked : Nat := 0
  commits : Nat := 0
  secondTx : Nat := 0
  values : Nat := 0
  htlcsValued : Nat := 0
  dustHtlcs : Nat := 0
  templates : Nat := 0
  samples : Nat := 0
  spendsReload : Nat := 0
  reloadProbes : Nat := 0
  persistOps : Nat := 0
  descCompared : Nat := 0
  signedCompared : Nat := 0
  wtypeCompared : Nat := 0
  courtCases : Nat := 0
  keyPathChecked : Nat := 0
  -- byte-level codec tie (court stream)
  rsCur : Codec.ResSet := {}
  rsWhich : String := ""
  rsFresh : Option Codec.ResSet := none
  rsBlobs : Array (Option Codec.Bytes) := #[none, none, none]
  rsAux : Option Codec.Aux := none
  rsDamage : Option (Nat × Codec.Bytes) := none
  blobsCompared : Nat := 0
  blobBytes : Nat := 0
  setsDecoded : Nat := 0
  auxCompared : Nat := 0
  damagedOk : Nat := 0
  damagedErr : Nat := 0
  damagedSkipped : Nat := 0

def mismatch (s : St) (detail : String) : IO St := do
  IO.println s!"MISMATCH case={s.caseId} line={s.lines} {detail}"
  return { s with mismatches := s.mismatches + 1 }

def monitor (s : St) (clause detail : String) : IO St := do
  IO.println s!"MONITOR case={s.caseId} clause={clause} line={s.lines} type={s.ctype} {detail}"
  return { s with monitorFails := s.monitorFails + 1 }

def spendOf (k : String) : Option Spend :=
  match k with
  | "funding" => some .funding | "toLocal" => some .toLocal
  | "htlcTimeoutTx" | "htlcTimeoutAgg" => some .htlcTimeoutTx
  | "htlcSuccessTx" | "htlcSuccessAgg" => some .htlcSuccessTx
  | "secondLevelOut" => some .secondLevelOut | "toRemote" => some .toRemote
  | "htlcTimeout" => some .htlcTimeout | "htlcClaim" => some .htlcClaim
  | "anchor" => some .anchor | _ => none

/-- the descriptor fields printed with prefix `p` (`f.`, `r.`, `s.`) -/
def parseDesc (ws : List String) (p : String) : SignDesc :=
  let k := kvS ws (p ++ "key")
  { fam := kvN ws (p ++ "fam"), idx := kvN ws (p ++ "idx"),
    key := if k == "nokey" then none else some (parseKey k),
    single := kvN ws (p ++ "single"), double := kvN ws (p ++ "double"), tapTweak := kvN ws (p ++ "tap"),
    wscript := kvN ws (p ++ "ws"), method := kvN ws (p ++ "method"), outVal := kvN ws (p ++ "val"),
    outPk := kvN ws (p ++ "pk"), hashType := kvN ws (p ++ "ht"), ctrl := kvN ws (p ++ "cb"),
    inputIndex := kvN ws (p ++ "ii") }

def slotOf (t : String) : Option Slot :=
  match t with
  | "commit" => some .commit | "anchor" => some .anchor | "htlcSweep" => some .htlcSweep
  | "htlcSecond" => some .htlcSecond | _ => none

def closeOf (s : St) (ctxS : String) : Close :=
  let me := nodeOf (ctxField ctxS "x")
  { ct := s.ct, me := me, initiator := (me == 0) == s.initA, csv := s.csv[me]!,
    leaseExpiry := s.thaw, height := s.sweepHeight }

/-- `desc`: a sign descriptor before (`f.`) and after (`r.`) the contract court's store -/
def handleDesc (s : St) (ws : List String) : IO St := do
  let s := { s with evals := s.evals + 1, descCompared := s.descCompared + 1 }
  let ctxS := kvS ws "ctx"
  let some slot := slotOf (kvS ws "slot") | mismatch s s!"desc: unknown slot {kvS ws "slot"}"
  let aux := kvN ws "aux" == 1
  let f := parseDesc ws "f."
  let r := parseDesc ws "r."
  let mut s := s
  -- (X) the model of what survives serialisation
  let m := persist aux slot f
  if m != r then
    s ← mismatch s s!"persist ctx={ctxS} slot={kvS ws "slot"} aux={aux} impl={repr r} model={repr m}"
  -- (X) the model of the fresh descriptor
  let c := closeOf s ctxS
  let loc := ctxField ctxS "src" == "local"
  let sp : Spend := match slot with
    | .commit => if loc then .toLocal else .toRemote
    | .anchor => .anchor
    | .htlcSweep => if loc then .secondLevelOut else .htlcTimeout
    | .htlcSecond => .htlcTimeoutTx
  let md := c.signDesc sp 1 1 1 1 loc
  let nz (x : Nat) : Bool := x != 0
  if md.key != f.key || nz md.single != nz f.single || f.double != 0 || md.method != f.method
      || md.hashType != f.hashType || nz md.ctrl != nz f.ctrl || nz md.tapTweak != nz f.tapTweak then
    s ← mismatch s s!"fresh descriptor ctx={ctxS} slot={kvS ws "slot"} impl={repr f} model={repr md}"
  return s

/-- `signed`: the reloaded descriptor (`r.`) and what the signer received (`s.`) -/
def handleSigned (s : St) (ws : List String) : IO St := do
  let s := { s with evals := s.evals + 1, signedCompared := s.signedCompared + 1 }
  let ctxS := kvS ws "ctx"
  let wtS := kvS ws "wt"
  let some wt := WT.ofName wtS | mismatch s s!"signed: witness type {wtS} is not modelled"
  let r := parseDesc ws "r."
  let g := parseDesc ws "s."
  match effective wt.cls r with
  | none => mismatch s s!"effective ctx={ctxS} wt={wtS}: model refuses the descriptor, impl signed with {repr g}"
  | some e =>
    if { e with inputIndex := g.inputIndex } != g then
      mismatch s s!"effective ctx={ctxS} wt={wtS} impl={repr g} model={repr e}"
    else return s

def handleSpend (s : St) (ws : List String) : IO St := do
  let s := { s with evals := s.evals + 1 }
  let kind := kvS ws "kind"
  let variant := kvS ws "var"
  let engine := resOf ws
  let ctxS := kvS ws "ctx"
  let spk := kvS ws "spk"
  let seq := kvN ws "seq"; let lock := kvN ws "lock"; let ver := kvN ws "ver"
  let mut s := s
  let reload := variant == "reload"
  if variant == "pos" then s := { s with spendsPos := s.spendsPos + 1 }
  else if reload then s := { s with spendsReload := s.spendsReload + 1 }
  else
    s := { s with spendsNeg := s.spendsNeg + 1 }
    if engineVerdict engine == some false then s := { s with negRejected := s.negRejected + 1 }
  if kind == "funding" then s := { s with commits := s.commits + 1 }
  -- (S)
  -- spends signed from a resolution that went through the contract court's store
  if reload then
    if kvN ws "rec_amt" != kvN ws "act_amt" || kvS ws "pk" != "1" then
      s ← monitor s "index-amount" s!"ctx={ctxS} kind={kind} after reload rec_idx={kvS ws "rec_idx"} rec_amt={kvS ws "rec_amt"} act_amt={kvS ws "act_amt"} pk={kvS ws "pk"}"
    if engine != "ok" then
      s ← monitor s "spend-valid-after-reload" s!"ctx={ctxS} kind={kind} wt={kvS ws "wt"} seq={seq} lock={lock} engine={engine}"
  let variant := if reload then "pos" else variant
  if variant == "pos" && !reload then
    if kvN ws "rec_amt" != kvN ws "act_amt" || kvS ws "pk" != "1" then
      s ← monitor s "index-amount" s!"ctx={ctxS} kind={kind} rec_idx={kvS ws "rec_idx"} rec_amt={kvS ws "rec_amt"} act_amt={kvS ws "act_amt"} pk={kvS ws "pk"}"
    if engine != "ok" then
      let cl := if kind == "funding" then "commit-signed" else "spend-valid"
      s ← monitor s cl s!"ctx={ctxS} kind={kind} wt={kvS ws "wt"} seq={seq} lock={lock} engine={engine}"
  -- (X)
  let some k := spendOf kind | mismatch s s!"unknown kind {kind}"
  let me := nodeOf (ctxField ctxS "x")
  let c : Close := { ct := s.ct, me := me, initiator := (me == 0) == s.initA, csv := s.csv[me]!,
                     leaseExpiry := s.thaw, height := s.sweepHeight }
  if reload && kvS ws "wt" != "presigned" then
    let wtS := kvS ws "wt"
    let offered := (wtS.splitOn "Offered").length > 1
    s := { s with wtypeCompared := s.wtypeCompared + 1 }
    match c.wtype k offered with
    | some wt =>
      if wt.name != wtS then
        s ← mismatch s s!"witness type ctx={ctxS} kind={kind} impl={wtS} model={wt.name}"
    | none => s ← mismatch s s!"witness type ctx={ctxS} kind={kind} impl={wtS} model=none"
  if (spk == "p2tr" || s.ct.taproot) && kvS ws "ws" == "-" then
    -- key-path spends (MuSig2 funding output, taproot anchors): symbolic key-path rule
    let some ev := engineVerdict engine | return { s with modelSkipped := s.modelSkipped + 1 }
    if k != .funding && k != .anchor then return { s with modelSkipped := s.modelSkipped + 1 }
    let some wit := parseWitness (kvS ws "wit") | return (← mismatch s s!"unparsed witness {kvS ws "wit"}")
    let loc := ctxField ctxS "src" == "local"
    let out : TapOut := if k == .funding then ⟨musigKey, 1⟩ else ⟨c.anchorInternal loc, 1⟩
    -- `kp`: does the signer's tap tweak lead to the output key (harness: real EC arithmetic)
    let sigRoot := if kvS ws "kp" == "0" then 2 else 1
    let cx : Ctx := { version := ver, sequence := seq, lockTime := lock, tapscript := true }
    let mv := keyPathRun cx out sigRoot wit && kvS ws "pk" == "1"
    if mv != ev then
      s ← mismatch s s!"verdict(keypath) ctx={ctxS} kind={kind} var={variant} kp={kvS ws "kp"} wit={kvS ws "wit"} model={mv} engine={engine}"
    if variant == "pos" then
      let mw : List Item := [.sig out.internal sigHashDefault .final]
      if wit != mw then
        s ← mismatch s s!"witness(keypath) ctx={ctxS} kind={kind} impl={kvS ws "wit"} model={repr mw}"
      if k == .anchor && (seq != (c.tapCtx k 0).sequence || lock != (c.tapCtx k 0).lockTime) then
        s ← mismatch s s!"txshape(keypath) ctx={ctxS} kind={kind} impl=seq{seq},lock{lock}"
    return { s with modelChecked := s.modelChecked + 1, keyPathChecked := s.keyPathChecked + 1 }
  let some ev := engineVerdict engine | return { s with modelSkipped := s.modelSkipped + 1 }
  let some wit := parseWitness (kvS ws "wit") | mismatch s s!"unparsed witness {kvS ws "wit"}"
  let some script0 := parseScript (kvS ws "ws") | mismatch s s!"unparsed script {kvS ws "ws"}"
  let cltv := findCltv script0
  let ph := findPayHash script0
  let expiry := if k == .htlcTimeoutTx then lock else cltv
  let agg := kind.endsWith "Agg"
  -- the peer's second-level signature is pre-signed (fixed nLockTime / sequence)
  let wit := if k == .htlcTimeoutTx || k == .htlcSuccessTx then
      wit.map fun it => match it with
        | .sig sk ht .final => if sk == c.remoteHtlcKey then .sig sk ht (c.peerSigOver k expiry) else it
        | _ => it
    else wit
  if spk == "p2tr" || s.ct.taproot then
    let cx : Ctx := { version := ver, sequence := seq, lockTime := lock, tapscript := true,
                      aggregated := agg }
    let mv := run cx script0 wit && kvS ws "pk" == "1"
    if mv != ev then
      s ← mismatch s s!"verdict(taproot) ctx={ctxS} kind={kind} var={variant} model={mv} engine={engine}"
    s := { s with modelChecked := s.modelChecked + 1 }
    if variant == "pos" then
      match c.tapScript k expiry ph with
      | some sc =>
        if script0 != sc then
          s ← mismatch s s!"script(taproot) ctx={ctxS} kind={kind} impl={kvS ws "ws"} model={repr sc}"
      | none => s ← mismatch s s!"taproot spend path ctx={ctxS} kind={kind}: model expects the key path"
      let mw := c.tapWitness k expiry (.pre 0)
      if wit != mw then
        s ← mismatch s s!"witness(taproot) ctx={ctxS} kind={kind} impl={kvS ws "wit"} model={repr mw}"
      let mc := c.tapCtx k expiry agg
      if seq != mc.sequence || ver != mc.version || lock != mc.lockTime then
        s ← mismatch s s!"txshape ctx={ctxS} kind={kind} impl=ver{ver},seq{seq},lock{lock} model=ver{mc.version},seq{mc.sequence},lock{mc.lockTime}"
      if c.tapValid k expiry ph (.pre 0) agg != ev then
        s ← mismatch s s!"tapValid ctx={ctxS} kind={kind} model={c.tapValid k expiry ph (.pre 0) agg} engine={engine}"
      s := { s with structChecked := s.structChecked + 1 }
    return s
  let modelScript := c.script k expiry ph
  let modelScriptF := c.script k expiry ph true
  let script := if spk == "p2wkh" then modelScript else script0
  let cx : Ctx := { version := ver, sequence := seq, lockTime := lock, tapscript := false,
                    aggregated := agg }
  let mv := run cx script wit && kvS ws "pk" == "1"
  if mv != ev then
    s ← mismatch s s!"verdict ctx={ctxS} kind={kind} var={variant} model={mv} engine={engine}"
  s := { s with modelChecked := s.modelChecked + 1 }
  if variant == "pos" then
    let flip := script0 == modelScriptF && k == .funding
    if spk != "p2wkh" && script0 != modelScript && !flip then
      s ← mismatch s s!"script ctx={ctxS} kind={kind} impl={kvS ws "ws"} model={repr modelScript}"
    let mw := c.witness k expiry (.pre 0) flip
    if wit != mw then
      s ← mismatch s s!"witness ctx={ctxS} kind={kind} impl={kvS ws "wit"} model={repr mw}"
    let mc := c.ctx k expiry agg
    if k != .funding then
      if seq != mc.sequence || ver != mc.version || lock != mc.lockTime then
        s ← mismatch s s!"txshape ctx={ctxS} kind={kind} impl=ver{ver},seq{seq},lock{lock} model=ver{mc.version},seq{mc.sequence},lock{mc.lockTime}"
      let vv := c.valid k expiry ph (.pre 0) agg
      if vv != ev then
        s ← mismatch s s!"valid ctx={ctxS} kind={kind} model={vv} engine={engine}"
    s := { s with structChecked := s.structChecked + 1 }
  return s

/-! ### byte-level codec tie -/

def blobIdx (k : String) : Option Nat :=
  match k with
  | "resolutions" => some 0 | "signdetails" => some 1 | "anchor" => some 2 | _ => none

/-- `rs`: head of a resolution-set dump -/
def handleRs (s : St) (ws : List String) : IO St := do
  let which := kvS ws "which"
  match Codec.bytesOfHex (kvS ws "hash"), Codec.parseCommit (kvS ws "commit"), Codec.parseAnchor (kvS ws "anchor") with
  | some h, some c, some a =>
    let s := { s with rsCur := { commitHash := h, commit := c, anchor := a }, rsWhich := which }
    if which == "fresh" then
      return { s with rsFresh := none, rsBlobs := #[none, none, none], rsAux := none, rsDamage := none }
    else return s
  | _, _, _ => mismatch s s!"codec: unparsed rs line ctx={kvS ws "ctx"}"

def handleRin (s : St) (ws : List String) : IO St := do
  match Codec.bytesOfHex (kvS ws "pre"), Codec.parseTx (kvS ws "tx"), Codec.parseOp (kvS ws "claim"),
        Codec.parseSD (kvS ws "sd"), Codec.parseDetails (kvS ws "det") with
  | some pre, some tx, some cl, some sd, some det =>
    let i : Codec.InRes := { preimage := pre, tx := tx, csv := kvN ws "csv", claim := cl, sd := sd, details := det }
    return { s with rsCur := { s.rsCur with incoming := s.rsCur.incoming ++ [i] } }
  | _, _, _, _, _ => mismatch s s!"codec: unparsed rin line ctx={kvS ws "ctx"}"

def handleRout (s : St) (ws : List String) : IO St := do
  match Codec.parseTx (kvS ws "tx"), Codec.parseOp (kvS ws "claim"), Codec.parseSD (kvS ws "sd"),
        Codec.parseDetails (kvS ws "det") with
  | some tx, some cl, some sd, some det =>
    let o : Codec.OutRes := { expiry := kvN ws "expiry", tx := tx, csv := kvN ws "csv", claim := cl, sd := sd,
                              details := det }
    return { s with rsCur := { s.rsCur with outgoing := s.rsCur.outgoing ++ [o] } }
  | _, _, _, _ => mismatch s s!"codec: unparsed rout line ctx={kvS ws "ctx"}"

/-- `blob`: the raw value the real encoder stored vs `logRes` of the dumped fields -/
def handleBlob (s : St) (ws : List String) : IO St := do
  let s := if s.rsWhich == "fresh" then { s with rsFresh := some s.rsCur, rsWhich := "" } else s
  let some fresh := s.rsFresh | mismatch s "codec: blob line without a fresh dump"
  let some k := blobIdx (kvS ws "key") | mismatch s s!"codec: unknown blob key {kvS ws "key"}"
  let hx := kvS ws "hex"
  let st := Codec.logRes fresh
  let model : Option Codec.Bytes := match k with
    | 0 => st.resolutions | 1 => st.signDetails | _ => st.anchor
  let s := { s with evals := s.evals + 1, blobsCompared := s.blobsCompared + 1 }
  if hx == "absent" then
    match model with
    | none => return s
    | some m => mismatch s s!"codec ctx={kvS ws "ctx"} key={kvS ws "key"}: impl wrote nothing, model {m.length} bytes"
  else
    let some real := Codec.bytesOfHex hx | mismatch s s!"codec: bad hex ctx={kvS ws "ctx"}"
    let s := { s with rsBlobs := s.rsBlobs.set! k (some real), blobBytes := s.blobBytes + real.length }
    match model with
    | none => mismatch s s!"codec ctx={kvS ws "ctx"} key={kvS ws "key"}: impl wrote {real.length} bytes, model nothing"
    | some m =>
      if m == real then return s
      else mismatch s s!"codec bytes ctx={kvS ws "ctx"} key={kvS ws "key"}: first difference at offset {Codec.firstDiff real m} (impl {real.length} bytes, model {m.length} bytes)"

/-- `aux`: decoded content of the taproot briefcase vs `auxOf` -/
def handleAux (s : St) (ws : List String) : IO St := do
  let some fresh := s.rsFresh | mismatch s "codec: aux line without a fresh dump"
  let written := kvN ws "written" == 1
  let s := { s with evals := s.evals + 1, auxCompared := s.auxCompared + 1 }
  if resOf ws != "ok" then
    return (← mismatch s s!"codec ctx={kvS ws "ctx"}: taproot briefcase does not decode ({resOf ws})")
  let mut s := s
  if written != fresh.auxWritten then
    s ← mismatch s s!"codec aux ctx={kvS ws "ctx"}: taproot briefcase written impl={written} model={fresh.auxWritten}"
  if !written then return s
  match Codec.bytesOfHex (kvS ws "commit"), Codec.bytesOfHex (kvS ws "tweak"), Codec.parseCtrlMap (kvS ws "in"),
        Codec.parseCtrlMap (kvS ws "out"), Codec.parseCtrlMap (kvS ws "second") with
  | some c, some t, some i, some o, some sl =>
    let real : Codec.Aux := { commitCtrl := c, anchorTweak := t, incomingCtrl := i, outgoingCtrl := o, secondCtrl := sl }
    s := { s with rsAux := some real }
    let m := Codec.auxOf fresh
    if m.canon != real.canon then
      let d := (List.zip real.canon m.canon).find? fun (a, b) => a != b
      s ← mismatch s s!"codec aux ctx={kvS ws "ctx"}: impl {real.canon.length} entries, model {m.canon.length}; first difference {repr d}"
    return s
  | _, _, _, _, _ => mismatch s s!"codec: unparsed aux line ctx={kvS ws "ctx"}"

def storeOf (s : St) : Codec.Store :=
  { resolutions := s.rsBlobs[0]!, signDetails := s.rsBlobs[1]!, anchor := s.rsBlobs[2]!, taproot := s.rsAux }

/-- `damage`: a damaged value was stored -/
def handleDamage (s : St) (ws : List String) : IO St := do
  let some k := blobIdx (kvS ws "key") | mismatch s s!"codec: unknown blob key {kvS ws "key"}"
  let some b := Codec.bytesOfHex (kvS ws "hex") | mismatch s s!"codec: bad hex ctx={kvS ws "ctx"}"
  return { s with rsDamage := some (k, b), rsCur := {}, rsWhich := "" }

/-- `rsend`: the model's decoder on the REAL stored bytes vs what the real decoder returned -/
def handleRsEnd (s : St) (ws : List String) : IO St := do
  let which := kvS ws "which"
  let res := resOf ws
  let ctxS := kvS ws "ctx"
  let s := { s with evals := s.evals + 1 }
  if which == "reload" then
    let s := { s with setsDecoded := s.setsDecoded + 1, rsWhich := "" }
    let some fresh := s.rsFresh | mismatch s "codec: reload dump without a fresh dump"
    if res != "ok" then
      -- the real reader rejected what the real writer stored
      match Codec.fetchRes (storeOf s) with
      | some _ => return (← mismatch s s!"codec decode ctx={ctxS}: impl rejects the stored bytes, the model's reader accepts them")
      | none => return s
    let mut s := s
    match Codec.fetchRes (storeOf s) with
    | none => s ← mismatch s s!"codec decode ctx={ctxS}: the model's reader rejects the stored bytes"
    | some m =>
      let d := Codec.diffRes s.rsCur m
      if !d.isEmpty || s.rsCur != m then
        s ← mismatch s s!"codec decode ctx={ctxS}: impl/model differ in {d.take 6}"
    -- the right-hand side of theorem `fetch_log`
    let d := Codec.diffRes s.rsCur fresh.reloaded
    if !d.isEmpty || s.rsCur != fresh.reloaded then
      s ← mismatch s s!"codec reloaded ctx={ctxS}: impl/model differ in {d.take 6}"
    return s
  else
    let some (k, b) := s.rsDamage | mismatch s s!"codec: rsend {which} without damage"
    let st := storeOf s
    let st : Codec.Store := match k with
      | 0 => { st with resolutions := some b }
      | 1 => { st with signDetails := some b }
      | _ => { st with anchor := some b }
    let m := Codec.fetchRes st
    let s := { s with rsDamage := none, rsWhich := "" }
    match res, m with
    | "ok", some x =>
      if s.rsCur == x then return { s with damagedOk := s.damagedOk + 1 }
      else mismatch s s!"codec damaged ctx={ctxS} {which}: impl/model differ in {(Codec.diffRes s.rsCur x).take 6}"
    | "ok", none => mismatch s s!"codec damaged ctx={ctxS} {which}: impl decodes, the model's reader rejects"
    | "err", none => return { s with damagedErr := s.damagedErr + 1 }
    | "err", some _ => mismatch s s!"codec damaged ctx={ctxS} {which}: impl rejects, the model's reader accepts"
    | "err:crypto", _ => return { s with damagedSkipped := s.damagedSkipped + 1 }
    | r, _ => mismatch s s!"codec damaged ctx={ctxS} {which}: impl answered {r}"

/-- `inc:amt_msat:outidx:claimed` -/
def parseHtlc (t : String) : Option (Bool × Nat × Int × Int) :=
  match t.splitOn ":" with
  | [a, b, c, d] =>
    match b.toNat?, c.toInt?, d.toInt? with
    | some amt, some idx, some cl => some (a == "1", amt, idx, cl)
    | _, _, _ => none
  | _ => none

def handleValue (s : St) (rest : List String) : IO St := do
  let s := { s with values := s.values + 1, evals := s.evals + 1 }
  let ctxS := kvS rest "ctx"
  let localCommit := kvS rest "whose" == "local"
  let own := kvN rest "own_msat" / 1000
  let dust := kvN rest "dust"
  let fpk := kvN rest "fpk"
  let mut s := s
  let expectSelf := if dust ≤ own then own else 0
  if kvN rest "claim_self" != expectSelf then
    s ← monitor s "value-self" s!"ctx={ctxS} own_sat={own} dust={dust} claim_self={kvN rest "claim_self"} expected={expectSelf}"
  if kvN rest "distinct" != 1 then
    s ← monitor s "value-distinct" s!"ctx={ctxS} two resolutions claim the same output"
  let hs := kvS rest "htlcs"
  let parsed := if hs == "-" then [] else (hs.splitOn ";").filterMap parseHtlc
  -- the abstract commitment of the model (theorem `claimable_value`)
  let cm : Commitment := { localCommit := localCommit, ownMsat := kvN rest "own_msat", feePerKw := fpk,
                           dust := dust, htlcs := parsed.map fun (inc, amt, _, _) => ⟨inc, amt⟩ }
  let claimedTotal : Int := Int.ofNat (kvN rest "claim_self") +
    parsed.foldl (fun acc (_, _, _, cl) => if cl ≥ 0 then acc + cl else acc) 0
  if claimedTotal != Int.ofNat (cm.claimable s.w s.ct) then
    s ← monitor s "value-total" s!"ctx={ctxS} resolutions cover {claimedTotal} sat, expected {cm.claimable s.w s.ct} (due {cm.dueMsat} msat, loss bound {cm.lossBound s.w s.ct} sat)"
  if hs != "-" then
    for t in hs.splitOn ";" do
      match parseHtlc t with
      | none => s ← mismatch s s!"unparsed htlc {t}"
      | some (inc, amt, idx, cl) =>
        s := { s with htlcsValued := s.htlcsValued + 1 }
        let has := htlcHasOutput s.w s.ct fpk dust inc localCommit amt
        if !has then s := { s with dustHtlcs := s.dustHtlcs + 1 }
        if has then
          if idx < 0 || cl != Int.ofNat (amt / 1000) then
            s ← monitor s "value-htlc" s!"ctx={ctxS} non-dust htlc inc={inc} amt_msat={amt} idx={idx} claimed={cl} expected={amt / 1000} fpk={fpk} dust={dust}"
        else
          if idx ≥ 0 || cl != -1 then
            s ← monitor s "value-htlc" s!"ctx={ctxS} dust htlc inc={inc} amt_msat={amt} has idx={idx} claimed={cl} fpk={fpk} dust={dust}"
  return s

def step (s : St) (line : String) : IO St := do
  let s := { s with lines := s.lines + 1 }
  let ws := words line
  match ws with
  | "FACT" :: rest =>
    let g (k : String) (d : Nat) := (kvNat? rest k).getD d
    let w : Weights := { timeout := g "htlcTimeoutWeight" 0, success := g "htlcSuccessWeight" 0,
                         timeoutConf := g "htlcTimeoutWeightConf" 0, successConf := g "htlcSuccessWeightConf" 0 }
    let dflt : Weights := {}
    let s := { s with w := w, sweepHeight := g "sweepHeight" 800000 }
    if w.timeout != dflt.timeout || w.success != dflt.success || w.timeoutConf != dflt.timeoutConf
        || w.successConf != dflt.successConf then
      mismatch s s!"fact weights: model={repr dflt} impl={repr w}"
    else return s
  | "CASE" :: id :: rest =>
    let b (k : String) : Bool := kvNat? rest k == some 1
    let s := { s with caseId := id, ctype := kvS rest "type",
                       ct := { tweakless := b "tweakless", anchors := b "anchors", zeroFee := b "zerofee",
                               lease := b "lease", taproot := b "taproot",
                               taprootFinal := kvS rest "type" == "taprootfinal" },
                       csv := #[(kvNat? rest "csvA").getD 5, (kvNat? rest "csvB").getD 4],
                       thaw := kvN rest "thaw", initA := kvS rest "initiator" != "B", cases := s.cases + 1 }
    if s.samples < 4 && id != "tmpl" then
      IO.println s!"SAMPLE {line}"
      return { s with samples := s.samples + 1 }
    return s
  | ["END"] => return s
  | "DIST" :: rest =>
    for w in rest do
      match w.splitOn "=" with
      | [k, v] => IO.println s!"STAT hist_{k}={v}"
      | _ => pure ()
    return s
  | "script" :: rest =>
    let s := { s with templates := s.templates + 1, evals := s.evals + 1 }
    let ctor := kvS rest "ctor"
    let some ops := parseScript (resOf ws) | mismatch s s!"template {ctor}: unparsed {resOf ws}"
    match template ctor (kvN rest "csv") (kvN rest "cltv") (kvN rest "conf" == 1) with
    | some cands =>
      if cands.contains ops then return s
      else mismatch s s!"template {ctor} csv={kvN rest "csv"} cltv={kvN rest "cltv"} conf={kvN rest "conf"}: impl={resOf ws} model={repr (cands.headD [])}"
    | none => mismatch s s!"template {ctor}: no model"
  | "probe" :: rest =>
    let s := { s with evals := s.evals + 1 }
    let src := kvS rest "src"
    let tag := kvS rest "tag"
    let s := if tag == "reload" then { s with probesReload := s.probesReload + 1 } else s
    let s := if tag == "court" then { s with reloadProbes := s.reloadProbes + 1 } else s
    let s := if src == "local" then { s with probesLocal := s.probesLocal + 1 }
             else if src == "pending" then { s with probesPending := s.probesPending + 1 }
             else { s with probesRemote := s.probesRemote + 1 }
    if resOf ws == "ok" then return s
    else monitor s "summary-built" s!"x={kvS rest "x"} src={src} h={kvS rest "h"} tag={tag} result={resOf ws}"
  | "bad" :: rest =>
    monitor s "index-amount" s!"ctx={kvS rest "ctx"} kind={kvS rest "kind"} idx={kvS rest "idx"} {resOf ws}"
  | "second" :: rest =>
    let s := { s with secondTx := s.secondTx + 1, evals := s.evals + 1 }
    let timeout := kvS rest "kind" == "timeout"
    let wantLock := if timeout then kvN rest "expiry" else 0
    let fee := htlcFee s.w s.ct (kvN rest "fpk") (!timeout) true
    let mut s := s
    if kvN rest "locktime" != wantLock || kvN rest "seq" != htlcSecondLevelSeq s.ct then
      s ← monitor s "second-level-shape" s!"ctx={kvS rest "ctx"} kind={kvS rest "kind"} locktime={kvN rest "locktime"} expected={wantLock} seq={kvN rest "seq"} expected_seq={htlcSecondLevelSeq s.ct}"
    if kvN rest "out_amt" + fee != kvN rest "htlc_amt" then
      s ← monitor s "second-level-amount" s!"ctx={kvS rest "ctx"} kind={kvS rest "kind"} out_amt={kvN rest "out_amt"} htlc_amt={kvN rest "htlc_amt"} fee={fee}"
    return s
  | "history" :: rest =>
    if kvNat? rest "dead" == some 1 then mismatch s "history aborted: a peer rejected an honest message"
    else return s
  | "value" :: rest => handleValue s rest
  | "desc" :: rest => handleDesc s rest
  | "signed" :: rest => handleSigned s rest
  | "persist" :: rest =>
    let s := { s with evals := s.evals + 1, persistOps := s.persistOps + 1 }
    if resOf ws == "ok" then return s
    else monitor s "reload-roundtrip" s!"ctx={kvS rest "ctx"} what={kvS rest "what"} idx={kvS rest "idx"} result={resOf ws}"
  | "spend" :: rest => handleSpend s ("spend" :: rest)
  | "rs" :: rest => handleRs s rest
  | "rin" :: rest => handleRin s rest
  | "rout" :: rest => handleRout s rest
  | "blob" :: rest => handleBlob s ("blob" :: rest)
  | "aux" :: rest => handleAux s ("aux" :: rest)
  | "damage" :: rest => handleDamage s ("damage" :: rest)
  | "rsend" :: rest => handleRsEnd s ("rsend" :: rest)
  | [] => return s
  | _ => mismatch s s!"unparsed line: {line.take 80}"

end LndModel.C05.Driver

open LndModel.C05.Driver in
def main : IO Unit := do
  let s ← LndModel.Lines.foldStdin step {}
  IO.println s!"STAT lines={s.lines}"
  IO.println s!"STAT cases={s.cases}"
  IO.println s!"STAT evaluations={s.evals}"
  IO.println s!"STAT nontrivial={s.spendsPos + s.spendsNeg + s.spendsReload + s.values + s.descCompared}"
  IO.println s!"STAT court_probes={s.reloadProbes}"
  IO.println s!"STAT spends_after_reload_executed={s.spendsReload}"
  IO.println s!"STAT store_operations={s.persistOps}"
  IO.println s!"STAT descriptors_compared_with_persist_model={s.descCompared}"
  IO.println s!"STAT signer_requests_compared_with_effective_model={s.signedCompared}"
  IO.println s!"STAT resolver_witness_types_compared={s.wtypeCompared}"
  IO.println s!"STAT probes_local_force_close={s.probesLocal}"
  IO.println s!"STAT probes_remote_current={s.probesRemote}"
  IO.println s!"STAT probes_remote_pending={s.probesPending}"
  IO.println s!"STAT probes_after_reload={s.probesReload}"
  IO.println s!"STAT signed_commitments_executed={s.commits}"
  IO.println s!"STAT second_level_txs={s.secondTx}"
  IO.println s!"STAT spends_executed={s.spendsPos}"
  IO.println s!"STAT negatives_executed={s.spendsNeg}"
  IO.println s!"STAT negatives_rejected={s.negRejected}"
  IO.println s!"STAT value_checks={s.values}"
  IO.println s!"STAT htlcs_valued={s.htlcsValued}"
  IO.println s!"STAT dust_htlcs={s.dustHtlcs}"
  IO.println s!"STAT model_verdicts_compared={s.modelChecked}"
  IO.println s!"STAT model_structure_compared={s.structChecked}"
  IO.println s!"STAT model_skipped_taproot_or_unsigned={s.modelSkipped}"
  IO.println s!"STAT key_path_spends_compared={s.keyPathChecked}"
  IO.println s!"STAT templates_compared={s.templates}"
  IO.println s!"STAT stored_values_compared_bytewise={s.blobsCompared}"
  IO.println s!"STAT stored_bytes_compared={s.blobBytes}"
  IO.println s!"STAT resolution_sets_decoded_by_model={s.setsDecoded}"
  IO.println s!"STAT taproot_aux_compared={s.auxCompared}"
  IO.println s!"STAT damaged_values_both_accept={s.damagedOk}"
  IO.println s!"STAT damaged_values_both_reject={s.damagedErr}"
  IO.println s!"STAT damaged_values_crypto_skipped={s.damagedSkipped}"
  IO.println s!"STAT mismatches={s.mismatches}"
  IO.println s!"STAT monitor_failures={s.monitorFails}"
