/-
C05 property theorems, part 2: **spends stay valid after a reload of the
resolution** (the contract court stores every resolution and reads it back
before the sweep is signed).

* `codec_drops` / `persist_keeps`: exactly which `SignDescriptor` fields survive
  `WriteSignDescriptor`/`ReadSignDescriptor` and the taproot briefcase.
* `gen_reload_eq`: for every modelled witness type the witness generator's output
  on the reloaded descriptor equals its output on the fresh one - it reads only
  persisted fields, the sign method being FORCED for the taproot types.
* `gen_after_reload`: hence a witness produced before the reload is produced
  after it.
* `forcing_is_necessary`: without the forced sign method no taproot witness
  type can sign from a reloaded descriptor (the sign method is not persisted).
* `taproot_needs_aux`: without the taproot briefcase record (no anchor
  resolution) no taproot witness can be produced after a reload.
* `fresh_generates_model_witness` / `fresh_generates_tap_witness`: the descriptor
  lnwallet builds, through the witness type the resolvers pick, yields exactly
  the witness of `Close.witness` / `Close.tapWitness`.
* `spend_valid_after_reload` / `tap_spend_valid_after_reload`: every spend of
  `all_spends_valid` / `taproot_script_path_spends_valid` is still accepted by
  the script when signed from the reloaded descriptor.
-/
import LndModel.C05.Persist
import LndModel.C05.Props

set_option linter.unusedSimpArgs false
set_option linter.unusedVariables false

namespace LndModel.C05.PersistProps
open LndModel.C05 LndModel.C04.Script

/-- what `WriteSignDescriptor` drops -/
theorem codec_drops (d : SignDesc) :
    d.codec.method = smWitnessV0 ∧ d.codec.ctrl = 0 ∧ d.codec.tapTweak = 0 ∧ d.codec.inputIndex = 0 :=
  ⟨rfl, rfl, rfl, rfl⟩

/-- what survives one trip through the contract court's store -/
theorem persist_keeps (aux : Bool) (s : Slot) (d : SignDesc) :
    let r := persist aux s d
    r.fam = d.fam ∧ r.idx = d.idx ∧ r.key = d.key ∧ r.single = d.single ∧ r.double = d.double ∧
    r.wscript = d.wscript ∧ r.outVal = d.outVal ∧ r.outPk = d.outPk ∧ r.hashType = d.hashType ∧
    r.method = smWitnessV0 ∧ r.inputIndex = 0 ∧
    r.ctrl = (if aux && s != .anchor then d.ctrl else 0) ∧
    r.tapTweak = (if aux && s == .anchor then d.tapTweak else 0) := by
  cases aux <;> cases s <;> simp [persist, SignDesc.codec, smWitnessV0]

/-- a second reload changes nothing -/
theorem persist_idempotent (aux : Bool) (s : Slot) (d : SignDesc) :
    persist aux s (persist aux s d) = persist aux s d := by
  cases aux <;> cases s <;> simp [persist, SignDesc.codec]

/-- is the descriptor usable by the witness type: v0 types need the v0 sign
    method (it is passed on as is), taproot types need control block / tap tweak -/
def ready (c : SigClass) (d : SignDesc) : Bool :=
  match c with
  | .v0 => d.method == smWitnessV0
  | .tapScript => d.ctrl != 0
  | .tapKey => d.tapTweak != 0

/-- signature and signer key: functions of key, tweaks and sighash type only -/
def sigOf (d : SignDesc) : Option (Item × Key) :=
  d.signerKey.map fun k => (.sig k d.hashType .final, k)

/-- normal form of the generator: a gate on (method | control block | tap tweak)
    and a core that reads key, tweaks and sighash type. -/
theorem genWitness_eq (wt : WT) (d : SignDesc) (peer pre : Item) :
    genWitness wt d peer pre =
      if ready wt.cls d then (sigOf d).map (fun x => wt.stack x.1 peer pre x.2) else none := by
  unfold genWitness
  cases hc : wt.cls
  · by_cases hm : d.method = smWitnessV0
    · cases hk : d.key <;>
        simp [effective, ready, signWith, methodFits, sigOf, SignDesc.signerKey, hm, hk]
    · simp [effective, ready, signWith, methodFits, hm]
  · by_cases h0 : d.ctrl = 0
    · simp [effective, ready, h0]
    · cases hk : d.key <;>
        simp [effective, ready, signWith, methodFits, sigOf, SignDesc.signerKey, h0, hk]
  · by_cases h0 : d.tapTweak = 0
    · simp [effective, ready, h0]
    · cases hk : d.key <;>
        simp [effective, ready, signWith, methodFits, sigOf, SignDesc.signerKey, h0, hk]

theorem sigOf_persist (aux : Bool) (s : Slot) (d : SignDesc) : sigOf (persist aux s d) = sigOf d := by
  cases aux <;> cases s <;> simp [sigOf, persist, SignDesc.codec, SignDesc.signerKey]

/-- **The witness generator reads only persisted fields.**  For every modelled
    witness type, on a descriptor whose sign method is what lnwallet sets for
    segwit-v0 outputs (taproot types: any method - it is forced), the generator
    produces the same result from the reloaded descriptor as from the fresh one
    (taproot: provided the taproot briefcase was written). -/
theorem gen_reload_eq (wt : WT) (d : SignDesc) (aux : Bool) (peer pre : Item)
    (haux : wt.cls ≠ .v0 → aux = true)
    (hv0 : wt.cls = .v0 → d.method = smWitnessV0) :
    genWitness wt (persist aux wt.slot d) peer pre = genWitness wt d peer pre := by
  rw [genWitness_eq, genWitness_eq, sigOf_persist]
  have hr : ready wt.cls (persist aux wt.slot d) = ready wt.cls d := by
    cases wt <;> cases aux <;>
      simp_all [ready, WT.cls, WT.slot, persist, SignDesc.codec, smWitnessV0]
  rw [hr]

/-- validity before the reload implies validity after it (no hypothesis on the
    fresh descriptor's sign method: a fresh v0 descriptor that signs has method 0). -/
theorem gen_after_reload (wt : WT) (d : SignDesc) (aux : Bool) (peer pre : Item) (w : List Item)
    (haux : wt.cls ≠ .v0 → aux = true)
    (h : genWitness wt d peer pre = some w) :
    genWitness wt (persist aux wt.slot d) peer pre = some w := by
  by_cases hc : wt.cls = .v0
  · have hm : d.method = smWitnessV0 := by
      simp [genWitness, effective, hc, signWith, methodFits] at h
      by_cases hm : d.method = smWitnessV0
      · exact hm
      · simp [hm] at h
    rw [gen_reload_eq wt d aux peer pre haux (fun _ => hm)]; exact h
  · rw [gen_reload_eq wt d aux peer pre haux (fun h' => absurd h' hc)]; exact h

/-- **What the seeded change breaks.**  The sign method is not persisted, so a
    taproot witness type that handed the reloaded descriptor to the signer
    unchanged (instead of `effective`) could never sign. -/
theorem forcing_is_necessary (wt : WT) (d : SignDesc) (aux : Bool) (h : wt.cls ≠ .v0) :
    signWith wt.cls (persist aux wt.slot d) = none := by
  cases aux <;> cases wt <;>
    simp_all [signWith, methodFits, persist, SignDesc.codec, WT.cls, WT.slot, smTapScriptSpend,
      smTapKeySpend]

/-- and with the forced method the reloaded descriptor signs exactly when the
    fresh one does (taproot types, briefcase written). -/
theorem forced_method_signs (wt : WT) (d : SignDesc) (h : wt.cls ≠ .v0) :
    (effective wt.cls (persist true wt.slot d)).bind (signWith wt.cls) =
    (effective wt.cls d).bind (signWith wt.cls) := by
  cases wt <;>
    simp_all [effective, persist, SignDesc.codec, WT.cls, WT.slot] <;>
    split <;> simp [signWith, methodFits, SignDesc.signerKey, smTapScriptSpend, smTapKeySpend]

/-- without the taproot briefcase record (it is written only together with an
    anchor resolution) nothing taproot can be signed after a reload. -/
theorem taproot_needs_aux (wt : WT) (d : SignDesc) (peer pre : Item) (h : wt.cls ≠ .v0) :
    genWitness wt (persist false wt.slot d) peer pre = none := by
  cases wt <;> simp_all [genWitness, effective, persist, SignDesc.codec, WT.cls, WT.slot]

/-! ### from the descriptor lnwallet builds to the model's witness -/

/-- the peer's second-level signature as carried in `SignDetails.PeerSig` -/
def peerSig (c : Close) (s : Spend) (expiry : Nat) : Item :=
  .sig c.remoteHtlcKey (htlcSigHashType c.ct) (c.peerSigOver s expiry)

/-- segwit-v0 channel types: fresh descriptor + the resolver's witness type give
    exactly `Close.witness`. -/
theorem fresh_generates_model_witness (c : Close) (s : Spend) (offered : Bool) (expiry : Nat)
    (pre : Item) (tw ws cb tt : Nat) (wt : WT)
    (htap : c.ct.taproot = false) (hl : c.ct.lease = true → c.ct.anchors = true)
    (htw : tw ≠ 0)
    (hwt : c.wtype s offered = some wt) :
    genWitness wt (c.signDesc s tw ws cb tt) (peerSig c s expiry) pre =
      some (c.witness s expiry pre) := by
  obtain ⟨⟨tweakless, anchors, zf, lease, taproot, tfinal⟩, me, init, csv, lexp, height⟩ := c
  simp only at htap hl
  subst htap
  cases s <;> cases anchors <;> cases lease <;> cases init <;> cases tweakless <;> cases offered <;>
    simp_all [Close.wtype, Close.hasCltv] <;> subst hwt <;>
    simp [genWitness, effective, WT.cls, signWith, methodFits, Close.signDesc, Close.descKey,
      SignDesc.signerKey, tweakSingle, sweepSigHash, smWitnessV0, WT.stack, Close.witness,
      Close.witnessWith, Close.signer, Close.toRemoteKey, Close.fundingKey, Close.hasCltv, peerSig,
      Close.peerSigOver, Close.remoteHtlcKey, Close.peer, htlcSigHashType, htw, sigHashAll]

/-- simple-taproot channel types (script-path spends). -/
theorem fresh_generates_tap_witness (c : Close) (s : Spend) (offered : Bool) (expiry : Nat)
    (pre : Item) (tw ws cb tt : Nat) (wt : WT)
    (htap : c.ct.taproot = true) (ha : c.ct.anchors = true) (htl : c.ct.tweakless = true)
    (hs : s ≠ .funding ∧ s ≠ .anchor) (htw : tw ≠ 0) (hcb : cb ≠ 0)
    (hwt : c.wtype s offered = some wt) :
    genWitness wt (c.signDesc s tw ws cb tt) (peerSig c s expiry) pre =
      some (c.tapWitness s expiry pre) := by
  obtain ⟨⟨tweakless, anchors, zf, lease, taproot, tfinal⟩, me, init, csv, lexp, height⟩ := c
  simp only at htap ha htl
  subst htap ha htl
  obtain ⟨hs1, hs2⟩ := hs
  cases s <;> first | exact absurd rfl hs1 | exact absurd rfl hs2 | skip
  all_goals
    cases tfinal <;> cases offered <;>
    simp_all [Close.wtype] <;> subst hwt <;>
    simp [genWitness, effective, WT.cls, signWith, methodFits, Close.signDesc, Close.descKey,
      SignDesc.signerKey, tweakSingle, sweepSigHash, smTapScriptSpend, WT.stack, Close.tapWitness,
      Close.signer, Close.toRemoteKey, peerSig, Close.peerSigOver, Close.remoteHtlcKey, Close.peer,
      htlcSigHashType, htw, hcb, sigHashDefault, sigHashSingleAnyoneCanPay]

/-- the taproot anchor (key path): the fresh descriptor signs with the party's
    to_local / to_remote key, key-spend method, SIGHASH_DEFAULT - and so does the
    reloaded one, because the tap tweak travels in the taproot briefcase. -/
theorem tap_anchor_signs_after_reload (c : Close) (localAnchor : Bool) (tw ws cb tt : Nat)
    (peer pre : Item) (htap : c.ct.taproot = true) (htw : tw ≠ 0) (htt : tt ≠ 0) :
    let d := c.signDesc .anchor tw ws cb tt localAnchor
    let k : Key := if localAnchor then .single c.me roleDelay else .base c.me rolePay
    genWitness .taprootAnchorSweepSpend d peer pre = some [.sig k sigHashDefault .final] ∧
    genWitness .taprootAnchorSweepSpend (persist true .anchor d) peer pre =
      some [.sig k sigHashDefault .final] := by
  obtain ⟨⟨tweakless, anchors, zf, lease, taproot, tfinal⟩, me, init, csv, lexp, height⟩ := c
  simp only at htap
  subst htap
  cases localAnchor <;>
    simp [genWitness, effective, WT.cls, signWith, methodFits, Close.signDesc, Close.descKey,
      SignDesc.signerKey, tweakSingle, sweepSigHash, smTapKeySpend, WT.stack, persist,
      SignDesc.codec, htw, htt, sigHashDefault]

/-- **spend valid after reload of the resolution**, segwit-v0 channel types:
    every spend of `all_spends_valid`, signed from the descriptor as it comes
    back from the contract court's store through the witness type the resolver
    picks, is accepted by the script (aggregated second-level inputs: anchor
    types only, as for `second_level_timeout_valid`). -/
theorem spend_valid_after_reload (c : Close) (s : Spend) (offered agg aux : Bool) (expiry p : Nat)
    (tw ws cb tt : Nat) (wt : WT)
    (htap : c.ct.taproot = false) (hl : c.ct.lease = true → c.ct.anchors = true)
    (htw : tw ≠ 0) (hseq : c.csv ≠ seqFinal)
    (hagg : agg = true → c.ct.anchors = true ∧ (s = .htlcTimeoutTx ∨ s = .htlcSuccessTx))
    (hwt : c.wtype s offered = some wt) :
    ∃ w, genWitness wt (persist aux wt.slot (c.signDesc s tw ws cb tt)) (peerSig c s expiry) (.pre p)
           = some w ∧
         run (c.ctx s expiry agg) (c.script s expiry (.h160 (.pre p))) w = true := by
  have hv0 : wt.cls = .v0 := by
    obtain ⟨⟨tweakless, anchors, zf, lease, taproot, tfinal⟩, me, init, csv, lexp, height⟩ := c
    simp only at htap
    subst htap
    cases s <;> cases anchors <;> cases lease <;> cases init <;> cases tweakless <;> cases offered <;>
      simp_all [Close.wtype, Close.hasCltv] <;> subst hwt <;> rfl
  refine ⟨c.witness s expiry (.pre p), ?_, ?_⟩
  · rw [gen_reload_eq wt _ aux _ _ (fun h => absurd hv0 h)
        (fun _ => by simp [Close.signDesc, htap, smWitnessV0])]
    exact fresh_generates_model_witness c s offered expiry (.pre p) tw ws cb tt wt htap hl htw hwt
  · have hv : c.valid s expiry (.h160 (.pre p)) (.pre p) agg = true := by
      cases s
      · simp [Close.wtype] at hwt
      · cases agg
        · exact (Props.delayed_outputs_valid c _ (Or.inl rfl) hseq ▸ by
            simp [Close.valid, Close.ctx, Close.script, Close.witness, Close.witnessWith,
              Close.lockTime, Close.sequence])
        · have := (hagg rfl).2; simp at this
      · exact Props.second_level_timeout_valid c expiry _ agg (fun h => (hagg h).1)
      · exact Props.second_level_success_valid c expiry p agg (fun h => (hagg h).1)
      · cases agg
        · exact (Props.delayed_outputs_valid c _ (Or.inr rfl) hseq ▸ by
            simp [Close.valid, Close.ctx, Close.script, Close.witness, Close.witnessWith,
              Close.lockTime, Close.sequence])
        · have := (hagg rfl).2; simp at this
      · cases agg
        · exact (Props.to_remote_valid c ▸ by
            simp [Close.valid, Close.ctx, Close.script, Close.witness, Close.witnessWith,
              Close.lockTime, Close.sequence])
        · have := (hagg rfl).2; simp at this
      · cases agg
        · exact Props.remote_htlc_timeout_valid c expiry _
        · have := (hagg rfl).2; simp at this
      · cases agg
        · exact Props.remote_htlc_claim_valid c expiry p
        · have := (hagg rfl).2; simp at this
      · cases agg
        · exact (Props.anchor_valid c ▸ by
            simp [Close.valid, Close.ctx, Close.script, Close.witness, Close.witnessWith,
              Close.lockTime, Close.sequence])
        · have := (hagg rfl).2; simp at this
    simpa [Close.valid] using hv

/-- **spend valid after reload**, simple-taproot channels, script-path spends
    (taproot briefcase written). -/
theorem tap_spend_valid_after_reload (c : Close) (s : Spend) (offered agg : Bool) (expiry p : Nat)
    (tw ws cb tt : Nat) (wt : WT)
    (htap : c.ct.taproot = true) (ha : c.ct.anchors = true) (htl : c.ct.tweakless = true)
    (hl : c.ct.lease = false) (hs : s ≠ .funding ∧ s ≠ .anchor)
    (htw : tw ≠ 0) (hcb : cb ≠ 0) (hcsv : c.csv ≠ 0) (hexp : expiry ≠ 0)
    (hwt : c.wtype s offered = some wt) :
    ∃ sc w, c.tapScript s expiry (.h160 (.pre p)) = some sc ∧
      genWitness wt (persist true wt.slot (c.signDesc s tw ws cb tt)) (peerSig c s expiry) (.pre p)
        = some w ∧
      run (c.tapCtx s expiry agg) sc w = true := by
  have hv := Props.taproot_script_path_spends_valid c s expiry p agg hs ha hl hcsv hexp
  have hg := fresh_generates_tap_witness c s offered expiry (.pre p) tw ws cb tt wt htap ha htl hs
    htw hcb hwt
  have hg' := gen_after_reload wt _ true _ _ _ (fun _ => rfl) hg
  unfold Close.tapValid at hv
  cases hsc : c.tapScript s expiry (.h160 (.pre p)) with
  | none => simp [hsc] at hv
  | some sc =>
    rw [hsc] at hv
    exact ⟨sc, _, rfl, hg', hv⟩

/-! ### taproot key-path spends -/

/-- a key-path signature made with another script root does not verify -/
theorem keypath_needs_matching_root (cx : Ctx) (out : TapOut) (sigRoot : Nat) (w : List Item)
    (h : sigRoot ≠ out.root) : keyPathRun cx out sigRoot w = false := by
  unfold keyPathRun
  split
  · have : (sigRoot == out.root) = false := by simpa using h
    simp [this]
  · rfl

/-- nor does a signature by any key but the output's internal key -/
theorem keypath_needs_internal_key (cx : Ctx) (out : TapOut) (r : Nat) (k : Key) (ht : Nat)
    (o : SigOver) (h : k ≠ out.internal) : keyPathRun cx out r [.sig k ht o] = false := by
  simp [keyPathRun, h]

/-- **taproot anchor, key path, valid after reload**: the descriptor as it comes
    back from the contract court's store (tap tweak restored from the taproot
    briefcase) still yields the one Schnorr signature (SIGHASH_DEFAULT, key-spend
    method forced) under which the anchor's output key verifies - on our own
    commitment (to_local key) and on the peer's (to_remote key). -/
theorem tap_anchor_keypath_valid_after_reload (c : Close) (localAnchor : Bool) (tw ws cb tt : Nat)
    (peer pre : Item) (htap : c.ct.taproot = true) (htw : tw ≠ 0) (htt : tt ≠ 0) :
    let d := persist true .anchor (c.signDesc .anchor tw ws cb tt localAnchor)
    ∃ w, genWitness .taprootAnchorSweepSpend d peer pre = some w ∧
      keyPathRun (c.tapCtx .anchor 0) ⟨c.anchorInternal localAnchor, tt⟩ d.tapTweak w = true := by
  obtain ⟨_, h2⟩ := tap_anchor_signs_after_reload c localAnchor tw ws cb tt peer pre htap htw htt
  refine ⟨_, h2, ?_⟩
  obtain ⟨⟨tweakless, anchors, zf, lease, taproot, tfinal⟩, me, init, csv, lexp, height⟩ := c
  simp only at htap
  subst htap
  cases localAnchor <;>
    simp [keyPathRun, Close.anchorInternal, persist, SignDesc.codec, Close.signDesc, Close.descKey,
      sigOk, sigHashDefined, sigCommits, sigHashDefault, Close.tapCtx]

/-- without the taproot briefcase record the anchor's tap tweak is gone: even a
    signer that signed anyway could not produce a signature for the output key. -/
theorem tap_anchor_keypath_needs_aux (c : Close) (localAnchor : Bool) (tw ws cb tt : Nat)
    (cx : Ctx) (w : List Item) (htap : c.ct.taproot = true) (htt : tt ≠ 0) :
    let d := persist false .anchor (c.signDesc .anchor tw ws cb tt localAnchor)
    keyPathRun cx ⟨c.anchorInternal localAnchor, tt⟩ d.tapTweak w = false := by
  apply keypath_needs_matching_root
  simp [persist, SignDesc.codec]
  exact fun h => htt h.symm

/-- the MuSig2 funding output: the combined signature verifies under the
    aggregate key tweaked with the channel's tapscript root (BIP86 if none) -/
theorem tap_funding_keypath_valid (cx : Ctx) (root : Nat) :
    keyPathRun cx ⟨musigKey, root⟩ root [.sig musigKey sigHashDefault .final] = true := by
  simp [keyPathRun, sigOk, sigHashDefined, sigCommits, sigHashDefault]

/-! non-vacuity -/
example : genWitness (.taprootRemoteCommitSpend false)
    (persist true .commit { key := some (.base 0 rolePay), method := smTapScriptSpend, ctrl := 7,
                            wscript := 5 }) (.num 0) (.num 0)
    = some [.sig (.base 0 rolePay) 0 .final] := by decide
example : signWith .tapScript
    (persist true .commit { key := some (.base 0 rolePay), method := smTapScriptSpend, ctrl := 7 })
    = none := by decide
example : (Close.mk { anchors := true, zeroFee := true } 0 true 144 0 800000).wtype .toRemote
    = some .commitmentToRemoteConfirmed := by decide

end LndModel.C05.PersistProps
