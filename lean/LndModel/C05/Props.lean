/-
C05 property theorems (symbolic script semantics of `LndModel.C04.Script`;
segwit-v0 channel types unless a theorem says "taproot").

Signatures carry their sighash flag and what they were made over: our own sweep
signatures are made over the final transaction; the peer's second-level HTLC
signature is PRE-SIGNED over the one-input / one-output form of the second-level
transaction with fixed nLockTime and sequence, and survives the sweeper's
aggregation only with SIGHASH_SINGLE|ANYONECANPAY.  Transaction finality
(nLockTime, BIP68) is part of the context (`includable`).

* `local_commit_fully_signed`, `local_commit_needs_peer_sig`, `local_commit_sig_order`
* `second_level_timeout_valid` / `_includable_iff` / `_locktime_forced` /
  `_not_before_expiry`: valid, includable exactly from the block after expiry,
  and no transaction with another locktime can use the peer's signature.
* `second_level_success_valid`, `_needs_preimage`, `_wrong_preimage`
* `second_level_sighash_anchors`: in an aggregated transaction the peer's
  signature works iff its flag is SINGLE|ANYONECANPAY (wrong sighash ⇒ invalid);
  `second_level_sighash_must_be_defined` for the non-aggregated case.
* `delayed_outputs_valid`, `delayed_output_early_invalid`, `delayed_output_needs_age`
* `to_remote_valid`, `remote_htlc_claim_valid`, `remote_htlc_timeout_valid`,
  `remote_htlc_timeout_early_invalid`, `anchor_valid`, `all_spends_valid`
* `taproot_script_path_spends_valid` (script-path spends only)
* `claimable_value`: value covered by the resolutions of an abstract commitment
  vs. balance + all HTLCs, up to dust trimming and msat truncation.
-/
import LndModel.C05.Lemmas

set_option linter.unusedSimpArgs false

namespace LndModel.C05.Props
open LndModel.C05 LndModel.C04.Script

/-! the common unfolding set -/
attribute [local simp] Close.valid Close.ctx Close.ctxAt Close.sequence Close.lockTime Close.script
  Close.witness Close.witnessWith Close.peerSigOver Close.signer Close.hasCltv Close.revocationKey
  Close.toLocalKey Close.toRemoteKey
  Close.localHtlcKey Close.remoteHtlcKey Close.fundingKey Close.peer htlcSigHashType
  htlcSecondLevelSeq sigHashAll sigHashSingleAnyoneCanPay sigHashDefault
  run delayOrRevoke leaseDelayOrRevoke toRemoteConfirmed leaseToRemoteConfirmed p2wkh anchor
  multiSig senderHTLC receiverHTLC witDelay witP2wkh witRedeem witRecvTimeout witSenderTimeout
  witReceiverRedeem witMultiSig
  runOps step exec skip opIfE opElseE opEndIfE opDup opSwap opDrop opSize opIfDup
  opEqual opEqualVerify opHash160 opCheckSig opCheckSigVerify opCheckMultiSig multiSigBody
  opCsv opCltv popN msig sigMatch ifArg pk n sigCheck sigOk sigHashDefined sigCommits
  accepts truthy byteLen

/-- **local_commit_fully_signed** (model level): the funding 2-of-2 accepts the
    two SIGHASH_ALL signatures in key order, whichever party's key sorts first. -/
theorem local_commit_fully_signed (c : Close) (flip : Bool) :
    run (c.ctx .funding 0) (c.script .funding 0 (.num 0) flip)
      (c.witness .funding 0 (.num 0) flip) = true := by
  cases flip <;> simp

/-- without the peer's signature the commitment is not valid. -/
theorem local_commit_needs_peer_sig (c : Close) (x : Ctx) (hx : x.tapscript = false) :
    run x (multiSig (c.fundingKey c.me) (c.fundingKey c.peer))
      (witMultiSig (.sig (c.fundingKey c.me) 1 .final) (.num 0)) = false := by
  simp [hx]

/-- signatures in the wrong order are rejected (CHECKMULTISIG is ordered). -/
theorem local_commit_sig_order (a b : Key) (hab : a ≠ b) (x : Ctx) (hx : x.tapscript = false) :
    run x (multiSig a b) (witMultiSig (.sig b 1 .final) (.sig a 1 .final)) = false := by
  have hba : b ≠ a := fun h => hab h.symm
  simp [hx, hab, hba]

/-! ### second-level transactions on our own commitment -/

/-- **second_level_valid**, HTLC-timeout transaction of an offered HTLC: with the
    peer's pre-signed signature carrying `HtlcSigHashType`, in the transaction as
    signed (`agg = false`) for every channel type and in the sweeper's
    aggregated transaction (`agg = true`) for anchor types. -/
theorem second_level_timeout_valid (c : Close) (expiry : Nat) (payHash : Item) (agg : Bool)
    (hagg : agg = true → c.ct.anchors = true) :
    c.valid .htlcTimeoutTx expiry payHash (.num 0) agg = true := by
  obtain ⟨⟨tweakless, anchors, zf, lease, taproot, tfinal⟩, me, init, csv, lexp, height⟩ := c
  cases anchors <;> cases agg <;> simp_all [csvOk_one]

/-- The timeout transaction is includable exactly from the block after the
    HTLC's expiry (and, for anchor types, one block after the commitment). -/
theorem second_level_timeout_includable_iff (c : Close) (expiry h a : Nat) (agg : Bool)
    (he : 0 < expiry) (hb : expiry < lockThreshold) (ha : 1 ≤ a) :
    includable (c.ctxAt .htlcTimeoutTx expiry agg h a) = true ↔ expiry < h := by
  obtain ⟨⟨tweakless, anchors, zf, lease, taproot, tfinal⟩, me, init, csv, lexp, height⟩ := c
  have h0 : expiry ≠ 0 := by omega
  cases anchors <;>
    simp [includable, absFinal, relFinal, seqFinal, seqDisable, seqTypeFlag, seqMask, h0, hb] <;>
    omega

/-- **Not before expiry**: whatever transaction the peer's pre-signed signature
    is placed in, the offered-HTLC script accepts it only if that transaction's
    nLockTime is the HTLC's expiry (and its sequence the agreed one). -/
theorem second_level_timeout_locktime_forced (c : Close) (x : Ctx) (expiry : Nat) (payHash : Item)
    (hx : x.tapscript = false)
    (h : run x (c.script .htlcTimeoutTx expiry payHash) (c.witness .htlcTimeoutTx expiry (.num 0))
      = true) :
    x.lockTime = expiry ∧ x.sequence = htlcSecondLevelSeq c.ct := by
  obtain ⟨⟨tweakless, anchors, zf, lease, taproot, tfinal⟩, me, init, csv, lexp, height⟩ := c
  have h1 : me ≠ 1 - me := by omega
  have h2 : 1 - me ≠ me := by omega
  cases anchors
  · by_cases hc : x.lockTime = expiry ∧ x.sequence = 0
    · simpa using hc
    · exfalso
      have hcm : (x.lockTime == expiry && x.sequence == 0) = false := by
        cases hb : (x.lockTime == expiry && x.sequence == 0)
        · rfl
        · exfalso; apply hc; simpa using hb
      simp [hx, h1, h2, hcm] at h
  · by_cases hc : x.lockTime = expiry ∧ x.sequence = 1
    · simpa using hc
    · exfalso
      have hcm : (x.lockTime == expiry && x.sequence == 1) = false := by
        cases hb : (x.lockTime == expiry && x.sequence == 1)
        · rfl
        · exfalso; apply hc; simpa using hb
      simp [hx, h1, h2, hcm] at h

/-- hence it cannot be mined at or before the expiry height. -/
theorem second_level_timeout_not_before_expiry (c : Close) (x : Ctx) (expiry : Nat)
    (payHash : Item) (hx : x.tapscript = false) (he : 0 < expiry) (hb : expiry < lockThreshold)
    (h : spendOk x (c.script .htlcTimeoutTx expiry payHash)
      (c.witness .htlcTimeoutTx expiry (.num 0)) = true) :
    expiry < x.blockHeight := by
  unfold spendOk at h
  rw [Bool.and_eq_true] at h
  obtain ⟨hl, hs⟩ := second_level_timeout_locktime_forced c x expiry payHash hx h.1
  have hi := h.2
  have h0 : expiry ≠ 0 := by omega
  have hs' : x.sequence ≠ seqFinal := by
    rw [hs]; unfold htlcSecondLevelSeq seqFinal; split <;> decide
  simp [includable, absFinal, hl, h0, hb, hs'] at hi
  exact hi.1

/-- **second_level_valid**, HTLC-success transaction of a received HTLC with the
    preimage of the payment hash. -/
theorem second_level_success_valid (c : Close) (expiry p : Nat) (agg : Bool)
    (hagg : agg = true → c.ct.anchors = true) :
    c.valid .htlcSuccessTx expiry (.h160 (.pre p)) (.pre p) agg = true := by
  obtain ⟨⟨tweakless, anchors, zf, lease, taproot, tfinal⟩, me, init, csv, lexp, height⟩ := c
  cases anchors <;> cases agg <;> simp_all [csvOk_one]

/-- the success transaction as produced at close time (no preimage yet) is not valid. -/
theorem second_level_success_needs_preimage (c : Close) (expiry p : Nat) :
    c.valid .htlcSuccessTx expiry (.h160 (.pre p)) (.num 0) = false := by
  obtain ⟨⟨tweakless, anchors, zf, lease, taproot, tfinal⟩, me, init, csv, lexp, height⟩ := c
  have h1 : me ≠ 1 - me := by omega
  have h2 : 1 - me ≠ me := by omega
  cases anchors
  · by_cases hc : cltvOk { version := 2, sequence := 0, lockTime := 0, tapscript := false } expiry
        = true <;> simp [h1, h2, hc]
  · by_cases hc : cltvOk { version := 2, sequence := 1, lockTime := 0, tapscript := false } expiry
        = true <;> simp [h1, h2, hc]

/-- a wrong preimage does not work either. -/
theorem second_level_success_wrong_preimage (c : Close) (expiry p q : Nat) (h : q ≠ p) :
    c.valid .htlcSuccessTx expiry (.h160 (.pre p)) (.pre q) = false := by
  obtain ⟨⟨tweakless, anchors, zf, lease, taproot, tfinal⟩, me, init, csv, lexp, height⟩ := c
  have h' : p ≠ q := fun e => h e.symm
  cases anchors <;> simp [h, h']

/-- **correct sighash per channel type**: in the sweeper's aggregated transaction
    (anchor types) the second-level timeout spend is valid iff the peer's
    signature carries SIGHASH_SINGLE|ANYONECANPAY - any other flag (in
    particular SIGHASH_ALL) makes it invalid. -/
theorem second_level_sighash_anchors (c : Close) (expiry ht : Nat) (payHash : Item)
    (ha : c.ct.anchors = true) :
    run (c.ctx .htlcTimeoutTx expiry true) (c.script .htlcTimeoutTx expiry payHash)
      (c.witnessWith .htlcTimeoutTx expiry (.num 0) ht) = decide (ht = sigHashSingleAnyoneCanPay) := by
  obtain ⟨⟨tweakless, anchors, zf, lease, taproot, tfinal⟩, me, init, csv, lexp, height⟩ := c
  simp only at ha
  subst ha
  have h1 : me ≠ 1 - me := by omega
  have h2 : 1 - me ≠ me := by omega
  by_cases h : ht = 131
  · subst h; simp [csvOk_one]
  · have hb : (ht == 131) = false := by simp [h]
    simp [h, hb, h1, h2]

/-- and `HtlcSigHashType` is that flag exactly on anchor channels. -/
theorem htlc_sighash_type_is_required_flag (c : Close) (expiry : Nat) (payHash : Item)
    (ha : c.ct.anchors = true) :
    htlcSigHashType c.ct = sigHashSingleAnyoneCanPay ∧
    ∀ ht, ht ≠ htlcSigHashType c.ct →
      run (c.ctx .htlcTimeoutTx expiry true) (c.script .htlcTimeoutTx expiry payHash)
        (c.witnessWith .htlcTimeoutTx expiry (.num 0) ht) = false := by
  have e : htlcSigHashType c.ct = sigHashSingleAnyoneCanPay := by simp [ha]
  refine ⟨e, fun ht hne => ?_⟩
  rw [second_level_sighash_anchors c expiry ht payHash ha]
  rw [e] at hne
  have : ht ≠ 131 := hne
  simp [this]

/-- in the transaction as signed, the peer's flag only has to be a defined one
    (the engine rejects undefined flags). -/
theorem second_level_sighash_must_be_defined (c : Close) (expiry ht : Nat) (payHash : Item) :
    run (c.ctx .htlcTimeoutTx expiry false) (c.script .htlcTimeoutTx expiry payHash)
      (c.witnessWith .htlcTimeoutTx expiry (.num 0) ht) = sigHashDefined false ht := by
  obtain ⟨⟨tweakless, anchors, zf, lease, taproot, tfinal⟩, me, init, csv, lexp, height⟩ := c
  have h1 : me ≠ 1 - me := by omega
  have h2 : 1 - me ≠ me := by omega
  have d1 : sigHashDefined false 1 = true := rfl
  cases hd : sigHashDefined false ht <;> cases anchors <;>
    simp [-sigHashDefined, hd, d1, h1, h2, csvOk_one]

/-! ### delayed outputs -/

/-- **second_level_valid**, delayed outputs: to-local and the second-level
    output are spendable with the tweaked delay key at sequence = CSV delay
    (locktime = lease expiry for the initiator of a leased channel). -/
theorem delayed_outputs_valid (c : Close) (s : Spend) (hs : s = .toLocal ∨ s = .secondLevelOut)
    (hseq : c.csv ≠ seqFinal) :
    c.valid s 0 (.num 0) (.num 0) = true := by
  obtain ⟨⟨tweakless, anchors, zf, lease, taproot, tfinal⟩, me, init, csv, lexp, height⟩ := c
  rcases hs with rfl | rfl <;> cases lease <;> cases init <;>
    simp [csvOk_self, cltvOk_self, hseq] <;> simp_all [cltvOk_self]

/-- with a smaller sequence the delayed path is closed. -/
theorem delayed_output_early_invalid (rev delay : Key) (csv seq lock : Nat) (sg : Item)
    (hd : csv < 65536) (hs : seq < csv) :
    run { version := 2, sequence := seq, lockTime := lock, tapscript := false }
      (delayOrRevoke rev delay csv) (witDelay sg) = false := by
  simp [csvOk_early _ _ _ _ _ hd hs]

/-- **after the CSV delay, not before**: any includable transaction spending the
    delayed path needs the output to be at least `csv` blocks old (OP_CSV forces
    the sequence, BIP68 forces the age). -/
theorem delayed_output_needs_age (x : Ctx) (rev delay : Key) (csv : Nat) (sg : Item)
    (hd : csv < 65536)
    (h : spendOk x (delayOrRevoke rev delay csv) (witDelay sg) = true) :
    csv ≤ x.inputAge := by
  unfold spendOk at h
  rw [Bool.and_eq_true] at h
  obtain ⟨hr, hi⟩ := h
  have hcsv : csvOk x csv = true := by
    by_cases hc : csvOk x csv = true
    · exact hc
    · simp [hc] at hr
  have h1 : csv / seqDisable = 0 := by unfold seqDisable; omega
  have h2 : csv / seqTypeFlag = 0 := by unfold seqTypeFlag; omega
  have h3 : csv % seqMask = csv := by unfold seqMask; omega
  simp [csvOk, h1, h2, h3] at hcsv
  obtain ⟨⟨⟨hv, hdis⟩, hty⟩, hle⟩ := hcsv
  simp [includable, relFinal] at hi
  have hv' : ¬ x.version < 2 := by omega
  have hd' : ¬ x.sequence / seqDisable % 2 = 1 := by omega
  simp [hv', hd'] at hi
  omega

/-! ### the peer's commitment -/

/-- **remote_commit_spends_valid**, our to-remote output in all its variants. -/
theorem to_remote_valid (c : Close) :
    c.valid .toRemote 0 (.num 0) (.num 0) = true := by
  obtain ⟨⟨tweakless, anchors, zf, lease, taproot, tfinal⟩, me, init, csv, lexp, height⟩ := c
  cases tweakless <;> cases anchors <;> cases lease <;> cases init <;>
    simp [csvOk_one, cltvOk_self_seq0, cltvOk_self_seq1]

/-- **remote_commit_spends_valid**, claim of a received HTLC with the preimage. -/
theorem remote_htlc_claim_valid (c : Close) (expiry p : Nat) :
    c.valid .htlcClaim expiry (.h160 (.pre p)) (.pre p) = true := by
  obtain ⟨⟨tweakless, anchors, zf, lease, taproot, tfinal⟩, me, init, csv, lexp, height⟩ := c
  cases anchors <;> simp [csvOk_one]

/-- **remote_commit_spends_valid**, timeout of an offered HTLC at locktime = expiry. -/
theorem remote_htlc_timeout_valid (c : Close) (expiry : Nat) (payHash : Item) :
    c.valid .htlcTimeout expiry payHash (.num 0) = true := by
  obtain ⟨⟨tweakless, anchors, zf, lease, taproot, tfinal⟩, me, init, csv, lexp, height⟩ := c
  cases anchors <;> simp [csvOk_one, cltvOk_self_seq0, cltvOk_self_seq1]

/-- before the expiry an offered HTLC cannot be timed out on the peer's commitment. -/
theorem remote_htlc_timeout_early_invalid (c : Close) (expiry lock seq : Nat) (payHash : Item)
    (h : lock < expiry) :
    run { version := 2, sequence := seq, lockTime := lock, tapscript := false }
      (c.script .htlcTimeout expiry payHash) (c.witness .htlcTimeout expiry (.num 0)) = false := by
  obtain ⟨⟨tweakless, anchors, zf, lease, taproot, tfinal⟩, me, init, csv, lexp, height⟩ := c
  cases anchors <;> simp [cltvOk_early _ _ _ _ _ h]

/-- our anchor is spendable at once with the funding key. -/
theorem anchor_valid (c : Close) : c.valid .anchor 0 (.num 0) (.num 0) = true := by
  simp

/-- All spends the node holds, at once (transactions as signed). -/
theorem all_spends_valid (c : Close) (expiry p : Nat) (hseq : c.csv ≠ seqFinal) :
    c.valid .toLocal 0 (.num 0) (.num 0) = true ∧
    c.valid .secondLevelOut 0 (.num 0) (.num 0) = true ∧
    c.valid .htlcTimeoutTx expiry (.h160 (.pre p)) (.num 0) = true ∧
    c.valid .htlcSuccessTx expiry (.h160 (.pre p)) (.pre p) = true ∧
    c.valid .toRemote 0 (.num 0) (.num 0) = true ∧
    c.valid .htlcClaim expiry (.h160 (.pre p)) (.pre p) = true ∧
    c.valid .htlcTimeout expiry (.h160 (.pre p)) (.num 0) = true ∧
    c.valid .anchor 0 (.num 0) (.num 0) = true :=
  ⟨delayed_outputs_valid c _ (Or.inl rfl) hseq, delayed_outputs_valid c _ (Or.inr rfl) hseq,
   second_level_timeout_valid c _ _ false (by simp), second_level_success_valid c _ _ false (by simp),
   to_remote_valid c, remote_htlc_claim_valid c _ _, remote_htlc_timeout_valid c _ _, anchor_valid c⟩

/-! ### simple-taproot channels -/

/-- **simple-taproot channels, script-path spends only** (anchor-style, not
    leased; staging and final scripts): every script-path spend the node holds
    satisfies its tapscript leaf, our signatures with SIGHASH_DEFAULT, the
    peer's pre-signed one with SINGLE|ANYONECANPAY, also in the aggregated
    transaction.  The key-path spends (MuSig2 funding output, anchors) are
    excluded: they are checked by the real engine only.  The final variants end
    in `<n> OP_CSV` / `<expiry> OP_CLTV`, whose operand stays on the stack as the
    result - hence `csv ≠ 0` and `expiry ≠ 0`. -/
theorem taproot_script_path_spends_valid (c : Close) (s : Spend) (expiry p : Nat) (agg : Bool)
    (hs : s ≠ .funding ∧ s ≠ .anchor)
    (ha : c.ct.anchors = true) (hl : c.ct.lease = false)
    (hcsv : c.csv ≠ 0) (hexp : expiry ≠ 0) :
    c.tapValid s expiry (.h160 (.pre p)) (.pre p) agg = true := by
  obtain ⟨⟨tweakless, anchors, zf, lease, taproot, tfinal⟩, me, init, csv, lexp, height⟩ := c
  simp only at ha hl hcsv
  subst ha hl
  have t1 := truthy_num csv hcsv
  have t2 := truthy_num expiry hexp
  obtain ⟨hs1, hs2⟩ := hs
  cases s <;> first | exact absurd rfl hs1 | exact absurd rfl hs2 | skip
  all_goals
    cases tfinal <;> cases tweakless <;> cases agg <;>
    simp [Close.tapValid, Close.tapScript, Close.tapWitness, Close.tapCtx, tapDelayLeaf,
      tapSenderTimeoutLeaf, tapSenderSuccessLeaf, tapReceiverSuccessLeaf, tapReceiverTimeoutLeaf,
      opVerify, csvOk_self, csvOk_one, cltvOk_self_seq1, t1, t2] <;>
    first | exact truthy_num _ hcsv | exact truthy_num _ hexp

/-! ### claimable value -/

/-- **claimable_value** over an abstract commitment: the value (sat) of the
    outputs our resolutions cover never exceeds what we are owed (balance plus
    all HTLCs) and falls short of it by less than `lossBound`: the owner's dust
    limit for a trimmed balance, dust limit + second-level fee for each trimmed
    HTLC, and under 1 sat of msat truncation per output. -/
theorem claimable_value (w : Weights) (ct : ChanType) (cm : Commitment) :
    1000 * cm.claimable w ct ≤ cm.dueMsat ∧
    cm.dueMsat < 1000 * (cm.claimable w ct + cm.lossBound w ct) := by
  have hs := self_loss cm
  have hh := htlcs_loss w ct cm cm.htlcs
  unfold Commitment.claimable Commitment.dueMsat Commitment.lossBound
  omega

/-- without trimming nothing but sub-satoshi remainders is lost: if the balance
    and every HTLC are above their thresholds, claimable = Σ of the sat amounts. -/
theorem claimable_value_no_dust (w : Weights) (ct : ChanType) (cm : Commitment)
    (hself : cm.dust ≤ cm.ownMsat / 1000)
    (hall : ∀ h ∈ cm.htlcs,
      htlcHasOutput w ct cm.feePerKw cm.dust h.incoming cm.localCommit h.amtMsat = true) :
    cm.claimable w ct = cm.ownMsat / 1000 + sumMap (fun h => h.amtMsat / 1000) cm.htlcs := by
  unfold Commitment.claimable Commitment.selfClaim
  rw [if_pos hself]
  congr 1
  generalize cm.htlcs = l at hall
  induction l with
  | nil => rfl
  | cons h t ih =>
    simp only [sumMap]
    rw [ih (fun x hx => hall x (List.mem_cons_of_mem _ hx))]
    unfold Commitment.htlcClaim
    rw [if_pos (hall h (List.mem_cons_self ..))]

example : (Close.mk { anchors := true, zeroFee := true } 0 true 144 0 800000).valid .htlcSuccessTx
    700144 (.h160 (.pre 3)) (.pre 3) true = true := second_level_success_valid _ _ _ _ (by simp)
example : (Close.mk { anchors := true, zeroFee := true } 0 true 144 0 800000).valid .htlcSuccessTx
    700144 (.h160 (.pre 3)) (.pre 4) = false :=
  second_level_success_wrong_preimage _ _ _ _ (by decide)
example : (Commitment.mk true 5000500 2500 546 [⟨true, 2000000⟩, ⟨false, 700000⟩]).claimable {}
    { anchors := true } = 5000 := by decide

end LndModel.C05.Props
