/-
C05 property theorems (segwit-v0 channel types, symbolic script semantics of
`LndModel.C04.Script`).

* `local_commit_fully_signed`: the 2-of-2 funding script accepts the witness
  `getSignedCommitTx` builds (both parties' signatures, in key order), and
  rejects it when either signature is missing.
* `second_level_valid`: on our own commitment, the HTLC-timeout transaction
  (offered HTLC, locktime = expiry) and the HTLC-success transaction (received
  HTLC, with the preimage), signed by the peer with the channel type's sighash
  flag and by us with our tweaked HTLC key, satisfy the HTLC scripts; the
  delayed to-local output and the second-level output are spendable with our
  tweaked delay key once the CSV delay (and lease expiry) is reached.
* `remote_commit_spends_valid`: on the peer's commitment, our to-remote output
  (P2WKH / confirmed / lease), the claim of a received HTLC with the preimage
  and the timeout of an offered HTLC at locktime = expiry are valid; so is the
  anchor spend.
* negatives: no timeout before expiry, no claim with a wrong preimage, no
  delayed spend before the CSV delay.
-/
import LndModel.C05.Lemmas

set_option linter.unusedSimpArgs false

namespace LndModel.C05.Props
open LndModel.C05 LndModel.C04.Script

/-! the common unfolding set -/
attribute [local simp] Close.valid Close.ctx Close.sequence Close.lockTime Close.script
  Close.witness Close.signer Close.hasCltv Close.revocationKey Close.toLocalKey Close.toRemoteKey
  Close.localHtlcKey Close.remoteHtlcKey Close.fundingKey Close.peer htlcSigHashType
  htlcSecondLevelSeq sigHashAll sigHashSingleAnyoneCanPay
  run delayOrRevoke leaseDelayOrRevoke toRemoteConfirmed leaseToRemoteConfirmed p2wkh anchor
  multiSig senderHTLC receiverHTLC witDelay witP2wkh witRedeem witRecvTimeout witSenderTimeout
  witReceiverRedeem witMultiSig
  runOps step exec skip opIfE opElseE opEndIfE opDup opSwap opDrop opSize opIfDup
  opEqual opEqualVerify opHash160 opCheckSig opCheckSigVerify opCheckMultiSig multiSigBody
  opCsv opCltv popN msig sigMatch ifArg pk n sigCheck accepts truthy byteLen

/-- **local_commit_fully_signed** (model level): the funding 2-of-2 accepts the
    two signatures in key order, whichever party's key sorts first. -/
theorem local_commit_fully_signed (c : Close) (flip : Bool) :
    run (c.ctx .funding 0) (c.script .funding 0 (.num 0) flip) (c.witness .funding (.num 0) flip)
      = true := by
  cases flip <;> simp

/-- without the peer's signature the commitment is not valid. -/
theorem local_commit_needs_peer_sig (c : Close) (x : Ctx) (hx : x.tapscript = false) :
    run x (multiSig (c.fundingKey c.me) (c.fundingKey c.peer))
      (witMultiSig (.sig (c.fundingKey c.me) 1 true) (.num 0)) = false := by
  simp [hx]

/-- signatures in the wrong order are rejected (CHECKMULTISIG is ordered). -/
theorem local_commit_sig_order (a b : Key) (hab : a ≠ b) (x : Ctx) (hx : x.tapscript = false) :
    run x (multiSig a b) (witMultiSig (.sig b 1 true) (.sig a 1 true)) = false := by
  have hba : b ≠ a := fun h => hab h.symm
  simp [hx, hab, hba]

/-- **second_level_valid**, HTLC-timeout transaction of an offered HTLC. -/
theorem second_level_timeout_valid (c : Close) (expiry : Nat) (payHash : Item) :
    c.valid .htlcTimeoutTx expiry payHash (.num 0) = true := by
  obtain ⟨⟨tweakless, anchors, zf, lease, taproot, tfinal⟩, me, init, csv, lexp, height⟩ := c
  cases anchors <;> simp [csvOk_one]

/-- **second_level_valid**, HTLC-success transaction of a received HTLC with the
    preimage of the payment hash. -/
theorem second_level_success_valid (c : Close) (expiry p : Nat) :
    c.valid .htlcSuccessTx expiry (.h160 (.pre p)) (.pre p) = true := by
  obtain ⟨⟨tweakless, anchors, zf, lease, taproot, tfinal⟩, me, init, csv, lexp, height⟩ := c
  cases anchors <;> simp [csvOk_one]

/-- the success transaction as produced at close time (no preimage yet) is not valid. -/
theorem second_level_success_needs_preimage (c : Close) (expiry p : Nat) :
    c.valid .htlcSuccessTx expiry (.h160 (.pre p)) (.num 0) = false := by
  obtain ⟨⟨tweakless, anchors, zf, lease, taproot, tfinal⟩, me, init, csv, lexp, height⟩ := c
  have h1 : me ≠ 1 - me := by omega
  have h2 : 1 - me ≠ me := by omega
  cases anchors
  · by_cases hc : cltvOk { version := 2, sequence := 0, lockTime := 0, tapscript := false } expiry
        = true <;> simp [h1, h2, hc]
  · by_cases hc : cltvOk { version := 2, sequence := 1, lockTime := 0, tapscript := false } expiry
        = true <;> simp [h1, h2, hc]

/-- a wrong preimage does not work either. -/
theorem second_level_success_wrong_preimage (c : Close) (expiry p q : Nat) (h : q ≠ p) :
    c.valid .htlcSuccessTx expiry (.h160 (.pre p)) (.pre q) = false := by
  obtain ⟨⟨tweakless, anchors, zf, lease, taproot, tfinal⟩, me, init, csv, lexp, height⟩ := c
  have h' : p ≠ q := fun e => h e.symm
  cases anchors <;> simp [h, h']

/-- **second_level_valid**, delayed outputs: to-local and the second-level
    output are spendable after the CSV delay; for the initiator of a leased
    channel with locktime = lease expiry. -/
theorem delayed_outputs_valid (c : Close) (s : Spend) (hs : s = .toLocal ∨ s = .secondLevelOut)
    (hseq : c.csv ≠ seqFinal) :
    c.valid s 0 (.num 0) (.num 0) = true := by
  obtain ⟨⟨tweakless, anchors, zf, lease, taproot, tfinal⟩, me, init, csv, lexp, height⟩ := c
  rcases hs with rfl | rfl <;> cases lease <;> cases init <;>
    simp [csvOk_self, cltvOk_self, hseq] <;> simp_all [cltvOk_self]

/-- before the CSV delay the delayed path is closed. -/
theorem delayed_output_early_invalid (rev delay : Key) (csv seq lock : Nat) (sg : Item)
    (hd : csv < 65536) (hs : seq < csv) :
    run { version := 2, sequence := seq, lockTime := lock, tapscript := false }
      (delayOrRevoke rev delay csv) (witDelay sg) = false := by
  simp [csvOk_early _ _ _ _ _ hd hs]

/-- **remote_commit_spends_valid**, our to-remote output in all its variants. -/
theorem to_remote_valid (c : Close) :
    c.valid .toRemote 0 (.num 0) (.num 0) = true := by
  obtain ⟨⟨tweakless, anchors, zf, lease, taproot, tfinal⟩, me, init, csv, lexp, height⟩ := c
  cases tweakless <;> cases anchors <;> cases lease <;> cases init <;>
    simp [csvOk_one, cltvOk_self_seq0, cltvOk_self_seq1]

/-- **remote_commit_spends_valid**, claim of a received HTLC with the preimage. -/
theorem remote_htlc_claim_valid (c : Close) (expiry p : Nat) :
    c.valid .htlcClaim expiry (.h160 (.pre p)) (.pre p) = true := by
  obtain ⟨⟨tweakless, anchors, zf, lease, taproot, tfinal⟩, me, init, csv, lexp, height⟩ := c
  cases anchors <;> simp [csvOk_one]

/-- **remote_commit_spends_valid**, timeout of an offered HTLC at locktime = expiry. -/
theorem remote_htlc_timeout_valid (c : Close) (expiry : Nat) (payHash : Item) :
    c.valid .htlcTimeout expiry payHash (.num 0) = true := by
  obtain ⟨⟨tweakless, anchors, zf, lease, taproot, tfinal⟩, me, init, csv, lexp, height⟩ := c
  cases anchors <;> simp [csvOk_one, cltvOk_self_seq0, cltvOk_self_seq1]

/-- before the expiry an offered HTLC cannot be timed out on the peer's commitment. -/
theorem remote_htlc_timeout_early_invalid (c : Close) (expiry lock seq : Nat) (payHash : Item)
    (h : lock < expiry) :
    run { version := 2, sequence := seq, lockTime := lock, tapscript := false }
      (c.script .htlcTimeout expiry payHash) (c.witness .htlcTimeout (.num 0)) = false := by
  obtain ⟨⟨tweakless, anchors, zf, lease, taproot, tfinal⟩, me, init, csv, lexp, height⟩ := c
  cases anchors <;> simp [cltvOk_early _ _ _ _ _ h]

/-- our anchor is spendable at once with the funding key. -/
theorem anchor_valid (c : Close) : c.valid .anchor 0 (.num 0) (.num 0) = true := by
  simp

/-- All spends the node holds, at once (non-vacuous: no hypothesis beyond a
    meaningful CSV value). -/
theorem all_spends_valid (c : Close) (expiry p : Nat) (hseq : c.csv ≠ seqFinal) :
    c.valid .toLocal 0 (.num 0) (.num 0) = true ∧
    c.valid .secondLevelOut 0 (.num 0) (.num 0) = true ∧
    c.valid .htlcTimeoutTx expiry (.h160 (.pre p)) (.num 0) = true ∧
    c.valid .htlcSuccessTx expiry (.h160 (.pre p)) (.pre p) = true ∧
    c.valid .toRemote 0 (.num 0) (.num 0) = true ∧
    c.valid .htlcClaim expiry (.h160 (.pre p)) (.pre p) = true ∧
    c.valid .htlcTimeout expiry (.h160 (.pre p)) (.num 0) = true ∧
    c.valid .anchor 0 (.num 0) (.num 0) = true :=
  ⟨delayed_outputs_valid c _ (Or.inl rfl) hseq, delayed_outputs_valid c _ (Or.inr rfl) hseq,
   second_level_timeout_valid c _ _, second_level_success_valid c _ _, to_remote_valid c,
   remote_htlc_claim_valid c _ _, remote_htlc_timeout_valid c _ _, anchor_valid c⟩

/-- **simple-taproot channels** (anchor-style, not leased; staging and final
    scripts): every script-path spend the node holds satisfies its tapscript leaf.
    The final variants end in `<n> OP_CSV` / `<expiry> OP_CLTV`, whose operand
    stays on the stack as the result - hence `0 < csv` and `0 < expiry`. -/
theorem taproot_spends_valid (c : Close) (s : Spend) (expiry p : Nat)
    (ha : c.ct.anchors = true) (hl : c.ct.lease = false)
    (hcsv : c.csv ≠ 0) (hexp : expiry ≠ 0) :
    c.tapValid s expiry (.h160 (.pre p)) (.pre p) = true := by
  obtain ⟨⟨tweakless, anchors, zf, lease, taproot, tfinal⟩, me, init, csv, lexp, height⟩ := c
  simp only at ha hl hcsv
  subst ha hl
  have t1 := truthy_num csv hcsv
  have t2 := truthy_num expiry hexp
  cases s <;> cases tfinal <;> cases tweakless <;>
    simp [Close.tapValid, Close.tapScript, Close.tapWitness, Close.tapCtx, tapDelayLeaf,
      tapSenderTimeoutLeaf, tapSenderSuccessLeaf, tapReceiverSuccessLeaf, tapReceiverTimeoutLeaf,
      opVerify, csvOk_self, csvOk_one, cltvOk_self_seq1, t1, t2] <;>
    first | exact truthy_num _ hcsv | exact truthy_num _ hexp

/-- **correct sighash per channel type**: the peer's HTLC signature the witness
    carries has `SIGHASH_SINGLE|ANYONECANPAY` exactly on anchor channels. -/
theorem htlc_sighash_by_type (ct : ChanType) :
    htlcSigHashType ct = (if ct.anchors then 131 else 1) := by
  simp [htlcSigHashType, sigHashAll, sigHashSingleAnyoneCanPay]

example : (Close.mk { anchors := true, zeroFee := true } 0 true 144 0 800000).valid .htlcSuccessTx
    700144 (.h160 (.pre 3)) (.pre 3) = true := second_level_success_valid _ _ _
example : (Close.mk { anchors := true, zeroFee := true } 0 true 144 0 800000).valid .htlcSuccessTx
    700144 (.h160 (.pre 3)) (.pre 4) = false :=
  second_level_success_wrong_preimage _ _ _ _ (by decide)

end LndModel.C05.Props
