/-
C05 driver helpers: parsing of the byte-level resolution dumps of the court
harness (`rs` / `rin` / `rout` / `blob` / `aux` / `damage` lines) into the
structures of `Codec.lean`, and a field-by-field diff.  Core only.
-/
import LndModel.Prelude.Lines
import LndModel.C05.Codec

namespace LndModel.C05.Codec
open LndModel.Lines

def bytesOfHex (s : String) : Option Bytes :=
  (hexBytes? s).map fun l => l.map UInt8.ofNat

def hexOf (b : Bytes) : String := bytesHex (b.map UInt8.toNat)

/-- short rendering for messages -/
def hexShort (b : Bytes) : String :=
  let h := hexOf b
  if h.length ≤ 24 then h else s!"{h.take 16}..({b.length}B)"

def parseOp (s : String) : Option OutPoint :=
  match s.splitOn ":" with
  | [h, i] => do
    let hb ← bytesOfHex h
    let n ← i.toNat?
    pure ⟨hb, n⟩
  | _ => none

/-- fam,idx,key,single,double,ws,val,pk,ht,tap,cb,method,ii -/
def parseSD (s : String) : Option SD :=
  match s.splitOn "," with
  | [fam, idx, key, single, double, ws, val, pk, ht, tap, cb, method, ii] => do
    let k ← bytesOfHex key
    pure { fam := ← fam.toNat?, idx := ← idx.toNat?, key := if k.isEmpty then none else some k,
           single := ← bytesOfHex single, double := ← bytesOfHex double, wscript := ← bytesOfHex ws,
           outVal := ← val.toNat?, outPk := ← bytesOfHex pk, hashType := ← ht.toNat?,
           tapTweak := ← bytesOfHex tap, ctrl := ← bytesOfHex cb, method := ← method.toNat?,
           inputIndex := ← ii.toNat? }
  | _ => none

def parseWitness (s : String) : Option (List Bytes) :=
  if s == "~" then some [] else
  (s.splitOn ".").mapM fun it => if it == "e" then some [] else bytesOfHex it

def parseTxIn (s : String) : Option TxIn :=
  match s.splitOn ":" with
  | [h, i, sc, sq, w] => do
    pure { prev := ⟨← bytesOfHex h, ← i.toNat?⟩, sigScript := ← bytesOfHex sc, seq := ← sq.toNat?,
           witness := ← parseWitness w }
  | _ => none

def parseTxOut (s : String) : Option TxOut :=
  match s.splitOn ":" with
  | [v, pk] => do pure ⟨← v.toNat?, ← bytesOfHex pk⟩
  | _ => none

/-- `-` = no transaction -/
def parseTx (s : String) : Option (Option Tx) :=
  if s == "-" then some none else
  match s.splitOn "/" with
  | [v, l, ins, outs] => do
    let is ← (ins.splitOn "|").mapM parseTxIn
    let os ← if outs == "~" then some [] else (outs.splitOn "|").mapM parseTxOut
    pure (some { version := ← v.toNat?, lockTime := ← l.toNat?, ins := is, outs := os })
  | _ => none

def parseDetails (s : String) : Option (Option SignDetails) :=
  if s == "-" then some none else
  match s.splitOn ";" with
  | [sd, ht, sg] => do pure (some ⟨← parseSD sd, ← ht.toNat?, ← bytesOfHex sg⟩)
  | _ => none

def parseCommit (s : String) : Option (Option CommitRes) :=
  if s == "-" then some none else
  match s.splitOn ";" with
  | [op, m, sd] => do pure (some ⟨← parseOp op, ← parseSD sd, ← m.toNat?⟩)
  | _ => none

def parseAnchor (s : String) : Option (Option AnchorRes) :=
  if s == "-" then some none else
  match s.splitOn ";" with
  | [op, sd] => do pure (some ⟨← parseOp op, ← parseSD sd⟩)
  | _ => none

/-- `hash:idx@cb,hash:idx@cb` -/
def parseCtrlMap (s : String) : Option CtrlMap :=
  if s == "-" then some [] else
  (s.splitOn ",").mapM fun e =>
    match e.splitOn "@" with
    | [k, v] => do pure (← parseOp k, ← bytesOfHex v)
    | _ => none

/-- a Go map as a set: last write per key, sorted rendering -/
def CtrlMap.canon (m : CtrlMap) : List String :=
  let keys := m.map (·.1) |>.eraseDups
  let es := keys.map fun k => s!"{hexOf k.hash}:{k.idx}@{hexOf (m.get k)}"
  es.toArray.qsort (· < ·) |>.toList

def Aux.canon (a : Aux) : List String :=
  [s!"commit={hexOf a.commitCtrl}", s!"tweak={hexOf a.anchorTweak}"] ++
    (a.incomingCtrl.canon.map ("in:" ++ ·)) ++ (a.outgoingCtrl.canon.map ("out:" ++ ·)) ++
    (a.secondCtrl.canon.map ("second:" ++ ·))

def diffSD (what : String) (a b : SD) : List String :=
  (if a.fam != b.fam || a.idx != b.idx then [s!"{what}.keyloc"] else []) ++
  (if a.key != b.key then [s!"{what}.key"] else []) ++
  (if a.single != b.single then [s!"{what}.single"] else []) ++
  (if a.double != b.double then [s!"{what}.double"] else []) ++
  (if a.wscript != b.wscript then [s!"{what}.wscript"] else []) ++
  (if a.outVal != b.outVal || a.outPk != b.outPk then [s!"{what}.output"] else []) ++
  (if a.hashType != b.hashType then [s!"{what}.hashType"] else []) ++
  (if a.tapTweak != b.tapTweak then [s!"{what}.tapTweak({hexShort a.tapTweak}/{hexShort b.tapTweak})"] else []) ++
  (if a.ctrl != b.ctrl then [s!"{what}.ctrl({hexShort a.ctrl}/{hexShort b.ctrl})"] else []) ++
  (if a.method != b.method then [s!"{what}.method({a.method}/{b.method})"] else []) ++
  (if a.inputIndex != b.inputIndex then [s!"{what}.inputIndex"] else [])

def diffTx (what : String) (a b : Option Tx) : List String :=
  match a, b with
  | none, none => []
  | some x, some y =>
    (if x.version != y.version then [s!"{what}.version"] else []) ++
    (if x.lockTime != y.lockTime then [s!"{what}.lockTime({x.lockTime}/{y.lockTime})"] else []) ++
    (if x.ins != y.ins then [s!"{what}.ins"] else []) ++
    (if x.outs != y.outs then [s!"{what}.outs"] else [])
  | _, _ => [s!"{what}.presence"]

def diffDetails (what : String) (a b : Option SignDetails) : List String :=
  match a, b with
  | none, none => []
  | some x, some y =>
    diffSD (what ++ ".sd") x.sd y.sd ++
    (if x.sigHashType != y.sigHashType then [s!"{what}.sigHashType"] else []) ++
    (if x.peerSig != y.peerSig then [s!"{what}.peerSig"] else [])
  | _, _ => [s!"{what}.presence"]

/-- names of the fields in which two resolution sets differ (first: implementation) -/
def diffRes (a b : ResSet) : List String :=
  (if a.commitHash != b.commitHash then ["commitHash"] else []) ++
  (match a.commit, b.commit with
   | none, none => []
   | some x, some y =>
     (if x.op != y.op then ["commit.outpoint"] else []) ++
     (if x.maturity != y.maturity then [s!"commit.maturity({x.maturity}/{y.maturity})"] else []) ++
     diffSD "commit.sd" x.sd y.sd
   | _, _ => ["commit.presence"]) ++
  (match a.anchor, b.anchor with
   | none, none => []
   | some x, some y => (if x.op != y.op then ["anchor.outpoint"] else []) ++ diffSD "anchor.sd" x.sd y.sd
   | _, _ => ["anchor.presence"]) ++
  (if a.incoming.length != b.incoming.length then [s!"incoming.count({a.incoming.length}/{b.incoming.length})"] else
    (List.zip a.incoming b.incoming).zipIdx.flatMap fun ((x, y), i) =>
      let w := s!"in[{i}]"
      (if x.preimage != y.preimage then [s!"{w}.preimage"] else []) ++ diffTx (w ++ ".tx") x.tx y.tx ++
      (if x.csv != y.csv then [s!"{w}.csv({x.csv}/{y.csv})"] else []) ++
      (if x.claim != y.claim then [s!"{w}.claim"] else []) ++ diffSD (w ++ ".sd") x.sd y.sd ++
      diffDetails (w ++ ".det") x.details y.details) ++
  (if a.outgoing.length != b.outgoing.length then [s!"outgoing.count({a.outgoing.length}/{b.outgoing.length})"] else
    (List.zip a.outgoing b.outgoing).zipIdx.flatMap fun ((x, y), i) =>
      let w := s!"out[{i}]"
      (if x.expiry != y.expiry then [s!"{w}.expiry({x.expiry}/{y.expiry})"] else []) ++
      diffTx (w ++ ".tx") x.tx y.tx ++
      (if x.csv != y.csv then [s!"{w}.csv({x.csv}/{y.csv})"] else []) ++
      (if x.claim != y.claim then [s!"{w}.claim"] else []) ++ diffSD (w ++ ".sd") x.sd y.sd ++
      diffDetails (w ++ ".det") x.details y.details)

/-- first position at which two byte strings differ -/
def firstDiff (a b : Bytes) : Nat :=
  let rec go : Bytes → Bytes → Nat → Nat
    | x :: xs, y :: ys, n => if x == y then go xs ys (n + 1) else n
    | _, _, n => n
  go a b 0

end LndModel.C05.Codec
