/-
C05 model, byte level: the contract court's persistence of a resolution set.

  contractcourt/briefcase.go   LogContractResolutions / FetchContractResolutions,
                               encode/decodeCommitResolution, -IncomingResolution,
                               -OutgoingResolution, -AnchorResolution, -SignDetails,
                               encodeTaprootAuxData / decodeTapRootAuxData
  input/signdescriptor.go      WriteSignDescriptor / ReadSignDescriptor
  input/txout.go               writeTxOut / readTxOut
  btcd wire                    WriteVarInt / ReadVarInt (canonical), WriteVarBytes /
                               ReadVarBytes (with the caller's size limit),
                               MsgTx.Serialize / Deserialize (witness encoding)

Everything here is executable on real bytes: the driver runs `logRes` on the
fields the harness dumped from the in-memory resolutions and compares the
result byte for byte with what the real encoder stored in the bucket, and runs
`fetchRes` on the REAL bytes and compares every field with what the real
decoder returned.

Not modelled: the TLV framing of the taproot briefcase (`taprootBriefcase.Encode`)
- `Aux` is the decoded content of that record (which control block / tap tweak
is stored under which resolver id); secp256k1 point validation of a stored
public key and DER / Schnorr signature parsing (byte strings pass through);
btcd's message-size caps.  Core Lean only.
-/
namespace LndModel.C05.Codec

abbrev Bytes := List UInt8

/-! ### parsers -/

/-- a reader: consumes a prefix of the input or fails (io.Reader + error) -/
abbrev P (α : Type) : Type := Bytes → Option (α × Bytes)

def P.run {α : Type} (p : P α) (bs : Bytes) : Option (α × Bytes) := p bs

def P.pure {α : Type} (a : α) : P α := fun bs => some (a, bs)

def P.bind {α β : Type} (p : P α) (f : α → P β) : P β := fun bs =>
  match p bs with
  | none => none
  | some (a, r) => f a r

def P.fail {α : Type} : P α := fun _ => none

instance : Monad P where
  pure := P.pure
  bind := P.bind

/-- io.ReadFull of `n` bytes -/
def take (n : Nat) : P Bytes := fun bs =>
  if n ≤ bs.length then some (bs.take n, bs.drop n) else none

/-- `n` times the same reader -/
def many {α : Type} (p : P α) : Nat → P (List α)
  | 0 => pure []
  | n + 1 => do
    let x ← p
    let xs ← many p n
    pure (x :: xs)

/-! ### integers -/

/-- big endian, `w` bytes (encoding/binary.BigEndian) -/
def be : Nat → Nat → Bytes
  | 0, _ => []
  | w + 1, n => UInt8.ofNat (n / 256 ^ w) :: be w (n % 256 ^ w)

def beVal : Bytes → Nat
  | [] => 0
  | b :: t => b.toNat * 256 ^ t.length + beVal t

/-- little endian, `w` bytes -/
def le : Nat → Nat → Bytes
  | 0, _ => []
  | w + 1, n => UInt8.ofNat n :: le w (n / 256)

def leVal : Bytes → Nat
  | [] => 0
  | b :: t => b.toNat + 256 * leVal t

def readBe (w : Nat) : P Nat := do
  let b ← take w
  pure (beVal b)

def readLe (w : Nat) : P Nat := do
  let b ← take w
  pure (leVal b)

/-- binary.Write of a bool -/
def encBool (b : Bool) : Bytes := [if b then 1 else 0]

/-- binary.Read of a bool: any non-zero byte is true -/
def readBool : P Bool := do
  let b ← take 1
  pure (b != [0])

/-- wire.WriteVarInt (Bitcoin compact size) -/
def varInt (n : Nat) : Bytes :=
  if n < 0xfd then [UInt8.ofNat n]
  else if n ≤ 0xffff then 0xfd :: le 2 n
  else if n ≤ 0xffffffff then 0xfe :: le 4 n
  else 0xff :: le 8 n

/-- wire.ReadVarInt: rejects non-canonical encodings -/
def readVarInt : P Nat := fun bs =>
  match bs with
  | [] => none
  | b :: t =>
    let d := b.toNat
    if d < 0xfd then some (d, t)
    else
      let w := if d = 0xfd then 2 else if d = 0xfe then 4 else 8
      let min := if d = 0xfd then 0xfd else if d = 0xfe then 0x10000 else 0x100000000
      match take w t with
      | none => none
      | some (x, r) => if leVal x < min then none else some (leVal x, r)

/-- wire.WriteVarBytes -/
def varBytes (b : Bytes) : Bytes := varInt b.length ++ b

/-- wire.ReadVarBytes(r, 0, max, _) -/
def readVarBytes (max : Nat) : P Bytes := do
  let n ← readVarInt
  if n > max then P.fail else take n

/-! ### wire.OutPoint, wire.MsgTx -/

structure OutPoint where
  hash : Bytes := []
  idx : Nat := 0
deriving DecidableEq, Repr, Inhabited

structure TxIn where
  prev : OutPoint := {}
  sigScript : Bytes := []
  seq : Nat := 0
  witness : List Bytes := []
deriving DecidableEq, Repr, Inhabited

structure TxOut where
  value : Nat := 0
  pk : Bytes := []
deriving DecidableEq, Repr, Inhabited

structure Tx where
  version : Nat := 2
  ins : List TxIn := []
  outs : List TxOut := []
  lockTime : Nat := 0
deriving DecidableEq, Repr, Inhabited

def Tx.hasWitness (t : Tx) : Bool := t.ins.any fun i => !i.witness.isEmpty

def encTxIn (i : TxIn) : Bytes := i.prev.hash ++ le 4 i.prev.idx ++ varBytes i.sigScript ++ le 4 i.seq

def encTxOut (o : TxOut) : Bytes := le 8 o.value ++ varBytes o.pk

def encItems : List Bytes → Bytes
  | [] => []
  | x :: t => varBytes x ++ encItems t

def encWitness (w : List Bytes) : Bytes := varInt w.length ++ encItems w

def encIns : List TxIn → Bytes
  | [] => []
  | i :: t => encTxIn i ++ encIns t

def encOuts : List TxOut → Bytes
  | [] => []
  | o :: t => encTxOut o ++ encOuts t

def encWitnesses : List TxIn → Bytes
  | [] => []
  | i :: t => encWitness i.witness ++ encWitnesses t

/-- MsgTx.Serialize (witness encoding iff an input carries a witness) -/
def encTx (t : Tx) : Bytes :=
  le 4 t.version ++ (if t.hasWitness then [0, 1] else []) ++
    varInt t.ins.length ++ encIns t.ins ++ varInt t.outs.length ++ encOuts t.outs ++
    (if t.hasWitness then encWitnesses t.ins else []) ++ le 4 t.lockTime

/-- no script-size cap other than the 64-bit length (btcd: MaxMessagePayload) -/
def scriptMax : Nat := 2 ^ 64

def readTxIn : P TxIn := do
  let h ← take 32
  let i ← readLe 4
  let s ← readVarBytes scriptMax
  let q ← readLe 4
  pure { prev := ⟨h, i⟩, sigScript := s, seq := q }

def readTxOut : P TxOut := do
  let v ← readLe 8
  let p ← readVarBytes scriptMax
  pure ⟨v, p⟩

def readWitness : P (List Bytes) := do
  let n ← readVarInt
  many (readVarBytes scriptMax) n

/-- the witness section: one stack per input, in order -/
def attachWitnesses : List TxIn → P (List TxIn)
  | [] => pure []
  | i :: t => do
    let w ← readWitness
    let r ← attachWitnesses t
    pure ({ i with witness := w } :: r)

/-- MsgTx.Deserialize -/
def readTx : P Tx := do
  let v ← readLe 4
  let c ← readVarInt
  if c = 0 then
    -- segwit marker: flag byte, then the real input count
    let f ← take 1
    if f != [1] then P.fail else
    let c ← readVarInt
    let ins ← many readTxIn c
    let no ← readVarInt
    let outs ← many readTxOut no
    let ins ← attachWitnesses ins
    if !(ins.any fun i => !i.witness.isEmpty) then P.fail else
    let l ← readLe 4
    pure { version := v, ins := ins, outs := outs, lockTime := l }
  else
    let ins ← many readTxIn c
    let no ← readVarInt
    let outs ← many readTxOut no
    let l ← readLe 4
    pure { version := v, ins := ins, outs := outs, lockTime := l }

/-! ### input.SignDescriptor -/

structure SD where
  fam : Nat := 0
  idx : Nat := 0
  /-- `KeyDesc.PubKey`, compressed -/
  key : Option Bytes := none
  single : Bytes := []
  /-- `DoubleTweak`, serialised scalar -/
  double : Bytes := []
  wscript : Bytes := []
  outVal : Nat := 0
  outPk : Bytes := []
  hashType : Nat := 0
  -- not written by WriteSignDescriptor:
  tapTweak : Bytes := []
  ctrl : Bytes := []
  method : Nat := 0
  inputIndex : Nat := 0
deriving DecidableEq, Repr, Inhabited

/-- input.WriteSignDescriptor -/
def encSD (d : SD) : Bytes :=
  be 4 d.fam ++ be 4 d.idx ++
    (match d.key with
     | none => encBool false
     | some k => encBool true ++ varBytes k) ++
    varBytes d.single ++ varBytes d.double ++ varBytes d.wscript ++
    be 8 d.outVal ++ varBytes d.outPk ++ be 4 d.hashType

/-- what btcec.ParsePubKey accepts of at most 34 bytes, up to the curve check:
    33 bytes with a compressed-format prefix -/
def keyFormatOk (k : Bytes) : Bool :=
  k.length == 33 && (k.head? == some 2 || k.head? == some 3)

/-- input.ReadSignDescriptor -/
def readSD : P SD := do
  let fam ← readBe 4
  let idx ← readBe 4
  let has ← readBool
  let key ← (if has then do
      let k ← readVarBytes 34
      if keyFormatOk k then pure (some k) else P.fail
    else pure none : P (Option Bytes))
  let single ← readVarBytes 32
  let double ← readVarBytes 32
  -- ErrTweakOverdose
  if !single.isEmpty && !double.isEmpty then P.fail else
  let ws ← readVarBytes 500
  let v ← readBe 8
  let pk ← readVarBytes 80
  let ht ← readBe 4
  pure { fam := fam, idx := idx, key := key, single := single, double := double, wscript := ws,
         outVal := v, outPk := pk, hashType := ht }

/-- `ReadSignDescriptor ∘ WriteSignDescriptor` on the fields -/
def SD.codec (d : SD) : SD :=
  { d with tapTweak := [], ctrl := [], method := 0, inputIndex := 0 }

/-! ### the resolutions -/

def encOutPoint (o : OutPoint) : Bytes := o.hash ++ be 4 o.idx

def readOutPoint : P OutPoint := do
  let h ← take 32
  let i ← readBe 4
  pure ⟨h, i⟩

/-- lnwallet.CommitOutputResolution -/
structure CommitRes where
  op : OutPoint := {}
  sd : SD := {}
  maturity : Nat := 0
deriving DecidableEq, Repr, Inhabited

/-- lnwallet.AnchorResolution -/
structure AnchorRes where
  op : OutPoint := {}
  sd : SD := {}
deriving DecidableEq, Repr, Inhabited

/-- input.SignDetails -/
structure SignDetails where
  sd : SD := {}
  sigHashType : Nat := 0
  peerSig : Bytes := []
deriving DecidableEq, Repr, Inhabited

/-- lnwallet.IncomingHtlcResolution -/
structure InRes where
  preimage : Bytes := []
  tx : Option Tx := none
  csv : Nat := 0
  claim : OutPoint := {}
  sd : SD := {}
  details : Option SignDetails := none
deriving DecidableEq, Repr, Inhabited

/-- lnwallet.OutgoingHtlcResolution -/
structure OutRes where
  expiry : Nat := 0
  tx : Option Tx := none
  csv : Nat := 0
  claim : OutPoint := {}
  sd : SD := {}
  details : Option SignDetails := none
deriving DecidableEq, Repr, Inhabited

/-- contractcourt.ContractResolutions (without the breach resolution) -/
structure ResSet where
  commitHash : Bytes := []
  commit : Option CommitRes := none
  incoming : List InRes := []
  outgoing : List OutRes := []
  anchor : Option AnchorRes := none
deriving DecidableEq, Repr, Inhabited

def encCommitRes (c : CommitRes) : Bytes := encOutPoint c.op ++ encSD c.sd ++ be 4 c.maturity

def readCommitRes : P CommitRes := do
  let op ← readOutPoint
  let sd ← readSD
  let m ← readBe 4
  pure ⟨op, sd, m⟩

def encAnchorRes (a : AnchorRes) : Bytes := encOutPoint a.op ++ encSD a.sd

def readAnchorRes : P AnchorRes := do
  let op ← readOutPoint
  let sd ← readSD
  pure ⟨op, sd⟩

def encOptTx : Option Tx → Bytes
  | none => encBool false
  | some t => encBool true ++ encTx t

def readOptTx : P (Option Tx) := do
  let has ← readBool
  if has then do
    let t ← readTx
    pure (some t)
  else pure none

def encInRes (i : InRes) : Bytes :=
  i.preimage ++ encOptTx i.tx ++ be 4 i.csv ++ encOutPoint i.claim ++ encSD i.sd

def readInRes : P InRes := do
  let pre ← take 32
  let tx ← readOptTx
  let csv ← readBe 4
  let claim ← readOutPoint
  let sd ← readSD
  pure { preimage := pre, tx := tx, csv := csv, claim := claim, sd := sd }

def encOutRes (o : OutRes) : Bytes :=
  be 4 o.expiry ++ encOptTx o.tx ++ be 4 o.csv ++ encOutPoint o.claim ++ encSD o.sd

def readOutRes : P OutRes := do
  let e ← readBe 4
  let tx ← readOptTx
  let csv ← readBe 4
  let claim ← readOutPoint
  let sd ← readSD
  pure { expiry := e, tx := tx, csv := csv, claim := claim, sd := sd }

/-- encodeSignDetails -/
def encDetails : Option SignDetails → Bytes
  | none => encBool false
  | some s => encBool true ++ encSD s.sd ++ be 4 s.sigHashType ++ varBytes s.peerSig

/-- decodeSignDetails (the signature is at most 200 bytes) -/
def readDetails : P (Option SignDetails) := do
  let has ← readBool
  if has then do
    let sd ← readSD
    let ht ← readBe 4
    let sg ← readVarBytes 200
    pure (some ⟨sd, ht, sg⟩)
  else pure none

def encInList : List InRes → Bytes
  | [] => []
  | i :: t => encInRes i ++ encInList t

def encOutList : List OutRes → Bytes
  | [] => []
  | o :: t => encOutRes o ++ encOutList t

def encDetailsList : List (Option SignDetails) → Bytes
  | [] => []
  | d :: t => encDetails d ++ encDetailsList t

def encOptCommit : Option CommitRes → Bytes
  | none => encBool false
  | some c => encBool true ++ encCommitRes c

def readOptCommit : P (Option CommitRes) := do
  let has ← readBool
  if has then do
    let c ← readCommitRes
    pure (some c)
  else pure none

/-- the value stored under `resolutionsKey` -/
def encResolutions (r : ResSet) : Bytes :=
  r.commitHash ++ encOptCommit r.commit ++
    be 4 r.incoming.length ++ encInList r.incoming ++
    be 4 r.outgoing.length ++ encOutList r.outgoing

/-- the value stored under `resolutionsSignDetailsKey`: incoming first, then outgoing -/
def encAllDetails (r : ResSet) : Bytes :=
  encDetailsList (r.incoming.map (·.details) ++ r.outgoing.map (·.details))

def readResolutions : P ResSet := do
  let h ← take 32
  let commit ← readOptCommit
  let ni ← readBe 4
  let ins ← many readInRes ni
  let no ← readBe 4
  let outs ← many readOutRes no
  pure { commitHash := h, commit := commit, incoming := ins, outgoing := outs }

/-- the sign details are attached to the resolutions in order -/
def attachIn : List InRes → P (List InRes)
  | [] => pure []
  | i :: t => do
    let d ← readDetails
    let r ← attachIn t
    pure ({ i with details := d } :: r)

def attachOut : List OutRes → P (List OutRes)
  | [] => pure []
  | o :: t => do
    let d ← readDetails
    let r ← attachOut t
    pure ({ o with details := d } :: r)

/-! ### taproot aux data (decoded content of the taproot briefcase) -/

abbrev CtrlMap := List (OutPoint × Bytes)

/-- Go map read: the last write under a key wins; absent = nil -/
def CtrlMap.get (m : CtrlMap) (k : OutPoint) : Bytes :=
  match m.reverse.find? (fun e => e.1 == k) with
  | some e => e.2
  | none => []

structure Aux where
  commitCtrl : Bytes := []
  anchorTweak : Bytes := []
  outgoingCtrl : CtrlMap := []
  incomingCtrl : CtrlMap := []
  secondCtrl : CtrlMap := []
deriving DecidableEq, Repr, Inhabited

/-- `htlc.SignedSuccessTx.TxIn[0].PreviousOutPoint` -/
def Tx.firstPrev (t : Tx) : OutPoint := (t.ins.headD {}).prev

/-- resolver id under which an HTLC resolution's control blocks are filed -/
def InRes.resId (i : InRes) : OutPoint :=
  match i.tx with
  | some t => t.firstPrev
  | none => i.claim

def OutRes.resId (o : OutRes) : OutPoint :=
  match o.tx with
  | some t => t.firstPrev
  | none => o.claim

/-- entries an incoming resolution contributes: (second-level map, incoming map) -/
def InRes.auxSecond (i : InRes) : List (OutPoint × Bytes) :=
  if i.sd.ctrl.isEmpty then [] else
  match i.tx with
  | some _ => [(i.resId, i.sd.ctrl)]
  | none => []

def InRes.auxFirst (i : InRes) : List (OutPoint × Bytes) :=
  if i.sd.ctrl.isEmpty then [] else
  match i.tx, i.details with
  | some _, some d => [(i.resId, d.sd.ctrl)]
  | some _, none => []
  | none, _ => [(i.resId, i.sd.ctrl)]

def OutRes.auxSecond (o : OutRes) : List (OutPoint × Bytes) :=
  if o.sd.ctrl.isEmpty then [] else
  match o.tx with
  | some _ => [(o.resId, o.sd.ctrl)]
  | none => []

def OutRes.auxFirst (o : OutRes) : List (OutPoint × Bytes) :=
  if o.sd.ctrl.isEmpty then [] else
  match o.tx, o.details with
  | some _, some d => [(o.resId, d.sd.ctrl)]
  | some _, none => []
  | none, _ => [(o.resId, o.sd.ctrl)]

/-- encodeTaprootAuxData -/
def auxOf (r : ResSet) : Aux :=
  { commitCtrl := match r.commit with
      | some c => c.sd.ctrl
      | none => [],
    anchorTweak := match r.anchor with
      | some a => a.sd.tapTweak
      | none => [],
    incomingCtrl := r.incoming.flatMap InRes.auxFirst,
    outgoingCtrl := r.outgoing.flatMap OutRes.auxFirst,
    secondCtrl := r.incoming.flatMap InRes.auxSecond ++ r.outgoing.flatMap OutRes.auxSecond }

def InRes.restore (a : Aux) (i : InRes) : InRes :=
  match i.tx with
  | some _ =>
    { i with sd := { i.sd with ctrl := a.secondCtrl.get i.resId },
             details := i.details.map fun d =>
               { d with sd := { d.sd with ctrl := a.incomingCtrl.get i.resId } } }
  | none => { i with sd := { i.sd with ctrl := a.incomingCtrl.get i.resId } }

def OutRes.restore (a : Aux) (o : OutRes) : OutRes :=
  match o.tx with
  | some _ =>
    { o with sd := { o.sd with ctrl := a.secondCtrl.get o.resId },
             details := o.details.map fun d =>
               { d with sd := { d.sd with ctrl := a.outgoingCtrl.get o.resId } } }
  | none => { o with sd := { o.sd with ctrl := a.outgoingCtrl.get o.resId } }

/-- decodeTapRootAuxData -/
def restoreAux (a : Aux) (r : ResSet) : ResSet :=
  { r with
    commit := r.commit.map fun c => { c with sd := { c.sd with ctrl := a.commitCtrl } },
    incoming := r.incoming.map (InRes.restore a),
    outgoing := r.outgoing.map (OutRes.restore a),
    anchor := r.anchor.map fun x => { x with sd := { x.sd with tapTweak := a.anchorTweak } } }

/-- txscript.IsPayToTaproot -/
def isP2TR (pk : Bytes) : Bool :=
  pk.length == 34 && pk.head? == some 0x51 && pk.tail.head? == some 0x20

/-! ### the bucket -/

/-- the keys LogContractResolutions writes -/
structure Store where
  resolutions : Option Bytes := none
  signDetails : Option Bytes := none
  anchor : Option Bytes := none
  taproot : Option Aux := none
deriving DecidableEq, Repr, Inhabited

/-- is the taproot briefcase written? -/
def ResSet.auxWritten (r : ResSet) : Bool :=
  match r.anchor with
  | some a => isP2TR a.sd.outPk
  | none => false

/-- LogContractResolutions -/
def logRes (r : ResSet) : Store :=
  { resolutions := some (encResolutions r),
    signDetails := some (encAllDetails r),
    anchor := r.anchor.map encAnchorRes,
    taproot := if r.auxWritten then some (auxOf r) else none }

/-- FetchContractResolutions -/
def fetchRes (s : Store) : Option ResSet :=
  match s.resolutions with
  | none => none
  | some rb =>
    match readResolutions rb with
    | none => none
    | some (r, _) =>
      let withDetails : Option ResSet :=
        match s.signDetails with
        | none => some r
        | some db =>
          match attachIn r.incoming db with
          | none => none
          | some (ins, rest) =>
            match attachOut r.outgoing rest with
            | none => none
            | some (outs, _) => some { r with incoming := ins, outgoing := outs }
      match withDetails with
      | none => none
      | some r =>
        let withAnchor : Option ResSet :=
          match s.anchor with
          | none => some r
          | some ab =>
            match readAnchorRes ab with
            | none => none
            | some (a, _) => some { r with anchor := some a }
        match withAnchor with
        | none => none
        | some r =>
          match s.taproot with
          | none => some r
          | some a => some (restoreAux a r)

/-! ### what comes back, field by field -/

/-- the descriptors of a resolution set as the byte codecs return them -/
def ResSet.stripped (r : ResSet) : ResSet :=
  { r with
    commit := r.commit.map fun c => { c with sd := c.sd.codec },
    incoming := r.incoming.map fun i =>
      { i with sd := i.sd.codec, details := i.details.map fun d => { d with sd := d.sd.codec } },
    outgoing := r.outgoing.map fun o =>
      { o with sd := o.sd.codec, details := o.details.map fun d => { d with sd := d.sd.codec } },
    anchor := r.anchor.map fun a => { a with sd := a.sd.codec } }

/-- the reloaded resolution set -/
def ResSet.reloaded (r : ResSet) : ResSet :=
  if r.auxWritten then restoreAux (auxOf r) r.stripped else r.stripped

end LndModel.C05.Codec
