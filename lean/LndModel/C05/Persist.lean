/-
C05 model, persistence of sign descriptors.

The contract court stores every resolution (briefcase.go: encodeCommitResolution,
encodeIncomingResolution, encodeOutgoingResolution, encodeAnchorResolution,
encodeSignDetails -> input.WriteSignDescriptor) and reads it back after a
restart, before the sweep is signed.  `input.WriteSignDescriptor` keeps only
part of the descriptor; for taproot channels the control blocks and the anchor's
tap tweak travel separately in the taproot briefcase (encodeTaprootAuxData,
written only when an anchor resolution with a taproot script exists).

  `SignDesc.codec`  = ReadSignDescriptor ∘ WriteSignDescriptor
  `persist`         = FetchContractResolutions ∘ LogContractResolutions on one
                      descriptor slot
  `effective`       = the descriptor the signer is handed by
                      input.WitnessType.WitnessGenerator / the CraftInputScript of
                      the HTLC inputs (which force the sign method for taproot)
  `signWith`        = the signer (btcwallet.SignOutputRaw): signs with the
                      tweaked key iff the sign method fits the output
  `genWitness`      = the witness stack of each witness type

Core Lean only.
-/
import LndModel.C05.Model

namespace LndModel.C05
open LndModel.C04.Script

/-! `input.SignMethod` -/
def smWitnessV0 : Nat := 0
def smTapKeyBip86 : Nat := 1
def smTapKeySpend : Nat := 2
def smTapScriptSpend : Nat := 3

/-- `input.SignDescriptor`.  Byte-string fields are represented by a digest
    (0 = nil / empty); `SigHashes` and `PrevOutputFetcher` are run-time values the
    sweeper supplies and are not part of the model. -/
structure SignDesc where
  fam : Nat := 0
  idx : Nat := 0
  /-- `KeyDesc.PubKey` (a base point) -/
  key : Option Key := none
  single : Nat := 0
  double : Nat := 0
  tapTweak : Nat := 0
  wscript : Nat := 0
  method : Nat := 0
  outVal : Nat := 0
  outPk : Nat := 0
  hashType : Nat := 0
  ctrl : Nat := 0
  inputIndex : Nat := 0
deriving DecidableEq, Repr, Inhabited

/-- `ReadSignDescriptor (WriteSignDescriptor d)`: key locator and key, both
    tweaks, witness script, output and sighash type survive; TapTweak,
    SignMethod, ControlBlock and InputIndex do not. -/
def SignDesc.codec (d : SignDesc) : SignDesc :=
  { fam := d.fam, idx := d.idx, key := d.key, single := d.single, double := d.double,
    wscript := d.wscript, outVal := d.outVal, outPk := d.outPk, hashType := d.hashType }

/-- where in `ContractResolutions` a descriptor lives -/
inductive Slot where
  /-- `CommitResolution.SelfOutputSignDesc` -/
  | commit
  /-- `AnchorResolution.AnchorSignDescriptor` -/
  | anchor
  /-- `Incoming/OutgoingHtlcResolution.SweepSignDesc` -/
  | htlcSweep
  /-- `SignDetails.SignDesc` of a second-level HTLC transaction -/
  | htlcSecond
deriving DecidableEq, Repr, Inhabited

/-- One descriptor through `LogContractResolutions` / `FetchContractResolutions`.
    `aux` = the taproot briefcase was written (an anchor resolution with a
    taproot output exists): then control blocks (commit, HTLC) and the anchor's
    tap tweak are restored. -/
def persist (aux : Bool) (s : Slot) (d : SignDesc) : SignDesc :=
  let c := d.codec
  if aux then
    match s with
    | .anchor => { c with tapTweak := d.tapTweak }
    | _ => { c with ctrl := d.ctrl }
  else c

/-- how a witness type signs -/
inductive SigClass where
  | v0          -- segwit v0: descriptor used as is
  | tapScript   -- taproot script path: needs the control block, forces the method
  | tapKey      -- taproot key path with a script root: needs the tap tweak
deriving DecidableEq, Repr, Inhabited

/-- The witness types the resolvers of C05 use (`input.StandardWitnessType`). -/
inductive WT where
  | commitmentTimeLock | leaseCommitmentTimeLock
  | commitmentNoDelay | commitmentNoDelayTweakless
  | commitmentToRemoteConfirmed | leaseCommitmentToRemoteConfirmed
  | commitmentAnchor
  | htlcOfferedTimeoutSecondLevel | leaseHtlcOfferedTimeoutSecondLevel
  | htlcAcceptedSuccessSecondLevel | leaseHtlcAcceptedSuccessSecondLevel
  | htlcOfferedRemoteTimeout | htlcAcceptedRemoteSuccess
  | htlcOfferedTimeoutSecondLevelInputConfirmed | htlcAcceptedSuccessSecondLevelInputConfirmed
  | taprootLocalCommitSpend (final : Bool) | taprootRemoteCommitSpend (final : Bool)
  | taprootAnchorSweepSpend
  | taprootHtlcOfferedTimeoutSecondLevel (final : Bool)
  | taprootHtlcAcceptedSuccessSecondLevel (final : Bool)
  | taprootHtlcLocalOfferedTimeout | taprootHtlcAcceptedLocalSuccess
  | taprootHtlcOfferedRemoteTimeout (final : Bool)
  | taprootHtlcAcceptedRemoteSuccess (final : Bool)
deriving DecidableEq, Repr, Inhabited

def WT.name : WT → String
  | .commitmentTimeLock => "CommitmentTimeLock"
  | .leaseCommitmentTimeLock => "LeaseCommitmentTimeLock"
  | .commitmentNoDelay => "CommitmentNoDelay"
  | .commitmentNoDelayTweakless => "CommitmentNoDelayTweakless"
  | .commitmentToRemoteConfirmed => "CommitmentToRemoteConfirmed"
  | .leaseCommitmentToRemoteConfirmed => "LeaseCommitmentToRemoteConfirmed"
  | .commitmentAnchor => "CommitmentAnchor"
  | .htlcOfferedTimeoutSecondLevel => "HtlcOfferedTimeoutSecondLevel"
  | .leaseHtlcOfferedTimeoutSecondLevel => "LeaseHtlcOfferedTimeoutSecondLevel"
  | .htlcAcceptedSuccessSecondLevel => "HtlcAcceptedSuccessSecondLevel"
  | .leaseHtlcAcceptedSuccessSecondLevel => "LeaseHtlcAcceptedSuccessSecondLevel"
  | .htlcOfferedRemoteTimeout => "HtlcOfferedRemoteTimeout"
  | .htlcAcceptedRemoteSuccess => "HtlcAcceptedRemoteSuccess"
  | .htlcOfferedTimeoutSecondLevelInputConfirmed => "HtlcOfferedTimeoutSecondLevelInputConfirmed"
  | .htlcAcceptedSuccessSecondLevelInputConfirmed => "HtlcAcceptedSuccessSecondLevelInputConfirmed"
  | .taprootLocalCommitSpend f => if f then "TaprootLocalCommitSpendFinal" else "TaprootLocalCommitSpend"
  | .taprootRemoteCommitSpend f => if f then "TaprootRemoteCommitSpendFinal" else "TaprootRemoteCommitSpend"
  | .taprootAnchorSweepSpend => "TaprootAnchorSweepSpend"
  | .taprootHtlcOfferedTimeoutSecondLevel f =>
    if f then "TaprootHtlcOfferedTimeoutSecondLevelFinal" else "TaprootHtlcOfferedTimeoutSecondLevel"
  | .taprootHtlcAcceptedSuccessSecondLevel f =>
    if f then "TaprootHtlcAcceptedSuccessSecondLevelFinal" else "TaprootHtlcAcceptedSuccessSecondLevel"
  | .taprootHtlcLocalOfferedTimeout => "TaprootHtlcLocalOfferedTimeout"
  | .taprootHtlcAcceptedLocalSuccess => "TaprootHtlcAcceptedLocalSuccess"
  | .taprootHtlcOfferedRemoteTimeout f =>
    if f then "TaprootHtlcOfferedRemoteTimeoutFinal" else "TaprootHtlcOfferedRemoteTimeout"
  | .taprootHtlcAcceptedRemoteSuccess f =>
    if f then "TaprootHtlcAcceptedRemoteSuccessFinal" else "TaprootHtlcAcceptedRemoteSuccess"

def WT.all : List WT :=
  [.commitmentTimeLock, .leaseCommitmentTimeLock, .commitmentNoDelay, .commitmentNoDelayTweakless,
   .commitmentToRemoteConfirmed, .leaseCommitmentToRemoteConfirmed, .commitmentAnchor,
   .htlcOfferedTimeoutSecondLevel, .leaseHtlcOfferedTimeoutSecondLevel,
   .htlcAcceptedSuccessSecondLevel, .leaseHtlcAcceptedSuccessSecondLevel,
   .htlcOfferedRemoteTimeout, .htlcAcceptedRemoteSuccess,
   .htlcOfferedTimeoutSecondLevelInputConfirmed, .htlcAcceptedSuccessSecondLevelInputConfirmed,
   .taprootLocalCommitSpend false, .taprootLocalCommitSpend true,
   .taprootRemoteCommitSpend false, .taprootRemoteCommitSpend true, .taprootAnchorSweepSpend,
   .taprootHtlcOfferedTimeoutSecondLevel false, .taprootHtlcOfferedTimeoutSecondLevel true,
   .taprootHtlcAcceptedSuccessSecondLevel false, .taprootHtlcAcceptedSuccessSecondLevel true,
   .taprootHtlcLocalOfferedTimeout, .taprootHtlcAcceptedLocalSuccess,
   .taprootHtlcOfferedRemoteTimeout false, .taprootHtlcOfferedRemoteTimeout true,
   .taprootHtlcAcceptedRemoteSuccess false, .taprootHtlcAcceptedRemoteSuccess true]

def WT.ofName (s : String) : Option WT := WT.all.find? (·.name == s)

def WT.cls : WT → SigClass
  | .taprootAnchorSweepSpend => .tapKey
  | .taprootLocalCommitSpend _ | .taprootRemoteCommitSpend _
  | .taprootHtlcOfferedTimeoutSecondLevel _ | .taprootHtlcAcceptedSuccessSecondLevel _
  | .taprootHtlcLocalOfferedTimeout | .taprootHtlcAcceptedLocalSuccess
  | .taprootHtlcOfferedRemoteTimeout _ | .taprootHtlcAcceptedRemoteSuccess _ => .tapScript
  | _ => .v0

/-- the slot a witness type's descriptor is stored in -/
def WT.slot : WT → Slot
  | .commitmentTimeLock | .leaseCommitmentTimeLock | .commitmentNoDelay | .commitmentNoDelayTweakless
  | .commitmentToRemoteConfirmed | .leaseCommitmentToRemoteConfirmed
  | .taprootLocalCommitSpend _ | .taprootRemoteCommitSpend _ => .commit
  | .commitmentAnchor | .taprootAnchorSweepSpend => .anchor
  | .htlcOfferedTimeoutSecondLevelInputConfirmed | .htlcAcceptedSuccessSecondLevelInputConfirmed
  | .taprootHtlcLocalOfferedTimeout | .taprootHtlcAcceptedLocalSuccess => .htlcSecond
  | _ => .htlcSweep

/-- The descriptor the signer receives: the witness generators of the taproot
    witness types (and the CraftInputScript of the taproot HTLC inputs) refuse a
    missing control block / tap tweak and FORCE the sign method; the segwit-v0
    ones pass the descriptor on unchanged.  (`InputIndex` / `SigHashes` are set
    from the transaction being signed.) -/
def effective (c : SigClass) (d : SignDesc) : Option SignDesc :=
  match c with
  | .v0 => some d
  | .tapScript => if d.ctrl = 0 then none else some { d with method := smTapScriptSpend }
  | .tapKey => if d.tapTweak = 0 then none else some { d with method := smTapKeySpend }

/-- `TweakPubKeyWithTweak` / `DeriveRevocationPubkey` on key terms -/
def tweakSingle : Key → Key
  | .base n r => .single n r
  | k => .named s!"single({repr k})"

def tweakDouble : Key → Key
  | .base n r => .double n r
  | k => .named s!"double({repr k})"

/-- the public key the signer signs for -/
def SignDesc.signerKey (d : SignDesc) : Option Key :=
  d.key.map fun k => if d.single ≠ 0 then tweakSingle k else if d.double ≠ 0 then tweakDouble k else k

/-- does the sign method fit the witness class (btcwallet.SignOutputRaw switches
    on the method: a v0 signature for a taproot output, or a Schnorr one for a
    v0 output, is useless; unknown methods are rejected) -/
def methodFits (c : SigClass) (m : Nat) : Bool :=
  match c with
  | .v0 => m == smWitnessV0
  | .tapScript => m == smTapScriptSpend
  | .tapKey => m == smTapKeySpend

/-- the signature the signer returns for an (effective) descriptor -/
def signWith (c : SigClass) (d : SignDesc) : Option Item :=
  if methodFits c d.method then d.signerKey.map fun k => .sig k d.hashType .final else none

/-- the witness stack (below script / control block) of each witness type:
    `mine` our signature, `peer` the peer's second-level signature, `pre` the
    preimage, `pubkey` the key pushed by the P2WKH spend. -/
def WT.stack (wt : WT) (mine peer pre : Item) (pubkey : Key) : List Item :=
  match wt with
  | .commitmentTimeLock | .leaseCommitmentTimeLock
  | .htlcOfferedTimeoutSecondLevel | .leaseHtlcOfferedTimeoutSecondLevel
  | .htlcAcceptedSuccessSecondLevel | .leaseHtlcAcceptedSuccessSecondLevel => witDelay mine
  | .commitmentNoDelay | .commitmentNoDelayTweakless => witP2wkh mine pubkey
  | .commitmentToRemoteConfirmed | .leaseCommitmentToRemoteConfirmed | .commitmentAnchor => [mine]
  | .htlcOfferedRemoteTimeout => witRecvTimeout mine
  | .htlcAcceptedRemoteSuccess => witRedeem mine pre
  | .htlcOfferedTimeoutSecondLevelInputConfirmed => witSenderTimeout peer mine
  | .htlcAcceptedSuccessSecondLevelInputConfirmed => witReceiverRedeem peer mine pre
  | .taprootHtlcLocalOfferedTimeout => [peer, mine]
  | .taprootHtlcAcceptedLocalSuccess => [peer, mine, pre]
  | .taprootHtlcAcceptedRemoteSuccess _ => [mine, pre]
  | _ => [mine]

/-- `WitnessGenerator(signer, desc)(tx, …)`: effective descriptor, signature, stack. -/
def genWitness (wt : WT) (d : SignDesc) (peer pre : Item) : Option (List Item) :=
  match effective wt.cls d with
  | none => none
  | some e =>
    match signWith wt.cls e, e.signerKey with
    | some sg, some k => some (wt.stack sg peer pre k)
    | _, _ => none

/-! ### the descriptors lnwallet creates, and the witness type the resolvers pick -/

/-- `sweepSigHash` -/
def sweepSigHash (ct : ChanType) : Nat := if ct.taproot then sigHashDefault else sigHashAll

/-- Witness type chosen by commitSweepResolver.decideWitnessType, the HTLC
    resolvers (Launch / makeSweepInput), the anchor resolver and the utxo nursery.
    `offered` tells the two kinds of second-level outputs apart. -/
def Close.wtype (c : Close) (s : Spend) (offered : Bool := false) : Option WT :=
  let f := c.ct.taprootFinal
  match s with
  | .funding => none
  | .toLocal =>
    some (if c.ct.taproot then .taprootLocalCommitSpend f
          else if c.hasCltv then .leaseCommitmentTimeLock else .commitmentTimeLock)
  | .toRemote =>
    some (if c.ct.taproot then .taprootRemoteCommitSpend f
          else if c.ct.anchors then
            (if c.hasCltv then .leaseCommitmentToRemoteConfirmed else .commitmentToRemoteConfirmed)
          else if c.ct.tweakless then .commitmentNoDelayTweakless else .commitmentNoDelay)
  | .anchor => some (if c.ct.taproot then .taprootAnchorSweepSpend else .commitmentAnchor)
  | .htlcTimeoutTx =>
    if c.ct.taproot then some .taprootHtlcLocalOfferedTimeout
    else if c.ct.anchors then some .htlcOfferedTimeoutSecondLevelInputConfirmed else none
  | .htlcSuccessTx =>
    if c.ct.taproot then some .taprootHtlcAcceptedLocalSuccess
    else if c.ct.anchors then some .htlcAcceptedSuccessSecondLevelInputConfirmed else none
  | .secondLevelOut =>
    some (if offered then
            (if c.ct.taproot then .taprootHtlcOfferedTimeoutSecondLevel f
             else if c.hasCltv then .leaseHtlcOfferedTimeoutSecondLevel else .htlcOfferedTimeoutSecondLevel)
          else
            (if c.ct.taproot then .taprootHtlcAcceptedSuccessSecondLevel f
             else if c.hasCltv then .leaseHtlcAcceptedSuccessSecondLevel else .htlcAcceptedSuccessSecondLevel))
  | .htlcTimeout =>
    some (if c.ct.taproot then .taprootHtlcOfferedRemoteTimeout f else .htlcOfferedRemoteTimeout)
  | .htlcClaim =>
    some (if c.ct.taproot then .taprootHtlcAcceptedRemoteSuccess f else .htlcAcceptedRemoteSuccess)

/-- base key and tweak of the descriptor lnwallet builds for spend `s`
    (NewLocalForceCloseSummary / NewUnilateralCloseSummary / newOutgoing- and
    newIncomingHtlcResolution / NewAnchorResolution). -/
def Close.descKey (c : Close) (s : Spend) : Key × Bool :=
  match s with
  | .funding => (.base c.me roleMs, false)
  | .anchor =>
    -- taproot: the anchor is keyed to the party's to_local / to_remote key
    if c.ct.taproot then (.base c.me rolePay, false) else (.base c.me roleMs, false)
  | .toLocal | .secondLevelOut => (.base c.me roleDelay, true)
  | .toRemote => (.base c.me rolePay, !c.ct.tweakless)
  | _ => (.base c.me roleHtlc, true)

/-- The fresh descriptor (digests are parameters: `tw` tweak, `ws` script, `cb`
    control block, `tt` tap tweak; all non-zero where the field is populated).
    `localAnchor` = the anchor of our own taproot commitment, keyed to the
    tweaked delay key. -/
def Close.signDesc (c : Close) (s : Spend) (tw ws cb tt : Nat) (localAnchor : Bool := false) :
    SignDesc :=
  let (k, tweaked) :=
    if s == .anchor && c.ct.taproot && localAnchor then (Key.base c.me roleDelay, true)
    else c.descKey s
  let tap := c.ct.taproot
  let keyPath := tap && s == .anchor
  { key := some k, single := if tweaked then tw else 0, wscript := ws,
    hashType := sweepSigHash c.ct,
    method := if keyPath then smTapKeySpend else if tap then smTapScriptSpend else smWitnessV0,
    ctrl := if tap && !keyPath then cb else 0,
    tapTweak := if keyPath then tt else 0 }

/-! ### taproot key-path spends (anchors, MuSig2 funding output) -/

/-- a P2TR output: internal key `P` and the root of its script tree (digest;
    0 = BIP86, no script tree).  The output key is `Q = P + H_TapTweak(P ‖ root)·G`. -/
structure TapOut where
  internal : Key
  root : Nat
deriving DecidableEq, Repr, Inhabited

/-- Key-path spend (BIP341): the witness is one Schnorr signature that must
    verify under the output key `Q`.  Symbolically a signer produces a signature
    for `Q` iff it signs with the internal key `P` tweaked by the same root:
    `sigRoot` is the `TapTweak` of the descriptor it signed with. -/
def keyPathRun (cx : Ctx) (out : TapOut) (sigRoot : Nat) (wit : List Item) : Bool :=
  match wit with
  | [.sig k ht o] =>
    decide (k = out.internal) && (sigRoot == out.root) && sigOk { cx with tapscript := true } ht o
  | _ => false

/-- internal key of our anchor on a simple-taproot commitment
    (`CommitScriptAnchors` / `NewAnchorResolution`): our to_local key on our own
    commitment, our to_remote key on the peer's. -/
def Close.anchorInternal (c : Close) (localAnchor : Bool) : Key :=
  if localAnchor then .single c.me roleDelay else .base c.me rolePay

/-- the MuSig2 aggregate of the two funding keys -/
def musigKey : Key := .named "musig(A.ms+B.ms)"

end LndModel.C05
