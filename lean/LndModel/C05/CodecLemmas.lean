/-
C05: helper lemmas for the byte-level codec (`Codec.lean`): every reader consumes
exactly what its writer produced and returns the written value.
-/
import LndModel.C05.Codec

namespace LndModel.C05.Codec

theorem bind_run {α β : Type} (p : P α) (f : α → P β) (bs : Bytes) :
    (p >>= f) bs = match p bs with
      | none => none
      | some (a, r) => f a r := id rfl

theorem pure_run {α : Type} (a : α) (bs : Bytes) : (pure a : P α) bs = some (a, bs) := id rfl

theorem fail_run {α : Type} (bs : Bytes) : (P.fail : P α) bs = none := id rfl

theorem take_append (a rest : Bytes) (n : Nat) (h : a.length = n) :
    take n (a ++ rest) = some (a, rest) := by
  subst h
  simp [take]

/-! ### integers -/

theorem be_length (w n : Nat) : (be w n).length = w := by
  induction w generalizing n with
  | zero => rfl
  | succ w ih => simp [be, ih]

theorem le_length (w n : Nat) : (le w n).length = w := by
  induction w generalizing n with
  | zero => rfl
  | succ w ih => simp [le, ih]

theorem beVal_be (w n : Nat) (h : n < 256 ^ w) : beVal (be w n) = n := by
  induction w generalizing n with
  | zero => simp [be, beVal] at *; omega
  | succ w ih =>
    have hp : 0 < 256 ^ w := Nat.pow_pos (by omega)
    have hq : n / 256 ^ w < 256 := by
      rw [Nat.div_lt_iff_lt_mul hp]; rw [Nat.pow_succ] at h; omega
    have hr : n % 256 ^ w < 256 ^ w := Nat.mod_lt _ hp
    simp only [be, beVal, be_length, UInt8.toNat_ofNat']
    rw [ih _ hr, Nat.mod_eq_of_lt (by simpa using hq)]
    exact Nat.div_add_mod' n (256 ^ w)

theorem leVal_le (w n : Nat) (h : n < 256 ^ w) : leVal (le w n) = n := by
  induction w generalizing n with
  | zero => simp [le, leVal] at *; omega
  | succ w ih =>
    have hq : n / 256 < 256 ^ w := by
      rw [Nat.div_lt_iff_lt_mul (by omega)]; rw [Nat.pow_succ] at h; omega
    simp only [le, leVal, UInt8.toNat_ofNat']
    rw [ih _ hq]
    omega

theorem readBe_be (w n : Nat) (rest : Bytes) (h : n < 256 ^ w) :
    readBe w (be w n ++ rest) = some (n, rest) := by
  simp [readBe, bind_run, pure_run, take_append _ _ _ (be_length w n), beVal_be w n h]

theorem readLe_le (w n : Nat) (rest : Bytes) (h : n < 256 ^ w) :
    readLe w (le w n ++ rest) = some (n, rest) := by
  simp [readLe, bind_run, pure_run, take_append _ _ _ (le_length w n), leVal_le w n h]

theorem readBool_enc (b : Bool) (rest : Bytes) : readBool (encBool b ++ rest) = some (b, rest) := by
  cases b <;> simp [readBool, encBool, bind_run, pure_run, take]

theorem readVarInt_varInt (n : Nat) (rest : Bytes) (h : n < 2 ^ 64) :
    readVarInt (varInt n ++ rest) = some (n, rest) := by
  unfold varInt
  split
  · rename_i h1
    have : n % 256 = n := Nat.mod_eq_of_lt (by omega)
    simp [readVarInt, UInt8.toNat_ofNat', this, h1]
  · split
    · rename_i h1 h2
      have hv : leVal (le 2 n) = n := leVal_le 2 n (by omega)
      have ht := take_append (le 2 n) rest 2 (le_length 2 n)
      have hb : (0xfd : UInt8).toNat = 253 := rfl
      simp [readVarInt, hb, ht, hv]
      omega
    · split
      · rename_i h1 h2 h3
        have hv : leVal (le 4 n) = n := leVal_le 4 n (by omega)
        have ht := take_append (le 4 n) rest 4 (le_length 4 n)
        have hb : (0xfe : UInt8).toNat = 254 := rfl
        simp [readVarInt, hb, ht, hv]
        omega
      · rename_i h1 h2 h3
        have hv : leVal (le 8 n) = n := leVal_le 8 n (by omega)
        have ht := take_append (le 8 n) rest 8 (le_length 8 n)
        have hb : (0xff : UInt8).toNat = 255 := rfl
        simp [readVarInt, hb, ht, hv]
        omega

theorem readVarBytes_varBytes (b rest : Bytes) (max : Nat) (h : b.length ≤ max)
    (h64 : b.length < 2 ^ 64) : readVarBytes max (varBytes b ++ rest) = some (b, rest) := by
  have hn : ¬ b.length > max := by omega
  simp [readVarBytes, varBytes, bind_run, readVarInt_varInt _ _ h64, hn, take_append b rest _ rfl]

/-- list readers -/
theorem many_enc {α : Type} (p : P α) (enc : α → Bytes) (encL : List α → Bytes)
    (hnil : encL [] = []) (hcons : ∀ x t, encL (x :: t) = enc x ++ encL t)
    (xs : List α) (rest : Bytes)
    (hp : ∀ x ∈ xs, ∀ r, p (enc x ++ r) = some (x, r)) :
    many p xs.length (encL xs ++ rest) = some (xs, rest) := by
  induction xs with
  | nil => simp [many, hnil, pure_run]
  | cons x t ih =>
    have h1 := hp x (by simp)
    have h2 := ih (fun y hy r => hp y (by simp [hy]) r)
    simp [many, hcons, bind_run, pure_run, h1, h2]

end LndModel.C05.Codec
