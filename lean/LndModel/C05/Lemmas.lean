/-
C05 helper lemmas: timelock checks that hold by construction of the sweep
transactions.  Core Lean only.
-/
import LndModel.C05.Model

namespace LndModel.C05
open LndModel.C04.Script

/-- spending with `sequence = csvDelay` always satisfies `csvDelay OP_CSV`. -/
theorem csvOk_self (d l : Nat) (t : Bool) :
    csvOk { version := 2, sequence := d, lockTime := l, tapscript := t } d = true := by
  unfold csvOk
  by_cases h : d / seqDisable % 2 = 1
  · simp [h]
  · have h0 : d / seqDisable % 2 = 0 := by omega
    simp [h0]

theorem csvOk_one (l : Nat) (t : Bool) :
    csvOk { version := 2, sequence := 1, lockTime := l, tapscript := t } 1 = true :=
  csvOk_self 1 l t

/-- spending with `locktime = expiry` and a non-final sequence satisfies `expiry OP_CLTV`. -/
theorem cltvOk_self (e s : Nat) (t : Bool) (hs : s ≠ seqFinal) :
    cltvOk { version := 2, sequence := s, lockTime := e, tapscript := t } e = true := by
  simp [cltvOk, hs]

theorem cltvOk_self_seq0 (e : Nat) (t : Bool) :
    cltvOk { version := 2, sequence := 0, lockTime := e, tapscript := t } e = true :=
  cltvOk_self e 0 t (by decide)

theorem cltvOk_self_seq1 (e : Nat) (t : Bool) :
    cltvOk { version := 2, sequence := 1, lockTime := e, tapscript := t } e = true :=
  cltvOk_self e 1 t (by decide)

/-- a locktime below the expiry never satisfies it. -/
theorem cltvOk_early (e l s v : Nat) (t : Bool) (h : l < e) :
    cltvOk { version := v, sequence := s, lockTime := l, tapscript := t } e = false := by
  simp [cltvOk]
  intro _ h2; omega

/-- a sequence below the delay (both plain block counts) never satisfies it. -/
theorem csvOk_early (d s l v : Nat) (t : Bool) (hd : d < 65536) (hs : s < d) :
    csvOk { version := v, sequence := s, lockTime := l, tapscript := t } d = false := by
  have h1 : d / seqDisable = 0 := by unfold seqDisable; omega
  have h4 : d % seqMask = d := by unfold seqMask; omega
  have h5 : s % seqMask = s := by unfold seqMask; omega
  simp [csvOk, h1, h4, h5]
  intro _ _ _; omega

theorem truthy_num (x : Nat) (h : x ≠ 0) : truthy (.num x) = true := by
  cases x with
  | zero => exact absurd rfl h
  | succ k => rfl

end LndModel.C05
