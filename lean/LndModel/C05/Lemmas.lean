/-
C05 helper lemmas: timelock checks that hold by construction of the sweep
transactions.  Core Lean only.
-/
import LndModel.C05.Model

namespace LndModel.C05
open LndModel.C04.Script

/-- spending with `sequence = csvDelay` always satisfies `csvDelay OP_CSV`. -/
theorem csvOk_self (d l : Nat) (t ag : Bool) (bh bt ia : Nat) :
    csvOk { version := 2, sequence := d, lockTime := l, tapscript := t, aggregated := ag,
            blockHeight := bh, blockTime := bt, inputAge := ia } d = true := by
  unfold csvOk
  by_cases h : d / seqDisable % 2 = 1
  · simp [h]
  · have h0 : d / seqDisable % 2 = 0 := by omega
    simp [h0]

theorem csvOk_one (l : Nat) (t ag : Bool) (bh bt ia : Nat) :
    csvOk { version := 2, sequence := 1, lockTime := l, tapscript := t, aggregated := ag,
            blockHeight := bh, blockTime := bt, inputAge := ia } 1 = true :=
  csvOk_self 1 l t ag bh bt ia

/-- spending with `locktime = expiry` and a non-final sequence satisfies `expiry OP_CLTV`. -/
theorem cltvOk_self (e s : Nat) (t ag : Bool) (bh bt ia : Nat) (hs : s ≠ seqFinal) :
    cltvOk { version := 2, sequence := s, lockTime := e, tapscript := t, aggregated := ag,
             blockHeight := bh, blockTime := bt, inputAge := ia } e = true := by
  simp [cltvOk, hs]

theorem cltvOk_self_seq0 (e : Nat) (t ag : Bool) (bh bt ia : Nat) :
    cltvOk { version := 2, sequence := 0, lockTime := e, tapscript := t, aggregated := ag,
             blockHeight := bh, blockTime := bt, inputAge := ia } e = true :=
  cltvOk_self e 0 t ag bh bt ia (by decide)

theorem cltvOk_self_seq1 (e : Nat) (t ag : Bool) (bh bt ia : Nat) :
    cltvOk { version := 2, sequence := 1, lockTime := e, tapscript := t, aggregated := ag,
             blockHeight := bh, blockTime := bt, inputAge := ia } e = true :=
  cltvOk_self e 1 t ag bh bt ia (by decide)

/-- a locktime below the expiry never satisfies it. -/
theorem cltvOk_early (e l s v : Nat) (t : Bool) (h : l < e) (ag : Bool := false)
    (bh bt ia : Nat := 0) :
    cltvOk { version := v, sequence := s, lockTime := l, tapscript := t, aggregated := ag,
             blockHeight := bh, blockTime := bt, inputAge := ia } e = false := by
  simp [cltvOk]
  intro _ h2; omega

/-- a sequence below the delay (both plain block counts) never satisfies it. -/
theorem csvOk_early (d s l v : Nat) (t : Bool) (hd : d < 65536) (hs : s < d) (ag : Bool := false)
    (bh bt ia : Nat := 0) :
    csvOk { version := v, sequence := s, lockTime := l, tapscript := t, aggregated := ag,
            blockHeight := bh, blockTime := bt, inputAge := ia } d = false := by
  have h1 : d / seqDisable = 0 := by unfold seqDisable; omega
  have h4 : d % seqMask = d := by unfold seqMask; omega
  have h5 : s % seqMask = s := by unfold seqMask; omega
  simp [csvOk, h1, h4, h5]
  intro _ _ _; omega

theorem truthy_num (x : Nat) (h : x ≠ 0) : truthy (.num x) = true := by
  cases x with
  | zero => exact absurd rfl h
  | succ k => rfl

theorem self_loss (cm : Commitment) :
    1000 * cm.selfClaim ≤ cm.ownMsat ∧ cm.ownMsat < 1000 * (cm.selfClaim + max 1 cm.dust) := by
  unfold Commitment.selfClaim
  split <;> rcases Nat.le_total 1 cm.dust with h | h <;> simp [h] <;> omega

theorem htlc_loss (w : Weights) (ct : ChanType) (cm : Commitment) (h : Htlc) :
    1000 * cm.htlcClaim w ct h ≤ h.amtMsat ∧
    h.amtMsat < 1000 * (cm.htlcClaim w ct h +
      max 1 (cm.dust + htlcFee w ct cm.feePerKw h.incoming cm.localCommit)) := by
  unfold Commitment.htlcClaim htlcHasOutput
  generalize htlcFee w ct cm.feePerKw h.incoming cm.localCommit = fee
  simp only [decide_eq_true_eq]
  split <;> rename_i hc <;>
    rcases Nat.le_total 1 (cm.dust + fee) with h1 | h1 <;> simp [h1] <;> omega
theorem htlcs_loss (w : Weights) (ct : ChanType) (cm : Commitment) (l : List Htlc) :
    1000 * sumMap (cm.htlcClaim w ct) l ≤ sumMap (·.amtMsat) l ∧
    sumMap (·.amtMsat) l ≤ 1000 * (sumMap (cm.htlcClaim w ct) l +
      sumMap (fun h => max 1 (cm.dust + htlcFee w ct cm.feePerKw h.incoming cm.localCommit)) l) := by
  induction l with
  | nil => simp [sumMap]
  | cons h t ih =>
    have := htlc_loss w ct cm h
    simp only [sumMap]
    omega

end LndModel.C05
