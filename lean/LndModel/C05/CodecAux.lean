/-
C05 property theorems, part 6: the taproot aux data for WHOLE LISTS of HTLC resolutions.
`incoming_direct_ctrl_restored`: for any number of incoming HTLC resolutions on the
peer's commitment (no second-level transaction) with pairwise distinct resolver ids, the
control block filed by `encodeTaprootAuxData` is the one `decodeTapRootAuxData` finds.
(The analogous statements for the outgoing map and for the shared second-level map are
not proved; the driver compares `ResSet.reloaded` with the real reload on every run.)
-/
import LndModel.C05.CodecProps
namespace LndModel.C05.Codec

theorem get_nil_of_no_key (m : CtrlMap) (k : OutPoint) (h : ∀ e ∈ m, e.1 ≠ k) : CtrlMap.get m k = [] := by
  unfold CtrlMap.get
  have : m.reverse.find? (fun e => e.1 == k) = none := by
    rw [List.find?_eq_none]
    intro e he
    have := h e (List.mem_reverse.mp he)
    simpa using this
  simp [this]

theorem auxFirst_key (i : InRes) : ∀ e ∈ i.auxFirst, e.1 = i.resId := by
  intro e he
  unfold InRes.auxFirst at he
  split at he
  · simp at he
  · split at he <;> simp at he <;> simp [he]

theorem flatMap_auxFirst_keys (l : List InRes) (k : OutPoint) (h : ∀ j ∈ l, j.resId ≠ k) :
    ∀ e ∈ l.flatMap InRes.auxFirst, e.1 ≠ k := by
  intro e he
  obtain ⟨j, hj, hej⟩ := List.mem_flatMap.mp he
  rw [auxFirst_key j e hej]
  exact h j hj

/-- **incoming_direct_ctrl_restored**: on the peer's commitment (no second-level transaction)
    the control block of every incoming HTLC resolution is found again under its resolver id,
    for any number of resolutions, provided the resolver ids of the incoming resolutions are
    pairwise distinct. -/
theorem incoming_direct_ctrl_restored (r : ResSet) (hd : (r.incoming.map InRes.resId).Nodup)
    (i : InRes) (hi : i ∈ r.incoming) (ht : i.tx = none) :
    (auxOf r).incomingCtrl.get i.resId = i.sd.ctrl := by
  obtain ⟨l1, l2, hl⟩ := List.append_of_mem hi
  have hnd := hd
  rw [hl, List.map_append, List.map_cons, List.nodup_append] at hnd
  obtain ⟨_, h2, h3⟩ := hnd
  have hk1 : ∀ j ∈ l1, j.resId ≠ i.resId := by
    intro j hj
    exact h3 _ (List.mem_map_of_mem hj) _ (by simp)
  have hk2 : ∀ j ∈ l2, j.resId ≠ i.resId := by
    intro j hj heq
    have := (List.nodup_cons.mp h2).1
    exact this (heq ▸ List.mem_map_of_mem hj)
  show CtrlMap.get (r.incoming.flatMap InRes.auxFirst) i.resId = i.sd.ctrl
  rw [hl, List.flatMap_append, List.flatMap_cons]
  rw [← List.append_assoc, get_append_of_not_mem _ _ _ (flatMap_auxFirst_keys l2 _ hk2)]
  by_cases he : i.sd.ctrl.isEmpty = true
  · have : i.auxFirst = [] := by simp [InRes.auxFirst, he]
    rw [this, List.append_nil, get_nil_of_no_key _ _ (flatMap_auxFirst_keys l1 _ hk1)]
    exact (List.isEmpty_iff.mp he).symm
  · have : i.auxFirst = [(i.resId, i.sd.ctrl)] := by simp [InRes.auxFirst, he, ht]
    rw [this]
    simpa using get_append_right (l1.flatMap InRes.auxFirst) [] i.resId i.sd.ctrl

end LndModel.C05.Codec
