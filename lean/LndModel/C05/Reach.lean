/-
C05 property theorems, part 5: **every commitment of every reachable state** of the
C01 channel state machine (`LndModel.C01.Node.run`, all operation lists: adds, settles,
fails, fee updates, SignNextCommitment / ReceiveNewCommitment / RevokeCurrentCommitment /
ReceiveRevocation in any order, accepted or rejected) is a commitment the C01
construction built - the node's own chain (lowest unrevoked commitment = what ForceClose
broadcasts, and every newer one received but not yet revoked for) and the peer's chain
(the peer's current commitment and the pending not-yet-revoked one, mid-dance).

Hence the per-commitment value theorems of `Value.lean` hold in every reachable state:

* `reachable_commitments_built`: induction over all operation lists.
* `reachable_claimed_exact`: for every such commitment the outputs the node's resolutions
  claim are worth exactly its balance on that commitment (unless below the owner's dust
  limit) plus every non-trimmed HTLC.
* `reachable_accounting`: and balance-before-fee + live HTLCs = 1000·claimed + fee paid +
  1000·trimmed + truncation, with truncation < 1 sat per item.

The two commitments of the initial state are parameters (the funding flow is outside the
C01 model); the statement is about every commitment created afterwards.
-/
import LndModel.C05.Value

namespace LndModel.C05.Reach
open LndModel.C01 LndModel.C05.Value

/-- `cm` is a result of createUnsignedCommitmentTx for chain `c` under `cfg` -/
def Built (cfg : Cfg) (c : Chain) (cm : Commit) : Prop :=
  ∃ tip r a b d e, buildCommit cfg c tip r a b d e = .ok cm

theorem fetch_built {n : Node} {c : Chain} {a b d e : Nat} {cm : Commit} {n' : Node}
    (h : fetchCommitmentView n c a b d e = .ok (cm, n')) :
    Built n.cfg c cm ∧ n'.cfg = n.cfg ∧ n'.chainL = n.chainL ∧ n'.chainR = n.chainR := by
  unfold fetchCommitmentView at h
  split at h
  · simp at h
  · rename_i r _
    dsimp only at h
    split at h
    · simp at h
    · rename_i cm' hb
      simp only [Except.ok.injEq, Prod.mk.injEq] at h
      obtain ⟨h1, h2⟩ := h
      subst h1; subst h2
      exact ⟨⟨_, _, _, _, _, _, hb⟩, rfl, rfl, rfl⟩

/-- the commitments of both chains after one operation: old ones, or a freshly built one -/
def StepOK (n n' : Node) : Prop :=
  n'.cfg = n.cfg ∧ ∀ c cm, cm ∈ (n'.chain c).all → cm ∈ (n.chain c).all ∨ Built n.cfg c cm

theorem stepOK_refl (n : Node) : StepOK n n := ⟨rfl, fun _ _ h => Or.inl h⟩

theorem stepOK_of_chains {n n' : Node} (h0 : n'.cfg = n.cfg) (h1 : n'.chainL = n.chainL)
    (h2 : n'.chainR = n.chainR) : StepOK n n' := by
  refine ⟨h0, ?_⟩
  intro c cm h
  cases c <;> simp only [Node.chain] at h ⊢
  · rw [h1] at h; exact Or.inl h
  · rw [h2] at h; exact Or.inl h

theorem stepOK_addHTLC (n : Node) (a e h : Nat) : StepOK n (n.addHTLC a e h).2 := by
  unfold Node.addHTLC
  dsimp only
  split
  · split
    · exact stepOK_of_chains rfl rfl rfl
    · exact stepOK_refl n
  · exact stepOK_refl n

theorem stepOK_receiveHTLC (n : Node) (i a e h : Nat) : StepOK n (n.receiveHTLC i a e h).2 := by
  unfold Node.receiveHTLC
  dsimp only
  split
  · exact stepOK_refl n
  · split
    · exact stepOK_of_chains rfl rfl rfl
    · exact stepOK_refl n

theorem stepOK_resolveLocal (n : Node) (ty : ETy) (i : Nat) (p : Bool) : StepOK n (n.resolveLocal ty i p).2 := by
  unfold Node.resolveLocal
  dsimp only
  split
  · exact stepOK_refl n
  · split
    · exact stepOK_refl n
    · split
      · exact stepOK_refl n
      · exact stepOK_of_chains rfl rfl rfl

theorem stepOK_resolveRemote (n : Node) (ty : ETy) (i : Nat) (p : Bool) : StepOK n (n.resolveRemote ty i p).2 := by
  unfold Node.resolveRemote
  dsimp only
  split
  · exact stepOK_refl n
  · split
    · exact stepOK_refl n
    · split
      · exact stepOK_refl n
      · exact stepOK_of_chains rfl rfl rfl

theorem stepOK_updateFee (n : Node) (f : Nat) : StepOK n (n.updateFee f).2 := by
  unfold Node.updateFee
  dsimp only
  split
  · exact stepOK_refl n
  · split
    · exact stepOK_refl n
    · exact stepOK_of_chains rfl rfl rfl

theorem stepOK_receiveUpdateFee (n : Node) (f : Nat) : StepOK n (n.receiveUpdateFee f).2 := by
  unfold Node.receiveUpdateFee
  dsimp only
  split
  · exact stepOK_refl n
  · exact stepOK_of_chains rfl rfl rfl

theorem stepOK_sign (n : Node) : StepOK n (n.sign).2.1 := by
  unfold Node.sign
  dsimp only
  split
  · exact stepOK_refl n
  · split
    · split
      · exact stepOK_refl n
      · rename_i cm n' hf
        obtain ⟨hb, h0, h1, h2⟩ := fetch_built hf
        refine ⟨h0, ?_⟩
        intro c x hx
        cases c <;> simp only [Node.chain] at hx ⊢
        · rw [h1] at hx; exact Or.inl hx
        · simp only [CChain.all, List.mem_cons, List.mem_append, List.mem_singleton, List.not_mem_nil, or_false] at hx ⊢
          rw [h2] at hx
          rcases hx with hx | hx | hx
          · exact Or.inl (Or.inl hx)
          · exact Or.inl (Or.inr hx)
          · subst hx; exact Or.inr hb
    · exact stepOK_refl n

theorem stepOK_receiveCommit (n : Node) (sv : SigView) : StepOK n (n.receiveCommit sv).2 := by
  unfold Node.receiveCommit
  dsimp only
  split
  · split
    · exact stepOK_refl n
    · rename_i cm n' hf
      obtain ⟨hb, h0, h1, h2⟩ := fetch_built hf
      split
      · refine ⟨h0, ?_⟩
        intro c x hx
        cases c <;> simp only [Node.chain] at hx ⊢
        · simp only [CChain.all, List.mem_cons, List.mem_append, List.mem_singleton, List.not_mem_nil, or_false] at hx ⊢
          rw [h1] at hx
          rcases hx with hx | hx | hx
          · exact Or.inl (Or.inl hx)
          · exact Or.inl (Or.inr hx)
          · subst hx; exact Or.inr hb
        · rw [h2] at hx; exact Or.inl hx
      · exact stepOK_refl n
  · exact stepOK_refl n

theorem stepOK_revoke (n : Node) : StepOK n (n.revoke).2 := by
  unfold Node.revoke
  split
  · exact stepOK_refl n
  · rename_i c rest hp
    refine ⟨rfl, ?_⟩
    intro ch x hx
    cases ch <;> simp only [Node.chain] at hx ⊢
    · simp only [CChain.all, List.mem_cons] at hx ⊢
      rw [hp]
      rcases hx with hx | hx
      · exact Or.inl (Or.inr (by simp [hx]))
      · exact Or.inl (Or.inr (by simp [hx]))
    · exact Or.inl hx

theorem stepOK_receiveRevocation (n : Node) : StepOK n (n.receiveRevocation).2 := by
  unfold Node.receiveRevocation
  dsimp only
  split
  · exact stepOK_refl n
  · rename_i c rest hp
    refine ⟨rfl, ?_⟩
    intro ch x hx
    cases ch <;> simp only [Node.chain] at hx ⊢
    · exact Or.inl hx
    · simp only [CChain.all, List.mem_cons] at hx ⊢
      rw [hp]
      rcases hx with hx | hx
      · exact Or.inl (Or.inr (by simp [hx]))
      · exact Or.inl (Or.inr (by simp [hx]))

theorem stepOK_step (n : Node) (op : Op) : StepOK n (n.step op).2 := by
  cases op with
  | addHTLC a e h => exact stepOK_addHTLC n a e h
  | receiveHTLC i a e h => exact stepOK_receiveHTLC n i a e h
  | settle i p => exact stepOK_resolveLocal n .settle i p
  | fail i => exact stepOK_resolveLocal n .fail i true
  | malformedFail i => exact stepOK_resolveLocal n .malformed i true
  | receiveSettle i p => exact stepOK_resolveRemote n .settle i p
  | receiveFail i => exact stepOK_resolveRemote n .fail i true
  | updateFee f => exact stepOK_updateFee n f
  | receiveUpdateFee f => exact stepOK_receiveUpdateFee n f
  | sign => exact stepOK_sign n
  | receiveCommit sv => exact stepOK_receiveCommit n sv
  | revoke => exact stepOK_revoke n
  | receiveRevocation => exact stepOK_receiveRevocation n

/-- **reachable_commitments_built**: after ANY operation list, every commitment on the
    node's own chain and on the peer's chain (tail and all pending ones) is one of the
    initial state's or was built by the C01 construction. -/
theorem reachable_commitments_built (n0 : Node) (ops : List Op) :
    (n0.run ops).cfg = n0.cfg ∧
    ∀ c cm, cm ∈ ((n0.run ops).chain c).all → cm ∈ (n0.chain c).all ∨ Built n0.cfg c cm := by
  induction ops generalizing n0 with
  | nil => exact ⟨rfl, fun _ _ h => Or.inl h⟩
  | cons op t ih =>
    have hs := stepOK_step n0 op
    have hr := ih (n0.step op).2
    have hrun : n0.run (op :: t) = (n0.step op).2.run t := rfl
    rw [hrun]
    refine ⟨hr.1.trans hs.1, ?_⟩
    intro c cm h
    rcases hr.2 c cm h with h1 | h1
    · exact hs.2 c cm h1
    · rw [hs.1] at h1; exact Or.inr h1

/-- **reachable_claimed_exact**: in every reachable state, for the commitment the node
    would broadcast, for every newer one of its own chain, for the peer's current and for
    the peer's pending commitment: the node's resolutions claim exactly its balance
    (unless trimmed) plus every non-trimmed HTLC. -/
theorem reachable_claimed_exact (n0 : Node) (ops : List Op) (c : Chain) (cm : Commit)
    (h : cm ∈ ((n0.run ops).chain c).all) (hnew : cm ∉ (n0.chain c).all) :
    claimedTotal c cm.outs = selfSat (n0.cfg.dust c) cm.our + sumBy htlcSat cm.htlcs := by
  rcases (reachable_commitments_built n0 ops).2 c cm h with h1 | ⟨tip, r, a, b, d, e, hb⟩
  · exact absurd h1 hnew
  · obtain ⟨_, ho, ht, _, hh, hout⟩ := buildCommit_ok n0.cfg c tip r a b d e cm hb
    rw [hout, hh, ← ho, ← ht]
    exact claimed_exact n0.cfg c cm.our cm.their _ _

/-- **reachable_accounting**: the msat identity of `buildCommit_accounting` in every
    reachable state (for some evaluated view `r` whose balance is the balance before fee). -/
theorem reachable_accounting (n0 : Node) (ops : List Op) (c : Chain) (cm : Commit)
    (h : cm ∈ ((n0.run ops).chain c).all) (hnew : cm ∉ (n0.chain c).all) :
    ∃ rOur, rOur + sumBy (·.amt) cm.htlcs =
      1000 * claimedTotal c cm.outs + feePaidMsat n0.cfg rOur cm.fee +
      1000 * trimmedSat (n0.cfg.dust c) cm.our cm.htlcs + truncMsat cm.our cm.htlcs ∧
      truncMsat cm.our cm.htlcs < 1000 * (1 + cm.htlcs.length) := by
  rcases (reachable_commitments_built n0 ops).2 c cm h with h1 | ⟨tip, r, a, b, d, e, hb⟩
  · exact absurd h1 hnew
  · exact ⟨r.our, buildCommit_accounting n0.cfg c tip r a b d e cm hb, trunc_small _ _⟩

/-! ### non-vacuity -/

def demoCfg : Cfg :=
  { capacity := 1000000, initiator := true, anchors := false, zeroFee := false, taproot := false,
    dustL := 546, dustR := 546, resL := 10000, resR := 10000, minL := 1, minR := 1,
    maxPendL := 1000000000, maxPendR := 1000000000, maxAccL := 483, maxAccR := 483 }
def demoCommit : Commit :=
  { height := 0, our := 499817000, their := 500000000, fee := 183, feePerKw := 253,
    ourMsg := 0, theirMsg := 0, ourHtlc := 0, theirHtlc := 0 }
def demoNode : Node := { cfg := demoCfg, chainL := { tail := demoCommit }, chainR := { tail := demoCommit } }

/-- mid-dance: an HTLC offered and signed for the peer, nothing revoked yet.  The peer's
    PENDING commitment is a new commitment of the reachable state; on it the node claims
    its to_remote output (494 774 sat after the fee) and the offered HTLC (5 000 sat). -/
example :
    let n := demoNode.run [.addHTLC 5000000 144 7, .sign]
    let cm := n.chainR.pend.headD default
    cm ∈ (n.chain .rem).all ∧ cm ∉ (demoNode.chain .rem).all ∧
      claimedTotal .rem cm.outs = 494774 + 5000 := by decide

/-- a dust HTLC (300 sat < 546) on the pending commitment is not claimable: only the balance -/
example :
    let n := demoNode.run [.addHTLC 300000 144 7, .sign]
    let cm := n.chainR.pend.headD default
    cm ∉ (demoNode.chain .rem).all ∧ claimedTotal .rem cm.outs = cm.our / 1000 ∧ cm.htlcs.length = 1 := by decide

end LndModel.C05.Reach
