/-
C05 model: the spends a node derives for its own commitment
(lnwallet.NewLocalForceCloseSummary, newOutgoingHtlcResolution /
newIncomingHtlcResolution) and for the counterparty's current or pending
commitment (lnwallet.NewUnilateralCloseSummary), as used by contractcourt's
resolvers and the sweeper (witness type, sequence = BlocksToMaturity, locktime).
Scripts and witnesses are the symbolic templates of `LndModel.C04.Script`.
Core Lean only.
-/
import LndModel.C04.Script

namespace LndModel.C05
open LndModel.C04.Script

structure ChanType where
  tweakless : Bool := true
  anchors : Bool := false
  zeroFee : Bool := false
  lease : Bool := false
  taproot : Bool := false
  taprootFinal : Bool := false
deriving DecidableEq, Repr, Inhabited

/-- What is being spent. -/
inductive Spend where
  /-- our fully signed commitment, spending the 2-of-2 funding output -/
  | funding
  /-- our delayed to-local output on our commitment -/
  | toLocal
  /-- HTLC-timeout transaction for an HTLC we offered, on our commitment -/
  | htlcTimeoutTx
  /-- HTLC-success transaction for an HTLC we received, on our commitment -/
  | htlcSuccessTx
  /-- the delayed output of our second-level transaction -/
  | secondLevelOut
  /-- our to-remote output on the peer's commitment -/
  | toRemote
  /-- timeout of an HTLC we offered, directly on the peer's commitment -/
  | htlcTimeout
  /-- claim of an HTLC we received with the preimage, on the peer's commitment -/
  | htlcClaim
  /-- our anchor -/
  | anchor
deriving DecidableEq, Repr, Inhabited

def Spend.onLocalCommit : Spend → Bool
  | .funding | .toLocal | .htlcTimeoutTx | .htlcSuccessTx | .secondLevelOut => true
  | _ => false

/-- `HtlcSigHashType`. -/
def htlcSigHashType (ct : ChanType) : Nat :=
  if ct.anchors then sigHashSingleAnyoneCanPay else sigHashAll

/-- `HtlcSecondLevelInputSequence`. -/
def htlcSecondLevelSeq (ct : ChanType) : Nat := if ct.anchors then 1 else 0

/-- One close as seen by node `me` (peer = `1 - me`). -/
structure Close where
  ct : ChanType
  me : Nat
  /-- are we the channel initiator? -/
  initiator : Bool
  /-- our own CSV delay (`LocalChanCfg.CsvDelay`) -/
  csv : Nat
  leaseExpiry : Nat
  /-- block height used as locktime when nothing else requires one -/
  height : Nat := 0
deriving Repr, Inhabited

def Close.peer (c : Close) : Nat := 1 - c.me

/-! key ring (`DeriveCommitmentKeys(commitPoint, whose, …)`) -/
def Close.revocationKey (c : Close) (localCommit : Bool) : Key :=
  if localCommit then .double c.peer roleRev else .double c.me roleRev
def Close.toLocalKey (c : Close) (localCommit : Bool) : Key :=
  if localCommit then .single c.me roleDelay else .single c.peer roleDelay
def Close.toRemoteKey (c : Close) (localCommit : Bool) : Key :=
  let owner := if localCommit then c.peer else c.me
  if c.ct.tweakless then .base owner rolePay else .single owner rolePay
def Close.localHtlcKey (c : Close) : Key := .single c.me roleHtlc
def Close.remoteHtlcKey (c : Close) : Key := .single c.peer roleHtlc
def Close.fundingKey (_c : Close) (n : Nat) : Key := .base n roleMs

/-- lease CLTV applies to the initiator's own funds -/
def Close.hasCltv (c : Close) : Bool := c.ct.lease && c.initiator

/-- The witness script of the output being spent (segwit v0 channel types);
    `flip` selects the other byte order of the two funding keys. -/
def Close.script (c : Close) (s : Spend) (cltv : Nat) (payHash : Item) (flip : Bool := false) :
    List Op :=
  match s with
  | .funding =>
    if flip then multiSig (c.fundingKey c.peer) (c.fundingKey c.me)
    else multiSig (c.fundingKey c.me) (c.fundingKey c.peer)
  | .toLocal | .secondLevelOut =>
    if c.hasCltv then
      leaseDelayOrRevoke (c.revocationKey true) (c.toLocalKey true) c.csv c.leaseExpiry
    else delayOrRevoke (c.revocationKey true) (c.toLocalKey true) c.csv
  | .htlcTimeoutTx =>
    senderHTLC c.localHtlcKey c.remoteHtlcKey (c.revocationKey true) payHash c.ct.anchors
  | .htlcSuccessTx =>
    receiverHTLC cltv c.remoteHtlcKey c.localHtlcKey (c.revocationKey true) payHash c.ct.anchors
  | .toRemote =>
    if c.hasCltv then leaseToRemoteConfirmed (c.toRemoteKey false) c.leaseExpiry
    else if c.ct.anchors then toRemoteConfirmed (c.toRemoteKey false)
    else p2wkh (c.toRemoteKey false)
  | .htlcTimeout =>
    receiverHTLC cltv c.localHtlcKey c.remoteHtlcKey (c.revocationKey false) payHash c.ct.anchors
  | .htlcClaim =>
    senderHTLC c.remoteHtlcKey c.localHtlcKey (c.revocationKey false) payHash c.ct.anchors
  | .anchor => anchor (c.fundingKey c.me)

/-- the key our own signature is made with (sign descriptor: base + single tweak) -/
def Close.signer (c : Close) (s : Spend) : Key :=
  match s with
  | .funding | .anchor => c.fundingKey c.me
  | .toLocal | .secondLevelOut => .single c.me roleDelay
  | .htlcTimeoutTx | .htlcSuccessTx | .htlcTimeout | .htlcClaim => .single c.me roleHtlc
  | .toRemote => c.toRemoteKey false

/-- What the peer's second-level HTLC signature was made over: the timeout
    transaction with nLockTime = the HTLC's expiry, the success transaction with
    nLockTime 0, input sequence `HtlcSecondLevelInputSequence`
    (`genHtlcSigValidationJobs` verifies exactly that when the signature arrives). -/
def Close.peerSigOver (c : Close) (s : Spend) (expiry : Nat) : SigOver :=
  .presigned (if s == .htlcTimeoutTx then expiry else 0) (htlcSecondLevelSeq c.ct)

/-- The witness stack. `preimage` is what the resolver inserts for received
    HTLCs; `peerHashType` is the sighash flag of the peer's second-level signature. -/
def Close.witnessWith (c : Close) (s : Spend) (expiry : Nat) (preimage : Item) (peerHashType : Nat)
    (flip : Bool := false) : List Item :=
  let mine := Item.sig (c.signer s) sigHashAll .final
  let peerHtlc := Item.sig c.remoteHtlcKey peerHashType (c.peerSigOver s expiry)
  match s with
  | .funding =>
    let theirs := Item.sig (c.fundingKey c.peer) sigHashAll .final
    if flip then witMultiSig theirs mine else witMultiSig mine theirs
  | .toLocal | .secondLevelOut => witDelay mine
  | .htlcTimeoutTx => witSenderTimeout peerHtlc mine
  | .htlcSuccessTx => witReceiverRedeem peerHtlc mine preimage
  | .toRemote =>
    if c.hasCltv || c.ct.anchors then [mine] else witP2wkh mine (c.toRemoteKey false)
  | .htlcTimeout => witRecvTimeout mine
  | .htlcClaim => witRedeem mine preimage
  | .anchor => [mine]

/-- the witness with the peer's signature carrying `HtlcSigHashType` -/
def Close.witness (c : Close) (s : Spend) (expiry : Nat) (preimage : Item) (flip : Bool := false) :
    List Item :=
  c.witnessWith s expiry preimage (htlcSigHashType c.ct) flip

/-- sequence of the spending input -/
def Close.sequence (c : Close) (s : Spend) : Nat :=
  match s with
  | .funding => 0              -- holds the state hint; irrelevant to the script
  | .toLocal | .secondLevelOut => c.csv
  | .htlcTimeoutTx | .htlcSuccessTx | .htlcTimeout | .htlcClaim => htlcSecondLevelSeq c.ct
  | .toRemote => if c.hasCltv || c.ct.anchors then 1 else 0
  | .anchor => 0

/-- locktime of the spending transaction (`expiry` = the HTLC's CLTV expiry) -/
def Close.lockTime (c : Close) (s : Spend) (expiry : Nat) : Nat :=
  match s with
  | .htlcTimeoutTx | .htlcTimeout => expiry
  | .htlcSuccessTx => 0
  | .toLocal | .secondLevelOut | .toRemote => if c.hasCltv then c.leaseExpiry else c.height
  | _ => c.height

/-- `agg` = the sweeper put the (anchor-type) second-level input into a
    transaction with further inputs / outputs (`HtlcSecondLevelAnchorInput`). -/
def Close.ctx (c : Close) (s : Spend) (expiry : Nat) (agg : Bool := false) : Ctx :=
  { version := 2, sequence := c.sequence s, lockTime := c.lockTime s expiry, tapscript := false,
    aggregated := agg }

/-- the same transaction offered to a block at `height`, `age` blocks after the
    spent output confirmed -/
def Close.ctxAt (c : Close) (s : Spend) (expiry : Nat) (agg : Bool) (height age : Nat) : Ctx :=
  { c.ctx s expiry agg with blockHeight := height, inputAge := age }

/-- Verdict of the symbolic interpreter for spend `s` of an HTLC with CLTV
    expiry `expiry` and payment-hash item `payHash`, given `preimage`. -/
def Close.valid (c : Close) (s : Spend) (expiry : Nat) (payHash preimage : Item)
    (agg : Bool := false) : Bool :=
  run (c.ctx s expiry agg) (c.script s expiry payHash) (c.witness s expiry preimage)

/-! ### simple-taproot channels: tapscript leaves (script path); the funding
    output (MuSig2) and the anchors are key-path spends and stay outside the model -/

def Close.tapScript (c : Close) (s : Spend) (cltv : Nat) (payHash : Item) : Option (List Op) :=
  let f := c.ct.taprootFinal
  match s with
  | .toLocal | .secondLevelOut => some (tapDelayLeaf f (c.toLocalKey true) c.csv)
  | .toRemote => some (tapDelayLeaf f (c.toRemoteKey false) 1)
  | .htlcTimeoutTx => some (tapSenderTimeoutLeaf c.localHtlcKey c.remoteHtlcKey)
  | .htlcSuccessTx => some (tapReceiverSuccessLeaf c.remoteHtlcKey c.localHtlcKey payHash)
  | .htlcTimeout => some (tapReceiverTimeoutLeaf f c.localHtlcKey cltv)
  | .htlcClaim => some (tapSenderSuccessLeaf f c.localHtlcKey payHash)
  | .funding | .anchor => none

/-- witness below leaf script and control block (Schnorr, SIGHASH_DEFAULT for
    our signature, SINGLE|ANYONECANPAY for the peer's second-level signature) -/
def Close.tapWitness (c : Close) (s : Spend) (expiry : Nat) (preimage : Item) : List Item :=
  let mine := Item.sig (c.signer s) sigHashDefault .final
  let peerHtlc := Item.sig c.remoteHtlcKey sigHashSingleAnyoneCanPay (c.peerSigOver s expiry)
  match s with
  | .htlcTimeoutTx => [peerHtlc, mine]
  | .htlcSuccessTx => [peerHtlc, mine, preimage]
  | .htlcClaim => [mine, preimage]
  | _ => [mine]

def Close.tapCtx (c : Close) (s : Spend) (expiry : Nat) (agg : Bool := false) : Ctx :=
  { version := 2, sequence := c.sequence s, lockTime := c.lockTime s expiry, tapscript := true,
    aggregated := agg }

/-- script-path spends only; the key-path spends (`tapScript = none`: MuSig2
    funding output, anchors) are outside the symbolic model (real engine only). -/
def Close.tapValid (c : Close) (s : Spend) (expiry : Nat) (payHash preimage : Item)
    (agg : Bool := false) : Bool :=
  match c.tapScript s expiry payHash with
  | some sc => run (c.tapCtx s expiry agg) sc (c.tapWitness s expiry preimage)
  | none => false

/-! ### value claimable (dust rule of `HtlcIsDust` / `extractHtlcResolutions`) -/

structure Weights where
  timeout : Nat := 663
  success : Nat := 703
  timeoutConf : Nat := 666
  successConf : Nat := 706
deriving Repr, Inhabited

/-- second-level fee of an HTLC on a commitment: `incoming` from the point of
    view of the node, `localCommit` = on its own commitment. -/
def htlcFee (w : Weights) (ct : ChanType) (feePerKw : Nat) (incoming localCommit : Bool) : Nat :=
  if ct.zeroFee || ct.taproot then 0
  else
    let success := incoming == localCommit   -- incoming&local, or outgoing&remote ⇒ success tx
    let wt := if ct.anchors then (if success then w.successConf else w.timeoutConf)
              else (if success then w.success else w.timeout)
    feePerKw * wt / 1000

/-- an HTLC has an output on the commitment iff `amt - fee ≥ dustLimit` (sat). -/
def htlcHasOutput (w : Weights) (ct : ChanType) (feePerKw dust : Nat) (incoming localCommit : Bool)
    (amtMsat : Nat) : Bool :=
  let amt := amtMsat / 1000
  let fee := htlcFee w ct feePerKw incoming localCommit
  decide (fee ≤ amt ∧ dust ≤ amt - fee)

/-! ### an abstract commitment and the value our resolutions cover -/

structure Htlc where
  incoming : Bool
  amtMsat : Nat
deriving Repr, Inhabited

/-- A commitment from our point of view: our balance on it (msat, after fees),
    its fee rate, the dust limit of its owner and the HTLCs it carries. -/
structure Commitment where
  localCommit : Bool
  ownMsat : Nat
  feePerKw : Nat
  dust : Nat
  htlcs : List Htlc
deriving Repr, Inhabited

def sumMap (f : Htlc → Nat) : List Htlc → Nat
  | [] => 0
  | h :: t => f h + sumMap f t

/-- value (sat) of our to-self output, claimed by the CommitResolution; trimmed below dust -/
def Commitment.selfClaim (cm : Commitment) : Nat :=
  if cm.dust ≤ cm.ownMsat / 1000 then cm.ownMsat / 1000 else 0

/-- value (sat) claimed by the resolution of one HTLC (extractHtlcResolutions skips dust HTLCs) -/
def Commitment.htlcClaim (w : Weights) (ct : ChanType) (cm : Commitment) (h : Htlc) : Nat :=
  if htlcHasOutput w ct cm.feePerKw cm.dust h.incoming cm.localCommit h.amtMsat
  then h.amtMsat / 1000 else 0

/-- total value (sat) of the commitment outputs covered by our resolutions -/
def Commitment.claimable (w : Weights) (ct : ChanType) (cm : Commitment) : Nat :=
  cm.selfClaim + sumMap (cm.htlcClaim w ct) cm.htlcs

/-- what we are owed: balance plus every HTLC (offered ones time out back to us,
    received ones are claimed with the preimage), in msat -/
def Commitment.dueMsat (cm : Commitment) : Nat :=
  cm.ownMsat + sumMap (·.amtMsat) cm.htlcs

/-- the most (sat) that can be lost to dust trimming and msat truncation -/
def Commitment.lossBound (w : Weights) (ct : ChanType) (cm : Commitment) : Nat :=
  max 1 cm.dust +
    sumMap (fun h => max 1 (cm.dust + htlcFee w ct cm.feePerKw h.incoming cm.localCommit)) cm.htlcs

end LndModel.C05
