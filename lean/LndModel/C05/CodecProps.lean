/-
C05 property theorems, part 4: **the contract court's store gives back the
resolution set, byte level** (`LogContractResolutions` / `FetchContractResolutions`
as modelled in `Codec.lean`, compared with the real bytes on every run).

* `sign_descriptor_roundtrip`, `tx_roundtrip`: `ReadSignDescriptor ∘ WriteSignDescriptor`
  keeps exactly key locator, key, tweaks, witness script, output and sighash type;
  `MsgTx.Deserialize ∘ MsgTx.Serialize = id` - for every value in the Go types' ranges
  within the size limits the readers enforce (33-byte key, 32-byte tweaks, 500-byte
  witness script, 80-byte pkScript, 200-byte signature).
* `fetch_log`: for every well-formed resolution set (any number of incoming / outgoing
  HTLC resolutions, with or without second-level transactions and sign details, with or
  without commit / anchor resolution) `fetchRes (logRes r) = some r.reloaded`.
* `reload_keeps_transactions`: the pre-signed second-level transactions (version,
  inputs, sequence, witness, outputs, nLockTime), preimages, CSV delays, expiries, claim
  outpoints, maturity delay and outpoints come back unchanged.
* `reload_restores_commit_ctrl`, `reload_restores_anchor_tweak`: with the taproot briefcase
  written, the commit sweep's control block and the anchor's tap tweak come back; without
  it every descriptor comes back as `SD.codec` (`reload_without_aux`).
* `codec_abstracts`, `persist_commit_abstracts`, `persist_anchor_abstracts`: under any digest
  abstraction of byte strings (0 = empty) the byte-level descriptor that comes back is the
  field-level `persist` of `Persist.lean`, on which the round-5 theorems (`gen_reload_eq`,
  `spend_valid_after_reload`, ...) are stated.
* `htlc_ctrl_lookup` : an HTLC resolution's control block is found again under its resolver
  id when no other resolution files an entry under that id; `shared_resolver_id_loses_ctrl`
  shows the condition is needed.  (`_partial`: the closed form "every HTLC descriptor of the
  reloaded set = persist" for whole lists under pairwise distinct ids is NOT proved; the
  driver compares `ResSet.reloaded` with the real reload on every run instead.)
-/
import LndModel.C05.CodecRes
import LndModel.C05.Persist

namespace LndModel.C05.Codec

theorem sign_descriptor_roundtrip (d : SD) (h : d.WF) (rest : Bytes) :
    readSD (encSD d ++ rest) = some (d.codec, rest) := readSD_enc d h rest

theorem tx_roundtrip (t : Tx) (h : t.WF) (rest : Bytes) :
    readTx (encTx t ++ rest) = some (t, rest) := readTx_enc t h rest

/-- **fetch_log**: FetchContractResolutions ∘ LogContractResolutions. -/
theorem fetch_log (r : ResSet) (h : r.WF) : fetchRes (logRes r) = some r.reloaded := by
  have h1 := readResolutions_enc r h []
  have h2 := attachIn_enc r.incoming h.ins (encDetailsList (r.outgoing.map (·.details)))
  have h3 := attachOut_enc r.outgoing h.outs []
  simp only [List.append_nil] at h1 h3
  unfold fetchRes logRes
  simp only [h1, encAllDetails, encDetailsList_append, h2, h3]
  cases ha : r.anchor with
  | none => simp [ResSet.reloaded, ResSet.auxWritten, ha, stripped_eq]
  | some a =>
    have h4 := readAnchorRes_enc a (h.anchor a ha) []
    simp only [List.append_nil] at h4
    simp only [Option.map_some, h4]
    cases hw : r.auxWritten <;> simp [ResSet.reloaded, hw, stripped_eq, ha]

/-! ### what the property needs of the reload -/

/-- **reload_keeps_transactions**: the pre-signed second-level transactions and every
    scalar of the HTLC / commit / anchor resolutions come back unchanged. -/
theorem reload_keeps_transactions (r : ResSet) :
    r.reloaded.commitHash = r.commitHash ∧
    r.reloaded.incoming.map (fun i => (i.preimage, i.tx, i.csv, i.claim)) =
      r.incoming.map (fun i => (i.preimage, i.tx, i.csv, i.claim)) ∧
    r.reloaded.outgoing.map (fun o => (o.expiry, o.tx, o.csv, o.claim)) =
      r.outgoing.map (fun o => (o.expiry, o.tx, o.csv, o.claim)) ∧
    r.reloaded.commit.map (fun c => (c.op, c.maturity)) = r.commit.map (fun c => (c.op, c.maturity)) ∧
    r.reloaded.anchor.map (·.op) = r.anchor.map (·.op) := by
  have hin : ∀ a (l : List InRes), (l.map (InRes.restore a)).map (fun i => (i.preimage, i.tx, i.csv, i.claim)) =
      l.map (fun i => (i.preimage, i.tx, i.csv, i.claim)) := by
    intro a l
    induction l with
    | nil => rfl
    | cons x t ih =>
      simp only [List.map_cons, ih]
      congr 1
      unfold InRes.restore
      cases x.tx <;> rfl
  have hout : ∀ a (l : List OutRes), (l.map (OutRes.restore a)).map (fun o => (o.expiry, o.tx, o.csv, o.claim)) =
      l.map (fun o => (o.expiry, o.tx, o.csv, o.claim)) := by
    intro a l
    induction l with
    | nil => rfl
    | cons x t ih =>
      simp only [List.map_cons, ih]
      congr 1
      unfold OutRes.restore
      cases x.tx <;> rfl
  unfold ResSet.reloaded
  cases r.auxWritten
  · simp [ResSet.stripped, List.map_map, Function.comp_def, Option.map_map]
  · simp only [if_true, restoreAux, hin, hout]
    simp [ResSet.stripped, List.map_map, Function.comp_def, Option.map_map]

/-- the signature data of the second-level transactions: the peer's signature and its
    sighash type survive the reload -/
theorem reload_keeps_peer_sigs (r : ResSet) (h : r.auxWritten = false) :
    r.reloaded.incoming.map (fun i => i.details.map fun d => (d.sigHashType, d.peerSig)) =
      r.incoming.map (fun i => i.details.map fun d => (d.sigHashType, d.peerSig)) := by
  simp [ResSet.reloaded, h, ResSet.stripped, List.map_map, Function.comp_def, Option.map_map]

theorem reload_without_aux (r : ResSet) (h : r.auxWritten = false) : r.reloaded = r.stripped := by
  simp [ResSet.reloaded, h]

theorem reload_restores_commit_ctrl (r : ResSet) (h : r.auxWritten = true) (c : CommitRes)
    (hc : r.commit = some c) :
    r.reloaded.commit = some { c with sd := { c.sd.codec with ctrl := c.sd.ctrl } } := by
  simp [ResSet.reloaded, h, restoreAux, ResSet.stripped, auxOf, hc]

theorem reload_restores_anchor_tweak (r : ResSet) (h : r.auxWritten = true) (a : AnchorRes)
    (ha : r.anchor = some a) :
    r.reloaded.anchor = some { a with sd := { a.sd.codec with tapTweak := a.sd.tapTweak } } := by
  simp [ResSet.reloaded, h, restoreAux, ResSet.stripped, auxOf, ha]

/-! ### the Go map of control blocks -/

theorem get_single (k : OutPoint) (v : Bytes) : CtrlMap.get [(k, v)] k = v := by
  simp [CtrlMap.get]

/-- an entry is found again when no later entry uses its key -/
theorem get_append_of_not_mem (m₁ m₂ : CtrlMap) (k : OutPoint)
    (h : ∀ e ∈ m₂, e.1 ≠ k) : CtrlMap.get (m₁ ++ m₂) k = CtrlMap.get m₁ k := by
  unfold CtrlMap.get
  rw [List.reverse_append, List.find?_append]
  have : m₂.reverse.find? (fun e => e.1 == k) = none := by
    rw [List.find?_eq_none]
    intro e he
    have := h e (List.mem_reverse.mp he)
    simpa using this
  simp [this]

theorem get_append_right (m₁ m₂ : CtrlMap) (k : OutPoint) (v : Bytes) :
    CtrlMap.get (m₁ ++ m₂ ++ [(k, v)]) k = v := by
  simp [CtrlMap.get]

/-- **htlc_ctrl_lookup**: the entry an HTLC resolution files is found again under its resolver
    id, whatever else is in the map, provided no entry filed after it uses the same id. -/
theorem htlc_ctrl_lookup (before after : CtrlMap) (k : OutPoint) (v : Bytes)
    (h : ∀ e ∈ after, e.1 ≠ k) : CtrlMap.get (before ++ [(k, v)] ++ after) k = v := by
  rw [get_append_of_not_mem _ _ _ h]
  simpa using get_append_right before [] k v

/-- **shared_resolver_id_loses_ctrl**: two resolutions filed under one id - the first one's
    control block is gone (Go map overwrite), so distinct ids are necessary. -/
theorem shared_resolver_id_loses_ctrl (k : OutPoint) (v w : Bytes) (hne : v ≠ w) :
    CtrlMap.get ([(k, v)] ++ [(k, w)]) k ≠ v := by
  simp [CtrlMap.get]
  exact fun h => hne h.symm

/-! ### abstraction to the field-level model of `Persist.lean` -/

/-- a digest of byte strings: 0 exactly for the empty string -/
structure Digest where
  dg : Bytes → Nat
  keyOf : Bytes → LndModel.C04.Script.Key
  zero : dg [] = 0

def SD.abs (D : Digest) (d : SD) : LndModel.C05.SignDesc :=
  { fam := d.fam, idx := d.idx, key := d.key.map D.keyOf, single := D.dg d.single, double := D.dg d.double,
    tapTweak := D.dg d.tapTweak, wscript := D.dg d.wscript, method := d.method, outVal := d.outVal,
    outPk := D.dg d.outPk, hashType := d.hashType, ctrl := D.dg d.ctrl, inputIndex := d.inputIndex }

/-- the byte-level `ReadSignDescriptor ∘ WriteSignDescriptor` is the field-level `SignDesc.codec` -/
theorem codec_abstracts (D : Digest) (d : SD) : d.codec.abs D = (d.abs D).codec := by
  simp [SD.codec, SD.abs, SignDesc.codec, D.zero]

theorem persist_commit_abstracts (D : Digest) (d : SD) (aux : Bool) :
    (if aux then { d.codec with ctrl := d.ctrl } else d.codec).abs D = persist aux .commit (d.abs D) := by
  cases aux <;> simp [SD.codec, SD.abs, SignDesc.codec, persist, D.zero]

theorem persist_anchor_abstracts (D : Digest) (d : SD) (aux : Bool) :
    (if aux then { d.codec with tapTweak := d.tapTweak } else d.codec).abs D = persist aux .anchor (d.abs D) := by
  cases aux <;> simp [SD.codec, SD.abs, SignDesc.codec, persist, D.zero]

/-! ### non-vacuity -/

def exSD : SD :=
  { fam := 3, idx := 0xffffffff, key := some (2 :: List.replicate 32 7), single := List.replicate 32 1,
    wscript := [0x51], outVal := 100000, outPk := 0x51 :: 0x20 :: List.replicate 32 9, hashType := 1,
    ctrl := [0xc0, 1], method := 3, tapTweak := [5] }

def exTx : Tx :=
  { version := 2, lockTime := 700100,
    ins := [{ prev := ⟨List.replicate 32 4, 1⟩, seq := 1, witness := [[], [1, 2, 3]] }],
    outs := [⟨99000, [0, 0x14]⟩] }

theorem exSD_wf : exSD.WF := by
  refine ⟨by decide, by decide, ?_, by decide, by decide, Or.inr rfl, by decide, by decide, by decide, by decide⟩
  intro k hk
  simp only [exSD, Option.some.injEq] at hk
  subst hk
  rfl

/-- a concrete descriptor: method, control block and tap tweak do not survive the codec -/
example : readSD (encSD exSD) = some ({ exSD with ctrl := [], method := 0, tapTweak := [] }, []) := by
  have := sign_descriptor_roundtrip exSD exSD_wf []
  simpa [SD.codec, exSD] using this

theorem exTx_wf : exTx.WF where
  version := by decide
  lock := by decide
  some := by decide
  nIns := by decide
  nOuts := by decide
  ins := by
    intro i hi
    simp only [exTx, List.mem_singleton] at hi
    subst hi
    refine ⟨⟨by decide, by decide⟩, by decide, by decide, by decide, ?_⟩
    intro x hx
    simp only [List.mem_cons, List.not_mem_nil, or_false] at hx
    rcases hx with rfl | rfl <;> decide
  outs := by
    intro o ho
    simp only [exTx, List.mem_singleton] at ho
    subst ho
    exact ⟨by decide, by decide⟩

/-- a concrete witness transaction (two witness items, one empty) survives byte for byte -/
example : readTx (encTx exTx) = some (exTx, []) := by
  have := tx_roundtrip exTx exTx_wf []
  simpa using this

def exSet : ResSet :=
  { commitHash := List.replicate 32 0, commit := some ⟨⟨List.replicate 32 4, 0⟩, exSD, 144⟩,
    outgoing := [{ expiry := 700100, tx := some exTx, csv := 144, claim := ⟨List.replicate 32 8, 0⟩, sd := exSD }] }

theorem exSet_wf : exSet.WF where
  hash := by decide
  commit := by
    intro c hc
    simp only [exSet, Option.some.injEq] at hc
    subst hc
    exact ⟨⟨by decide, by decide⟩, exSD_wf, by decide⟩
  nIn := by decide
  nOut := by decide
  ins := by intro i hi; simp [exSet] at hi
  outs := by
    intro o ho
    simp only [exSet, List.mem_singleton] at ho
    subst ho
    refine ⟨by decide, ?_, by decide, ⟨by decide, by decide⟩, exSD_wf, ?_⟩
    · intro t ht
      simp only [Option.some.injEq] at ht
      subst ht
      exact exTx_wf
    · intro d hd; simp at hd
  anchor := by intro a ha; simp [exSet] at ha

/-- a concrete set with a commit resolution and one outgoing second-level resolution:
    the hypotheses of `fetch_log` are satisfiable, the transaction comes back, the sign
    method does not -/
example : fetchRes (logRes exSet) = some exSet.reloaded := fetch_log exSet exSet_wf

example : exSet.reloaded.outgoing.map (·.tx) = [some exTx] ∧
    exSet.reloaded.commit.map (·.sd.method) = some 0 := by
  simp [ResSet.reloaded, ResSet.auxWritten, exSet, ResSet.stripped, SD.codec]

end LndModel.C05.Codec
