/-
C05 property theorems, part 3: **value accounting over the commitment
construction of the C01 model** (`LndModel.C01.buildCommit` = lnd's
createUnsignedCommitmentTx / CreateCommitTx as modelled and tied to the code by
check C01).

For every commitment that construction can build - on the node's own chain
(`.loc`) or on the peer's chain (`.rem`, i.e. the peer's current or pending
commitment) - the outputs the node's resolutions claim are: its own balance
output (to_local on `.loc`, to_remote on `.rem`) and every HTLC output (offered
ones time out back to it, received ones are claimed with the preimage).

* `claimed_exact`: the claimed total (sat) is the node's balance if not below
  the owner's dust limit, plus the sat amount of every non-trimmed HTLC.
* `claimed_accounting`: exact identity in msat,
    balance + Σ HTLCs = 1000·claimed + 1000·trimmed + truncation,
  with `trimmed` = what dust trimming removes and `truncation` < 1 sat per item.
* `buildCommit_accounting`: the same for a whole `buildCommit` result, fee
  included:  balance-before-fee + Σ HTLCs
      = 1000·claimed + commitment fee paid by the node + 1000·trimmed + truncation.
* `buildCommit_fee`: what the node pays is the commitment fee iff it is the
  opener (its whole balance if it cannot afford the fee), else nothing.
* `claimable_is_claimed`: the abstract `Commitment.claimable` which the monitor
  clause `value-total` compares the real resolutions with IS the claimed total
  of the C01 construction.
-/
import LndModel.C01.Model
import LndModel.C05.Lemmas

namespace LndModel.C05.Value
open LndModel.C01

/-- is an output of the commitment on chain `c` (owner's perspective) claimed by
    one of OUR resolutions? -/
def mine (c : Chain) (k : OKind) : Bool :=
  match c, k with
  | .loc, .toLocal => true      -- CommitResolution of NewLocalForceCloseSummary
  | .rem, .toRemote => true     -- CommitResolution of NewUnilateralCloseSummary
  | _, .offered => true         -- HtlcResolutions (timeout / claim)
  | _, .received => true
  | _, _ => false

/-- total value (sat) of the outputs our resolutions claim -/
def claimedTotal (c : Chain) (os : List Out) : Nat :=
  sumBy (fun o => if mine c o.kind then o.value else 0) os

/-- sat value an HTLC contributes: nothing if trimmed -/
def htlcSat (h : C01.Htlc) : Nat := if h.dust then 0 else h.amt / 1000

/-- sat value of our balance output: nothing if below the owner's dust limit -/
def selfSat (dust our : Nat) : Nat := if dust ≤ our / 1000 then our / 1000 else 0

/-- what trimming removes (sat) -/
def trimmedSat (dust our : Nat) (hs : List C01.Htlc) : Nat :=
  (if dust ≤ our / 1000 then 0 else our / 1000) +
    sumBy (fun h => if h.dust then h.amt / 1000 else 0) hs

/-- sub-satoshi remainders (msat) -/
def truncMsat (our : Nat) (hs : List C01.Htlc) : Nat := our % 1000 + sumBy (fun h => h.amt % 1000) hs

theorem sumBy_append {α : Type} (f : α → Nat) (a b : List α) :
    sumBy f (a ++ b) = sumBy f a + sumBy f b := by
  induction a with
  | nil => simp [sumBy]
  | cons x t ih => simp [sumBy, ih]; omega

theorem claimedTotal_append (c : Chain) (a b : List Out) :
    claimedTotal c (a ++ b) = claimedTotal c a + claimedTotal c b := sumBy_append _ a b

theorem claimed_htlcOuts (c : Chain) (k : OKind) (hk : k = .offered ∨ k = .received) (hs : List C01.Htlc) :
    claimedTotal c (htlcOuts k hs) = sumBy htlcSat hs := by
  induction hs with
  | nil => simp [htlcOuts, claimedTotal, sumBy]
  | cons h t ih =>
    unfold htlcOuts claimedTotal at *
    by_cases hd : h.dust = true
    · simp [List.filter, hd, sumBy, htlcSat] at *
      exact ih
    · have hd' : h.dust = false := by simpa using hd
      have hm : mine c k = true := by rcases hk with rfl | rfl <;> cases c <;> rfl
      simp [List.filter, hd', sumBy, htlcSat, hm] at *
      exact ih

/-- **claimed_exact**: on either chain the claimed total is our balance (unless
    trimmed) plus every non-trimmed HTLC. -/
theorem claimed_exact (cfg : Cfg) (c : Chain) (our their : Nat) (outg inc : List C01.Htlc) :
    claimedTotal c (commitOuts cfg c our their outg inc) =
      selfSat (cfg.dust c) our + sumBy htlcSat (outg ++ inc) := by
  cases c
  · simp only [commitOuts, buildOuts, claimedTotal_append, sumBy_append,
      claimed_htlcOuts _ _ (Or.inl rfl), claimed_htlcOuts _ _ (Or.inr rfl), Cfg.dust, selfSat]
    have e1 : ∀ (b : Bool) (v : Nat), claimedTotal .loc (if b then [⟨v, .toLocal, 0, 0⟩] else [])
        = if b then v else 0 := by intro b v; cases b <;> simp [claimedTotal, sumBy, mine]
    have e2 : ∀ (b : Bool) (v : Nat) (k : OKind), (k = .toRemote ∨ k = .anchorLocal ∨ k = .anchorRemote) →
        claimedTotal .loc (if b then [⟨v, k, 0, 0⟩] else []) = 0 := by
      intro b v k hk
      rcases hk with rfl | rfl | rfl <;> cases b <;> simp [claimedTotal, sumBy, mine]
    rw [e1, e2 _ _ _ (Or.inl rfl), e2 _ _ _ (Or.inr (Or.inl rfl)), e2 _ _ _ (Or.inr (Or.inr rfl))]
    by_cases h : cfg.dustL ≤ our / 1000 <;> simp [h] <;> omega
  · simp only [commitOuts, buildOuts, claimedTotal_append, sumBy_append,
      claimed_htlcOuts _ _ (Or.inl rfl), claimed_htlcOuts _ _ (Or.inr rfl), Cfg.dust, selfSat]
    have e1 : ∀ (b : Bool) (v : Nat), claimedTotal .rem (if b then [⟨v, .toRemote, 0, 0⟩] else [])
        = if b then v else 0 := by intro b v; cases b <;> simp [claimedTotal, sumBy, mine]
    have e2 : ∀ (b : Bool) (v : Nat) (k : OKind), (k = .toLocal ∨ k = .anchorLocal ∨ k = .anchorRemote) →
        claimedTotal .rem (if b then [⟨v, k, 0, 0⟩] else []) = 0 := by
      intro b v k hk
      rcases hk with rfl | rfl | rfl <;> cases b <;> simp [claimedTotal, sumBy, mine]
    rw [e1, e2 _ _ _ (Or.inl rfl), e2 _ _ _ (Or.inr (Or.inl rfl)), e2 _ _ _ (Or.inr (Or.inr rfl))]
    by_cases h : cfg.dustR ≤ our / 1000 <;> simp [h] <;> omega

theorem htlc_split (hs : List C01.Htlc) :
    sumBy (·.amt) hs =
      1000 * sumBy htlcSat hs + 1000 * sumBy (fun h => if h.dust then h.amt / 1000 else 0) hs +
        sumBy (fun h => h.amt % 1000) hs := by
  induction hs with
  | nil => simp [sumBy]
  | cons h t ih =>
    simp only [sumBy, htlcSat]
    cases h.dust <;> simp <;> omega

/-- **claimed_accounting**: balance plus all HTLCs (msat) = 1000 × claimed
    + 1000 × (what dust trimming removes) + sub-satoshi remainders. -/
theorem claimed_accounting (cfg : Cfg) (c : Chain) (our their : Nat) (outg inc : List C01.Htlc) :
    our + sumBy (·.amt) (outg ++ inc) =
      1000 * claimedTotal c (commitOuts cfg c our their outg inc) +
      1000 * trimmedSat (cfg.dust c) our (outg ++ inc) + truncMsat our (outg ++ inc) := by
  rw [claimed_exact, htlc_split]
  unfold selfSat trimmedSat truncMsat
  by_cases h : cfg.dust c ≤ our / 1000 <;> simp [h] <;> omega

/-- the remainders are below one satoshi per item -/
theorem trunc_small (our : Nat) (hs : List C01.Htlc) : truncMsat our hs < 1000 * (1 + hs.length) := by
  unfold truncMsat
  have : sumBy (fun h => h.amt % 1000) hs ≤ 999 * hs.length := by
    induction hs with
    | nil => simp [sumBy]
    | cons h t ih => simp only [sumBy, List.length_cons]; omega
  omega

/-! ### whenever there is something to claim, our anchor exists

The contract court writes the taproot briefcase (control blocks, tap tweaks)
only together with an anchor resolution (`LogContractResolutions`), and
`PersistProps.taproot_needs_aux` shows nothing taproot can be signed after a
reload without it.  On anchor channels the commitment construction guarantees
the anchor whenever any of our resolutions has an output to claim. -/

def ourAnchor (c : Chain) : OKind :=
  match c with
  | .loc => .anchorLocal
  | .rem => .anchorRemote

theorem htlcSat_pos_untrimmed (hs : List C01.Htlc) (h : 0 < sumBy htlcSat hs) :
    0 < (hs.filter (fun h => !h.dust)).length := by
  induction hs with
  | nil => simp [sumBy] at h
  | cons x t ih =>
    by_cases hd : x.dust = true
    · simp only [sumBy, htlcSat, hd, if_true, Nat.zero_add] at h
      simp [List.filter, hd, ih h]
    · have hd' : x.dust = false := by simpa using hd
      simp [List.filter, hd']

theorem claimed_implies_anchor (cfg : Cfg) (c : Chain) (our their : Nat) (outg inc : List C01.Htlc)
    (ha : cfg.anchors = true)
    (h : 0 < claimedTotal c (commitOuts cfg c our their outg inc)) :
    (⟨anchorSize, ourAnchor c, 0, 0⟩ : Out) ∈ commitOuts cfg c our their outg inc := by
  rw [claimed_exact, sumBy_append] at h
  have hcase : (cfg.dust c ≤ our / 1000) ∨
      0 < (outg.filter (fun h => !h.dust)).length + (inc.filter (fun h => !h.dust)).length := by
    by_cases hs : cfg.dust c ≤ our / 1000
    · exact Or.inl hs
    · right
      simp only [selfSat, hs, if_false, Nat.zero_add] at h
      rcases Nat.eq_zero_or_pos (sumBy htlcSat outg) with h0 | h0
      · have := htlcSat_pos_untrimmed inc (by omega); omega
      · have := htlcSat_pos_untrimmed outg h0; omega
  cases c
  · simp only [commitOuts, buildOuts, ourAnchor, List.mem_append, ha, Bool.true_and]
    left; left; left; right
    rcases hcase with hs | hn
    · have : decide (our / 1000 ≥ cfg.dustL) = true := by simpa [Cfg.dust] using hs
      simp [this]
    · have : decide ((outg.filter (fun h => !h.dust)).length +
          (inc.filter (fun h => !h.dust)).length > 0) = true := by simpa using hn
      simp [this]
  · simp only [commitOuts, buildOuts, ourAnchor, List.mem_append, ha, Bool.true_and]
    left; left; right
    rcases hcase with hs | hn
    · have : decide (our / 1000 ≥ cfg.dustR) = true := by simpa [Cfg.dust] using hs
      simp [this]
    · have : decide ((inc.filter (fun h => !h.dust)).length +
          (outg.filter (fun h => !h.dust)).length > 0) = true := by
        have : 0 < (inc.filter (fun h => !h.dust)).length + (outg.filter (fun h => !h.dust)).length := by
          omega
        simpa using this
      simp [this]

/-! ### inversion of `C01.buildCommit` -/

def outgOf (cfg : Cfg) (c : Chain) (r : ViewResult) : List C01.Htlc := r.liveL.map (htlcOf cfg false c r.feePerKw)
def incOf (cfg : Cfg) (c : Chain) (r : ViewResult) : List C01.Htlc := r.liveR.map (htlcOf cfg true c r.feePerKw)
def feeOf (cfg : Cfg) (c : Chain) (r : ViewResult) : Nat :=
  feeForWeight r.feePerKw (commitWeight cfg + htlcWeight *
    (((outgOf cfg c r).filter (fun h => !h.dust)).length + ((incOf cfg c r).filter (fun h => !h.dust)).length))
def ourOf (cfg : Cfg) (c : Chain) (r : ViewResult) : Nat :=
  if cfg.initiator then (if feeOf cfg c r > r.our / 1000 then 0 else r.our - 1000 * feeOf cfg c r) else r.our
def theirOf (cfg : Cfg) (c : Chain) (r : ViewResult) : Nat :=
  if cfg.initiator then r.their else (if feeOf cfg c r > r.their / 1000 then 0 else r.their - 1000 * feeOf cfg c r)

theorem buildCommit_unfold (cfg : Cfg) (c : Chain) (tip : Commit) (r : ViewResult) (a b d e : Nat) :
    buildCommit cfg c tip r a b d e =
      (if (commitOuts cfg c (ourOf cfg c r) (theirOf cfg c r) (outgOf cfg c r) (incOf cfg c r)).isEmpty
       then .error .txSanity else
       if outsTotal (commitOuts cfg c (ourOf cfg c r) (theirOf cfg c r) (outgOf cfg c r) (incOf cfg c r))
            + feeOf cfg c r > cfg.capacity then .error .overCapacity else
       .ok { height := tip.height + 1, our := ourOf cfg c r, their := theirOf cfg c r, fee := feeOf cfg c r,
             feePerKw := r.feePerKw, ourMsg := a, theirMsg := d, ourHtlc := b, theirHtlc := e,
             htlcs := outgOf cfg c r ++ incOf cfg c r,
             outs := commitOuts cfg c (ourOf cfg c r) (theirOf cfg c r) (outgOf cfg c r) (incOf cfg c r) }) := rfl

theorem buildCommit_ok (cfg : Cfg) (c : Chain) (tip : Commit) (r : ViewResult)
    (a b d e : Nat) (cm : Commit) (h : buildCommit cfg c tip r a b d e = .ok cm) :
    cm.fee = feeOf cfg c r ∧ cm.our = ourOf cfg c r ∧ cm.their = theirOf cfg c r ∧
    cm.feePerKw = r.feePerKw ∧ cm.htlcs = outgOf cfg c r ++ incOf cfg c r ∧
    cm.outs = commitOuts cfg c (ourOf cfg c r) (theirOf cfg c r) (outgOf cfg c r) (incOf cfg c r) := by
  rw [buildCommit_unfold] at h
  split at h
  · simp at h
  · split at h
    · simp at h
    · simp only [Except.ok.injEq] at h
      subst h
      exact ⟨rfl, rfl, rfl, rfl, rfl, rfl⟩

/-- msat the node pays for the commitment fee in `buildCommit` -/
def feePaidMsat (cfg : Cfg) (rOur commitFee : Nat) : Nat :=
  if cfg.initiator then (if commitFee > rOur / 1000 then rOur else 1000 * commitFee) else 0

/-- **buildCommit_accounting**: for every commitment the C01 construction builds
    from an evaluated view `r` (own chain or the peer's chain, i.e. also the
    peer's pending commitment), what the node is due - its balance before the
    commitment fee plus every live HTLC - equals 1000 × the value its resolutions
    claim + the commitment fee it pays + 1000 × trimmed dust + truncation. -/
theorem buildCommit_accounting (cfg : Cfg) (c : Chain) (tip : Commit) (r : ViewResult)
    (a b d e : Nat) (cm : Commit) (h : buildCommit cfg c tip r a b d e = .ok cm) :
    r.our + sumBy (·.amt) cm.htlcs =
      1000 * claimedTotal c cm.outs + feePaidMsat cfg r.our cm.fee +
      1000 * trimmedSat (cfg.dust c) cm.our cm.htlcs + truncMsat cm.our cm.htlcs := by
  obtain ⟨hf, ho, ht, _, hh, hout⟩ := buildCommit_ok cfg c tip r a b d e cm h
  have hacc := claimed_accounting cfg c cm.our cm.their (outgOf cfg c r) (incOf cfg c r)
  rw [hh, hout, ← ho, ← ht]
  have hfee : cm.our + feePaidMsat cfg r.our cm.fee = r.our := by
    rw [ho, hf]; unfold feePaidMsat ourOf
    by_cases hi : cfg.initiator = true
    · simp only [hi, if_true]; split <;> omega
    · have hi' : cfg.initiator = false := by simpa using hi
      simp [hi']
  omega

/-- **buildCommit_fee**: the fee recorded on the commitment is the weight-based
    fee for the untrimmed HTLCs, and only the opener's balance is charged. -/
theorem buildCommit_fee (cfg : Cfg) (c : Chain) (tip : Commit) (r : ViewResult)
    (a b d e : Nat) (cm : Commit) (h : buildCommit cfg c tip r a b d e = .ok cm) :
    cm.fee = feeForWeight cm.feePerKw (commitWeight cfg + htlcWeight *
      (cm.htlcs.filter (fun h => !h.dust)).length) ∧
    cm.our + feePaidMsat cfg r.our cm.fee = r.our ∧
    (cfg.initiator = false → cm.our = r.our) := by
  obtain ⟨hf, ho, _, hk, hh, _⟩ := buildCommit_ok cfg c tip r a b d e cm h
  refine ⟨?_, ?_, ?_⟩
  · rw [hf, hk, hh, List.filter_append, List.length_append]; rfl
  · rw [ho, hf]; unfold feePaidMsat ourOf
    by_cases hi : cfg.initiator = true
    · simp only [hi, if_true]; split <;> omega
    · have hi' : cfg.initiator = false := by simpa using hi
      simp [hi']
  · intro hi; rw [ho]; unfold ourOf; simp [hi]

/-! ### the abstract commitment of the monitor is the C01 construction -/

def ctOf (cfg : Cfg) : ChanType :=
  { anchors := cfg.anchors, zeroFee := cfg.zeroFee, taproot := cfg.taproot }

/-- the second-level fee `HtlcIsDust` uses (C01 model) -/
def c01Fee (cfg : Cfg) (incoming : Bool) (c : Chain) (f : Nat) : Nat :=
  match incoming, c with
  | true, .loc => htlcSuccessFee cfg f
  | true, .rem => htlcTimeoutFee cfg f
  | false, .loc => htlcTimeoutFee cfg f
  | false, .rem => htlcSuccessFee cfg f

theorem htlcIsDust_eq (cfg : Cfg) (incoming : Bool) (c : Chain) (f amt dust : Nat) :
    htlcIsDust cfg incoming c f amt dust = decide (amt < dust + c01Fee cfg incoming c f) := by
  cases incoming <;> cases c <;> rfl

theorem fee_eq (cfg : Cfg) (incoming : Bool) (c : Chain) (f : Nat) :
    htlcFee {} (ctOf cfg) f incoming (c == .loc) = c01Fee cfg incoming c f := by
  have e1 : (Chain.loc == Chain.loc) = true := by decide
  have e2 : (Chain.rem == Chain.loc) = false := by decide
  cases incoming <;> cases c <;>
    simp only [htlcFee, ctOf, c01Fee, htlcSuccessFee, htlcTimeoutFee, feeForWeight, e1, e2] <;>
    by_cases hz : (cfg.zeroFee || cfg.taproot) = true <;> simp only [hz, if_true, if_false] <;>
    cases cfg.anchors <;>
    simp [htlcTimeoutWeight, htlcSuccessWeight, htlcTimeoutWeightConf, htlcSuccessWeightConf]

theorem hasOutput_iff_not_dust (cfg : Cfg) (incoming : Bool) (c : Chain) (f amtMsat dust : Nat) :
    htlcHasOutput {} (ctOf cfg) f dust incoming (c == .loc) amtMsat =
      !htlcIsDust cfg incoming c f (amtMsat / 1000) dust := by
  rw [htlcIsDust_eq]
  unfold htlcHasOutput
  rw [fee_eq]
  generalize c01Fee cfg incoming c f = fee
  by_cases hh : amtMsat / 1000 < dust + fee
  · have : ¬ (fee ≤ amtMsat / 1000 ∧ dust ≤ amtMsat / 1000 - fee) := by omega
    simp [hh, this]
  · have : fee ≤ amtMsat / 1000 ∧ dust ≤ amtMsat / 1000 - fee := by omega
    simp [hh, this]

/-- the abstract commitment the driver builds from the trace of a close -/
def abstractOf (cfg : Cfg) (c : Chain) (cm : Commit) : Commitment :=
  { localCommit := c == .loc, ownMsat := cm.our, feePerKw := cm.feePerKw, dust := cfg.dust c,
    htlcs := cm.htlcs.map fun h => ⟨h.incoming, h.amt⟩ }

theorem claim_map (cfg : Cfg) (c : Chain) (f : Nat) (inc : Bool) (l : List Entry) (cm : Commitment)
    (hc : cm.localCommit = (c == .loc)) (hf : cm.feePerKw = f) (hd : cm.dust = cfg.dust c) :
    sumMap (cm.htlcClaim {} (ctOf cfg)) ((l.map (htlcOf cfg inc c f)).map fun h => ⟨h.incoming, h.amt⟩) =
      sumBy htlcSat (l.map (htlcOf cfg inc c f)) := by
  induction l with
  | nil => simp [sumMap, sumBy]
  | cons x t ih =>
    simp only [List.map_cons, sumMap, sumBy, ih]
    congr 1
    simp only [Commitment.htlcClaim, htlcOf, htlcSat, hc, hf, hd, hasOutput_iff_not_dust]
    by_cases hx : htlcIsDust cfg inc c f (x.amt / 1000) (cfg.dust c) = true <;> simp [hx]

theorem sumMap_append (f : C05.Htlc → Nat) (a b : List C05.Htlc) :
    sumMap f (a ++ b) = sumMap f a + sumMap f b := by
  induction a with
  | nil => simp [sumMap]
  | cons x t ih => simp [sumMap, ih]; omega

/-- **claimable_is_claimed**: `Commitment.claimable` (theorem `claimable_value`,
    monitor clause `value-total`) evaluated on the abstract image of a commitment
    built by the C01 construction is the claimed total of that construction. -/
theorem claimable_is_claimed (cfg : Cfg) (c : Chain) (tip : Commit) (r : ViewResult)
    (a b d e : Nat) (cm : Commit) (h : buildCommit cfg c tip r a b d e = .ok cm) :
    (abstractOf cfg c cm).claimable {} (ctOf cfg) = claimedTotal c cm.outs := by
  obtain ⟨_, _, _, hk, hh, hout⟩ := buildCommit_ok cfg c tip r a b d e cm h
  simp only [abstractOf, Commitment.claimable]
  rw [hout, claimed_exact, hh, List.map_append, sumMap_append, sumBy_append]
  unfold outgOf incOf
  rw [claim_map cfg c r.feePerKw false r.liveL _ rfl hk rfl,
    claim_map cfg c r.feePerKw true r.liveR _ rfl hk rfl]
  simp only [Commitment.selfClaim, selfSat]
  rw [← (buildCommit_ok cfg c tip r a b d e cm h).2.1]

/-! non-vacuity: a concrete commitment of an anchor channel, opener = node, two
    HTLCs of which one is trimmed -/
def exCfg : Cfg :=
  { capacity := 1000000, initiator := true, anchors := true, zeroFee := true, taproot := false,
    dustL := 354, dustR := 354, resL := 0, resR := 0, minL := 0, minR := 0,
    maxPendL := 0, maxPendR := 0, maxAccL := 0, maxAccR := 0 }

def exView : ViewResult :=
  { our := 500000500, their := 400000000, weight := 0, feePerKw := 2500,
    liveL := [{ ty := .add, amt := 2000700, logIndex := 0 }],
    liveR := [{ ty := .add, amt := 300000, logIndex := 0, htlcIndex := 1 }] }

/-- on the peer's commitment: balance 500000 sat (we are the opener: minus the fee
    of 1124 + 172 weight at 2500 sat/kw = 3240 sat), the offered HTLC of 2000 sat
    is claimed, the received one of 300 sat is below the dust limit -/
example : ∃ cm, buildCommit exCfg .rem default exView 0 0 0 0 = .ok cm ∧
    claimedTotal .rem cm.outs = 496760 + 2000 ∧ feePaidMsat exCfg exView.our cm.fee = 3240000 ∧
    trimmedSat (exCfg.dust .rem) cm.our cm.htlcs = 300 ∧ truncMsat cm.our cm.htlcs = 500 + 700 :=
  ⟨_, rfl, by decide, by decide, by decide, by decide⟩

end LndModel.C05.Value
