/-
C05: round-trip lemmas of the byte-level codec, part 2: the resolutions
(briefcase.go encode/decode*Resolution, encode/decodeSignDetails) and the whole
bucket (LogContractResolutions / FetchContractResolutions).
-/
import LndModel.C05.CodecTx

namespace LndModel.C05.Codec

structure CommitRes.WF (c : CommitRes) : Prop where
  op : c.op.WF
  sd : c.sd.WF
  mat : c.maturity < 2 ^ 32

structure AnchorRes.WF (a : AnchorRes) : Prop where
  op : a.op.WF
  sd : a.sd.WF

structure SignDetails.WF (s : SignDetails) : Prop where
  sd : s.sd.WF
  ht : s.sigHashType < 2 ^ 32
  sig : s.peerSig.length ≤ 200

structure InRes.WF (i : InRes) : Prop where
  pre : i.preimage.length = 32
  tx : ∀ t, i.tx = some t → t.WF
  csv : i.csv < 2 ^ 32
  claim : i.claim.WF
  sd : i.sd.WF
  det : ∀ d, i.details = some d → d.WF

structure OutRes.WF (o : OutRes) : Prop where
  expiry : o.expiry < 2 ^ 32
  tx : ∀ t, o.tx = some t → t.WF
  csv : o.csv < 2 ^ 32
  claim : o.claim.WF
  sd : o.sd.WF
  det : ∀ d, o.details = some d → d.WF

structure ResSet.WF (r : ResSet) : Prop where
  hash : r.commitHash.length = 32
  commit : ∀ c, r.commit = some c → c.WF
  nIn : r.incoming.length < 2 ^ 32
  nOut : r.outgoing.length < 2 ^ 32
  ins : ∀ i ∈ r.incoming, i.WF
  outs : ∀ o ∈ r.outgoing, o.WF
  anchor : ∀ a, r.anchor = some a → a.WF

theorem readOutPoint_enc (o : OutPoint) (h : o.WF) (rest : Bytes) :
    readOutPoint (encOutPoint o ++ rest) = some (o, rest) := by
  have h1 : ∀ r, take 32 (o.hash ++ r) = some (o.hash, r) := fun r => take_append _ r 32 h.hash
  have h2 : ∀ r, readBe 4 (be 4 o.idx ++ r) = some (o.idx, r) := fun r => readBe_be 4 _ r (by have := h.idx; omega)
  simp only [readOutPoint, encOutPoint, List.append_assoc, bind_run, pure_run, h1, h2]

def CommitRes.strip (c : CommitRes) : CommitRes := { c with sd := c.sd.codec }
def AnchorRes.strip (a : AnchorRes) : AnchorRes := { a with sd := a.sd.codec }
def SignDetails.strip (d : SignDetails) : SignDetails := { d with sd := d.sd.codec }
/-- as decodeIncomingResolution returns it: the sign details live under another key -/
def InRes.bare (i : InRes) : InRes := { i with sd := i.sd.codec, details := none }
def OutRes.bare (o : OutRes) : OutRes := { o with sd := o.sd.codec, details := none }
def InRes.strip (i : InRes) : InRes := { i with sd := i.sd.codec, details := i.details.map SignDetails.strip }
def OutRes.strip (o : OutRes) : OutRes := { o with sd := o.sd.codec, details := o.details.map SignDetails.strip }

theorem readCommitRes_enc (c : CommitRes) (h : c.WF) (rest : Bytes) :
    readCommitRes (encCommitRes c ++ rest) = some (c.strip, rest) := by
  have h1 := fun r => readOutPoint_enc c.op h.op r
  have h2 := fun r => readSD_enc c.sd h.sd r
  have h3 : ∀ r, readBe 4 (be 4 c.maturity ++ r) = some (c.maturity, r) :=
    fun r => readBe_be 4 _ r (by have := h.mat; omega)
  simp only [readCommitRes, encCommitRes, List.append_assoc, bind_run, pure_run, h1, h2, h3]
  rfl

theorem readAnchorRes_enc (a : AnchorRes) (h : a.WF) (rest : Bytes) :
    readAnchorRes (encAnchorRes a ++ rest) = some (a.strip, rest) := by
  have h1 := fun r => readOutPoint_enc a.op h.op r
  have h2 := fun r => readSD_enc a.sd h.sd r
  simp only [readAnchorRes, encAnchorRes, List.append_assoc, bind_run, pure_run, h1, h2]
  rfl

theorem readOptTx_enc (t : Option Tx) (h : ∀ x, t = some x → x.WF) (rest : Bytes) :
    readOptTx (encOptTx t ++ rest) = some (t, rest) := by
  cases t with
  | none =>
    simp only [readOptTx, encOptTx, bind_run, readBool_enc, pure_run, Bool.false_eq_true, ↓reduceIte]
  | some x =>
    have h1 := fun r => readTx_enc x (h x rfl) r
    simp only [readOptTx, encOptTx, List.append_assoc, bind_run, readBool_enc, pure_run, ↓reduceIte, h1]

theorem readInRes_enc (i : InRes) (h : i.WF) (rest : Bytes) :
    readInRes (encInRes i ++ rest) = some (i.bare, rest) := by
  have h1 : ∀ r, take 32 (i.preimage ++ r) = some (i.preimage, r) := fun r => take_append _ r 32 h.pre
  have h2 := fun r => readOptTx_enc i.tx h.tx r
  have h3 : ∀ r, readBe 4 (be 4 i.csv ++ r) = some (i.csv, r) := fun r => readBe_be 4 _ r (by have := h.csv; omega)
  have h4 := fun r => readOutPoint_enc i.claim h.claim r
  have h5 := fun r => readSD_enc i.sd h.sd r
  simp only [readInRes, encInRes, List.append_assoc, bind_run, pure_run, h1, h2, h3, h4, h5]
  rfl

theorem readOutRes_enc (o : OutRes) (h : o.WF) (rest : Bytes) :
    readOutRes (encOutRes o ++ rest) = some (o.bare, rest) := by
  have h1 : ∀ r, readBe 4 (be 4 o.expiry ++ r) = some (o.expiry, r) :=
    fun r => readBe_be 4 _ r (by have := h.expiry; omega)
  have h2 := fun r => readOptTx_enc o.tx h.tx r
  have h3 : ∀ r, readBe 4 (be 4 o.csv ++ r) = some (o.csv, r) := fun r => readBe_be 4 _ r (by have := h.csv; omega)
  have h4 := fun r => readOutPoint_enc o.claim h.claim r
  have h5 := fun r => readSD_enc o.sd h.sd r
  simp only [readOutRes, encOutRes, List.append_assoc, bind_run, pure_run, h1, h2, h3, h4, h5]
  rfl

theorem readDetails_enc (d : Option SignDetails) (h : ∀ x, d = some x → x.WF) (rest : Bytes) :
    readDetails (encDetails d ++ rest) = some (d.map SignDetails.strip, rest) := by
  cases d with
  | none =>
    simp only [readDetails, encDetails, bind_run, readBool_enc, pure_run, Bool.false_eq_true, ↓reduceIte,
      Option.map_none]
  | some x =>
    have hx := h x rfl
    have h1 := fun r => readSD_enc x.sd hx.sd r
    have h2 : ∀ r, readBe 4 (be 4 x.sigHashType ++ r) = some (x.sigHashType, r) :=
      fun r => readBe_be 4 _ r (by have := hx.ht; omega)
    have h3 : ∀ r, readVarBytes 200 (varBytes x.peerSig ++ r) = some (x.peerSig, r) :=
      fun r => readVarBytes_varBytes _ r 200 hx.sig (by have := hx.sig; omega)
    simp only [readDetails, encDetails, List.append_assoc, bind_run, readBool_enc, pure_run, ↓reduceIte, h1, h2, h3,
      Option.map_some]
    rfl

theorem readOptCommit_enc (c : Option CommitRes) (h : ∀ x, c = some x → x.WF) (rest : Bytes) :
    readOptCommit (encOptCommit c ++ rest) = some (c.map CommitRes.strip, rest) := by
  cases c with
  | none =>
    simp only [readOptCommit, encOptCommit, bind_run, readBool_enc, pure_run, Bool.false_eq_true, ↓reduceIte,
      Option.map_none]
  | some x =>
    have h1 := fun r => readCommitRes_enc x (h x rfl) r
    simp only [readOptCommit, encOptCommit, List.append_assoc, bind_run, readBool_enc, pure_run, ↓reduceIte, h1,
      Option.map_some]

/-- the value under `resolutionsKey` -/
theorem readResolutions_enc (r : ResSet) (h : r.WF) (rest : Bytes) :
    readResolutions (encResolutions r ++ rest) =
      some ({ commitHash := r.commitHash, commit := r.commit.map CommitRes.strip,
              incoming := r.incoming.map InRes.bare, outgoing := r.outgoing.map OutRes.bare,
              anchor := none }, rest) := by
  have h1 : ∀ x, take 32 (r.commitHash ++ x) = some (r.commitHash, x) := fun x => take_append _ x 32 h.hash
  have h2 : ∀ x, readBe 4 (be 4 r.incoming.length ++ x) = some (r.incoming.length, x) :=
    fun x => readBe_be 4 _ x (by have := h.nIn; omega)
  have h3 : ∀ x, many readInRes r.incoming.length (encInList r.incoming ++ x) = some (r.incoming.map InRes.bare, x) :=
    fun x => many_enc_map readInRes encInRes encInList InRes.bare rfl (fun _ _ => rfl) r.incoming x
      (fun i hi y => readInRes_enc i (h.ins i hi) y)
  have h4 : ∀ x, readBe 4 (be 4 r.outgoing.length ++ x) = some (r.outgoing.length, x) :=
    fun x => readBe_be 4 _ x (by have := h.nOut; omega)
  have h5 : ∀ x, many readOutRes r.outgoing.length (encOutList r.outgoing ++ x) = some (r.outgoing.map OutRes.bare, x) :=
    fun x => many_enc_map readOutRes encOutRes encOutList OutRes.bare rfl (fun _ _ => rfl) r.outgoing x
      (fun o ho y => readOutRes_enc o (h.outs o ho) y)
  have h6 := fun x => readOptCommit_enc r.commit h.commit x
  simp only [readResolutions, encResolutions, List.append_assoc, bind_run, pure_run, h1, h2, h3, h4, h5, h6]

theorem attachIn_enc (ins : List InRes) (h : ∀ i ∈ ins, i.WF) (rest : Bytes) :
    attachIn (ins.map InRes.bare) (encDetailsList (ins.map (·.details)) ++ rest) =
      some (ins.map InRes.strip, rest) := by
  induction ins with
  | nil => simp [attachIn, encDetailsList, pure_run]
  | cons i t ih =>
    have h1 := fun r => readDetails_enc i.details (h i (by simp)).det r
    have h2 := ih (fun j hj => h j (by simp [hj]))
    simp only [List.map_cons, attachIn, encDetailsList, List.append_assoc, bind_run, h1, h2, pure_run]
    rfl

theorem attachOut_enc (outs : List OutRes) (h : ∀ o ∈ outs, o.WF) (rest : Bytes) :
    attachOut (outs.map OutRes.bare) (encDetailsList (outs.map (·.details)) ++ rest) =
      some (outs.map OutRes.strip, rest) := by
  induction outs with
  | nil => simp [attachOut, encDetailsList, pure_run]
  | cons o t ih =>
    have h1 := fun r => readDetails_enc o.details (h o (by simp)).det r
    have h2 := ih (fun j hj => h j (by simp [hj]))
    simp only [List.map_cons, attachOut, encDetailsList, List.append_assoc, bind_run, h1, h2, pure_run]
    rfl

theorem encDetailsList_append (a b : List (Option SignDetails)) :
    encDetailsList (a ++ b) = encDetailsList a ++ encDetailsList b := by
  induction a with
  | nil => rfl
  | cons x t ih => simp [encDetailsList, ih]

theorem stripped_eq (r : ResSet) :
    r.stripped = { commitHash := r.commitHash, commit := r.commit.map CommitRes.strip,
                   incoming := r.incoming.map InRes.strip, outgoing := r.outgoing.map OutRes.strip,
                   anchor := r.anchor.map AnchorRes.strip } := rfl

end LndModel.C05.Codec
