/-
C05: round-trip lemmas of the byte-level codec, part 1: sign descriptor and
transaction (`WriteSignDescriptor`/`ReadSignDescriptor`, `MsgTx.Serialize`/`Deserialize`).
-/
import LndModel.C05.CodecLemmas

namespace LndModel.C05.Codec

/-- list readers whose result is a function of the written value -/
theorem many_enc_map {α β : Type} (p : P β) (enc : α → Bytes) (encL : List α → Bytes) (g : α → β)
    (hnil : encL [] = []) (hcons : ∀ x t, encL (x :: t) = enc x ++ encL t)
    (xs : List α) (rest : Bytes)
    (hp : ∀ x ∈ xs, ∀ r, p (enc x ++ r) = some (g x, r)) :
    many p xs.length (encL xs ++ rest) = some (xs.map g, rest) := by
  induction xs with
  | nil => simp [many, hnil, pure_run]
  | cons x t ih =>
    have h1 := hp x (by simp)
    have h2 := ih (fun y hy r => hp y (by simp [hy]) r)
    simp [many, hcons, bind_run, pure_run, h1, h2]

/-! ### sign descriptor -/

/-- the value ranges of the Go types and the size limits `ReadSignDescriptor` enforces -/
structure SD.WF (d : SD) : Prop where
  fam : d.fam < 2 ^ 32
  idx : d.idx < 2 ^ 32
  key : ∀ k, d.key = some k → keyFormatOk k = true
  single : d.single.length ≤ 32
  double : d.double.length ≤ 32
  one : d.single = [] ∨ d.double = []
  ws : d.wscript.length ≤ 500
  val : d.outVal < 2 ^ 64
  pk : d.outPk.length ≤ 80
  ht : d.hashType < 2 ^ 32

theorem readSD_enc (d : SD) (h : d.WF) (rest : Bytes) :
    readSD (encSD d ++ rest) = some (d.codec, rest) := by
  have h1 : ∀ r, readBe 4 (be 4 d.fam ++ r) = some (d.fam, r) := fun r => readBe_be 4 _ r (by have := h.fam; omega)
  have h2 : ∀ r, readBe 4 (be 4 d.idx ++ r) = some (d.idx, r) := fun r => readBe_be 4 _ r (by have := h.idx; omega)
  have h3 : ∀ r, readVarBytes 32 (varBytes d.single ++ r) = some (d.single, r) :=
    fun r => readVarBytes_varBytes _ r 32 h.single (by have := h.single; omega)
  have h4 : ∀ r, readVarBytes 32 (varBytes d.double ++ r) = some (d.double, r) :=
    fun r => readVarBytes_varBytes _ r 32 h.double (by have := h.double; omega)
  have h5 : ∀ r, readVarBytes 500 (varBytes d.wscript ++ r) = some (d.wscript, r) :=
    fun r => readVarBytes_varBytes _ r 500 h.ws (by have := h.ws; omega)
  have h6 : ∀ r, readBe 8 (be 8 d.outVal ++ r) = some (d.outVal, r) := fun r => readBe_be 8 _ r (by have := h.val; omega)
  have h7 : ∀ r, readVarBytes 80 (varBytes d.outPk ++ r) = some (d.outPk, r) :=
    fun r => readVarBytes_varBytes _ r 80 h.pk (by have := h.pk; omega)
  have h8 : ∀ r, readBe 4 (be 4 d.hashType ++ r) = some (d.hashType, r) := fun r => readBe_be 4 _ r (by have := h.ht; omega)
  have hov : (!d.single.isEmpty && !d.double.isEmpty) = false := by
    rcases h.one with e | e <;> simp [e]
  cases hk : d.key with
  | none =>
    simp only [readSD, encSD, hk, List.append_assoc, bind_run, h1, h2, readBool_enc, pure_run, h3, h4, h5, h6,
      h7, h8, hov, Bool.false_eq_true, ↓reduceIte]
    simp [SD.codec, hk]
  | some k =>
    have hf := h.key k hk
    have hl : k.length = 33 := by
      simp only [keyFormatOk, Bool.and_eq_true, beq_iff_eq] at hf; exact hf.1
    have h9 : ∀ r, readVarBytes 34 (varBytes k ++ r) = some (k, r) :=
      fun r => readVarBytes_varBytes _ r 34 (by omega) (by omega)
    simp only [readSD, encSD, hk, List.append_assoc, bind_run, h1, h2, readBool_enc, pure_run, h3, h4, h5, h6,
      h7, h8, h9, hov, hf, Bool.false_eq_true, ↓reduceIte]
    simp [SD.codec, hk]

/-! ### transaction -/

structure OutPoint.WF (o : OutPoint) : Prop where
  hash : o.hash.length = 32
  idx : o.idx < 2 ^ 32

structure TxIn.WF (i : TxIn) : Prop where
  prev : i.prev.WF
  script : i.sigScript.length < 2 ^ 64
  seq : i.seq < 2 ^ 32
  nWit : i.witness.length < 2 ^ 64
  items : ∀ x ∈ i.witness, x.length < 2 ^ 64

structure TxOut.WF (o : TxOut) : Prop where
  value : o.value < 2 ^ 64
  pk : o.pk.length < 2 ^ 64

structure Tx.WF (t : Tx) : Prop where
  version : t.version < 2 ^ 32
  lock : t.lockTime < 2 ^ 32
  /-- a transaction without inputs has no unambiguous serialisation -/
  some : t.ins ≠ []
  nIns : t.ins.length < 2 ^ 64
  nOuts : t.outs.length < 2 ^ 64
  ins : ∀ i ∈ t.ins, i.WF
  outs : ∀ o ∈ t.outs, o.WF

def TxIn.noWit (i : TxIn) : TxIn := { i with witness := [] }

theorem readTxIn_enc (i : TxIn) (h : i.WF) (rest : Bytes) :
    readTxIn (encTxIn i ++ rest) = some (i.noWit, rest) := by
  have h1 : ∀ r, take 32 (i.prev.hash ++ r) = some (i.prev.hash, r) := fun r => take_append _ r 32 h.prev.hash
  have h2 : ∀ r, readLe 4 (le 4 i.prev.idx ++ r) = some (i.prev.idx, r) :=
    fun r => readLe_le 4 _ r (by have := h.prev.idx; omega)
  have h3 : ∀ r, readVarBytes scriptMax (varBytes i.sigScript ++ r) = some (i.sigScript, r) :=
    fun r => readVarBytes_varBytes _ r _ (by have := h.script; simp [scriptMax]; omega) h.script
  have h4 : ∀ r, readLe 4 (le 4 i.seq ++ r) = some (i.seq, r) := fun r => readLe_le 4 _ r (by have := h.seq; omega)
  simp only [readTxIn, encTxIn, List.append_assoc, bind_run, pure_run, h1, h2, h3, h4]
  rfl

theorem readTxOut_enc (o : TxOut) (h : o.WF) (rest : Bytes) :
    readTxOut (encTxOut o ++ rest) = some (o, rest) := by
  have h1 : ∀ r, readLe 8 (le 8 o.value ++ r) = some (o.value, r) := fun r => readLe_le 8 _ r (by have := h.value; omega)
  have h2 : ∀ r, readVarBytes scriptMax (varBytes o.pk ++ r) = some (o.pk, r) :=
    fun r => readVarBytes_varBytes _ r _ (by have := h.pk; simp [scriptMax]; omega) h.pk
  simp only [readTxOut, encTxOut, List.append_assoc, bind_run, pure_run, h1, h2]

theorem readWitness_enc (w : List Bytes) (hn : w.length < 2 ^ 64) (hi : ∀ x ∈ w, x.length < 2 ^ 64)
    (rest : Bytes) : readWitness (encWitness w ++ rest) = some (w, rest) := by
  have h := many_enc_map (readVarBytes scriptMax) varBytes encItems id rfl (fun _ _ => rfl) w rest
    (fun x hx r => readVarBytes_varBytes x r _ (by have := hi x hx; simp [scriptMax]; omega) (hi x hx))
  simp only [readWitness, encWitness, List.append_assoc, bind_run, readVarInt_varInt _ _ hn]
  simpa using h

theorem attachWitnesses_enc (ins : List TxIn) (h : ∀ i ∈ ins, i.WF) (rest : Bytes) :
    attachWitnesses (ins.map TxIn.noWit) (encWitnesses ins ++ rest) = some (ins, rest) := by
  induction ins with
  | nil => simp [attachWitnesses, encWitnesses, pure_run]
  | cons i t ih =>
    have hi := h i (by simp)
    have h1 := fun r => readWitness_enc i.witness hi.nWit hi.items r
    have h2 := ih (fun j hj => h j (by simp [hj]))
    simp only [List.map_cons, attachWitnesses, encWitnesses, List.append_assoc, bind_run, h1, h2, pure_run]
    simp [TxIn.noWit]

theorem noWit_of_not_hasWitness (ins : List TxIn) (h : (ins.any fun i => !i.witness.isEmpty) = false) :
    ins.map TxIn.noWit = ins := by
  induction ins with
  | nil => rfl
  | cons i t ih =>
    simp only [List.any_cons, Bool.or_eq_false_iff] at h
    have hw : i.witness = [] := by simpa using h.1
    simp only [List.map_cons, ih h.2]
    congr 1
    cases i; simp_all [TxIn.noWit]

/-- **MsgTx.Deserialize ∘ MsgTx.Serialize = id** (both encodings) -/
theorem readTx_enc (t : Tx) (h : t.WF) (rest : Bytes) :
    readTx (encTx t ++ rest) = some (t, rest) := by
  have h1 : ∀ r, readLe 4 (le 4 t.version ++ r) = some (t.version, r) :=
    fun r => readLe_le 4 _ r (by have := h.version; omega)
  have h2 : ∀ r, readVarInt (varInt t.ins.length ++ r) = some (t.ins.length, r) :=
    fun r => readVarInt_varInt _ r h.nIns
  have h3 : ∀ r, many readTxIn t.ins.length (encIns t.ins ++ r) = some (t.ins.map TxIn.noWit, r) :=
    fun r => many_enc_map readTxIn encTxIn encIns TxIn.noWit rfl (fun _ _ => rfl) t.ins r
      (fun i hi r => readTxIn_enc i (h.ins i hi) r)
  have h4 : ∀ r, readVarInt (varInt t.outs.length ++ r) = some (t.outs.length, r) :=
    fun r => readVarInt_varInt _ r h.nOuts
  have h5 : ∀ r, many readTxOut t.outs.length (encOuts t.outs ++ r) = some (t.outs, r) := by
    intro r
    have := many_enc_map readTxOut encTxOut encOuts id rfl (fun _ _ => rfl) t.outs r
      (fun o ho r => readTxOut_enc o (h.outs o ho) r)
    simpa using this
  have h6 : ∀ r, readLe 4 (le 4 t.lockTime ++ r) = some (t.lockTime, r) :=
    fun r => readLe_le 4 _ r (by have := h.lock; omega)
  have hlen : t.ins.length ≠ 0 := by
    have := h.some; cases hh : t.ins with
    | nil => exact absurd hh this
    | cons _ _ => simp
  cases hw : t.hasWitness with
  | true =>
    have h7 : ∀ r, attachWitnesses (t.ins.map TxIn.noWit) (encWitnesses t.ins ++ r) = some (t.ins, r) :=
      fun r => attachWitnesses_enc t.ins h.ins r
    have hm : ∀ r : Bytes, readVarInt ((0 : UInt8) :: 1 :: r) = some (0, 1 :: r) := by
      intro r; simp [readVarInt]
    have ht : ∀ r : Bytes, take 1 ((1 : UInt8) :: r) = some ([1], r) := by
      intro r; simp [take]
    have hany : (t.ins.any fun i => !i.witness.isEmpty) = true := hw
    simp only [readTx, encTx, hw, if_true, List.append_assoc, List.cons_append, List.nil_append, bind_run, h1, hm,
      ht, h2, h3, h4, h5, h6, h7, hany, pure_run, ↓reduceIte, bne_self_eq_false, Bool.false_eq_true,
      Bool.not_true]
  | false =>
    have hany : (t.ins.any fun i => !i.witness.isEmpty) = false := hw
    have hs := noWit_of_not_hasWitness t.ins hany
    simp only [readTx, encTx, hw, List.append_assoc, List.nil_append, bind_run, h1, Bool.false_eq_true, ↓reduceIte]
    rw [h2]
    simp only [hlen, if_false, bind_run, h3, h4, h5, h6, pure_run, hs, ↓reduceIte]

end LndModel.C05.Codec
