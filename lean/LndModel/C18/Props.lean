/-
C18 — property theorems.

"Every sweep transaction the node publishes, initially and at every fee bump,
pays a fee no larger than the budget attached to its inputs and a fee rate no
larger than the configured maximum, spends all the inputs it was asked to
sweep and creates no output below dust.  Across successive blocks the offered
fee rate never decreases, starts at no less than the relay floor, and reaches
its ceiling no later than one block before the deadline."

Part A is generic in the float primitive `M` (hypothesis `Sound M f`: the
starting rate is not above the ceiling and `p ↦ M delta p 1000` is
non-negative and monotone below the width).  `Float.lean` proves the float
part of `Sound` for the exact binary64 instance `goMulF64`; `go_*` below are the
resulting statements about the arithmetic the code executes.

Naming: the FULL property quantifies over all starting rates.  The code does not
clamp a caller-supplied (or, in two corner cases, an estimated) starting rate to
the ceiling, and for `start > end` monotonicity and the cap are FALSE on the
code (`start_above_ceiling_breaks_cap_and_monotone`, known findings
F-C18-start-above-ceiling / estimated variant).  Theorems that therefore carry
the hypothesis `start ≤ end` are named `…_partial`; what is missing for the
full statement is exactly that clamp in `NewLinearFeeFunction`.  The ceiling
(`reaches_ceiling_by_deadline`), budget and transaction-shape theorems are
proved at full strength with no such hypothesis.
-/
import LndModel.C18.Lemmas
import LndModel.C18.Float

namespace LndModel.C18

/-! ## A. fee function (any float primitive with the order properties) -/

/-- `rate_monotone` — FULL statement: for every fee function created by
    `NewLinearFeeFunction` and every sequence of `Increment` / `IncreaseFeeRate(confTarget)`
    calls, `FeeRate()` never decreases.  PROVED HERE (`_partial`): the same under `Sound M f`,
    i.e. `f.start ≤ f.end_` plus the order properties of the float primitive (the latter are
    discharged for Go's arithmetic in `go_rate_monotone_partial`).  Missing: `start ≤ end` is
    not guaranteed by the code (see `start_above_ceiling_breaks_cap_and_monotone`).
    Quantifies over ANY op sequence: skipped heights, repeated or increasing conf targets, … -/
theorem rate_monotone_partial {M : MulDiv} {maxFeeRate relay : Int} {ct : Nat} {so est : Option Int} {f : FeeFn}
    (hnew : newLinear M maxFeeRate ct so est relay = .ok f) (hs : Sound M f)
    (ops : List Op) (op : Op) :
    (f.run M ops).cur ≤ ((f.run M ops).step M op).cur := by
  obtain ⟨h1, h2, _⟩ := Inv.run hs (Inv.new hnew hs) ops
  exact (Inv.step (Sound.of_same h1 hs) h2 op).2.2

/-- the same, between any two points of a history. -/
theorem rate_monotone_prefix_partial {M : MulDiv} {maxFeeRate relay : Int} {ct : Nat} {so est : Option Int}
    {f : FeeFn} (hnew : newLinear M maxFeeRate ct so est relay = .ok f) (hs : Sound M f)
    (ops more : List Op) :
    (f.run M ops).cur ≤ (f.run M (ops ++ more)).cur := by
  obtain ⟨h1, h2, _⟩ := Inv.run hs (Inv.new hnew hs) ops
  rw [run_append]
  exact (Inv.run (Sound.of_same h1 hs) h2 more).2.2

/-- `rate_capped` — FULL statement: `start ≤ FeeRate() ≤ end = maxFeeRate` in every reachable
    state.  PROVED HERE (`_partial`): under `Sound M f` (contains `f.start ≤ f.end_`, without
    which the initial rate `start` is above the ceiling on the code). -/
theorem rate_capped_partial {M : MulDiv} {maxFeeRate relay : Int} {ct : Nat} {so est : Option Int} {f : FeeFn}
    (hnew : newLinear M maxFeeRate ct so est relay = .ok f) (hs : Sound M f) (ops : List Op) :
    f.start ≤ (f.run M ops).cur ∧ (f.run M ops).cur ≤ maxFeeRate := by
  obtain ⟨h1, h2, _⟩ := Inv.run hs (Inv.new hnew hs) ops
  have he := (newLinear_spec hnew).1
  exact ⟨by rw [← h1.1]; exact h2.lo, by rw [← he, ← h1.2.1]; exact h2.hi⟩

/-- the schedule itself is capped for every position, with no hypothesis at all. -/
theorem schedule_capped (M : MulDiv) (f : FeeFn) (p : Nat) : f.rateAt M p ≤ f.end_ :=
  rateAt_le_end M f p

/-- `reaches_ceiling_by_deadline` (1): a conf target `≤ 1` at creation starts at the ceiling. -/
theorem ceiling_at_creation {M : MulDiv} {maxFeeRate relay : Int} {ct : Nat} {so est : Option Int}
    {f : FeeFn} (hnew : newLinear M maxFeeRate ct so est relay = .ok f) (hct : ct ≤ 1) :
    f.cur = maxFeeRate := by
  obtain ⟨_, hcur, _, hcase⟩ := newLinear_spec hnew
  rcases hcase with ⟨_, hst, _⟩ | ⟨h2, _⟩
  · rw [hcur, hst]
  · omega

/-- `reaches_ceiling_by_deadline` (2): after `IncreaseFeeRate(confTarget)` with
    `confTarget ≤ 1` (one block before the deadline, at it, or past it), whatever happened
    before and whatever the call returns, the rate is the ceiling.  No hypothesis: holds for
    any float primitive and any starting rate. -/
theorem ceiling_by_deadline {M : MulDiv} {maxFeeRate relay : Int} {ct : Nat} {so est : Option Int}
    {f : FeeFn} (hnew : newLinear M maxFeeRate ct so est relay = .ok f) (hct : ct < u32Mod)
    (ops : List Op) (c : Nat) (hc : c ≤ 1) :
    ((f.run M ops).step M (.ict c)).cur = maxFeeRate := by
  obtain ⟨h1, h2⟩ := Top.run (M := M) (Top.new hnew) ops
  have he := (newLinear_spec hnew).1
  have hwf := newLinear_width_lt hnew hct
  generalize f.run M ops = g at h1 h2
  have hend : g.end_ = maxFeeRate := by rw [h1.2.1, he]
  have hwg : g.width + 1 < u32Mod := by rw [h1.2.2.1]; exact hwf
  simp only [FeeFn.step]
  cases h : g.increaseFeeRate M c with
  | error e =>
    -- only `ErrMaxPosition`: the position already reached the width
    simp only []
    unfold FeeFn.increaseFeeRate at h
    simp only [] at h
    split at h
    · cases h
    · unfold FeeFn.increaseTo at h
      split at h
      · rename_i hge; rw [h2 hge, hend]
      · cases h
  | ok r =>
    obtain ⟨g', b⟩ := r
    simp only []
    have hnp : g.width ≤ g.newPos c := newPos_ge_width hwg hc
    rcases increaseFeeRate_spec h with ⟨hle, hg, _⟩ | ⟨_, h'⟩
    · subst hg; rw [h2 (by omega), hend]
    · obtain ⟨_, _, _, hcur, _⟩ := increaseTo_spec h'
      rw [hcur, rateAt_of_ge M g hnp, hend]

/-- the conf target handed to the fee function one block before the deadline (or later) is `≤ 1`.
    Domain (`hlo`): the `int32` subtraction `deadline - height` does not wrap below `-2^31`
    (true whenever both heights are non-negative `int32`s). -/
theorem confTarget_near_deadline {height deadline : Int} (h : deadline - height ≤ 1)
    (hlo : -2147483648 ≤ deadline - height) :
    calcCurrentConfTarget height deadline ≤ 1 := by
  rw [calcCurrentConfTarget_exact ⟨hlo, by omega⟩]
  split <;> omega

/-- WITNESS that `hlo` cannot be dropped: with deadline `-2^31` and height 1 the `int32` subtraction
    wraps to `2^31 - 1` and the code computes a conf target of two billion blocks although the
    deadline has passed (heights are never negative in lnd, so this is not reachable). -/
theorem confTarget_wrap_witness : calcCurrentConfTarget 1 (-2147483648) = 2147483647 := by decide

/-- `reaches_ceiling_by_deadline` (3): driven block by block with
    `confTarget = deadline - height` over ANY pattern of heights (skipped, repeated), once a
    block with `deadline - height ≤ 1` has been processed the rate is the ceiling. -/
theorem ceiling_by_deadline_blocks {M : MulDiv} {maxFeeRate relay : Int} {ct : Nat}
    {so est : Option Int} {f : FeeFn}
    (hnew : newLinear M maxFeeRate ct so est relay = .ok f) (hct : ct < u32Mod)
    (deadline : Int) (heights : List Int) (h : Int) (hh : deadline - h ≤ 1)
    (hlo : -2147483648 ≤ deadline - h) :
    (f.run M ((heights ++ [h]).map (fun x => Op.ict (calcCurrentConfTarget x deadline)))).cur
      = maxFeeRate := by
  rw [List.map_append, run_append]
  simp only [List.map_cons, List.map_nil, FeeFn.run, List.foldl_cons, List.foldl_nil]
  exact ceiling_by_deadline hnew hct _ _ (confTarget_near_deadline hh hlo)

theorem run_replicate_inc_pos {M : MulDiv} (f : FeeFn) (n : Nat) (h : f.pos + n ≤ f.width)
    (hw : f.width < u32Mod) :
    (f.run M (List.replicate n .inc)).pos = f.pos + n ∧ SameSched f (f.run M (List.replicate n .inc)) := by
  induction n generalizing f with
  | zero => exact ⟨rfl, SameSched.refl f⟩
  | succ n ih =>
    simp only [List.replicate_succ, FeeFn.run, List.foldl_cons]
    have hne : ¬ (f.pos ≥ f.width) := by omega
    have hmod : (f.pos + 1) % u32Mod = f.pos + 1 := Nat.mod_eq_of_lt (by omega)
    have heq : f.step M .inc = { f with pos := f.pos + 1, cur := f.rateAt M (f.pos + 1) } := by
      simp only [FeeFn.step, FeeFn.increment, FeeFn.increaseTo, hne, if_false, hmod]
    have hstep : (f.step M .inc).pos = f.pos + 1 ∧ SameSched f (f.step M .inc) := by
      rw [heq]; exact ⟨rfl, rfl, rfl, rfl, rfl⟩
    have hw' : (f.step M .inc).width = f.width := hstep.2.2.2.1
    have := ih (f.step M .inc) (by rw [hstep.1, hw']; omega) (by rw [hw']; exact hw)
    simp only [FeeFn.run] at this
    exact ⟨by rw [this.1, hstep.1]; omega, hstep.2.trans this.2⟩

/-- `reaches_ceiling_by_deadline` (4): `width` calls of `Increment` on a fresh function reach
    the ceiling (no float hypothesis needed: position `width` maps to the ceiling). -/
theorem ceiling_after_width_increments {M : MulDiv} {maxFeeRate relay : Int} {ct : Nat}
    {so est : Option Int} {f : FeeFn}
    (hnew : newLinear M maxFeeRate ct so est relay = .ok f) (hct : ct < u32Mod) :
    (f.run M (List.replicate f.width .inc)).cur = maxFeeRate := by
  obtain ⟨hend, hcur, hpos, hcase⟩ := newLinear_spec hnew
  have hwlt := newLinear_width_lt hnew hct
  cases hw : f.width with
  | zero =>
    simp only [List.replicate_zero, FeeFn.run, List.foldl_nil]
    rcases hcase with ⟨_, hst, _⟩ | ⟨h2, hwd, _⟩
    · rw [hcur, hst]
    · omega
  | succ n =>
    rw [List.replicate_succ']
    rw [run_append]
    obtain ⟨hp, hsame⟩ := run_replicate_inc_pos (M := M) f n (by omega) (by omega)
    generalize f.run M (List.replicate n .inc) = g at hp hsame
    simp only [FeeFn.run, List.foldl_cons, List.foldl_nil, FeeFn.step, FeeFn.increment, FeeFn.increaseTo]
    have hgw : g.width = n + 1 := by rw [hsame.2.2.1, hw]
    have : ¬ (g.pos ≥ g.width) := by omega
    simp only [this, if_false]
    have hmod : (g.pos + 1) % u32Mod = g.pos + 1 := Nat.mod_eq_of_lt (by omega)
    rw [hmod, rateAt_of_ge M g (by omega), hsame.2.1, hend]

/-- relay floor / ceiling of an ESTIMATED starting rate (conf target below `MaxBlockTarget`):
    it is at least the relay fee unless the ceiling itself is below the relay fee, and it is
    not above a non-zero ceiling. For `confTarget ≥ MaxBlockTarget` the start IS the relay fee.
    A caller-supplied `StartingFeeRate` is used as is (no floor, no cap) — see the notes. -/
theorem estimated_start_bounds {M : MulDiv} {maxFeeRate relay : Int} {ct : Nat} {est : Option Int}
    {f : FeeFn} (hnew : newLinear M maxFeeRate ct none est relay = .ok f) (hct : 2 ≤ ct) :
    (ct ≥ maxBlockTarget → f.start = relay) ∧
    (ct < maxBlockTarget → (relay ≤ maxFeeRate ∨ maxFeeRate = 0 → relay ≤ f.start) ∧
                            (maxFeeRate ≠ 0 → f.start ≤ maxFeeRate)) := by
  obtain ⟨_, _, _, hcase⟩ := newLinear_spec hnew
  rcases hcase with ⟨h1, _⟩ | ⟨_, _, _, hso⟩
  · omega
  · rcases hso with hso | ⟨_, hest⟩
    · cases hso
    · unfold estimateFeeRate at hest
      constructor
      · intro hge
        simp only [hge, if_true, Except.ok.injEq] at hest
        exact hest.symm
      · intro hlt
        have : ¬ (ct ≥ maxBlockTarget) := by omega
        simp only [this, if_false] at hest
        obtain ⟨_, h2, h3⟩ := estimate_bounds hest
        exact ⟨h3, h2⟩

/-- `MaxFeeRateAllowed` never exceeds the configured `MaxFeeRate`. -/
theorem ceiling_le_maxFeeRate (M : MulDiv) (budget : Int) (wu : Nat) (maxFeeRate : Int) :
    maxFeeRateAllowed M budget wu maxFeeRate ≤ maxFeeRate := by
  unfold maxFeeRateAllowed
  simp only []
  split <;> omega

/-! ## B. transactions: budget, inputs, outputs -/

/-- what `createAndCheckTx` guarantees of a transaction it lets through, at fee rate `rate`. -/
structure GoodTx (r : Req) (height : Int) (rate : Int) (tx : Tx) : Prop where
  /-- the fee is within the budget. -/
  fee_le_budget : tx.fee ≤ r.budget
  /-- value is conserved: Σ inputs = Σ outputs + fee (so `fee` is the real fee). -/
  conserved : sumValues r.inputs = sumOuts tx.outs + tx.fee
  /-- every requested input is spent exactly once. -/
  spends_all : tx.ins.Perm (List.range r.inputs.length)
  /-- inputs that commit to an output come first and are index-aligned with exactly those outputs. -/
  aligned : ∃ rest others,
      tx.ins = (reqPairs r.inputs).map (·.2) ++ rest ∧
      tx.outs = (reqPairs r.inputs).map (fun x => (OutKind.required, x.1.req.getD 0)) ++ others ∧
      (∀ o ∈ others, o.1 ≠ OutKind.required)
  /-- a change output is never below the dust limit … -/
  no_dust : ∀ o ∈ tx.outs, o.1 = OutKind.change → r.dust ≤ o.2
  /-- … there is at most one, and the tx is never left without outputs. -/
  change_unique : (tx.outs.filter (fun o => o.1 == OutKind.change)).length ≤ 1
  has_output : (∃ o ∈ tx.outs, o.1 = OutKind.change) ∨ r.extra.getD 0 + sumReq r.inputs ≠ 0
  /-- the fee is the rate-implied fee, plus a below-dust change when there is no change output. -/
  fee_lower : feeForWeight rate r.wTx ≤ tx.fee
  fee_upper : tx.fee < feeForWeight rate r.wTx + (if ∃ o ∈ tx.outs, o.1 = OutKind.change then 1 else r.dust)

theorem goodTx_of_prepare {r : Req} {height rate : Int} {p : Prep}
    (hp : prepareSweepTx r.inputs rate r.wTx height r.dust r.extra = .ok p) (hb : ¬ p.fee > r.budget) :
    GoodTx r height rate (buildTx r.inputs height r.extra p) := by
  obtain ⟨hsum, hdust, hnone, hlo, hsome, hup⟩ := prepare_spec hp
  have houts := buildTx_sumOuts r.inputs height r.extra p
  refine ⟨by simp only [buildTx]; omega, by rw [houts]; simp only [buildTx]; omega, ins_perm r.inputs, ?_, ?_, ?_, ?_,
    by simp only [buildTx]; exact hlo, ?_⟩
  · refine ⟨idxWhere r.inputs (fun i => i.req.isNone),
      (match r.extra with | some v => [(OutKind.extra, v)] | none => []) ++
      (match p.change with | some v => [(OutKind.change, v)] | none => []), ?_, ?_, ?_⟩
    · simp only [buildTx, idxWhere_req]
    · simp only [buildTx, filterMap_req_eq, List.append_assoc]
      rfl
    · intro o ho
      rw [List.mem_append] at ho
      rcases ho with ho | ho
      · cases hx : r.extra with
        | none => rw [hx] at ho; cases ho
        | some v => rw [hx] at ho; simp only [List.mem_singleton] at ho; rw [ho]; simp
      · cases hc : p.change with
        | none => rw [hc] at ho; cases ho
        | some v => rw [hc] at ho; simp only [List.mem_singleton] at ho; rw [ho]; simp
  · intro o ho hk
    simp only [buildTx, filterMap_req_eq, List.mem_append, List.mem_map] at ho
    rcases ho with (⟨x, _, hx⟩ | ho) | ho
    · rw [← hx] at hk; cases hk
    · cases hx : r.extra with
      | none => rw [hx] at ho; cases ho
      | some v => rw [hx] at ho; simp only [List.mem_singleton] at ho; rw [ho] at hk; cases hk
    · cases hc : p.change with
      | none => rw [hc] at ho; cases ho
      | some v =>
        rw [hc] at ho; simp only [List.mem_singleton] at ho
        rw [ho]; exact hdust v hc
  · simp only [buildTx, filterMap_req_eq, List.filter_append, List.length_append]
    have h1 : (List.filter (fun o => o.1 == OutKind.change)
        ((reqPairs r.inputs).map (fun x => (OutKind.required, x.1.req.getD 0)))).length = 0 := by
      rw [List.length_eq_zero_iff, List.filter_eq_nil_iff]
      intro o ho
      simp only [List.mem_map] at ho
      obtain ⟨x, _, hx⟩ := ho
      rw [← hx]; simp
    rw [h1]
    cases r.extra <;> cases p.change <;> simp
  · cases hc : p.change with
    | none => right; exact hnone hc
    | some v =>
      left
      refine ⟨(OutKind.change, v), ?_, rfl⟩
      simp only [buildTx, hc, List.mem_append, List.mem_singleton, or_true]
  · cases hc : p.change with
    | none =>
      have : ¬ ∃ o ∈ (buildTx r.inputs height r.extra p).outs, o.1 = OutKind.change := by
        rintro ⟨o, ho, hk⟩
        simp only [buildTx, hc, filterMap_req_eq, List.mem_append, List.mem_map, List.append_nil] at ho
        rcases ho with ⟨x, _, hx⟩ | ho
        · rw [← hx] at hk; cases hk
        · cases hx : r.extra with
          | none => rw [hx] at ho; cases ho
          | some v => rw [hx] at ho; simp only [List.mem_singleton] at ho; rw [ho] at hk; cases hk
      rw [if_neg this]
      exact hup hc
    | some v =>
      have : ∃ o ∈ (buildTx r.inputs height r.extra p).outs, o.1 = OutKind.change :=
        ⟨(OutKind.change, v), by simp only [buildTx, hc, List.mem_append, List.mem_singleton, or_true], rfl⟩
      rw [if_pos this]
      have h2 := hsome (by rw [hc]; rfl)
      show p.fee < feeForWeight rate r.wTx + 1
      omega

/-- `fee_within_budget` + `spends_all_no_dust` for `createAndCheckTx`: every transaction it
    hands to the mempool test or returns — whatever the fee rate, including when dust change
    is folded into the fee — is a `GoodTx`: in particular `fee ≤ Budget`. -/
theorem createAndCheckTx_good (r : Req) (rate height : Int) (a : Ans) :
    (∀ tx, (createAndCheckTx r rate height a).2 = some tx → GoodTx r height rate tx) ∧
    (∀ tx, (createAndCheckTx r rate height a).1 = .ok tx → GoodTx r height rate tx) ∧
    (∀ tx, (createAndCheckTx r rate height a).1 = .missing tx → GoodTx r height rate tx) := by
  unfold createAndCheckTx
  cases hp : prepareSweepTx r.inputs rate r.wTx height r.dust r.extra with
  | error e => simp
  | ok p =>
    simp only []
    by_cases hb : p.fee > r.budget
    · simp [hb]
    · simp only [hb, if_false]
      have hg := goodTx_of_prepare hp hb
      cases a <;> simp [hg]

/-- the budget check is what carries `fee ≤ Budget`: it rejects exactly when the fee (with
    folded dust) exceeds the budget. -/
theorem createAndCheckTx_budget_error {r : Req} {rate height : Int} {a : Ans} {p : Prep}
    (hp : prepareSweepTx r.inputs rate r.wTx height r.dust r.extra = .ok p) :
    ((createAndCheckTx r rate height a).1 = .err .budget ∧ (createAndCheckTx r rate height a).2 = none)
      ↔ p.fee > r.budget := by
  unfold createAndCheckTx
  simp only [hp]
  by_cases hb : p.fee > r.budget
  · simp [hb]
  · simp only [hb, if_false, iff_false]
    cases a <;> simp

/-- every tx emitted or accepted by the `createRBFCompliantTx` loop is good at some fee rate. -/
def AllGood (r : Req) (height : Int) (em : Emitted) : Prop :=
  ∀ e ∈ em, ∃ rate, GoodTx r height rate e.2

theorem allGood_append {r : Req} {height : Int} {a b : Emitted}
    (ha : AllGood r height a) (hb : AllGood r height b) : AllGood r height (a ++ b) := by
  intro e he
  rw [List.mem_append] at he
  rcases he with he | he
  · exact ha e he
  · exact hb e he

theorem allGood_emitChecked {r : Req} {height rate : Int} {a : Ans} :
    AllGood r height (emitChecked (createAndCheckTx r rate height a).2) := by
  intro e he
  unfold emitChecked at he
  cases hs : (createAndCheckTx r rate height a).2 with
  | none => rw [hs] at he; cases he
  | some tx =>
    rw [hs] at he
    simp only [List.mem_singleton] at he
    exact ⟨rate, by rw [he]; exact (createAndCheckTx_good r rate height a).1 tx hs⟩

theorem createRBFCompliantTx_good (M : MulDiv) (r : Req) (height : Int) :
    ∀ (fuel : Nat) (f : FeeFn) (mp : List Ans) (em : Emitted), AllGood r height em →
      AllGood r height (createRBFCompliantTx M r height fuel f mp em).emitted ∧
      (∀ tx, (createRBFCompliantTx M r height fuel f mp em).res = .ok tx → ∃ rate, GoodTx r height rate tx) ∧
      (∀ tx, (createRBFCompliantTx M r height fuel f mp em).res = .missing tx → ∃ rate, GoodTx r height rate tx) := by
  intro fuel
  induction fuel with
  | zero =>
    intro f mp em hem
    simp only [createRBFCompliantTx]
    exact ⟨hem, (fun _ h => nomatch h), (fun _ h => nomatch h)⟩
  | succ n ih =>
    intro f mp em hem
    unfold createRBFCompliantTx
    simp only []
    have hem' := allGood_append hem (allGood_emitChecked (r := r) (height := height) (rate := f.cur) (a := (nextAns mp).1))
    have hg := createAndCheckTx_good r f.cur height (nextAns mp).1
    cases hc : (createAndCheckTx r f.cur height (nextAns mp).1).1 with
    | ok tx =>
      simp only []
      exact ⟨hem', fun tx' h => (by cases h; exact ⟨f.cur, hg.2.1 tx hc⟩), (fun _ h => nomatch h)⟩
    | missing tx =>
      simp only []
      exact ⟨hem', (fun _ h => nomatch h), fun tx' h => (by cases h; exact ⟨f.cur, hg.2.2 tx hc⟩)⟩
    | err e =>
      simp only []
      split
      · split
        · exact ⟨hem', (fun _ h => nomatch h), (fun _ h => nomatch h)⟩
        · exact ih _ _ _ hem'
      · exact ⟨hem', (fun _ h => nomatch h), (fun _ h => nomatch h)⟩

/-- `fee_within_budget` for the publisher's initial broadcast: every transaction handed to
    `CheckMempoolAcceptance` or `PublishTransaction` — for any estimator answer, mempool
    answers, publish answer, deadline and input set — has `fee ≤ Budget`, conserves value,
    spends every input and has no dust change. -/
theorem initialBroadcast_good (M : MulDiv) (r : Req) (height : Int) (est : Option Int) (relay : Int)
    (mp : List Ans) (pub : Ans) :
    AllGood r height (initialBroadcast M r height est relay mp pub).emitted := by
  unfold initialBroadcast
  simp only []
  split
  · intro e he; cases he
  · rename_i f0 _
    have h := createRBFCompliantTx_good M r height (f0.width + 8 + mp.length) f0 mp []
      (by intro e he; cases he)
    split
    · rename_i tx hres
      apply allGood_append h.1
      intro e he
      simp only [List.mem_singleton] at he
      rw [he]; exact h.2.1 tx hres
    · exact h.1
    · split
      · exact h.1
      · split
        · exact h.1
        · exact h.1

/-- the same for every fee bump (`handleFeeBumpTx`). -/
theorem feeBump_good (M : MulDiv) (r : Req) (rc : Rec) (height : Int) (mp : List Ans) (pub : Ans) :
    AllGood r height (feeBump M r rc height mp pub).emitted := by
  have hnil : AllGood r height [] := by intro e he; cases he
  unfold feeBump
  simp only []
  split
  · rename_i f _ _ _
    split
    · exact hnil
    · rename_i g increased _
      split
      · exact hnil
      · have hg := createAndCheckTx_good r g.cur height (nextAns mp).1
        have hem := allGood_emitChecked (r := r) (height := height) (rate := g.cur) (a := (nextAns mp).1)
        cases hc : (createAndCheckTx r g.cur height (nextAns mp).1).1 with
        | ok tx =>
          simp only []
          have hall : AllGood r height
              (emitChecked (createAndCheckTx r g.cur height (nextAns mp).1).2 ++ [(true, tx)]) := by
            apply allGood_append hem
            intro e he
            simp only [List.mem_singleton] at he
            rw [he]; exact ⟨g.cur, hg.2.1 tx hc⟩
          split <;> exact hall
        | missing tx => exact hem
        | err e =>
          simp only []
          split <;> exact hem
  · exact hnil

/-! ### rate of every transaction of the publisher -/

/-- `rate` lies between the starting rate and the ceiling of `f`. -/
def RateIn (f : FeeFn) (rate : Int) : Prop := f.start ≤ rate ∧ rate ≤ f.end_

theorem RateIn.of_same {f g : FeeFn} (h : SameSched f g) {rate : Int} (hr : RateIn g rate) : RateIn f rate := by
  unfold RateIn at *; rw [← h.1, ← h.2.1]; exact hr

/-- every emitted tx is good at a fee rate inside `[f.start, f.end_]`. -/
def AllGoodIn (r : Req) (f : FeeFn) (em : Emitted) : Prop :=
  ∀ e ∈ em, ∃ height rate, RateIn f rate ∧ GoodTx r height rate e.2

theorem allGoodIn_append {r : Req} {f : FeeFn} {a b : Emitted}
    (ha : AllGoodIn r f a) (hb : AllGoodIn r f b) : AllGoodIn r f (a ++ b) := by
  intro e he
  rw [List.mem_append] at he
  rcases he with he | he
  · exact ha e he
  · exact hb e he

theorem AllGoodIn.of_same {r : Req} {f g : FeeFn} (h : SameSched f g) {em : Emitted}
    (ha : AllGoodIn r g em) : AllGoodIn r f em := by
  intro e he
  obtain ⟨hh, rate, hr, hg⟩ := ha e he
  exact ⟨hh, rate, hr.of_same h, hg⟩

theorem Inv.rateIn {M : MulDiv} {f : FeeFn} (i : Inv M f) : RateIn f f.cur := ⟨i.lo, i.hi⟩

theorem allGoodIn_emitChecked {M : MulDiv} {r : Req} {f : FeeFn} (i : Inv M f) {height : Int} {a : Ans} :
    AllGoodIn r f (emitChecked (createAndCheckTx r f.cur height a).2) := by
  intro e he
  obtain ⟨rate, hg⟩ := allGood_emitChecked (r := r) (height := height) (rate := f.cur) (a := a) e he
  unfold emitChecked at he
  cases hs : (createAndCheckTx r f.cur height a).2 with
  | none => rw [hs] at he; cases he
  | some tx =>
    rw [hs] at he
    simp only [List.mem_singleton] at he
    exact ⟨height, f.cur, i.rateIn, by rw [he]; exact (createAndCheckTx_good r f.cur height a).1 tx hs⟩

theorem incUntilIncreased_inv {M : MulDiv} : ∀ (fuel : Nat) (f : FeeFn), Sound M f → Inv M f →
    SameSched f (incUntilIncreased M fuel f).1 ∧ Inv M (incUntilIncreased M fuel f).1 ∧
      f.cur ≤ (incUntilIncreased M fuel f).1.cur := by
  intro fuel
  induction fuel with
  | zero => intro f _ i; exact ⟨SameSched.refl f, i, Int.le_refl _⟩
  | succ n ih =>
    intro f s i
    unfold incUntilIncreased
    cases h : f.increment M with
    | error e => exact ⟨SameSched.refl f, i, Int.le_refl _⟩
    | ok r =>
      obtain ⟨g, b⟩ := r
      have h' := increment_spec' (by have := s.wlt; omega) h
      obtain ⟨hi, hle⟩ := Inv.increaseTo s i (by omega) h'
      have hs := (increaseTo_spec h').2.1
      simp only []
      split
      · exact ⟨hs, hi, hle⟩
      · obtain ⟨k1, k2, k3⟩ := ih g (Sound.of_same hs s) hi
        exact ⟨hs.trans k1, k2, Int.le_trans hle k3⟩

theorem createRBFCompliantTx_rates (M : MulDiv) (r : Req) (height : Int) :
    ∀ (fuel : Nat) (f : FeeFn) (mp : List Ans) (em : Emitted), Sound M f → Inv M f → AllGoodIn r f em →
      SameSched f (createRBFCompliantTx M r height fuel f mp em).ff ∧
      Inv M (createRBFCompliantTx M r height fuel f mp em).ff ∧
      AllGoodIn r f (createRBFCompliantTx M r height fuel f mp em).emitted ∧
      (∀ tx, (createRBFCompliantTx M r height fuel f mp em).res = .ok tx →
        ∃ rate, RateIn f rate ∧ GoodTx r height rate tx) := by
  intro fuel
  induction fuel with
  | zero =>
    intro f mp em _ i hem
    simp only [createRBFCompliantTx]
    exact ⟨SameSched.refl f, i, hem, (fun _ h => nomatch h)⟩
  | succ n ih =>
    intro f mp em s i hem
    unfold createRBFCompliantTx
    simp only []
    have hem' := allGoodIn_append hem (allGoodIn_emitChecked (r := r) i (height := height) (a := (nextAns mp).1))
    have hg := createAndCheckTx_good r f.cur height (nextAns mp).1
    cases hc : (createAndCheckTx r f.cur height (nextAns mp).1).1 with
    | ok tx =>
      simp only []
      exact ⟨SameSched.refl f, i, hem', fun tx' h => (by cases h; exact ⟨f.cur, i.rateIn, hg.2.1 tx hc⟩)⟩
    | missing tx =>
      simp only []
      exact ⟨SameSched.refl f, i, hem', (fun _ h => nomatch h)⟩
    | err e =>
      simp only []
      split
      · obtain ⟨k1, k2, _⟩ := incUntilIncreased_inv (M := M) (f.width + 2) f s i
        split
        · rename_i g e' heq
          rw [heq] at k1 k2
          exact ⟨k1, k2, hem', (fun _ h => nomatch h)⟩
        · rename_i g heq
          rw [heq] at k1 k2
          obtain ⟨j1, j2, j3, j4⟩ := ih g _ _ (Sound.of_same k1 s) k2 (fun e he => by
            obtain ⟨hh, rate, hr, hgd⟩ := hem' e he
            exact ⟨hh, rate, ⟨by rw [k1.1]; exact hr.1, by rw [k1.2.1]; exact hr.2⟩, hgd⟩)
          exact ⟨k1.trans j1, j2, AllGoodIn.of_same k1 j3,
            fun tx h => (by obtain ⟨rate, hr, hgd⟩ := j4 tx h; exact ⟨rate, hr.of_same k1, hgd⟩)⟩
      · exact ⟨SameSched.refl f, i, hem', (fun _ h => nomatch h)⟩

/-- Initial broadcast, with a fee function `f0` whose schedule is `Sound` (e.g. `go_sound`):
    every tx handed to the backend is a `GoodTx` at a rate inside `[f0.start, f0.end_]`, the
    ceiling `f0.end_` is `MaxFeeRateAllowed ≤ MaxFeeRate`, and the fee function kept in the
    record satisfies the invariant again (so the fee-bump theorem applies at the next block). -/
theorem initialBroadcast_rates_partial (M : MulDiv) (r : Req) (height : Int) (est : Option Int) (relay : Int)
    (mp : List Ans) (pub : Ans) (f0 : FeeFn)
    (hnew : newLinear M (maxFeeRateAllowed M r.budget r.wBudget r.maxFeeRate)
      (calcCurrentConfTarget height r.deadline) r.start est relay = .ok f0)
    (hs : Sound M f0) :
    f0.end_ ≤ r.maxFeeRate ∧
    AllGoodIn r f0 (initialBroadcast M r height est relay mp pub).emitted ∧
    (∀ g, (initialBroadcast M r height est relay mp pub).rcd.ff = some g → SameSched f0 g ∧ Inv M g) := by
  have hend : f0.end_ ≤ r.maxFeeRate := by
    rw [(newLinear_spec hnew).1]; exact ceiling_le_maxFeeRate M _ _ _
  have hi := Inv.new hnew hs
  have h := createRBFCompliantTx_rates M r height (f0.width + 8 + mp.length) f0 mp [] hs hi
    (by intro e he; cases he)
  obtain ⟨h1, h2, h3, h4⟩ := h
  refine ⟨hend, ?_⟩
  unfold initialBroadcast
  simp only [hnew]
  split
  · rename_i tx hres
    refine ⟨allGoodIn_append h3 ?_, ?_⟩
    · intro e he
      simp only [List.mem_singleton] at he
      obtain ⟨rate, hr, hg⟩ := h4 tx hres
      exact ⟨height, rate, hr, by rw [he]; exact hg⟩
    · intro g hg
      simp only [Option.some.injEq] at hg
      rw [← hg]; exact ⟨h1, h2⟩
  · refine ⟨h3, ?_⟩
    intro g hg
    simp only [Option.some.injEq] at hg
    rw [← hg]; exact ⟨h1, h2⟩
  · split
    · refine ⟨h3, ?_⟩
      intro g hg
      simp only [Option.some.injEq] at hg
      rw [← hg]; exact ⟨h1, h2⟩
    · split
      · refine ⟨h3, ?_⟩
        intro g hg
        simp only [Option.some.injEq] at hg
        have hstep := Inv.step (Sound.of_same h1 hs) h2 .inc
        rw [← hg]
        exact ⟨h1.trans hstep.1, hstep.2.1⟩
      · refine ⟨h3, ?_⟩
        intro g hg
        simp only [Option.some.injEq] at hg
        rw [← hg]; exact ⟨h1, h2⟩

/-- Every fee bump: if the record's fee function satisfies the invariant, every tx handed to
    the backend at this block is a `GoodTx` at a rate in `[start, ceiling]`, the new rate is
    not below the old one, and the invariant holds again. -/
theorem feeBump_rates_partial (M : MulDiv) (r : Req) (rc : Rec) (height : Int) (mp : List Ans) (pub : Ans)
    (f : FeeFn) (hf : rc.ff = some f) (hs : Sound M f) (hi : Inv M f) :
    AllGoodIn r f (feeBump M r rc height mp pub).emitted ∧
    (∀ g, (feeBump M r rc height mp pub).rcd.ff = some g → SameSched f g ∧ Inv M g ∧ f.cur ≤ g.cur) := by
  have hnil : AllGoodIn r f [] := by intro e he; cases he
  have hself : ∀ g, rc.ff = some g → SameSched f g ∧ Inv M g ∧ f.cur ≤ g.cur := by
    intro g hg; rw [hf] at hg; simp only [Option.some.injEq] at hg
    rw [← hg]; exact ⟨SameSched.refl f, hi, Int.le_refl _⟩
  unfold feeBump
  simp only []
  split
  · rename_i f' _ hff _
    have hff' : f' = f := by rw [hf] at hff; simp only [Option.some.injEq] at hff; exact hff.symm
    subst hff'
    split
    · exact ⟨hnil, hself⟩
    · rename_i g increased hinc
      have hstep := Inv.step hs hi (.ict (calcCurrentConfTarget height r.deadline))
      have hg_eq : f'.step M (.ict (calcCurrentConfTarget height r.deadline)) = g := by
        simp only [FeeFn.step, hinc]
      rw [hg_eq] at hstep
      obtain ⟨k1, k2, k3⟩ := hstep
      have hsome : ∀ g', (some g : Option FeeFn) = some g' → SameSched f' g' ∧ Inv M g' ∧ f'.cur ≤ g'.cur := by
        intro g' hg'; simp only [Option.some.injEq] at hg'; rw [← hg']; exact ⟨k1, k2, k3⟩
      split
      · exact ⟨hnil, hsome⟩
      · have hg := createAndCheckTx_good r g.cur height (nextAns mp).1
        have hem : AllGoodIn r f' (emitChecked (createAndCheckTx r g.cur height (nextAns mp).1).2) :=
          AllGoodIn.of_same k1 (allGoodIn_emitChecked (r := r) k2 (height := height) (a := (nextAns mp).1))
        cases hc : (createAndCheckTx r g.cur height (nextAns mp).1).1 with
        | ok tx =>
          simp only []
          have hall : AllGoodIn r f'
              (emitChecked (createAndCheckTx r g.cur height (nextAns mp).1).2 ++ [(true, tx)]) := by
            apply allGoodIn_append hem
            intro e he
            simp only [List.mem_singleton] at he
            exact ⟨height, g.cur, k2.rateIn.of_same k1, by rw [he]; exact hg.2.1 tx hc⟩
          split <;> exact ⟨hall, hsome⟩
        | missing tx => exact ⟨hem, hsome⟩
        | err e =>
          simp only []
          split
          · exact ⟨hem, hsome⟩
          · refine ⟨hem, ?_⟩
            intro g' hg'
            simp only [Option.some.injEq] at hg'
            have hstep2 := Inv.step (Sound.of_same k1 hs) k2 .inc
            have : retryRate M g = g.step M .inc := rfl
            rw [← hg', this]
            exact ⟨k1.trans hstep2.1, hstep2.2.1, Int.le_trans k3 hstep2.2.2⟩
  · exact ⟨hnil, hself⟩

/-- `NewSatPerKWeight` rounds to nearest, so the fee implied by the budget rate can exceed
    the budget: the explicit check in `createAndCheckTx` is what carries `fee ≤ Budget`. -/
theorem budget_rate_may_overshoot :
    feeForWeight (newSatPerKWeight goMulF64 5 3000) 3000 > 5 := by
  have h : newSatPerKWeight goMulF64 5 3000 = 2 := by
    unfold newSatPerKWeight
    exact goMulF64_5_1000_3000
  rw [h]; decide

/-! ## C. the exact binary64 instance -/

/-- With Go's binary64 arithmetic (`goMulF64`), a fee function created with a starting rate
    not above the ceiling, and whose float→int64 conversions do not overflow
    (`NoOverflow`; implied e.g. by `end - start ≤ 2^29`, see `noOverflow_of_small`), is `Sound`:
    no float hypothesis remains in `go_rate_monotone_partial` / `go_rate_capped_partial`. -/
theorem go_sound {maxFeeRate relay : Int} {ct : Nat} {so est : Option Int} {f : FeeFn}
    (_hnew : newLinear goMulF64 maxFeeRate ct so est relay = .ok f)
    (hle : f.start ≤ f.end_) (hno : NoOverflow f) : Sound goMulF64 f :=
  sound_of_noOverflow hle hno

theorem go_rate_monotone_partial {maxFeeRate relay : Int} {ct : Nat} {so est : Option Int} {f : FeeFn}
    (hnew : newLinear goMulF64 maxFeeRate ct so est relay = .ok f)
    (hle : f.start ≤ f.end_) (hno : NoOverflow f) (ops : List Op) (op : Op) :
    (f.run goMulF64 ops).cur ≤ ((f.run goMulF64 ops).step goMulF64 op).cur :=
  rate_monotone_partial hnew (go_sound hnew hle hno) ops op

theorem go_rate_capped_partial {maxFeeRate relay : Int} {ct : Nat} {so est : Option Int} {f : FeeFn}
    (hnew : newLinear goMulF64 maxFeeRate ct so est relay = .ok f)
    (hle : f.start ≤ f.end_) (hno : NoOverflow f) (ops : List Op) :
    f.start ≤ (f.run goMulF64 ops).cur ∧ (f.run goMulF64 ops).cur ≤ maxFeeRate :=
  rate_capped_partial hnew (go_sound hnew hle hno) ops

/-- WITNESS that the hypothesis `start ≤ end` of the `_partial` theorems cannot be dropped, i.e.
    that the full property fails on the code's arithmetic: a caller-supplied starting rate of
    2000 sat/kw with a ceiling of 1000 sat/kw (conf target 10) yields a function whose rate is
    above the ceiling and whose next `Increment` LOWERS the rate (known finding
    F-C18-start-above-ceiling, reproduced on the real `LinearFeeFunction` by the harness). -/
theorem start_above_ceiling_breaks_cap_and_monotone :
    ∃ f, newLinear goMulF64 1000 10 (some 2000) none 253 = .ok f ∧
      f.cur > 1000 ∧ (f.step goMulF64 .inc).cur < f.cur := by
  refine ⟨⟨2000, 1000, 2000, 9, 0, -111111⟩, by decide, by decide, by decide⟩

/-- `NoOverflow` holds whenever ceiling and start are at most `2^27` sat/kw apart
    (≈ 537 k sat/vB) and the conf target is a uint32. -/
theorem go_noOverflow_of_small {maxFeeRate relay : Int} {ct : Nat} {so est : Option Int} {f : FeeFn}
    (hnew : newLinear goMulF64 maxFeeRate ct so est relay = .ok f)
    (hle : f.start ≤ f.end_) (hsmall : f.end_ - f.start ≤ 2 ^ 27) (hct : ct < 2 ^ 32)
    (hlo : -9223372036854775808 ≤ f.start) (hhi : f.end_ ≤ 2 ^ 61) : NoOverflow f :=
  noOverflow_of_small hnew hle hsmall hct hlo hhi

/-- The hypothesis-free statement for the path the sweeper takes when no starting rate is
    supplied, inside the property's domain `0 ≤ relay ≤ ceiling`: an ESTIMATED start (any
    estimator answer that does not error, ANY conf target `≥ 2` incl. `≥ MaxBlockTarget`), a
    positive ceiling of at most `2^27` sat/kw.  Then for every history: the rate never decreases,
    stays in `[start, ceiling]`, and `start` is at least the relay fee.  (`start ≤ end` and
    `NoOverflow` are PROVED here for Go's arithmetic; conf targets `≤ 1` start at the ceiling by
    `ceiling_at_creation`.) -/
theorem go_estimated {maxFeeRate relay : Int} {ct : Nat} {est : Option Int} {f : FeeFn}
    (hnew : newLinear goMulF64 maxFeeRate ct none est relay = .ok f)
    (hct : 2 ≤ ct) (hct' : ct < 2 ^ 32) (hmax : 0 < maxFeeRate) (hmax' : maxFeeRate ≤ 2 ^ 27)
    (hrelay : 0 ≤ relay) (hdom : relay ≤ maxFeeRate) (ops : List Op) (op : Op) :
    (f.run goMulF64 ops).cur ≤ ((f.run goMulF64 ops).step goMulF64 op).cur ∧
    f.start ≤ (f.run goMulF64 ops).cur ∧ (f.run goMulF64 ops).cur ≤ maxFeeRate ∧
    relay ≤ f.start := by
  obtain ⟨hend, _, _, _⟩ := newLinear_spec hnew
  obtain ⟨hbig, hb⟩ := estimated_start_bounds hnew hct
  have hfl : relay ≤ f.start ∧ f.start ≤ maxFeeRate := by
    by_cases hc : ct ≥ maxBlockTarget
    · rw [hbig hc]; exact ⟨Int.le_refl _, hdom⟩
    · obtain ⟨hfloor, hcap⟩ := hb (by omega)
      exact ⟨hfloor (Or.inl hdom), hcap (by omega)⟩
  have hle : f.start ≤ f.end_ := by rw [hend]; exact hfl.2
  have hno := noOverflow_of_small hnew hle (by rw [hend]; omega) hct' (by omega)
    (by rw [hend]; exact Int.le_trans hmax' (by norm_num))
  have hs := sound_of_noOverflow hle hno
  obtain ⟨c1, c2⟩ := rate_capped_partial hnew hs ops
  exact ⟨rate_monotone_partial hnew hs ops op, c1, c2, hfl.1⟩

/-- Relay floor for a CALLER-SUPPLIED starting rate (`_partial`: needs `Sound`, i.e. `start ≤ end`):
    the code applies no floor to it (the start is used as is), so the floor holds exactly when the
    caller's rate is itself at least the relay fee — then every later rate is too. -/
theorem caller_start_floor_partial {M : MulDiv} {maxFeeRate relay s0 : Int} {ct : Nat}
    {est : Option Int} {f : FeeFn}
    (hnew : newLinear M maxFeeRate ct (some s0) est relay = .ok f) (hs : Sound M f)
    (hct : 2 ≤ ct) (ops : List Op) :
    f.start = s0 ∧ (relay ≤ s0 → relay ≤ (f.run M ops).cur) := by
  obtain ⟨_, _, _, hcase⟩ := newLinear_spec hnew
  have hst : f.start = s0 := by
    rcases hcase with ⟨h1, _⟩ | ⟨_, _, _, hso⟩
    · omega
    · rcases hso with hso | ⟨hso, _⟩
      · simp only [Option.some.injEq] at hso; exact hso.symm
      · cases hso
  refine ⟨hst, fun h => ?_⟩
  have := (rate_capped_partial hnew hs ops).1
  omega

/-! ## D. the publisher at the deadline -/

/-- POSITIVE half of "reaches its ceiling by the deadline" at the publisher level: at a block with
    `deadline − height ≤ 1`, if the record's rate is still below the ceiling and a tx at the
    ceiling rate can be built within the budget (`prepareSweepTx` succeeds with `fee ≤ Budget`)
    and the mempool accepts it, then `handleFeeBumpTx` hands exactly that tx to the wallet for
    broadcast. -/
theorem feeBump_publishes_at_ceiling (M : MulDiv) (r : Req) (rc : Rec) (height : Int) (mp : List Ans)
    (pub : Ans) (f : FeeFn) (t : Tx) (hf : rc.ff = some f) (ht : rc.tx = some t) (htop : Top f)
    (hw : f.width + 1 < u32Mod)
    (hd : r.deadline - height ≤ 1) (hlo : -2147483648 ≤ r.deadline - height)
    (hlt : f.cur < f.end_) (p : Prep)
    (hp : prepareSweepTx r.inputs f.end_ r.wTx height r.dust r.extra = .ok p)
    (hb : p.fee ≤ r.budget) (hmp : (nextAns mp).1 = .ok) :
    (true, buildTx r.inputs height r.extra p) ∈ (feeBump M r rc height mp pub).emitted := by
  have hct := confTarget_near_deadline hd hlo
  have hpos : f.pos < f.width := by
    by_contra hc
    have := htop (by omega)
    omega
  have hnp : f.width ≤ f.newPos (calcCurrentConfTarget height r.deadline) := newPos_ge_width hw hct
  have hinc : f.increaseFeeRate M (calcCurrentConfTarget height r.deadline) =
      .ok ({ f with pos := f.newPos (calcCurrentConfTarget height r.deadline), cur := f.end_ }, true) := by
    unfold FeeFn.increaseFeeRate
    have h1 : ¬ (f.newPos (calcCurrentConfTarget height r.deadline) ≤ f.pos) := by omega
    simp only [h1, if_false]
    unfold FeeFn.increaseTo
    have h2 : ¬ (f.pos ≥ f.width) := by omega
    simp only [h2, if_false, rateAt_of_ge M f hnp]
    have h3 : decide (f.end_ > f.cur) = true := by simp; omega
    rw [h3]
  have hchk : createAndCheckTx r f.end_ height (nextAns mp).1 =
      (.ok (buildTx r.inputs height r.extra p), some (buildTx r.inputs height r.extra p)) := by
    unfold createAndCheckTx
    have hnb : ¬ (p.fee > r.budget) := by omega
    simp only [hp, hnb, if_false, hmp]
  unfold feeBump
  simp only [hf, ht, hinc, Bool.not_true, Bool.false_eq_true, if_false, hchk, emitChecked]
  cases ansErr pub with
  | none => simp
  | some e => cases e <;> simp

/-- NEGATIVE half (model-level witness of the failure found by the monitor clause
    `no-tx-at-ceiling-by-deadline`, reproduced on the real `TxPublisher` by the harness case
    `witness=1`): eight 100 000-sat P2WKH inputs (weight 2350), budget 3007, MaxFeeRate 250 000,
    relay fee 253, deadline 503.  `NewSatPerKWeight` rounds the budget rate 1279.57 UP to the
    ceiling 1280 whose fee 3008 exceeds the budget by one: the bump at height 502 = deadline − 1
    fails with `ErrNotEnoughBudget`, nothing is handed to the wallet and the record is dropped —
    the last tx offered is the one of height 501 at 767 sat/kw.  So "a tx at the ceiling is
    offered no later than one block before the deadline" is FALSE for the code. -/
theorem no_tx_at_ceiling_by_deadline_witness :
    let r : Req := ⟨List.replicate 8 ⟨100000, none, none⟩, 3007, 250000, 503, none, 2350, 2350, 294, none⟩
    let o0 := initialBroadcast goMulF64 r 500 (some 253) 253 [] .ok
    let o1 := feeBump goMulF64 r o0.rcd 501 [] .ok
    let o2 := feeBump goMulF64 r o1.rcd 502 [] .ok
    maxFeeRateAllowed goMulF64 r.budget r.wBudget r.maxFeeRate = 1280 ∧
    feeForWeight 1280 r.wTx = 3008 ∧
    o0.res.event = .published ∧ o1.res.event = .replaced ∧ o1.res.rate = 767 ∧
    o2.res.event = .failed ∧ o2.res.err = some .budget ∧ o2.res.rate = 1280 ∧
    o2.emitted = [] ∧ o2.rcd.live = false := by
  decide

/-- Provenance of the outputs: besides the change output (never below dust, see `GoodTx`), a sweep
    tx only contains the outputs the inputs commit to and the aux sweeper's extra output, with
    exactly the values handed in.  Hence "no output below dust" for those is a precondition on
    the request (the aggregator's `filterInputs` drops inputs with a dust required output). -/
theorem outputs_provenance (inputs : List Inp) (height : Int) (extra : Option Int) (p : Prep)
    (o : OutKind × Int) (ho : o ∈ (buildTx inputs height extra p).outs) :
    (o.1 = OutKind.required ∧ ∃ i ∈ inputs, i.req = some o.2) ∨
    (o.1 = OutKind.extra ∧ extra = some o.2) ∨
    (o.1 = OutKind.change ∧ p.change = some o.2) := by
  simp only [buildTx, List.mem_append, List.mem_filterMap] at ho
  rcases ho with (⟨i, hi, hio⟩ | ho) | ho
  · left
    cases hr : i.req with
    | none => rw [hr] at hio; cases hio
    | some v =>
      rw [hr] at hio
      simp only [Option.map_some, Option.some.injEq] at hio
      rw [← hio]
      exact ⟨rfl, i, hi, hr⟩
  · right; left
    cases hx : extra with
    | none => rw [hx] at ho; cases ho
    | some v => rw [hx] at ho; simp only [List.mem_singleton] at ho; rw [ho]; exact ⟨rfl, rfl⟩
  · right; right
    cases hc : p.change with
    | none => rw [hc] at ho; cases ho
    | some v => rw [hc] at ho; simp only [List.mem_singleton] at ho; rw [ho]; exact ⟨rfl, rfl⟩

/-! ## non-vacuity -/

/-- a concrete function created by the model: start 253, ceiling 2500, conf target 10. -/
example : ∃ f, newLinear goMulF64 2500 10 (some 253) none 253 = .ok f ∧ f.start ≤ f.end_ ∧ NoOverflow f :=
  example_fn

/-- the hypotheses of `go_estimated` are satisfiable. -/
example : ∃ f, newLinear goMulF64 2500 10 none (some 300) 253 = .ok f :=
  ⟨⟨300, 2500, 300, 9, 0, 244444⟩, by decide⟩

/-- a request whose single input leaves a below-dust change next to a required output: the
    fee absorbs the change and `createAndCheckTx` accepts exactly when the budget covers it. -/
example : (createAndCheckTx ⟨[⟨1000, some 1000, none⟩, ⟨700, none, none⟩], 700, 250000, 100, none, 600, 600, 330, none⟩
    1000 90 .ok).1 = .ok ⟨[0, 1], [(.required, 1000)], 90, 700⟩ := by decide

example : (createAndCheckTx ⟨[⟨1000, some 1000, none⟩, ⟨700, none, none⟩], 699, 250000, 100, none, 600, 600, 330, none⟩
    1000 90 .ok).1 = .err .budget := by decide

end LndModel.C18
