/-
C18 — the exact binary64 instance: order properties of `goMulF64`.

`rne n d` (Model.lean) rounds the rational `n/d` to 53 significant bits, ties to
even.  Here its specification `IsRnd` over ℚ is established together with
monotonicity, scale invariance and exactness on powers of two; from these
`mulF64Mag a n d` is monotone in `n` and `goMulF64` satisfies `Sound` whenever the
float → int64 conversions stay inside int64 (`NoOverflow`).
-/
import LndModel.C18.Lemmas
import Mathlib.Tactic.Linarith
import Mathlib.Tactic.Positivity
import Mathlib.Tactic.FieldSimp
import Mathlib.Tactic.Ring
import Mathlib.Tactic.NormNum
import Mathlib.Tactic.Push
import Mathlib.Data.Rat.Floor
import Mathlib.Algebra.Order.Floor.Ring
import Mathlib.Algebra.Order.Field.Power

namespace LndModel.C18

/-- value of a dyadic. -/
def Dy.val (x : Dy) : ℚ := (x.m : ℚ) * (2 : ℚ) ^ x.e

/-! ### round half to even on ℚ -/

/-- round half to even of a rational to an integer (specification of `rhe`). -/
def rheQ (t : ℚ) : ℤ :=
  if 1 < 2 * (t - ⌊t⌋) then ⌊t⌋ + 1
  else if 2 * (t - ⌊t⌋) = 1 then (if ⌊t⌋ % 2 = 0 then ⌊t⌋ else ⌊t⌋ + 1)
  else ⌊t⌋

theorem floor_le_rheQ (t : ℚ) : ⌊t⌋ ≤ rheQ t := by
  unfold rheQ; split_ifs <;> omega

theorem rheQ_le (t : ℚ) : rheQ t ≤ ⌊t⌋ + 1 := by
  unfold rheQ; split_ifs <;> omega

theorem rheQ_mono {s t : ℚ} (h : s ≤ t) : rheQ s ≤ rheQ t := by
  have hf : ⌊s⌋ ≤ ⌊t⌋ := Int.floor_mono h
  rcases lt_or_eq_of_le hf with hlt | heq
  · calc rheQ s ≤ ⌊s⌋ + 1 := rheQ_le s
      _ ≤ ⌊t⌋ := hlt
      _ ≤ rheQ t := floor_le_rheQ t
  · unfold rheQ
    rw [heq]
    split_ifs <;> first | omega | (exfalso; linarith) |
      (exfalso; rename_i hne; rcases lt_or_gt_of_ne hne with hh | hh <;> linarith)

theorem rheQ_intCast (n : ℤ) : rheQ (n : ℚ) = n := by
  unfold rheQ
  simp

/-- `rhe N D` is round-half-even of `N / D`. -/
theorem rhe_eq (N D : Nat) (hD : 0 < D) : ((rhe N D : Nat) : ℤ) = rheQ ((N : ℚ) / D) := by
  have hfl : ⌊(N : ℚ) / D⌋ = ((N / D : Nat) : ℤ) := by
    rw [Rat.floor_natCast_div_natCast]
    norm_cast
  have hDq : (0 : ℚ) < D := by exact_mod_cast hD
  have hdm : (N : ℚ) = (D : ℚ) * ((N / D : Nat) : ℚ) + ((N % D : Nat) : ℚ) := by
    exact_mod_cast (Nat.div_add_mod N D).symm
  have hfr : (N : ℚ) / D - ((N / D : Nat) : ℚ) = ((N % D : Nat) : ℚ) / D := by
    field_simp
    linarith
  unfold rheQ rhe
  rw [hfl]
  have hcast : (((N / D : Nat) : ℤ) : ℚ) = ((N / D : Nat) : ℚ) := by push_cast; rfl
  rw [hcast, hfr]
  have h1 : (1 < 2 * (((N % D : Nat) : ℚ) / D)) ↔ 2 * (N % D) > D := by
    rw [show 2 * (((N % D : Nat) : ℚ) / D) = (2 * ((N % D : Nat) : ℚ)) / D by ring]
    rw [lt_div_iff₀ hDq]
    constructor
    · intro h; have : (D : ℚ) < ((2 * (N % D) : Nat) : ℚ) := by push_cast; linarith
      exact_mod_cast this
    · intro h; have : (D : ℚ) < ((2 * (N % D) : Nat) : ℚ) := by exact_mod_cast h
      push_cast at this; linarith
  have h2 : (2 * (((N % D : Nat) : ℚ) / D) = 1) ↔ 2 * (N % D) = D := by
    rw [show 2 * (((N % D : Nat) : ℚ) / D) = (2 * ((N % D : Nat) : ℚ)) / D by ring]
    rw [div_eq_iff (ne_of_gt hDq)]
    constructor
    · intro h; have : ((2 * (N % D) : Nat) : ℚ) = (D : ℚ) := by push_cast; linarith
      exact_mod_cast this
    · intro h; have : ((2 * (N % D) : Nat) : ℚ) = (D : ℚ) := by exact_mod_cast h
      push_cast at this; linarith
  have h3 : (((N / D : Nat) : ℤ) % 2 = 0) ↔ (N / D) % 2 = 0 := by omega
  simp only [h1, h2, h3]
  split_ifs <;> push_cast <;> rfl

/-! ### scaling and the exponent -/

theorem two_pow_toNat (e : ℤ) (h : 0 ≤ e) : ((2 : ℚ) ^ e.toNat) = (2 : ℚ) ^ e := by
  rw [← zpow_natCast, Int.toNat_of_nonneg h]

theorem sc_ratio (n d : Nat) (e : ℤ) (hd : 0 < d) :
    ((scNum n e : Nat) : ℚ) / ((scDen d e : Nat) : ℚ) = ((n : ℚ) / d) / (2 : ℚ) ^ e := by
  have hdq : (d : ℚ) ≠ 0 := by exact_mod_cast (Nat.pos_iff_ne_zero.mp hd)
  have h2 : (2 : ℚ) ^ e ≠ 0 := zpow_ne_zero e (by norm_num)
  unfold scNum scDen
  split_ifs with h
  · push_cast
    rw [two_pow_toNat (-e) (by omega), zpow_neg]
    field_simp
  · push_cast
    rw [two_pow_toNat e (by omega)]
    field_simp

theorem scDen_pos (d : Nat) (e : ℤ) (hd : 0 < d) : 0 < scDen d e := by
  unfold scDen
  split_ifs
  · exact hd
  · exact Nat.mul_pos hd (Nat.pow_pos (by norm_num))

theorem expOf_spec (n d : Nat) (hn : 0 < n) (hd : 0 < d) :
    (2 : ℚ) ^ (52 : ℕ) ≤ ((n : ℚ) / d) / (2 : ℚ) ^ (expOf n d) ∧
    ((n : ℚ) / d) / (2 : ℚ) ^ (expOf n d) < (2 : ℚ) ^ (53 : ℕ) := by
  have hnq : (0 : ℚ) < n := by exact_mod_cast hn
  have hdq : (0 : ℚ) < d := by exact_mod_cast hd
  -- the bit lengths
  have hn1 : ((2 : ℚ) ^ (n.log2 : ℤ)) ≤ n := by
    rw [zpow_natCast]; exact_mod_cast Nat.log2_self_le (Nat.pos_iff_ne_zero.mp hn)
  have hn2 : (n : ℚ) < 2 * (2 : ℚ) ^ (n.log2 : ℤ) := by
    rw [zpow_natCast]
    have := @Nat.lt_log2_self n
    rw [pow_succ] at this
    have h' : (n : ℚ) < (((2 ^ n.log2 * 2 : Nat)) : ℚ) := by exact_mod_cast this
    push_cast at h'; linarith
  have hd1 : ((2 : ℚ) ^ (d.log2 : ℤ)) ≤ d := by
    rw [zpow_natCast]; exact_mod_cast Nat.log2_self_le (Nat.pos_iff_ne_zero.mp hd)
  have hd2 : (d : ℚ) < 2 * (2 : ℚ) ^ (d.log2 : ℤ) := by
    rw [zpow_natCast]
    have := @Nat.lt_log2_self d
    rw [pow_succ] at this
    have h' : (d : ℚ) < (((2 ^ d.log2 * 2 : Nat)) : ℚ) := by exact_mod_cast this
    push_cast at h'; linarith
  generalize hA : (2 : ℚ) ^ (n.log2 : ℤ) = A at hn1 hn2
  generalize hB : (2 : ℚ) ^ (d.log2 : ℤ) = B at hd1 hd2
  have hApos : 0 < A := by rw [← hA]; positivity
  have hBpos : 0 < B := by rw [← hB]; positivity
  -- e0
  have he0 : (2 : ℚ) ^ ((n.log2 : ℤ) - (d.log2 : ℤ) - 53) = A / B / (2 : ℚ) ^ (53 : ℕ) := by
    rw [zpow_sub₀ (by norm_num : (2 : ℚ) ≠ 0), zpow_sub₀ (by norm_num : (2 : ℚ) ≠ 0), hA, hB]
    norm_num
  set e0 : ℤ := (n.log2 : ℤ) - (d.log2 : ℤ) - 53 with he0def
  set y0 : ℚ := ((n : ℚ) / d) / (2 : ℚ) ^ e0 with hy0
  have hy0eq : y0 = (n : ℚ) * B * (2 : ℚ) ^ (53 : ℕ) / (d * A) := by
    rw [hy0, he0]; field_simp
  have hlow : (2 : ℚ) ^ (52 : ℕ) < y0 := by
    rw [hy0eq, lt_div_iff₀ (by positivity)]
    have h1 : (d : ℚ) * A < 2 * B * A := by nlinarith
    have h2 : 2 * B * A ≤ 2 * B * n := by nlinarith
    norm_num
    nlinarith
  have hup : y0 < (2 : ℚ) ^ (54 : ℕ) := by
    rw [hy0eq, div_lt_iff₀ (by positivity)]
    have h1 : (n : ℚ) * B < 2 * A * B := by nlinarith
    have h2 : 2 * A * B ≤ 2 * A * d := by nlinarith
    norm_num
    nlinarith
  -- the branch taken by `expOf`
  have hbr : (scNum n e0 / scDen d e0 < 2 ^ 53) ↔ y0 < (2 : ℚ) ^ (53 : ℕ) := by
    have hsd := scDen_pos d e0 hd
    have hsdq : (0 : ℚ) < (scDen d e0 : Nat) := by exact_mod_cast hsd
    rw [Nat.div_lt_iff_lt_mul hsd, hy0, ← sc_ratio n d e0 hd, div_lt_iff₀ hsdq]
    constructor
    · intro h
      have : ((scNum n e0 : Nat) : ℚ) < ((2 ^ 53 * scDen d e0 : Nat) : ℚ) := by exact_mod_cast h
      push_cast at this; exact this
    · intro h
      have : ((scNum n e0 : Nat) : ℚ) < ((2 ^ 53 * scDen d e0 : Nat) : ℚ) := by push_cast; exact h
      exact_mod_cast this
  unfold expOf
  simp only []
  rw [← he0def]
  split_ifs with hb
  · have := hbr.mp hb
    exact ⟨le_of_lt hlow, this⟩
  · have hge : (2 : ℚ) ^ (53 : ℕ) ≤ y0 := by
      by_contra hc; exact hb (hbr.mpr (not_le.mp hc))
    have hstep : ((n : ℚ) / d) / (2 : ℚ) ^ (e0 + 1) = y0 / 2 := by
      rw [zpow_add_one₀ (by norm_num : (2 : ℚ) ≠ 0), hy0]; field_simp
    rw [hstep]
    constructor
    · norm_num at hge ⊢; linarith
    · norm_num at hup ⊢; linarith

/-! ### the rounding relation -/

/-- `v` is `x ≥ 0` rounded to 53 significant bits, ties to even (unbounded exponent). -/
def IsRnd (x v : ℚ) : Prop :=
  (x = 0 ∧ v = 0) ∨
  ∃ e : ℤ, (2 : ℚ) ^ (52 : ℕ) ≤ x / (2 : ℚ) ^ e ∧ x / (2 : ℚ) ^ e < (2 : ℚ) ^ (53 : ℕ) ∧
    v = (rheQ (x / (2 : ℚ) ^ e) : ℚ) * (2 : ℚ) ^ e

theorem two_zpow_pos (e : ℤ) : (0 : ℚ) < (2 : ℚ) ^ e := zpow_pos (by norm_num) e

theorem rne_spec (n d : Nat) (hd : 0 < d) : IsRnd ((n : ℚ) / d) (rne n d).val := by
  unfold rne
  by_cases hn : n = 0
  · left
    simp [hn, Dy.val]
  · right
    have hcond : ¬ (n = 0 ∨ d = 0) := by omega
    simp only [hcond, if_false]
    have hnpos : 0 < n := Nat.pos_of_ne_zero hn
    obtain ⟨h1, h2⟩ := expOf_spec n d hnpos hd
    refine ⟨expOf n d, h1, h2, ?_⟩
    simp only [Dy.val]
    have hr := rhe_eq (scNum n (expOf n d)) (scDen d (expOf n d)) (scDen_pos d _ hd)
    rw [sc_ratio n d _ hd] at hr
    rw [← hr]
    push_cast
    rfl

theorem IsRnd.nonneg {x v : ℚ} (h : IsRnd x v) : 0 ≤ v := by
  rcases h with ⟨_, hv⟩ | ⟨e, h1, _, hv⟩
  · rw [hv]
  · rw [hv]
    have hfl : (2 ^ 52 : ℤ) ≤ ⌊x / (2 : ℚ) ^ e⌋ := by
      rw [Int.le_floor]; push_cast; exact h1
    have : (2 ^ 52 : ℤ) ≤ rheQ (x / (2 : ℚ) ^ e) := le_trans hfl (floor_le_rheQ _)
    have hq : (0 : ℚ) ≤ (rheQ (x / (2 : ℚ) ^ e) : ℚ) := by
      have : (0 : ℤ) ≤ rheQ (x / (2 : ℚ) ^ e) := by omega
      exact_mod_cast this
    exact mul_nonneg hq (le_of_lt (two_zpow_pos e))

theorem IsRnd.arg_nonneg {x v : ℚ} (h : IsRnd x v) : 0 ≤ x := by
  rcases h with ⟨hx, _⟩ | ⟨e, h1, _, _⟩
  · rw [hx]
  · have hp := two_zpow_pos e
    have : 0 < x / (2 : ℚ) ^ e := lt_of_lt_of_le (by norm_num) h1
    rcases lt_or_ge x 0 with hneg | hge
    · exfalso
      have : x / (2 : ℚ) ^ e < 0 := div_neg_of_neg_of_pos hneg hp
      linarith
    · exact hge

/-- rounding is monotone. -/
theorem IsRnd.mono {x y v w : ℚ} (hx : IsRnd x v) (hy : IsRnd y w) (hxy : x ≤ y) : v ≤ w := by
  rcases hx with ⟨hx0, hv0⟩ | ⟨e1, a1, a2, av⟩
  · rw [hv0]; exact hy.nonneg
  · rcases hy with ⟨hy0, _⟩ | ⟨e2, b1, b2, bw⟩
    · exfalso
      have hp := two_zpow_pos e1
      have hxpos : 0 < x := by
        have : 0 < x / (2 : ℚ) ^ e1 := lt_of_lt_of_le (by norm_num) a1
        rcases lt_or_ge 0 x with h | h
        · exact h
        · exfalso
          have : x / (2 : ℚ) ^ e1 ≤ 0 := div_nonpos_of_nonpos_of_nonneg h (le_of_lt hp)
          linarith
      linarith
    · have hp1 := two_zpow_pos e1
      have hp2 := two_zpow_pos e2
      -- x = t1 * 2^e1, y = t2 * 2^e2
      have hxe : x = (x / (2 : ℚ) ^ e1) * (2 : ℚ) ^ e1 := by field_simp
      have hye : y = (y / (2 : ℚ) ^ e2) * (2 : ℚ) ^ e2 := by field_simp
      have he : e1 ≤ e2 := by
        by_contra hc
        have hc' : e2 + 1 ≤ e1 := by omega
        have hpow : (2 : ℚ) ^ (e2 + 1) ≤ (2 : ℚ) ^ e1 := zpow_le_zpow_right₀ (by norm_num) hc'
        rw [zpow_add_one₀ (by norm_num : (2 : ℚ) ≠ 0)] at hpow
        have hx_lo : (2 : ℚ) ^ (52 : ℕ) * (2 : ℚ) ^ e1 ≤ x := by
          rw [hxe]; exact mul_le_mul_of_nonneg_right a1 (le_of_lt hp1)
        have hy_hi : y < (2 : ℚ) ^ (53 : ℕ) * (2 : ℚ) ^ e2 := by
          rw [hye]; exact mul_lt_mul_of_pos_right b2 hp2
        have : (2 : ℚ) ^ (53 : ℕ) * (2 : ℚ) ^ e2 ≤ (2 : ℚ) ^ (52 : ℕ) * (2 : ℚ) ^ e1 := by
          have : (2 : ℚ) ^ (53 : ℕ) = (2 : ℚ) ^ (52 : ℕ) * 2 := by norm_num
          rw [this]
          nlinarith
        linarith
      rcases lt_or_eq_of_le he with hlt | heq
      · -- different binades: v ≤ 2^(e1+53) ≤ 2^(e2+52) ≤ w
        have hv_hi : v ≤ (2 : ℚ) ^ (53 : ℕ) * (2 : ℚ) ^ e1 := by
          rw [av]
          apply mul_le_mul_of_nonneg_right _ (le_of_lt hp1)
          have hfl : ⌊x / (2 : ℚ) ^ e1⌋ < (2 ^ 53 : ℤ) := by
            rw [Int.floor_lt]; push_cast; exact a2
          have : rheQ (x / (2 : ℚ) ^ e1) ≤ (2 ^ 53 : ℤ) := by
            have := rheQ_le (x / (2 : ℚ) ^ e1); omega
          have hc : ((rheQ (x / (2 : ℚ) ^ e1) : ℤ) : ℚ) ≤ ((2 ^ 53 : ℤ) : ℚ) := by exact_mod_cast this
          push_cast at hc; exact hc
        have hw_lo : (2 : ℚ) ^ (52 : ℕ) * (2 : ℚ) ^ e2 ≤ w := by
          rw [bw]
          apply mul_le_mul_of_nonneg_right _ (le_of_lt hp2)
          have hfl : (2 ^ 52 : ℤ) ≤ ⌊y / (2 : ℚ) ^ e2⌋ := by
            rw [Int.le_floor]; push_cast; exact b1
          have : (2 ^ 52 : ℤ) ≤ rheQ (y / (2 : ℚ) ^ e2) := le_trans hfl (floor_le_rheQ _)
          have hc : ((2 ^ 52 : ℤ) : ℚ) ≤ ((rheQ (y / (2 : ℚ) ^ e2) : ℤ) : ℚ) := by exact_mod_cast this
          push_cast at hc; exact hc
        have hc' : e1 + 1 ≤ e2 := by omega
        have hpow : (2 : ℚ) ^ (e1 + 1) ≤ (2 : ℚ) ^ e2 := zpow_le_zpow_right₀ (by norm_num) hc'
        rw [zpow_add_one₀ (by norm_num : (2 : ℚ) ≠ 0)] at hpow
        have : (2 : ℚ) ^ (53 : ℕ) * (2 : ℚ) ^ e1 ≤ (2 : ℚ) ^ (52 : ℕ) * (2 : ℚ) ^ e2 := by
          have : (2 : ℚ) ^ (53 : ℕ) = (2 : ℚ) ^ (52 : ℕ) * 2 := by norm_num
          rw [this]
          nlinarith
        linarith
      · -- same binade
        subst heq
        rw [av, bw]
        apply mul_le_mul_of_nonneg_right _ (le_of_lt hp1)
        have : x / (2 : ℚ) ^ e1 ≤ y / (2 : ℚ) ^ e1 := div_le_div_of_nonneg_right hxy (le_of_lt hp1)
        exact_mod_cast rheQ_mono this

/-- rounding commutes with scaling by a power of two. -/
theorem IsRnd.scale {x v : ℚ} (h : IsRnd x v) (k : ℤ) : IsRnd (x * (2 : ℚ) ^ k) (v * (2 : ℚ) ^ k) := by
  rcases h with ⟨hx, hv⟩ | ⟨e, h1, h2, hv⟩
  · left; rw [hx, hv]; simp
  · right
    have hk := two_zpow_pos k
    have he := two_zpow_pos e
    have hdiv : x * (2 : ℚ) ^ k / (2 : ℚ) ^ (e + k) = x / (2 : ℚ) ^ e := by
      rw [zpow_add₀ (by norm_num : (2 : ℚ) ≠ 0)]; field_simp
    refine ⟨e + k, by rw [hdiv]; exact h1, by rw [hdiv]; exact h2, ?_⟩
    rw [hdiv, hv, zpow_add₀ (by norm_num : (2 : ℚ) ≠ 0)]; ring

/-- powers of two are representable. -/
theorem IsRnd.two_zpow (k : ℤ) : IsRnd ((2 : ℚ) ^ k) ((2 : ℚ) ^ k) := by
  right
  have hdiv : (2 : ℚ) ^ k / (2 : ℚ) ^ (k - 52) = (2 : ℚ) ^ (52 : ℕ) := by
    rw [zpow_sub₀ (by norm_num : (2 : ℚ) ≠ 0)]
    have := two_zpow_pos k
    field_simp
  refine ⟨k - 52, by rw [hdiv], by rw [hdiv]; norm_num, ?_⟩
  rw [hdiv]
  have : ((2 : ℚ) ^ (52 : ℕ)) = (((2 ^ 52 : ℤ)) : ℚ) := by norm_num
  rw [this, rheQ_intCast, zpow_sub₀ (by norm_num : (2 : ℚ) ≠ 0)]
  have := two_zpow_pos k
  field_simp
  norm_num

/-- upper bound by a power of two. -/
theorem IsRnd.le_two_zpow {x v : ℚ} (h : IsRnd x v) (k : ℤ) (hx : x ≤ (2 : ℚ) ^ k) : v ≤ (2 : ℚ) ^ k :=
  h.mono (IsRnd.two_zpow k) hx

/-- lower bound by a power of two. -/
theorem IsRnd.two_zpow_le {x v : ℚ} (h : IsRnd x v) (k : ℤ) (hx : (2 : ℚ) ^ k ≤ x) : (2 : ℚ) ^ k ≤ v :=
  (IsRnd.two_zpow k).mono h hx

/-! ### the float operations -/

theorem f64OfNat_spec (a : Nat) : IsRnd (a : ℚ) (f64OfNat a).val := by
  have h := rne_spec a 1 (by norm_num)
  simpa [f64OfNat] using h

theorem f64Mul_spec (x y : Dy) : IsRnd (x.val * y.val) (f64Mul x y).val := by
  have h := (rne_spec (x.m * y.m) 1 (by norm_num)).scale (x.e + y.e)
  have h1 : ((x.m * y.m : Nat) : ℚ) / ((1 : Nat) : ℚ) * (2 : ℚ) ^ (x.e + y.e) = x.val * y.val := by
    simp only [Dy.val]
    rw [zpow_add₀ (by norm_num : (2 : ℚ) ≠ 0)]
    push_cast; ring
  have h2 : (rne (x.m * y.m) 1).val * (2 : ℚ) ^ (x.e + y.e) = (f64Mul x y).val := by
    simp only [Dy.val, f64Mul]
    rw [zpow_add₀ (by norm_num : (2 : ℚ) ≠ 0), zpow_add₀ (by norm_num : (2 : ℚ) ≠ 0),
      zpow_add₀ (by norm_num : (2 : ℚ) ≠ 0)]
    ring
  rw [h1, h2] at h
  exact h

theorem f64Div_spec (x y : Dy) (hy : 0 < y.m) : IsRnd (x.val / y.val) (f64Div x y).val := by
  have h := (rne_spec x.m y.m hy).scale (x.e - y.e)
  have hym : (y.m : ℚ) ≠ 0 := by exact_mod_cast (Nat.pos_iff_ne_zero.mp hy)
  have hp := two_zpow_pos y.e
  have h1 : (x.m : ℚ) / (y.m : ℚ) * (2 : ℚ) ^ (x.e - y.e) = x.val / y.val := by
    simp only [Dy.val]
    rw [zpow_sub₀ (by norm_num : (2 : ℚ) ≠ 0)]
    field_simp
  have h2 : (rne x.m y.m).val * (2 : ℚ) ^ (x.e - y.e) = (f64Div x y).val := by
    simp only [Dy.val, f64Div]
    rw [zpow_sub₀ (by norm_num : (2 : ℚ) ≠ 0), zpow_sub₀ (by norm_num : (2 : ℚ) ≠ 0),
      zpow_add₀ (by norm_num : (2 : ℚ) ≠ 0)]
    field_simp
  rw [h1, h2] at h
  exact h

theorem f64AddHalf_spec (x : Dy) : IsRnd (x.val + 1 / 2) (f64AddHalf x).val := by
  unfold f64AddHalf
  simp only []
  generalize he' : (if x.e < -1 then x.e else (-1 : ℤ)) = e'
  have hle1 : e' ≤ x.e := by rw [← he']; split_ifs <;> omega
  have hle2 : e' ≤ -1 := by rw [← he']; split_ifs <;> omega
  have h := (rne_spec (x.m * 2 ^ (x.e - e').toNat + 2 ^ (-1 - e').toNat) 1 (by norm_num)).scale e'
  have hp := two_zpow_pos e'
  have h1 : ((x.m * 2 ^ (x.e - e').toNat + 2 ^ (-1 - e').toNat : Nat) : ℚ) / ((1 : Nat) : ℚ)
      * (2 : ℚ) ^ e' = x.val + 1 / 2 := by
    push_cast
    rw [two_pow_toNat (x.e - e') (by omega), two_pow_toNat (-1 - e') (by omega),
      zpow_sub₀ (by norm_num : (2 : ℚ) ≠ 0), zpow_sub₀ (by norm_num : (2 : ℚ) ≠ 0)]
    simp only [Dy.val]
    field_simp
  have h2 : (rne (x.m * 2 ^ (x.e - e').toNat + 2 ^ (-1 - e').toNat) 1).val * (2 : ℚ) ^ e'
      = (Dy.mk (rne (x.m * 2 ^ (x.e - e').toNat + 2 ^ (-1 - e').toNat) 1).m
          ((rne (x.m * 2 ^ (x.e - e').toNat + 2 ^ (-1 - e').toNat) 1).e + e')).val := by
    simp only [Dy.val]
    rw [zpow_add₀ (by norm_num : (2 : ℚ) ≠ 0)]
    ring
  rw [h1, h2] at h
  exact h

theorem f64Trunc_spec (x : Dy) : ((f64Trunc x : Nat) : ℤ) = ⌊x.val⌋ := by
  unfold f64Trunc
  simp only [Dy.val]
  split_ifs with h
  · have : (x.m : ℚ) * (2 : ℚ) ^ x.e = (x.m : ℚ) / ((2 ^ (-x.e).toNat : Nat) : ℚ) := by
      push_cast
      rw [two_pow_toNat (-x.e) (by omega), zpow_neg]
      field_simp
    rw [this, Rat.floor_natCast_div_natCast]
    norm_cast
  · have : (x.m : ℚ) * (2 : ℚ) ^ x.e = (((x.m * 2 ^ x.e.toNat : Nat) : ℤ) : ℚ) := by
      push_cast
      rw [two_pow_toNat x.e (by omega)]
    rw [this, Int.floor_intCast]

theorem Dy.m_pos_of_val_pos {x : Dy} (h : 0 < x.val) : 0 < x.m := by
  rcases Nat.eq_zero_or_pos x.m with h0 | hp
  · exfalso; simp [Dy.val, h0] at h
  · exact hp

/-- `mulF64Mag a n d` is monotone in `n`. -/
theorem mulF64Mag_mono (a : Nat) {n n' : Nat} (d : Nat) (hd : 0 < d) (hn : n ≤ n') :
    mulF64Mag a n d ≤ mulF64Mag a n' d := by
  unfold mulF64Mag
  have hdv : 0 < (f64OfNat d).val := by
    have := (f64OfNat_spec d).two_zpow_le 0 (by simpa using (by exact_mod_cast hd : (1 : ℚ) ≤ d))
    simp only [zpow_zero] at this
    linarith
  have hdm := Dy.m_pos_of_val_pos hdv
  have hnn : (f64OfNat n).val ≤ (f64OfNat n').val :=
    (f64OfNat_spec n).mono (f64OfNat_spec n') (by exact_mod_cast hn)
  have hdiv : (f64Div (f64OfNat n) (f64OfNat d)).val ≤ (f64Div (f64OfNat n') (f64OfNat d)).val :=
    (f64Div_spec _ _ hdm).mono (f64Div_spec _ _ hdm) (div_le_div_of_nonneg_right hnn (le_of_lt hdv))
  have ha : 0 ≤ (f64OfNat a).val := (f64OfNat_spec a).nonneg
  have hmul := (f64Mul_spec (f64OfNat a) (f64Div (f64OfNat n) (f64OfNat d))).mono
    (f64Mul_spec (f64OfNat a) (f64Div (f64OfNat n') (f64OfNat d)))
    (mul_le_mul_of_nonneg_left hdiv ha)
  have h3 : (f64Mul (f64OfNat a) (f64Div (f64OfNat n) (f64OfNat d))).val + 1 / 2 ≤
      (f64Mul (f64OfNat a) (f64Div (f64OfNat n') (f64OfNat d))).val + 1 / 2 := by linarith
  have hadd := (f64AddHalf_spec _).mono (f64AddHalf_spec _) h3
  have hfl := Int.floor_mono hadd
  rw [← f64Trunc_spec, ← f64Trunc_spec] at hfl
  exact_mod_cast hfl

/-- crude bound of `mulF64Mag` by powers of two (uses that powers of two are fixed points of
    rounding and that rounding is monotone). -/
theorem mulF64Mag_le_pow (a n d ka kn kd : Nat) (_hd0 : 0 < d) (ha : a ≤ 2 ^ ka) (hn : n ≤ 2 ^ kn)
    (hd : 2 ^ kd ≤ d) (hk : kd ≤ ka + kn) : mulF64Mag a n d ≤ 2 ^ (ka + kn - kd + 1) := by
  unfold mulF64Mag
  have h2 : (2 : ℚ) ≠ 0 := by norm_num
  have hva : (f64OfNat a).val ≤ (2 : ℚ) ^ (ka : ℤ) :=
    (f64OfNat_spec a).le_two_zpow ka (by rw [zpow_natCast]; exact_mod_cast ha)
  have hvn : (f64OfNat n).val ≤ (2 : ℚ) ^ (kn : ℤ) :=
    (f64OfNat_spec n).le_two_zpow kn (by rw [zpow_natCast]; exact_mod_cast hn)
  have hvd : (2 : ℚ) ^ (kd : ℤ) ≤ (f64OfNat d).val :=
    (f64OfNat_spec d).two_zpow_le kd (by rw [zpow_natCast]; exact_mod_cast hd)
  have hdv : 0 < (f64OfNat d).val := lt_of_lt_of_le (two_zpow_pos _) hvd
  have hdm := Dy.m_pos_of_val_pos hdv
  have hvn0 : 0 ≤ (f64OfNat n).val := (f64OfNat_spec n).nonneg
  have hva0 : 0 ≤ (f64OfNat a).val := (f64OfNat_spec a).nonneg
  -- quotient
  have hq : (f64OfNat n).val / (f64OfNat d).val ≤ (2 : ℚ) ^ ((kn : ℤ) - kd) := by
    rw [zpow_sub₀ h2]
    have hp := two_zpow_pos (kd : ℤ)
    rw [div_le_div_iff₀ hdv hp]
    nlinarith [two_zpow_pos (kn : ℤ)]
  have hv1 := (f64Div_spec (f64OfNat n) (f64OfNat d) hdm).le_two_zpow _ hq
  have hv10 := (f64Div_spec (f64OfNat n) (f64OfNat d) hdm).nonneg
  -- product
  have hprod : (f64OfNat a).val * (f64Div (f64OfNat n) (f64OfNat d)).val ≤
      (2 : ℚ) ^ ((ka : ℤ) + ((kn : ℤ) - kd)) := by
    rw [zpow_add₀ h2]
    exact mul_le_mul hva hv1 hv10 (le_of_lt (two_zpow_pos _))
  have hv2 := (f64Mul_spec (f64OfNat a) (f64Div (f64OfNat n) (f64OfNat d))).le_two_zpow _ hprod
  -- + 0.5
  have hK : (0 : ℤ) ≤ (ka : ℤ) + ((kn : ℤ) - kd) := by omega
  have hone : (1 : ℚ) ≤ (2 : ℚ) ^ ((ka : ℤ) + ((kn : ℤ) - kd)) := by
    have := zpow_le_zpow_right₀ (by norm_num : (1 : ℚ) ≤ 2) hK
    simpa using this
  have hsum : (f64Mul (f64OfNat a) (f64Div (f64OfNat n) (f64OfNat d))).val + 1 / 2 ≤
      (2 : ℚ) ^ ((ka : ℤ) + ((kn : ℤ) - kd) + 1) := by
    rw [zpow_add_one₀ h2]; linarith
  have hv3 := (f64AddHalf_spec (f64Mul (f64OfNat a) (f64Div (f64OfNat n) (f64OfNat d)))).le_two_zpow _ hsum
  -- truncation
  have hfl : ((f64Trunc (f64AddHalf (f64Mul (f64OfNat a) (f64Div (f64OfNat n) (f64OfNat d)))) : Nat) : ℚ)
      ≤ (f64AddHalf (f64Mul (f64OfNat a) (f64Div (f64OfNat n) (f64OfNat d)))).val := by
    have := f64Trunc_spec (f64AddHalf (f64Mul (f64OfNat a) (f64Div (f64OfNat n) (f64OfNat d))))
    have h' : (((f64Trunc (f64AddHalf (f64Mul (f64OfNat a) (f64Div (f64OfNat n) (f64OfNat d)))) : Nat) : ℤ) : ℚ)
        ≤ (f64AddHalf (f64Mul (f64OfNat a) (f64Div (f64OfNat n) (f64OfNat d)))).val := by
      rw [this]; exact Int.floor_le _
    exact_mod_cast h'
  have hexp : (2 : ℚ) ^ ((ka : ℤ) + ((kn : ℤ) - kd) + 1) = ((2 ^ (ka + kn - kd + 1) : Nat) : ℚ) := by
    have : (ka : ℤ) + ((kn : ℤ) - kd) + 1 = ((ka + kn - kd + 1 : Nat) : ℤ) := by omega
    rw [this, zpow_natCast]; push_cast; rfl
  rw [hexp] at hv3
  exact_mod_cast le_trans hfl hv3

/-! ### `goMulF64` -/

theorem goMulF64_of_nonneg {a : Int} (ha : 0 ≤ a) (n d : Nat)
    (h : (mulF64Mag a.natAbs n d : Int) < 2 ^ 63) : goMulF64 a n d = mulF64Mag a.natAbs n d := by
  unfold goMulF64 toInt64
  have hna : ¬ a < 0 := by omega
  simp only [hna, if_false]
  have h0 : (0 : Int) ≤ (mulF64Mag a.natAbs n d : Int) := Int.natCast_nonneg _
  have hc : -(2 : Int) ^ 63 ≤ (mulF64Mag a.natAbs n d : Int) ∧ (mulF64Mag a.natAbs n d : Int) < 2 ^ 63 :=
    ⟨by omega, h⟩
  simp only [hc, and_self, if_true]

/-- every fixed-width operation of the schedule of `f` stays in range: the float → int64
    conversions, the `int64` addition `startingFeeRate + feeRateDelta`, and the `uint32`
    addition `width + 1`. -/
def NoOverflow (f : FeeFn) : Prop :=
  0 ≤ f.delta ∧ (mulF64Mag f.delta.natAbs f.width 1000 : Int) < 2 ^ 63 ∧
  f.width + 1 < u32Mod ∧ -9223372036854775808 ≤ f.start ∧
  f.start + (mulF64Mag f.delta.natAbs f.width 1000 : Int) < 9223372036854775808

/-- with Go's binary64 arithmetic the schedule is non-negative and monotone. -/
theorem sound_of_noOverflow {f : FeeFn} (hle : f.start ≤ f.end_) (hno : NoOverflow f) :
    Sound goMulF64 f := by
  obtain ⟨hd, hov, hw, hlo, hhi⟩ := hno
  have hmono : ∀ p, p < f.width →
      (mulF64Mag f.delta.natAbs p 1000 : Int) ≤ (mulF64Mag f.delta.natAbs f.width 1000 : Int) := by
    intro p hp
    have := mulF64Mag_mono f.delta.natAbs 1000 (by norm_num) (Nat.le_of_lt hp)
    exact_mod_cast this
  have hbound : ∀ p, p < f.width → (mulF64Mag f.delta.natAbs p 1000 : Int) < 2 ^ 63 := by
    intro p hp
    have := hmono p hp
    omega
  refine ⟨hle, hw, ?_, ?_, ?_⟩
  · intro p hp
    rw [goMulF64_of_nonneg hd p 1000 (hbound p hp)]
    exact Int.natCast_nonneg _
  · intro p q hpq hq
    rw [goMulF64_of_nonneg hd p 1000 (hbound p (by omega)), goMulF64_of_nonneg hd q 1000 (hbound q hq)]
    exact_mod_cast mulF64Mag_mono f.delta.natAbs 1000 (by norm_num) hpq
  · intro p hp
    rw [goMulF64_of_nonneg hd p 1000 (hbound p hp)]
    have h1 := hmono p hp
    have h0 : (0 : Int) ≤ (mulF64Mag f.delta.natAbs p 1000 : Int) := Int.natCast_nonneg _
    simp only [InI64]
    omega

/-- a sufficient condition for `NoOverflow`: ceiling and start at most `2^27` sat/kw apart
    (134 M sat/kw ≈ 537 k sat/vB, far above any configurable fee rate), the ceiling at most `2^61`,
    the start an `int64`, and a uint32 conf target. -/
theorem noOverflow_of_small {maxFeeRate relay : Int} {ct : Nat} {so est : Option Int} {f : FeeFn}
    (hnew : newLinear goMulF64 maxFeeRate ct so est relay = .ok f)
    (hle : f.start ≤ f.end_) (hsmall : f.end_ - f.start ≤ 2 ^ 27) (hct : ct < 2 ^ 32)
    (hlo : -9223372036854775808 ≤ f.start) (hhi : f.end_ ≤ 2 ^ 61) :
    NoOverflow f := by
  obtain ⟨hend, _, _, hcase⟩ := newLinear_spec hnew
  rcases hcase with ⟨_, _, hw⟩ | ⟨h2, hw, hdelta, _⟩
  · -- width = 0, so the function was built by the first branch: delta = 0
    unfold newLinear at hnew
    have hct1 : ct ≤ 1 := by omega
    simp only [hct1, if_true, Except.ok.injEq] at hnew
    subst hnew
    have e : (mulF64Mag (0 : Int).natAbs 0 1000 : Int) = 0 := by decide
    refine ⟨Int.le_refl _, ?_, by simp only [u32Mod]; omega, hlo, ?_⟩
    · show (mulF64Mag (0 : Int).natAbs 0 1000 : Int) < 2 ^ 63
      rw [e]; norm_num
    · show maxFeeRate + (mulF64Mag (0 : Int).natAbs 0 1000 : Int) < 9223372036854775808
      rw [e]
      have : maxFeeRate ≤ 2 ^ 61 := hhi
      omega
  · set a : Int := maxFeeRate - f.start with ha
    have ha0 : 0 ≤ a := by rw [ha, ← hend]; omega
    have ha1 : a.natAbs ≤ 2 ^ 27 := by rw [ha, ← hend]; omega
    have haw : wrap64 a = a := wrap64_of_isI64 (by simp only [InI64]; omega)
    rw [haw] at hdelta
    have hwpos : 0 < ct - 1 := by omega
    have hb1 := mulF64Mag_le_pow a.natAbs 1000 (ct - 1) 27 10 0 hwpos ha1 (by norm_num) (by omega) (by omega)
    have hb1' : (mulF64Mag a.natAbs 1000 (ct - 1) : Int) ≤ 2 ^ 38 := by exact_mod_cast hb1
    have hdv : f.delta = mulF64Mag a.natAbs 1000 (ct - 1) := by
      rw [hdelta]; exact goMulF64_of_nonneg ha0 _ _ (by omega)
    have hd0 : 0 ≤ f.delta := by rw [hdv]; exact Int.natCast_nonneg _
    have hdn : f.delta.natAbs ≤ 2 ^ 38 := by rw [hdv]; omega
    have hb2 := mulF64Mag_le_pow f.delta.natAbs f.width 1000 38 32 9 (by norm_num) hdn
      (by rw [hw]; omega) (by norm_num) (by omega)
    have hb2' : (mulF64Mag f.delta.natAbs f.width 1000 : Int) ≤ 2 ^ 62 := by exact_mod_cast hb2
    have hs61 : f.start ≤ 2 ^ 61 := by omega
    refine ⟨hd0, by omega, by rw [hw]; simp only [u32Mod]; omega, hlo, ?_⟩
    have e62 : (2 : Int) ^ 62 = 4611686018427387904 := by norm_num
    have e61 : (2 : Int) ^ 61 = 2305843009213693952 := by norm_num
    omega

/-! ### concrete evaluations -/

theorem goMulF64_5_1000_3000 : goMulF64 5 1000 3000 = 2 := by decide

theorem example_fn :
    ∃ f, newLinear goMulF64 2500 10 (some 253) none 253 = .ok f ∧ f.start ≤ f.end_ ∧ NoOverflow f := by
  refine ⟨⟨253, 2500, 253, 9, 0, 249667⟩, by decide, by decide, ?_⟩
  unfold NoOverflow
  decide

end LndModel.C18
