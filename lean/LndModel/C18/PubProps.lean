/-
C18 — publisher-level theorems (round 5):

* necessity of `start ≤ ceiling` for the cap and for monotonicity, for EVERY fee function (not
  only one witness): `rate_capped_iff_start_le_end`, `rate_monotone_iff_start_le_end`;
* the hypothesis of the `_partial` theorems discharged from what the constructor / the estimator
  path guarantee: `go_sound_of_estimated`, `go_sound_of_caller`;
* `Ramp`: the transactions handed to the backend over a whole run of the publisher (initial
  broadcast with its RBF loop, then any list of blocks) are built at NON-DECREASING rates inside
  `[start, ceiling]`, each one a `GoodTx` (fee ≤ budget, all inputs, no dust change, …):
  `publisher_ramp_partial`, hypothesis-free `go_publisher_ramp_estimated`;
* consistency of the reported `BumpResult.Fee` / `FeeRate` with the transaction published:
  `initialBroadcast_result_consistent`, `feeBump_result_consistent`.
-/
import LndModel.C18.Props

namespace LndModel.C18

/-! ## necessity of `start ≤ end` -/

/-- For EVERY fee function built by the constructor with a conf target `≥ 2` whose start is above
    the ceiling, the very first `Increment` LOWERS the rate (no hypothesis on the float primitive):
    the schedule is capped at the ceiling for every position, the initial rate is the start. -/
theorem start_above_ceiling_always_decreases {M : MulDiv} {maxFeeRate relay : Int} {ct : Nat}
    {so est : Option Int} {f : FeeFn} (hnew : newLinear M maxFeeRate ct so est relay = .ok f)
    (hct : 2 ≤ ct) (habove : f.end_ < f.start) : (f.step M .inc).cur < f.cur := by
  obtain ⟨_, hcur, hpos, hcase⟩ := newLinear_spec hnew
  have hw : f.width = ct - 1 := by
    rcases hcase with ⟨h1, _⟩ | ⟨_, hw, _⟩
    · omega
    · exact hw
  have hne : ¬ (f.pos ≥ f.width) := by omega
  simp only [FeeFn.step, FeeFn.increment, FeeFn.increaseTo, hne, if_false]
  have := rateAt_le_end M f ((f.pos + 1) % u32Mod)
  show f.rateAt M ((f.pos + 1) % u32Mod) < f.cur
  omega

/-- `rate_capped` holds for a function built by the constructor IF AND ONLY IF its start is not
    above the ceiling (given the order properties of the float primitive, which `go_sound_*`
    prove for Go's arithmetic).  The code does not enforce the right-hand side for a
    caller-supplied start: known finding F-C18-start-above-ceiling. -/
theorem rate_capped_iff_start_le_end {M : MulDiv} {maxFeeRate relay : Int} {ct : Nat}
    {so est : Option Int} {f : FeeFn} (hnew : newLinear M maxFeeRate ct so est relay = .ok f)
    (hs : f.start ≤ f.end_ → Sound M f) :
    (∀ ops, f.start ≤ (f.run M ops).cur ∧ (f.run M ops).cur ≤ maxFeeRate) ↔ f.start ≤ f.end_ := by
  constructor
  · intro h
    have h0 := (h []).2
    obtain ⟨hend, hcur, _, _⟩ := newLinear_spec hnew
    simp only [FeeFn.run, List.foldl_nil] at h0
    omega
  · intro hle ops
    exact rate_capped_partial hnew (hs hle) ops

/-- `rate_monotone` holds (conf target `≥ 2`) IF AND ONLY IF the start is not above the ceiling. -/
theorem rate_monotone_iff_start_le_end {M : MulDiv} {maxFeeRate relay : Int} {ct : Nat}
    {so est : Option Int} {f : FeeFn} (hnew : newLinear M maxFeeRate ct so est relay = .ok f)
    (hct : 2 ≤ ct) (hs : f.start ≤ f.end_ → Sound M f) :
    (∀ ops op, (f.run M ops).cur ≤ ((f.run M ops).step M op).cur) ↔ f.start ≤ f.end_ := by
  constructor
  · intro h
    by_contra hc
    have h0 := h [] .inc
    simp only [FeeFn.run, List.foldl_nil] at h0
    have := start_above_ceiling_always_decreases hnew hct (by omega)
    omega
  · intro hle ops op
    exact rate_monotone_partial hnew (hs hle) ops op

/-! ## `Sound` from what the code guarantees -/

/-- a function created at or past the deadline (`confTarget ≤ 1`) is trivially `Sound`. -/
theorem sound_of_ct_le_one {M : MulDiv} {maxFeeRate relay : Int} {ct : Nat} {so est : Option Int}
    {f : FeeFn} (hnew : newLinear M maxFeeRate ct so est relay = .ok f) (hct : ct ≤ 1) :
    Sound M f ∧ f.start = maxFeeRate := by
  unfold newLinear at hnew
  simp only [hct, if_true, Except.ok.injEq] at hnew
  subst hnew
  refine ⟨⟨Int.le_refl _, by simp only [u32Mod]; omega, ?_, ?_, ?_⟩, rfl⟩
  · intro p hp; exact absurd hp (Nat.not_lt_zero _)
  · intro p q _ hq; exact absurd hq (Nat.not_lt_zero _)
  · intro p hp; exact absurd hp (Nat.not_lt_zero _)

/-- ESTIMATED start (the path the sweeper takes when no starting rate is supplied), any conf
    target of type `uint32`, any estimator answer, inside the property's domain
    `0 ≤ relay ≤ ceiling`, ceiling at most `2^27` sat/kw: the schedule is `Sound` and the start
    is at least the relay fee.  Nothing is assumed: `start ≤ end`, the float order properties and
    all fixed-width side conditions are PROVED. -/
theorem go_sound_of_estimated {maxFeeRate relay : Int} {ct : Nat} {est : Option Int} {f : FeeFn}
    (hnew : newLinear goMulF64 maxFeeRate ct none est relay = .ok f)
    (hct' : ct < 2 ^ 32) (hmax : 0 < maxFeeRate) (hmax' : maxFeeRate ≤ 2 ^ 27)
    (hrelay : 0 ≤ relay) (hdom : relay ≤ maxFeeRate) :
    Sound goMulF64 f ∧ relay ≤ f.start ∧ f.end_ = maxFeeRate := by
  obtain ⟨hend, _, _, _⟩ := newLinear_spec hnew
  by_cases hct : ct ≤ 1
  · obtain ⟨hs, hst⟩ := sound_of_ct_le_one hnew hct
    exact ⟨hs, by rw [hst]; exact hdom, hend⟩
  · have hct2 : 2 ≤ ct := by omega
    obtain ⟨hbig, hb⟩ := estimated_start_bounds hnew hct2
    have hfl : relay ≤ f.start ∧ f.start ≤ maxFeeRate := by
      by_cases hc : ct ≥ maxBlockTarget
      · rw [hbig hc]; exact ⟨Int.le_refl _, hdom⟩
      · obtain ⟨hfloor, hcap⟩ := hb (by omega)
        exact ⟨hfloor (Or.inl hdom), hcap (by omega)⟩
    have hle : f.start ≤ f.end_ := by rw [hend]; exact hfl.2
    have hno := noOverflow_of_small hnew hle (by rw [hend]; omega) hct' (by omega)
      (by rw [hend]; exact Int.le_trans hmax' (by norm_num))
    exact ⟨sound_of_noOverflow hle hno, hfl.1, hend⟩

/-- CALLER-SUPPLIED start `s0`: `Sound` needs exactly `s0 ≤ ceiling` (necessary by
    `rate_capped_iff_start_le_end`); the rest is proved (`ceiling − s0 ≤ 2^27` sat/kw and int64
    ranges for the fixed-width side conditions). -/
theorem go_sound_of_caller {maxFeeRate relay s0 : Int} {ct : Nat} {est : Option Int} {f : FeeFn}
    (hnew : newLinear goMulF64 maxFeeRate ct (some s0) est relay = .ok f)
    (hct' : ct < 2 ^ 32) (hle0 : s0 ≤ maxFeeRate) (hsmall : maxFeeRate - s0 ≤ 2 ^ 27)
    (hlo : -9223372036854775808 ≤ s0) (hhi : maxFeeRate ≤ 2 ^ 61) :
    Sound goMulF64 f ∧ f.end_ = maxFeeRate ∧ (2 ≤ ct → f.start = s0) := by
  obtain ⟨hend, _, _, hcase⟩ := newLinear_spec hnew
  by_cases hct : ct ≤ 1
  · exact ⟨(sound_of_ct_le_one hnew hct).1, hend, fun h => by omega⟩
  · have hst : f.start = s0 := by
      rcases hcase with ⟨h1, _⟩ | ⟨_, _, _, hso⟩
      · omega
      · rcases hso with hso | ⟨hso, _⟩
        · simp only [Option.some.injEq] at hso; exact hso.symm
        · cases hso
    have hle : f.start ≤ f.end_ := by rw [hend, hst]; exact hle0
    have hno := noOverflow_of_small hnew hle (by rw [hend, hst]; exact hsmall) hct'
      (by rw [hst]; exact hlo) (by rw [hend]; exact hhi)
    exact ⟨sound_of_noOverflow hle hno, hend, fun _ => hst⟩

/-! ## the ramp of transactions of a whole publisher run -/

/-- `Ramp r lo hi em`: the transactions of `em` (in the order they are handed to the backend) are
    `GoodTx`s built at non-decreasing fee rates, all inside `[lo, hi]`. -/
def Ramp (r : Req) : Int → Int → Emitted → Prop
  | lo, hi, [] => lo ≤ hi
  | lo, hi, e :: rest => ∃ h rate, lo ≤ rate ∧ GoodTx r h rate e.2 ∧ Ramp r rate hi rest

theorem Ramp.le {r : Req} : ∀ {em : Emitted} {lo hi : Int}, Ramp r lo hi em → lo ≤ hi
  | [], _, _, h => h
  | _ :: rest, _, _, ⟨_, _, h1, _, h3⟩ => Int.le_trans h1 (Ramp.le (em := rest) h3)

theorem Ramp.weaken_lo {r : Req} {lo lo' hi : Int} (hl : lo' ≤ lo) :
    ∀ {em : Emitted}, Ramp r lo hi em → Ramp r lo' hi em
  | [], h => Int.le_trans hl h
  | _ :: _, ⟨h, rate, h1, h2, h3⟩ => ⟨h, rate, Int.le_trans hl h1, h2, h3⟩

theorem Ramp.weaken_hi {r : Req} {hi hi' : Int} (hh : hi ≤ hi') :
    ∀ {em : Emitted} {lo : Int}, Ramp r lo hi em → Ramp r lo hi' em
  | [], _, h => Int.le_trans h hh
  | _ :: rest, _, ⟨h, rate, h1, h2, h3⟩ => ⟨h, rate, h1, h2, Ramp.weaken_hi hh (em := rest) h3⟩

theorem Ramp.append {r : Req} {mid hi : Int} {b : Emitted} (hb : Ramp r mid hi b) :
    ∀ {a : Emitted} {lo : Int}, Ramp r lo mid a → Ramp r lo hi (a ++ b)
  | [], _, h => Ramp.weaken_lo h hb
  | _ :: rest, _, ⟨h, rate, h1, h2, h3⟩ => ⟨h, rate, h1, h2, Ramp.append hb (a := rest) h3⟩

/-- every transaction of a ramp is a `GoodTx` at a rate inside `[lo, hi]`. -/
theorem Ramp.mem {r : Req} {hi : Int} : ∀ {em : Emitted} {lo : Int}, Ramp r lo hi em →
    ∀ e ∈ em, ∃ h rate, lo ≤ rate ∧ rate ≤ hi ∧ GoodTx r h rate e.2
  | [], _, _, e, he => by cases he
  | x :: rest, lo, ⟨h, rate, h1, h2, h3⟩, e, he => by
    rcases List.mem_cons.mp he with rfl | he
    · exact ⟨h, rate, h1, Ramp.le h3, h2⟩
    · obtain ⟨h', rate', k1, k2, k3⟩ := Ramp.mem (em := rest) h3 e he
      exact ⟨h', rate', Int.le_trans h1 k1, k2, k3⟩

/-- the meaning of `Ramp` spelled out: there is a list of rates, one per transaction, sorted
    non-decreasingly, all inside `[lo, hi]`, such that the k-th transaction is a `GoodTx` at the
    k-th rate. -/
theorem Ramp.rates {r : Req} {hi : Int} : ∀ {em : Emitted} {lo : Int}, Ramp r lo hi em →
    ∃ rates : List Int, List.Forall₂ (fun e rate => ∃ h, GoodTx r h rate e.2) em rates ∧
      rates.Pairwise (· ≤ ·) ∧ ∀ x ∈ rates, lo ≤ x ∧ x ≤ hi
  | [], _, _ => ⟨[], List.Forall₂.nil, List.Pairwise.nil, fun _ hx => by cases hx⟩
  | x :: rest, lo, ⟨h, rate, h1, h2, h3⟩ => by
    obtain ⟨rs, f2, pw, bd⟩ := Ramp.rates (em := rest) h3
    refine ⟨rate :: rs, List.Forall₂.cons ⟨h, h2⟩ f2, List.Pairwise.cons (fun y hy => (bd y hy).1) pw, ?_⟩
    intro y hy
    rcases List.mem_cons.mp hy with rfl | hy
    · exact ⟨h1, Ramp.le h3⟩
    · exact ⟨Int.le_trans h1 (bd y hy).1, (bd y hy).2⟩

theorem ramp_emitChecked {r : Req} {rate height : Int} {a : Ans} :
    Ramp r rate rate (emitChecked (createAndCheckTx r rate height a).2) := by
  unfold emitChecked
  cases hs : (createAndCheckTx r rate height a).2 with
  | none => exact Int.le_refl _
  | some tx =>
    exact ⟨height, rate, Int.le_refl _, (createAndCheckTx_good r rate height a).1 tx hs, Int.le_refl _⟩

/-- the RBF loop of the initial broadcast: rates only go up, every tx is built at the fee
    function's current rate, and an accepted tx is built at the rate the function is left at. -/
theorem createRBFCompliantTx_ramp (M : MulDiv) (r : Req) (height : Int) :
    ∀ (fuel : Nat) (f : FeeFn) (mp : List Ans) (em : Emitted) (lo : Int), Sound M f → Inv M f →
      Ramp r lo f.cur em →
      SameSched f (createRBFCompliantTx M r height fuel f mp em).ff ∧
      Inv M (createRBFCompliantTx M r height fuel f mp em).ff ∧
      Ramp r lo (createRBFCompliantTx M r height fuel f mp em).ff.cur
        (createRBFCompliantTx M r height fuel f mp em).emitted ∧
      (∀ tx, (createRBFCompliantTx M r height fuel f mp em).res = .ok tx →
        GoodTx r height (createRBFCompliantTx M r height fuel f mp em).ff.cur tx) ∧
      (∀ tx, (createRBFCompliantTx M r height fuel f mp em).res = .missing tx →
        GoodTx r height (createRBFCompliantTx M r height fuel f mp em).ff.cur tx) := by
  intro fuel
  induction fuel with
  | zero =>
    intro f mp em lo _ i hem
    simp only [createRBFCompliantTx]
    exact ⟨SameSched.refl f, i, hem, (fun _ h => nomatch h), (fun _ h => nomatch h)⟩
  | succ n ih =>
    intro f mp em lo s i hem
    unfold createRBFCompliantTx
    simp only []
    have hem' : Ramp r lo f.cur (em ++ emitChecked (createAndCheckTx r f.cur height (nextAns mp).1).2) :=
      Ramp.append ramp_emitChecked hem
    have hg := createAndCheckTx_good r f.cur height (nextAns mp).1
    cases hc : (createAndCheckTx r f.cur height (nextAns mp).1).1 with
    | ok tx =>
      simp only []
      exact ⟨SameSched.refl f, i, hem', fun tx' h => (by cases h; exact hg.2.1 tx hc), (fun _ h => nomatch h)⟩
    | missing tx =>
      simp only []
      exact ⟨SameSched.refl f, i, hem', (fun _ h => nomatch h), fun tx' h => (by cases h; exact hg.2.2 tx hc)⟩
    | err e =>
      simp only []
      split
      · obtain ⟨k1, k2, k3⟩ := incUntilIncreased_inv (M := M) (f.width + 2) f s i
        split
        · rename_i g e' heq
          rw [heq] at k1 k2 k3
          exact ⟨k1, k2, Ramp.weaken_hi k3 hem', (fun _ h => nomatch h), (fun _ h => nomatch h)⟩
        · rename_i g heq
          rw [heq] at k1 k2 k3
          obtain ⟨j1, j2, j3, j4, j5⟩ := ih g _ _ lo (Sound.of_same k1 s) k2 (Ramp.weaken_hi k3 hem')
          exact ⟨k1.trans j1, j2, j3, j4, j5⟩
      · exact ⟨SameSched.refl f, i, hem', (fun _ h => nomatch h), (fun _ h => nomatch h)⟩

/-- Initial broadcast: the transactions handed to the backend form a ramp from the starting rate
    to the rate the record's fee function is left at (`_partial`: needs `Sound`, i.e.
    `start ≤ ceiling`, which `go_sound_of_estimated` / `go_sound_of_caller` provide). -/
theorem initialBroadcast_ramp_partial (M : MulDiv) (r : Req) (height : Int) (est : Option Int) (relay : Int)
    (mp : List Ans) (pub : Ans) (f0 : FeeFn)
    (hnew : newLinear M (maxFeeRateAllowed M r.budget r.wBudget r.maxFeeRate)
      (calcCurrentConfTarget height r.deadline) r.start est relay = .ok f0)
    (hs : Sound M f0) :
    ∃ g, (initialBroadcast M r height est relay mp pub).rcd.ff = some g ∧ SameSched f0 g ∧ Inv M g ∧
      Ramp r f0.start g.cur (initialBroadcast M r height est relay mp pub).emitted := by
  have hi := Inv.new hnew hs
  have hcur := (newLinear_spec hnew).2.1
  have h := createRBFCompliantTx_ramp M r height (f0.width + 8 + mp.length) f0 mp [] f0.start hs hi
    (by show f0.start ≤ f0.cur; omega)
  obtain ⟨h1, h2, h3, h4, _⟩ := h
  unfold initialBroadcast
  simp only [hnew]
  split
  · rename_i tx hres
    refine ⟨_, rfl, h1, h2, Ramp.append ?_ h3⟩
    exact ⟨height, _, Int.le_refl _, h4 tx hres, Int.le_refl _⟩
  · exact ⟨_, rfl, h1, h2, h3⟩
  · split
    · exact ⟨_, rfl, h1, h2, h3⟩
    · split
      · have hstep := Inv.step (Sound.of_same h1 hs) h2 .inc
        exact ⟨_, rfl, h1.trans hstep.1, hstep.2.1, Ramp.weaken_hi hstep.2.2 h3⟩
      · exact ⟨_, rfl, h1, h2, h3⟩

/-- One fee bump: the transactions handed to the backend at this block form a ramp from the
    record's previous rate to its new rate. -/
theorem feeBump_ramp_partial (M : MulDiv) (r : Req) (rc : Rec) (height : Int) (mp : List Ans) (pub : Ans)
    (f : FeeFn) (hf : rc.ff = some f) (hs : Sound M f) (hi : Inv M f) :
    ∃ g, (feeBump M r rc height mp pub).rcd.ff = some g ∧ SameSched f g ∧ Inv M g ∧
      Ramp r f.cur g.cur (feeBump M r rc height mp pub).emitted := by
  have hself : ∃ g, rc.ff = some g ∧ SameSched f g ∧ Inv M g ∧ Ramp r f.cur g.cur [] :=
    ⟨f, hf, SameSched.refl f, hi, Int.le_refl _⟩
  unfold feeBump
  simp only []
  split
  · rename_i f' _ hff _
    have hff' : f' = f := by rw [hf] at hff; simp only [Option.some.injEq] at hff; exact hff.symm
    subst hff'
    split
    · exact hself
    · rename_i g increased hinc
      have hstep := Inv.step hs hi (.ict (calcCurrentConfTarget height r.deadline))
      have hg_eq : f'.step M (.ict (calcCurrentConfTarget height r.deadline)) = g := by
        simp only [FeeFn.step, hinc]
      rw [hg_eq] at hstep
      obtain ⟨k1, k2, k3⟩ := hstep
      split
      · exact ⟨g, rfl, k1, k2, k3⟩
      · have hg := createAndCheckTx_good r g.cur height (nextAns mp).1
        have hem : Ramp r f'.cur g.cur (emitChecked (createAndCheckTx r g.cur height (nextAns mp).1).2) :=
          Ramp.weaken_lo k3 ramp_emitChecked
        cases hc : (createAndCheckTx r g.cur height (nextAns mp).1).1 with
        | ok tx =>
          simp only []
          have hall : Ramp r f'.cur g.cur
              (emitChecked (createAndCheckTx r g.cur height (nextAns mp).1).2 ++ [(true, tx)]) :=
            Ramp.append (show Ramp r g.cur g.cur [(true, tx)] from
              ⟨height, g.cur, Int.le_refl _, hg.2.1 tx hc, Int.le_refl _⟩) hem
          split <;> exact ⟨g, rfl, k1, k2, hall⟩
        | missing tx => exact ⟨g, rfl, k1, k2, hem⟩
        | err e =>
          simp only []
          split
          · exact ⟨g, rfl, k1, k2, hem⟩
          · have hstep2 := Inv.step (Sound.of_same k1 hs) k2 .inc
            have : retryRate M g = g.step M .inc := rfl
            refine ⟨retryRate M g, rfl, ?_, ?_, ?_⟩
            · rw [this]; exact k1.trans hstep2.1
            · rw [this]; exact hstep2.2.1
            · rw [this]; exact Ramp.weaken_hi hstep2.2.2 hem
  · exact hself

/-- a block as the publisher sees it: its height and the backend's scripted answers. -/
structure Block where
  height : Int
  mp : List Ans
  pub : Ans

/-- `handleFeeBumpTx` over a list of blocks (any heights: skipped, repeated, out of order). -/
def runBumps (M : MulDiv) (r : Req) : Rec → List Block → Rec × Emitted
  | rc, [] => (rc, [])
  | rc, b :: bs =>
    let o := feeBump M r rc b.height b.mp b.pub
    let rest := runBumps M r o.rcd bs
    (rest.1, o.emitted ++ rest.2)

theorem runBumps_ramp_partial (M : MulDiv) (r : Req) :
    ∀ (blocks : List Block) (rc : Rec) (f : FeeFn), rc.ff = some f → Sound M f → Inv M f →
      ∃ g, (runBumps M r rc blocks).1.ff = some g ∧ SameSched f g ∧ Inv M g ∧
        Ramp r f.cur g.cur (runBumps M r rc blocks).2 := by
  intro blocks
  induction blocks with
  | nil => intro rc f hf _ hi; exact ⟨f, hf, SameSched.refl f, hi, Int.le_refl _⟩
  | cons b bs ih =>
    intro rc f hf hs hi
    obtain ⟨g, hg, k1, k2, k3⟩ := feeBump_ramp_partial M r rc b.height b.mp b.pub f hf hs hi
    obtain ⟨g', hg', j1, j2, j3⟩ := ih _ g hg (Sound.of_same k1 hs) k2
    simp only [runBumps]
    exact ⟨g', hg', k1.trans j1, j2, Ramp.append j3 k3⟩

/-- `publisher_ramp` — THE publisher-level statement of the property's rate clauses, for a whole
    run (initial broadcast incl. its RBF loop, then ANY list of blocks, any estimator / mempool /
    publish answers): every transaction handed to `CheckMempoolAcceptance` / `PublishTransaction`
    is a `GoodTx` (fee ≤ budget, value conserved, every requested input spent exactly once,
    required outputs aligned, no dust change, never without output), the rates they are built at
    never decrease in the order they are offered, start at `f0.start` and stay at or below the
    ceiling `MaxFeeRateAllowed ≤ MaxFeeRate`.  `_partial`: needs `Sound M f0` (`start ≤ ceiling`). -/
theorem publisher_ramp_partial (M : MulDiv) (r : Req) (height : Int) (est : Option Int) (relay : Int)
    (mp : List Ans) (pub : Ans) (blocks : List Block) (f0 : FeeFn)
    (hnew : newLinear M (maxFeeRateAllowed M r.budget r.wBudget r.maxFeeRate)
      (calcCurrentConfTarget height r.deadline) r.start est relay = .ok f0)
    (hs : Sound M f0) :
    f0.end_ ≤ r.maxFeeRate ∧
    Ramp r f0.start f0.end_
      ((initialBroadcast M r height est relay mp pub).emitted ++
        (runBumps M r (initialBroadcast M r height est relay mp pub).rcd blocks).2) := by
  have hend : f0.end_ ≤ r.maxFeeRate := by
    rw [(newLinear_spec hnew).1]; exact ceiling_le_maxFeeRate M _ _ _
  obtain ⟨g, hg, k1, k2, k3⟩ := initialBroadcast_ramp_partial M r height est relay mp pub f0 hnew hs
  obtain ⟨g', _, j1, j2, j3⟩ := runBumps_ramp_partial M r blocks _ g hg (Sound.of_same k1 hs) k2
  refine ⟨hend, Ramp.append (Ramp.weaken_hi ?_ j3) k3⟩
  have := j2.hi
  rw [j1.2.1, k1.2.1] at this
  exact this

/-- if the fee function cannot be created nothing is ever handed to the backend. -/
theorem publisher_error_emits_nothing (M : MulDiv) (r : Req) (height : Int) (est : Option Int) (relay : Int)
    (mp : List Ans) (pub : Ans) (blocks : List Block) (e : Err)
    (hnew : newLinear M (maxFeeRateAllowed M r.budget r.wBudget r.maxFeeRate)
      (calcCurrentConfTarget height r.deadline) r.start est relay = .error e) :
    (initialBroadcast M r height est relay mp pub).emitted = [] ∧
    (runBumps M r (initialBroadcast M r height est relay mp pub).rcd blocks).2 = [] := by
  have h0 : initialBroadcast M r height est relay mp pub =
      ⟨{ live := false }, ⟨if e = .zeroDelta then Event.failed else Event.fatal, some e, 0, 0⟩, []⟩ := by
    unfold initialBroadcast
    simp only [hnew]
  rw [h0]
  refine ⟨rfl, ?_⟩
  induction blocks with
  | nil => rfl
  | cons b bs ih =>
    simp only [runBumps]
    have hb : feeBump M r { live := false } b.height b.mp b.pub = ⟨{ live := false }, ⟨.none, none, 0, 0⟩, []⟩ := rfl
    rw [hb]
    simp only [List.nil_append]
    exact ih

/-- HYPOTHESIS-FREE for the path the sweeper takes when no starting rate is supplied, with Go's
    arithmetic, inside the property's domain (`0 ≤ relay ≤ ceiling ≤ 2^27` sat/kw, ceiling > 0):
    the whole run is a ramp of `GoodTx`s from at least the relay fee up to at most
    `min(budget rate, MaxFeeRate)`.  (The conf target is `< 2^31` by `calcCurrentConfTarget_lt`,
    `start ≤ ceiling` and all overflow side conditions are proved.) -/
theorem go_publisher_ramp_estimated (r : Req) (height : Int) (est : Option Int) (relay : Int)
    (mp : List Ans) (pub : Ans) (blocks : List Block) (f0 : FeeFn) (hstart : r.start = none)
    (hnew : newLinear goMulF64 (maxFeeRateAllowed goMulF64 r.budget r.wBudget r.maxFeeRate)
      (calcCurrentConfTarget height r.deadline) r.start est relay = .ok f0)
    (hmax : 0 < maxFeeRateAllowed goMulF64 r.budget r.wBudget r.maxFeeRate)
    (hmax' : maxFeeRateAllowed goMulF64 r.budget r.wBudget r.maxFeeRate ≤ 2 ^ 27)
    (hrelay : 0 ≤ relay) (hdom : relay ≤ maxFeeRateAllowed goMulF64 r.budget r.wBudget r.maxFeeRate) :
    Ramp r relay (min (maxFeeRateAllowed goMulF64 r.budget r.wBudget r.maxFeeRate) r.maxFeeRate)
      ((initialBroadcast goMulF64 r height est relay mp pub).emitted ++
        (runBumps goMulF64 r (initialBroadcast goMulF64 r height est relay mp pub).rcd blocks).2) := by
  have hct : calcCurrentConfTarget height r.deadline < 2 ^ 32 :=
    Nat.lt_trans (calcCurrentConfTarget_lt _ _) (by norm_num)
  have hnew' := hnew
  rw [hstart] at hnew'
  obtain ⟨hs, hfloor, hend⟩ := go_sound_of_estimated hnew' hct hmax hmax' hrelay hdom
  obtain ⟨hcap, hr⟩ := publisher_ramp_partial goMulF64 r height est relay mp pub blocks f0 hnew hs
  have hmin : f0.end_ ≤ min (maxFeeRateAllowed goMulF64 r.budget r.wBudget r.maxFeeRate) r.maxFeeRate := by
    rw [hend]; exact Int.le_min.mpr ⟨Int.le_refl _, ceiling_le_maxFeeRate _ _ _ _⟩
  exact Ramp.weaken_hi hmin (Ramp.weaken_lo hfloor hr)

/-- the same for a CALLER-SUPPLIED start `s0` — `_partial`: needs `s0 ≤ ceiling`, which the code
    does not enforce (F-C18-start-above-ceiling; necessary by `rate_capped_iff_start_le_end`). -/
theorem go_publisher_ramp_caller_partial (r : Req) (height : Int) (est : Option Int) (relay s0 : Int)
    (mp : List Ans) (pub : Ans) (blocks : List Block) (f0 : FeeFn) (hstart : r.start = some s0)
    (hnew : newLinear goMulF64 (maxFeeRateAllowed goMulF64 r.budget r.wBudget r.maxFeeRate)
      (calcCurrentConfTarget height r.deadline) r.start est relay = .ok f0)
    (hle0 : s0 ≤ maxFeeRateAllowed goMulF64 r.budget r.wBudget r.maxFeeRate)
    (hsmall : maxFeeRateAllowed goMulF64 r.budget r.wBudget r.maxFeeRate - s0 ≤ 2 ^ 27)
    (hlo : -9223372036854775808 ≤ s0)
    (hhi : maxFeeRateAllowed goMulF64 r.budget r.wBudget r.maxFeeRate ≤ 2 ^ 61) :
    Ramp r (min s0 (maxFeeRateAllowed goMulF64 r.budget r.wBudget r.maxFeeRate))
      (min (maxFeeRateAllowed goMulF64 r.budget r.wBudget r.maxFeeRate) r.maxFeeRate)
      ((initialBroadcast goMulF64 r height est relay mp pub).emitted ++
        (runBumps goMulF64 r (initialBroadcast goMulF64 r height est relay mp pub).rcd blocks).2) := by
  have hct : calcCurrentConfTarget height r.deadline < 2 ^ 32 :=
    Nat.lt_trans (calcCurrentConfTarget_lt _ _) (by norm_num)
  have hnew' := hnew
  rw [hstart] at hnew'
  obtain ⟨hs, hend, hst⟩ := go_sound_of_caller hnew' hct hle0 hsmall hlo hhi
  obtain ⟨hcap, hr⟩ := publisher_ramp_partial goMulF64 r height est relay mp pub blocks f0 hnew hs
  have hmin : f0.end_ ≤ min (maxFeeRateAllowed goMulF64 r.budget r.wBudget r.maxFeeRate) r.maxFeeRate := by
    rw [hend]; exact Int.le_min.mpr ⟨Int.le_refl _, ceiling_le_maxFeeRate _ _ _ _⟩
  have hlow : min s0 (maxFeeRateAllowed goMulF64 r.budget r.wBudget r.maxFeeRate) ≤ f0.start := by
    by_cases hc : 2 ≤ calcCurrentConfTarget height r.deadline
    · rw [hst hc]; exact Int.min_le_left _ _
    · have := (sound_of_ct_le_one hnew' (by omega)).2
      rw [this]; exact Int.min_le_right _ _
  exact Ramp.weaken_hi hmin (Ramp.weaken_lo hlow hr)

/-! ## the int64 domain of `FeeForWeight` -/

/-- inside the int64 range of `rate · weight` a `GoodTx` built at a non-negative rate has a
    non-negative fee (so `fee ≤ Budget` is a real bound and outputs never exceed inputs). -/
theorem GoodTx.fee_nonneg {r : Req} {height rate : Int} {tx : Tx} (g : GoodTx r height rate tx)
    (h0 : 0 ≤ rate) (hw : InI64 (r.wTx : Int)) (hp : InI64 (rate * r.wTx)) : 0 ≤ tx.fee :=
  Int.le_trans (feeForWeight_nonneg h0 hw hp) g.fee_lower

/-- every transaction of a ramp whose rates stay inside the int64 domain of `FeeForWeight`
    (`hi · weight < 2^63`: always the case for the publisher ramps above, where `hi ≤ 2^27`)
    pays a fee in `[0, Budget]`. -/
theorem Ramp.fees {r : Req} {lo hi : Int} {em : Emitted} (h : Ramp r lo hi em) (h0 : 0 ≤ lo)
    (hw : InI64 (r.wTx : Int)) (hp : hi * r.wTx < 9223372036854775808) :
    ∀ e ∈ em, 0 ≤ e.2.fee ∧ e.2.fee ≤ r.budget := by
  intro e he
  obtain ⟨height, rate, h1, h2, g⟩ := h.mem e he
  have hr0 : 0 ≤ rate := Int.le_trans h0 h1
  have hle : rate * r.wTx ≤ hi * r.wTx := Int.mul_le_mul_of_nonneg_right h2 (Int.natCast_nonneg _)
  have hge : 0 ≤ rate * r.wTx := Int.mul_nonneg hr0 (Int.natCast_nonneg _)
  exact ⟨g.fee_nonneg hr0 hw (by simp only [InI64]; omega), g.fee_le_budget⟩

/-- WITNESS that the domain cannot be dropped (reproduced on the real `TxPublisher`): a
    caller-supplied starting rate of `2^55` sat/kw (`BumpFee` accepts any `uint64` `sat_per_vbyte`;
    the start is not clamped to the ceiling — F-C18-start-above-ceiling) on a 439 wu sweep of one
    100 000 sat input with budget 5 000: `FeeForWeight` overflows int64 to `-2 630 102 182 384 369`,
    which passes both `requiredOutput + fee > totalInput` and the budget check, and a transaction
    with a change output of 2.6·10^15 sat is handed to the backend. -/
theorem overflowing_start_passes_budget_check_witness :
    feeForWeight 36028797018963968 439 = -2630102182384369 ∧
    (createAndCheckTx ⟨[⟨100000, none, none⟩], 5000, 250000, 510, some 36028797018963968, 439, 439, 294, none⟩
      36028797018963968 500 .ok).1 = .ok ⟨[0], [(.change, 2630102182484369)], 500, -2630102182384369⟩ := by
  decide

/-! ## consistency of the reported result with the published transaction -/

/-- what a `Published` / `Replaced` result claims is what the published transaction does. -/
structure Consistent (r : Req) (height : Int) (o : StepOut) (tx : Tx) : Prop where
  /-- the tx is the last one handed to the backend, via `PublishTransaction`. -/
  last : o.emitted.getLast? = some (true, tx)
  /-- `BumpResult.Fee` is the tx's fee, which is `Σ inputs − Σ outputs` (`GoodTx.conserved`). -/
  fee : o.res.fee = tx.fee
  /-- the record's fee and tx are updated to it. -/
  rec_fee : o.rcd.fee = tx.fee
  rec_tx : o.rcd.tx = some tx
  /-- `BumpResult.FeeRate` is the fee function's current rate … -/
  rate : ∃ g, o.rcd.ff = some g ∧ g.cur = o.res.rate
  /-- … and the tx was built at exactly that rate:
      `FeeForWeight(FeeRate, weight) ≤ Fee < FeeForWeight(FeeRate, weight) + (1 | dust)`. -/
  good : GoodTx r height o.res.rate tx

theorem createRBFCompliantTx_ok_rate (M : MulDiv) (r : Req) (height : Int) :
    ∀ (fuel : Nat) (f : FeeFn) (mp : List Ans) (em : Emitted) (tx : Tx),
      (createRBFCompliantTx M r height fuel f mp em).res = .ok tx →
      GoodTx r height (createRBFCompliantTx M r height fuel f mp em).ff.cur tx := by
  intro fuel
  induction fuel with
  | zero => intro f mp em tx h; simp only [createRBFCompliantTx] at h; cases h
  | succ n ih =>
    intro f mp em tx
    unfold createRBFCompliantTx
    simp only []
    have hg := createAndCheckTx_good r f.cur height (nextAns mp).1
    cases hc : (createAndCheckTx r f.cur height (nextAns mp).1).1 with
    | ok tx' => simp only []; intro h; cases h; exact hg.2.1 tx hc
    | missing tx' => simp only []; intro h; cases h
    | err e =>
      simp only []
      split
      · split
        · intro h; cases h
        · exact ih _ _ _ tx
      · intro h; cases h

/-- `handleInitialBroadcast`: a `TxPublished` result reports the fee and fee rate of the
    transaction that was handed to `PublishTransaction` (no hypothesis). -/
theorem initialBroadcast_result_consistent (M : MulDiv) (r : Req) (height : Int) (est : Option Int)
    (relay : Int) (mp : List Ans) (pub : Ans)
    (hev : (initialBroadcast M r height est relay mp pub).res.event = .published) :
    ∃ tx, Consistent r height (initialBroadcast M r height est relay mp pub) tx := by
  cases hnew : newLinear M (maxFeeRateAllowed M r.budget r.wBudget r.maxFeeRate)
      (calcCurrentConfTarget height r.deadline) r.start est relay with
  | error e =>
    exfalso
    unfold initialBroadcast at hev
    simp only [hnew] at hev
    split at hev <;> cases hev
  | ok f0 =>
    cases hres : (createRBFCompliantTx M r height (f0.width + 8 + mp.length) f0 mp []).res with
    | ok tx =>
      have hg := createRBFCompliantTx_ok_rate M r height _ f0 mp [] tx hres
      have hout : initialBroadcast M r height est relay mp pub =
          ⟨{ ff := some (createRBFCompliantTx M r height (f0.width + 8 + mp.length) f0 mp []).ff,
             tx := some tx, fee := tx.fee,
             live := (broadcast (createRBFCompliantTx M r height (f0.width + 8 + mp.length) f0 mp []).ff tx pub
               .published).event != .failed },
           broadcast (createRBFCompliantTx M r height (f0.width + 8 + mp.length) f0 mp []).ff tx pub .published,
           (createRBFCompliantTx M r height (f0.width + 8 + mp.length) f0 mp []).emitted ++ [(true, tx)]⟩ := by
        unfold initialBroadcast
        simp only [hnew, hres]
      rw [hout]
      have hb : ∀ (f : FeeFn), (broadcast f tx pub .published).fee = tx.fee ∧
          (broadcast f tx pub .published).rate = f.cur := by
        intro f; unfold broadcast; split <;> exact ⟨rfl, rfl⟩
      refine ⟨tx, ⟨?_, (hb _).1, rfl, rfl, ⟨_, rfl, (hb _).2.symm⟩, ?_⟩⟩
      · simp only [List.getLast?_append, List.getLast?_singleton, Option.some_or]
      · show GoodTx r height (broadcast _ tx pub .published).rate tx
        rw [(hb _).2]; exact hg
    | missing tx =>
      exfalso
      unfold initialBroadcast at hev
      simp only [hnew, hres] at hev
      cases hev
    | err e =>
      exfalso
      unfold initialBroadcast at hev
      simp only [hnew, hres] at hev
      split at hev
      · cases hev
      · split at hev <;> cases hev

/-- `handleFeeBumpTx`: a `TxReplaced` result reports the fee and fee rate of the replacement
    transaction handed to `PublishTransaction` (no hypothesis). -/
theorem feeBump_result_consistent (M : MulDiv) (r : Req) (rc : Rec) (height : Int) (mp : List Ans)
    (pub : Ans) (hev : (feeBump M r rc height mp pub).res.event = .replaced) :
    ∃ tx, Consistent r height (feeBump M r rc height mp pub) tx := by
  have hno : ∀ (rc' : Rec) (em : Emitted),
      (StepOut.mk rc' ⟨.none, none, 0, 0⟩ em).res.event = .replaced → False := by
    intro _ _ h; cases h
  cases hf : rc.ff with
  | none => exfalso; unfold feeBump at hev; simp only [hf] at hev; cases hev
  | some f =>
    cases ht : rc.tx with
    | none => exfalso; unfold feeBump at hev; simp only [hf, ht] at hev; cases hev
    | some t =>
      cases hinc : f.increaseFeeRate M (calcCurrentConfTarget height r.deadline) with
      | error e => exfalso; unfold feeBump at hev; simp only [hf, ht, hinc] at hev; cases hev
      | ok gi =>
        obtain ⟨g, increased⟩ := gi
        cases increased with
        | false =>
          exfalso; unfold feeBump at hev
          simp only [hf, ht, hinc, Bool.not_false, if_true] at hev; cases hev
        | true =>
          have hg := createAndCheckTx_good r g.cur height (nextAns mp).1
          cases hc : (createAndCheckTx r g.cur height (nextAns mp).1).1 with
          | ok tx =>
            cases hp : ansErr pub with
            | none =>
              have hout : feeBump M r rc height mp pub =
                  ⟨{ { rc with ff := some g } with tx := some tx, fee := tx.fee },
                   ⟨.replaced, none, g.cur, tx.fee⟩,
                   emitChecked (createAndCheckTx r g.cur height (nextAns mp).1).2 ++ [(true, tx)]⟩ := by
                unfold feeBump
                simp only [hf, ht, hinc, Bool.not_true, Bool.false_eq_true, if_false]
                rw [show createAndCheckTx r g.cur height (nextAns mp).1 =
                  ((createAndCheckTx r g.cur height (nextAns mp).1).1,
                   (createAndCheckTx r g.cur height (nextAns mp).1).2) from rfl]
                simp only [hc, hp]
              rw [hout]
              refine ⟨tx, ⟨?_, rfl, rfl, rfl, ⟨g, rfl, rfl⟩, hg.2.1 tx hc⟩⟩
              simp only [List.getLast?_append, List.getLast?_singleton, Option.some_or]
            | some e =>
              exfalso; unfold feeBump at hev
              simp only [hf, ht, hinc, Bool.not_true, Bool.false_eq_true, if_false] at hev
              rw [show createAndCheckTx r g.cur height (nextAns mp).1 =
                ((createAndCheckTx r g.cur height (nextAns mp).1).1,
                 (createAndCheckTx r g.cur height (nextAns mp).1).2) from rfl] at hev
              simp only [hc, hp] at hev
              cases e <;> cases hev
          | missing tx =>
            exfalso; unfold feeBump at hev
            simp only [hf, ht, hinc, Bool.not_true, Bool.false_eq_true, if_false] at hev
            rw [show createAndCheckTx r g.cur height (nextAns mp).1 =
              ((createAndCheckTx r g.cur height (nextAns mp).1).1,
               (createAndCheckTx r g.cur height (nextAns mp).1).2) from rfl] at hev
            simp only [hc] at hev
            cases hev
          | err e =>
            exfalso; unfold feeBump at hev
            simp only [hf, ht, hinc, Bool.not_true, Bool.false_eq_true, if_false] at hev
            rw [show createAndCheckTx r g.cur height (nextAns mp).1 =
              ((createAndCheckTx r g.cur height (nextAns mp).1).1,
               (createAndCheckTx r g.cur height (nextAns mp).1).2) from rfl] at hev
            simp only [hc] at hev
            split at hev <;> cases hev

/-! ## non-vacuity -/

/-- a three-block run on the estimated path satisfying every hypothesis of
    `go_publisher_ramp_estimated`: budget 20 000 sat, weight 1000, relay 253. -/
example : ∃ f0, newLinear goMulF64 (maxFeeRateAllowed goMulF64 20000 1000 250000)
    (calcCurrentConfTarget 100 110) none (some 300) 253 = .ok f0 ∧
    0 < maxFeeRateAllowed goMulF64 20000 1000 250000 ∧
    maxFeeRateAllowed goMulF64 20000 1000 250000 ≤ 2 ^ 27 ∧
    (253 : Int) ≤ maxFeeRateAllowed goMulF64 20000 1000 250000 :=
  ⟨⟨300, 20000, 300, 9, 0, 2188889⟩, by decide, by decide, by decide, by decide⟩

/-- a published result, so `initialBroadcast_result_consistent` is not vacuous. -/
example : (initialBroadcast goMulF64
    ⟨[⟨100000, none, none⟩], 20000, 250000, 110, none, 1000, 1000, 294, none⟩ 100 (some 300) 253 [] .ok).res.event
      = .published := by decide

/-- … and a replaced one for `feeBump_result_consistent`. -/
example :
    let r : Req := ⟨[⟨100000, none, none⟩], 20000, 250000, 110, none, 1000, 1000, 294, none⟩
    (feeBump goMulF64 r (initialBroadcast goMulF64 r 100 (some 300) 253 [] .ok).rcd 101 [] .ok).res.event
      = .replaced := by decide

end LndModel.C18
