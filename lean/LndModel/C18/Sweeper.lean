/-
C18 — executable model of `UtxoSweeper`'s pending-input state machine (sweep/sweeper.go), the
layer that turns pending inputs into `BumpRequest`s and feeds the publisher's results back into
the inputs' parameters (the retry path that writes the rate reported by a failed sweep into
`params.StartingFeeRate`, the mempool/store lookup at (re)start that restarts an input at the
rate of our own mempool tx).

Modelled: `handleNewInput` (new input incl. `decideRBFInfo` / `calculateDefaultDeadline`, and
`handleExistingInput`), `handleUpdateReq`, `updateSweeperInputs` (removal of terminated inputs,
skip of PendingPublish / Published / immature inputs), `sweepPendingInputs` (ClusterInputs incl.
exclusive groups, `NeedWalletInput` / `AddWalletInputs`, `sweep`, `markInputsPendingPublish`),
`handleBumpEvent` (TxPublished, TxReplaced incl. the store-lookup error exit, TxFailed,
TxUnknownSpend incl. `handleUnknownSpendTx` and the immediate retry, TxFatal),
`handleInputSpent` / `markInputsSwept` / `removeExclusiveGroup`, the collector's "sweep at once
when Immediate" after a new input / an update.

Parameters from the implementation: an input's weight, the chain/mempool/store answers
(`rbf` of an offer, `ours` of a spend, `oldKnown` of a replacement), the wallet's UTXO list.
Core Lean only.
-/
import LndModel.C18.Model

namespace LndModel.C18

inductive SState
  | init | pendingPublish | published | publishFailed | swept | excluded | fatal
deriving Repr, DecidableEq

def SState.name : SState → String
  | .init => "Init" | .pendingPublish => "PendingPublish" | .published => "Published"
  | .publishFailed => "PublishFailed" | .swept => "Swept" | .excluded => "Excluded"
  | .fatal => "Fatal"

/-- `SweeperInput.terminated()`. -/
def SState.terminated : SState → Bool
  | .swept | .excluded | .fatal => true
  | _ => false

/-- a pending input of the sweeper: the aggregator's view `p` (budget, deadline =
    `pi.DeadlineHeight`, start = `params.StartingFeeRate`, immediate, locktime, weight, value,
    required output) plus the sweeper's own bookkeeping. -/
structure SIn where
  p : PInp
  state : SState := .init
  /-- `publishAttempts`. -/
  attempts : Nat := 0
  /-- `params.ExclusiveGroup`. -/
  group : Option Nat := none
  /-- `lastFeeRate`. -/
  lastRate : Int := 0
  /-- `BlocksToMaturity()` and `HeightHint()`. -/
  csv : Nat := 0
  hint : Nat := 1
deriving Repr, DecidableEq

/-- `SweeperInput.isMature(height)`: (mature, locktime found). -/
def SIn.isMature (i : SIn) (height : Nat) : Bool × Nat :=
  let lt := i.p.lt.getD 0
  if height < lt then (false, lt)
  else
    let m := i.csv + i.hint
    if height + 1 < m then (false, m) else (true, m)

structure Sweeper where
  inputs : List SIn := []
  height : Int := 0
deriving Repr, DecidableEq

/-- the parameters of a sweep request (`Params`). -/
structure SParams where
  budget : Int
  deadline : Option Int
  start : Option Int
  immediate : Bool
  group : Option Nat
deriving Repr, DecidableEq

/-- the static description of an input offered to the sweeper. -/
structure SDesc where
  idx : Nat
  value : Int
  wu : Nat
  lt : Option Nat
  csv : Nat
  req : Option Int
  reqSize : Nat
deriving Repr, DecidableEq

/-- what `UtxoSweeper.sweep` hands to the publisher (summary of the `BumpRequest`): the members
    (pending inputs by index, then wallet inputs by value), `Budget()`, `DeadlineHeight()`,
    `StartingFeeRate()`, `Immediate()`. -/
structure SReq where
  /-- the pending inputs of the set (`members` are their indices). -/
  ins : List PInp
  members : List Nat
  wallet : List Int
  budget : Int
  deadline : Int
  start : Option Int
  immediate : Bool
deriving Repr, DecidableEq

inductive BEvent | published | replaced | failed | unknownSpend | fatal | confirmed
deriving Repr, DecidableEq

inductive SOp
  /-- `SweepInput` reaching `handleNewInput`; `rbf` = fee rate of OUR mempool tx spending the
      input (found in the sweeper store), if any; `noDl` = `NoDeadlineConfTarget`. -/
  | offer (d : SDesc) (q : SParams) (rbf : Option Int) (noDl : Nat)
  /-- `UpdateParams` reaching `handleUpdateReq`. -/
  | update (idx : Nat) (q : SParams)
  /-- a block beat: new height, then `sweepPendingInputs`. -/
  | block (h : Int)
  /-- a `BumpResult` for the set with these members reaching `handleBumpEvent`. `spent`: the
      inputs reported spent (`SpentInputs`) with "the spending tx is one of ours". -/
  | result (members : List Nat) (ev : BEvent) (rate : Int) (oldKnown : Bool)
      (spent : List (Nat × Bool))
  /-- a spend notification reaching `handleInputSpent`: outpoints spent by the tx. -/
  | spend (ins : List Nat) (ours : Bool)
deriving Repr, DecidableEq

def Sweeper.find? (s : Sweeper) (k : Nat) : Option SIn := s.inputs.find? (·.p.idx == k)

/-- apply `f` to the input with index `k` (if present). -/
def Sweeper.modify (s : Sweeper) (k : Nat) (f : SIn → SIn) : Sweeper :=
  { s with inputs := s.inputs.map fun i => if i.p.idx == k then f i else i }

/-- `removeExclusiveGroup(group, op)`: every other live input of the group becomes Excluded. -/
def Sweeper.removeExclusiveGroup (s : Sweeper) (g : Nat) (keep : Nat) : Sweeper :=
  { s with inputs := s.inputs.map fun i =>
      if i.p.idx != keep && i.group == some g && !i.state.terminated then { i with state := .excluded }
      else i }

/-- `updateSweeperInputs`: drop terminated inputs; the inputs to sweep now are those in Init /
    PublishFailed that are mature. -/
def Sweeper.clean (s : Sweeper) : Sweeper :=
  { s with inputs := s.inputs.filter fun i => !i.state.terminated }

def Sweeper.sweepable (s : Sweeper) : List SIn :=
  s.inputs.filter fun i =>
    (i.state == .init || i.state == .publishFailed) && (i.isMature s.height.toNat).1

/-- `BudgetAggregator.ClusterInputs` with exclusive groups: the non-exclusive inputs are
    clustered by `clusterInputs`; every exclusive input passing the filter is a set of its own. -/
def clusterX (relay : Int) (maxInputs : Nat) (l : List SIn) : List InSet :=
  let plain := (l.filter (·.group.isNone)).map (·.p)
  let excl := filterInputs relay ((l.filter (·.group.isSome)).map (·.p))
  clusterInputs relay maxInputs plain ++ excl.map fun i => ⟨i.deadline, [i]⟩

/-- `BudgetInputSet.Immediate()`. -/
def setImmediate (l : List PInp) : Bool := l.any (·.immediate)

/-- `markInputsPendingPublish(set)` for the pending inputs `ids` of the set. -/
def Sweeper.markPending (s : Sweeper) (ids : List Nat) : Sweeper :=
  { s with inputs := s.inputs.map fun i =>
      if ids.contains i.p.idx && !i.state.terminated then
        { i with state := .pendingPublish, attempts := i.attempts + 1 }
      else i }

/-- the request `sweep(set)` builds for a set after the optional wallet top-up; `none` when the
    top-up fails (`ErrNotEnoughInputs`: the set is skipped). -/
def reqOfSet? (utxos : List Utxo) (st : InSet) : Option SReq :=
  match topUp 0 utxos st with
  | .error _ => none
  | .ok t =>
    some ⟨st.inputs, st.inputs.map (·.idx), (t.inputs.drop st.inputs.length).map (·.value),
      setBudget t.inputs, t.deadline, setStart t.inputs, setImmediate t.inputs⟩

/-- one set in `sweepPendingInputs`: top up if needed (error: the set is skipped, nothing is
    marked), then `sweep(set)`. -/
def Sweeper.sweepSet (utxos : List Utxo) (acc : Sweeper × List SReq) (st : InSet) :
    Sweeper × List SReq :=
  match reqOfSet? utxos st with
  | none => acc
  | some q => (acc.1.markPending q.members, acc.2 ++ [q])

/-- `updateSweeperInputs` + `sweepPendingInputs`. -/
def Sweeper.sweepPending (relay : Int) (maxInputs : Nat) (utxos : List Utxo) (s : Sweeper) :
    Sweeper × List SReq :=
  let s := s.clean
  (clusterX relay maxInputs s.sweepable).foldl (Sweeper.sweepSet utxos) (s, [])

/-- `markInputsPublished`. -/
def Sweeper.markPublished (s : Sweeper) (ids : List Nat) (rate : Int) : Sweeper :=
  { s with inputs := s.inputs.map fun i =>
      if ids.contains i.p.idx && i.state == .pendingPublish then
        { i with state := .published, lastRate := rate }
      else i }

/-- `markInputsPublishFailed(set, feeRate)` (since repair e6d6149): the new starting rate is the
    larger of the rate already recorded for the input and the rate the failed sweep reports (a
    failure may report none: 0). -/
def Sweeper.markFailed (s : Sweeper) (ids : List Nat) (rate : Int) : Sweeper :=
  { s with inputs := s.inputs.map fun i =>
      if ids.contains i.p.idx && (i.state == .pendingPublish || i.state == .published) then
        { i with state := .publishFailed, p := { i.p with start := some (max rate (i.p.start.getD 0)) } }
      else i }

/-- the behaviour BEFORE repair e6d6149 (kept as a variant, not used by `step`): the reported rate
    overwrites the recorded one. -/
def Sweeper.markFailedOverwrite (s : Sweeper) (ids : List Nat) (rate : Int) : Sweeper :=
  { s with inputs := s.inputs.map fun i =>
      if ids.contains i.p.idx && (i.state == .pendingPublish || i.state == .published) then
        { i with state := .publishFailed, p := { i.p with start := some rate } }
      else i }

/-- `markInputsFatal`. -/
def Sweeper.markFatal (s : Sweeper) (ids : List Nat) : Sweeper :=
  { s with inputs := s.inputs.map fun i =>
      if ids.contains i.p.idx && !i.state.terminated then { i with state := .fatal } else i }

/-- the loop of `handleBumpEventTxUnknownSpend` over the set's members (in set order). Returns
    the state and whether some input is to be retried. -/
def Sweeper.unknownSpendLoop (spent : List (Nat × Bool)) : List Nat → Sweeper → Bool → Sweeper × Bool
  | [], s, retry => (s, retry)
  | k :: rest, s, retry =>
    match s.find? k with
    | none => Sweeper.unknownSpendLoop spent rest s retry
    | some i =>
      match spent.find? (·.1 == k) with
      | some (_, true) =>
        -- markInputSwept (no terminated() check in the code)
        let s := s.modify k fun j => { j with state := .swept }
        let s := match i.group with
          | some g => s.removeExclusiveGroup g k
          | none => s
        Sweeper.unknownSpendLoop spent rest s retry
      | some (_, false) =>
        Sweeper.unknownSpendLoop spent rest (s.modify k fun j => { j with state := .fatal }) retry
      | none =>
        Sweeper.unknownSpendLoop spent rest
          (s.modify k fun j => { j with p := { j.p with immediate := true } }) true

/-- the loop of `markInputsSwept` over the spending tx's inputs. -/
def Sweeper.sweptLoop : List Nat → Sweeper → Sweeper
  | [], s => s
  | k :: rest, s =>
    match s.find? k with
    | none => Sweeper.sweptLoop rest s
    | some i =>
      if i.state.terminated then Sweeper.sweptLoop rest s
      else
        let s := s.modify k fun j => { j with state := .swept }
        let s := match i.group with
          | some g => s.removeExclusiveGroup g k
          | none => s
        Sweeper.sweptLoop rest s

/-- `calculateDefaultDeadline`. -/
def defaultDeadline (height : Int) (noDl : Nat) (i : SIn) : Int :=
  let m := i.isMature height.toNat
  if m.1 then height + noDl else (m.2 + noDl : Nat)

/-- environment of a step: relay fee, `MaxInputsPerTx`, the wallet's UTXOs. -/
structure SEnv where
  relay : Int
  maxInputs : Nat
  utxos : List Utxo

/-- one iteration of the collector loop: `updateSweeperInputs()`, then the event. Returns the
    new state, the requests handed to the publisher and (for `update`) whether the input was
    known. -/
def Sweeper.step (e : SEnv) (s : Sweeper) (op : SOp) : Sweeper × List SReq × Bool :=
  let s := s.clean
  let sweepNow (s : Sweeper) (known : Bool := true) : Sweeper × List SReq × Bool :=
    let r := s.sweepPending e.relay e.maxInputs e.utxos
    (r.1, r.2, known)
  match op with
  | .offer d q rbf noDl =>
    match s.find? d.idx with
    | some old =>
      -- handleExistingInput: params and input replaced, state kept
      let s := s.modify d.idx fun i =>
        { i with
          p := { idx := d.idx, budget := q.budget, deadline := q.deadline.getD i.p.deadline,
                 start := q.start, immediate := q.immediate, lt := d.lt, wu := d.wu, value := d.value,
                 req := d.req, reqSize := d.reqSize },
          group := q.group, csv := d.csv }
      let s := match old.group with
        | some g => s.removeExclusiveGroup g d.idx
        | none => s
      if q.immediate then sweepNow s else (s, [], true)
    | none =>
      let i0 : SIn :=
        { p := { idx := d.idx, budget := q.budget, deadline := 0,
                 start := (match rbf with | some r => some r | none => q.start),
                 immediate := q.immediate, lt := d.lt, wu := d.wu, value := d.value, req := d.req,
                 reqSize := d.reqSize },
          group := q.group, csv := d.csv }
      let i := { i0 with p := { i0.p with deadline := q.deadline.getD (defaultDeadline s.height noDl i0) } }
      let s := { s with inputs := s.inputs ++ [i] }
      if q.immediate then sweepNow s else (s, [], true)
  | .update k q =>
    match s.find? k with
    | none =>
      -- ErrNotMine; the collector still sweeps at once when the request says Immediate
      if q.immediate then sweepNow s false else (s, [], false)
    | some _ =>
      let s := s.modify k fun i =>
        { i with
          p := { i.p with budget := q.budget, deadline := q.deadline.getD i.p.deadline, start := q.start,
                          immediate := q.immediate },
          state := .init }
      if q.immediate then sweepNow s else (s, [], true)
  | .block h => sweepNow { s with height := h }
  | .result members ev rate oldKnown spent =>
    match ev with
    | .published => (s.markPublished members rate, [], true)
    | .replaced => if oldKnown then (s.markPublished members rate, [], true) else (s, [], true)
    | .failed => (s.markFailed members rate, [], true)
    | .fatal => (s.markFatal members, [], true)
    | .confirmed => (s, [], true)
    | .unknownSpend =>
      let s := s.markFailed members rate
      let r := Sweeper.unknownSpendLoop spent members s false
      if r.2 then sweepNow r.1 else (r.1, [], true)
  | .spend ins _ => (Sweeper.sweptLoop ins s, [], true)

/-- run a list of events; collects all requests. -/
def Sweeper.run (e : SEnv) : Sweeper → List SOp → Sweeper × List SReq
  | s, [] => (s, [])
  | s, op :: rest =>
    let r := s.step e op
    let t := Sweeper.run e r.1 rest
    (t.1, r.2.1 ++ t.2)

end LndModel.C18
