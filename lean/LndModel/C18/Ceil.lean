/-
C18 — accuracy of the budget rate (round 5): `chainfee.NewSatPerKWeight(budget, weight)`, computed
in binary64 as `int64(float64(budget) * (1000 / float64(weight)) + 0.5)`, is within 0.51 sat/kw of
the exact quotient `budget·1000/weight` (for budget rates up to 2^40 sat/kw).  Consequences in
integers: the fee of a transaction of that weight at the budget rate overshoots the budget by at
most `⌊0.00051·weight⌋` sat — nothing for weights below 1961 wu, 1 sat for the 2350 wu of the
`no-tx-at-ceiling-by-deadline` witness — and undershoots it by at most that plus one.
This turns the monitor clause `ceiling` ("MaxFeeRateAllowed ≈ budget·1000/weight") into a theorem
and quantifies the known finding F-C18-no-tx-at-ceiling (cause `rounding`).
-/
import LndModel.C18.Float

namespace LndModel.C18

theorem rheQ_near (t : ℚ) : |(rheQ t : ℚ) - t| ≤ 1 / 2 := by
  have h1 : (⌊t⌋ : ℚ) ≤ t := Int.floor_le t
  have h2 : t < (⌊t⌋ : ℚ) + 1 := Int.lt_floor_add_one t
  unfold rheQ
  rw [abs_le]
  split_ifs <;> push_cast <;> constructor <;> linarith

/-- one rounding has relative error at most `2^-53`. -/
theorem IsRnd.err {x v : ℚ} (h : IsRnd x v) : |v - x| ≤ x / 2 ^ 53 := by
  rcases h with ⟨hx, hv⟩ | ⟨e, h1, _, hv⟩
  · rw [hx, hv]; simp
  · have hp := two_zpow_pos e
    set t := x / (2 : ℚ) ^ e with ht
    have hxt : x = t * (2 : ℚ) ^ e := by rw [ht]; field_simp
    have hn := rheQ_near t
    have hd : v - x = ((rheQ t : ℚ) - t) * (2 : ℚ) ^ e := by rw [hv]; linarith [hxt]
    rw [hd, abs_mul, abs_of_pos hp]
    have hle : |(rheQ t : ℚ) - t| * (2 : ℚ) ^ e ≤ 1 / 2 * (2 : ℚ) ^ e :=
      mul_le_mul_of_nonneg_right hn (le_of_lt hp)
    have hx' : (2 : ℚ) ^ (52 : ℕ) * (2 : ℚ) ^ e ≤ x := by
      rw [hxt]; exact mul_le_mul_of_nonneg_right h1 (le_of_lt hp)
    have : 1 / 2 * (2 : ℚ) ^ e ≤ x / 2 ^ 53 := by
      rw [le_div_iff₀ (by norm_num)]
      have e53 : (2 : ℚ) ^ 53 = 2 * (2 : ℚ) ^ (52 : ℕ) := by norm_num
      rw [e53]; nlinarith
    linarith

theorem IsRnd.upper {x v : ℚ} (h : IsRnd x v) : v ≤ x * (1 + 1 / 2 ^ 53) := by
  have := abs_le.mp h.err
  have e : x * (1 + 1 / 2 ^ 53) = x + x / 2 ^ 53 := by ring
  rw [e]; linarith [this.2]

theorem IsRnd.lower {x v : ℚ} (h : IsRnd x v) : x * (1 - 1 / 2 ^ 53) ≤ v := by
  have := abs_le.mp h.err
  have e : x * (1 - 1 / 2 ^ 53) = x - x / 2 ^ 53 := by ring
  rw [e]; linarith [this.1]

/-- `mulF64Mag a 1000 w` (the magnitude of `NewSatPerKWeight(a, w)`) is within 0.51 of `1000·a/w`
    whenever that quotient is at most `2^40`. -/
theorem mulF64Mag_1000_accuracy (a w : Nat) (hw : 0 < w) (hx : 1000 * a ≤ 1099511627776 * w) :
    ((mulF64Mag a 1000 w : Nat) : ℚ) ≤ (1000 * a : ℚ) / w + 51 / 100 ∧
    (1000 * a : ℚ) / w - 51 / 100 ≤ ((mulF64Mag a 1000 w : Nat) : ℚ) := by
  set c : ℚ := 1 + 1 / 2 ^ 53 with hc
  set d : ℚ := 1 - 1 / 2 ^ 53 with hd
  have hc0 : (0 : ℚ) < c := by rw [hc]; norm_num
  have hd0 : (0 : ℚ) < d := by rw [hd]; norm_num
  have hwq : (0 : ℚ) < w := by exact_mod_cast hw
  have haq : (0 : ℚ) ≤ a := by exact_mod_cast Nat.zero_le a
  set x : ℚ := (1000 * a : ℚ) / w with hxdef
  have hx0 : 0 ≤ x := by rw [hxdef]; positivity
  have hxle : x ≤ 2 ^ 40 := by
    rw [hxdef, div_le_iff₀ hwq]
    have : ((1000 * a : ℕ) : ℚ) ≤ ((1099511627776 * w : ℕ) : ℚ) := by exact_mod_cast hx
    push_cast at this
    norm_num
    linarith
  -- the five roundings
  have sA := f64OfNat_spec a
  have sN := f64OfNat_spec 1000
  have sD := f64OfNat_spec w
  set A := (f64OfNat a).val with hA
  set N := (f64OfNat 1000).val with hN
  set D := (f64OfNat w).val with hD
  have hA0 : 0 ≤ A := sA.nonneg
  have hN0 : 0 ≤ N := sN.nonneg
  have hDlo : (w : ℚ) * d ≤ D := sD.lower
  have hDhi : D ≤ (w : ℚ) * c := sD.upper
  have hDpos : 0 < D := lt_of_lt_of_le (mul_pos hwq hd0) hDlo
  have hdm := Dy.m_pos_of_val_pos hDpos
  have sQ := f64Div_spec (f64OfNat 1000) (f64OfNat w) hdm
  set Q := (f64Div (f64OfNat 1000) (f64OfNat w)).val with hQ
  have hQ0 : 0 ≤ Q := sQ.nonneg
  have sP := f64Mul_spec (f64OfNat a) (f64Div (f64OfNat 1000) (f64OfNat w))
  set P := (f64Mul (f64OfNat a) (f64Div (f64OfNat 1000) (f64OfNat w))).val with hP
  have hP0 : 0 ≤ P := sP.nonneg
  have sS := f64AddHalf_spec (f64Mul (f64OfNat a) (f64Div (f64OfNat 1000) (f64OfNat w)))
  set S := (f64AddHalf (f64Mul (f64OfNat a) (f64Div (f64OfNat 1000) (f64OfNat w)))).val with hS
  have hfl := f64Trunc_spec (f64AddHalf (f64Mul (f64OfNat a) (f64Div (f64OfNat 1000) (f64OfNat w))))
  have hres : ((mulF64Mag a 1000 w : Nat) : ℚ) = ((⌊S⌋ : ℤ) : ℚ) := by
    unfold mulF64Mag
    rw [← hfl]; push_cast; rfl
  rw [hres]
  have hAhi : A ≤ (a : ℚ) * c := sA.upper
  have hAlo : (a : ℚ) * d ≤ A := sA.lower
  have e1000 : ((1000 : ℕ) : ℚ) = 1000 := by norm_num
  have hNhi : N ≤ (1000 : ℚ) * c := by have := sN.upper; rw [e1000] at this; exact this
  have hNlo : (1000 : ℚ) * d ≤ N := by have := sN.lower; rw [e1000] at this; exact this
  constructor
  · -- upper bound
    have h1 : N / D ≤ (1000 * c) / (w * d) :=
      div_le_div₀ (by positivity) hNhi (mul_pos hwq hd0) hDlo
    have h2 : Q ≤ (1000 * c) / (w * d) * c :=
      le_trans sQ.upper (mul_le_mul_of_nonneg_right h1 (le_of_lt hc0))
    have h3 : A * Q ≤ (a * c) * ((1000 * c) / (w * d) * c) :=
      mul_le_mul hAhi h2 hQ0 (by positivity)
    have h4 : P ≤ (a * c) * ((1000 * c) / (w * d) * c) * c :=
      le_trans sP.upper (mul_le_mul_of_nonneg_right h3 (le_of_lt hc0))
    have h5 : S ≤ ((a * c) * ((1000 * c) / (w * d) * c) * c + 1 / 2) * c :=
      le_trans sS.upper (mul_le_mul_of_nonneg_right (by linarith) (le_of_lt hc0))
    have e : ((a * c) * ((1000 * c) / (w * d) * c) * c + 1 / 2) * c = x * (c ^ 5 / d) + c / 2 := by
      rw [hxdef]; field_simp
    rw [e] at h5
    have hK : c ^ 5 / d ≤ 1 + 1 / 2 ^ 50 := by rw [hc, hd]; norm_num
    have h6 : x * (c ^ 5 / d) ≤ x * (1 + 1 / 2 ^ 50) := mul_le_mul_of_nonneg_left hK hx0
    have h7 : x * (1 + 1 / 2 ^ 50) ≤ x + 1 / 2 ^ 10 := by
      have : x * (1 / 2 ^ 50) ≤ 2 ^ 40 * (1 / 2 ^ 50) := mul_le_mul_of_nonneg_right hxle (by norm_num)
      have e2 : (2 : ℚ) ^ 40 * (1 / 2 ^ 50) = 1 / 2 ^ 10 := by norm_num
      rw [e2] at this; linarith
    have hc2 : c / 2 ≤ 1 / 2 + 1 / 2 ^ 10 := by rw [hc]; norm_num
    have : ((⌊S⌋ : ℤ) : ℚ) ≤ S := Int.floor_le S
    have e3 : (1 : ℚ) / 2 ^ 10 + 1 / 2 ^ 10 + 1 / 2 ≤ 51 / 100 := by norm_num
    linarith
  · -- lower bound
    have hwc : (0 : ℚ) < w * c := mul_pos hwq hc0
    have h1 : (1000 * d) / (w * c) ≤ N / D :=
      div_le_div₀ hN0 hNlo hDpos hDhi
    have h2 : (1000 * d) / (w * c) * d ≤ Q :=
      le_trans (mul_le_mul_of_nonneg_right h1 (le_of_lt hd0)) sQ.lower
    have h3 : (a * d) * ((1000 * d) / (w * c) * d) ≤ A * Q :=
      mul_le_mul hAlo h2 (by positivity) hA0
    have h4 : (a * d) * ((1000 * d) / (w * c) * d) * d ≤ P :=
      le_trans (mul_le_mul_of_nonneg_right h3 (le_of_lt hd0)) sP.lower
    have h5 : ((a * d) * ((1000 * d) / (w * c) * d) * d + 1 / 2) * d ≤ S :=
      le_trans (mul_le_mul_of_nonneg_right (by linarith) (le_of_lt hd0)) sS.lower
    have e : ((a * d) * ((1000 * d) / (w * c) * d) * d + 1 / 2) * d = x * (d ^ 5 / c) + d / 2 := by
      rw [hxdef]; field_simp
    rw [e] at h5
    have hK : 1 - 1 / 2 ^ 50 ≤ d ^ 5 / c := by rw [hc, hd]; norm_num
    have h6 : x * (1 - 1 / 2 ^ 50) ≤ x * (d ^ 5 / c) := mul_le_mul_of_nonneg_left hK hx0
    have h7 : x - 1 / 2 ^ 10 ≤ x * (1 - 1 / 2 ^ 50) := by
      have : x * (1 / 2 ^ 50) ≤ 2 ^ 40 * (1 / 2 ^ 50) := mul_le_mul_of_nonneg_right hxle (by norm_num)
      have e2 : (2 : ℚ) ^ 40 * (1 / 2 ^ 50) = 1 / 2 ^ 10 := by norm_num
      rw [e2] at this; linarith
    have hd2 : 1 / 2 - 1 / 2 ^ 10 ≤ d / 2 := by rw [hd]; norm_num
    have : S < ((⌊S⌋ : ℤ) : ℚ) + 1 := Int.lt_floor_add_one S
    have e3 : (1 : ℚ) / 2 ^ 10 + 1 / 2 ^ 10 + 1 / 2 ≤ 51 / 100 := by norm_num
    linarith

theorem newSatPerKWeight_eq (M : MulDiv) (fee : Int) (wu : Nat) :
    newSatPerKWeight M fee wu = M fee 1000 wu := rfl

theorem goMulF64_natCast (a n d : Nat) (h : (mulF64Mag a n d : Int) < 2 ^ 63) :
    goMulF64 (a : Int) n d = mulF64Mag a n d := by
  have h' : (mulF64Mag (a : Int).natAbs n d : Int) < 2 ^ 63 := by
    rw [Int.natAbs_natCast]; exact h
  have := goMulF64_of_nonneg (a := (a : Int)) (Int.natCast_nonneg a) n d h'
  rw [Int.natAbs_natCast] at this
  exact this

/-- `budget_rate_accuracy` — `NewSatPerKWeight(budget, weight)` in Go's arithmetic, as an integer
    statement: `|rate·weight − budget·1000| ≤ 0.51·weight`, for every budget `≥ 0` and weight
    `> 0` with budget rate at most `2^40 = 1099511627776` sat/kw. -/
theorem budget_rate_accuracy (budget : Int) (w : Nat) (hb : 0 ≤ budget) (hw : 0 < w)
    (hx : 1000 * budget ≤ 1099511627776 * (w : Int)) :
    100 * (newSatPerKWeight goMulF64 budget w * w - 1000 * budget) ≤ 51 * w ∧
    100 * (1000 * budget - newSatPerKWeight goMulF64 budget w * w) ≤ 51 * w ∧
    0 ≤ newSatPerKWeight goMulF64 budget w ∧ newSatPerKWeight goMulF64 budget w ≤ 1099511627777 := by
  obtain ⟨a, rfl⟩ := Int.eq_ofNat_of_zero_le hb
  have hx' : 1000 * a ≤ 1099511627776 * w := by exact_mod_cast hx
  obtain ⟨hup, hlo⟩ := mulF64Mag_1000_accuracy a w hw hx'
  have hwq : (0 : ℚ) < w := by exact_mod_cast hw
  have hxle : (1000 * a : ℚ) / w ≤ 1099511627776 := by
    rw [div_le_iff₀ hwq]
    have : ((1000 * a : ℕ) : ℚ) ≤ ((1099511627776 * w : ℕ) : ℚ) := by exact_mod_cast hx'
    push_cast at this
    linarith
  have hsmall : mulF64Mag a 1000 w ≤ 1099511627777 := by
    have h2 : ((mulF64Mag a 1000 w : Nat) : ℚ) < ((1099511627778 : Nat) : ℚ) := by push_cast; linarith
    have h3 : mulF64Mag a 1000 w < 1099511627778 := by exact_mod_cast h2
    omega
  have hval : newSatPerKWeight goMulF64 (a : Int) w = mulF64Mag a 1000 w := by
    rw [newSatPerKWeight_eq]
    apply goMulF64_natCast
    have : ((mulF64Mag a 1000 w : Nat) : Int) ≤ 1099511627777 := by exact_mod_cast hsmall
    have e63 : (2 : Int) ^ 63 = 9223372036854775808 := by norm_num
    rw [e63]; omega
  rw [hval]
  have hupw : ((mulF64Mag a 1000 w : Nat) : ℚ) * w ≤ 1000 * a + 51 / 100 * w := by
    have := mul_le_mul_of_nonneg_right hup (le_of_lt hwq)
    have e : ((1000 * a : ℚ) / w + 51 / 100) * w = 1000 * a + 51 / 100 * w := by field_simp
    rw [e] at this; exact this
  have hlow : (1000 * a : ℚ) - 51 / 100 * w ≤ ((mulF64Mag a 1000 w : Nat) : ℚ) * w := by
    have := mul_le_mul_of_nonneg_right hlo (le_of_lt hwq)
    have e : ((1000 * a : ℚ) / w - 51 / 100) * w = 1000 * a - 51 / 100 * w := by field_simp
    rw [e] at this; exact this
  refine ⟨?_, ?_, Int.natCast_nonneg _, by exact_mod_cast hsmall⟩
  · have : (100 * (((mulF64Mag a 1000 w : Nat) : ℚ) * w - 1000 * a)) ≤ 51 * w := by linarith
    exact_mod_cast this
  · have : (100 * (1000 * (a : ℚ) - ((mulF64Mag a 1000 w : Nat) : ℚ) * w)) ≤ 51 * w := by linarith
    exact_mod_cast this

/-- `ceiling_fee_bounds` — the fee of a transaction of weight `w` at the budget rate:
    `budget − ⌊0.00051·w⌋ − 1 ≤ FeeForWeight(NewSatPerKWeight(budget, w), w) ≤ budget + ⌊0.00051·w⌋`
    (weights up to `2^20 = 1048576` wu, budget rate up to `2^40` sat/kw).  The upper bound can be
    attained (`no_tx_at_ceiling_by_deadline_witness`: budget 3007, w 2350 → fee 3008). -/
theorem ceiling_fee_bounds (budget : Int) (w : Nat) (hb : 0 ≤ budget) (hw : 0 < w) (hw' : w ≤ 1048576)
    (hx : 1000 * budget ≤ 1099511627776 * (w : Int)) :
    feeForWeight (newSatPerKWeight goMulF64 budget w) w ≤ budget + 51 * w / 100000 ∧
    budget - 51 * w / 100000 - 1 ≤ feeForWeight (newSatPerKWeight goMulF64 budget w) w := by
  obtain ⟨h1, h2, h3, h4⟩ := budget_rate_accuracy budget w hb hw hx
  generalize newSatPerKWeight goMulF64 budget w = r at h1 h2 h3 h4 ⊢
  have hwI : InI64 (w : Int) := by simp only [InI64]; omega
  have hrw : r * w ≤ 1099511627777 * 1048576 := by
    calc r * (w : Int) ≤ 1099511627777 * (w : Int) := Int.mul_le_mul_of_nonneg_right h4 (by omega)
      _ ≤ 1099511627777 * 1048576 := Int.mul_le_mul_of_nonneg_left (by exact_mod_cast hw') (by norm_num)
  have hrw0 : 0 ≤ r * w := Int.mul_nonneg h3 (by omega)
  have hpI : InI64 (r * w) := by
    simp only [InI64]
    have e : (1099511627777 : Int) * 1048576 = 1152921504607895552 := by norm_num
    rw [e] at hrw; omega
  rw [feeForWeight_exact hwI hpI, Int.tdiv_eq_ediv_of_nonneg hrw0]
  constructor <;> omega

/-- below 1961 wu the rounding of the budget rate can never push the fee above the budget. -/
theorem ceiling_fee_within_budget_of_small_weight (budget : Int) (w : Nat) (hb : 0 ≤ budget)
    (hw : 0 < w) (hw' : w < 1961) (hx : 1000 * budget ≤ 1099511627776 * (w : Int)) :
    feeForWeight (newSatPerKWeight goMulF64 budget w) w ≤ budget := by
  have := (ceiling_fee_bounds budget w hb hw (by omega) hx).1
  omega

/-- `MaxFeeRateAllowed` is the budget rate or, if that is larger, `MaxFeeRate` — and then the
    budget covers the fee at `MaxFeeRate` up to the same rounding slack. -/
theorem maxFeeRateAllowed_accuracy (budget : Int) (w : Nat) (maxFeeRate : Int) (hb : 0 ≤ budget)
    (hw : 0 < w) (hx : 1000 * budget ≤ 1099511627776 * (w : Int)) :
    (maxFeeRateAllowed goMulF64 budget w maxFeeRate = newSatPerKWeight goMulF64 budget w ∧
      100 * (maxFeeRateAllowed goMulF64 budget w maxFeeRate * w - 1000 * budget) ≤ 51 * w ∧
      100 * (1000 * budget - maxFeeRateAllowed goMulF64 budget w maxFeeRate * w) ≤ 51 * w) ∨
    (maxFeeRateAllowed goMulF64 budget w maxFeeRate = maxFeeRate ∧
      100 * (maxFeeRate * w - 1000 * budget) ≤ 51 * w) := by
  obtain ⟨h1, h2, _, _⟩ := budget_rate_accuracy budget w hb hw hx
  unfold maxFeeRateAllowed
  simp only []
  split
  · rename_i hgt
    right
    refine ⟨rfl, ?_⟩
    have : maxFeeRate * (w : Int) ≤ newSatPerKWeight goMulF64 budget w * w :=
      Int.mul_le_mul_of_nonneg_right (by omega) (by omega)
    omega
  · left; exact ⟨rfl, h1, h2⟩

/-! ## non-vacuity -/

example := budget_rate_accuracy 3007 2350 (by decide) (by decide) (by decide)
example := ceiling_fee_bounds 3007 2350 (by decide) (by decide) (by decide) (by decide)
example : feeForWeight (newSatPerKWeight goMulF64 3007 2350) 2350 = 3007 + 51 * 2350 / 100000 := by decide

end LndModel.C18
