/-
C18 — theorems about the model of `UtxoSweeper`'s pending-input state machine
(`LndModel.C18.Sweeper`): what the property needs of the layer above the aggregator.

* `sweepPending_requests`: the requests of one sweep round are exactly the requests of the input
  sets of `ClusterInputs` over the idle inputs whose wallet top-up did not fail.
* `request_budget`, `request_deadline`, `request_start_ge_member`: a request's budget is the sum
  of its members' budgets (wallet inputs add nothing), its deadline the members' deadline, its
  starting rate at least every member's recorded rate.
* `request_members_idle`: only inputs in Init / PublishFailed (mature, not terminated) are swept:
  an input inside a live sweep is never lent to a second one by the block-driven path.
* `requests_disjoint`: within one round no input is in two requests (all op histories from the
  empty sweeper: `run_nodup` is the inductive invariant).
* `failed_marks_start`, `retry_never_below_reported_rate`: after a TxFailed / TxUnknownSpend
  result reporting rate `r`, every input of the set that was inside that sweep restarts — in ANY
  later round that sweeps it, with any regrouping and wallet top-up — at `≥ r`.
* `rbf_restart_rate`: an input offered while OUR tx spending it is in the mempool starts at that
  tx's fee rate (fee function restart from the mempool tx).
-/
import LndModel.C18.Sweeper
import LndModel.C18.TopUpProps

namespace LndModel.C18

/-! ## one sweep round -/

theorem foldl_sweepSet_reqs (utxos : List Utxo) : ∀ (sets : List InSet) (acc : Sweeper × List SReq),
    (sets.foldl (Sweeper.sweepSet utxos) acc).2 = acc.2 ++ sets.filterMap (reqOfSet? utxos) := by
  intro sets
  induction sets with
  | nil => intro acc; simp
  | cons st rest ih =>
    intro acc
    rw [List.foldl_cons, ih]
    unfold Sweeper.sweepSet
    cases h : reqOfSet? utxos st with
    | none => simp [h]
    | some q => simp [h]

/-- the requests of one round (`updateSweeperInputs` + `sweepPendingInputs`). -/
theorem sweepPending_requests (relay : Int) (maxInputs : Nat) (utxos : List Utxo) (s : Sweeper) :
    (s.sweepPending relay maxInputs utxos).2
      = (clusterX relay maxInputs s.clean.sweepable).filterMap (reqOfSet? utxos) := by
  unfold Sweeper.sweepPending
  simp only []
  rw [foldl_sweepSet_reqs]
  simp

/-- what `reqOfSet?` returns. -/
theorem reqOfSet?_some {utxos : List Utxo} {st : InSet} {q : SReq} (h : reqOfSet? utxos st = some q) :
    q.ins = st.inputs ∧ q.members = st.inputs.map (·.idx) ∧ q.budget = setBudget st.inputs ∧
      q.deadline = st.deadline ∧ q.start = setStart st.inputs := by
  unfold reqOfSet? at h
  cases ht : topUp 0 utxos st with
  | error e => rw [ht] at h; cases h
  | ok t =>
    rw [ht] at h
    simp only [Option.some.injEq] at h
    obtain ⟨hd, ws, _, _, hb, hs⟩ := topUp_ok ht
    subst h
    exact ⟨rfl, rfl, hb, hd, hs⟩

/-- members of the sets of `clusterX` are (the aggregator views of) the inputs it was given, and
    carry the set's deadline. -/
theorem clusterX_member {relay : Int} {maxInputs : Nat} {l : List SIn} {st : InSet} {p : PInp}
    (hst : st ∈ clusterX relay maxInputs l) (hp : p ∈ st.inputs) : ∃ i ∈ l, i.p = p := by
  unfold clusterX at hst
  simp only [] at hst
  rcases List.mem_append.mp hst with h | h
  · have := (filterInputs_mem (clusterInputs_member h hp)).1
    obtain ⟨i, hi, rfl⟩ := List.mem_map.mp this
    exact ⟨i, (List.mem_filter.mp hi).1, rfl⟩
  · obtain ⟨x, hx, rfl⟩ := List.mem_map.mp h
    simp only [List.mem_singleton] at hp
    subst hp
    have := (filterInputs_mem hx).1
    obtain ⟨i, hi, rfl⟩ := List.mem_map.mp this
    exact ⟨i, (List.mem_filter.mp hi).1, rfl⟩

/-- every request of a round comes from a set of idle inputs. -/
theorem request_of_round {relay : Int} {maxInputs : Nat} {utxos : List Utxo} {s : Sweeper} {q : SReq}
    (hq : q ∈ (s.sweepPending relay maxInputs utxos).2) :
    ∃ st ∈ clusterX relay maxInputs s.clean.sweepable, reqOfSet? utxos st = some q := by
  rw [sweepPending_requests] at hq
  obtain ⟨st, hst, h⟩ := List.mem_filterMap.mp hq
  exact ⟨st, hst, h⟩

/-- `Budget` of a request = sum of the budgets of its pending inputs (wallet inputs add none). -/
theorem request_budget {relay : Int} {maxInputs : Nat} {utxos : List Utxo} {s : Sweeper} {q : SReq}
    (hq : q ∈ (s.sweepPending relay maxInputs utxos).2) :
    q.budget = setBudget q.ins ∧ q.members = q.ins.map (·.idx) := by
  obtain ⟨st, _, h⟩ := request_of_round hq
  obtain ⟨h1, h2, h3, _, _⟩ := reqOfSet?_some h
  rw [h1]; exact ⟨h3, h2⟩

/-- only idle inputs are swept: every pending input of a request is the aggregator view of an
    input of the sweeper that is in Init or PublishFailed — not PendingPublish, not Published, not
    terminated — and mature at the current height. -/
theorem request_members_idle {relay : Int} {maxInputs : Nat} {utxos : List Utxo} {s : Sweeper}
    {q : SReq} (hq : q ∈ (s.sweepPending relay maxInputs utxos).2) {p : PInp} (hp : p ∈ q.ins) :
    ∃ i ∈ s.inputs, i.p = p ∧ (i.state = .init ∨ i.state = .publishFailed) ∧
      (i.isMature s.height.toNat).1 = true := by
  obtain ⟨st, hst, h⟩ := request_of_round hq
  rw [(reqOfSet?_some h).1] at hp
  obtain ⟨i, hi, rfl⟩ := clusterX_member hst hp
  unfold Sweeper.sweepable at hi
  obtain ⟨hi1, hi2⟩ := List.mem_filter.mp hi
  have hmem : i ∈ s.inputs := by
    unfold Sweeper.clean at hi1
    exact (List.mem_filter.mp hi1).1
  simp only [Bool.and_eq_true, Bool.or_eq_true, beq_iff_eq] at hi2
  exact ⟨i, hmem, rfl, hi2.1, by simpa [Sweeper.clean] using hi2.2⟩

/-- the starting rate of a request is at least the rate recorded for each of its inputs. -/
theorem request_start_ge_member {relay : Int} {maxInputs : Nat} {utxos : List Utxo} {s : Sweeper}
    {q : SReq} (hq : q ∈ (s.sweepPending relay maxInputs utxos).2) {p : PInp} (hp : p ∈ q.ins) :
    p.start.getD 0 ≤ q.start.getD 0 := by
  obtain ⟨st, _, h⟩ := request_of_round hq
  obtain ⟨h1, _, _, _, h5⟩ := reqOfSet?_some h
  rw [h5]
  rw [h1] at hp
  exact setStart_ge_member st.inputs p hp

/-! ## the retry path -/

/-- `markInputsPublishFailed(set, r)` (repaired code): every input of the set that is inside a
    sweep (PendingPublish / Published) becomes PublishFailed with `StartingFeeRate` = the larger of
    its recorded rate and `r`; all other inputs are untouched; indices are kept. -/
theorem markFailed_spec (s : Sweeper) (ids : List Nat) (r : Int) :
    (s.markFailed ids r).inputs = s.inputs.map fun i =>
      if ids.contains i.p.idx && (i.state == .pendingPublish || i.state == .published) then
        { i with state := .publishFailed, p := { i.p with start := some (max r (i.p.start.getD 0)) } }
      else i := rfl

theorem failed_marks_start {s : Sweeper} {ids : List Nat} {r : Int} {i : SIn} (hi : i ∈ s.inputs)
    (hid : i.p.idx ∈ ids) (hst : i.state = .pendingPublish ∨ i.state = .published) :
    ∃ j ∈ (s.markFailed ids r).inputs, j.p.idx = i.p.idx ∧ j.state = .publishFailed ∧
      j.p.start = some (max r (i.p.start.getD 0)) ∧ r ≤ j.p.start.getD 0 ∧
      i.p.start.getD 0 ≤ j.p.start.getD 0 ∧ j.p.budget = i.p.budget ∧ j.p.deadline = i.p.deadline := by
  refine ⟨{ i with state := .publishFailed, p := { i.p with start := some (max r (i.p.start.getD 0)) } },
    ?_, rfl, rfl, rfl, ?_, ?_, rfl, rfl⟩
  · rw [markFailed_spec]
    refine List.mem_map.mpr ⟨i, hi, ?_⟩
    have h1 : ids.contains i.p.idx = true := by simpa using hid
    have h2 : (i.state == .pendingPublish || i.state == .published) = true := by
      rcases hst with h | h <;> simp [h]
    simp only [h1, h2, Bool.and_self, ↓reduceIte]
  · simp only [Option.getD_some]; omega
  · simp only [Option.getD_some]; omega

/-- The retry never restarts below the rate recorded for an input: if an input carries
    `StartingFeeRate = some r` (as written by `markInputsPublishFailed`) and `r > 0`, EVERY request
    of a round that contains it — whatever it is regrouped with, topped up or not — has a
    `StartingFeeRate ≥ r`. -/
theorem retry_never_below_reported_rate {relay : Int} {maxInputs : Nat} {utxos : List Utxo}
    {s : Sweeper} {q : SReq} (hq : q ∈ (s.sweepPending relay maxInputs utxos).2) {p : PInp}
    (hp : p ∈ q.ins) {r : Int} (hr : p.start = some r) (hpos : 0 < r) :
    ∃ v, q.start = some v ∧ r ≤ v := by
  have h := request_start_ge_member hq hp
  rw [hr] at h
  simp only [Option.getD_some] at h
  cases hs : q.start with
  | none => rw [hs] at h; simp only [Option.getD_none] at h; omega
  | some v => rw [hs] at h; exact ⟨v, rfl, h⟩

/-! ### recorded rates only grow, across ANY sequence of failures (also those reporting rate 0) -/

/-- every input of `t` descends from an input of `s` (same outpoint) whose recorded starting rate
    is not higher. -/
def Desc (s t : Sweeper) : Prop :=
  ∀ j ∈ t.inputs, ∃ i ∈ s.inputs, i.p.idx = j.p.idx ∧ i.p.start.getD 0 ≤ j.p.start.getD 0

theorem Desc.refl (s : Sweeper) : Desc s s := fun j hj => ⟨j, hj, rfl, Int.le_refl _⟩

theorem Desc.trans {a b c : Sweeper} (h1 : Desc a b) (h2 : Desc b c) : Desc a c := by
  intro k hk
  obtain ⟨j, hj, e1, l1⟩ := h2 k hk
  obtain ⟨i, hi, e2, l2⟩ := h1 j hj
  exact ⟨i, hi, e2.trans e1, Int.le_trans l2 l1⟩

/-- one failure result, whatever rate it reports (0 included), lowers no recorded rate. -/
theorem markFailed_desc (s : Sweeper) (ids : List Nat) (r : Int) : Desc s (s.markFailed ids r) := by
  intro j hj
  rw [markFailed_spec] at hj
  obtain ⟨i, hi, rfl⟩ := List.mem_map.mp hj
  refine ⟨i, hi, ?_, ?_⟩
  · split <;> rfl
  · split
    · simp only [Option.getD_some]; omega
    · exact Int.le_refl _

theorem clean_desc (s : Sweeper) : Desc s s.clean := by
  intro j hj
  unfold Sweeper.clean at hj
  exact ⟨j, (List.mem_filter.mp hj).1, rfl, Int.le_refl _⟩

/-- any sequence of failure results `(members, reported rate)`. -/
def Sweeper.failures (s : Sweeper) (fs : List (List Nat × Int)) : Sweeper :=
  fs.foldl (fun t f => t.markFailed f.1 f.2) s

theorem failures_desc : ∀ (fs : List (List Nat × Int)) (s : Sweeper), Desc s (s.failures fs) := by
  intro fs
  induction fs with
  | nil => intro s; exact Desc.refl s
  | cons f rest ih =>
    intro s
    unfold Sweeper.failures
    rw [List.foldl_cons]
    exact Desc.trans (markFailed_desc s f.1 f.2) (ih _)

/-- STRONGER than `retry_never_below_reported_rate` (possible since repair e6d6149): after ANY
    sequence of failure results — any member lists, any reported rates, rate 0 included — every
    request of a later round starts at or above the rate that was recorded for each of its inputs
    BEFORE those failures. -/
theorem retry_never_below_any_recorded_rate {relay : Int} {maxInputs : Nat} {utxos : List Utxo}
    (s : Sweeper) (fs : List (List Nat × Int)) {q : SReq}
    (hq : q ∈ ((s.failures fs).sweepPending relay maxInputs utxos).2) {p : PInp} (hp : p ∈ q.ins) :
    ∃ i ∈ s.inputs, i.p.idx = p.idx ∧ i.p.start.getD 0 ≤ q.start.getD 0 := by
  obtain ⟨j, hj, hjp, _, _⟩ := request_members_idle hq hp
  obtain ⟨i, hi, e, l⟩ := failures_desc fs s j hj
  refine ⟨i, hi, by rw [e, hjp], Int.le_trans l ?_⟩
  rw [hjp]
  exact request_start_ge_member hq hp

/-- the behaviour before repair e6d6149 (`markFailedOverwrite`) does NOT have this property: a
    failure reporting rate 0 (`ErrTxNoOutput` / `ErrZeroFeeRateDelta` of the initial broadcast)
    erases the recorded rate 5000 and a set made of the input has no starting rate, so the fee
    function restarts from the estimator (finding F-C18-retry-forgets-rate); the repaired
    `markFailed` keeps 5000 on the same input. -/
theorem overwrite_variant_forgets_rate_witness :
    let i : SIn := { p := { idx := 0, budget := 10000, deadline := 120, start := some 5000,
                            immediate := false, lt := none, wu := 400, value := 100000, req := none,
                            reqSize := 0 }, state := .pendingPublish }
    let s : Sweeper := { inputs := [i], height := 100 }
    ((s.markFailedOverwrite [0] 0).inputs.map (fun j => (j.state, j.p.start)) = [(.publishFailed, some 0)] ∧
     setStart ((s.markFailedOverwrite [0] 0).inputs.map (·.p)) = none) ∧
    ((s.markFailed [0] 0).inputs.map (fun j => (j.state, j.p.start)) = [(.publishFailed, some 5000)] ∧
     setStart ((s.markFailed [0] 0).inputs.map (·.p)) = some 5000) := by
  decide

/-! ## fee function restart from our own mempool tx -/

/-- `handleNewInput` for an input that is already spent in the mempool by a tx found in the
    sweeper store: the input is registered in state Init with `StartingFeeRate` = that tx's fee
    rate, whatever the caller asked for. -/
theorem rbf_restart_rate (e : SEnv) (s : Sweeper) (d : SDesc) (q : SParams) (r : Int) (noDl : Nat)
    (hnew : s.clean.find? d.idx = none) (him : q.immediate = false) :
    ∃ i ∈ (s.step e (.offer d q (some r) noDl)).1.inputs,
      i.p.idx = d.idx ∧ i.state = .init ∧ i.p.start = some r ∧ i.p.budget = q.budget := by
  unfold Sweeper.step
  simp only [hnew, him]
  refine ⟨_, List.mem_append_right _ (List.mem_singleton.mpr rfl), rfl, rfl, rfl, rfl⟩

/-! ## indices stay unique: an inductive invariant over ALL event histories -/

def Sweeper.idxs (s : Sweeper) : List Nat := s.inputs.map (·.p.idx)

theorem idxs_map_keep (s : Sweeper) (f : SIn → SIn) (hf : ∀ i, (f i).p.idx = i.p.idx) :
    ({ s with inputs := s.inputs.map f } : Sweeper).idxs = s.idxs := by
  unfold Sweeper.idxs
  simp only [List.map_map]
  apply List.map_congr_left
  intro i _
  exact hf i

theorem idxs_modify (s : Sweeper) (k : Nat) (f : SIn → SIn) (hf : ∀ i, (f i).p.idx = i.p.idx) :
    (s.modify k f).idxs = s.idxs := by
  unfold Sweeper.modify
  apply idxs_map_keep
  intro i; split <;> simp [hf]

theorem idxs_modify' (s : Sweeper) (k : Nat) (f : SIn → SIn) (hf : ∀ i, i.p.idx = k → (f i).p.idx = k) :
    (s.modify k f).idxs = s.idxs := by
  unfold Sweeper.modify Sweeper.idxs
  simp only [List.map_map]
  apply List.map_congr_left
  intro i _
  simp only [Function.comp]
  split
  · rename_i h
    have : i.p.idx = k := by simpa using h
    rw [hf i this, this]
  · rfl

theorem idxs_removeExclusiveGroup (s : Sweeper) (g keep : Nat) :
    (s.removeExclusiveGroup g keep).idxs = s.idxs := by
  unfold Sweeper.removeExclusiveGroup
  apply idxs_map_keep
  intro i; split <;> rfl

theorem idxs_markPending (s : Sweeper) (ids : List Nat) : (s.markPending ids).idxs = s.idxs := by
  unfold Sweeper.markPending
  apply idxs_map_keep
  intro i; split <;> rfl

theorem idxs_markPublished (s : Sweeper) (ids : List Nat) (r : Int) :
    (s.markPublished ids r).idxs = s.idxs := by
  unfold Sweeper.markPublished
  apply idxs_map_keep
  intro i; split <;> rfl

theorem idxs_markFailed (s : Sweeper) (ids : List Nat) (r : Int) :
    (s.markFailed ids r).idxs = s.idxs := by
  unfold Sweeper.markFailed
  apply idxs_map_keep
  intro i; split <;> rfl

theorem idxs_markFatal (s : Sweeper) (ids : List Nat) : (s.markFatal ids).idxs = s.idxs := by
  unfold Sweeper.markFatal
  apply idxs_map_keep
  intro i; split <;> rfl

theorem clean_nodup {s : Sweeper} (h : s.idxs.Nodup) : s.clean.idxs.Nodup := by
  unfold Sweeper.clean Sweeper.idxs at *
  exact (List.Sublist.map _ (List.filter_sublist)).nodup h

theorem idxs_foldl_sweepSet (utxos : List Utxo) : ∀ (sets : List InSet) (acc : Sweeper × List SReq),
    (sets.foldl (Sweeper.sweepSet utxos) acc).1.idxs = acc.1.idxs := by
  intro sets
  induction sets with
  | nil => intro acc; rfl
  | cons st rest ih =>
    intro acc
    rw [List.foldl_cons, ih]
    unfold Sweeper.sweepSet
    split
    · rfl
    · exact idxs_markPending _ _

theorem sweepPending_nodup {relay : Int} {maxInputs : Nat} {utxos : List Utxo} {s : Sweeper}
    (h : s.idxs.Nodup) : (s.sweepPending relay maxInputs utxos).1.idxs.Nodup := by
  unfold Sweeper.sweepPending
  simp only []
  rw [idxs_foldl_sweepSet]
  exact clean_nodup h

theorem idxs_unknownSpendLoop (spent : List (Nat × Bool)) : ∀ (ms : List Nat) (s : Sweeper) (b : Bool),
    (Sweeper.unknownSpendLoop spent ms s b).1.idxs = s.idxs := by
  intro ms
  induction ms with
  | nil => intro s b; rfl
  | cons k rest ih =>
    intro s b
    unfold Sweeper.unknownSpendLoop
    split
    · exact ih _ _
    · split
      · rw [ih]
        split
        · rw [idxs_removeExclusiveGroup]; exact idxs_modify _ _ _ (fun _ => rfl)
        · exact idxs_modify _ _ _ (fun _ => rfl)
      · rw [ih]; exact idxs_modify _ _ _ (fun _ => rfl)
      · rw [ih]; exact idxs_modify _ _ _ (fun _ => rfl)

theorem idxs_sweptLoop : ∀ (ms : List Nat) (s : Sweeper), (Sweeper.sweptLoop ms s).idxs = s.idxs := by
  intro ms
  induction ms with
  | nil => intro s; rfl
  | cons k rest ih =>
    intro s
    unfold Sweeper.sweptLoop
    split
    · exact ih _
    · split
      · exact ih _
      · rw [ih]
        split
        · rw [idxs_removeExclusiveGroup]; exact idxs_modify _ _ _ (fun _ => rfl)
        · exact idxs_modify _ _ _ (fun _ => rfl)

theorem find?_none_not_mem {s : Sweeper} {k : Nat} (h : s.find? k = none) : k ∉ s.idxs := by
  unfold Sweeper.find? at h
  unfold Sweeper.idxs
  intro hk
  obtain ⟨i, hi, rfl⟩ := List.mem_map.mp hk
  have := List.find?_eq_none.mp h i hi
  simp at this

/-- one collector iteration keeps the pending inputs' outpoints pairwise different. -/
theorem step_nodup (e : SEnv) (s : Sweeper) (op : SOp) (h : s.idxs.Nodup) :
    (s.step e op).1.idxs.Nodup := by
  have hc := clean_nodup h
  unfold Sweeper.step
  cases op with
  | offer d q rbf noDl =>
    simp only []
    cases hf : s.clean.find? d.idx with
    | some old =>
      simp only []
      generalize hm : s.clean.modify d.idx _ = t
      have ht : t.idxs = s.clean.idxs := by
        rw [← hm]; exact idxs_modify' _ _ _ (fun _ _ => rfl)
      cases old.group with
      | none =>
        simp only []
        split
        · exact sweepPending_nodup (by rw [ht]; exact hc)
        · show t.idxs.Nodup
          rw [ht]; exact hc
      | some g =>
        simp only []
        have h2 : (t.removeExclusiveGroup g d.idx).idxs = s.clean.idxs := by
          rw [idxs_removeExclusiveGroup]; exact ht
        split
        · exact sweepPending_nodup (by rw [h2]; exact hc)
        · show (t.removeExclusiveGroup g d.idx).idxs.Nodup
          rw [h2]; exact hc
    | none =>
      simp only []
      have hn : ∀ x : SIn, x.p.idx = d.idx →
          ({ s.clean with inputs := s.clean.inputs ++ [x] } : Sweeper).idxs.Nodup := by
        intro x hx
        unfold Sweeper.idxs
        rw [List.map_append, List.nodup_append]
        refine ⟨hc, by simp, ?_⟩
        intro a ha b hb
        simp only [List.map_cons, List.map_nil, List.mem_singleton] at hb
        subst hb
        intro hab
        subst hab
        rw [hx] at ha
        exact find?_none_not_mem hf ha
      split
      · exact sweepPending_nodup (hn _ rfl)
      · exact hn _ rfl
  | update k q =>
    simp only []
    cases hf : s.clean.find? k with
    | none =>
      simp only []
      split
      · exact sweepPending_nodup hc
      · exact hc
    | some _ =>
      simp only []
      have h2 := idxs_modify s.clean k
        (fun i => { i with
          p := { i.p with budget := q.budget, deadline := q.deadline.getD i.p.deadline, start := q.start,
                          immediate := q.immediate },
          state := .init }) (fun _ => rfl)
      split
      · exact sweepPending_nodup (by rw [h2]; exact hc)
      · rw [h2]; exact hc
  | block hh =>
    simp only []
    exact sweepPending_nodup hc
  | result members ev rate oldKnown spent =>
    cases ev with
    | published => simp only []; rw [idxs_markPublished]; exact hc
    | replaced =>
      simp only []
      split
      · rw [idxs_markPublished]; exact hc
      · exact hc
    | failed => simp only []; rw [idxs_markFailed]; exact hc
    | fatal => simp only []; rw [idxs_markFatal]; exact hc
    | confirmed => simp only []; exact hc
    | unknownSpend =>
      simp only []
      have h2 : (Sweeper.unknownSpendLoop spent members (s.clean.markFailed members rate) false).1.idxs.Nodup := by
        rw [idxs_unknownSpendLoop, idxs_markFailed]; exact hc
      split
      · exact sweepPending_nodup h2
      · exact h2
  | spend ins ours =>
    simp only []
    rw [idxs_sweptLoop]; exact hc

/-- for ANY list of events from the empty sweeper the pending inputs have pairwise different
    outpoints (the map-key property of `s.inputs`, needed to read the theorems above per input). -/
theorem run_nodup (e : SEnv) : ∀ (ops : List SOp) (s : Sweeper), s.idxs.Nodup →
    (Sweeper.run e s ops).1.idxs.Nodup := by
  intro ops
  induction ops with
  | nil => intro s h; exact h
  | cons op rest ih =>
    intro s h
    unfold Sweeper.run
    exact ih _ (step_nodup e s op h)

/-! ## no input in two requests of one round -/

theorem flatMap_filterMap_sublist {α β γ : Type} (f : α → Option β) (g : β → List γ) (h : α → List γ)
    (hfg : ∀ a b, f a = some b → g b = h a) : ∀ (l : List α),
    ((l.filterMap f).flatMap g).Sublist (l.flatMap h) := by
  intro l
  induction l with
  | nil => simp
  | cons a rest ih =>
    rw [List.filterMap_cons]
    cases hfa : f a with
    | none =>
      simp only [List.flatMap_cons]
      exact List.Sublist.trans ih (List.sublist_append_right _ _)
    | some b =>
      simp only [List.flatMap_cons]
      rw [hfg a b hfa]
      exact List.Sublist.append (List.Sublist.refl _) ih

/-- the pending inputs of all requests of a round, concatenated, are a sub-multiset of the idle
    inputs: when the sweeper's outpoints are pairwise different (`run_nodup`) no input is lent to
    two requests of the same round. -/
theorem requests_disjoint {relay : Int} {maxInputs : Nat} {utxos : List Utxo} {s : Sweeper}
    (h : s.idxs.Nodup) :
    (((s.sweepPending relay maxInputs utxos).2).flatMap (·.members)).Nodup := by
  rw [sweepPending_requests]
  have hsub := flatMap_filterMap_sublist (reqOfSet? utxos) (·.members)
    (fun st : InSet => st.inputs.map (·.idx))
    (fun a b hab => (reqOfSet?_some hab).2.1) (clusterX relay maxInputs s.clean.sweepable)
  refine hsub.nodup ?_
  -- the sets partition (a sublist of) the idle inputs
  unfold clusterX
  simp only []
  rw [List.flatMap_append]
  have hbase : (s.clean.sweepable.map (·.p.idx)).Nodup := by
    unfold Sweeper.sweepable
    exact (List.Sublist.map _ List.filter_sublist).nodup (clean_nodup h)
  set L := s.clean.sweepable with hL
  have hplain : ((clusterInputs relay maxInputs ((L.filter (·.group.isNone)).map (·.p))).flatMap
      (fun st => st.inputs.map (·.idx))).Perm
      ((filterInputs relay ((L.filter (·.group.isNone)).map (·.p))).map (·.idx)) := by
    have := (clusterInputs_partition relay maxInputs ((L.filter (·.group.isNone)).map (·.p))).map (·.idx)
    rw [List.map_flatMap] at this
    exact this
  have hexcl : ((filterInputs relay ((L.filter (·.group.isSome)).map (·.p))).map
      (fun i => (⟨i.deadline, [i]⟩ : InSet))).flatMap (fun st => st.inputs.map (·.idx))
      = (filterInputs relay ((L.filter (·.group.isSome)).map (·.p))).map (·.idx) := by
    rw [List.flatMap_map]
    generalize filterInputs relay ((L.filter (·.group.isSome)).map (·.p)) = l
    induction l with
    | nil => rfl
    | cons a rest ih =>
      simp only [List.flatMap_cons, List.map_cons, List.map_nil, List.singleton_append]
      exact congrArg _ ih
  rw [hexcl]
  refine (List.Perm.append_right _ hplain).nodup_iff.mpr ?_
  -- both filtered lists are sublists of the complementary halves of L
  have hs1 : ((filterInputs relay ((L.filter (·.group.isNone)).map (·.p))).map (·.idx)).Sublist
      ((L.filter (·.group.isNone)).map (·.p.idx)) := by
    have : ((L.filter (·.group.isNone)).map (·.p.idx)) = ((L.filter (·.group.isNone)).map (·.p)).map (·.idx) := by
      simp [List.map_map]
    rw [this]
    exact List.Sublist.map _ (by unfold filterInputs; exact List.filter_sublist)
  have hs2 : ((filterInputs relay ((L.filter (·.group.isSome)).map (·.p))).map (·.idx)).Sublist
      ((L.filter (·.group.isSome)).map (·.p.idx)) := by
    have : ((L.filter (·.group.isSome)).map (·.p.idx)) = ((L.filter (·.group.isSome)).map (·.p)).map (·.idx) := by
      simp [List.map_map]
    rw [this]
    exact List.Sublist.map _ (by unfold filterInputs; exact List.filter_sublist)
  have hsplit : ((L.filter (·.group.isNone)).map (·.p.idx) ++ (L.filter (·.group.isSome)).map (·.p.idx)).Nodup := by
    have hperm : ((L.filter (·.group.isNone)) ++ (L.filter (·.group.isSome))).Perm L := by
      have : (fun i : SIn => i.group.isSome) = fun i => !(i.group.isNone) := by
        funext i; cases i.group <;> rfl
      rw [this]
      exact List.filter_append_perm _ L
    rw [← List.map_append]
    exact (hperm.map _).nodup_iff.mpr hbase
  exact (List.Sublist.append hs1 hs2).nodup hsplit

/-- … and at or above every rate a failure in the sequence reported for an input that was inside
    the failed sweep: failure `(ids, r)` first, then any further failures `fs`. -/
theorem retry_never_below_earlier_failure {relay : Int} {maxInputs : Nat} {utxos : List Utxo}
    (s : Sweeper) (ids : List Nat) (r : Int) (fs : List (List Nat × Int)) (hnd : s.idxs.Nodup)
    {i : SIn} (hi : i ∈ s.inputs) (hid : i.p.idx ∈ ids)
    (hst : i.state = .pendingPublish ∨ i.state = .published) {q : SReq}
    (hq : q ∈ (((s.markFailed ids r).failures fs).sweepPending relay maxInputs utxos).2) {p : PInp}
    (hp : p ∈ q.ins) (hidx : p.idx = i.p.idx) : r ≤ q.start.getD 0 := by
  obtain ⟨j, hj, e, l⟩ := retry_never_below_any_recorded_rate (s.markFailed ids r) fs hq hp
  -- `j` is the marked copy of `i` (outpoints are pairwise different)
  obtain ⟨k, hk, ek, _, _, hrk, _⟩ := failed_marks_start (r := r) hi hid hst
  have hnd' : (s.markFailed ids r).idxs.Nodup := by rw [idxs_markFailed]; exact hnd
  have hjk : j = k := by
    have hinj := List.inj_on_of_nodup_map hnd'
    exact hinj hj hk (by rw [e, hidx, ek])
  subst hjk
  exact Int.le_trans hrk l

/-! ## non-vacuity -/

/-- a failed sweep at 1500 sat/kw: the input is idle again with that rate recorded, and a set
    regrouping it with a fresh input starts at 1500 (hypotheses of `failed_marks_start` and
    `retry_never_below_reported_rate` are satisfiable). -/
example :
    let mk (k : Nat) (b : Int) (st : SState) (start : Option Int) : SIn :=
      { p := { idx := k, budget := b, deadline := 120, start := start, immediate := false, lt := none,
               wu := 400, value := 100000, req := none, reqSize := 0 }, state := st }
    let e : SEnv := ⟨253, 10, []⟩
    let s : Sweeper := { inputs := [mk 0 10000 .published none, mk 1 9000 .init none], height := 100 }
    let s1 := (s.step e (.result [0] .failed 1500 true [])).1
    s1.inputs.map (fun j => (j.state, j.p.start)) = [(.publishFailed, some 1500), (.init, none)] ∧
    s1.idxs.Nodup ∧ setStart (s1.inputs.map (·.p)) = some 1500 ∧ setBudget (s1.inputs.map (·.p)) = 19000 := by
  decide

end LndModel.C18
