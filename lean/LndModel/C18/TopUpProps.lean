/-
C18 — theorems about what reaches the publisher from one level up (round 5):

* no input whose required output is below the dust limit of its script is ever in an input set
  (`BudgetAggregator.filterInputs` + `isDustOutput` + `lnwallet.DustLimitForSize`), hence every
  output of a sweep transaction of such a set — required outputs AND change — is at or above the
  dust limit of its script: `sweep_outputs_not_dust`;
* wallet-input top-up (`BudgetInputSet.NeedWalletInput` / `AddWalletInputs`): the set keeps all its
  inputs, its `Budget()` and `StartingFeeRate()`; wallet inputs carry no budget and no required
  output; once `NeedWalletInput()` is false the inputs that can pay fees are worth at least the
  whole budget, so a sweep whose fee is within the budget never fails with `ErrNotEnoughInputs`;
  the top-up fails only when no input at all can pay fees.
-/
import LndModel.C18.AggProps

namespace LndModel.C18

/-! ## dust of required outputs -/

theorem reqDust_false {i : PInp} (h : i.reqDust = false) (v : Int) (hv : i.req = some v) :
    dustLimitForSize i.reqSize ≤ v := by
  unfold PInp.reqDust at h
  rw [hv] at h
  simp only [isDustOutput, decide_eq_false_iff_not] at h
  omega

theorem filterInputs_mem {relay : Int} {l : List PInp} {i : PInp} (hi : i ∈ filterInputs relay l) :
    i ∈ l ∧ i.reqDust = false := by
  unfold filterInputs at hi
  rw [List.mem_filter] at hi
  obtain ⟨h1, h2⟩ := hi
  simp only [Bool.and_eq_true, Bool.not_eq_eq_eq_not, Bool.not_true] at h2
  exact ⟨h1, h2.2⟩

/-- every member of every input set passed `filterInputs`. -/
theorem clusterInputs_member {relay : Int} {maxInputs : Nat} {l : List PInp} {s : InSet} {i : PInp}
    (hs : s ∈ clusterInputs relay maxInputs l) (hi : i ∈ s.inputs) : i ∈ filterInputs relay l := by
  have hp := clusterInputs_partition relay maxInputs l
  apply hp.subset
  rw [List.mem_flatMap]
  exact ⟨s, hs, hi⟩

/-- a required output of a member of an input set is never below the dust limit of its script. -/
theorem clusterInputs_required_not_dust {relay : Int} {maxInputs : Nat} {l : List PInp} {s : InSet}
    {i : PInp} (hs : s ∈ clusterInputs relay maxInputs l) (hi : i ∈ s.inputs) (v : Int)
    (hv : i.req = some v) : dustLimitForSize i.reqSize ≤ v :=
  reqDust_false (filterInputs_mem (clusterInputs_member hs hi)).2 v hv

/-- `no output below dust` for the sweep of an input set produced by `ClusterInputs` (no aux
    sweeper): every output of the transaction `createSweepTx` builds from the set's inputs is
    either the required output of a member — at or above `DustLimitForSize` of its own script —
    or the change output — at or above the dust limit `dust` of the delivery script.  (This
    replaces the former precondition "required outputs are not dust" for everything that comes
    through the aggregator; for the aux sweeper's extra output it remains a precondition.) -/
theorem sweep_outputs_not_dust {relay : Int} {maxInputs : Nat} {l : List PInp} {s : InSet}
    (hs : s ∈ clusterInputs relay maxInputs l) {rate height dust : Int} {wu : Nat} {p : Prep}
    (hp : prepareSweepTx (s.inputs.map PInp.toInp) rate wu height dust none = .ok p)
    (o : OutKind × Int) (ho : o ∈ (buildTx (s.inputs.map PInp.toInp) height none p).outs) :
    (o.1 = OutKind.required ∧ ∃ i ∈ s.inputs, i.req = some o.2 ∧ dustLimitForSize i.reqSize ≤ o.2) ∨
    (o.1 = OutKind.change ∧ dust ≤ o.2) := by
  rcases outputs_provenance _ height none p o ho with ⟨hk, i', hi', hreq⟩ | ⟨_, hx⟩ | ⟨hk, hc⟩
  · left
    rw [List.mem_map] at hi'
    obtain ⟨i, hi, rfl⟩ := hi'
    exact ⟨hk, i, hi, hreq, clusterInputs_required_not_dust hs hi o.2 hreq⟩
  · cases hx
  · right
    exact ⟨hk, (prepare_spec hp).2.1 o.2 hc⟩

/-! ## wallet-input top-up -/

/-- Σ budgets of the inputs that cannot pay fees (required output). -/
def reqBudget : List PInp → Int
  | [] => 0
  | i :: r => (if i.req.isSome then i.budget else 0) + reqBudget r

/-- Σ (value − budget) of the inputs that can pay fees. -/
def plainSurplus : List PInp → Int
  | [] => 0
  | i :: r => (if i.req.isSome then 0 else i.value - i.budget) + plainSurplus r

/-- Σ value of the inputs that can pay fees (`inputAmts().spendable`). -/
def plainValue : List PInp → Int
  | [] => 0
  | i :: r => (if i.req.isSome then 0 else i.value) + plainValue r

theorem needAmts_fold (l : List PInp) : ∀ (a b : Int),
    l.foldl (fun (acc : Int × Int) i =>
      if i.req.isSome then (acc.1 + i.budget, acc.2) else (acc.1, acc.2 + (i.value - i.budget))) (a, b)
      = (a + reqBudget l, b + plainSurplus l) := by
  induction l with
  | nil => intro a b; simp [reqBudget, plainSurplus]
  | cons i r ih =>
    intro a b
    simp only [List.foldl_cons, reqBudget, plainSurplus]
    by_cases h : i.req.isSome
    · simp only [h, if_true]; rw [ih]; congr 1 <;> omega
    · simp only [h, Bool.false_eq_true, if_false]; rw [ih]; congr 1 <;> omega

theorem needAmts_eq (extra : Int) (l : List PInp) :
    needAmts extra l = (extra + reqBudget l, plainSurplus l) := by
  unfold needAmts
  rw [needAmts_fold]; simp

theorem setBudget_cons (i : PInp) (l : List PInp) : setBudget (i :: l) = i.budget + setBudget l := by
  simp only [setBudget, List.map_cons, List.foldl_cons]
  rw [foldl_add_shift]; omega

theorem surplus_budget (l : List PInp) : plainSurplus l + setBudget l = plainValue l + reqBudget l := by
  induction l with
  | nil => rfl
  | cons i r ih =>
    rw [setBudget_cons]
    simp only [plainSurplus, plainValue, reqBudget]
    split <;> omega

/-- `NeedWalletInput() = false` means exactly: the inputs that can pay fees are worth at least
    the set's whole budget (plus the extra budget). -/
theorem needWalletInput_false_iff (extra : Int) (l : List PInp) :
    needWalletInput extra l = false ↔ setBudget l + extra ≤ plainValue l := by
  unfold needWalletInput
  rw [needAmts_eq]
  simp only [decide_eq_false_iff_not]
  have := surplus_budget l
  omega

theorem plainValue_le_spendable (l : List PInp)
    (hreq : ∀ i ∈ l, ∀ v, i.req = some v → v ≤ i.value) :
    plainValue l ≤ sumValues (l.map PInp.toInp) - sumReq (l.map PInp.toInp) := by
  induction l with
  | nil => simp [plainValue, sumValues, sumReq]
  | cons i r ih =>
    have ih' := ih (fun j hj => hreq j (List.mem_cons_of_mem _ hj))
    simp only [List.map_cons, sumValues_cons, sumReq_cons, plainValue, PInp.toInp]
    cases hv : i.req with
    | none => simp only [Option.isSome_none, Bool.false_eq_true, if_false, Option.getD_none]; omega
    | some v =>
      have := hreq i (List.mem_cons_self) v hv
      simp only [Option.isSome_some, if_true, Option.getD_some]; omega

/-- `topup_covers_budget`: for a set that does not (or no longer) need wallet inputs, whose
    second-level inputs commit to at most their own value, a sweep transaction whose fee is
    within the set's budget never fails with `ErrNotEnoughInputs` — at any fee rate of the ramp
    up to the ceiling. -/
theorem topup_covers_budget {l : List PInp} (hneed : needWalletInput 0 l = false)
    (hreq : ∀ i ∈ l, ∀ v, i.req = some v → v ≤ i.value)
    {rate height dust : Int} {wu : Nat} (hfee : feeForWeight rate wu ≤ setBudget l) :
    prepareSweepTx (l.map PInp.toInp) rate wu height dust none ≠ .error .inputs := by
  have h1 := (needWalletInput_false_iff 0 l).mp hneed
  have h2 := plainValue_le_spendable l hreq
  unfold prepareSweepTx
  simp only [Option.getD_none]
  split
  · rename_i e hlt
    intro h
    simp only [Except.error.injEq] at h
    subst h
    -- the locktime loop never reports `inputs`
    have : ∀ (ins : List Inp) (acc : Option Nat), locktimeLoop height ins acc ≠ .error .inputs := by
      intro ins
      induction ins with
      | nil => intro acc h; cases h
      | cons x xs ih =>
        intro acc
        unfold locktimeLoop
        split
        · exact ih acc
        · split
          · intro h; cases h
          · split
            · split
              · intro h; cases h
              · exact ih _
            · exact ih _
    exact this _ _ hlt
  · have hn : ¬ (0 + sumReq (l.map PInp.toInp) + feeForWeight rate wu > sumValues (l.map PInp.toInp)) := by
      omega
    simp only [hn, if_false]
    split
    · split <;> (intro h; cases h)
    · intro h; cases h

theorem setStartLoop_append_none (ws : List PInp) (hws : ∀ w ∈ ws, w.start = none) :
    ∀ (l : List PInp) (m : Int) (acc : Option Int), 0 ≤ m →
      setStartLoop (l ++ ws) m acc = setStartLoop l m acc := by
  intro l
  induction l with
  | nil =>
    intro m acc hm
    simp only [List.nil_append, setStartLoop]
    induction ws generalizing acc with
    | nil => rfl
    | cons w rest ih =>
      have hw := hws w (List.mem_cons_self)
      simp only [setStartLoop, hw, Option.getD_none]
      have : ¬ ((0 : Int) > m) := by omega
      simp only [this, if_false]
      exact ih (fun x hx => hws x (List.mem_cons_of_mem _ hx)) acc
  | cons x xs ih =>
    intro m acc hm
    simp only [List.cons_append, setStartLoop]
    split
    · exact ih _ _ (by omega)
    · exact ih _ _ hm

/-- what `AddWalletInputs`' loop guarantees: the original inputs are kept, in order, followed by
    wallet inputs that carry no budget, no required output, no starting rate and the set's
    deadline; if it reports success `NeedWalletInput()` is false for the result, otherwise every
    UTXO was added. -/
theorem addWalletLoop_spec (extra deadline : Int) : ∀ (us : List Utxo) (l : List PInp),
    ∃ ws, (addWalletLoop extra deadline us l).1 = l ++ ws ∧
      (∀ w ∈ ws, w.budget = 0 ∧ w.req = none ∧ w.start = none ∧ w.deadline = deadline) ∧
      ws.map (·.value) = (us.take ws.length).map (·.value) ∧
      ((addWalletLoop extra deadline us l).2 = true →
        needWalletInput extra (addWalletLoop extra deadline us l).1 = false) ∧
      ((addWalletLoop extra deadline us l).2 = false → ws.length = us.length) := by
  intro us
  induction us with
  | nil =>
    intro l
    exact ⟨[], by simp [addWalletLoop], (fun _ h => by cases h), rfl, (fun h => by cases h), fun _ => rfl⟩
  | cons u rest ih =>
    intro l
    unfold addWalletLoop
    simp only []
    by_cases hn : needWalletInput extra (l ++ [walletPInp deadline l.length u]) = true
    · simp only [hn, if_true]
      obtain ⟨ws, h1, h2, h3, h4, h5⟩ := ih (l ++ [walletPInp deadline l.length u])
      refine ⟨walletPInp deadline l.length u :: ws, by rw [h1]; simp, ?_, ?_, h4, ?_⟩
      · intro w hw
        rcases List.mem_cons.mp hw with rfl | hw
        · exact ⟨rfl, rfl, rfl, rfl⟩
        · exact h2 w hw
      · simp only [List.map_cons, List.length_cons, List.take_succ_cons, walletPInp]
        rw [h3]
      · intro hf; simp only [List.length_cons]; rw [h5 hf]
    · simp only [hn, Bool.false_eq_true, if_false]
      refine ⟨[walletPInp deadline l.length u], rfl, ?_, rfl, ?_, ?_⟩
      · intro w hw
        simp only [List.mem_singleton] at hw
        subst hw
        exact ⟨rfl, rfl, rfl, rfl⟩
      · intro _; simpa using hn
      · intro h; cases h

theorem setBudget_append_wallet (l ws : List PInp) (hws : ∀ w ∈ ws, w.budget = 0) :
    setBudget (l ++ ws) = setBudget l := by
  rw [setBudget_append]
  have : setBudget ws = 0 := by
    induction ws with
    | nil => rfl
    | cons w rest ih =>
      rw [setBudget_cons, hws w (List.mem_cons_self), ih (fun x hx => hws x (List.mem_cons_of_mem _ hx))]
      rfl
  omega

/-- `AddWalletInputs` succeeding: nothing is dropped, `Budget()` and `StartingFeeRate()` are those
    of the set before the top-up, the added inputs are wallet inputs. -/
theorem addWalletInputs_ok {extra deadline : Int} {utxos : List Utxo} {l l' : List PInp}
    (h : addWalletInputs extra deadline utxos l = .ok l') :
    ∃ ws, l' = l ++ ws ∧ (∀ w ∈ ws, w.budget = 0 ∧ w.req = none ∧ w.start = none ∧ w.deadline = deadline) ∧
      setBudget l' = setBudget l ∧ setStart l' = setStart l ∧
      (needWalletInput extra l' = true → ws.length = utxos.length ∧ ∃ i ∈ l', i.req = none) := by
  unfold addWalletInputs at h
  simp only [] at h
  obtain ⟨ws, h1, h2, _, h4, h5⟩ := addWalletLoop_spec extra deadline
    (utxos.mergeSort (fun a b => decide (a.value ≤ b.value))) l
  have hl : (addWalletLoop extra deadline (utxos.mergeSort (fun a b => decide (a.value ≤ b.value))) l).1 = l' := by
    split at h
    · simp only [Except.ok.injEq] at h; exact h
    · split at h
      · simp only [Except.ok.injEq] at h; exact h
      · cases h
  rw [hl] at h1 h4
  refine ⟨ws, h1, h2, ?_, ?_, ?_⟩
  · rw [h1]; exact setBudget_append_wallet l ws (fun w hw => (h2 w hw).1)
  · rw [h1]; unfold setStart
    exact setStartLoop_append_none ws (fun w hw => (h2 w hw).2.2.1) l 0 none (Int.le_refl _)
  · intro hneed
    split at h
    · rename_i hdone
      rw [h4 hdone] at hneed; cases hneed
    · rename_i hnd
      have hlen := h5 (by simpa using hnd)
      rw [List.length_mergeSort] at hlen
      refine ⟨hlen, ?_⟩
      split at h
      · rename_i hany
        rw [hl] at hany
        rw [List.any_eq_true] at hany
        obtain ⟨i, hi, hin⟩ := hany
        exact ⟨i, hi, by cases hr : i.req <;> simp_all⟩
      · cases h

/-- `AddWalletInputs` fails only with `ErrNotEnoughInputs`, and only when not a single input of
    the (topped-up) set can pay fees — in particular the wallet had no UTXO at all. -/
theorem addWalletInputs_error {extra deadline : Int} {utxos : List Utxo} {l : List PInp} {e : Err}
    (h : addWalletInputs extra deadline utxos l = .error e) :
    e = .inputs ∧ (∀ i ∈ l, i.req.isSome) ∧ utxos = [] := by
  unfold addWalletInputs at h
  simp only [] at h
  obtain ⟨ws, h1, h2, _, _, h5⟩ := addWalletLoop_spec extra deadline
    (utxos.mergeSort (fun a b => decide (a.value ≤ b.value))) l
  split at h
  · cases h
  · rename_i hnd
    split at h
    · cases h
    · rename_i hany
      simp only [Except.error.injEq] at h
      have hall : ∀ i ∈ l ++ ws, i.req.isSome := by
        intro i hi
        rw [h1] at hany
        simp only [List.any_eq_true, not_exists, not_and] at hany
        have := hany i hi
        cases hr : i.req <;> simp_all
      have hws : ws = [] := by
        cases ws with
        | nil => rfl
        | cons w rest =>
          have := hall w (by simp)
          rw [(h2 w (List.mem_cons_self)).2.1] at this
          cases this
      have hlen := h5 (by simpa using hnd)
      rw [hws, List.length_mergeSort] at hlen
      refine ⟨h.symm, fun i hi => hall i (List.mem_append_left _ hi), ?_⟩
      exact List.eq_nil_of_length_eq_zero hlen.symm

/-- `sweepPendingInputs`' treatment of a set (top up only if needed), summarised. -/
theorem topUp_ok {extra : Int} {utxos : List Utxo} {s s' : InSet} (h : topUp extra utxos s = .ok s') :
    s'.deadline = s.deadline ∧ ∃ ws, s'.inputs = s.inputs ++ ws ∧
      (∀ w ∈ ws, w.budget = 0 ∧ w.req = none ∧ w.start = none ∧ w.deadline = s.deadline) ∧
      setBudget s'.inputs = setBudget s.inputs ∧ setStart s'.inputs = setStart s.inputs := by
  unfold topUp at h
  split at h
  · cases ha : addWalletInputs extra s.deadline utxos s.inputs with
    | error e => rw [ha] at h; cases h
    | ok l' =>
      rw [ha] at h
      simp only [Except.ok.injEq] at h
      subst h
      obtain ⟨ws, k1, k2, k3, k4, _⟩ := addWalletInputs_ok ha
      exact ⟨rfl, ws, k1, k2, k3, k4⟩
  · simp only [Except.ok.injEq] at h
    subst h
    exact ⟨rfl, [], by simp, (fun _ hw => by cases hw), rfl, rfl⟩

/-! ## non-vacuity -/

/-- seed C18_8's situation in the model: a second-level input (value = required output
    1 000 000, budget 10 000) topped up with a wallet UTXO of 10 200 sat (budget ≤ W < budget +
    dust).  The top-up succeeds (`NeedWalletInput` becomes false); at the ceiling the change is
    below dust, is folded into the fee, the fee 10 200 exceeds the budget and `createAndCheckTx`
    REFUSES the transaction — nothing above the budget is handed to the wallet. -/
example :
    needWalletInput 0 [⟨0, 10000, 500, none, false, none, 0, 1000000, some 1000000, 34⟩] = true ∧
    ((addWalletLoop 0 500 [⟨10200, 0⟩] [⟨0, 10000, 500, none, false, none, 0, 1000000, some 1000000, 34⟩]).1.map
      (·.value), (addWalletLoop 0 500 [⟨10200, 0⟩]
        [⟨0, 10000, 500, none, false, none, 0, 1000000, some 1000000, 34⟩]).2) = ([1000000, 10200], true) ∧
    needWalletInput 0 [⟨0, 10000, 500, none, false, none, 0, 1000000, some 1000000, 34⟩,
      walletPInp 500 1 ⟨10200, 0⟩] = false ∧
    (createAndCheckTx ⟨[⟨1000000, some 1000000, none⟩, ⟨10200, none, none⟩], 10000, 250000, 500, none,
      700, 700, 294, none⟩ 14285 499 .ok).1 = .err .budget := by decide

/-- an input with a required output one sat below the P2WSH dust limit is filtered out, one at
    the limit is kept. -/
example : (filterInputs 253 [⟨0, 9000, 500, none, false, none, 600, 100000, some 329, 34⟩,
                             ⟨1, 8000, 500, none, false, none, 600, 100000, some 330, 34⟩]).map (·.idx) = [1] := by
  decide

/-- `sweep_outputs_not_dust` is not vacuous: an input whose required output sits exactly at the
    P2WSH dust limit comes out of `ClusterInputs` as a one-input set. -/
example : (clusterInputs 253 100 [⟨0, 9000, 500, none, false, none, 600, 100000, some 330, 34⟩]).map
    (fun s => s.inputs.map (·.idx)) = [[0]] := by
  simp [clusterInputs, filterInputs, feeForWeight, wrap64, PInp.reqDust, isDustOutput, dustLimitForSize,
    groupByKey, sortInputs, lockGroups, mergeInto, chunks]

end LndModel.C18
