/-
C18 driver part for `kind=swp` cases: replays the operations of a sweeper case on the model
`LndModel.C18.Sweeper` and compares the complete state (every pending input: state, attempts,
budget, deadline, starting rate, immediate, exclusive group, last fee rate) and the requests
handed to the publisher after EVERY operation; monitor clauses judged from the trace alone.
-/
import LndModel.Prelude.Lines
import LndModel.C18.Sweeper

open LndModel LndModel.Lines LndModel.C18

namespace LndModel.C18.SweeperDrv

/-- one row of the implementation's state dump. -/
structure Row where
  idx : Nat
  state : String
  attempts : Nat
  budget : Int
  deadline : Int
  start : Option Int
  immediate : Bool
  group : Option Nat
  last : Int
deriving Repr, DecidableEq

/-- a request as printed: members / wallet values / budget / deadline / start / immediate. -/
structure RReq where
  members : List Nat
  wallet : List Int
  budget : Int
  deadline : Int
  start : Option Int
  immediate : Bool
deriving Repr, DecidableEq

structure SwSt where
  sw : Sweeper := {}
  env : SEnv := ⟨0, 100, []⟩
  noDl : Nat := 1008
  op : Option SOp := none
  opLine : String := ""
  /-- implementation rows before the current op (for the monitor). -/
  prevRows : List Row := []
  /-- per input: the rate reported by the last TxFailed / TxUnknownSpend for a set containing it
      while it was PendingPublish / Published, cleared by a new offer / update (monitor only). -/
  owed : List (Nat × Int) := []
  nCases : Nat := 0
  nOps : Nat := 0
  nReqs : Nat := 0
  nRetryReqs : Nat := 0
  nRbf : Nat := 0
  nTopUp : Nat := 0
  nExcluded : Nat := 0
  nZeroRateFail : Nat := 0
  /-- the requests go to the real TxPublisher. -/
  real : Bool := false
  /-- fee (inputs - outputs) of the last tx handed to PublishTransaction. -/
  lastPubFee : List (List Nat × Int) := []
  /-- per set of inputs (members of a request): the highest fee rate at which a tx of exactly
      this set was published, and whether a TxFailed reporting rate 0 was seen since. -/
  offered : List (List Nat × Int × Bool × Nat) := []
  /-- per live publisher record: the highest rate it published at. -/
  cur : List (Nat × Int) := []
  /-- highest id of a publisher record created so far; per input: the records with an id up to
      this value were created before the input's last offer / UpdateParams (stale parameters). -/
  maxRid : Nat := 0
  stale : List (Nat × Nat) := []
  nRealCases : Nat := 0
  nRealPublished : Nat := 0
  nRealFailed : Nat := 0
  nRealRepublished : Nat := 0
deriving Inhabited

def optI (s : Option String) : Option Int :=
  match s with
  | some "none" => none
  | some v => v.toInt?
  | none => none

def lst (s : String) : List String := if s == "-" || s == "" then [] else s.splitOn ","

def parseParams (ws : List String) : SParams :=
  { budget := (kvInt? ws "budget").getD 0, deadline := optI (kv? ws "deadline"),
    start := optI (kv? ws "start"), immediate := (kv? ws "immediate") == some "true",
    group := (optI (kv? ws "group")).map Int.toNat }

def parseEvent (s : String) : BEvent :=
  match s with
  | "Published" => .published | "Replaced" => .replaced | "Failed" => .failed
  | "UnknownSpend" => .unknownSpend | "Fatal" => .fatal | _ => .confirmed

def parseOp (noDl : Nat) (k : String) (ws : List String) : Option SOp :=
  match k with
  | "offer" =>
    some (.offer { idx := (kvNat? ws "idx").getD 0, value := (kvInt? ws "value").getD 0,
                   wu := (kvNat? ws "wu").getD 0, lt := (optI (kv? ws "lt")).map Int.toNat,
                   csv := (kvNat? ws "csv").getD 0, req := optI (kv? ws "req"),
                   reqSize := (kvNat? ws "reqsize").getD 34 }
      (parseParams ws) (optI (kv? ws "rbf")) noDl)
  | "update" => some (.update ((kvNat? ws "idx").getD 0) (parseParams ws))
  | "block" => some (.block ((kvInt? ws "height").getD 0))
  | "result" =>
    let spent := (lst ((kv? ws "spent").getD "-")).map fun w =>
      match w.splitOn ":" with
      | [a, b] => (a.toNat?.getD 0, b == "true")
      | _ => (0, false)
    some (.result ((lst ((kv? ws "members").getD "-")).map (·.toNat?.getD 0))
      (parseEvent ((kv? ws "event").getD "")) ((kvInt? ws "rate").getD 0)
      ((kv? ws "oldknown") == some "true") spent)
  | "spend" =>
    some (.spend ((lst ((kv? ws "ins").getD "-")).map (·.toNat?.getD 0)) ((kv? ws "ours") == some "true"))
  | _ => none

def parseRow (w : String) : Option Row :=
  match w.splitOn ":" with
  | [a, st, att, b, d, s, im, g, l] =>
    some { idx := a.toNat?.getD 0, state := st, attempts := att.toNat?.getD 0, budget := b.toInt?.getD 0,
           deadline := d.toInt?.getD 0, start := optI (some s), immediate := im == "true",
           group := (optI (some g)).map Int.toNat, last := l.toInt?.getD 0 }
  | _ => none

def parseReq (w : String) : Option RReq :=
  match w.splitOn "/" with
  | [m, wl, b, d, s, im] =>
    some { members := (lst m).map (·.toNat?.getD 0), wallet := (lst wl).map (·.toInt?.getD 0),
           budget := b.toInt?.getD 0, deadline := d.toInt?.getD 0, start := optI (some s),
           immediate := im == "true" }
  | _ => none

def Row.str (r : Row) : String :=
  s!"{r.idx}:{r.state}:{r.attempts}:{r.budget}:{r.deadline}:{r.start}:{r.immediate}:{r.group}:{r.last}"
def RReq.str (r : RReq) : String :=
  s!"{r.members}/{r.wallet}/{r.budget}/{r.deadline}/{r.start}/{r.immediate}"

def rowOf (i : SIn) : Row :=
  { idx := i.p.idx, state := i.state.name, attempts := i.attempts, budget := i.p.budget,
    deadline := i.p.deadline, start := i.p.start, immediate := i.p.immediate, group := i.group,
    last := i.lastRate }

def reqOf (r : SReq) : RReq := ⟨r.members, r.wallet, r.budget, r.deadline, r.start, r.immediate⟩

def sameMultiset [DecidableEq α] (a b : List α) : Bool :=
  a.length == b.length && a.all (fun x => (a.filter (· == x)).length == (b.filter (· == x)).length)

/-- start of a case. -/
def begin (s : SwSt) (rest : List String) : SwSt :=
  { s with sw := { inputs := [], height := (kvInt? rest "height").getD 0 },
           env := ⟨(kvInt? rest "relay").getD 0, (kvNat? rest "maxinputs").getD 100,
                   (lst ((kv? rest "utxos").getD "-")).map fun v => ⟨v.toInt?.getD 0, 0⟩⟩,
           noDl := (kvNat? rest "nodl").getD 1008, op := none, prevRows := [], owed := [],
           real := (kv? rest "real") == some "true", lastPubFee := [], offered := [], cur := [], maxRid := 0, stale := [],
           nRealCases := s.nRealCases + (if (kv? rest "real") == some "true" then 1 else 0),
           nCases := s.nCases + 1 }

def sortNats (l : List Nat) : List Nat := l.toArray.qsort (· < ·) |>.toList

/-- a `tx` line inside a sweeper case (real publisher). -/
def onTx (s : SwSt) (rest : List String) : SwSt :=
  if (kv? rest "via") == some "publish" then
    let key := sortNats ((lst ((kv? rest "ins").getD "-")).map (·.toNat?.getD 0))
    { s with lastPubFee := (s.lastPubFee.filter fun (x : List Nat × Int) => x.1 != key) ++
        [(key, (kvInt? rest "sumin").getD 0 - (kvInt? rest "sumout").getD 0)] }
  else s

/-- monitor of the real-publisher results fed to the sweeper (from the trace lines only):
    `fee-accounting`: the fee claimed by a TxPublished / TxReplaced result is inputs - outputs of
    the tx handed to PublishTransaction; `retry-rate-decreased`: a sweep of exactly the same
    inputs (same budgets, same weight, hence same ceiling) had published a tx at a higher fee rate
    before it FAILED, no new offer / UpdateParams for a member came in between (that would be the
    caller's choice), and the retry now publishes at a lower rate. `rid` identifies the
    publisher's record (several records for the same inputs can be alive after UpdateParams). -/
def onRealResult (s : SwSt) (op : SOp) (fee : Int) (rid : Nat) : SwSt × List (String × String × String) :=
  if !s.real then (s, []) else
  match op with
  | .offer d _ _ _ =>
    ({ s with offered := s.offered.filter fun (x : List Nat × Int × Bool × Nat) => !x.1.contains d.idx,
              stale := (s.stale.filter fun (x : Nat × Nat) => x.1 != d.idx) ++ [(d.idx, s.maxRid)] }, [])
  | .update k _ =>
    ({ s with offered := s.offered.filter fun (x : List Nat × Int × Bool × Nat) => !x.1.contains k,
              stale := (s.stale.filter fun (x : Nat × Nat) => x.1 != k) ++ [(k, s.maxRid)] }, [])
  | .result members0 ev rate _ _ =>
    let members := sortNats members0
    let paid := (s.lastPubFee.find? (fun (x : List Nat × Int) => x.1 == members)).map (·.2)
    let ended := s.offered.find? (fun (x : List Nat × Int × Bool × Nat) => x.1 == members)
    let others := s.offered.filter (fun (x : List Nat × Int × Bool × Nat) => x.1 != members)
    let curOf := (s.cur.find? (fun (x : Nat × Int) => x.1 == rid)).map (·.2)
    if ev == BEvent.published || ev == BEvent.replaced then
      let acc : List (String × String × String) :=
        if paid != some fee then
          [("fee-accounting", s!"result of set {members} claims fee {fee}, the published tx pays {paid}", "")]
        else []
      let acc := match ended with
        | some (_, m, z, frid) =>
          -- only a record created after the failed one is its retry (UpdateParams can leave an
          -- older record for the same inputs alive)
          if rate < m && rid > frid then
            acc ++ [("retry-rate-decreased",
              s!"after_zero_rate_failure={if z then 1 else 0} set {members} is published at {rate} sat/kw by the retry; the failed sweep of the same set had published at {m}", "")]
          else acc
        | none => acc
      ({ s with cur := (s.cur.filter fun (x : Nat × Int) => x.1 != rid) ++ [(rid, max rate (curOf.getD 0))],
                nRealPublished := s.nRealPublished + 1,
                nRealRepublished := s.nRealRepublished + (if ended.isSome && curOf.isNone then 1 else 0) }, acc)
    else if ev == BEvent.failed && (members.any fun k => s.stale.any fun (x : Nat × Nat) => x.1 == k && rid ≤ x.2) then
      -- a record built from parameters that a later offer / UpdateParams replaced
      ({ s with cur := s.cur.filter fun (x : Nat × Int) => x.1 != rid, nRealFailed := s.nRealFailed + 1 }, [])
    else if ev == BEvent.failed then
      -- does this failure overwrite the members' recorded rate? (markInputsPublishFailed only
      -- touches inputs that are PendingPublish / Published)
      let marks := members.any fun k =>
        match s.prevRows.find? (·.idx == k) with
        | some i => i.state == "PendingPublish" || i.state == "Published"
        | none => false
      let zOf (z : Bool) : Bool := if marks then rate == 0 else z
      let entry : Option (List Nat × Int × Bool × Nat) := match curOf, ended with
        | some c, some (_, m, z, _) => some (members, max c m, zOf z, s.maxRid)
        | some c, none => some (members, c, zOf false, s.maxRid)
        | none, some (_, m, z, _) => some (members, m, zOf z, s.maxRid)
        | none, none => none
      ({ s with offered := others ++ entry.toList, cur := s.cur.filter fun (x : Nat × Int) => x.1 != rid,
                nRealFailed := s.nRealFailed + 1 }, [])
    else (s, [])
  | _ => (s, [])

/-- result of comparing a state line: (new state, mismatch details, monitor failures as
    (clause, detail, tag)). -/
def onState (s : SwSt) (r : List String) : SwSt × List String × List (String × String × String) :=
  match s.op with
  | none => (s, ["st line without op"], [])
  | some op =>
    let implKnown := (kv? r "known") == some "true"
    let implH := (kvInt? r "h").getD 0
    let rows := (lst ((kv? r "ins").getD "-")).filterMap parseRow
    let reqsS := (kv? r "reqs").getD "-"
    let reqs := (if reqsS == "-" then [] else reqsS.splitOn "|").filterMap parseReq
    -- (X) model step
    let out := s.sw.step s.env op
    let sw' := out.1
    let mRows := (sw'.inputs.map rowOf).toArray.qsort (fun a b => a.idx < b.idx) |>.toList
    let mReqs := out.2.1.map reqOf
    let mm : List String :=
      (if mRows != rows then [s!"sweeper state after `{s.opLine}`: model={mRows.map Row.str} impl={rows.map Row.str}"] else [])
      ++ (if !sameMultiset mReqs reqs then [s!"requests after `{s.opLine}`: model={mReqs.map RReq.str} impl={reqs.map RReq.str}"] else [])
      ++ (if out.2.2 != implKnown then [s!"known after `{s.opLine}`: model={out.2.2} impl={implKnown}"] else [])
      ++ (if sw'.height != implH then [s!"height: model={sw'.height} impl={implH}"] else [])
    -- (S) monitor, from the implementation's lines only
    let prev (k : Nat) : Option Row := s.prevRows.find? (·.idx == k)
    let cur (k : Nat) : Option Row := rows.find? (·.idx == k)
    -- what a failed sweep reported for an input is owed to it from now on (a new offer / update
    -- of the input replaces its parameters - the caller's choice - and clears it)
    let owed : List (Nat × Int) := match op with
      | .offer d _ rbf _ =>
        -- a NEW input that our own mempool tx already spends restarts at that tx's fee rate
        (s.owed.filter (fun (x : Nat × Int) => x.1 != d.idx)) ++
          (match rbf, prev d.idx with
           | some r, none => [(d.idx, r)]
           | _, _ => [])
      | .update k _ => s.owed.filter (fun (x : Nat × Int) => x.1 != k)
      | .result members ev rate _ spent =>
        if ev == BEvent.failed || ev == BEvent.unknownSpend then
          let hit := members.filter fun k =>
            match prev k with
            | some i => (i.state == "PendingPublish" || i.state == "Published") && !(spent.any (·.1 == k))
            | none => false
          -- the recorded rate never goes down: a later failure reporting less (or nothing: 0)
          -- does not release what an earlier one reported
          let old (k : Nat) : Int := ((s.owed.find? (fun (x : Nat × Int) => x.1 == k)).map (·.2)).getD 0
          (s.owed.filter (fun (x : Nat × Int) => !hit.contains x.1)) ++ hit.map (fun k => (k, max rate (old k)))
        else s.owed
      | _ => s.owed
    let mon1 : List (String × String × String) := reqs.flatMap fun q =>
      let ms := q.members.filterMap prev
      -- budget of the request = sum of the members' budgets (as they are after the op: an offer /
      -- update in this very op may have changed them)
      let msNow := q.members.filterMap cur
      let sum := msNow.foldl (fun a i => a + i.budget) 0
      (if q.budget != sum then [("budget-sum", s!"request {q.members}: Budget={q.budget}, sum of the inputs' budgets={sum}", "")] else [])
      ++ (if msNow.any (fun i => i.deadline != q.deadline) then
            [("deadline-mismatch", s!"request {q.members} deadline {q.deadline} contains an input with another deadline", "")] else [])
      -- a request may only contain inputs that were idle (Init / PublishFailed) before the sweep:
      -- an input inside a live sweep (PendingPublish / Published) would lend its budget twice
      ++ (match op with
          | .block _ =>
            (ms.filter (fun i => i.state == "PendingPublish" || i.state == "Published")).map fun i =>
              ("input-in-two-sweeps", s!"request {q.members} contains input {i.idx} which is {i.state}", "")
          | _ => [])
      -- every member is PendingPublish afterwards
      ++ ((msNow.filter (fun i => i.state != "PendingPublish")).map fun i =>
            ("input-in-two-sweeps", s!"input {i.idx} of request {q.members} is {i.state} after the sweep", ""))
      -- the retry must not restart below the rate the failed sweep reported for a member
      ++ (q.members.filterMap fun k =>
            match owed.find? (·.1 == k) with
            | some (_, r) =>
              if q.start.getD 0 < r then
                some ("regroup-rate-decreased", s!"request {q.members} starts at {q.start.getD 0}; the failed sweep of input {k} reported {r}", "")
              else none
            | none => none)
    -- no input in two requests of the same round
    let allM := reqs.flatMap (·.members)
    let mon2 : List (String × String × String) :=
      if allM.any (fun k => (allM.filter (· == k)).length > 1) then
        [("input-in-two-sweeps", s!"an input is in two requests of one round: {reqs.map (·.members)}", "")] else []
    -- forget inputs that left the sweeper
    let owed := owed.filter fun (x : Nat × Int) => rows.any (·.idx == x.1)
    let zr := match op with
      | .result _ ev rate _ _ => if (ev == BEvent.failed || ev == BEvent.unknownSpend) && rate == 0 then 1 else 0
      | _ => 0
    let newR := (lst ((kv? r "newrids").getD "-")).map (·.toNat?.getD 0)
    let s' := { s with sw := sw', prevRows := rows, maxRid := newR.foldl max s.maxRid, owed := owed, op := none, nOps := s.nOps + 1,
                       nReqs := s.nReqs + reqs.length,
                       nRetryReqs := s.nRetryReqs + (reqs.filter fun q => q.members.any fun k => s.owed.any (·.1 == k)).length,
                       nRbf := s.nRbf + (match op with | .offer _ _ (some _) _ => 1 | _ => 0),
                       nTopUp := s.nTopUp + (reqs.filter (fun q => !q.wallet.isEmpty)).length,
                       nExcluded := s.nExcluded + (rows.filter (·.state == "Excluded")).length,
                       nZeroRateFail := s.nZeroRateFail + zr }
    (s', mm, mon1 ++ mon2)

end LndModel.C18.SweeperDrv
