/-
C18 driver: replays a harness trace on the model (correspondence, `MISMATCH`)
and evaluates the property monitor on the implementation's answers (`MONITOR`).

Monitor clauses (computed from the trace with exact integer arithmetic, not
from the model's verdicts):
  fee-above-budget, negative-fee, rate-above-max, rate-above-ceiling,
  rate-decreased, schedule-not-monotone, below-ceiling-at-deadline,
  below-relay-floor, ceiling, missing-input, required-output, dust-output,
  fee-accounting, increased-flag
-/
import LndModel.Prelude.Lines
import LndModel.C18.Model

open LndModel LndModel.Lines LndModel.C18

namespace LndModel.C18.Driver

/-- a `tx` line of the trace. -/
structure TxLine where
  published : Bool
  ins : List Int
  outs : List (String × Int)
  locktime : Int
  sumin : Int
  sumout : Int

structure St where
  caseId : String := "0"
  kind : String := ""
  arch : String := "amd64"
  -- ff case (implementation-side values for the monitor, model state for X)
  ff : Option FeeFn := none
  fEnd : Int := 0
  fStart : Int := 0
  fWidth : Nat := 0
  fCt : Nat := 0
  fEstPath : Bool := false
  fRelay : Int := 0
  fStartOpt : Option Int := none
  fEst : Option Int := none
  lastRate : Int := 0
  sgte : Bool := false          -- CALLER-SUPPLIED start > ceiling in this case (tag of the known finding)
  /-- the case lies in the property's domain (`0 < relay fee ≤ ceiling`): outside it the relay
      floor and the cap contradict each other, so the case is only used for the
      model-vs-code comparison (X) and never judged by the monitor. -/
  judge : Bool := true
  nUnjudged : Nat := 0
  printedKnown : Nat := 0
  printedOther : Nat := 0
  pts : List (Nat × Int) := []  -- observed points of the schedule
  fired : List String := []     -- monitor clauses already reported in this case
  -- pub case
  req : Req := ⟨[], 0, 0, 0, none, 1, 1, 0, none⟩
  script : String := ""
  relay : Int := 0
  est : Option Int := none
  mfra : Int := 0
  rcd : Rec := {}
  opKind : String := ""
  opHeight : Int := 0
  opMp : List Ans := []
  opPub : Ans := .ok
  opTxs : List TxLine := []
  lastPubRate : Option Int := none
  lastCur : Option Int := none
  -- counters
  lines : Nat := 0
  cases : Nat := 0
  ops : Nat := 0
  nontriv : Nat := 0
  mismatches : Nat := 0
  monitorFails : Nat := 0
  samples : Nat := 0
  nFloat : Nat := 0
  nOvf : Nat := 0
  nFF : Nat := 0
  nFFErr : Nat := 0
  nPub : Nat := 0
  nTx : Nat := 0
  nPublished : Nat := 0
  nReplaced : Nat := 0
  nFailed : Nat := 0
  nFatal : Nat := 0
  nNoEvent : Nat := 0
  nDustFolded : Nat := 0
  nBudgetErr : Nat := 0
  nCeiling : Nat := 0
  nSgte : Nat := 0
  nIncreased : Nat := 0
  nMaxPos : Nat := 0
  maxWidth : Nat := 0
  nReqTx : Nat := 0

def M : MulDiv := goMulF64

def mismatch (s : St) (detail : String) : IO St := do
  if s.mismatches < 40 then
    IO.println s!"MISMATCH case={s.caseId} line={s.lines} {detail}"
  return { s with mismatches := s.mismatches + 1 }

def monitor (s : St) (clause detail : String) : IO St := do
  -- outside the property's domain: never judged
  if !s.judge then return s
  -- one report per clause and case
  if s.fired.contains clause then return s
  -- print caps are separate for lines of the known finding and for all others, so that a flood
  -- of known-finding lines can never hide a new failure
  let printed := if s.sgte then s.printedKnown else s.printedOther
  if printed < 300 then
    IO.println s!"MONITOR case={s.caseId} clause={clause} line={s.lines} start_gt_end={if s.sgte then 1 else 0} {detail}"
  let s := if s.sgte then { s with printedKnown := s.printedKnown + 1 } else { s with printedOther := s.printedOther + 1 }
  return { s with monitorFails := s.monitorFails + 1, fired := clause :: s.fired }

def after (ws : List String) : List String :=
  match ws.dropWhile (· ≠ "=>") with
  | _ :: r => r
  | [] => []

def optInt (s : Option String) : Option Int :=
  match s with
  | some "none" => none
  | some "err" => none
  | some v => v.toInt?
  | none => none

def parseAns (s : String) : Ans :=
  match s with
  | "ok" => .ok | "insuff" => .insuff | "minrelay" => .minRelay
  | "mempoolmin" => .mempoolMin | "mempoolfee" => .mempoolFee | "missing" => .missing
  | "unimpl" => .unimpl | "backendver" => .backendVer | _ => .other

def parseList (s : String) : List String :=
  if s == "-" then [] else s.splitOn ","

def parseOuts (s : String) : List (String × Int) :=
  (parseList s).map fun w => (String.ofList (w.toList.take 1), (String.ofList (w.toList.drop 1)).toInt?.getD 0)

def kindName : OutKind → String
  | .required => "r" | .extra => "x" | .change => "c"

def boolS (b : Bool) : String := if b then "true" else "false"

def errS : Option Err → String
  | none => "none" | some e => e.name

/-- dust limits of the standard change scripts (lnwallet.DustLimitForSize). -/
def dustOf (script : String) : Int :=
  match script with
  | "p2wkh" => 294 | "p2wsh" => 330 | "p2tr" => 330 | _ => 546

def ffFields (f : FeeFn) : String :=
  s!"start={f.start} end={f.end_} cur={f.cur} width={f.width} pos={f.pos} delta={f.delta}"

/-- monitor bookkeeping for one observation of the fee function `(pos, rate)`. -/
def observe (s : St) (p : Nat) (r : Int) (isState : Bool) : IO St := do
  let mut s := s
  if r > s.fEnd then
    s ← monitor s "rate-above-ceiling" s!"rate={r} end={s.fEnd} pos={p}"
  if p ≥ s.fWidth && r != s.fEnd then
    s ← monitor s "below-ceiling-at-deadline" s!"pos={p} width={s.fWidth} rate={r} end={s.fEnd}"
  for (p', r') in s.pts do
    if (p ≤ p' && r > r') || (p' ≤ p && r' > r) then
      s ← monitor s "schedule-not-monotone" s!"rate({p})={r} rate({p'})={r'}"
      break
  if isState then
    if r < s.lastRate then
      s ← monitor s "rate-decreased" s!"rate {s.lastRate} -> {r} at pos={p}"
    s := { s with lastRate := r }
  let pts := if s.pts.length < 64 then (p, r) :: s.pts else s.pts
  return { s with pts := pts }

def ffOp (s : St) (ws : List String) (op : Op) : IO St := do
  let s := { s with ops := s.ops + 1 }
  let r := after ws
  let inc := (kv? r "inc").getD "?"
  let err := (kv? r "err").getD "?"
  let rate := (kvInt? r "rate").getD 0
  let pos := (kvNat? r "pos").getD 0
  let some f := s.ff | mismatch s "op without fee function"
  let prev := s.lastRate
  -- (X)
  let res := match op with
    | .inc => f.increment M
    | .ict ct => f.increaseFeeRate M ct
  let (g, mInc, mErr) := match res with
    | .ok (g, b) => (g, boolS b, "none")
    | .error e => (f, "false", e.name)
  let mut s := { s with ff := some g }
  if mInc != inc || mErr != err || g.cur != rate || g.pos != pos then
    s ← mismatch s s!"ff op: model=inc={mInc},err={mErr},rate={g.cur},pos={g.pos} impl=inc={inc},err={err},rate={rate},pos={pos}"
  -- (S)
  s ← observe s pos rate true
  match op with
  | .ict ct =>
    if ct ≤ 1 && rate != s.fEnd then
      s ← monitor s "below-ceiling-at-deadline" s!"IncreaseFeeRate({ct}) left rate={rate} end={s.fEnd}"
  | .inc => pure ()
  if err == "none" && (inc == "true") != (rate > prev) then
    s ← monitor s "increased-flag" s!"inc={inc} but rate {prev} -> {rate}"
  if inc == "true" then s := { s with nIncreased := s.nIncreased + 1, nontriv := s.nontriv + 1 }
  if err == "maxpos" then s := { s with nMaxPos := s.nMaxPos + 1 }
  if rate == s.fEnd && s.fWidth > 0 && prev != s.fEnd then s := { s with nCeiling := s.nCeiling + 1 }
  return s

def sumVals (l : List Inp) : Int := l.foldl (fun a i => a + i.value) 0

/-- tx-level monitor: uses only the case header, the `in` lines and the tx line. -/
def monitorTx (s : St) (t : TxLine) : IO St := do
  let mut s := s
  let n := s.req.inputs.length
  let fee := t.sumin - t.sumout
  -- all requested inputs, each exactly once
  let want := (List.range n).map (Int.ofNat ·)
  let sorted := t.ins.toArray.qsort (· < ·) |>.toList
  if sorted != want then
    s ← monitor s "missing-input" s!"tx spends inputs {t.ins}, requested 0..{n - 1}"
  else
    if t.sumin != sumVals s.req.inputs then
      s ← monitor s "fee-accounting" s!"sum of inputs {t.sumin} != {sumVals s.req.inputs}"
  if fee > s.req.budget then
    s ← monitor s "fee-above-budget" s!"fee={fee} budget={s.req.budget} published={t.published}"
  if fee < 0 then
    s ← monitor s "negative-fee" s!"sumin={t.sumin} sumout={t.sumout}"
  -- required outputs: inputs committing to an output come first, index aligned
  let reqOf (i : Int) : Option Int := (s.req.inputs[i.toNat]?).bind (·.req)
  let mut seenPlain := false
  let mut k := 0
  for i in t.ins do
    match reqOf i with
    | some v =>
      if seenPlain || t.outs[k]? != some ("r", v) then
        s ← monitor s "required-output" s!"input {i} (tx index {k}) commits to output value {v}; outputs={t.outs.map (·.2)}"
        break
    | none => seenPlain := true
    k := k + 1
  -- change outputs
  let changes := t.outs.filter (·.1 == "c")
  let dust := dustOf s.script
  if changes.length > 1 then
    s ← monitor s "dust-output" s!"{changes.length} change outputs"
  for (_, v) in changes do
    if v < dust then
      s ← monitor s "dust-output" s!"change output {v} below dust limit {dust} ({s.script})"
  if t.outs.isEmpty then
    s ← monitor s "dust-output" "transaction without outputs"
  -- the fee implied by the configured maximum rate (dust change may be added)
  let slack : Int := if changes.isEmpty then dust - 1 else 0
  if fee > Int.tdiv (s.req.maxFeeRate * s.req.wTx) 1000 + slack then
    s ← monitor s "rate-above-max" s!"fee={fee} weight={s.req.wTx} maxrate={s.req.maxFeeRate}"
  if changes.isEmpty then s := { s with nDustFolded := s.nDustFolded + 1 }
  if (t.outs.filter (·.1 == "r")).length > 0 then s := { s with nReqTx := s.nReqTx + 1 }
  return { s with nTx := s.nTx + 1 }

def txEq (m : Bool × Tx) (t : TxLine) : Bool :=
  m.1 == t.published && m.2.ins.map (Int.ofNat ·) == t.ins
    && m.2.outs.map (fun o => (kindName o.1, o.2)) == t.outs && m.2.locktime == t.locktime

def pubRes (s : St) (ws : List String) : IO St := do
  let s := { s with ops := s.ops + 1 }
  let r := after ws
  let ev := (kv? r "event").getD "?"
  let err := (kv? r "err").getD "?"
  let rate := (kvInt? r "rate").getD 0
  let fee := (kvInt? r "fee").getD 0
  let recfee := (kvInt? r "recfee").getD 0
  let live := (kv? r "live").getD "?"
  let ffok := (kv? r "ff").getD "?" == "ok"
  let cur := (kvInt? r "cur").getD 0
  let pos := (kvNat? r "pos").getD 0
  let width := (kvNat? r "width").getD 0
  let ffend := (kvInt? r "ffend").getD 0
  let ffstart := (kvInt? r "ffstart").getD 0
  -- (X)
  let out := if s.opKind == "init" then
      initialBroadcast M s.req s.opHeight s.est s.relay s.opMp s.opPub
    else feeBump M s.req s.rcd s.opHeight s.opMp s.opPub
  let mut s := { s with rcd := out.rcd }
  let mres := out.res
  if mres.event.name != ev || errS mres.err != err || mres.rate != rate || mres.fee != fee then
    s ← mismatch s s!"{s.opKind}: model=event={mres.event.name},err={errS mres.err},rate={mres.rate},fee={mres.fee} impl=event={ev},err={err},rate={rate},fee={fee}"
  if out.rcd.fee != recfee || boolS out.rcd.live != live then
    s ← mismatch s s!"{s.opKind}: record model=fee={out.rcd.fee},live={out.rcd.live} impl=fee={recfee},live={live}"
  match out.rcd.ff with
  | some f =>
    if !ffok || f.cur != cur || f.pos != pos || f.width != width || f.end_ != ffend || f.start != ffstart then
      s ← mismatch s s!"{s.opKind}: fee function model={ffFields f} impl=ok={ffok},cur={cur},pos={pos},width={width},end={ffend},start={ffstart}"
  | none =>
    if ffok then s ← mismatch s s!"{s.opKind}: model has no fee function, impl has"
  let txs := s.opTxs.reverse
  if out.emitted.length != txs.length || !((out.emitted.zip txs).all (fun p => txEq p.1 p.2)) then
    s ← mismatch s s!"{s.opKind}: emitted txs differ: model={out.emitted.map (fun e => (e.1, e.2.ins, e.2.outs.map (·.2), e.2.locktime))} impl={txs.map (fun t => (t.published, t.ins, t.outs.map (·.2), t.locktime))}"
  -- (S)
  -- all rate clauses are judged on the transactions actually handed to the wallet for broadcast
  let above := ffok && ffstart > ffend
  if s.opKind == "init" then
    if above then s := { s with nSgte := s.nSgte + 1 }
    s := { s with sgte := above && s.req.start.isSome && s.judge }
  let published := ev == "Published" || ev == "Replaced"
  if published then
    -- the claimed fee must be the real fee of the published tx
    match txs.getLast? with
    | some t =>
      if fee != t.sumin - t.sumout then
        s ← monitor s "fee-accounting" s!"claimed fee {fee}, inputs - outputs = {t.sumin - t.sumout}"
    | none => s ← monitor s "fee-accounting" "published event without a transaction"
    if rate > s.req.maxFeeRate then
      s ← monitor s "rate-above-max" s!"published at rate {rate} > MaxFeeRate {s.req.maxFeeRate}"
    if rate > s.mfra then
      s ← monitor s "rate-above-ceiling" s!"published at rate {rate} > ceiling {s.mfra}"
    match s.lastPubRate with
    | some l =>
      if rate < l then s ← monitor s "rate-decreased" s!"published rate {l} -> {rate}"
    | none => pure ()
    if s.req.deadline - s.opHeight ≤ 1 then
      if rate != s.mfra then
        s ← monitor s "below-ceiling-at-deadline" s!"height={s.opHeight} deadline={s.req.deadline} published rate={rate} ceiling={s.mfra}"
      else s := { s with nCeiling := s.nCeiling + 1 }
    if ev == "Published" && s.req.start.isNone && rate < s.relay then
      s ← monitor s "below-relay-floor" s!"first tx published at {rate} < relay fee {s.relay} (estimated start)"
    if ffok && ffend != s.mfra then
      s ← monitor s "ceiling" s!"fee function ceiling {ffend} != MaxFeeRateAllowed {s.mfra}"
    s := { s with lastPubRate := some rate, nontriv := s.nontriv + 1 }
  if ev == "Published" then s := { s with nPublished := s.nPublished + 1 }
  else if ev == "Replaced" then s := { s with nReplaced := s.nReplaced + 1 }
  else if ev == "Failed" then s := { s with nFailed := s.nFailed + 1, nontriv := s.nontriv + 1 }
  else if ev == "Fatal" then s := { s with nFatal := s.nFatal + 1, nontriv := s.nontriv + 1 }
  else s := { s with nNoEvent := s.nNoEvent + 1 }
  if err == "budget" then s := { s with nBudgetErr := s.nBudgetErr + 1 }
  return { s with opTxs := [] }

def step (s : St) (line : String) : IO St := do
  let s := { s with lines := s.lines + 1 }
  let ws := words line
  match ws with
  | "FACT" :: rest =>
    let mut s := { s with arch := (kv? rest "arch").getD "amd64" }
    let chk (s : St) (key : String) (v : Int) : IO St :=
      if kvInt? rest key == some v then pure s
      else mismatch s s!"fact {key}: model={v} impl={(kv? rest key).getD "?"}"
    s ← chk s "maxBlockTarget" maxBlockTarget
    s ← chk s "dust_p2wkh" (dustOf "p2wkh")
    s ← chk s "dust_p2wsh" (dustOf "p2wsh")
    chk s "dust_p2tr" (dustOf "p2tr")
  | "CASE" :: id :: rest =>
    let kind := (kv? rest "kind").getD ""
    let mut s := { s with caseId := id, kind := kind, cases := s.cases + 1, ff := none, sgte := false, judge := true,
                          pts := [], fired := [], lastPubRate := none, lastCur := none, rcd := {}, opTxs := [] }
    if s.samples < 2 || (kind == "pub" && s.samples < 5 && s.nPub < 3) then
      IO.println s!"SAMPLE {line}"
      s := { s with samples := s.samples + 1 }
    if kind == "ff" then
      let e := (kvInt? rest "end").getD 0
      let ct := (kvNat? rest "ct").getD 0
      s := { s with fEnd := e, fCt := ct, fStartOpt := optInt (kv? rest "start"),
                    fEst := optInt (kv? rest "est"), fRelay := (kvInt? rest "relay").getD 0,
                    fEstPath := (kv? rest "start") == some "none", nFF := s.nFF + 1 }
      let rl := (kvInt? rest "relay").getD 0
      let inDomain := decide (0 < rl) && decide (rl ≤ e)
      s := { s with judge := inDomain, nUnjudged := s.nUnjudged + (if inDomain then 0 else 1) }
    if kind == "pub" then
      let script := (kv? rest "script").getD ""
      s := { s with
        req := { inputs := [], budget := (kvInt? rest "budget").getD 0,
                 maxFeeRate := (kvInt? rest "maxrate").getD 0,
                 deadline := (kvInt? rest "deadline").getD 0,
                 start := optInt (kv? rest "start"),
                 wBudget := (kvNat? rest "wb").getD 1, wTx := (kvNat? rest "wtx").getD 1,
                 dust := (kvInt? rest "dust").getD 0, extra := optInt (kv? rest "aux") },
        script := script, relay := (kvInt? rest "relay").getD 0, est := optInt (kv? rest "est"),
        nPub := s.nPub + 1 }
      if (kvInt? rest "dust").getD 0 != dustOf script then
        s ← mismatch s s!"dust limit of {script}: impl={(kv? rest "dust").getD "?"} table={dustOf script}"
    return s
  | ["END"] => return s
  | "mulf" :: a :: n :: d :: _ =>
    let s := { s with ops := s.ops + 1, nFloat := s.nFloat + 1 }
    let (some a, some n, some d) := (a.toInt?, n.toNat?, d.toNat?) | mismatch s "bad mulf"
    let impl := ((after ws).head?.bind String.toInt?).getD 0
    let raw := mulF64Mag a.natAbs n d
    if (raw : Int) ≥ (2 : Int) ^ 63 then
      let s := { s with nOvf := s.nOvf + 1 }
      if s.arch == "amd64" && goMulF64 a n d != impl then
        mismatch s s!"mulf overflow {a} {n} {d}: model={goMulF64 a n d} impl={impl}"
      else return s
    else if goMulF64 a n d != impl then
      mismatch s s!"mulf {a} {n} {d}: model={goMulF64 a n d} impl={impl}"
    else return { s with nontriv := s.nontriv + 1 }
  | "nspk" :: b :: w :: _ =>
    let s := { s with ops := s.ops + 1 }
    let (some b, some w) := (b.toInt?, w.toNat?) | mismatch s "bad nspk"
    let impl := ((after ws).head?.bind String.toInt?).getD 0
    let mut s := s
    if newSatPerKWeight M b w != impl then
      s ← mismatch s s!"nspk {b} {w}: model={newSatPerKWeight M b w} impl={impl}"
    -- the rate must be the correctly rounded quotient up to float error
    let diff := (impl * w - b * 1000).natAbs
    if 2 * diff > w + (b.natAbs * 1000) / 2 ^ 49 + 1 then
      s ← monitor s "ceiling" s!"NewSatPerKWeight({b},{w})={impl} is not budget*1000/weight rounded"
    return s
  | "ffw" :: r :: w :: _ =>
    let s := { s with ops := s.ops + 1 }
    let (some r, some w) := (r.toInt?, w.toNat?) | mismatch s "bad ffw"
    let impl := ((after ws).head?.bind String.toInt?).getD 0
    if feeForWeight r w != impl then mismatch s s!"ffw {r} {w}: model={feeForWeight r w} impl={impl}"
    else return s
  | "cct" :: h :: d :: _ =>
    let s := { s with ops := s.ops + 1 }
    let (some h, some d) := (h.toInt?, d.toInt?) | mismatch s "bad cct"
    let impl := ((after ws).head?.bind String.toNat?).getD 0
    let mut s := s
    if calcCurrentConfTarget h d != impl then
      s ← mismatch s s!"cct {h} {d}: model={calcCurrentConfTarget h d} impl={impl}"
    if (impl : Int) != (if d - h < 0 then 0 else d - h) then
      s ← monitor s "below-ceiling-at-deadline" s!"conf target of height {h}, deadline {d} is {impl}"
    return s
  | "new" :: _ =>
    let s := { s with ops := s.ops + 1 }
    let r := after ws
    let model := newLinear M s.fEnd s.fCt s.fStartOpt s.fEst s.fRelay
    match r with
    | "ok" :: rest =>
      let get (k : String) : Int := (kvInt? rest k).getD 0
      let impl : FeeFn := ⟨get "start", get "end", get "cur", (kvNat? rest "width").getD 0,
                           (kvNat? rest "pos").getD 0, get "delta"⟩
      let mut s := s
      match model with
      | .ok f =>
        if f != impl then s ← mismatch s s!"new: model={ffFields f} impl={ffFields impl}"
        s := { s with ff := some f }
      | .error e =>
        s ← mismatch s s!"new: model=err={e.name} impl=ok {ffFields impl}"
        s := { s with ff := some impl }
      -- (S)
      let above := impl.start > impl.end_
      s := { s with fStart := impl.start, fWidth := impl.width, lastRate := impl.cur,
                    sgte := above && s.fStartOpt.isSome && s.judge,
                    nSgte := s.nSgte + (if above then 1 else 0), maxWidth := max s.maxWidth impl.width,
                    nontriv := s.nontriv + 1 }
      if impl.end_ != s.fEnd then
        s ← monitor s "ceiling" s!"endingFeeRate {impl.end_} != requested max {s.fEnd}"
      if s.fCt ≤ 1 && impl.cur != s.fEnd then
        s ← monitor s "below-ceiling-at-deadline" s!"conf target {s.fCt} at creation but rate={impl.cur} end={s.fEnd}"
      if s.fEstPath && s.fCt ≥ 2 && s.fEnd ≥ s.fRelay && impl.start < s.fRelay then
        s ← monitor s "below-relay-floor" s!"estimated starting rate {impl.start} < relay fee {s.fRelay}"
      observe s impl.pos impl.cur false
    | w :: _ =>
      let e := (w.splitOn "=").getLast!
      let s := { s with nFFErr := s.nFFErr + 1 }
      match model with
      | .ok f => mismatch s s!"new: model=ok {ffFields f} impl=err={e}"
      | .error me => if me.name != e then mismatch s s!"new: model=err={me.name} impl=err={e}" else return s
    | [] => mismatch s "bad new line"
  | "inc" :: _ => ffOp s ws .inc
  | "ict" :: c :: _ =>
    let some c := c.toNat? | mismatch s "bad ict"
    ffOp s ws (.ict c)
  | "at" :: p :: _ =>
    let s := { s with ops := s.ops + 1 }
    let some p := p.toNat? | mismatch s "bad at"
    let impl := ((after ws).head?.bind String.toInt?).getD 0
    let some f := s.ff | mismatch s "at without fee function"
    let mut s := s
    if f.rateAt M p != impl then s ← mismatch s s!"at {p}: model={f.rateAt M p} impl={impl}"
    observe s p impl false
  | "in" :: rest =>
    let i : Inp := ⟨(kvInt? rest "value").getD 0, optInt (kv? rest "req"),
                   (optInt (kv? rest "lt")).map Int.toNat⟩
    return { s with req := { s.req with inputs := s.req.inputs ++ [i] } }
  | "mfra" :: _ =>
    let s := { s with ops := s.ops + 1 }
    let impl := ((after ws).head?.bind String.toInt?).getD (-1)
    let model := maxFeeRateAllowed M s.req.budget s.req.wBudget s.req.maxFeeRate
    let mut s := { s with mfra := impl }
    if model != impl then s ← mismatch s s!"mfra: model={model} impl={impl}"
    -- (S) the ceiling is min(budget*1000/weight (rounded), MaxFeeRate)
    let b := s.req.budget
    let w : Int := s.req.wBudget
    if impl > s.req.maxFeeRate then
      s ← monitor s "ceiling" s!"MaxFeeRateAllowed={impl} > MaxFeeRate={s.req.maxFeeRate}"
    let diff := (impl * w - b * 1000).natAbs
    let close := 2 * diff ≤ w.natAbs + (b.natAbs * 1000) / 2 ^ 49 + 1
    if !close && !(impl == s.req.maxFeeRate && b * 1000 ≥ impl * w) then
      s ← monitor s "ceiling" s!"MaxFeeRateAllowed={impl} budget={b} weight={w} maxrate={s.req.maxFeeRate}"
    -- the property's domain: 0 < relay fee <= ceiling
    let inDomain := decide (0 < s.relay) && decide (s.relay ≤ impl)
    return { s with judge := inDomain, nUnjudged := s.nUnjudged + (if inDomain then 0 else 1) }
  | "op" :: k :: rest =>
    -- tag of the known finding (starting rate above the ceiling): known before the
    -- operation from the case header and the implementation's own ceiling
    let h := (kvInt? rest "height").getD 0
    let ct : Int := if s.req.deadline - h < 0 then 0 else s.req.deadline - h
    let preCaller := match s.req.start with
      | some st => ct ≥ 2 && st > s.mfra && s.judge
      | none => false
    let s := if k == "init" then { s with sgte := preCaller } else s
    return { s with opKind := k, opHeight := (kvInt? rest "height").getD 0,
                    opMp := (parseList ((kv? rest "mp").getD "-")).map parseAns,
                    opPub := ((parseList ((kv? rest "pub").getD "-")).head?.map parseAns).getD .ok,
                    opTxs := [] }
  | "tx" :: rest =>
    let t : TxLine := {
      published := (kv? rest "via") == some "publish"
      ins := (parseList ((kv? rest "ins").getD "-")).map (fun x => x.toInt?.getD (-1))
      outs := parseOuts ((kv? rest "outs").getD "-")
      locktime := (kvInt? rest "locktime").getD 0
      sumin := (kvInt? rest "sumin").getD 0
      sumout := (kvInt? rest "sumout").getD 0 }
    let s ← monitorTx s t
    return { s with opTxs := t :: s.opTxs }
  | "res" :: _ => pubRes s ws
  | "panic" :: _ => mismatch s s!"implementation panicked: {line.take 120}"
  | [] => return s
  | _ => mismatch s s!"unparsed line: {line.take 60}"

end LndModel.C18.Driver

open LndModel.C18.Driver in
def main : IO Unit := do
  let s ← LndModel.Lines.foldStdin step {}
  IO.println s!"STAT lines={s.lines}"
  IO.println s!"STAT cases={s.cases}"
  IO.println s!"STAT evaluations={s.ops}"
  IO.println s!"STAT nontrivial={s.nontriv}"
  IO.println s!"STAT float_probes={s.nFloat}"
  IO.println s!"STAT float_int64_overflows={s.nOvf}"
  IO.println s!"STAT ff_cases={s.nFF}"
  IO.println s!"STAT ff_creation_errors={s.nFFErr}"
  IO.println s!"STAT ff_rate_increases={s.nIncreased}"
  IO.println s!"STAT ff_max_position_errors={s.nMaxPos}"
  IO.println s!"STAT ff_max_width={s.maxWidth}"
  IO.println s!"STAT ceiling_reached={s.nCeiling}"
  IO.println s!"STAT start_above_end_cases={s.nSgte}"
  IO.println s!"STAT cases_outside_domain_not_judged={s.nUnjudged}"
  IO.println s!"STAT pub_cases={s.nPub}"
  IO.println s!"STAT txs_seen={s.nTx}"
  IO.println s!"STAT txs_with_required_outputs={s.nReqTx}"
  IO.println s!"STAT txs_dust_change_folded={s.nDustFolded}"
  IO.println s!"STAT ev_published={s.nPublished}"
  IO.println s!"STAT ev_replaced={s.nReplaced}"
  IO.println s!"STAT ev_failed={s.nFailed}"
  IO.println s!"STAT ev_fatal={s.nFatal}"
  IO.println s!"STAT ev_none={s.nNoEvent}"
  IO.println s!"STAT err_not_enough_budget={s.nBudgetErr}"
  IO.println s!"STAT mismatches={s.mismatches}"
  IO.println s!"STAT monitor_failures={s.monitorFails}"
  IO.println s!"STAT monitor_failures_known_finding_tagged={s.printedKnown}"
  IO.println s!"STAT monitor_failures_untagged={s.printedOther}"
