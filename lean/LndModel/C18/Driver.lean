/-
C18 driver: replays a harness trace on the model (correspondence, `MISMATCH`)
and evaluates the property monitor on the implementation's answers (`MONITOR`).

Monitor clauses (computed from the trace with exact integer arithmetic, not
from the model's verdicts):
  fee-above-budget, negative-fee, rate-above-max, rate-above-ceiling,
  rate-decreased, schedule-not-monotone, below-ceiling-at-deadline,
  below-relay-floor, ceiling, missing-input, required-output, dust-output,
  fee-accounting, increased-flag
-/
import LndModel.Prelude.Lines
import LndModel.C18.Model
import LndModel.C18.SweeperDrv

open LndModel LndModel.Lines LndModel.C18

namespace LndModel.C18.Driver

/-- a `tx` line of the trace. -/
structure TxLine where
  published : Bool
  ins : List Int
  outs : List (String × Int)
  locktime : Int
  sumin : Int
  sumout : Int

structure St where
  caseId : String := "0"
  kind : String := ""
  arch : String := "amd64"
  -- ff case (implementation-side values for the monitor, model state for X)
  ff : Option FeeFn := none
  fEnd : Int := 0
  fStart : Int := 0
  fWidth : Nat := 0
  fCt : Nat := 0
  fEstPath : Bool := false
  fRelay : Int := 0
  fStartOpt : Option Int := none
  fEst : Option Int := none
  lastRate : Int := 0
  /-- the start rate was supplied by the caller (`StartingFeeRate = Some`). -/
  callerStart : Bool := false
  /-- the rate the fee function starts with (when it is used: conf target ≥ 2) and its ceiling. -/
  startVal : Option Int := none
  ceilVal : Int := 0
  /-- `0 < relay fee ≤ ceiling`.  Outside this domain the relay floor and the cap contradict each
      other: only `below-relay-floor` and the clauses broken by an ESTIMATED start above the
      ceiling (conf target ≥ 1008 with relay > ceiling, or ceiling 0) are not judged there. -/
  inDomain : Bool := true
  nUnjudged : Nat := 0
  nEstDropped : Nat := 0
  nNoTxRounding : Nat := 0
  nNoTxAux : Nat := 0
  nNoTxDust : Nat := 0
  -- agg case
  aRelay : Int := 0
  aMaxInputs : Nat := 100
  pins : List PInp := []
  implSets : List (Int × Int × Option Int × List Nat) := []   -- deadline, budget, start, member idxs
  prevMax : Int := 0            -- pub case derived from an agg case: highest rate already offered
  fromAgg : Bool := false
  nAgg : Nat := 0
  utxos : List Utxo := []
  needBefore : Option Bool := none
  tDeadline : Int := 0
  nTop : Nat := 0
  nTopNeeded : Nat := 0
  nTopAdded : Nat := 0
  nTopShort : Nat := 0
  nTopErr : Nat := 0
  nRaw : Nat := 0
  nWrapProbes : Nat := 0
  nSets : Nat := 0
  nRegroupStart : Nat := 0
  nFiltered : Nat := 0
  lastPubFee : Option Int := none
  lastPubAtStart : Bool := false
  printedKnown : Nat := 0
  printedOther : Nat := 0
  pts : List (Nat × Int) := []  -- observed points of the schedule
  fired : List String := []     -- monitor clauses already reported in this case
  -- pub case
  req : Req := ⟨[], 0, 0, 0, none, 1, 1, 0, none⟩
  /-- script size of the required output of each input (aligned with `req.inputs`; p2wsh if not printed). -/
  inReqSize : List Nat := []
  script : String := ""
  relay : Int := 0
  est : Option Int := none
  mfra : Int := 0
  rcd : Rec := {}
  opKind : String := ""
  opHeight : Int := 0
  opMp : List Ans := []
  opPub : Ans := .ok
  opTxs : List TxLine := []
  lastPubRate : Option Int := none
  lastCur : Option Int := none
  -- counters
  lines : Nat := 0
  cases : Nat := 0
  ops : Nat := 0
  nontriv : Nat := 0
  mismatches : Nat := 0
  monitorFails : Nat := 0
  samples : Nat := 0
  nFloat : Nat := 0
  nOvf : Nat := 0
  nFF : Nat := 0
  nFFErr : Nat := 0
  nPub : Nat := 0
  nTx : Nat := 0
  nPublished : Nat := 0
  nReplaced : Nat := 0
  nFailed : Nat := 0
  nFatal : Nat := 0
  nNoEvent : Nat := 0
  nDustFolded : Nat := 0
  nBudgetErr : Nat := 0
  nCeiling : Nat := 0
  nSgte : Nat := 0
  nIncreased : Nat := 0
  nMaxPos : Nat := 0
  maxWidth : Nat := 0
  nReqTx : Nat := 0
  /-- `kind=swp` cases (UtxoSweeper state machine). -/
  swp : SweeperDrv.SwSt := {}

def M : MulDiv := goMulF64

def mismatch (s : St) (detail : String) : IO St := do
  if s.mismatches < 40 then
    IO.println s!"MISMATCH case={s.caseId} line={s.lines} {detail}"
  return { s with mismatches := s.mismatches + 1 }

def startAbove (s : St) : Bool :=
  match s.startVal with
  | some v => decide (v > s.ceilVal)
  | none => false

/-- Report a property failure.  `startCaused` says that the offending observation IS the start
    rate (the rate observed equals the function's starting rate, or the tx was built at it).
    Only then, and only if that start was supplied by the caller and is above the ceiling, the
    line carries `start_gt_end=1` (known finding F-C18-start-above-ceiling).  The tag is per
    line: any other failure of the same clause in the same case is reported untagged. -/
def monitor (s : St) (clause detail : String) (startCaused : Bool := false)
    (otherKnown : Bool := false) : IO St := do
  let sc := startCaused && startAbove s
  -- an ESTIMATED start above the ceiling exists only outside the property's domain
  if sc && !s.callerStart && !s.inDomain then return { s with nEstDropped := s.nEstDropped + 1 }
  let tagged := sc && s.callerStart
  -- `otherKnown`: the line carries the tag of another known finding in its detail text
  let known := tagged || otherKnown
  -- one report per clause, tag and case
  let key := if known then clause ++ "#known" else clause
  if s.fired.contains key then return s
  -- print caps are separate for lines of the known findings and for all others, so that a flood
  -- of known-finding lines can never hide a new failure
  let printed := if known then s.printedKnown else s.printedOther
  if printed < 300 then
    IO.println s!"MONITOR case={s.caseId} clause={clause} line={s.lines} start_gt_end={if tagged then 1 else 0} {detail}"
  let s := if known then { s with printedKnown := s.printedKnown + 1 } else { s with printedOther := s.printedOther + 1 }
  return { s with monitorFails := s.monitorFails + 1, fired := key :: s.fired }

def after (ws : List String) : List String :=
  match ws.dropWhile (· ≠ "=>") with
  | _ :: r => r
  | [] => []

def optInt (s : Option String) : Option Int :=
  match s with
  | some "none" => none
  | some "err" => none
  | some v => v.toInt?
  | none => none

def parseAns (s : String) : Ans :=
  match s with
  | "ok" => .ok | "insuff" => .insuff | "minrelay" => .minRelay
  | "mempoolmin" => .mempoolMin | "mempoolfee" => .mempoolFee | "missing" => .missing
  | "unimpl" => .unimpl | "backendver" => .backendVer | _ => .other

def parseList (s : String) : List String :=
  if s == "-" then [] else s.splitOn ","

def parseOuts (s : String) : List (String × Int) :=
  (parseList s).map fun w => (String.ofList (w.toList.take 1), (String.ofList (w.toList.drop 1)).toInt?.getD 0)

def kindName : OutKind → String
  | .required => "r" | .extra => "x" | .change => "c"

def boolS (b : Bool) : String := if b then "true" else "false"

def errS : Option Err → String
  | none => "none" | some e => e.name

/-- dust limits of the standard change scripts (lnwallet.DustLimitForSize). -/
def dustOf (script : String) : Int :=
  match script with
  | "p2wkh" => 294 | "p2wsh" => 330 | "p2tr" => 330 | _ => 546

def ffFields (f : FeeFn) : String :=
  s!"start={f.start} end={f.end_} cur={f.cur} width={f.width} pos={f.pos} delta={f.delta}"

/-- monitor bookkeeping for one observation of the fee function `(pos, rate)`. -/
def observe (s : St) (p : Nat) (r : Int) (isState : Bool) (agrees : Bool) : IO St := do
  -- `agrees`: the observation equals what the model predicts for this position.  With a start above
  -- the ceiling the code's delta is negative and the schedule first drops to the ceiling and,
  -- close to the width, even below it; such a non-monotone observation is attributed to the
  -- known finding only if it is exactly the value the (defect-containing) model predicts.
  let mut s := s
  if r > s.fEnd then
    s ← monitor s "rate-above-ceiling" s!"rate={r} end={s.fEnd} pos={p}" (r == s.fStart)
  if p ≥ s.fWidth && r != s.fEnd then
    s ← monitor s "below-ceiling-at-deadline" s!"pos={p} width={s.fWidth} rate={r} end={s.fEnd}"
  for (p', r') in s.pts do
    if p ≤ p' && r > r' then
      s ← monitor s "schedule-not-monotone" s!"rate({p})={r} rate({p'})={r'}" agrees
    else if p' ≤ p && r' > r then
      s ← monitor s "schedule-not-monotone" s!"rate({p'})={r'} rate({p})={r}" agrees
  if isState then
    if r < s.lastRate then
      s ← monitor s "rate-decreased" s!"rate {s.lastRate} -> {r} at pos={p}" agrees
    s := { s with lastRate := r }
  let pts := if s.pts.length < 64 then (p, r) :: s.pts else s.pts
  return { s with pts := pts }

def ffOp (s : St) (ws : List String) (op : Op) : IO St := do
  let s := { s with ops := s.ops + 1 }
  let r := after ws
  let inc := (kv? r "inc").getD "?"
  let err := (kv? r "err").getD "?"
  let rate := (kvInt? r "rate").getD 0
  let pos := (kvNat? r "pos").getD 0
  let some f := s.ff | mismatch s "op without fee function"
  let prev := s.lastRate
  -- (X)
  let res := match op with
    | .inc => f.increment M
    | .ict ct => f.increaseFeeRate M ct
  let (g, mInc, mErr) := match res with
    | .ok (g, b) => (g, boolS b, "none")
    | .error e => (f, "false", e.name)
  let mut s := { s with ff := some g }
  if mInc != inc || mErr != err || g.cur != rate || g.pos != pos then
    s ← mismatch s s!"ff op: model=inc={mInc},err={mErr},rate={g.cur},pos={g.pos} impl=inc={inc},err={err},rate={rate},pos={pos}"
  -- (S) (states set directly by an `ffraw` case are not reachable through the constructor: only X)
  if s.kind == "ffraw" then return { s with lastRate := rate }
  s ← observe s pos rate true (g.cur == rate && g.pos == pos)
  match op with
  | .ict ct =>
    if ct ≤ 1 && rate != s.fEnd then
      s ← monitor s "below-ceiling-at-deadline" s!"IncreaseFeeRate({ct}) left rate={rate} end={s.fEnd}"
  | .inc => pure ()
  if err == "none" && (inc == "true") != (rate > prev) then
    s ← monitor s "increased-flag" s!"inc={inc} but rate {prev} -> {rate}"
  if inc == "true" then s := { s with nIncreased := s.nIncreased + 1, nontriv := s.nontriv + 1 }
  if err == "maxpos" then s := { s with nMaxPos := s.nMaxPos + 1 }
  if rate == s.fEnd && s.fWidth > 0 && prev != s.fEnd then s := { s with nCeiling := s.nCeiling + 1 }
  return s

def sumVals (l : List Inp) : Int := l.foldl (fun a i => a + i.value) 0

/-- tx-level monitor: uses only the case header, the `in` lines and the tx line. -/
def monitorTx (s : St) (t : TxLine) : IO St := do
  let mut s := s
  let n := s.req.inputs.length
  let fee := t.sumin - t.sumout
  -- all requested inputs, each exactly once
  let want := (List.range n).map (Int.ofNat ·)
  let sorted := t.ins.toArray.qsort (· < ·) |>.toList
  if sorted != want then
    s ← monitor s "missing-input" s!"tx spends inputs {t.ins}, requested 0..{n - 1}"
  else
    if t.sumin != sumVals s.req.inputs then
      s ← monitor s "fee-accounting" s!"sum of inputs {t.sumin} != {sumVals s.req.inputs}"
  if fee > s.req.budget then
    s ← monitor s "fee-above-budget" s!"fee={fee} budget={s.req.budget} published={t.published}"
  if fee < 0 then
    s ← monitor s "negative-fee" s!"sumin={t.sumin} sumout={t.sumout}"
  -- required outputs: inputs committing to an output come first, index aligned
  let reqOf (i : Int) : Option Int := (s.req.inputs[i.toNat]?).bind (·.req)
  let mut seenPlain := false
  let mut k := 0
  for i in t.ins do
    match reqOf i with
    | some v =>
      if seenPlain || t.outs[k]? != some ("r", v) then
        s ← monitor s "required-output" s!"input {i} (tx index {k}) commits to output value {v}; outputs={t.outs.map (·.2)}"
        break
    | none => seenPlain := true
    k := k + 1
  -- no output below the dust limit of its script: change (delivery script), required outputs
  -- (p2wsh in the harness) and the aux sweeper's extra output (p2tr in the harness)
  let changes := t.outs.filter (·.1 == "c")
  let dust := dustOf s.script
  if changes.length > 1 then
    s ← monitor s "dust-output" s!"{changes.length} change outputs"
  let mut ko := 0
  for (kd, v) in t.outs do
    -- a required output is index-aligned with the input committing to it
    let rsz := ((t.ins[ko]?).bind (fun i => s.inReqSize[i.toNat]?)).getD 34
    let lim := if kd == "c" then dust else if kd == "r" then dustLimitForSize rsz else dustOf "p2tr"
    if v < lim then
      s ← monitor s "dust-output" s!"output {kd}{v} below dust limit {lim}"
    ko := ko + 1
  if t.outs.isEmpty then
    s ← monitor s "dust-output" "transaction without outputs"
  -- rate clauses from the transaction itself: fee = rate*weight/1000 (+ a below-dust change)
  let slack : Int := if changes.isEmpty then dust - 1 else 0
  let feeAt (rate : Int) : Int := Int.tdiv (rate * s.req.wTx) 1000
  let atStart := match s.startVal with
    | some st => decide (feeAt st ≤ fee) && decide (fee ≤ feeAt st + slack)
    | none => false
  if fee > feeAt s.req.maxFeeRate + slack then
    s ← monitor s "rate-above-max" s!"fee={fee} weight={s.req.wTx} maxrate={s.req.maxFeeRate}" atStart
  if fee > feeAt s.mfra + slack then
    s ← monitor s "rate-above-ceiling" s!"fee={fee} weight={s.req.wTx} ceiling={s.mfra}" atStart
  if changes.isEmpty then s := { s with nDustFolded := s.nDustFolded + 1 }
  if (t.outs.filter (·.1 == "r")).length > 0 then s := { s with nReqTx := s.nReqTx + 1 }
  return { s with nTx := s.nTx + 1 }

def txEq (m : Bool × Tx) (t : TxLine) : Bool :=
  m.1 == t.published && m.2.ins.map (Int.ofNat ·) == t.ins
    && m.2.outs.map (fun o => (kindName o.1, o.2)) == t.outs && m.2.locktime == t.locktime

def pubRes (s : St) (ws : List String) : IO St := do
  let s := { s with ops := s.ops + 1 }
  let r := after ws
  let ev := (kv? r "event").getD "?"
  let err := (kv? r "err").getD "?"
  let rate := (kvInt? r "rate").getD 0
  let fee := (kvInt? r "fee").getD 0
  let recfee := (kvInt? r "recfee").getD 0
  let live := (kv? r "live").getD "?"
  let ffok := (kv? r "ff").getD "?" == "ok"
  let cur := (kvInt? r "cur").getD 0
  let pos := (kvNat? r "pos").getD 0
  let width := (kvNat? r "width").getD 0
  let ffend := (kvInt? r "ffend").getD 0
  let ffstart := (kvInt? r "ffstart").getD 0
  -- (X)
  let out := if s.opKind == "init" then
      initialBroadcast M s.req s.opHeight s.est s.relay s.opMp s.opPub
    else feeBump M s.req s.rcd s.opHeight s.opMp s.opPub
  let mut s := { s with rcd := out.rcd }
  let mres := out.res
  if mres.event.name != ev || errS mres.err != err || mres.rate != rate || mres.fee != fee then
    s ← mismatch s s!"{s.opKind}: model=event={mres.event.name},err={errS mres.err},rate={mres.rate},fee={mres.fee} impl=event={ev},err={err},rate={rate},fee={fee}"
  if out.rcd.fee != recfee || boolS out.rcd.live != live then
    s ← mismatch s s!"{s.opKind}: record model=fee={out.rcd.fee},live={out.rcd.live} impl=fee={recfee},live={live}"
  match out.rcd.ff with
  | some f =>
    if !ffok || f.cur != cur || f.pos != pos || f.width != width || f.end_ != ffend || f.start != ffstart then
      s ← mismatch s s!"{s.opKind}: fee function model={ffFields f} impl=ok={ffok},cur={cur},pos={pos},width={width},end={ffend},start={ffstart}"
  | none =>
    if ffok then s ← mismatch s s!"{s.opKind}: model has no fee function, impl has"
  let txs := s.opTxs.reverse
  if out.emitted.length != txs.length || !((out.emitted.zip txs).all (fun p => txEq p.1 p.2)) then
    s ← mismatch s s!"{s.opKind}: emitted txs differ: model={out.emitted.map (fun e => (e.1, e.2.ins, e.2.outs.map (·.2), e.2.locktime))} impl={txs.map (fun t => (t.published, t.ins, t.outs.map (·.2), t.locktime))}"
  -- (S)
  -- all rate clauses are judged on the transactions actually handed to the wallet for broadcast,
  -- from their own fee and weight
  if s.opKind == "init" && ffok then
    if ffstart > ffend then s := { s with nSgte := s.nSgte + 1 }
    s := { s with startVal := (if width > 0 then some ffstart else none), ceilVal := ffend }
  let atDeadline := decide (s.req.deadline - s.opHeight ≤ 1)
  let feeAt (r : Int) : Int := Int.tdiv (r * s.req.wTx) 1000
  let published := ev == "Published" || ev == "Replaced"
  if published then
    match txs.getLast? with
    | none => s ← monitor s "fee-accounting" "published event without a transaction"
    | some t =>
      let pfee := t.sumin - t.sumout
      let slack : Int := if (t.outs.filter (·.1 == "c")).isEmpty then dustOf s.script - 1 else 0
      let atStart := match s.startVal with
        | some st => decide (feeAt st ≤ pfee) && decide (pfee ≤ feeAt st + slack)
        | none => false
      -- the claimed fee and rate must be those of the published tx
      if fee != pfee then
        s ← monitor s "fee-accounting" s!"claimed fee {fee}, inputs - outputs = {pfee}"
      if !(feeAt rate ≤ pfee && pfee ≤ feeAt rate + slack) then
        s ← monitor s "fee-accounting" s!"claimed rate {rate} (fee {feeAt rate}) but the tx pays {pfee} for weight {s.req.wTx}"
      if rate > s.req.maxFeeRate then
        s ← monitor s "rate-above-max" s!"published at rate {rate} > MaxFeeRate {s.req.maxFeeRate}" atStart
      match s.lastPubFee with
      | some l =>
        if pfee < l then
          s ← monitor s "rate-decreased" s!"published fee {l} -> {pfee} (same weight {s.req.wTx})" s.lastPubAtStart
      | none => pure ()
      if atDeadline then
        if pfee < feeAt s.mfra then
          s ← monitor s "below-ceiling-at-deadline" s!"height={s.opHeight} deadline={s.req.deadline} published fee={pfee} < fee at the ceiling {s.mfra} = {feeAt s.mfra}"
        else s := { s with nCeiling := s.nCeiling + 1 }
      -- relay floor: estimated start, or a caller-supplied start that is itself >= relay
      let floorApplies := match s.req.start with
        | none => true
        | some st => decide (st ≥ s.relay)
      if s.inDomain && floorApplies && pfee < feeAt s.relay then
        s ← monitor s "below-relay-floor" s!"tx published with fee {pfee} < fee at the relay rate {s.relay} = {feeAt s.relay}"
      if ffok && ffend != s.mfra then
        s ← monitor s "ceiling" s!"fee function ceiling {ffend} != MaxFeeRateAllowed {s.mfra}"
      -- a regrouped set (derived from an aggregator case) must not be offered below a rate
      -- already offered for one of its inputs, unless that rate is above the new ceiling
      if s.fromAgg && s.prevMax ≤ s.mfra && pfee < feeAt s.prevMax then
        s ← monitor s "regroup-rate-decreased" s!"tx of the regrouped set pays {pfee} < fee at the rate {s.prevMax} already offered for one of its inputs = {feeAt s.prevMax}"
      s := { s with lastPubFee := some pfee, lastPubAtStart := atStart, nontriv := s.nontriv + 1 }
  -- nothing is offered at the ceiling by the deadline: the bump/broadcast one block before the
  -- deadline (or later) fails with ErrNotEnoughBudget although the fee function is at the ceiling
  if atDeadline && ev == "Failed" && err == "budget" && ffok && cur == ffend && ffend == s.mfra then
    let why := if feeAt s.mfra > s.req.budget then
        (if s.req.wTx == s.req.wBudget then "rounding" else "aux-weight") else "dust-fold"
    s ← monitor s "no-tx-at-ceiling-by-deadline" s!"why={why} height={s.opHeight} deadline={s.req.deadline} ceiling={s.mfra} budget={s.req.budget} wb={s.req.wBudget} wtx={s.req.wTx} fee_at_ceiling={feeAt s.mfra}"
    if why == "rounding" then s := { s with nNoTxRounding := s.nNoTxRounding + 1 }
    else if why == "aux-weight" then s := { s with nNoTxAux := s.nNoTxAux + 1 }
    else s := { s with nNoTxDust := s.nNoTxDust + 1 }
  if ev == "Published" then s := { s with nPublished := s.nPublished + 1 }
  else if ev == "Replaced" then s := { s with nReplaced := s.nReplaced + 1 }
  else if ev == "Failed" then s := { s with nFailed := s.nFailed + 1, nontriv := s.nontriv + 1 }
  else if ev == "Fatal" then s := { s with nFatal := s.nFatal + 1, nontriv := s.nontriv + 1 }
  else s := { s with nNoEvent := s.nNoEvent + 1 }
  if err == "budget" then s := { s with nBudgetErr := s.nBudgetErr + 1 }
  return { s with opTxs := [] }

/-- end of an aggregator case: compare the sets with the model (as a multiset) and judge them. -/
def aggEnd (s : St) : IO St := do
  let mut s := s
  -- (X)
  let model := (clusterInputs s.aRelay s.aMaxInputs s.pins).map
    fun st => (st.deadline, setBudget st.inputs, setStart st.inputs, st.inputs.map (·.idx))
  let sameLen := model.length == s.implSets.length
  if !sameLen || !(s.implSets.all (fun x => model.contains x)) || !(model.all (fun x => s.implSets.contains x)) then
    s ← mismatch s s!"ClusterInputs: model={model} impl={s.implSets}"
  -- (S) from the pin lines and the implementation's sets only
  let pinOf (k : Nat) : Option PInp := s.pins.find? (·.idx == k)
  let feeAt (rate : Int) (w : Nat) : Int := Int.tdiv (rate * w) 1000
  let sweepable (i : PInp) : Bool :=
    !(decide (i.budget < feeAt s.aRelay i.wu)) && !(decide (i.budget < feeAt (i.start.getD 0) i.wu)) && !i.reqDust
  let members := s.implSets.flatMap (fun x => x.2.2.2)
  for i in s.pins do
    let cnt := (members.filter (· == i.idx)).length
    if sweepable i && cnt != 1 then
      s ← monitor s "missing-input" s!"pending input {i.idx} (budget {i.budget}) is in {cnt} input sets"
    if !sweepable i && cnt != 0 then
      s ← monitor s "missing-input" s!"input {i.idx} cannot pay its minimum/starting fee or has a dust output but is in a set"
    if !sweepable i then s := { s with nFiltered := s.nFiltered + 1 }
  for (dl, bud, st, ids) in s.implSets do
    let ms := ids.filterMap pinOf
    let sum := ms.foldl (fun a i => a + i.budget) 0
    if bud != sum then
      s ← monitor s "budget-sum" s!"set {ids}: Budget()={bud}, sum of the inputs' budgets={sum}"
    if ms.any (fun i => i.deadline != dl) then
      s ← monitor s "deadline-mismatch" s!"set {ids} with deadline {dl} contains an input with another deadline"
    if ids.length > s.aMaxInputs then
      s ← monitor s "missing-input" s!"set {ids} has more than {s.aMaxInputs} inputs"
    -- the regrouped set must not restart below a rate already offered for one of its inputs
    let prev := ms.foldl (fun a i => max a (i.start.getD 0)) 0
    if st.getD 0 < prev then
      s ← monitor s "regroup-rate-decreased" s!"set {ids}: StartingFeeRate()={st.getD 0} but a member was already offered at {prev}"
    if prev > 0 then s := { s with nRegroupStart := s.nRegroupStart + 1 }
    s := { s with nSets := s.nSets + 1, nontriv := s.nontriv + 1 }
  return s

/-- result of the wallet top-up of a set (`NeedWalletInput` / `AddWalletInputs`). -/
def topupRes (s : St) (ws : List String) : IO St := do
  let mut s := { s with ops := s.ops + 1 }
  let r := after ws
  let err := (kv? r "err").getD "?"
  let needAfter := (kv? r "need") == some "true"
  let bud := (kvInt? r "budget").getD 0
  let st := optInt (kv? r "start")
  let dl := (kvInt? r "deadline").getD 0
  let members := parseList ((kv? r "members").getD "-")
  -- (X)
  let set0 : InSet := ⟨s.tDeadline, s.pins⟩
  let memS (l : List PInp) : List String :=
    l.map fun i => if i.idx < s.pins.length then toString i.idx else s!"w{i.value}"
  match topUp 0 s.utxos set0 with
  | .ok m =>
    let need' := needWalletInput 0 m.inputs
    if err != "none" || memS m.inputs != members || need' != needAfter || setBudget m.inputs != bud
        || setStart m.inputs != st || m.deadline != dl then
      s ← mismatch s s!"topup: model=ok members={memS m.inputs} need={need'} budget={setBudget m.inputs} start={setStart m.inputs} impl=err={err} members={members} need={needAfter} budget={bud} start={st}"
  | .error e =>
    if err != e.name then s ← mismatch s s!"topup: model=err={e.name} impl=err={err} members={members}"
  -- (S) from the pin / utxo lines and the implementation's answer only
  let plainVal := (s.pins.filter (·.req.isNone)).foldl (fun a i => a + i.value) 0
  let sumBud := s.pins.foldl (fun a i => a + i.budget) 0
  let wvals := members.filterMap fun m =>
    if m.startsWith "w" then (String.ofList (m.toList.drop 1 |>.filter (· != '!'))).toInt? else none
  let hasPlain := s.pins.any (·.req.isNone) || !wvals.isEmpty
  if err == "none" then
    for i in s.pins do
      let cnt := (members.filter (· == toString i.idx)).length
      if cnt != 1 then
        s ← monitor s "missing-input" s!"input {i.idx} of the set is in the topped-up set {cnt} times"
    if members.any (·.endsWith "!") then
      s ← monitor s "budget-sum" s!"a wallet input carries a budget / required output / other deadline: {members}"
    if bud != sumBud then
      s ← monitor s "budget-sum" s!"Budget() after the top-up = {bud}, sum of the inputs' budgets = {sumBud}"
    if dl != s.tDeadline then
      s ← monitor s "deadline-mismatch" s!"deadline {dl} after the top-up, was {s.tDeadline}"
    let prev := s.pins.foldl (fun a i => max a (i.start.getD 0)) 0
    if st.getD 0 < prev then
      s ← monitor s "regroup-rate-decreased" s!"topped-up set: StartingFeeRate()={st.getD 0} but a member was already offered at {prev}"
    let spendable := plainVal + wvals.foldl (· + ·) 0
    -- "enough" means: what can pay fees covers the whole budget
    if !needAfter && spendable < bud then
      s ← monitor s "topup-short" s!"NeedWalletInput()=false but spendable {spendable} < budget {bud}"
    if needAfter && s.needBefore == some true && wvals.length != s.utxos.length then
      s ← monitor s "topup-short" s!"still needs wallet inputs but only {wvals.length} of {s.utxos.length} UTXOs were added"
    if !hasPlain then
      s ← monitor s "topup-short" "sweep goes ahead without any input that can pay fees"
    -- smallest UTXOs first
    let sortedU := (s.utxos.map (·.value)).toArray.qsort (· < ·) |>.toList
    if wvals != sortedU.take wvals.length then
      s ← monitor s "topup-short" s!"wallet inputs {wvals} are not the smallest UTXOs {sortedU}"
    if !wvals.isEmpty then s := { s with nTopAdded := s.nTopAdded + 1 }
    if needAfter then s := { s with nTopShort := s.nTopShort + 1 }
  else
    s := { s with nTopErr := s.nTopErr + 1 }
    if err == "inputs" && s.pins.any (·.req.isNone) then
      s ← monitor s "topup-short" "ErrNotEnoughInputs although an input can pay fees"
  if s.needBefore == some true then s := { s with nTopNeeded := s.nTopNeeded + 1 }
  return { s with nontriv := s.nontriv + 1 }

def step (s : St) (line : String) : IO St := do
  let s := { s with lines := s.lines + 1 }
  let ws := words line
  match ws with
  | "FACT" :: rest =>
    let mut s := { s with arch := (kv? rest "arch").getD "amd64" }
    let chk (s : St) (key : String) (v : Int) : IO St :=
      if kvInt? rest key == some v then pure s
      else mismatch s s!"fact {key}: model={v} impl={(kv? rest key).getD "?"}"
    s ← chk s "maxBlockTarget" maxBlockTarget
    s ← chk s "dust_p2wkh" (dustOf "p2wkh")
    s ← chk s "dust_p2wsh" (dustOf "p2wsh")
    s ← chk s "dust_p2tr" (dustOf "p2tr")
    for sz in [22, 34, 23, 25, 42, 0, 33, 35, 100] do
      s ← chk s s!"dust_{sz}" (dustLimitForSize sz)
    return s
  | "CASE" :: id :: rest =>
    let kind := (kv? rest "kind").getD ""
    let mut s := { s with caseId := id, kind := kind, cases := s.cases + 1, ff := none, callerStart := false, startVal := none, ceilVal := 0, inDomain := true,
                          lastPubFee := none, lastPubAtStart := false,
                          pts := [], fired := [], lastPubRate := none, lastCur := none, rcd := {}, opTxs := [] }
    if s.samples < 2 || (kind == "pub" && s.samples < 5 && s.nPub < 3) then
      IO.println s!"SAMPLE {line}"
      s := { s with samples := s.samples + 1 }
    if kind == "ff" then
      let e := (kvInt? rest "end").getD 0
      let ct := (kvNat? rest "ct").getD 0
      s := { s with fEnd := e, fCt := ct, fStartOpt := optInt (kv? rest "start"),
                    fEst := optInt (kv? rest "est"), fRelay := (kvInt? rest "relay").getD 0,
                    fEstPath := (kv? rest "start") == some "none", nFF := s.nFF + 1 }
      let rl := (kvInt? rest "relay").getD 0
      let inDomain := decide (0 < rl) && decide (rl ≤ e)
      s := { s with inDomain := inDomain, ceilVal := e, callerStart := (optInt (kv? rest "start")).isSome,
                    nUnjudged := s.nUnjudged + (if inDomain then 0 else 1) }
    if kind == "agg" then
      s := { s with aRelay := (kvInt? rest "relay").getD 0, aMaxInputs := (kvNat? rest "maxinputs").getD 100,
                    pins := [], implSets := [], nAgg := s.nAgg + 1 }
    if kind == "topup" then
      s := { s with pins := [], utxos := [], needBefore := none, tDeadline := (kvInt? rest "deadline").getD 0,
                    nTop := s.nTop + 1 }
    if kind == "ffraw" then s := { s with nRaw := s.nRaw + 1, inDomain := false }
    if kind == "swp" then s := { s with swp := SweeperDrv.begin s.swp rest }
    if kind == "pub" then
      s := { s with prevMax := (kvInt? rest "prevmax").getD 0,
                    fromAgg := (kv? rest "from_agg").isSome || (kv? rest "from_topup").isSome }
      let script := (kv? rest "script").getD ""
      s := { s with
        req := { inputs := [], budget := (kvInt? rest "budget").getD 0,
                 maxFeeRate := (kvInt? rest "maxrate").getD 0,
                 deadline := (kvInt? rest "deadline").getD 0,
                 start := optInt (kv? rest "start"),
                 wBudget := (kvNat? rest "wb").getD 1, wTx := (kvNat? rest "wtx").getD 1,
                 dust := (kvInt? rest "dust").getD 0, extra := optInt (kv? rest "aux") },
        inReqSize := [],
        script := script, relay := (kvInt? rest "relay").getD 0, est := optInt (kv? rest "est"),
        callerStart := (optInt (kv? rest "start")).isSome, nPub := s.nPub + 1 }
      if (kvInt? rest "dust").getD 0 != dustOf script then
        s ← mismatch s s!"dust limit of {script}: impl={(kv? rest "dust").getD "?"} table={dustOf script}"
    return s
  | ["END"] => if s.kind == "agg" then aggEnd s else return s
  | "pin" :: rest =>
    let i : PInp := { idx := (kvNat? rest "idx").getD 0, budget := (kvInt? rest "budget").getD 0,
                      deadline := (kvInt? rest "deadline").getD 0, start := optInt (kv? rest "start"),
                      immediate := (kv? rest "immediate") == some "true",
                      lt := (optInt (kv? rest "lt")).map Int.toNat, wu := (kvNat? rest "wu").getD 0,
                      value := (kvInt? rest "value").getD 0, req := optInt (kv? rest "req"),
                      reqSize := (kvNat? rest "reqsize").getD 0 }
    let mut s := { s with pins := s.pins ++ [i] }
    -- (X) isDustOutput of the required output
    let implDust := (kv? rest "reqdust") == some "1"
    if i.reqDust != implDust then
      s ← mismatch s s!"isDustOutput(required output {i.req}, script size {i.reqSize}): model={i.reqDust} impl={implDust}"
    return s
  | "utxo" :: rest =>
    return { s with utxos := s.utxos ++ [⟨(kvInt? rest "value").getD 0, 0⟩] }
  | "need" :: _ =>
    let s := { s with ops := s.ops + 1 }
    let impl := (after ws).head? == some "true"
    let s := { s with needBefore := some impl }
    if needWalletInput 0 s.pins != impl then
      mismatch s s!"NeedWalletInput: model={needWalletInput 0 s.pins} impl={impl}"
    else return s
  | "topup" :: _ => topupRes s ws
  | "raw" :: rest =>
    let get (k : String) : Int := (kvInt? rest k).getD 0
    let f : FeeFn := ⟨get "start", get "end", get "cur", (kvNat? rest "width").getD 0,
                      (kvNat? rest "pos").getD 0, get "delta"⟩
    return { s with ff := some f, fEnd := f.end_, fStart := f.start, fWidth := f.width, lastRate := f.cur }
  | "set" :: rest =>
    let ids := (parseList ((kv? rest "inputs").getD "-")).map (fun x => x.toNat?.getD 0)
    return { s with ops := s.ops + 1,
                    implSets := s.implSets ++ [((kvInt? rest "deadline").getD 0, (kvInt? rest "budget").getD 0,
                                                optInt (kv? rest "start"), ids)] }
  | "mulf" :: a :: n :: d :: _ =>
    let s := { s with ops := s.ops + 1, nFloat := s.nFloat + 1 }
    let (some a, some n, some d) := (a.toInt?, n.toNat?, d.toNat?) | mismatch s "bad mulf"
    let impl := ((after ws).head?.bind String.toInt?).getD 0
    let raw := mulF64Mag a.natAbs n d
    if (raw : Int) ≥ (2 : Int) ^ 63 then
      let s := { s with nOvf := s.nOvf + 1 }
      if s.arch == "amd64" && goMulF64 a n d != impl then
        mismatch s s!"mulf overflow {a} {n} {d}: model={goMulF64 a n d} impl={impl}"
      else return s
    else if goMulF64 a n d != impl then
      mismatch s s!"mulf {a} {n} {d}: model={goMulF64 a n d} impl={impl}"
    else return { s with nontriv := s.nontriv + 1 }
  | "nspk" :: b :: w :: _ =>
    let s := { s with ops := s.ops + 1 }
    let (some b, some w) := (b.toInt?, w.toNat?) | mismatch s "bad nspk"
    let impl := ((after ws).head?.bind String.toInt?).getD 0
    let mut s := s
    if newSatPerKWeight M b w != impl then
      s ← mismatch s s!"nspk {b} {w}: model={newSatPerKWeight M b w} impl={impl}"
    -- the rate must be the correctly rounded quotient up to float error
    let diff := (impl * w - b * 1000).natAbs
    if 2 * diff > w + (b.natAbs * 1000) / 2 ^ 49 + 1 then
      s ← monitor s "ceiling" s!"NewSatPerKWeight({b},{w})={impl} is not budget*1000/weight rounded"
    return s
  | "ffw" :: r :: w :: _ =>
    let s := { s with ops := s.ops + 1 }
    let (some r, some w) := (r.toInt?, w.toNat?) | mismatch s "bad ffw"
    let impl := ((after ws).head?.bind String.toInt?).getD 0
    let s := if impl != Int.tdiv (r * w) 1000 then { s with nWrapProbes := s.nWrapProbes + 1 } else s
    if feeForWeight r w != impl then mismatch s s!"ffw {r} {w}: model={feeForWeight r w} impl={impl}"
    else return s
  | "cct" :: h :: d :: _ =>
    let s := { s with ops := s.ops + 1 }
    let (some h, some d) := (h.toInt?, d.toInt?) | mismatch s "bad cct"
    let impl := ((after ws).head?.bind String.toNat?).getD 0
    let mut s := s
    if calcCurrentConfTarget h d != impl then
      s ← mismatch s s!"cct {h} {d}: model={calcCurrentConfTarget h d} impl={impl}"
    -- judged for non-negative heights (block heights are never negative; outside, the int32
    -- subtraction may wrap: compared with the model above, counted here)
    if h ≥ 0 && d ≥ 0 then
      if (impl : Int) != (if d - h < 0 then 0 else d - h) then
        s ← monitor s "below-ceiling-at-deadline" s!"conf target of height {h}, deadline {d} is {impl}"
    else if (impl : Int) != (if d - h < 0 then 0 else d - h) then
      s := { s with nWrapProbes := s.nWrapProbes + 1 }
    return s
  | "new" :: _ =>
    let s := { s with ops := s.ops + 1 }
    let r := after ws
    let model := newLinear M s.fEnd s.fCt s.fStartOpt s.fEst s.fRelay
    match r with
    | "ok" :: rest =>
      let get (k : String) : Int := (kvInt? rest k).getD 0
      let impl : FeeFn := ⟨get "start", get "end", get "cur", (kvNat? rest "width").getD 0,
                           (kvNat? rest "pos").getD 0, get "delta"⟩
      let mut s := s
      match model with
      | .ok f =>
        if f != impl then s ← mismatch s s!"new: model={ffFields f} impl={ffFields impl}"
        s := { s with ff := some f }
      | .error e =>
        s ← mismatch s s!"new: model=err={e.name} impl=ok {ffFields impl}"
        s := { s with ff := some impl }
      -- (S)
      let above := impl.start > impl.end_
      s := { s with fStart := impl.start, fWidth := impl.width, lastRate := impl.cur,
                    startVal := (if impl.width > 0 then some impl.start else none), ceilVal := impl.end_,
                    nSgte := s.nSgte + (if above then 1 else 0), maxWidth := max s.maxWidth impl.width,
                    nontriv := s.nontriv + 1 }
      if impl.end_ != s.fEnd then
        s ← monitor s "ceiling" s!"endingFeeRate {impl.end_} != requested max {s.fEnd}"
      if s.fCt ≤ 1 && impl.cur != s.fEnd then
        s ← monitor s "below-ceiling-at-deadline" s!"conf target {s.fCt} at creation but rate={impl.cur} end={s.fEnd}"
      if s.inDomain && s.fEstPath && s.fCt ≥ 2 && impl.start < s.fRelay then
        s ← monitor s "below-relay-floor" s!"estimated starting rate {impl.start} < relay fee {s.fRelay}"
      observe s impl.pos impl.cur false (match model with | .ok f => f == impl | .error _ => false)
    | w :: _ =>
      let e := (w.splitOn "=").getLast!
      let s := { s with nFFErr := s.nFFErr + 1 }
      match model with
      | .ok f => mismatch s s!"new: model=ok {ffFields f} impl=err={e}"
      | .error me => if me.name != e then mismatch s s!"new: model=err={me.name} impl=err={e}" else return s
    | [] => mismatch s "bad new line"
  | "inc" :: _ => ffOp s ws .inc
  | "ict" :: c :: _ =>
    let some c := c.toNat? | mismatch s "bad ict"
    ffOp s ws (.ict c)
  | "at" :: p :: _ =>
    let s := { s with ops := s.ops + 1 }
    let some p := p.toNat? | mismatch s "bad at"
    let impl := ((after ws).head?.bind String.toInt?).getD 0
    let some f := s.ff | mismatch s "at without fee function"
    let mut s := s
    if f.rateAt M p != impl then s ← mismatch s s!"at {p}: model={f.rateAt M p} impl={impl}"
    if s.kind == "ffraw" then return s
    observe s p impl false (f.rateAt M p == impl)
  | "in" :: rest =>
    let i : Inp := ⟨(kvInt? rest "value").getD 0, optInt (kv? rest "req"),
                   (optInt (kv? rest "lt")).map Int.toNat⟩
    return { s with req := { s.req with inputs := s.req.inputs ++ [i] },
                    inReqSize := s.inReqSize ++ [(kvNat? rest "reqsize").getD 34] }
  | "mfra" :: _ =>
    let s := { s with ops := s.ops + 1 }
    let impl := ((after ws).head?.bind String.toInt?).getD (-1)
    let model := maxFeeRateAllowed M s.req.budget s.req.wBudget s.req.maxFeeRate
    let mut s := { s with mfra := impl }
    if model != impl then s ← mismatch s s!"mfra: model={model} impl={impl}"
    -- (S) the ceiling is min(budget*1000/weight (rounded), MaxFeeRate)
    let b := s.req.budget
    let w : Int := s.req.wBudget
    if impl > s.req.maxFeeRate then
      s ← monitor s "ceiling" s!"MaxFeeRateAllowed={impl} > MaxFeeRate={s.req.maxFeeRate}"
    let diff := (impl * w - b * 1000).natAbs
    let close := 2 * diff ≤ w.natAbs + (b.natAbs * 1000) / 2 ^ 49 + 1
    if !close && !(impl == s.req.maxFeeRate && b * 1000 ≥ impl * w) then
      s ← monitor s "ceiling" s!"MaxFeeRateAllowed={impl} budget={b} weight={w} maxrate={s.req.maxFeeRate}"
    -- the property's domain: 0 < relay fee <= ceiling
    let inDomain := decide (0 < s.relay) && decide (s.relay ≤ impl)
    return { s with inDomain := inDomain, ceilVal := impl, nUnjudged := s.nUnjudged + (if inDomain then 0 else 1) }
  | "op" :: k :: rest =>
    if s.kind == "swp" then
      match SweeperDrv.parseOp s.swp.noDl k rest with
      | some op => return { s with swp := { s.swp with op := some op, opLine := s!"{line.take 200}" } }
      | none => mismatch s s!"unparsed sweeper op: {line.take 80}"
    else
    -- the rate the fee function will start with (needed to attribute failures of the tx lines
    -- that precede the `res` line): from the case header and the implementation's own ceiling
    let h := (kvInt? rest "height").getD 0
    let ct : Int := if s.req.deadline - h < 0 then 0 else s.req.deadline - h
    let estStart : Option Int :=
      if ct ≥ 1008 then some s.relay
      else match s.est with
        | none => none
        | some e => if e < s.relay then none else if s.mfra != 0 && e > s.mfra then some s.mfra else some e
    let sv : Option Int := if ct ≤ 1 then none else match s.req.start with
      | some st => some st
      | none => estStart
    let s := if k == "init" then { s with startVal := sv, ceilVal := s.mfra } else s
    return { s with opKind := k, opHeight := (kvInt? rest "height").getD 0,
                    opMp := (parseList ((kv? rest "mp").getD "-")).map parseAns,
                    opPub := ((parseList ((kv? rest "pub").getD "-")).head?.map parseAns).getD .ok,
                    opTxs := [] }
  | "tx" :: rest =>
    if s.kind == "swp" then return { s with swp := SweeperDrv.onTx s.swp rest } else
    let t : TxLine := {
      published := (kv? rest "via") == some "publish"
      ins := (parseList ((kv? rest "ins").getD "-")).map (fun x => x.toInt?.getD (-1))
      outs := parseOuts ((kv? rest "outs").getD "-")
      locktime := (kvInt? rest "locktime").getD 0
      sumin := (kvInt? rest "sumin").getD 0
      sumout := (kvInt? rest "sumout").getD 0 }
    let s ← monitorTx s t
    return { s with opTxs := t :: s.opTxs }
  | "pubop" :: _ => return s
  | "st" :: _ =>
    let opw := words s.swp.opLine
    let (sw0, mon0) := match s.swp.op with
      | some op => SweeperDrv.onRealResult s.swp op ((kvInt? opw "fee").getD 0) ((kvNat? opw "rid").getD 0)
      | none => (s.swp, [])
    let s := { s with swp := sw0 }
    let (sw, mm, mon) := SweeperDrv.onState s.swp (after ws)
    let mon := mon0 ++ mon
    let mut s := { s with swp := sw, ops := s.ops + 1, nontriv := s.nontriv + 1 }
    for d in mm do s ← mismatch s d
    for (clause, detail, tag) in mon do s ← monitor s clause detail false (tag == "known")
    return s
  | "res" :: _ => pubRes s ws
  | "panic" :: _ => mismatch s s!"implementation panicked: {line.take 120}"
  | [] => return s
  | _ => mismatch s s!"unparsed line: {line.take 60}"

end LndModel.C18.Driver

open LndModel.C18.Driver in
def main : IO Unit := do
  let s ← LndModel.Lines.foldStdin step {}
  IO.println s!"STAT lines={s.lines}"
  IO.println s!"STAT cases={s.cases}"
  IO.println s!"STAT evaluations={s.ops}"
  IO.println s!"STAT nontrivial={s.nontriv}"
  IO.println s!"STAT float_probes={s.nFloat}"
  IO.println s!"STAT float_int64_overflows={s.nOvf}"
  IO.println s!"STAT ff_cases={s.nFF}"
  IO.println s!"STAT ff_creation_errors={s.nFFErr}"
  IO.println s!"STAT ff_rate_increases={s.nIncreased}"
  IO.println s!"STAT ff_max_position_errors={s.nMaxPos}"
  IO.println s!"STAT ff_max_width={s.maxWidth}"
  IO.println s!"STAT ceiling_reached={s.nCeiling}"
  IO.println s!"STAT start_above_end_cases={s.nSgte}"
  IO.println s!"STAT cases_outside_domain={s.nUnjudged}"
  IO.println s!"STAT estimated_start_above_ceiling_lines_not_judged={s.nEstDropped}"
  IO.println s!"STAT no_tx_at_ceiling_rounding={s.nNoTxRounding}"
  IO.println s!"STAT no_tx_at_ceiling_aux_weight={s.nNoTxAux}"
  IO.println s!"STAT no_tx_at_ceiling_dust_fold={s.nNoTxDust}"
  IO.println s!"STAT ffraw_cases={s.nRaw}"
  IO.println s!"STAT fixed_width_probes_that_wrap={s.nWrapProbes}"
  IO.println s!"STAT topup_cases={s.nTop}"
  IO.println s!"STAT topup_needed_wallet_input={s.nTopNeeded}"
  IO.println s!"STAT topup_wallet_inputs_added={s.nTopAdded}"
  IO.println s!"STAT topup_still_short={s.nTopShort}"
  IO.println s!"STAT topup_errors={s.nTopErr}"
  IO.println s!"STAT agg_cases={s.nAgg}"
  IO.println s!"STAT agg_input_sets={s.nSets}"
  IO.println s!"STAT agg_sets_with_previously_offered_member={s.nRegroupStart}"
  IO.println s!"STAT agg_inputs_filtered_out={s.nFiltered}"
  IO.println s!"STAT sweeper_cases={s.swp.nCases}"
  IO.println s!"STAT sweeper_ops={s.swp.nOps}"
  IO.println s!"STAT sweeper_requests={s.swp.nReqs}"
  IO.println s!"STAT sweeper_retry_requests={s.swp.nRetryReqs}"
  IO.println s!"STAT sweeper_requests_with_wallet_inputs={s.swp.nTopUp}"
  IO.println s!"STAT sweeper_offers_restarted_from_mempool_tx={s.swp.nRbf}"
  IO.println s!"STAT sweeper_excluded_rows={s.swp.nExcluded}"
  IO.println s!"STAT sweeper_failures_reporting_rate_zero={s.swp.nZeroRateFail}"
  IO.println s!"STAT sweeper_cases_with_real_publisher={s.swp.nRealCases}"
  IO.println s!"STAT sweeper_real_published_or_replaced={s.swp.nRealPublished}"
  IO.println s!"STAT sweeper_real_failed={s.swp.nRealFailed}"
  IO.println s!"STAT sweeper_real_same_set_published_again={s.swp.nRealRepublished}"
  IO.println s!"STAT pub_cases={s.nPub}"
  IO.println s!"STAT txs_seen={s.nTx}"
  IO.println s!"STAT txs_with_required_outputs={s.nReqTx}"
  IO.println s!"STAT txs_dust_change_folded={s.nDustFolded}"
  IO.println s!"STAT ev_published={s.nPublished}"
  IO.println s!"STAT ev_replaced={s.nReplaced}"
  IO.println s!"STAT ev_failed={s.nFailed}"
  IO.println s!"STAT ev_fatal={s.nFatal}"
  IO.println s!"STAT ev_none={s.nNoEvent}"
  IO.println s!"STAT err_not_enough_budget={s.nBudgetErr}"
  IO.println s!"STAT mismatches={s.mismatches}"
  IO.println s!"STAT monitor_failures={s.monitorFails}"
  IO.println s!"STAT monitor_failures_known_finding_tagged={s.printedKnown}"
  IO.println s!"STAT monitor_failures_untagged={s.printedOther}"
