/-
C18 helper lemmas: the fee schedule (generic in the float primitive), the
invariant of the fee function, and the arithmetic of `prepareSweepTx`.
-/
import LndModel.C18.Model

namespace LndModel.C18

/-- The order properties of the float primitive that the schedule of `f` relies on.
    They only mention the immutable fields `start, end_, width, delta`. -/
structure Sound (M : MulDiv) (f : FeeFn) : Prop where
  le : f.start ≤ f.end_
  /-- the width is that of a function built by the constructor from a `uint32` conf target
      (`width = confTarget - 1`), so `l.width + 1` does not wrap. -/
  wlt : f.width + 1 < u32Mod
  nonneg : ∀ p, p < f.width → 0 ≤ M f.delta p 1000
  mono : ∀ p q, p ≤ q → q < f.width → M f.delta p 1000 ≤ M f.delta q 1000
  /-- the `int64` addition `startingFeeRate + feeRateDelta` does not overflow. -/
  fits : ∀ p, p < f.width → InI64 (f.start + M f.delta p 1000)

/-- two fee functions with the same schedule. -/
def SameSched (f g : FeeFn) : Prop :=
  g.start = f.start ∧ g.end_ = f.end_ ∧ g.width = f.width ∧ g.delta = f.delta

theorem SameSched.refl (f : FeeFn) : SameSched f f := ⟨rfl, rfl, rfl, rfl⟩

theorem SameSched.trans {f g h : FeeFn} (a : SameSched f g) (b : SameSched g h) : SameSched f h := by
  obtain ⟨a1, a2, a3, a4⟩ := a
  obtain ⟨b1, b2, b3, b4⟩ := b
  exact ⟨by rw [b1, a1], by rw [b2, a2], by rw [b3, a3], by rw [b4, a4]⟩

theorem Sound.of_same {M : MulDiv} {f g : FeeFn} (h : SameSched f g) (s : Sound M f) : Sound M g := by
  obtain ⟨h1, h2, h3, h4⟩ := h
  refine ⟨by rw [h1, h2]; exact s.le, by rw [h3]; exact s.wlt, ?_, ?_, ?_⟩
  · intro p hp; rw [h4]; rw [h3] at hp; exact s.nonneg p hp
  · intro p q hpq hq; rw [h4]; rw [h3] at hq; exact s.mono p q hpq hq
  · intro p hp; rw [h4, h1]; rw [h3] at hp; exact s.fits p hp

theorem rateAt_same {M : MulDiv} {f g : FeeFn} (h : SameSched f g) (p : Nat) :
    g.rateAt M p = f.rateAt M p := by
  obtain ⟨h1, h2, h3, h4⟩ := h
  simp only [FeeFn.rateAt, h1, h2, h3, h4]

/-! ### the schedule -/

theorem rateAt_le_end (M : MulDiv) (f : FeeFn) (p : Nat) : f.rateAt M p ≤ f.end_ := by
  unfold FeeFn.rateAt
  split
  · exact Int.le_refl _
  · simp only []
    split
    · exact Int.le_refl _
    · omega

theorem rateAt_of_ge (M : MulDiv) (f : FeeFn) {p : Nat} (h : f.width ≤ p) : f.rateAt M p = f.end_ := by
  unfold FeeFn.rateAt
  simp [h]

theorem start_le_rateAt {M : MulDiv} {f : FeeFn} (s : Sound M f) (p : Nat) : f.start ≤ f.rateAt M p := by
  unfold FeeFn.rateAt
  split
  · exact s.le
  · rename_i h
    have := s.nonneg p (by omega)
    simp only [wrap64_of_isI64 (s.fits p (by omega))]
    split
    · exact s.le
    · omega

theorem rateAt_mono {M : MulDiv} {f : FeeFn} (s : Sound M f) {p q : Nat} (h : p ≤ q) :
    f.rateAt M p ≤ f.rateAt M q := by
  by_cases hq : f.width ≤ q
  · rw [rateAt_of_ge M f hq]; exact rateAt_le_end M f p
  · have hm := s.mono p q h (by omega)
    have hle := s.le
    unfold FeeFn.rateAt
    have hp : ¬ (p ≥ f.width) := by omega
    have hq' : ¬ (q ≥ f.width) := by omega
    simp only [hp, hq', if_false, wrap64_of_isI64 (s.fits p (by omega)),
      wrap64_of_isI64 (s.fits q (by omega))]
    split <;> split <;> omega

/-! ### invariant of the fee function state -/

/-- what holds of every reachable state: the rate is inside `[start, end]`, it is at most the
    scheduled rate of every later position, and it equals the ceiling once the position has
    reached the width. -/
structure Inv (M : MulDiv) (f : FeeFn) : Prop where
  lo : f.start ≤ f.cur
  hi : f.cur ≤ f.end_
  ahead : ∀ q, f.pos < q → f.cur ≤ f.rateAt M q
  top : f.width ≤ f.pos → f.cur = f.end_

theorem increaseTo_spec {M : MulDiv} {f g : FeeFn} {p : Nat} {b : Bool}
    (h : f.increaseTo M p = .ok (g, b)) :
    f.pos < f.width ∧ SameSched f g ∧ g.pos = p ∧ g.cur = f.rateAt M p ∧ b = decide (f.rateAt M p > f.cur) := by
  unfold FeeFn.increaseTo at h
  split at h
  · cases h
  · rename_i hlt
    simp only [Except.ok.injEq, Prod.mk.injEq] at h
    obtain ⟨h1, h2⟩ := h
    subst h1
    exact ⟨by omega, ⟨rfl, rfl, rfl, rfl⟩, rfl, rfl, h2.symm⟩

theorem Inv.increaseTo {M : MulDiv} {f g : FeeFn} {p : Nat} {b : Bool} (s : Sound M f) (i : Inv M f)
    (hp : f.pos < p) (h : f.increaseTo M p = .ok (g, b)) : Inv M g ∧ f.cur ≤ g.cur := by
  obtain ⟨_, hs, hpos, hcur, _⟩ := increaseTo_spec h
  have hle : f.cur ≤ g.cur := by rw [hcur]; exact i.ahead p hp
  refine ⟨⟨?_, ?_, ?_, ?_⟩, hle⟩
  · rw [hs.1, hcur]; exact start_le_rateAt s p
  · rw [hs.2.1, hcur]; exact rateAt_le_end M f p
  · intro q hq
    rw [hpos] at hq
    rw [rateAt_same hs, hcur]
    exact rateAt_mono s (by omega)
  · intro hw
    rw [hs.2.2.1, hpos] at hw
    rw [hcur, hs.2.1]
    exact rateAt_of_ge M f hw

theorem increment_spec {M : MulDiv} {f g : FeeFn} {b : Bool} (h : f.increment M = .ok (g, b)) :
    f.increaseTo M ((f.pos + 1) % u32Mod) = .ok (g, b) := h

/-- below the max-position guard the `uint32` addition `position + 1` of `Increment` cannot wrap
    (for a width that is itself a `uint32`). -/
theorem increment_spec' {M : MulDiv} {f g : FeeFn} {b : Bool} (hw : f.width < u32Mod)
    (h : f.increment M = .ok (g, b)) : f.increaseTo M (f.pos + 1) = .ok (g, b) := by
  have h' := increment_spec h
  have hlt : f.pos < f.width := by
    unfold FeeFn.increaseTo at h'
    split at h'
    · cases h'
    · omega
  have e : (f.pos + 1) % u32Mod = f.pos + 1 := Nat.mod_eq_of_lt (by omega)
  rw [e] at h'; exact h'

theorem increaseFeeRate_spec {M : MulDiv} {f g : FeeFn} {ct : Nat} {b : Bool}
    (h : f.increaseFeeRate M ct = .ok (g, b)) :
    (f.newPos ct ≤ f.pos ∧ g = f ∧ b = false) ∨
    (f.pos < f.newPos ct ∧ f.increaseTo M (f.newPos ct) = .ok (g, b)) := by
  unfold FeeFn.increaseFeeRate at h
  simp only [] at h
  split at h
  · rename_i hle
    simp only [Except.ok.injEq, Prod.mk.injEq] at h
    exact Or.inl ⟨hle, h.1.symm, h.2.symm⟩
  · rename_i hlt
    exact Or.inr ⟨by omega, h⟩

/-- one operation preserves the schedule, the invariant, and never lowers the rate. -/
theorem Inv.step {M : MulDiv} {f : FeeFn} (s : Sound M f) (i : Inv M f) (op : Op) :
    SameSched f (f.step M op) ∧ Inv M (f.step M op) ∧ f.cur ≤ (f.step M op).cur := by
  cases op with
  | inc =>
    simp only [FeeFn.step]
    cases h : f.increment M with
    | error e => exact ⟨SameSched.refl f, i, Int.le_refl _⟩
    | ok r =>
      obtain ⟨g, b⟩ := r
      have h' := increment_spec' (by have := s.wlt; omega) h
      obtain ⟨hi, hle⟩ := Inv.increaseTo s i (by omega) h'
      exact ⟨(increaseTo_spec h').2.1, hi, hle⟩
  | ict ct =>
    simp only [FeeFn.step]
    cases h : f.increaseFeeRate M ct with
    | error e => exact ⟨SameSched.refl f, i, Int.le_refl _⟩
    | ok r =>
      obtain ⟨g, b⟩ := r
      rcases increaseFeeRate_spec h with ⟨_, hg, _⟩ | ⟨hlt, h'⟩
      · subst hg; exact ⟨SameSched.refl _, i, Int.le_refl _⟩
      · obtain ⟨hi, hle⟩ := Inv.increaseTo s i hlt h'
        exact ⟨(increaseTo_spec h').2.1, hi, hle⟩

theorem Inv.run {M : MulDiv} {f : FeeFn} (s : Sound M f) (i : Inv M f) (ops : List Op) :
    SameSched f (f.run M ops) ∧ Inv M (f.run M ops) ∧ f.cur ≤ (f.run M ops).cur := by
  induction ops generalizing f with
  | nil => exact ⟨SameSched.refl f, i, Int.le_refl _⟩
  | cons op rest ih =>
    obtain ⟨h1, h2, h3⟩ := Inv.step s i op
    obtain ⟨k1, k2, k3⟩ := ih (Sound.of_same h1 s) h2
    simp only [FeeFn.run, List.foldl_cons] at *
    exact ⟨h1.trans k1, k2, Int.le_trans h3 k3⟩

theorem run_append (M : MulDiv) (f : FeeFn) (a b : List Op) :
    f.run M (a ++ b) = (f.run M a).run M b := by
  simp [FeeFn.run, List.foldl_append]

/-! ### the ceiling invariant (no hypothesis on the float primitive or on `start ≤ end`) -/

/-- once the position has reached the width the rate is the ceiling. -/
def Top (f : FeeFn) : Prop := f.width ≤ f.pos → f.cur = f.end_

theorem Top.increaseTo {M : MulDiv} {f g : FeeFn} {p : Nat} {b : Bool}
    (h : f.increaseTo M p = .ok (g, b)) : Top g := by
  obtain ⟨_, hs, hpos, hcur, _⟩ := increaseTo_spec h
  intro hw
  rw [hs.2.2.1, hpos] at hw
  rw [hcur, hs.2.1]
  exact rateAt_of_ge M f hw

theorem Top.step {M : MulDiv} {f : FeeFn} (t : Top f) (op : Op) :
    SameSched f (f.step M op) ∧ Top (f.step M op) := by
  cases op with
  | inc =>
    simp only [FeeFn.step]
    cases h : f.increment M with
    | error e => exact ⟨SameSched.refl f, t⟩
    | ok r =>
      obtain ⟨g, b⟩ := r
      exact ⟨(increaseTo_spec (increment_spec h)).2.1, Top.increaseTo (increment_spec h)⟩
  | ict ct =>
    simp only [FeeFn.step]
    cases h : f.increaseFeeRate M ct with
    | error e => exact ⟨SameSched.refl f, t⟩
    | ok r =>
      obtain ⟨g, b⟩ := r
      rcases increaseFeeRate_spec h with ⟨_, hg, _⟩ | ⟨_, h'⟩
      · subst hg; exact ⟨SameSched.refl _, t⟩
      · exact ⟨(increaseTo_spec h').2.1, Top.increaseTo h'⟩

theorem Top.run {M : MulDiv} {f : FeeFn} (t : Top f) (ops : List Op) :
    SameSched f (f.run M ops) ∧ Top (f.run M ops) := by
  induction ops generalizing f with
  | nil => exact ⟨SameSched.refl f, t⟩
  | cons op rest ih =>
    obtain ⟨h1, h2⟩ := Top.step (M := M) t op
    obtain ⟨k1, k2⟩ := ih h2
    simp only [FeeFn.run, List.foldl_cons] at *
    exact ⟨h1.trans k1, k2⟩

/-! ### creation -/

theorem newLinear_spec {M : MulDiv} {maxFeeRate : Int} {ct : Nat} {so est : Option Int} {relay : Int}
    {f : FeeFn} (h : newLinear M maxFeeRate ct so est relay = .ok f) :
    f.end_ = maxFeeRate ∧ f.cur = f.start ∧ f.pos = 0 ∧
    ((ct ≤ 1 ∧ f.start = maxFeeRate ∧ f.width = 0) ∨
     (2 ≤ ct ∧ f.width = ct - 1 ∧ f.delta = M (wrap64 (maxFeeRate - f.start)) 1000 (ct - 1) ∧
      (so = some f.start ∨ (so = none ∧ estimateFeeRate ct est relay maxFeeRate = .ok f.start)))) := by
  unfold newLinear at h
  split at h
  · rename_i hct
    simp only [Except.ok.injEq] at h
    subst h
    exact ⟨rfl, rfl, rfl, Or.inl ⟨hct, rfl, rfl⟩⟩
  · rename_i hct
    simp only [] at h
    split at h
    · cases h
    · rename_i start hs
      split at h
      · cases h
      · simp only [Except.ok.injEq] at h
        subst h
        refine ⟨rfl, rfl, rfl, Or.inr ⟨by omega, rfl, rfl, ?_⟩⟩
        cases so with
        | some s0 => simp only [Except.ok.injEq] at hs; left; rw [hs]
        | none => right; exact ⟨rfl, hs⟩

theorem Top.new {M : MulDiv} {maxFeeRate : Int} {ct : Nat} {so est : Option Int} {relay : Int}
    {f : FeeFn} (h : newLinear M maxFeeRate ct so est relay = .ok f) : Top f := by
  obtain ⟨hend, hcur, hpos, hcase⟩ := newLinear_spec h
  intro hw
  rcases hcase with ⟨_, hst, _⟩ | ⟨h2, hwd, _⟩
  · rw [hcur, hst, hend]
  · omega

/-- a freshly created fee function satisfies the invariant. -/
theorem Inv.new {M : MulDiv} {maxFeeRate : Int} {ct : Nat} {so est : Option Int} {relay : Int}
    {f : FeeFn} (h : newLinear M maxFeeRate ct so est relay = .ok f) (s : Sound M f) : Inv M f := by
  obtain ⟨_, hcur, hpos, hcase⟩ := newLinear_spec h
  refine ⟨by omega, by rw [hcur]; exact s.le, ?_, ?_⟩
  · intro q _; rw [hcur]; exact start_le_rateAt s q
  · intro hw
    rcases hcase with ⟨_, hst, _⟩ | ⟨h2, hwd, _⟩
    · omega
    · omega

/-- the estimated starting rate is at least the relay fee and (when the ceiling is not 0)
    at most the ceiling, for conf targets below `MaxBlockTarget`. -/
theorem estimate_bounds {ct : Nat} {est : Option Int} {relay maxFeeRate r : Int}
    (h : estimate ct est relay maxFeeRate = .ok r) :
    (relay ≤ r ∨ r = maxFeeRate) ∧ (maxFeeRate ≠ 0 → r ≤ maxFeeRate) ∧
    (relay ≤ maxFeeRate ∨ maxFeeRate = 0 → relay ≤ r) := by
  unfold estimate at h
  split at h
  · cases h
  · cases est with
    | none => cases h
    | some e =>
      simp only [] at h
      split at h
      · cases h
      · split at h
        · simp only [Except.ok.injEq] at h; subst h
          rename_i h1 h2
          exact ⟨Or.inr rfl, fun _ => Int.le_refl _, by omega⟩
        · simp only [Except.ok.injEq] at h
          rename_i h1 h2
          rw [← h]
          refine ⟨Or.inl (by omega), ?_, fun _ => by omega⟩
          intro hne
          have : ¬ (e > maxFeeRate) := fun hgt => h2 ⟨hne, hgt⟩
          omega

/-! ### fixed-width side conditions discharged from the constructor / the types -/

/-- a function built by the constructor from a `uint32` conf target has `width + 1 < 2^32`
    (`width = confTarget - 1`): the `uint32` addition `l.width + 1` of `IncreaseFeeRate` never wraps. -/
theorem newLinear_width_lt {M : MulDiv} {maxFeeRate : Int} {ct : Nat} {so est : Option Int} {relay : Int}
    {f : FeeFn} (h : newLinear M maxFeeRate ct so est relay = .ok f) (hct : ct < u32Mod) :
    f.width + 1 < u32Mod := by
  obtain ⟨_, _, _, hcase⟩ := newLinear_spec h
  simp only [u32Mod] at *
  rcases hcase with ⟨_, _, hw⟩ | ⟨_, hw, _⟩ <;> omega

/-- below the `uint32` maximum the new position is the exact `width + 1 - confTarget`. -/
theorem newPos_exact {f : FeeFn} (hw : f.width + 1 < u32Mod) (ct : Nat) :
    f.newPos ct = if ct < f.width + 1 then f.width + 1 - ct else 0 := by
  unfold FeeFn.newPos
  rw [Nat.mod_eq_of_lt hw]

/-- a conf target `≤ 1` maps to a position at or beyond the width. -/
theorem newPos_ge_width {f : FeeFn} (hw : f.width + 1 < u32Mod) {c : Nat} (hc : c ≤ 1) :
    f.width ≤ f.newPos c := by
  rw [newPos_exact hw]; split <;> omega

/-- WITNESS that `width + 1 < 2^32` is needed: at `width = 2^32 - 1` (not constructible through
    `NewLinearFeeFunction`) `l.width + 1` wraps to 0 and conf target 1 maps to position 0. -/
theorem newPos_wrap_witness : (FeeFn.mk 0 100 0 4294967295 0 0).newPos 1 = 0 := by decide

/-- the conf target handed to the fee function is an `int32` delta: always below `2^31`. -/
theorem calcCurrentConfTarget_lt (height deadline : Int) :
    calcCurrentConfTarget height deadline < 2147483648 := by
  unfold calcCurrentConfTarget
  simp only []
  by_cases h : wrap32 (deadline - height) < 0
  · simp only [h, if_true]; omega
  · simp only [h, if_false]
    simp only [wrap32] at h ⊢
    omega

/-- inside the `int32` range of the difference (always the case for non-negative heights) the
    conf target is the exact `max 0 (deadline - height)`. -/
theorem calcCurrentConfTarget_exact {height deadline : Int}
    (h : -2147483648 ≤ deadline - height ∧ deadline - height < 2147483648) :
    calcCurrentConfTarget height deadline = if deadline - height < 0 then 0 else (deadline - height).toNat := by
  unfold calcCurrentConfTarget
  have e : wrap32 (deadline - height) = deadline - height := by simp only [wrap32]; omega
  simp only [e]

/-- `FeeForWeight` is the exact `⌊rate·wu/1000⌋` (truncated towards zero) when the weight and
    the product fit `int64`. -/
theorem feeForWeight_exact {rate : Int} {wu : Nat} (hw : InI64 (wu : Int)) (hp : InI64 (rate * wu)) :
    feeForWeight rate wu = Int.tdiv (rate * wu) 1000 := by
  unfold feeForWeight
  rw [wrap64_of_isI64 hw, wrap64_of_isI64 hp]

/-- … in particular it is non-negative for a non-negative rate. -/
theorem feeForWeight_nonneg {rate : Int} {wu : Nat} (h0 : 0 ≤ rate) (hw : InI64 (wu : Int))
    (hp : InI64 (rate * wu)) : 0 ≤ feeForWeight rate wu := by
  rw [feeForWeight_exact hw hp]
  have : (0 : Int) ≤ rate * wu := Int.mul_nonneg h0 (Int.natCast_nonneg _)
  rw [Int.tdiv_eq_ediv_of_nonneg this]
  omega

/-- … and monotone in the rate. -/
theorem feeForWeight_mono {r1 r2 : Int} {wu : Nat} (h0 : 0 ≤ r1) (h : r1 ≤ r2) (hw : InI64 (wu : Int))
    (hp : InI64 (r2 * wu)) : feeForWeight r1 wu ≤ feeForWeight r2 wu := by
  have hle : r1 * wu ≤ r2 * wu := Int.mul_le_mul_of_nonneg_right h (Int.natCast_nonneg _)
  have h1 : (0 : Int) ≤ r1 * wu := Int.mul_nonneg h0 (Int.natCast_nonneg _)
  have hp1 : InI64 (r1 * wu) := by simp only [InI64] at hp ⊢; omega
  rw [feeForWeight_exact hw hp1, feeForWeight_exact hw hp,
    Int.tdiv_eq_ediv_of_nonneg h1, Int.tdiv_eq_ediv_of_nonneg (by omega)]
  omega

/-! ### sums -/

theorem foldl_add_shift (l : List Int) (a : Int) : l.foldl (· + ·) a = a + l.foldl (· + ·) 0 := by
  induction l generalizing a with
  | nil => simp
  | cons x xs ih => simp only [List.foldl_cons]; rw [ih (a + x), ih (0 + x)]; omega

theorem sumValues_cons (i : Inp) (l : List Inp) : sumValues (i :: l) = i.value + sumValues l := by
  simp only [sumValues, List.map_cons, List.foldl_cons]
  rw [foldl_add_shift]; omega

theorem sumReq_cons (i : Inp) (l : List Inp) : sumReq (i :: l) = i.req.getD 0 + sumReq l := by
  simp only [sumReq, List.map_cons, List.foldl_cons]
  rw [foldl_add_shift]; omega

/-- sum of the output values of a tx. -/
def sumOuts (outs : List (OutKind × Int)) : Int := (outs.map (·.2)).foldl (· + ·) 0

theorem sumOuts_nil : sumOuts [] = 0 := rfl

theorem sumOuts_cons (o : OutKind × Int) (l : List (OutKind × Int)) : sumOuts (o :: l) = o.2 + sumOuts l := by
  simp only [sumOuts, List.map_cons, List.foldl_cons]
  rw [foldl_add_shift]; omega

theorem sumOuts_append (a b : List (OutKind × Int)) : sumOuts (a ++ b) = sumOuts a + sumOuts b := by
  induction a with
  | nil => simp [sumOuts_nil]
  | cons x xs ih => simp only [List.cons_append, sumOuts_cons, ih]; omega

theorem sumOuts_required (inputs : List Inp) :
    sumOuts (inputs.filterMap (fun i => i.req.map (fun v => (OutKind.required, v)))) = sumReq inputs := by
  induction inputs with
  | nil => rfl
  | cons i rest ih =>
    rw [sumReq_cons]
    cases hr : i.req with
    | none => simp only [List.filterMap_cons, hr, Option.map_none, Option.getD_none]; rw [ih]; omega
    | some v => simp only [List.filterMap_cons, hr, Option.map_some, Option.getD_some, sumOuts_cons]; rw [ih]

/-! ### prepareSweepTx / buildTx -/

theorem prepare_spec {inputs : List Inp} {rate : Int} {wu : Nat} {height dust : Int}
    {extra : Option Int} {p : Prep}
    (h : prepareSweepTx inputs rate wu height dust extra = .ok p) :
    sumValues inputs = (extra.getD 0 + sumReq inputs) + p.change.getD 0 + p.fee ∧
    (∀ v, p.change = some v → dust ≤ v) ∧
    (p.change = none → extra.getD 0 + sumReq inputs ≠ 0) ∧
    feeForWeight rate wu ≤ p.fee ∧
    (p.change.isSome → p.fee = feeForWeight rate wu) ∧
    (p.change = none → p.fee < feeForWeight rate wu + dust) := by
  unfold prepareSweepTx at h
  simp only [] at h
  split at h
  · cases h
  · split at h
    · cases h
    · rename_i hcov
      split at h
      · rename_i hd
        split at h
        · cases h
        · rename_i hr
          simp only [Except.ok.injEq] at h
          subst h
          refine ⟨?_, ?_, fun _ => hr, ?_, ?_, fun _ => ?_⟩
          · simp only [Option.getD_none]; omega
          · intro v hv; cases hv
          · simp only []; omega
          · intro hf; cases hf
          · simp only []; omega
      · rename_i hd
        simp only [Except.ok.injEq] at h
        subst h
        refine ⟨?_, ?_, ?_, Int.le_refl _, fun _ => rfl, ?_⟩
        · simp only [Option.getD_some]; omega
        · intro v hv
          simp only [Option.some.injEq] at hv
          omega
        · intro hn; cases hn
        · intro hn; cases hn

/-- the pairs `(input, index)` of the inputs committing to an output, in order. -/
def reqPairs (inputs : List Inp) : List (Inp × Nat) := inputs.zipIdx.filter (fun x => x.1.req.isSome)

theorem idxWhere_req (inputs : List Inp) :
    idxWhere inputs (fun i => i.req.isSome) = (reqPairs inputs).map (·.2) := rfl

theorem reqPairs_mem {inputs : List Inp} {x : Inp × Nat} (h : x ∈ reqPairs inputs) :
    inputs[x.2]? = some x.1 ∧ x.1.req.isSome := by
  unfold reqPairs at h
  rw [List.mem_filter] at h
  exact ⟨List.mem_zipIdx_iff_getElem?.mp h.1, h.2⟩

theorem filterMap_req_eq_aux (inputs : List Inp) (k : Nat) :
    inputs.filterMap (fun i => i.req.map (fun v => (OutKind.required, v)))
      = ((inputs.zipIdx k).filter (fun x => x.1.req.isSome)).map
          (fun x => (OutKind.required, x.1.req.getD 0)) := by
  induction inputs generalizing k with
  | nil => rfl
  | cons i rest ih =>
    rw [List.zipIdx_cons]
    cases hr : i.req with
    | none =>
      simp only [List.filterMap_cons, hr, Option.map_none, List.filter_cons, Option.isSome_none]
      exact ih (k + 1)
    | some v =>
      simp only [List.filterMap_cons, hr, Option.map_some, List.filter_cons, Option.isSome_some,
        if_true, List.map_cons, Option.getD_some]
      rw [ih (k + 1)]

/-- the required outputs are the committed outputs of the required-output inputs, in the
    same order as those inputs appear in the transaction. -/
theorem filterMap_req_eq (inputs : List Inp) :
    inputs.filterMap (fun i => i.req.map (fun v => (OutKind.required, v)))
      = (reqPairs inputs).map (fun x => (OutKind.required, x.1.req.getD 0)) :=
  filterMap_req_eq_aux inputs 0

theorem ins_perm (inputs : List Inp) :
    (idxWhere inputs (fun i => i.req.isSome) ++ idxWhere inputs (fun i => i.req.isNone)).Perm
      (List.range inputs.length) := by
  unfold idxWhere
  rw [← List.map_append]
  have hf : (fun x : Inp × Nat => x.1.req.isNone) = (fun x => !(fun x : Inp × Nat => x.1.req.isSome) x) := by
    funext x; cases h : x.1.req <;> simp [h]
  rw [hf]
  have hp := (List.filter_append_perm (fun x : Inp × Nat => x.1.req.isSome) inputs.zipIdx).map (·.2)
  have hr : List.map (fun x : Inp × Nat => x.2) inputs.zipIdx = List.range inputs.length := by
    have := List.zipIdx_map_snd 0 inputs
    rw [List.range_eq_range']
    exact this
  rw [hr] at hp
  exact hp

theorem buildTx_sumOuts (inputs : List Inp) (height : Int) (extra : Option Int) (p : Prep) :
    sumOuts (buildTx inputs height extra p).outs = sumReq inputs + extra.getD 0 + p.change.getD 0 := by
  simp only [buildTx, sumOuts_append, sumOuts_required]
  cases extra <;> cases p.change <;> simp [sumOuts_cons, sumOuts_nil]

end LndModel.C18
