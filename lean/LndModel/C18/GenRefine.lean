/-
C18 — refinement of the regenerated fee arithmetic (LndModel.Gen.C18, produced by tools/go2lean
from lnwallet/chainfee/rates.go, sweep/fee_bumper.go `calcCurrentConfTarget` and the
`LinearFeeFunction` methods of sweep/fee_function.go) to the hand-written model `LndModel.C18`.

The model reproduces the code's fixed-width arithmetic (int64 product of `FeeForWeight`, int32
subtraction of `calcCurrentConfTarget`, int64 addition of `feeRateAtPosition`, uint32 additions
of `Increment` / `IncreaseFeeRate`), so the refinement theorems of these functions are
UNCONDITIONAL: they hold for all integers, in particular for every value of the Go types.  The
only hypotheses left are the ranges of the Go types themselves where a Lean `Nat` of the model
stands for a `uint32`/`uint64` (`wu < 2^63` is not needed; `ct`, `pos`, `p` need no bound at all).
The former witnesses of disagreement (exact-integer model vs wrapping code) are kept as
statements about the exact formulas (`*_exact` in C18/Lemmas.lean state the domains on which the
code computes the exact value; the witnesses below show the domains are needed).

Bound in the spec (trusted): `btcutil.Amount(l.deltaFeeRate).MulF64(float64(p) / 1000)` is the
parameter `feeRateDelta`; the model calls it `M f.delta p 1000`.
-/
import LndModel.Gen.C18
import LndModel.C18.Model

namespace LndModel.C18.GenRefine
open LndModel.Gen LndModel.Gen.GoInt

theorem wrapI64_id (x : Int) (h : IsI64 x) : wrapI64 x = x := by
  simp only [IsI64] at h; simp only [wrapI64]; omega

/-! ## chainfee rates -/

theorem FeePerKwFloor_value : Gen.C18.FeePerKwFloor = 253 ∧ Gen.C18.AbsoluteFeePerKwFloor = 250 := by
  simp only [Gen.C18.FeePerKwFloor, Gen.C18.AbsoluteFeePerKwFloor, and_self]

theorem wrapI64_eq (x : Int) : C18.wrap64 x = wrapI64 x := rfl
theorem wrapI32_eq (x : Int) : C18.wrap32 x = wrapI32 x := rfl

/-- `SatPerKWeight.FeeForWeight`: the regenerated int64 computation IS the model's `feeForWeight`,
    for every rate and weight (no hypothesis). -/
theorem FeeForWeight_refines (rate : Int) (wu : Nat) :
    Gen.C18.SatPerKWeight_FeeForWeight rate wu = C18.feeForWeight rate wu := by
  first
  | (simp only [Gen.C18.SatPerKWeight_FeeForWeight, C18.feeForWeight, wrapI64_eq]; done)
  | (simp only [Gen.C18.SatPerKWeight_FeeForWeight, C18.feeForWeight, wrapI64_eq,
      Int.mul_comm (wrapI64 (wu : Int)) rate]; done)  -- operands of the product commuted

/-- The code (and now the model) is NOT the exact `rate·wu/1000` outside the int64 range of the
    product: 2^62 sat/kw · 4 wu wraps to 0, and 2^62 sat/kw · 3 wu to a NEGATIVE fee.  Exactness
    on the domain `InI64 (rate * wu)` is `C18.feeForWeight_exact`. -/
theorem FeeForWeight_witness :
    Gen.C18.SatPerKWeight_FeeForWeight 4611686018427387904 4 = 0 ∧
    C18.feeForWeight 4611686018427387904 4 = 0 ∧
    Int.tdiv (4611686018427387904 * 4) 1000 = 18446744073709551 ∧
    C18.feeForWeight 4611686018427387904 3 = -4611686018427387 := by decide

/-- `FeeForWeightRoundUp` is the exact ceiling `⌈rate·wu/1000⌉` for non-negative rates (exact spec;
    the C18 model has no counterpart). -/
theorem FeeForWeightRoundUp_exact (rate wu : Nat)
    (hw : IsI64 (wu : Int)) (hp : ((rate * wu + 999 : Nat) : Int) < 9223372036854775808) :
    Gen.C18.SatPerKWeight_FeeForWeightRoundUp rate wu = (((rate * wu + 999) / 1000 : Nat) : Int) := by
  have h0 : (0 : Int) ≤ (rate : Int) * wu := Int.mul_nonneg (Int.natCast_nonneg _) (Int.natCast_nonneg _)
  have hp' : ((rate : Int) * wu + 999) < 9223372036854775808 := by
    rw [Int.natCast_add, Int.natCast_mul] at hp; exact hp
  have e1 : wrapI64 ((rate : Int) * wu) = rate * wu := wrapI64_id _ (by simp only [IsI64]; omega)
  have e2 : wrapI64 ((rate : Int) * wu + 999) = rate * wu + 999 := wrapI64_id _ (by simp only [IsI64]; omega)
  simp only [Gen.C18.SatPerKWeight_FeeForWeightRoundUp, wrapI64_id _ hw, e1, e2]
  rw [Int.tdiv_eq_ediv_of_nonneg (by omega)]
  omega

/-- `FeePerKVByte`, `FeePerVByte`, `FeeForVByte` of `SatPerKWeight` and the `SatPerVByte` /
    `SatPerKVByte` conversions are the exact truncating formulas when `4·s` (resp. `1000·s`, the
    product with the size) fits int64 (exact specs; the C18 model has no counterpart). -/
theorem FeePerKVByte_exact (s : Int) (h : IsI64 (s * 4)) :
    Gen.C18.SatPerKWeight_FeePerKVByte s = s * 4 := by
  simp only [Gen.C18.SatPerKWeight_FeePerKVByte, wrapI64_id _ h]

theorem FeePerVByte_exact (s : Int) (h : IsI64 (s * 4)) :
    Gen.C18.SatPerKWeight_FeePerVByte s = Int.tdiv (s * 4) 1000 := by
  simp only [Gen.C18.SatPerKWeight_FeePerVByte, wrapI64_id _ h]

theorem FeeForVByte_exact (s : Int) (vb : Nat) (h : IsI64 (s * 4)) (hv : IsI64 (vb : Int))
    (hp : IsI64 (s * 4 * vb)) :
    Gen.C18.SatPerKWeight_FeeForVByte s vb = Int.tdiv (s * 4 * vb) 1000 := by
  simp only [Gen.C18.SatPerKWeight_FeeForVByte, Gen.C18.SatPerKVByte_FeeForVSize,
    Gen.C18.SatPerKWeight_FeePerKVByte, wrapI64_id _ h, wrapI64_id _ hv, wrapI64_id _ hp]

theorem SatPerVByte_FeePerKWeight_exact (s : Int) (h : IsI64 (s * 1000)) :
    Gen.C18.SatPerVByte_FeePerKWeight s = Int.tdiv (s * 1000) 4 := by
  simp only [Gen.C18.SatPerVByte_FeePerKWeight, wrapI64_id _ h]

theorem SatPerVByte_FeePerKVByte_exact (s : Int) (h : IsI64 (s * 1000)) :
    Gen.C18.SatPerVByte_FeePerKVByte s = s * 1000 := by
  simp only [Gen.C18.SatPerVByte_FeePerKVByte, wrapI64_id _ h]

theorem SatPerKVByte_FeePerKWeight_exact (s : Int) :
    Gen.C18.SatPerKVByte_FeePerKWeight s = Int.tdiv s 4 := by
  simp only [Gen.C18.SatPerKVByte_FeePerKWeight]

/-! ## calcCurrentConfTarget -/

/-- `calcCurrentConfTarget`: the regenerated int32 computation IS the model's, for all heights
    (no hypothesis). -/
theorem calcCurrentConfTarget_refines (height deadline : Int) :
    Gen.C18.calcCurrentConfTarget height deadline = (C18.calcCurrentConfTarget height deadline : Nat) := by
  simp only [Gen.C18.calcCurrentConfTarget, C18.calcCurrentConfTarget, wrapI32_eq]
  by_cases h : wrapI32 (deadline - height) < 0
  · simp only [h, if_true]; rfl
  · simp only [h, if_false]
    simp only [wrapI32, wrapU32] at h ⊢
    omega

/-- The code (and the model) differ from the exact `max 0 (deadline − height)` when the int32
    subtraction wraps (a negative current height): Go answers 0 where the exact value is 2^31.
    Exactness on the int32 range of the difference is `C18.calcCurrentConfTarget_exact`. -/
theorem calcCurrentConfTarget_witness :
    Gen.C18.calcCurrentConfTarget (-1) 2147483647 = 0 ∧
    C18.calcCurrentConfTarget (-1) 2147483647 = 0 ∧
    (2147483647 : Int) - (-1) = 2147483648 := by decide

/-! ## LinearFeeFunction -/

/-- Reading the regenerated result `(increased, currentFeeRate', position')` as the model's. -/
def ofResult (f : FeeFn) : Except Gen.C18.Err (Bool × Int × Int) → Except C18.Err (FeeFn × Bool)
  | .error .ErrMaxPosition => .error .maxPosition
  | .ok (b, cur, pos) => .ok ({ f with pos := pos.toNat, cur := cur }, b)

/-- `feeRateAtPosition(p)` IS the model's `rateAt` (no hypothesis: the model wraps the int64
    addition `startingFeeRate + delta` as the code does). -/
theorem feeRateAtPosition_refines (M : MulDiv) (f : FeeFn) (p : Nat) :
    Gen.C18.LinearFeeFunction_feeRateAtPosition f.start f.end_ f.width p (M f.delta p 1000)
      = f.rateAt M p := by
  simp only [Gen.C18.LinearFeeFunction_feeRateAtPosition, FeeFn.rateAt, wrapI64_eq]
  by_cases hp : p ≥ f.width
  · have hp' : (p : Int) ≥ f.width := by omega
    simp only [hp, hp', if_true]
  · have hp' : ¬ (p : Int) ≥ f.width := by omega
    simp only [hp, hp', if_false]
    rfl

/-- the addition does wrap in the code for a start near the int64 maximum (not a fee rate). -/
theorem feeRateAtPosition_witness :
    Gen.C18.LinearFeeFunction_feeRateAtPosition 9223372036854775807 9223372036854775807 10 1 1
      = -9223372036854775808 := by decide

/-- `increaseFeeRate(position)` (no hypothesis). -/
theorem increaseFeeRate_refines (M : MulDiv) (f : FeeFn) (p : Nat) :
    ofResult f (Gen.C18.LinearFeeFunction_increaseFeeRate f.start f.end_ f.cur f.width f.pos p
      (M f.delta p 1000)) = f.increaseTo M p := by
  simp only [Gen.C18.LinearFeeFunction_increaseFeeRate, FeeFn.increaseTo,
    feeRateAtPosition_refines M f p]
  by_cases hp : f.pos ≥ f.width
  · have hp' : (f.pos : Int) ≥ f.width := by omega
    simp only [hp, hp', if_true, ofResult]
  · have hp' : ¬ (f.pos : Int) ≥ f.width := by omega
    simp only [hp, hp', if_false, ofResult, Int.toNat_natCast]

/-- `Increment()` = `increaseFeeRate(position + 1)` with the uint32 addition (no hypothesis). -/
theorem Increment_refines (M : MulDiv) (f : FeeFn) :
    ofResult f (Gen.C18.LinearFeeFunction_Increment f.start f.end_ f.cur f.width f.pos
      (M f.delta ((f.pos + 1) % u32Mod) 1000)) = f.increment M := by
  simp only [Gen.C18.LinearFeeFunction_Increment, FeeFn.increment]
  have e : wrapU32 ((f.pos : Int) + 1) = (((f.pos + 1) % u32Mod : Nat) : Int) := by
    simp only [wrapU32, u32Mod]; omega
  rw [e]
  exact increaseFeeRate_refines M f ((f.pos + 1) % u32Mod)

/-- `IncreaseFeeRate(confTarget)`: the new position computed in uint32 arithmetic IS the model's
    `newPos`, for every width and position; the conf target only needs to be a `uint32`. -/
theorem IncreaseFeeRate_refines (M : MulDiv) (f : FeeFn) (ct : Nat) (hct : ct < 4294967296) :
    ofResult f (Gen.C18.LinearFeeFunction_IncreaseFeeRate f.start f.end_ f.cur f.width f.pos ct
      (M f.delta (f.newPos ct) 1000)) = f.increaseFeeRate M ct := by
  have enp : (if (ct : Int) < wrapU32 ((f.width : Int) + 1)
      then wrapU32 (wrapU32 ((f.width : Int) + 1) - ct) else 0) = ((f.newPos ct : Nat) : Int) := by
    simp only [FeeFn.newPos, wrapU32, u32Mod]
    by_cases hc : ct < (f.width + 1) % 4294967296
    · have hc' : (ct : Int) < ((f.width : Int) + 1) % 4294967296 := by omega
      simp only [hc, hc', if_true]; omega
    · have hc' : ¬ (ct : Int) < ((f.width : Int) + 1) % 4294967296 := by omega
      simp only [hc, hc', if_false]; rfl
  simp only [Gen.C18.LinearFeeFunction_IncreaseFeeRate, FeeFn.increaseFeeRate, enp]
  by_cases hn : f.newPos ct ≤ f.pos
  · have hn' : ((f.newPos ct : Nat) : Int) ≤ f.pos := by omega
    simp only [hn, hn', if_true, ofResult, Int.toNat_natCast]
  · have hn' : ¬ ((f.newPos ct : Nat) : Int) ≤ f.pos := by omega
    simp only [hn, hn', if_false]
    exact increaseFeeRate_refines M f (f.newPos ct)

/-- At `width = 2^32 - 1` the code's `l.width+1` wraps to 0 and nothing is increased even for conf
    target 1; the model now does the same (it used to move to the last position).  Such a width
    cannot come out of `NewLinearFeeFunction` (`width = confTarget - 1 ≤ 2^32 - 2`,
    `C18.newLinear_width_lt`), which is the hypothesis `ct < 2^32` of `ceiling_by_deadline`. -/
theorem IncreaseFeeRate_witness :
    Gen.C18.LinearFeeFunction_IncreaseFeeRate 0 100 0 4294967295 0 1 0 = .ok (false, 0, 0) ∧
    (FeeFn.mk 0 100 0 4294967295 0 0).increaseFeeRate (fun _ _ _ => 0) 1
      = .ok (FeeFn.mk 0 100 0 4294967295 0 0, false) := ⟨rfl, rfl⟩

/-! ## Non-vacuity / concrete evaluations -/

example := FeeForWeight_refines 2500 1116
example : Gen.C18.SatPerKWeight_FeeForWeight 2500 1116 = 2790 := by decide
example : Gen.C18.SatPerKWeight_FeeForWeightRoundUp 253 1001 = 254 := by decide
example := FeeForWeightRoundUp_exact 253 1001 (by simp only [IsI64]; omega) (by decide)
example := calcCurrentConfTarget_refines 800000 800144
example : Gen.C18.calcCurrentConfTarget 800144 800000 = 0 := by decide
example := IncreaseFeeRate_refines (fun a n d => a * n / d) ⟨1000, 50000, 1000, 143, 0, 342657⟩ 100
  (by decide)
example : ofResult ⟨1000, 50000, 1000, 143, 0, 342657⟩
    (Gen.C18.LinearFeeFunction_IncreaseFeeRate 1000 50000 1000 143 0 100 15076)
      = .ok (⟨1000, 50000, 16076, 143, 44, 342657⟩, true) := rfl
example := Increment_refines (fun a n d => a * n / d) ⟨1000, 50000, 1000, 143, 7, 342657⟩

end LndModel.C18.GenRefine
