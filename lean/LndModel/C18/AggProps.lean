/-
C18 — theorems about the level above the publisher: `BudgetAggregator.ClusterInputs` and
`BudgetInputSet` (`Budget`, `StartingFeeRate`), and how a regrouped set enters the publisher.
-/
import LndModel.C18.Props

namespace LndModel.C18

/-! ### StartingFeeRate of a set -/

theorem setStartLoop_ge (l : List PInp) : ∀ (m : Int) (acc : Option Int), acc.getD 0 = m →
    m ≤ (setStartLoop l m acc).getD 0 ∧ ∀ i ∈ l, i.start.getD 0 ≤ (setStartLoop l m acc).getD 0 := by
  induction l with
  | nil => intro m acc h; simp [setStartLoop, h]
  | cons x rest ih =>
    intro m acc h
    simp only [setStartLoop]
    split
    · rename_i hgt
      obtain ⟨h1, h2⟩ := ih (x.start.getD 0) (some (x.start.getD 0)) rfl
      refine ⟨by omega, ?_⟩
      intro i hi
      rcases List.mem_cons.mp hi with rfl | hi
      · exact h1
      · exact h2 i hi
    · rename_i hle
      obtain ⟨h1, h2⟩ := ih m acc h
      refine ⟨h1, ?_⟩
      intro i hi
      rcases List.mem_cons.mp hi with rfl | hi
      · omega
      · exact h2 i hi

/-- `BudgetInputSet.StartingFeeRate()` is at least the starting rate recorded for every member
    (rates ≤ 0 count as "none"). -/
theorem setStart_ge_member (l : List PInp) (i : PInp) (hi : i ∈ l) :
    i.start.getD 0 ≤ (setStart l).getD 0 :=
  (setStartLoop_ge l 0 none rfl).2 i hi

/-- … and when a member carries a positive rate the set has a starting rate. -/
theorem setStart_some_of_member (l : List PInp) (i : PInp) (hi : i ∈ l) (r : Int)
    (hr : i.start = some r) (hpos : 0 < r) : ∃ s, setStart l = some s ∧ r ≤ s := by
  have h := setStart_ge_member l i hi
  rw [hr] at h
  simp only [Option.getD_some] at h
  cases hs : setStart l with
  | none => rw [hs] at h; simp only [Option.getD_none] at h; omega
  | some s => rw [hs] at h; exact ⟨s, rfl, h⟩

/-- `regroup`: when a regrouped set is handed to the publisher as `sweep` does
    (`StartingFeeRate: set.StartingFeeRate()`), the rate the new fee function starts with is at
    least the rate `r` already offered for ANY member — provided `r` is not above the new
    ceiling. No hypothesis on the float primitive; holds for every conf target. -/
theorem regroup_first_rate {M : MulDiv} (l : List PInp) (i : PInp) (hi : i ∈ l) (r : Int)
    (hr : i.start = some r) (hpos : 0 < r) {maxFeeRate relay : Int} {ct : Nat} {est : Option Int}
    {f : FeeFn} (hceil : r ≤ maxFeeRate)
    (hnew : newLinear M maxFeeRate ct (setStart l) est relay = .ok f) : r ≤ f.cur := by
  obtain ⟨s, hs, hrs⟩ := setStart_some_of_member l i hi r hr hpos
  obtain ⟨_, hcur, _, hcase⟩ := newLinear_spec hnew
  rcases hcase with ⟨_, hst, _⟩ | ⟨_, _, _, hso⟩
  · rw [hcur, hst]; exact hceil
  · rcases hso with hso | ⟨hso, _⟩
    · rw [hs] at hso
      simp only [Option.some.injEq] at hso
      rw [hcur, ← hso]; exact hrs
    · rw [hs] at hso; cases hso

/-- `_partial` (needs `Sound`, i.e. `start ≤ ceiling`): every transaction of the initial broadcast
    of the regrouped set is built at a rate not below the rate already offered for any member. -/
theorem regroup_published_rates_partial (M : MulDiv) (r : Req) (l : List PInp) (i : PInp) (hi : i ∈ l)
    (r0 : Int) (hr : i.start = some r0) (hpos : 0 < r0) (height : Int) (est : Option Int) (relay : Int)
    (mp : List Ans) (pub : Ans) (f0 : FeeFn) (hstart : r.start = setStart l)
    (hnew : newLinear M (maxFeeRateAllowed M r.budget r.wBudget r.maxFeeRate)
      (calcCurrentConfTarget height r.deadline) r.start est relay = .ok f0)
    (hs : Sound M f0) (hceil : r0 ≤ maxFeeRateAllowed M r.budget r.wBudget r.maxFeeRate) :
    ∀ e ∈ (initialBroadcast M r height est relay mp pub).emitted,
      ∃ h rate, r0 ≤ rate ∧ GoodTx r h rate e.2 := by
  intro e he
  obtain ⟨_, hall, _⟩ := initialBroadcast_rates_partial M r height est relay mp pub f0 hnew hs
  obtain ⟨h, rate, hin, hg⟩ := hall e he
  rw [hstart] at hnew
  have h1 := regroup_first_rate l i hi r0 hr hpos hceil hnew
  have h2 := (newLinear_spec hnew).2.1
  exact ⟨h, rate, by unfold RateIn at hin; omega, hg⟩

/-! ### the sets partition the sweepable inputs; budgets are conserved -/

theorem groupByKey_flatten_perm {κ : Type} [DecidableEq κ] (key : PInp → κ) :
    ∀ (fuel : Nat) (l : List PInp), l.length ≤ fuel → (groupByKey key fuel l).flatten.Perm l := by
  intro fuel
  induction fuel with
  | zero =>
    intro l h
    have : l = [] := List.eq_nil_of_length_eq_zero (by omega)
    subst this; simp [groupByKey]
  | succ n ih =>
    intro l h
    cases l with
    | nil => simp [groupByKey]
    | cons x rest =>
      simp only [groupByKey, List.flatten_cons, List.cons_append]
      apply List.Perm.cons
      have hlen : (rest.filter (fun y => !(key y == key x))).length ≤ n := by
        have := List.length_filter_le (fun y => !(key y == key x)) rest
        simp only [List.length_cons] at h; omega
      have h1 := ih _ hlen
      have h2 := List.filter_append_perm (fun y => key y == key x) rest
      exact (List.Perm.append_left _ h1).trans h2

theorem mergeInto_flatten_perm (m : Option Nat) (extra : List PInp) (gs : List (List PInp)) :
    (mergeInto m extra gs).flatten.Perm (gs.flatten ++ extra) := by
  induction gs with
  | nil => simp [mergeInto]
  | cons g rest ih =>
    simp only [mergeInto]
    split
    · simp only [List.flatten_cons, List.append_assoc]
      exact List.Perm.append_left g List.perm_append_comm
    · simp only [List.flatten_cons, List.append_assoc]
      exact List.Perm.append_left g ih

theorem lockGroups_flatten_perm (l : List PInp) : (lockGroups l).flatten.Perm l := by
  unfold lockGroups
  simp only []
  refine (mergeInto_flatten_perm _ _ _).trans ?_
  have h1 := groupByKey_flatten_perm (·.lt) (l.filter (·.lt.isSome)).length (l.filter (·.lt.isSome))
    (Nat.le_refl _)
  exact (List.Perm.append_right _ h1).trans (List.filter_append_perm (·.lt.isSome) l)

theorem chunks_flatten (n : Nat) (hn : 0 < n) : ∀ (fuel : Nat) (l : List PInp), l.length < fuel →
    (chunks n fuel l).flatten = l := by
  intro fuel
  induction fuel with
  | zero => intro l h; omega
  | succ k ih =>
    intro l h
    unfold chunks
    split
    · rename_i he; simp [List.isEmpty_iff.mp he]
    · split
      · rename_i hgt
        have hl : (l.drop n).length < k := by simp only [List.length_drop]; omega
        simp only [List.flatten_cons, ih _ hl, List.take_append_drop]
      · simp

theorem flatten_flatMap_perm {α β : Type} (gs : List α) (F : α → List (List β)) (G : α → List β)
    (h : ∀ g ∈ gs, (F g).flatten.Perm (G g)) : (gs.flatMap F).flatten.Perm (gs.flatMap G) := by
  induction gs with
  | nil => simp
  | cons g rest ih =>
    simp only [List.flatMap_cons, List.flatten_append]
    exact (h g (List.mem_cons_self)).append (ih (fun g' hg' => h g' (List.mem_cons_of_mem _ hg')))

theorem flatMap_perm_pointwise {α β : Type} (gs : List α) (A B : α → List β)
    (h : ∀ g ∈ gs, (A g).Perm (B g)) : (gs.flatMap A).Perm (gs.flatMap B) := by
  induction gs with
  | nil => simp
  | cons g rest ih =>
    simp only [List.flatMap_cons]
    exact (h g (List.mem_cons_self)).append (ih (fun g' hg' => h g' (List.mem_cons_of_mem _ hg')))

/-- the sets made from one deadline cluster contain exactly its inputs. -/
theorem cluster_sets_perm (maxInputs : Nat) (d : Int) (g : List PInp) :
    (((lockGroups (sortInputs g)).flatMap fun lg =>
      (chunks (max maxInputs 1) (lg.length + 1) lg).map fun c => (⟨d, c⟩ : InSet)).flatMap (·.inputs)).Perm g := by
  rw [List.flatMap_assoc]
  have hpt : ∀ lg ∈ lockGroups (sortInputs g),
      (((chunks (max maxInputs 1) (lg.length + 1) lg).map fun c => (⟨d, c⟩ : InSet)).flatMap (·.inputs)).Perm
        ((fun x : List PInp => x) lg) := by
    intro lg _
    have e : (((chunks (max maxInputs 1) (lg.length + 1) lg).map fun c => (⟨d, c⟩ : InSet)).flatMap (·.inputs))
        = (chunks (max maxInputs 1) (lg.length + 1) lg).flatten := by
      rw [List.flatMap_map]; exact List.flatMap_id'
    rw [e, chunks_flatten _ (by omega) _ _ (Nat.lt_succ_self _)]
  refine (flatMap_perm_pointwise _ _ _ hpt).trans ?_
  rw [List.flatMap_id']
  exact (lockGroups_flatten_perm _).trans (List.mergeSort_perm _ _)

/-- The input sets produced by `ClusterInputs` contain exactly the inputs that pass
    `filterInputs`, each once: nothing the sweeper can pay for is dropped or duplicated by the
    grouping by deadline, the sorting, the split on locktimes or the split on `maxInputs`. -/
theorem clusterInputs_partition (relay : Int) (maxInputs : Nat) (l : List PInp) :
    ((clusterInputs relay maxInputs l).flatMap (·.inputs)).Perm (filterInputs relay l) := by
  unfold clusterInputs
  simp only []
  have hgroups := groupByKey_flatten_perm (·.deadline) (filterInputs relay l).length (filterInputs relay l)
    (Nat.le_refl _)
  refine List.Perm.trans ?_ hgroups
  rw [List.flatMap_assoc, ← List.flatMap_id']
  exact flatMap_perm_pointwise _ _ _ (fun g _ => cluster_sets_perm maxInputs _ g)

theorem sumBudget_perm {a b : List PInp} (h : a.Perm b) : setBudget a = setBudget b := by
  have key : ∀ l : List PInp, setBudget l = (l.map (·.budget)).sum := by
    intro l
    unfold setBudget
    induction l with
    | nil => rfl
    | cons x xs ih =>
      simp only [List.map_cons, List.foldl_cons, List.sum_cons]
      rw [foldl_add_shift, ih]; omega
  rw [key, key]
  exact (h.map _).sum_eq

theorem setBudget_append (a b : List PInp) : setBudget (a ++ b) = setBudget a + setBudget b := by
  unfold setBudget
  rw [List.map_append, List.foldl_append, foldl_add_shift]

/-- Σ budget conservation: the budgets of the input sets (`BudgetInputSet.Budget()` = sum of the
    members' budgets) add up to the total budget of the sweepable inputs. -/
theorem clusterInputs_budget_conservation (relay : Int) (maxInputs : Nat) (l : List PInp) :
    ((clusterInputs relay maxInputs l).map (fun st => setBudget st.inputs)).foldl (· + ·) 0
      = setBudget (filterInputs relay l) := by
  rw [← sumBudget_perm (clusterInputs_partition relay maxInputs l)]
  generalize clusterInputs relay maxInputs l = sets
  induction sets with
  | nil => rfl
  | cons st rest ih =>
    simp only [List.map_cons, List.foldl_cons, List.flatMap_cons]
    rw [foldl_add_shift, ih, setBudget_append]; omega

/-! ### non-vacuity / witness -/

/-- two inputs already offered at 5000 and 2000 sat/kw, the lower one sorted later (lower budget):
    the regrouped set starts at 5000 (the seeded bug "last instead of max" would give 2000). -/
example : setStart [⟨0, 9000, 500, some 5000, false, none, 600, 100000, none, 0⟩,
                    ⟨1, 4000, 500, some 2000, false, none, 600, 100000, none, 0⟩] = some 5000 := by decide

/-- the hypotheses of `regroup_first_rate` are satisfiable: conf target 10, ceiling 8000. -/
example : ∃ f, newLinear goMulF64 8000 10
    (setStart [⟨0, 9000, 500, some 5000, false, none, 600, 100000, none, 0⟩,
               ⟨1, 4000, 500, some 2000, false, none, 600, 100000, none, 0⟩]) none 253 = .ok f ∧ f.cur = 5000 :=
  ⟨⟨5000, 8000, 5000, 9, 0, 333333⟩, by decide, rfl⟩

end LndModel.C18
