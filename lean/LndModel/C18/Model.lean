/-
C18 — model of lnd's sweep fee logic:

* `sweep/fee_function.go`  (`LinearFeeFunction`: `NewLinearFeeFunction`,
  `feeRateAtPosition`, `increaseFeeRate`, `Increment`, `IncreaseFeeRate`,
  `estimateFeeRate`), `sweep/walletsweep.go` (`FeeEstimateInfo.Estimate`),
* `lnwallet/chainfee/rates.go` (`NewSatPerKWeight`, `FeeForWeight`),
  `btcutil.Amount.MulF64` (binary64 arithmetic, modelled EXACTLY below),
* `sweep/fee_bumper.go` (`MaxFeeRateAllowed`, `calcCurrentConfTarget`,
  `prepareSweepTx`, `createSweepTx` input/output order, `createAndCheckTx`,
  `createRBFCompliantTx`, `handleInitialBroadcast`/`handleInitialTxError`,
  `handleFeeBumpTx`/`createAndPublishTx`/`handleReplacementTxError`,
  `calculateRetryFeeRate`, `broadcast`).

Hand-written; tied to the code on every run by drv_c18 which replays the
harness trace (harness/overlay/sweep/zz_c18_verif_test.go) on these
definitions and compares every answer.

* `sweep/aggregator.go` (`ClusterInputs`, `filterInputs`, `isDustOutput`), `sweep/tx_input_set.go`
  (`Budget`, `StartingFeeRate`, `NeedWalletInput`, `AddWalletInputs`), `lnwallet.DustLimitForSize`,
  and the `BumpRequest` `UtxoSweeper.sweep` builds from a set (end of this file).

Fixed-width arithmetic: the fee function, `FeeForWeight` and `calcCurrentConfTarget` wrap exactly
as the Go code does (`wrap64`, `wrap32`, `u32Mod`); `LndModel/C18/GenRefine.lean` proves these
definitions equal to the ones regenerated from the Go source (`LndModel.Gen.C18`) for all inputs.

Not modelled (taken from the implementation as parameters): the transaction
weight (`getWeightEstimate`), witness generation, spend detection
(`getSpentInputs` is taken to report "nothing spent").

The fee function is generic in the float primitive
`M a n d = Amount(a).MulF64(float64(n) / float64(d))` so that the theorems can
be stated for any primitive with the needed order properties; `goMulF64` is
the exact binary64 instance used by the driver (validated bit-for-bit).
-/
namespace LndModel.C18

/-! ## Exact binary64 round-to-nearest-even on non-negative dyadics

Only finite, non-negative values occur; every value that occurs in the code
paths modelled here lies well inside the normal range of binary64
(2^-1022 … 2^1023), so the exponent is left unbounded and only the 53-bit
significand rounding is modelled. -/

/-- the non-negative dyadic rational `m * 2^e`. -/
structure Dy where
  m : Nat
  e : Int
deriving Repr, DecidableEq

/-- numerator of `n/d / 2^e` (as a fraction `scNum/scDen`). -/
def scNum (n : Nat) (e : Int) : Nat := if e < 0 then n * 2 ^ (-e).toNat else n
/-- denominator of `n/d / 2^e`. -/
def scDen (d : Nat) (e : Int) : Nat := if e < 0 then d else d * 2 ^ e.toNat

/-- exponent `e` with `2^52 ≤ ⌊n/d / 2^e⌋ < 2^53` (for `n, d > 0`). -/
def expOf (n d : Nat) : Int :=
  let e0 : Int := (n.log2 : Int) - (d.log2 : Int) - 53
  if scNum n e0 / scDen d e0 < 2 ^ 53 then e0 else e0 + 1

/-- round half to even of the fraction `N / D` to a natural number. -/
def rhe (N D : Nat) : Nat :=
  let q := N / D
  let r := N % D
  if 2 * r > D then q + 1
  else if 2 * r = D then (if q % 2 = 0 then q else q + 1)
  else q

/-- `n / d` rounded to 53 significant bits, ties to even.  (`d = 0` would be
    ±Inf/NaN in Go; it never occurs in the modelled paths and is totalised to 0.) -/
def rne (n d : Nat) : Dy :=
  if n = 0 ∨ d = 0 then ⟨0, 0⟩
  else
    let e := expOf n d
    ⟨rhe (scNum n e) (scDen d e), e⟩

/-- `float64(a)` for a non-negative integer `a` (uint32 / uint64 / |int64|). -/
def f64OfNat (a : Nat) : Dy := rne a 1

/-- `x * y` in binary64. -/
def f64Mul (x y : Dy) : Dy :=
  let r := rne (x.m * y.m) 1
  ⟨r.m, r.e + x.e + y.e⟩

/-- `x / y` in binary64 (`y ≠ 0`). -/
def f64Div (x y : Dy) : Dy :=
  let r := rne x.m y.m
  ⟨r.m, r.e + x.e - y.e⟩

/-- `x + 0.5` in binary64. -/
def f64AddHalf (x : Dy) : Dy :=
  let e' : Int := if x.e < -1 then x.e else -1
  let N := x.m * 2 ^ (x.e - e').toNat + 2 ^ (-1 - e').toNat
  let r := rne N 1
  ⟨r.m, r.e + e'⟩

/-- truncation of a non-negative float to an integer. -/
def f64Trunc (x : Dy) : Nat :=
  if x.e < 0 then x.m / 2 ^ (-x.e).toNat else x.m * 2 ^ x.e.toNat

/-- magnitude of `Amount(a).MulF64(float64(n) / float64(d))` for `a ≥ 0`:
    `int64(float64(a) * (float64(n)/float64(d)) + 0.5)` before the int64 range check. -/
def mulF64Mag (a n d : Nat) : Nat :=
  f64Trunc (f64AddHalf (f64Mul (f64OfNat a) (f64Div (f64OfNat n) (f64OfNat d))))

/-- float64 → int64 conversion of an integral value; out of range gives
    `0x8000000000000000` (amd64 `CVTTSD2SQ`). -/
def toInt64 (x : Int) : Int :=
  if -(2 : Int) ^ 63 ≤ x ∧ x < (2 : Int) ^ 63 then x else -(2 : Int) ^ 63

/-- `int64(Amount(a).MulF64(float64(n) / float64(d)))`.  `round` in btcutil is
    symmetric (`f < 0 ? f - 0.5 : f + 0.5`, truncation toward zero). -/
def goMulF64 (a : Int) (n d : Nat) : Int :=
  if a < 0 then toInt64 (-(mulF64Mag a.natAbs n d : Int))
  else toInt64 (mulF64Mag a.natAbs n d)

/-- the float primitive the fee arithmetic is generic in. -/
abbrev MulDiv := Int → Nat → Nat → Int

/-! ## Go fixed-width integers

The code computes rates, fees and amounts in `int64`, heights in `int32`, conf targets, widths
and positions in `uint32`.  The model reproduces the wrap-around of every such operation of the
fee function, of `FeeForWeight` and of `calcCurrentConfTarget` (these are the definitions the
regenerated tie `LndModel.Gen.C18` / `C18/GenRefine.lean` proves equal to the code's, for ALL
inputs).  Same definitions as `LndModel.Gen.GoInt`. -/

/-- two's complement wrap of an `int64` result. -/
def wrap64 (x : Int) : Int := (x + 9223372036854775808) % 18446744073709551616 - 9223372036854775808
/-- two's complement wrap of an `int32` result. -/
def wrap32 (x : Int) : Int := (x + 2147483648) % 4294967296 - 2147483648
/-- `2^32`: `uint32` results are taken modulo this. -/
def u32Mod : Nat := 4294967296

/-- range of an `int64`. -/
def InI64 (x : Int) : Prop := -9223372036854775808 ≤ x ∧ x < 9223372036854775808

theorem wrap64_of_isI64 {x : Int} (h : InI64 x) : wrap64 x = x := by
  simp only [InI64] at h; simp only [wrap64]; omega

theorem wrap64_isI64 (x : Int) : InI64 (wrap64 x) := by
  simp only [InI64, wrap64]; omega

/-! ## chainfee rates -/

/-- `chainfee.NewSatPerKWeight(fee, wu) = fee.MulF64(1000 / float64(wu))`. -/
def newSatPerKWeight (M : MulDiv) (fee : Int) (wu : Nat) : Int := M fee 1000 wu

/-- `SatPerKWeight.FeeForWeight(wu) = btcutil.Amount(s) * btcutil.Amount(wu) / 1000`: the
    `uint64` weight is converted to `int64`, the product is an `int64` product (wraps), the
    division truncates towards zero. -/
def feeForWeight (rate : Int) (wu : Nat) : Int := Int.tdiv (wrap64 (rate * wrap64 (wu : Int))) 1000

/-- `BumpRequest.MaxFeeRateAllowed` given the estimated weight `wu`. -/
def maxFeeRateAllowed (M : MulDiv) (budget : Int) (wu : Nat) (maxFeeRate : Int) : Int :=
  let r := newSatPerKWeight M budget wu
  if r > maxFeeRate then maxFeeRate else r

/-- `calcCurrentConfTarget(currentHeight, deadline)`: `deadline - currentHeight` is an `int32`
    subtraction (wraps); a negative delta gives conf target 0, otherwise `uint32(delta)`. -/
def calcCurrentConfTarget (height deadline : Int) : Nat :=
  let d := wrap32 (deadline - height)
  if d < 0 then 0 else d.toNat

/-! ## LinearFeeFunction -/

inductive Err
  | maxPosition | zeroDelta | estimator | tooLow | noPreference
  | budget | inputs | noOutput | immature | conflict | missing
  | insuff | minRelay | mempoolMin | mempoolFee | other
deriving Repr, DecidableEq

def Err.name : Err → String
  | .maxPosition => "maxpos" | .zeroDelta => "zerodelta" | .estimator => "est"
  | .tooLow => "toolow" | .noPreference => "nopref" | .budget => "budget"
  | .inputs => "inputs" | .noOutput => "nooutput" | .immature => "immature"
  | .conflict => "conflict" | .missing => "missing" | .insuff => "insuff"
  | .minRelay => "minrelay" | .mempoolMin => "mempoolmin" | .mempoolFee => "mempoolfee"
  | .other => "other"

/-- `chainfee.MaxBlockTarget`. -/
def maxBlockTarget : Nat := 1008

structure FeeFn where
  start : Int
  end_ : Int
  cur : Int
  width : Nat
  pos : Nat
  /-- `deltaFeeRate` in msat/kw, read back as a signed int64. -/
  delta : Int
deriving Repr, DecidableEq

/-- `FeeEstimateInfo{ConfTarget: ct}.Estimate(estimator, maxFeeRate)`; `est = none`
    is an estimator error. -/
def estimate (ct : Nat) (est : Option Int) (relay maxFeeRate : Int) : Except Err Int :=
  if ct = 0 then .error .noPreference
  else match est with
    | none => .error .estimator
    | some r =>
      if r < relay then .error .tooLow
      else if maxFeeRate ≠ 0 ∧ r > maxFeeRate then .ok maxFeeRate
      else .ok r

/-- `LinearFeeFunction.estimateFeeRate(confTarget)`. -/
def estimateFeeRate (ct : Nat) (est : Option Int) (relay endRate : Int) : Except Err Int :=
  if ct ≥ maxBlockTarget then .ok relay else estimate ct est relay endRate

/-- `NewLinearFeeFunction(maxFeeRate, confTarget, estimator, startingFeeRate)`. -/
def newLinear (M : MulDiv) (maxFeeRate : Int) (ct : Nat) (startOpt : Option Int)
    (est : Option Int) (relay : Int) : Except Err FeeFn :=
  if ct ≤ 1 then .ok ⟨maxFeeRate, maxFeeRate, maxFeeRate, 0, 0, 0⟩
  else
    let width := ct - 1
    let startR : Except Err Int := match startOpt with
      | some s => .ok s
      | none => estimateFeeRate ct est relay maxFeeRate
    match startR with
    | .error e => .error e
    | .ok start =>
      let delta := M (wrap64 (maxFeeRate - start)) 1000 width
      if delta = 0 ∧ width ≠ 1 then .error .zeroDelta
      else .ok ⟨start, maxFeeRate, start, width, 0, delta⟩

/-- `feeRateAtPosition(p)`; `startingFeeRate + feeRateDelta` is an `int64` addition (wraps). -/
def FeeFn.rateAt (M : MulDiv) (f : FeeFn) (p : Nat) : Int :=
  if p ≥ f.width then f.end_
  else
    let r := wrap64 (f.start + M f.delta p 1000)
    if r > f.end_ then f.end_ else r

/-- `increaseFeeRate(position)`. -/
def FeeFn.increaseTo (M : MulDiv) (f : FeeFn) (p : Nat) : Except Err (FeeFn × Bool) :=
  if f.pos ≥ f.width then .error .maxPosition
  else
    let r := f.rateAt M p
    .ok ({ f with pos := p, cur := r }, decide (r > f.cur))

/-- `Increment()` = `increaseFeeRate(l.position + 1)` (a `uint32` addition). -/
def FeeFn.increment (M : MulDiv) (f : FeeFn) : Except Err (FeeFn × Bool) :=
  f.increaseTo M ((f.pos + 1) % u32Mod)

/-- the new position computed by `IncreaseFeeRate(confTarget)`: `l.width + 1` is a `uint32`
    addition, so for `width = 2^32 - 1` it is 0 and no conf target is below it. -/
def FeeFn.newPos (f : FeeFn) (ct : Nat) : Nat :=
  let w1 := (f.width + 1) % u32Mod
  if ct < w1 then w1 - ct else 0

/-- `IncreaseFeeRate(confTarget)`. -/
def FeeFn.increaseFeeRate (M : MulDiv) (f : FeeFn) (ct : Nat) : Except Err (FeeFn × Bool) :=
  let np := f.newPos ct
  if np ≤ f.pos then .ok (f, false) else f.increaseTo M np

/-- operations a caller can apply to a fee function. -/
inductive Op
  | inc
  | ict (ct : Nat)
deriving Repr, DecidableEq

/-- state after an operation (errors leave the state unchanged, as in Go). -/
def FeeFn.step (M : MulDiv) (f : FeeFn) : Op → FeeFn
  | .inc => match f.increment M with | .ok (g, _) => g | .error _ => f
  | .ict ct => match f.increaseFeeRate M ct with | .ok (g, _) => g | .error _ => f

def FeeFn.run (M : MulDiv) (f : FeeFn) (ops : List Op) : FeeFn := ops.foldl (FeeFn.step M) f

/-! ## prepareSweepTx / createSweepTx -/

structure Inp where
  value : Int
  /-- `RequiredTxOut().Value` if the input commits to an output. -/
  req : Option Int
  /-- `RequiredLockTime()`. -/
  lt : Option Nat
deriving Repr, DecidableEq

inductive OutKind | required | extra | change
deriving Repr, DecidableEq

structure Tx where
  /-- indices into the request's input list, in transaction order. -/
  ins : List Nat
  outs : List (OutKind × Int)
  locktime : Int
  /-- fee claimed by the code (`sweepTxCtx.fee`). -/
  fee : Int
deriving Repr, DecidableEq

def sumValues (inputs : List Inp) : Int := (inputs.map (·.value)).foldl (· + ·) 0
def sumReq (inputs : List Inp) : Int := (inputs.map (fun i => i.req.getD 0)).foldl (· + ·) 0

/-- the locktime loop of `prepareSweepTx`: `.ok none` = no input commits to a locktime. -/
def locktimeLoop (height : Int) : List Inp → Option Nat → Except Err (Option Nat)
  | [], acc => .ok acc
  | i :: rest, acc =>
    match i.lt with
    | none => locktimeLoop height rest acc
    | some lt =>
      if (lt : Int) > height then .error .immature
      else match acc with
        | some l => if l ≠ lt then .error .conflict else locktimeLoop height rest (some lt)
        | none => locktimeLoop height rest (some lt)

structure Prep where
  fee : Int
  change : Option Int
  locktime : Option Nat
deriving Repr, DecidableEq

/-- `prepareSweepTx(inputs, changePkScript, feeRate, currentHeight, aux)`; `wu` is the
    estimated weight, `dust` the dust limit of the change script, `extra` the
    value of the aux sweeper's extra output. -/
def prepareSweepTx (inputs : List Inp) (rate : Int) (wu : Nat) (height : Int) (dust : Int)
    (extra : Option Int) : Except Err Prep :=
  let txFee := feeForWeight rate wu
  let requiredOutput := extra.getD 0 + sumReq inputs
  let totalInput := sumValues inputs
  match locktimeLoop height inputs none with
  | .error e => .error e
  | .ok lt =>
    if requiredOutput + txFee > totalInput then .error .inputs
    else
      let changeAmt := totalInput - requiredOutput - txFee
      if changeAmt < dust then
        if requiredOutput = 0 then .error .noOutput
        else .ok ⟨txFee + changeAmt, none, lt⟩
      else .ok ⟨txFee, some changeAmt, lt⟩

/-- indices of the inputs with / without a required output, in order. -/
def idxWhere (inputs : List Inp) (p : Inp → Bool) : List Nat :=
  (inputs.zipIdx.filter (fun x => p x.1)).map (·.2)

/-- `createSweepTx`: required-output inputs first (index aligned with their outputs),
    then the others; outputs: required, aux extra, change. -/
def buildTx (inputs : List Inp) (height : Int) (extra : Option Int) (p : Prep) : Tx :=
  { ins := idxWhere inputs (fun i => i.req.isSome) ++ idxWhere inputs (fun i => i.req.isNone)
    outs := (inputs.filterMap (fun i => i.req.map (fun v => (OutKind.required, v))))
            ++ (match extra with | some v => [(OutKind.extra, v)] | none => [])
            ++ (match p.change with | some v => [(OutKind.change, v)] | none => [])
    locktime := match p.locktime with | some l => (l : Int) | none => height
    fee := p.fee }

/-! ## TxPublisher -/

/-- answers of `CheckMempoolAcceptance` / `PublishTransaction`. -/
inductive Ans
  | ok | insuff | minRelay | mempoolMin | mempoolFee | missing | unimpl | backendVer | other
deriving Repr, DecidableEq

structure Req where
  inputs : List Inp
  budget : Int
  maxFeeRate : Int
  deadline : Int
  start : Option Int
  /-- weight used for the budget rate (`calcSweepTxWeight`). -/
  wBudget : Nat
  /-- weight used for the fee (`prepareSweepTx`'s estimator). -/
  wTx : Nat
  dust : Int
  extra : Option Int
deriving Repr

/-- result of `createAndCheckTx`; `.missing` also carries the tx (the record is updated). -/
inductive Chk
  | ok (tx : Tx)
  | missing (tx : Tx)
  | err (e : Err)
deriving Repr, DecidableEq

/-- `createAndCheckTx` for fee rate `rate`; `a` is the mempool answer consumed
    if the call gets as far as `CheckMempoolAcceptance`.  Second component: the
    tx handed to `CheckMempoolAcceptance` (`none` if the call failed before). -/
def createAndCheckTx (r : Req) (rate : Int) (height : Int) (a : Ans) : Chk × Option Tx :=
  match prepareSweepTx r.inputs rate r.wTx height r.dust r.extra with
  | .error e => (.err e, none)
  | .ok p =>
    if p.fee > r.budget then (.err .budget, none)
    else
      let tx := buildTx r.inputs height r.extra p
      match a with
      | .ok | .backendVer | .unimpl => (.ok tx, some tx)
      | .missing => (.missing tx, some tx)
      | .insuff => (.err .insuff, some tx)
      | .minRelay => (.err .minRelay, some tx)
      | .mempoolMin => (.err .mempoolMin, some tx)
      | .mempoolFee => (.err .mempoolFee, some tx)
      | .other => (.err .other, some tx)

def nextAns : List Ans → Ans × List Ans
  | [] => (.ok, [])
  | a :: rest => (a, rest)

/-- the inner `for !increased` loop of `createRBFCompliantTx` (the fee function is
    mutated in place, so the state reached is returned together with the error). -/
def incUntilIncreased (M : MulDiv) : Nat → FeeFn → FeeFn × Option Err
  | 0, f => (f, none)
  | fuel + 1, f =>
    match f.increment M with
    | .error e => (f, some e)
    | .ok (g, inc) => if inc then (g, none) else incUntilIncreased M fuel g

/-- every tx handed to the backend: `(published?, tx)`. -/
abbrev Emitted := List (Bool × Tx)

def emitChecked (sent : Option Tx) : Emitted :=
  match sent with | some tx => [(false, tx)] | none => []

structure RbfOut where
  ff : FeeFn
  res : Chk
  mp : List Ans
  emitted : Emitted

/-- `createRBFCompliantTx`. -/
def createRBFCompliantTx (M : MulDiv) (r : Req) (height : Int) :
    Nat → FeeFn → List Ans → Emitted → RbfOut
  | 0, f, mp, em => ⟨f, .err .other, mp, em⟩
  | fuel + 1, f, mp, em =>
    let (a, rest) := nextAns mp
    let (c, sent) := createAndCheckTx r f.cur height a
    let mp' := if sent.isSome then rest else mp
    let em' := em ++ emitChecked sent
    match c with
    | .ok _ => ⟨f, c, mp', em'⟩
    | .missing _ => ⟨f, c, mp', em'⟩
    | .err e =>
      if e = .mempoolFee ∨ e = .minRelay ∨ e = .mempoolMin ∨ e = .insuff then
        match incUntilIncreased M (f.width + 2) f with
        | (g, some e') => ⟨g, .err e', mp', em'⟩
        | (g, none) => createRBFCompliantTx M r height fuel g mp' em'
      else ⟨f, c, mp', em'⟩

inductive Event | none | published | failed | replaced | fatal
deriving Repr, DecidableEq

def Event.name : Event → String
  | .none => "none" | .published => "Published" | .failed => "Failed"
  | .replaced => "Replaced" | .fatal => "Fatal"

structure Rec where
  ff : Option FeeFn := none
  tx : Option Tx := none
  fee : Int := 0
  live : Bool := true
deriving Repr

structure Result where
  event : Event
  err : Option Err
  rate : Int
  fee : Int
deriving Repr

def ansErr : Ans → Option Err
  | .ok => none | .insuff => some .insuff | .minRelay => some .minRelay
  | .mempoolMin => some .mempoolMin | .mempoolFee => some .mempoolFee
  | .missing => some .other | .unimpl => some .other | .backendVer => some .other
  | .other => some .other

/-- `calculateRetryFeeRate` when the record has a fee function: `Increment`, ignore the
    error, return `FeeRate()`. -/
def retryRate (M : MulDiv) (f : FeeFn) : FeeFn :=
  match f.increment M with | .ok (g, _) => g | .error _ => f

/-- `broadcast(record)` + `handleResult`. -/
def broadcast (f : FeeFn) (tx : Tx) (pub : Ans) (okEvent : Event) : Result :=
  match ansErr pub with
  | none => ⟨okEvent, none, f.cur, tx.fee⟩
  | some e => ⟨.failed, some e, f.cur, tx.fee⟩

structure StepOut where
  rcd : Rec
  res : Result
  emitted : Emitted

/-- `handleInitialBroadcast(record)` at `height` with estimator answer `est`,
    scripted mempool answers `mp` and publish answer `pub`. -/
def initialBroadcast (M : MulDiv) (r : Req) (height : Int) (est : Option Int) (relay : Int)
    (mp : List Ans) (pub : Ans) : StepOut :=
  let endRate := maxFeeRateAllowed M r.budget r.wBudget r.maxFeeRate
  let ct := calcCurrentConfTarget height r.deadline
  match newLinear M endRate ct r.start est relay with
  | .error e =>
    let ev := if e = .zeroDelta then Event.failed else Event.fatal
    ⟨{ live := false }, ⟨ev, some e, 0, 0⟩, []⟩
  | .ok f0 =>
    let o := createRBFCompliantTx M r height (f0.width + 8 + mp.length) f0 mp []
    match o.res with
    | .ok tx =>
      let res := broadcast o.ff tx pub .published
      ⟨{ ff := some o.ff, tx := some tx, fee := tx.fee, live := res.event != .failed }, res,
        o.emitted ++ [(true, tx)]⟩
    | .missing tx =>
      -- handleMissingInputs with no spend found: TxFatal, ErrInputMissing
      ⟨{ ff := some o.ff, tx := some tx, fee := tx.fee, live := false },
        ⟨.fatal, some .missing, 0, 0⟩, o.emitted⟩
    | .err e =>
      if e = .noOutput then
        ⟨{ ff := some o.ff, live := false }, ⟨.failed, some e, 0, 0⟩, o.emitted⟩
      else if e = .maxPosition ∨ e = .inputs ∨ e = .budget then
        let g := retryRate M o.ff
        ⟨{ ff := some g, live := false }, ⟨.failed, some e, g.cur, 0⟩, o.emitted⟩
      else
        ⟨{ ff := some o.ff, live := false }, ⟨.fatal, some e, 0, 0⟩, o.emitted⟩

/-- `handleFeeBumpTx(record, height)`. -/
def feeBump (M : MulDiv) (r : Req) (rc : Rec) (height : Int) (mp : List Ans) (pub : Ans) :
    StepOut :=
  let noRes : Result := ⟨.none, none, 0, 0⟩
  match rc.ff, rc.tx with
  | some f, some _ =>
    let ct := calcCurrentConfTarget height r.deadline
    match f.increaseFeeRate M ct with
    | .error _ => ⟨rc, noRes, []⟩
    | .ok (g, increased) =>
      let rc := { rc with ff := some g }
      if !increased then ⟨rc, noRes, []⟩
      else
        let (a, _) := nextAns mp
        let (c, sent) := createAndCheckTx r g.cur height a
        let em := emitChecked sent
        match c with
        | .ok tx =>
          let rc := { rc with tx := some tx, fee := tx.fee }
          let em : Emitted := em ++ [(true, tx)]
          (match ansErr pub with
          | some .insuff | some .mempoolFee => ⟨rc, noRes, em⟩
          | some e => ⟨{ rc with live := false }, ⟨.failed, some e, g.cur, tx.fee⟩, em⟩
          | none => ⟨rc, ⟨.replaced, none, g.cur, tx.fee⟩, em⟩)
        | .missing tx =>
          ⟨{ rc with tx := some tx, fee := tx.fee, live := false },
            ⟨.fatal, some .missing, 0, 0⟩, em⟩
        | .err e =>
          if e = .insuff ∨ e = .mempoolFee then ⟨rc, noRes, em⟩
          else
            let g' := retryRate M g
            ⟨{ rc with ff := some g', live := false }, ⟨.failed, some e, g'.cur, 0⟩, em⟩
  | _, _ => ⟨rc, noRes, []⟩

/-! ## BudgetAggregator / BudgetInputSet (one level above the publisher)

`sweep/aggregator.go` (`ClusterInputs`, `filterInputs`, `sortInputs`, `splitOnLocktime`,
`createInputSets`) and `sweep/tx_input_set.go` (`Budget`, `StartingFeeRate`).  The weight `wu`
of an input (`InputSize*4 + witness size`) and "its required output is dust" are parameters
taken from the implementation.  No aux sweeper, no exclusive groups. -/

/-- `lnwallet.DustLimitForSize(scriptSize)`: the dust threshold (at the 3000 sat/kvB dust relay
    fee) of the script template of that size: P2WPKH (22), P2WSH / P2TR (34), P2SH (23), P2PKH (25),
    anything else is priced as an unknown witness program.  The five constants are compared with
    the implementation's on every run (`FACT` line). -/
def dustLimitForSize (size : Nat) : Int :=
  if size = 22 then 294 else if size = 34 then 330 else if size = 23 then 540
  else if size = 25 then 546 else 354

/-- `isDustOutput(txOut)` of sweep/aggregator.go. -/
def isDustOutput (value : Int) (scriptSize : Nat) : Bool := decide (value < dustLimitForSize scriptSize)

/-- a pending input of the sweeper as the aggregator sees it. -/
structure PInp where
  idx : Nat
  budget : Int
  deadline : Int
  /-- `params.StartingFeeRate`: the rate already offered for this input (retry / user bump). -/
  start : Option Int
  immediate : Bool
  lt : Option Nat
  wu : Nat
  /-- `SignDesc().Output.Value`. -/
  value : Int
  /-- `RequiredTxOut().Value` and the length of its `PkScript`. -/
  req : Option Int
  reqSize : Nat
deriving Repr, DecidableEq

/-- "the input's required output is dust" (`filterInputs`). -/
def PInp.reqDust (i : PInp) : Bool :=
  match i.req with
  | some v => isDustOutput v i.reqSize
  | none => false

/-- `BudgetAggregator.filterInputs` for min relay fee `relay`. -/
def filterInputs (relay : Int) (l : List PInp) : List PInp :=
  l.filter fun i =>
    !(decide (i.budget < feeForWeight relay i.wu)) &&
    !(decide (i.budget < feeForWeight (i.start.getD 0) i.wu)) && !i.reqDust

/-- loop of `BudgetInputSet.StartingFeeRate`: `m` is `maxFeeRate`, `acc` is `startingFeeRate`. -/
def setStartLoop : List PInp → Int → Option Int → Option Int
  | [], _, acc => acc
  | i :: rest, m, acc =>
    let r := i.start.getD 0
    if r > m then setStartLoop rest r (some r) else setStartLoop rest m acc

/-- `BudgetInputSet.StartingFeeRate()`. -/
def setStart (l : List PInp) : Option Int := setStartLoop l 0 none

/-- `BudgetInputSet.Budget()` (no extra budget). -/
def setBudget (l : List PInp) : Int := (l.map (·.budget)).foldl (· + ·) 0

/-- the `less` function of `sortInputs`: forced inputs first, then higher budget first. -/
def sortBefore (a b : PInp) : Bool :=
  if a.immediate == b.immediate then decide (a.budget > b.budget) else a.immediate

/-- `sortInputs` (Go's `sort.Slice` is not stable: the model agrees with it when the keys are
    pairwise different, which the harness guarantees). -/
def sortInputs (l : List PInp) : List PInp := l.mergeSort (fun a b => !(sortBefore b a))

/-- group a list by a key, groups in order of first occurrence, members in list order (what
    appending to `map[key][]T` while iterating does, up to the order of the groups). -/
def groupByKey {κ : Type} [DecidableEq κ] (key : PInp → κ) : Nat → List PInp → List (List PInp)
  | 0, _ => []
  | _, [] => []
  | fuel + 1, x :: rest =>
    (x :: rest.filter (fun y => key y == key x)) ::
      groupByKey key fuel (rest.filter (fun y => !(key y == key x)))

/-- append `extra` to the first group whose head has locktime `m` (`[extra]` if there is none). -/
def mergeInto (m : Option Nat) (extra : List PInp) : List (List PInp) → List (List PInp)
  | [] => [extra]
  | g :: gs => if (g.head?.bind (·.lt)) == m then (g ++ extra) :: gs else g :: mergeInto m extra gs

/-- `splitOnLocktime`: one group per required locktime; inputs without locktime join the group
    of the LAST locktime input (in sorted order), or form the only group. -/
def lockGroups (l : List PInp) : List (List PInp) :=
  let withLt := l.filter (·.lt.isSome)
  let noLt := l.filter (fun i => !i.lt.isSome)
  mergeInto ((withLt.getLast?).bind (·.lt)) noLt (groupByKey (·.lt) withLt.length withLt)

/-- the split of `createInputSets`: sets of at most `n` inputs, in order. -/
def chunks (n : Nat) : Nat → List PInp → List (List PInp)
  | 0, _ => []
  | fuel + 1, l =>
    if l.isEmpty then []
    else if l.length > n then l.take n :: chunks n fuel (l.drop n)
    else [l]

structure InSet where
  deadline : Int
  inputs : List PInp
deriving Repr, DecidableEq

/-- `BudgetAggregator.ClusterInputs` (the order of the resulting sets is map-iteration order in
    Go, so it is only meaningful as a multiset). -/
def clusterInputs (relay : Int) (maxInputs : Nat) (l : List PInp) : List InSet :=
  let f := filterInputs relay l
  (groupByKey (·.deadline) f.length f).flatMap fun g =>
    (lockGroups (sortInputs g)).flatMap fun lg =>
      (chunks (max maxInputs 1) (lg.length + 1) lg).map fun c => ⟨(g.head?.map (·.deadline)).getD 0, c⟩

/-! ## wallet-input top-up (`BudgetInputSet.NeedWalletInput` / `AddWalletInputs`) and the request
`UtxoSweeper.sweep` builds from a set -/

/-- the loop of `NeedWalletInput`: `(budgetNeeded, budgetBorrowable)` starting from
    `(extraBudget, 0)`. -/
def needAmts (extra : Int) (l : List PInp) : Int × Int :=
  l.foldl (fun (acc : Int × Int) i =>
    if i.req.isSome then (acc.1 + i.budget, acc.2) else (acc.1, acc.2 + (i.value - i.budget))) (extra, 0)

/-- `BudgetInputSet.NeedWalletInput()`. -/
def needWalletInput (extra : Int) (l : List PInp) : Bool :=
  decide ((needAmts extra l).2 < (needAmts extra l).1)

/-- a confirmed wallet UTXO (`wu`: weight of the input it becomes, a parameter). -/
structure Utxo where
  value : Int
  wu : Nat
deriving Repr, DecidableEq

/-- `addWalletInput`: budget 0, the set's deadline, no starting rate, no required output. -/
def walletPInp (deadline : Int) (idx : Nat) (u : Utxo) : PInp :=
  { idx := idx, budget := 0, deadline := deadline, start := none, immediate := false, lt := none,
    wu := u.wu, value := u.value, req := none, reqSize := 0 }

/-- the loop of `AddWalletInputs` over the (sorted) UTXOs: add one at a time until
    `NeedWalletInput()` is false; the flag says whether that happened. -/
def addWalletLoop (extra deadline : Int) : List Utxo → List PInp → List PInp × Bool
  | [], l => (l, false)
  | u :: rest, l =>
    let l' := l ++ [walletPInp deadline l.length u]
    if needWalletInput extra l' then addWalletLoop extra deadline rest l' else (l', true)

/-- `BudgetInputSet.AddWalletInputs(wallet)`: smallest UTXOs first (`sort.Slice` is not stable:
    the model agrees with it for pairwise different values); if the UTXOs run out the sweep goes
    ahead anyway as long as one input can pay fees. -/
def addWalletInputs (extra deadline : Int) (utxos : List Utxo) (l : List PInp) : Except Err (List PInp) :=
  let sorted := utxos.mergeSort (fun a b => decide (a.value ≤ b.value))
  let r := addWalletLoop extra deadline sorted l
  if r.2 then .ok r.1
  else if r.1.any (fun i => i.req.isNone) then .ok r.1
  else .error .inputs

/-- what `sweepPendingInputs` does with a set: top it up only if it needs wallet inputs. -/
def topUp (extra : Int) (utxos : List Utxo) (s : InSet) : Except Err InSet :=
  if needWalletInput extra s.inputs then
    match addWalletInputs extra s.deadline utxos s.inputs with
    | .ok l => .ok { s with inputs := l }
    | .error e => .error e
  else .ok s

/-- the publisher's view of a pending input. -/
def PInp.toInp (i : PInp) : Inp := ⟨i.value, i.req, i.lt⟩

/-- the `BumpRequest` of `UtxoSweeper.sweep(set)`: `Inputs()`, `Budget()`, `DeadlineHeight()`,
    `StartingFeeRate()` of the set; weights, dust limit of the delivery script, `MaxFeeRate` and
    the aux output are parameters. -/
def reqOfSet (s : InSet) (extraBudget maxFeeRate : Int) (wBudget wTx : Nat) (dust : Int)
    (aux : Option Int) : Req :=
  { inputs := s.inputs.map PInp.toInp, budget := setBudget s.inputs + extraBudget,
    maxFeeRate := maxFeeRate, deadline := s.deadline, start := setStart s.inputs,
    wBudget := wBudget, wTx := wTx, dust := dust, extra := aux }

end LndModel.C18
