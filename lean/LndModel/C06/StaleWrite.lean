/-
C06 — round 7b: secondary writers through a (possibly STALE) `OpenChannel` handle.

Besides the commitment path, `ChannelStateDB` has writers of ONE fact about a channel
(`MarkChannelRealScid`, `MarkChannelOpen`, `MarkChannelConfirmationHeight`,
`MarkChannelCloseConfirmationHeight`, `MarkChannelScidAliasNegotiated`, `putChanStatus` behind
MarkBorked / MarkDataLoss / Mark…Broadcasted / ApplyChanStatus, `ClearChannelStatus`,
`StoreChannelShutdownInfo`).  They are called by other subsystems (funding manager, chain
arbitrator, closer) through THEIR handle, which may have been loaded long before the link's handle
moved on.  The code re-reads the channel inside the write transaction, changes the one field on
that disk copy and writes the copy back: in terms of the release model this is `keyWrite`, which
puts back exactly the commitment heights / pending diff it has just read.  The alternative
`rewrite d rd rp` is `putOpenChannel(handle)` with a handle snapshot `(d, rd, rp)`: both
commitments and the revocation state are replaced by what that handle holds.

* `key_local_writers_are_invisible` / `release_with_key_local_writers`: for ALL operation lists
  (every failing write, crash, reconnect of `Release.Op`) interleaved ARBITRARILY with key-local
  writers, the run is the run of the commitment operations alone, so the release rule
  (`release_under_write_failures`) and the reestablish rule hold unchanged.
* `stale_rewrite_violates` (witness): one whole-channel rewrite through a handle loaded at height 0
  after a single revoke_and_ack leaves the released secret without a newer durable commitment.
Tie: operations `stalewrite` of stream `release` (12 writers through handles loaded earlier): the
driver replays them as `keyWrite` and compares the durable views re-read after every such write.
-/
import LndModel.C06.ReleaseProps

namespace LndModel.C06.Release

inductive WOp where
  | op (o : Op)
  /-- fetch the channel inside the transaction, change one field, write the copy back. -/
  | keyWrite
  /-- `putOpenChannel(handle)` with the handle's local / remote height and pending flag. -/
  | rewrite (d rd : Nat) (rp : Bool)
deriving Repr, DecidableEq

def wstep (n : Node) : WOp → Node
  | .op o => (step code n o).1
  | .keyWrite =>
    -- the copy read in the transaction is `(n.disk, n.rdisk, n.rpend)`; it is written back
    let d := n.disk; let rd := n.rdisk; let rp := n.rpend
    { n with disk := d, rdisk := rd, rpend := rp }
  | .rewrite d rd rp => { n with disk := d, rdisk := rd, rpend := rp }

def wrun (n : Node) : List WOp → Node
  | [] => n
  | w :: ws => wrun (wstep n w) ws

/-- the commitment operations of a mixed list -/
def strip : List WOp → List Op
  | [] => []
  | .op o :: ws => o :: strip ws
  | _ :: ws => strip ws

/-- no whole-channel rewriter in the list -/
def KeyLocal (ws : List WOp) : Prop := ∀ w ∈ ws, ∀ d rd rp, w ≠ .rewrite d rd rp

/-- **key_local_writers_are_invisible**: any interleaving of key-local writers with the commitment
    operations ends in the state of the commitment operations alone. -/
theorem key_local_writers_are_invisible (ws : List WOp) (h : KeyLocal ws) (n : Node) :
    wrun n ws = run code n (strip ws) := by
  induction ws generalizing n with
  | nil => rfl
  | cons w ws ih =>
    have h' : KeyLocal ws := fun w' hw' => h w' (List.mem_cons_of_mem _ hw')
    cases w with
    | op o => simp only [wrun, strip, run, wstep]; exact ih h' _
    | keyWrite => simp only [wrun, strip, wstep]; exact ih h' _
    | rewrite d rd rp => exact absurd rfl (h _ (List.mem_cons_self ..) d rd rp)

/-- **release_with_key_local_writers**: the release rule for all mixed runs. -/
theorem release_with_key_local_writers (ws : List WOp) (h : KeyLocal ws) :
    let n := wrun Node.init ws
    ∀ r ∈ n.out, r.ahead = false → r.secret < r.durAt ∧ r.durAt ≤ n.disk := by
  intro n
  have e : n = run code Node.init (strip ws) := key_local_writers_are_invisible ws h _
  rw [e]
  exact release_under_write_failures (strip ws)

/-- non-vacuity: a key-local writer between the commit_sig and the revoke, another one after. -/
example : KeyLocal [.op .recv, .keyWrite, .op (.revoke false), .keyWrite] ∧
    (wrun Node.init [.op .recv, .keyWrite, .op (.revoke false), .keyWrite]).out.length = 1 := by
  refine ⟨?_, by decide⟩
  intro w hw d rd rp
  simp only [List.mem_cons, List.mem_nil_iff, or_false] at hw
  rcases hw with rfl | rfl | rfl | rfl <;> simp

/-- **stale_rewrite_violates** (witness): commit_sig received, revoke_and_ack handed out (secret 0,
    height 1 durable), then ONE whole-channel rewrite through a handle loaded at height 0: the
    released secret has no newer durable commitment any more. -/
theorem stale_rewrite_violates :
    let n := wrun Node.init [.op .recv, .op (.revoke false), .rewrite 0 0 false]
    ∃ r ∈ n.out, r.ahead = false ∧ ¬ r.secret < n.disk := by
  decide

end LndModel.C06.Release
