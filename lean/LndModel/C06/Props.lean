/-
C06 — property theorems (see DESIGN.md §2 C06).  Helper lemmas live in Lemmas.lean.
-/
import LndModel.C06.Model

namespace LndModel.C06

variable {H : Type} [DecidableEq H]

/-- A store is well-formed when it has `numBuckets` slots and at most that many are active. -/
def Store.WF (s : Store H) : Prop := s.buckets.length = numBuckets ∧ s.lenBuckets ≤ numBuckets

theorem ctzFrom_le (i z fuel : Nat) : ctzFrom i z fuel ≤ z + fuel := by
  induction fuel generalizing z with
  | zero => simp [ctzFrom]
  | succ n ih =>
    unfold ctzFrom
    split
    · omega
    · have := ih (z + 1); omega

theorem ctz_le (i : Nat) : ctz i ≤ maxHeight := by
  have := ctzFrom_le i 0 maxHeight
  simpa [ctz] using this

/-- `store_bounded` (one step): an accepted insertion keeps the store within 49 values. -/
theorem addNextEntry_wf (flip : H → Nat → H) (s s' : Store H) (h : H)
    (hwf : s.WF) (hadd : s.addNextEntry flip h = .ok s') : s'.WF := by
  obtain ⟨hlen, hle⟩ := hwf
  have hc := ctz_le s.index
  simp only [maxHeight] at hc
  simp only [Store.addNextEntry] at hadd
  cases hcb : checkBuckets flip ⟨s.index, h⟩ s.buckets (ctz s.index) with
  | error e => simp [hcb] at hadd
  | ok u =>
    simp only [hcb] at hadd
    split at hadd
    · cases hadd
      refine ⟨by simp [hlen], ?_⟩
      simp only [numBuckets] at *
      split <;> omega
    · cases hadd

/-- `store_bounded`: after any sequence of accepted insertions into a fresh store,
    at most 49 values are held. -/
theorem store_bounded (flip : H → Nat → H) (zero : H) (hs : List H) (s : Store H)
    (hrun : hs.foldlM (fun st h => st.addNextEntry flip h) (Store.new zero) = .ok s) : s.WF := by
  have gen : ∀ (hs : List H) (s0 s : Store H), s0.WF →
      hs.foldlM (fun st h => st.addNextEntry flip h) s0 = .ok s → s.WF := by
    intro hs
    induction hs with
    | nil => intro s0 s h0 h; simp [List.foldlM, pure, Except.pure] at h; cases h; exact h0
    | cons x xs ih =>
      intro s0 s h0 h
      simp only [List.foldlM, bind, Except.bind] at h
      split at h
      · cases h
      · rename_i s1 h1
        exact ih s1 s (addNextEntry_wf flip s0 s1 x h0 h1) h
  exact gen hs _ s ⟨by simp [Store.new], by simp [Store.new, numBuckets]⟩ hrun

example : (Store.new (0 : Nat)).WF := ⟨by simp [Store.new], by simp [Store.new, numBuckets]⟩

end LndModel.C06
