/-
C06 — property theorems (see DESIGN.md §2 C06).  Helper lemmas live in Lemmas.lean.
-/
import LndModel.C06.Lemmas

namespace LndModel.C06

variable {H : Type} [DecidableEq H]

/-- A store is well-formed when it has `numBuckets` slots and at most that many are active. -/
def Store.WF (s : Store H) : Prop := s.buckets.length = numBuckets ∧ s.lenBuckets ≤ numBuckets

theorem ctzFrom_le (i z fuel : Nat) : ctzFrom i z fuel ≤ z + fuel := by
  induction fuel generalizing z with
  | zero => simp [ctzFrom]
  | succ n ih =>
    unfold ctzFrom
    split
    · omega
    · have := ih (z + 1); omega

theorem ctz_le (i : Nat) : ctz i ≤ maxHeight := by
  have := ctzFrom_le i 0 maxHeight
  simpa [ctz] using this

/-- `store_bounded` (one step): an accepted insertion keeps the store within 49 values. -/
theorem addNextEntry_wf (flip : H → Nat → H) (s s' : Store H) (h : H)
    (hwf : s.WF) (hadd : s.addNextEntry flip h = .ok s') : s'.WF := by
  obtain ⟨hlen, hle⟩ := hwf
  have hc := ctz_le s.index
  simp only [maxHeight] at hc
  simp only [Store.addNextEntry] at hadd
  cases hcb : checkBuckets flip ⟨s.index, h⟩ s.buckets (ctz s.index) with
  | error e => simp [hcb] at hadd
  | ok u =>
    simp only [hcb] at hadd
    split at hadd
    · cases hadd
      refine ⟨by simp [hlen], ?_⟩
      simp only [numBuckets] at *
      split <;> omega
    · cases hadd

/-- `store_bounded`: after any sequence of accepted insertions into a fresh store,
    at most 49 values are held. -/
theorem store_bounded (flip : H → Nat → H) (zero : H) (hs : List H) (s : Store H)
    (hrun : hs.foldlM (fun st h => st.addNextEntry flip h) (Store.new zero) = .ok s) : s.WF := by
  have gen : ∀ (hs : List H) (s0 s : Store H), s0.WF →
      hs.foldlM (fun st h => st.addNextEntry flip h) s0 = .ok s → s.WF := by
    intro hs
    induction hs with
    | nil => intro s0 s h0 h; simp [List.foldlM, pure, Except.pure] at h; cases h; exact h0
    | cons x xs ih =>
      intro s0 s h0 h
      simp only [List.foldlM, bind, Except.bind] at h
      split at h
      · cases h
      · rename_i s1 h1
        exact ih s1 s (addNextEntry_wf flip s0 s1 x h0 h1) h
  exact gen hs _ s ⟨by simp [Store.new], by simp [Store.new, numBuckets]⟩ hrun

example : (Store.new (0 : Nat)).WF := ⟨by simp [Store.new], by simp [Store.new, numBuckets]⟩

/-! ## 3. Serialisation round trip

`Store.WFBytes s` (Lemmas.lean): 49 slots, `lenBuckets ≤ 49`, `index < 2^64`, every active slot
has a 32-byte hash and `idx < 2^64`, every inactive slot is the Go zero value `⟨0, zeroHash⟩`. -/

/-- `encode_decode_roundtrip`: decoding the encoding of a well-formed store returns it. -/
theorem encode_decode_roundtrip (s : Store Bytes) (h : s.WFBytes) :
    Store.decode s.encode = .ok s :=
  decode_encode_wf s h

/-- whatever `decode` accepts (from real bytes) is well-formed … -/
theorem decode_wellformed (bs : Bytes) (s : Store Bytes) (hb : ∀ x ∈ bs, x < 256)
    (h : Store.decode bs = .ok s) : s.WFBytes :=
  decode_wf bs s hb h

/-- … hence re-encoding a decoded store and decoding again is the identity.
    (`hb` is needed because the model's `Bytes` are `List Nat`: with an element `≥ 256` the
    big-endian value does not fit 64 bits and `encode` truncates it.) -/
theorem decode_encode_roundtrip (bs : Bytes) (s : Store Bytes) (hb : ∀ x ∈ bs, x < 256)
    (h : Store.decode bs = .ok s) : Store.decode s.encode = .ok s :=
  decode_encode_wf s (decode_wf bs s hb h)

/-- size of the encoding: `1 + 40·lenBuckets + 8 ≤ 1969` bytes. -/
theorem encode_size (s : Store Bytes) (h : s.WFBytes) :
    s.encode.length = 1 + 40 * s.lenBuckets + 8 ∧ s.encode.length ≤ 1969 := by
  have h1 := encode_length_wf s h
  have h2 : s.lenBuckets ≤ 49 := h.2.1
  omega

/-- a fresh store is well-formed and insertion of 32-byte secrets keeps it so: every store
    reachable by accepted insertions of 32-byte values round-trips. -/
theorem reachable_roundtrip (flip : Bytes → Nat → Bytes) (hs : List Bytes) (s : Store Bytes)
    (h32 : ∀ h ∈ hs, h.length = 32)
    (hrun : hs.foldlM (fun st h => st.addNextEntry flip h) (Store.new zeroHash) = .ok s) :
    Store.decode s.encode = .ok s ∧ s.encode.length ≤ 1969 := by
  have gen : ∀ (hs : List Bytes) (s0 s : Store Bytes), s0.WFBytes → (∀ h ∈ hs, h.length = 32) →
      hs.foldlM (fun st h => st.addNextEntry flip h) s0 = .ok s → s.WFBytes := by
    intro hs
    induction hs with
    | nil => intro s0 s h0 _ h; simp [List.foldlM, pure, Except.pure] at h; cases h; exact h0
    | cons x xs ih =>
      intro s0 s h0 hl h
      simp only [List.foldlM, bind, Except.bind] at h
      split at h
      · cases h
      · rename_i s1 h1
        exact ih s1 s (addNextEntry_wfBytes flip s0 s1 x h0 (hl x (by simp)) h1)
          (fun y hy => hl y (by simp [hy])) h
  have hnew : (Store.new zeroHash).WFBytes := by
    refine ⟨by simp [Store.new], by simp [Store.new], by simp [Store.new, startIndex], ?_⟩
    intro i e hi
    simp only [Store.new, List.getElem?_replicate] at hi
    split at hi
    · cases hi; exact ⟨fun h => by simp [Store.new] at h, fun _ => rfl⟩
    · cases hi
  have hwf := gen hs _ s hnew h32 hrun
  exact ⟨decode_encode_wf s hwf, (encode_size s hwf).2⟩

example : (Store.new zeroHash).WFBytes ∧ (Store.new zeroHash).encode.length = 9 := by
  refine ⟨⟨by simp [Store.new], by simp [Store.new], by simp [Store.new, startIndex], ?_⟩, ?_⟩
  · intro i e hi
    simp only [Store.new, List.getElem?_replicate] at hi
    split at hi
    · cases hi; exact ⟨fun h => by simp [Store.new] at h, fun _ => rfl⟩
    · cases hi
  · simp [Store.encode, Store.new, beBytes]

/-- non-vacuity of `decode_encode_roundtrip`: a 9-byte input that decodes. -/
example : ∃ s, Store.decode [0, 0, 0, 255, 255, 255, 255, 255, 254] = .ok s ∧
    (∀ x ∈ [0, 0, 0, 255, 255, 255, 255, 255, 254], x < 256) :=
  ⟨_, rfl, by decide⟩

/-! ## 2. Acceptance check -/

/-- `reject_inconsistent`: `AddNextEntry` accepts `h` at index `s.index` iff the target bucket
    exists and every lower bucket `i < ctz s.index` holds exactly the element derived from
    `⟨s.index, h⟩` for that bucket's index; the resulting store is then `s.inserted h`
    (bucket `ctz s.index` overwritten, `lenBuckets` raised, index decremented mod 2^64). -/
theorem reject_inconsistent (flip : H → Nat → H) (s : Store H) (h : H) :
    (∃ s', s.addNextEntry flip h = .ok s') ↔
      (ctz s.index < s.buckets.length ∧
        ∀ i, i < ctz s.index →
          ∃ b, s.buckets[i]? = some b ∧ derive flip ⟨s.index, h⟩ b.idx = some b) := by
  constructor
  · rintro ⟨s', hs'⟩
    exact (accepts_of_addNextEntry flip s s' h hs').1
  · intro ha
    exact ⟨_, addNextEntry_of_accepts flip s h ha⟩

theorem addNextEntry_result (flip : H → Nat → H) (s s' : Store H) (h : H)
    (hadd : s.addNextEntry flip h = .ok s') :
    s' = { lenBuckets := if ctz s.index + 1 > s.lenBuckets then ctz s.index + 1 else s.lenBuckets,
           buckets := s.buckets.set (ctz s.index) ⟨s.index, h⟩,
           index := (s.index + 2 ^ 64 - 1) % 2 ^ 64 } :=
  (accepts_of_addNextEntry flip s s' h hadd).2

/-- Corollary: with a hash step that is injective at every bit position, an honest store that
    has received the producer's first `k` secrets and whose next index has at least one
    trailing zero rejects every value other than the producer's `k`-th secret. -/
theorem reject_wrong_secret (flip : H → Nat → H)
    (hinj : ∀ p, Function.Injective (fun h => flip h p)) (root zero : H) (k : Nat)
    (hk : k < 2 ^ 48) (hz : 1 ≤ ctz (startIndex - k)) (hs : List H) (s : Store H)
    (hhs : hs.map some = (List.range k).map (producerAt flip root))
    (hrun : hs.foldlM (fun st h => st.addNextEntry flip h) (Store.new zero) = .ok s)
    (h : H) (hne : some h ≠ producerAt flip root k) :
    s.addNextEntry flip h = .error .mismatch := by
  have hsec := secrets_unique flip root (Nat.le_of_lt hk) hhs
  subst hsec
  obtain ⟨hrun', hinv⟩ := honest_run flip root zero k (Nat.le_of_lt hk)
  rw [hrun'] at hrun
  cases hrun
  have hm : 2 ^ 48 - k = (startIndex - k) + 1 := by unfold startIndex; omega
  rw [hm] at hinv
  rw [producerAt_eq flip root hk] at hne
  exact inv_rejects hinj hinv hz (fun heq => hne (by rw [heq]))

/-- non-vacuity: an injective step, `k = 1` (next index `2^48 - 2` has one trailing zero). -/
example : (∀ p, Function.Injective (fun h : Nat => (fun h p => 2 * h + p) h p)) ∧
    1 ≤ ctz (startIndex - 1) ∧
    ∃ hs : List Nat, hs.map some = (List.range 1).map (producerAt (fun h p => 2 * h + p) 7) :=
  ⟨fun p a b hab => by simp only at hab; omega, by decide,
   ⟨secrets _ 7 1, secrets_spec _ 7 (by omega)⟩⟩

/-! ## 1. The store reproduces the producer -/

/-- `store_reproduces_producer`: for every `k ≤ 2^48`, feeding the producer's secrets
    `AtIndex 0 … AtIndex (k-1)` in order into a fresh store is accepted at every step (every
    prefix of the run ends in `.ok`), afterwards `LookUp v` returns exactly the producer's secret
    for every `v < k`, and fails for every `v ≥ k` (not yet received, or outside the 2^48 index
    space). Holds for every hash type, every step function `flip`, every root. -/
theorem store_reproduces_producer (flip : H → Nat → H) (root zero : H) (k : Nat)
    (hk : k ≤ 2 ^ 48) (hs : List H)
    (hhs : hs.map some = (List.range k).map (producerAt flip root)) :
    ∃ s, hs.foldlM (fun st h => st.addNextEntry flip h) (Store.new zero) = .ok s ∧
      (∀ j, j ≤ k → ∃ sj,
        (hs.take j).foldlM (fun st h => st.addNextEntry flip h) (Store.new zero) = .ok sj) ∧
      (∀ v, v < k → ∃ h, producerAt flip root v = some h ∧ s.lookUp flip v = some h) ∧
      (∀ v, k ≤ v → v < 2 ^ 64 → s.lookUp flip v = none) := by
  have hsec := secrets_unique flip root hk hhs
  subst hsec
  obtain ⟨hrun, hinv⟩ := honest_run flip root zero k hk
  refine ⟨_, hrun, ?_, ?_, ?_⟩
  · intro j hj
    rw [secrets_take flip root hj]
    exact ⟨_, (honest_run flip root zero j (by omega)).1⟩
  · intro v hv
    refine ⟨_, producerAt_eq flip root (by omega), ?_⟩
    exact lookUp_received hinv (by omega) (by unfold startIndex; omega)
  · intro v hv hv'
    by_cases h48 : v < 2 ^ 48
    · exact lookUp_unreceived hinv h48 (by unfold startIndex; omega)
    · exact lookUp_out_of_range hinv (by omega) hv'

omit [DecidableEq H] in
/-- the hypothesis of `store_reproduces_producer` is satisfiable for every `k ≤ 2^48`:
    the producer never fails inside the index space. -/
theorem producer_total (flip : H → Nat → H) (root : H) (k : Nat) (hk : k ≤ 2 ^ 48) :
    ∃ hs : List H, hs.length = k ∧ hs.map some = (List.range k).map (producerAt flip root) :=
  ⟨secrets flip root k, by simp [secrets], secrets_spec flip root hk⟩

/-- the whole chain: all `2^48` secrets can be inserted and every one is reproduced. -/
theorem store_reproduces_whole_chain (flip : H → Nat → H) (root zero : H) :
    ∃ (hs : List H) (s : Store H), hs.length = 2 ^ 48 ∧
      hs.foldlM (fun st h => st.addNextEntry flip h) (Store.new zero) = .ok s ∧
      ∀ v, v < 2 ^ 48 → ∃ h, producerAt flip root v = some h ∧ s.lookUp flip v = some h := by
  obtain ⟨hs, hlen, hhs⟩ := producer_total flip root (2 ^ 48) (Nat.le_refl _)
  obtain ⟨s, hrun, _, hlook, _⟩ :=
    store_reproduces_producer flip root zero (2 ^ 48) (Nat.le_refl _) hs hhs
  exact ⟨hs, s, hlen, hrun, hlook⟩

/-- non-vacuity with a concrete step function: 5 secrets, all reproduced, the 6th unknown. -/
example : ∃ hs : List Nat, hs.length = 5 ∧
    hs.map some = (List.range 5).map (producerAt (fun h p => 2 * h + p + 1) 7) :=
  producer_total _ 7 5 (by omega)

/-- concrete evaluation (kernel computation on the model itself): after 5 honest insertions
    secret 3 is reproduced and secret 5 is unknown. -/
example :
    let flip : Nat → Nat → Nat := fun h p => 2 * h + p + 1
    let s := honestStore flip 7 0 5
    (secrets flip 7 5).foldlM (fun st h => st.addNextEntry flip h) (Store.new 0) = .ok s ∧
    s.lookUp flip 3 = producerAt flip 7 3 ∧ producerAt flip 7 3 ≠ none ∧
    s.lookUp flip 5 = none := by
  intro flip s
  exact ⟨(honest_run flip 7 0 5 (by omega)).1, by decide, by decide, by decide⟩

/-- Observation (behaviour of the code, not a defect inside the 2^48 index space): once all
    2^48 secrets have been received the index has wrapped to 2^64-1, which is odd, so the
    store accepts ANY further value without a check. -/
theorem exhausted_store_accepts_any (flip : H → Nat → H) (root zero : H) (hs : List H)
    (s : Store H) (hhs : hs.map some = (List.range (2 ^ 48)).map (producerAt flip root))
    (hrun : hs.foldlM (fun st h => st.addNextEntry flip h) (Store.new zero) = .ok s) (h : H) :
    s.index = 2 ^ 64 - 1 ∧ ∃ s', s.addNextEntry flip h = .ok s' := by
  have key : ∀ k, k = 2 ^ 48 → ∀ s : Store H,
      (secrets flip root k).foldlM (fun st h => st.addNextEntry flip h) (Store.new zero) = .ok s →
      s.index = 2 ^ 64 - 1 ∧ ∃ s', s.addNextEntry flip h = .ok s' := by
    intro k hk s hrun
    obtain ⟨hrun', hinv⟩ := honest_run flip root zero k (by omega)
    rw [hrun'] at hrun
    cases hrun
    have hidx : (honestStore flip root zero k).index = 2 ^ 64 - 1 := by
      rw [hinv.idx]; omega
    have hctz : ctz (2 ^ 64 - 1) = 0 := ctz_of_mod (by omega) (by omega)
    refine ⟨hidx, (reject_inconsistent flip _ h).2 ⟨?_, ?_⟩⟩
    · rw [hidx, hctz, hinv.len]; simp [numBuckets]
    · intro i hi; rw [hidx, hctz] at hi; omega
  have hsec := secrets_unique flip root (Nat.le_refl _) hhs
  rw [hsec] at hrun
  exact key _ rfl s hrun

end LndModel.C06
