/-
C06 driver, stream `release`: replays the fault-injection trace of
harness/overlay/lnwallet/zz_c06_verif_test.go on `LndModel.C06.Release` (correspondence,
`MISMATCH`) and evaluates the release rule on the implementation's own answers (`MONITOR`).

Trace lines (per node `A`/`B`):
  O <node> <op> [k=v …] => <res> fail=<method|borked|-> mem= rmem= lc= tip= rtail= rtip= dur= rdur= rpend= ahead= dead=
  V <node> src=<revoke|sync> s=<height of the secret> np=<height of the next point> dur=<durable height, read back from the database> ahead=<0|1>
  Y <node> next= tail= pt= dur= …        (channel_reestablish produced from the handle)
V and Y lines precede the O line of the operation that produced them.
-/
import LndModel.Prelude.Lines
import LndModel.C06.Release

open LndModel LndModel.Lines LndModel.C06.Release

namespace LndModel.C06.ReleaseDriver

structure ImplRel where
  src : String
  s : Int
  np : Int
  dur : Int
  ahead : Bool

structure ImplClaim where
  next : Nat
  tail : Nat
  pt : Int
  dur : Int

structure NodeSt where
  m : Node := Node.init
  /-- V / Y lines seen since the last O line of this node. -/
  pendV : List ImplRel := []
  pendY : List ImplClaim := []
  /-- monitor: number of secrets handed out by RevokeCurrentCommitment so far. -/
  revoked : Nat := 0
  /-- monitor: highest height whose secret was handed out by an object that was not `ahead`. -/
  maxRel : Int := -1
  /-- monitor: durable heights printed on the node's previous O line. -/
  lastDur : Int := -1
  lastRdur : Int := -1
  lastRpend : Int := -1

structure St where
  caseId : String := "0"
  a : NodeSt := {}
  b : NodeSt := {}
  lines : Nat := 0
  cases : Nat := 0
  ops : Nat := 0
  mismatches : Nat := 0
  monitorFails : Nat := 0
  releases : Nat := 0
  retrans : Nat := 0
  failedWrites : Nat := 0
  syncs : Nat := 0
  claims : Nat := 0
  aheadReleases : Nat := 0
  aheadHazard : Nat := 0
  unmodelledRefusals : Nat := 0
  staleWrites : Nat := 0
  staleWritesOlder : Nat := 0
  samples : Nat := 0
  harness : List (String × String) := []

def mismatch (s : St) (detail : String) : IO St := do
  IO.println s!"MISMATCH case={s.caseId} line={s.lines} {detail}"
  return { s with mismatches := s.mismatches + 1 }

def monitor (s : St) (clause detail : String) : IO St := do
  IO.println s!"MONITOR case={s.caseId} clause={clause} line={s.lines} {detail}"
  return { s with monitorFails := s.monitorFails + 1 }

def getNode (s : St) (x : String) : NodeSt := if x == "A" then s.a else s.b
def setNode (s : St) (x : String) (n : NodeSt) : St := if x == "A" then { s with a := n } else { s with b := n }

def resClass (r : String) : Res :=
  if r == "ok" then .ok
  else if r == "err:injected" || r == "err:borked" then .errWrite
  else if r == "panic" then .panic
  else .refused

def resStr : Res → String
  | .ok => "ok" | .errWrite => "errWrite" | .refused => "refused" | .panic => "panic"

def resOf (ws : List String) : String :=
  match ws.dropWhile (· ≠ "=>") with
  | _ :: r :: _ => r
  | _ => "?"

def b2s (b : Bool) : String := if b then "1" else "0"

/-- compare the model node with the three views printed by the harness; on a difference report
    it once and continue from the implementation's values. -/
def compareViews (s : St) (x : String) (m : Node) (ws : List String) (lcGone : Bool) : IO (St × Node) := do
  let g (k : String) (d : Nat) : Nat := (kvNat? ws k).getD d
  let lcPrinted := (kv? ws "lc").getD "-" != "-"
  let impl : Node :=
    { m with disk := g "dur" m.disk, rdisk := g "rdur" m.rdisk, rpend := g "rpend" 0 == 1,
             mem := g "mem" m.mem, rmem := g "rmem" m.rmem,
             lc := if lcPrinted then
                     { tail := g "lc" 0, tip := g "tip" 0, rtail := g "rtail" 0, rtip := g "rtip" 0,
                       ahead := g "ahead" 0 == 1 }
                   else m.lc }
  let mut diffs : List String := []
  if impl.disk != m.disk then diffs := s!"dur:model={m.disk},impl={impl.disk}" :: diffs
  if impl.mem != m.mem then diffs := s!"mem:model={m.mem},impl={impl.mem}" :: diffs
  if impl.rdisk != m.rdisk then diffs := s!"rdur:model={m.rdisk},impl={impl.rdisk}" :: diffs
  if impl.rmem != m.rmem then diffs := s!"rmem:model={m.rmem},impl={impl.rmem}" :: diffs
  if impl.rpend != m.rpend then diffs := s!"rpend:model={b2s m.rpend},impl={b2s impl.rpend}" :: diffs
  if lcPrinted && !lcGone then
    if impl.lc.tail != m.lc.tail then diffs := s!"lc:model={m.lc.tail},impl={impl.lc.tail}" :: diffs
    if impl.lc.tip != m.lc.tip then diffs := s!"tip:model={m.lc.tip},impl={impl.lc.tip}" :: diffs
    if impl.lc.rtail != m.lc.rtail then diffs := s!"rtail:model={m.lc.rtail},impl={impl.lc.rtail}" :: diffs
    if impl.lc.rtip != m.lc.rtip then diffs := s!"rtip:model={m.lc.rtip},impl={impl.lc.rtip}" :: diffs
    if impl.lc.ahead != m.lc.ahead then diffs := s!"ahead:model={b2s m.lc.ahead},impl={b2s impl.lc.ahead}" :: diffs
  if diffs.isEmpty then return (s, m)
  let s ← mismatch s s!"node={x} views differ after the operation: {" ".intercalate diffs.reverse}"
  return (s, impl)

def srcStr : Src → String | .revoke => "revoke" | .sync => "sync"

/-- the monitor: the property's release rule on one released message, from the trace alone. -/
def monitorRel (s : St) (x : String) (ns : NodeSt) (v : ImplRel) : IO (St × NodeSt) := do
  let tag := s!"node={x} src={v.src} secret={v.s} next_point={v.np} durable={v.dur} ahead={b2s v.ahead}"
  let mut s := s
  let mut ns := ns
  if v.s < 0 then
    s ← monitor s "secret-chain" s!"{tag}: the revealed value is not a secret of the node's own chain"
  else if v.dur < 0 then
    s ← monitor s "release-before-durable" s!"{tag}: nothing durable could be read back"
  else if v.s ≥ v.dur then
    if v.ahead then
      -- Probe outside the node's behaviour: the harness kept using a LightningChannel whose own
      -- RevokeCurrentCommitment had returned a write error.  lnd's link fails with
      -- LinkFailureDisconnect at that point ("We might have already advanced our channel state",
      -- htlcswitch/link.go) and the object is dropped, so this is reported as a count
      -- (`rel_ahead_object_hazard`, theorem `ahead_object_violates`), not as a violation.
      s := { s with aheadHazard := s.aheadHazard + 1 }
    else
      s ← monitor s "release-before-durable"
        s!"{tag}: secret of height {v.s} handed out while the durable local commitment height is {v.dur}"
  if v.s ≥ 0 && v.np != v.s + 2 then
    s ← monitor s "secret-chain" s!"{tag}: next commitment point is not the one of height secret+2"
  if v.src == "revoke" then
    if v.s ≥ 0 && v.s != Int.ofNat ns.revoked && !v.ahead then
      s ← monitor s "secret-chain"
        s!"{tag}: RevokeCurrentCommitment revealed height {v.s}, the next unrevealed one is {ns.revoked}"
    ns := { ns with revoked := ns.revoked + 1 }
  else if v.s ≥ 0 && v.dur ≥ 0 && v.s < v.dur && v.s + 1 != v.dur then
    s ← monitor s "secret-chain"
      s!"{tag}: reconnect retransmitted height {v.s}, the last revoked one is {v.dur - 1}"
  return (s, ns)

def step (s : St) (line : String) : IO St := do
  let s := { s with lines := s.lines + 1 }
  let ws := words line
  match ws with
  | "FACT" :: _ => return s
  | "#" :: _ => return s
  | "B" :: _ => return s   -- a concurrent MarkBorked injected in the middle of an operation
  | "H" :: kvs =>
    match kvs with
    | [w] => match w.splitOn "=" with
      | [k, v] => return { s with harness := (k, v) :: s.harness }
      | _ => return s
    | _ => return s
  | "CASE" :: id :: _ =>
    let s := { s with caseId := id, a := {}, b := {}, cases := s.cases + 1 }
    if s.samples < 2 then
      IO.println s!"SAMPLE {line}"
      return { s with samples := s.samples + 1 }
    return s
  | ["END"] => return s
  | "V" :: x :: rest =>
    let ns := getNode s x
    let v : ImplRel :=
      { src := (kv? rest "src").getD "?", s := (kvInt? rest "s").getD (-1), np := (kvInt? rest "np").getD (-1),
        dur := (kvInt? rest "dur").getD (-1), ahead := (kvNat? rest "ahead").getD 0 == 1 }
    let (s, ns) ← monitorRel s x ns v
    let s := { s with releases := s.releases + 1,
                      retrans := s.retrans + (if v.src == "sync" then 1 else 0),
                      aheadReleases := s.aheadReleases + (if v.ahead then 1 else 0) }
    let ns := if !v.ahead && v.s > ns.maxRel then { ns with maxRel := v.s } else ns
    if s.samples < 6 && v.src == "sync" then
      IO.println s!"SAMPLE case={s.caseId} {line}"
      return setNode { s with samples := s.samples + 1 } x { ns with pendV := ns.pendV ++ [v] }
    return setNode s x { ns with pendV := ns.pendV ++ [v] }
  | "Y" :: x :: rest =>
    let ns := getNode s x
    let c : ImplClaim :=
      { next := (kvNat? rest "next").getD 0, tail := (kvNat? rest "tail").getD 0,
        pt := (kvInt? rest "pt").getD (-1), dur := (kvInt? rest "dur").getD (-1) }
    let mut s := { s with claims := s.claims + 1 }
    -- monitor: a channel_reestablish acknowledges exactly what is durable
    if c.dur < 0 then
      s ← monitor s "reestablish-claims-durable" s!"node={x}: nothing durable could be read back"
    else if Int.ofNat c.next != c.dur + 1 then
      s ← monitor s "reestablish-claims-durable"
        s!"node={x} next_local_commit_height={c.next} durable={c.dur}: the node acknowledges a commitment that is not durable (or forgets a durable one)"
    if c.pt < 0 || c.pt + 1 != Int.ofNat c.next then
      s ← monitor s "secret-chain"
        s!"node={x} next_local_commit_height={c.next} point_height={c.pt}: the advertised commitment point is not the one of the claimed height"
    return setNode s x { ns with pendY := ns.pendY ++ [c] }
  | "O" :: x :: opName :: rest =>
    let s := { s with ops := s.ops + 1 }
    let ns := getNode s x
    let impl := resOf ws
    let implR := resClass impl
    let failS := (kv? rest "fail").getD "-"
    let wf := failS != "-"
    let s := if wf then { s with failedWrites := s.failedWrites + 1 } else s
    let opM : Option Op :=
      match opName with
      | "recv" => if implR == .ok then some .recv else none
      | "revoke" => some (.revoke wf)
      | "sign" => some (.sign wf)
      | "recvrev" => if implR == .refused then none else some (.recvRev wf)
      | "ready" => some (.ready wf)
      | "reopen" => if implR == .ok then some .reopen else none
      | "reload" => if implR == .ok then some .reload else none
      | "reest" => if implR == .ok then some .reest else none
      | "sync" =>
        some (.sync ((kvNat? rest "ptail").getD 0) ((kvNat? rest "pnext").getD 0)
                    ((kvNat? rest "owe").getD 0 == 1) wf)
      | _ => none
    let mut s := s
    let mut m := ns.m
    let mut lcGone := false
    match opM with
    | none => pure ()
    | some op =>
      let (m', r) := Release.step code m op
      if opName == "sync" then s := { s with syncs := s.syncs + 1 }
      -- result
      if r != implR then
        -- checks of ProcessChanSyncMsg / SignNextCommitment outside the model (commit point
        -- comparison, signature creation) may refuse where the model goes on: counted, not a
        -- mismatch, as long as the implementation hands out nothing.
        if r == .ok && implR == .refused && (opName == "sync" || opName == "sign") && ns.pendV.isEmpty then
          s := { s with unmodelledRefusals := s.unmodelledRefusals + 1 }
        else
          s ← mismatch s s!"node={x} {opName}: result model={resStr r} impl={impl}"
      if r == .panic || implR == .panic then lcGone := true
      -- releases
      let newRel := (m'.out.take (m'.out.length - m.out.length)).reverse
      let implRel := if implR == .ok then ns.pendV else []
      if r == implR || implR == .ok then
        if newRel.length != implRel.length then
          s ← mismatch s s!"node={x} {opName}: model hands out {newRel.length} revocation(s), implementation {implRel.length}"
        else
          for (mr, ir) in newRel.zip implRel do
            if Int.ofNat mr.secret != ir.s || Int.ofNat mr.nextPoint != ir.np || Int.ofNat mr.durAt != ir.dur
                || srcStr mr.src != ir.src || mr.ahead != ir.ahead then
              s ← mismatch s s!"node={x} {opName}: released model=(src={srcStr mr.src},s={mr.secret},np={mr.nextPoint},dur={mr.durAt},ahead={b2s mr.ahead}) impl=(src={ir.src},s={ir.s},np={ir.np},dur={ir.dur},ahead={b2s ir.ahead})"
      -- claims
      let newClaims := m'.claims.take (m'.claims.length - m.claims.length)
      match newClaims, ns.pendY with
      | [mc], [ic] =>
        if mc.next != ic.next || Int.ofNat mc.point != ic.pt || mc.rtail != ic.tail || Int.ofNat mc.durAt != ic.dur then
          s ← mismatch s s!"node={x} reest: model=(next={mc.next},pt={mc.point},tail={mc.rtail},dur={mc.durAt}) impl=(next={ic.next},pt={ic.pt},tail={ic.tail},dur={ic.dur})"
      | [], [] => pure ()
      | _, _ => s ← mismatch s s!"node={x} {opName}: channel_reestablish count differs"
      m := if r == implR || implR == .ok then m' else m
    -- secondary writer through a STALE handle (model: a key-local writer re-reads the channel and
    -- changes nothing of the commitment / revocation state, `StaleWrite.lean`): monitor from the
    -- durable state re-read after the write, from the trace alone
    let durNow := (kvInt? rest "dur").getD (-1)
    let rdurNow := (kvInt? rest "rdur").getD (-1)
    let rpendNow := (kvInt? rest "rpend").getD (-1)
    if opName == "stalewrite" then
      let w := (kv? rest "w").getD "?"
      let hage := (kvInt? rest "hage").getD (-1)
      s := { s with staleWrites := s.staleWrites + 1,
                    staleWritesOlder := s.staleWritesOlder + (if hage < ns.lastDur then 1 else 0) }
      let tag := s!"node={x} writer={w} handle_loaded_at_height={hage}"
      if durNow ≤ ns.maxRel then
        s ← monitor s "release-before-durable" s!"{tag}: after the write the durable local commitment height is {durNow} although the secret of height {ns.maxRel} has been handed out"
      if ns.lastDur ≥ 0 && (durNow != ns.lastDur || rdurNow != ns.lastRdur || rpendNow != ns.lastRpend) then
        s ← monitor s "stale-handle-rollback" s!"{tag}: a writer of one fact changed the durable commitments: local {ns.lastDur}→{durNow}, remote {ns.lastRdur}→{rdurNow}, pending {ns.lastRpend}→{rpendNow}"
      if (kvNat? rest "rev_same").getD 1 == 0 then
        s ← monitor s "stale-handle-rollback" s!"{tag}: the durable revocation state (store / producer / remote points) was rewritten"
      if (kvInt? rest "look_ok").getD 0 != (kvInt? rest "look_want").getD 0 then
        s ← monitor s "stale-handle-rollback" s!"{tag}: the durable store reproduces {(kvInt? rest "look_ok").getD 0} of the {(kvInt? rest "look_want").getD 0} secrets received from the peer"
    let (s', m') ← compareViews s x m rest lcGone
    return setNode s' x { ns with m := m', pendV := [], pendY := [], lastDur := durNow,
                                  lastRdur := rdurNow, lastRpend := rpendNow }
  | [] => return s
  | _ => mismatch s s!"unparsed line: {line.take 60}"

def report (s : St) : IO Unit := do
  IO.println s!"STAT lines={s.lines}"
  IO.println s!"STAT cases={s.cases}"
  IO.println s!"STAT evaluations={s.ops}"
  IO.println s!"STAT nontrivial={s.releases + s.failedWrites + s.syncs}"
  IO.println s!"STAT rel_releases={s.releases}"
  IO.println s!"STAT rel_retransmissions={s.retrans}"
  IO.println s!"STAT rel_failed_writes={s.failedWrites}"
  IO.println s!"STAT rel_syncs={s.syncs}"
  IO.println s!"STAT rel_reestablish={s.claims}"
  IO.println s!"STAT rel_releases_by_ahead_object={s.aheadReleases}"
  IO.println s!"STAT rel_ahead_object_hazard={s.aheadHazard}"
  IO.println s!"STAT rel_unmodelled_refusals={s.unmodelledRefusals}"
  IO.println s!"STAT rel_stale_handle_writes={s.staleWrites}"
  IO.println s!"STAT rel_stale_handle_writes_older_than_durable={s.staleWritesOlder}"
  for (k, v) in s.harness.reverse do
    IO.println s!"STAT rel_h_{k}={v}"
  IO.println s!"STAT mismatches={s.mismatches}"
  IO.println s!"STAT monitor_failures={s.monitorFails}"

def main : IO Unit := do
  let s ← LndModel.Lines.foldStdin step {}
  report s

end LndModel.C06.ReleaseDriver
