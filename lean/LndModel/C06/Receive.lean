/-
C06 — round 7: model of the RECEIVING side of a revoke_and_ack.

* `Chan.recvRev`  = `LightningChannel.ReceiveRevocation` as far as the revocation state goes
  (lnwallet/channel.go): `RevocationStore.AddNextEntry(secret)` FIRST (on the in-memory
  OpenChannel), THEN the comparison `ComputeCommitmentPoint(secret) = RemoteCurrentRevocation`,
  then the rotation `RemoteCurrentRevocation := RemoteNextRevocation`,
  `RemoteNextRevocation := msg.NextRevocationKey`, then `AdvanceCommitChainTail`, which persists
  the revocation state of the in-memory OpenChannel (`putChanRevocationState`).  The model is
  what the code does: a message refused by the point comparison, or a failing write, leaves the
  in-memory store (and points) ADVANCED (`poisoned`); only a re-read from the database
  (`Chan.reload`) gives a clean object again.
* `RevState.encode` / `RevState.decode` = `putChanRevocationState` / `fetchChanRevocationState`
  (channeldb/channel.go): 33-byte current point ‖ 32-byte producer root
  (`RevocationProducer.Encode`) ‖ store (`RevocationStore.Encode`) ‖ optional 33-byte next point
  (present iff bytes remain).
Hand-written; tied to the code by the cases `kind=recv` of stream `release`
(harness/overlay/lnwallet/zz_c06_recv_verif_test.go → RecvDriver.lean): in-memory store bytes,
both points and the RAW bytes under the revocation-state key are compared after every step.
The point function `pt` (secp256k1 scalar multiplication) is a parameter.
-/
import LndModel.C06.Model

namespace LndModel.C06.Receive
open LndModel.C06

structure RevState (H P : Type) where
  cur : Option P      -- RemoteCurrentRevocation
  root : H            -- RevocationProducer (our own chain), only carried along
  store : Store H     -- RevocationStore
  next : Option P     -- RemoteNextRevocation
deriving Repr, DecidableEq

inductive Res where
  | ok | storeReject | keyMismatch | writeFail | panic
deriving Repr, DecidableEq

structure Chan (H P : Type) where
  mem : RevState H P      -- the in-memory OpenChannel of the LightningChannel
  disk : RevState H P     -- the value under `revocationStateKey`
  /-- ghost: an operation on this object failed after it had changed the in-memory state -/
  poisoned : Bool
deriving Repr, DecidableEq

variable {H P : Type} [DecidableEq H] [DecidableEq P]

/-- `ReceiveRevocation` (revocation state only). -/
def Chan.recvRev (flip : H → Nat → H) (pt : H → P) (c : Chan H P) (secret : H) (np : P)
    (writeFails : Bool) : Res × Chan H P :=
  match c.mem.store.addNextEntry flip secret with
  | .error .outOfRange => (.panic, { c with poisoned := true })
  | .error _ => (.storeReject, c)
  | .ok st =>
    match c.mem.cur with
    | none => (.panic, { c with mem := { c.mem with store := st }, poisoned := true })
    | some cur =>
      if pt secret ≠ cur then
        (.keyMismatch, { c with mem := { c.mem with store := st }, poisoned := true })
      else
        let mem' : RevState H P := { c.mem with store := st, cur := c.mem.next, next := some np }
        if writeFails then (.writeFail, { c with mem := mem', poisoned := true })
        else (.ok, { c with mem := mem', disk := mem' })

/-- a new LightningChannel on a freshly fetched OpenChannel. -/
def Chan.reload (c : Chan H P) : Chan H P := { mem := c.disk, disk := c.disk, poisoned := false }

/-! ### persistence codec -/

def RevState.encode (s : RevState Bytes Bytes) : Bytes :=
  s.cur.getD [] ++ s.root ++ s.store.encode ++ s.next.getD []

/-- `fetchChanRevocationState`; `none` = error.  (Points are opaque 33-byte strings here; the
    real decoder additionally checks that they are curve points.) -/
def RevState.decode (bs : Bytes) : Option (RevState Bytes Bytes) :=
  if bs.length < 65 then none
  else
    let rest := bs.drop 65
    match Store.decode rest with
    | .error _ => none
    | .ok st =>
      let tail := rest.drop (1 + 40 * st.lenBuckets + 8)
      if tail.length = 0 then
        some { cur := some (bs.take 33), root := (bs.drop 33).take 32, store := st, next := none }
      else if tail.length < 33 then none
      else some { cur := some (bs.take 33), root := (bs.drop 33).take 32, store := st,
                  next := some (tail.take 33) }

end LndModel.C06.Receive
