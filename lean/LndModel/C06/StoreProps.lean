/-
C06 — store half, round-5 additions:

* producer range: `RevocationProducer.AtIndex` serves exactly the 2^48 positions of the chain,
* the store theorems of `Props.lean` (generic in the hash step) instantiated at the BYTE level
  with the real step "flip bit, then SHA-256" (`flipSha`, executable SHA-256 of
  `Prelude/Sha256.lean`, the same definition the driver compares byte for byte with
  `crypto/sha256` on every run): exact reproduction, at most 49 values, serialisation round trip,
  all for every 32-byte root and every `k ≤ 2^48`, with no assumption about SHA-256.
-/
import LndModel.C06.Props
import LndModel.C06.Sha

namespace LndModel.C06

section Range
variable {H : Type}

/-- **producer_range**: for every hash step and every root, `AtIndex(v)` fails for every
    `uint64` index beyond the end of the chain (`2^48 ≤ v < 2^64`) … -/
theorem producer_range (flip : H → Nat → H) (root : H) (v : Nat)
    (hv : 2 ^ 48 ≤ v) (hv' : v < 2 ^ 64) : producerAt flip root v = none := by
  have hi : 2 ^ 48 ≤ newIndex v := by unfold newIndex startIndex; omega
  unfold producerAt
  rw [derive_eq]
  simp only
  rw [ctz_zero]
  have := getPrefix_ge (Nat.le_refl 48) hi
  rw [if_neg (by omega)]
  rfl

/-- … and succeeds exactly on the `2^48` positions of the chain. -/
theorem producer_range_iff (flip : H → Nat → H) (root : H) (v : Nat) (hv' : v < 2 ^ 64) :
    (producerAt flip root v).isSome ↔ v < 2 ^ 48 := by
  constructor
  · intro h
    apply Nat.lt_of_not_le
    intro hge
    rw [producer_range flip root v hge hv'] at h
    cases h
  · intro h
    rw [producerAt_eq flip root h]
    rfl

example : producerAt (fun h p => 2 * h + p + 1) 7 (2 ^ 48) = none ∧
    (producerAt (fun h p => 2 * h + p + 1) 7 (2 ^ 48 - 1)).isSome :=
  ⟨producer_range _ _ _ (Nat.le_refl _) (by omega), (producer_range_iff _ _ _ (by omega)).2 (by omega)⟩

end Range

/-! ## Byte level, real SHA-256 -/

theorem foldl_flipSha_length (l : List Nat) (h : Bytes) (h32 : h.length = 32) :
    (l.foldl flipSha h).length = 32 := by
  induction l generalizing h with
  | nil => exact h32
  | cons p ps ih => exact ih _ (flipSha_length h p)

/-- every secret of the SHA-256 chain of a 32-byte root has 32 bytes. -/
theorem secrets_length (root : Bytes) (h32 : root.length = 32) (k : Nat) :
    ∀ h ∈ secrets flipSha root k, h.length = 32 := by
  intro h hh
  unfold secrets at hh
  obtain ⟨v, _, rfl⟩ := List.mem_map.1 hh
  exact foldl_flipSha_length _ root h32

/-- every store reachable from a fresh one by accepted insertions of 32-byte values is
    well-formed at the byte level. -/
theorem reachable_wfBytes (flip : Bytes → Nat → Bytes) (hs : List Bytes) (s : Store Bytes)
    (h32 : ∀ h ∈ hs, h.length = 32)
    (hrun : hs.foldlM (fun st h => st.addNextEntry flip h) (Store.new zeroHash) = .ok s) :
    s.WFBytes := by
  have gen : ∀ (hs : List Bytes) (s0 s : Store Bytes), s0.WFBytes → (∀ h ∈ hs, h.length = 32) →
      hs.foldlM (fun st h => st.addNextEntry flip h) s0 = .ok s → s.WFBytes := by
    intro hs
    induction hs with
    | nil => intro s0 s h0 _ h; simp [List.foldlM, pure, Except.pure] at h; cases h; exact h0
    | cons x xs ih =>
      intro s0 s h0 hl h
      simp only [List.foldlM, bind, Except.bind] at h
      split at h
      · cases h
      · rename_i s1 h1
        exact ih s1 s (addNextEntry_wfBytes flip s0 s1 x h0 (hl x (by simp)) h1)
          (fun y hy => hl y (by simp [hy])) h
  have hnew : (Store.new zeroHash).WFBytes := by
    refine ⟨by simp [Store.new], by simp [Store.new], by simp [Store.new, startIndex], ?_⟩
    intro i e hi
    simp only [Store.new, List.getElem?_replicate] at hi
    split at hi
    · cases hi; exact ⟨fun h => by simp [Store.new] at h, fun _ => rfl⟩
    · cases hi
  exact gen hs _ s hnew h32 hrun

/-- **sha_store_reproduces_bounded_roundtrip** — the store half of C06 for the byte-level model
    with the real hash step, no assumption about SHA-256.  For every 32-byte root and every
    `k ≤ 2^48` there are `k` 32-byte values `hs` which are exactly what the producer answers for
    `AtIndex 0 … k-1`; feeding them in order into a fresh store is accepted, and the resulting
    store `s`
    * reproduces each of the `k` secrets exactly and nothing else (`LookUp v` fails for every
      other `uint64` index),
    * holds at most 49 values (49 slots, `lenBuckets ≤ 49`), its encoding has
      `1 + 40·lenBuckets + 8 ≤ 1969` bytes,
    * survives serialisation: `decode (encode s) = s`, so the decoded store reproduces the same
      `k` secrets. -/
theorem sha_store_reproduces_bounded_roundtrip (root : Bytes) (h32 : root.length = 32) (k : Nat)
    (hk : k ≤ 2 ^ 48) :
    ∃ (hs : List Bytes) (s : Store Bytes),
      hs.length = k ∧ (∀ h ∈ hs, h.length = 32) ∧
      hs.map some = (List.range k).map (producerAt flipSha root) ∧
      hs.foldlM (fun st h => st.addNextEntry flipSha h) (Store.new zeroHash) = .ok s ∧
      (∀ v, v < k → ∃ h, producerAt flipSha root v = some h ∧ s.lookUp flipSha v = some h) ∧
      (∀ v, k ≤ v → v < 2 ^ 64 → s.lookUp flipSha v = none) ∧
      s.buckets.length = 49 ∧ s.lenBuckets ≤ 49 ∧
      s.encode.length = 1 + 40 * s.lenBuckets + 8 ∧ s.encode.length ≤ 1969 ∧
      Store.decode s.encode = .ok s ∧
      (∀ s', Store.decode s.encode = .ok s' →
        ∀ v, v < k → s'.lookUp flipSha v = producerAt flipSha root v) := by
  have hspec := secrets_spec flipSha root hk
  have hlen := secrets_length root h32 k
  obtain ⟨s, hrun, _, hlook, hnone⟩ :=
    store_reproduces_producer flipSha root zeroHash k hk (secrets flipSha root k) hspec
  have hwf := store_bounded flipSha zeroHash _ s hrun
  have hrt := reachable_roundtrip flipSha _ s hlen hrun
  have hwfb : s.WFBytes := reachable_wfBytes flipSha _ s hlen hrun
  refine ⟨secrets flipSha root k, s, by simp [secrets], hlen, hspec, hrun, hlook, hnone,
    hwf.1, hwf.2, (encode_size s hwfb).1, hrt.2, hrt.1, ?_⟩
  intro s' hs' v hv
  rw [hrt.1] at hs'
  cases hs'
  obtain ⟨h, h1, h2⟩ := hlook v hv
  rw [h1, h2]

/-- non-vacuity: a concrete 32-byte root. -/
example : (List.replicate 32 7 : Bytes).length = 32 ∧ (5 : Nat) ≤ 2 ^ 48 := ⟨by simp, by omega⟩

end LndModel.C06
