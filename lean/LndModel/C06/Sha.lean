/-
C06 — the real hash step of shachain (`element.derive`): flip bit `p` of the 32-byte value
(byte `p/8`, bit `p%8`), then SHA-256.  Used by the driver for the byte-exact replay and by
`StoreProps.lean` to instantiate the generic theorems at the byte level.
-/
import LndModel.Prelude.Sha256
import LndModel.C06.Model

namespace LndModel.C06

/-- the real one-step function: flip bit `p` (byte `p/8`, bit `p%8`), then SHA-256. -/
def flipSha (h : Bytes) (p : Nat) : Bytes :=
  let byteNo := p / 8
  let bitNo := p % 8
  let h' := (h.zipIdx).map (fun (b, i) => if i == byteNo then Nat.xor b (2 ^ bitNo) else b)
  Sha256.sha256 h'

/-- SHA-256 (the executable definition in `Prelude/Sha256.lean`) always returns 32 bytes. -/
theorem sha256_length (msg : List Nat) : (Sha256.sha256 msg).length = 32 := by
  unfold Sha256.sha256
  simp [Id.run, List.range'_succ, List.forIn_cons, bind, pure]

theorem flipSha_length (h : Bytes) (p : Nat) : (flipSha h p).length = 32 :=
  sha256_length _

end LndModel.C06
