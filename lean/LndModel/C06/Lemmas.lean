/-
C06 — helper definitions and lemmas for the property theorems in Props.lean.
Core Lean only.
-/
import LndModel.C06.Model

namespace LndModel.C06

/-! ## Part 3: serialisation -/

theorem beBytes_succ (n w : Nat) :
    beBytes n (w + 1) = (n / 256 ^ w % 256) :: beBytes n w := by
  unfold beBytes
  rw [List.range_succ_eq_map, List.map_cons, List.map_map]
  congr 1
  apply List.map_congr_left
  intro i _
  simp only [Function.comp]
  congr 3
  omega

theorem beBytes_length (n w : Nat) : (beBytes n w).length = w := by
  simp [beBytes]

theorem foldl_be (acc : Nat) (xs : List Nat) :
    xs.foldl (fun acc b => acc * 256 + b) acc
      = acc * 256 ^ xs.length + xs.foldl (fun acc b => acc * 256 + b) 0 := by
  induction xs generalizing acc with
  | nil => simp
  | cons x xs ih =>
    simp only [List.foldl_cons, List.length_cons]
    rw [ih (acc * 256 + x), ih (0 * 256 + x)]
    simp only [Nat.zero_mul, Nat.zero_add, Nat.pow_succ, Nat.add_mul]
    rw [Nat.mul_assoc, Nat.mul_comm 256, Nat.add_assoc]

theorem beNat_cons (x : Nat) (xs : List Nat) :
    beNat (x :: xs) = x * 256 ^ xs.length + beNat xs := by
  unfold beNat
  rw [List.foldl_cons, foldl_be]
  simp

theorem beNat_beBytes (n w : Nat) : beNat (beBytes n w) = n % 256 ^ w := by
  induction w with
  | zero => simp [beBytes, beNat, Nat.mod_one]
  | succ w ih =>
    rw [beBytes_succ, beNat_cons, ih, beBytes_length, Nat.mod_pow_succ, Nat.mul_comm]
    omega

theorem beNat_beBytes8 (n : Nat) (h : n < 2 ^ 64) : beNat (beBytes n 8) = n := by
  rw [beNat_beBytes]
  apply Nat.mod_eq_of_lt
  have : (256 : Nat) ^ 8 = 2 ^ 64 := by decide
  omega

/-- every element is a byte -/
def IsBytes (bs : List Nat) : Prop := ∀ x ∈ bs, x < 256

theorem beNat_lt (bs : List Nat) (h : IsBytes bs) : beNat bs < 256 ^ bs.length := by
  induction bs with
  | nil => simp [beNat]
  | cons x xs ih =>
    rw [beNat_cons]
    have hx : x < 256 := h x (by simp)
    have hxs := ih (fun y hy => h y (by simp [hy]))
    simp only [List.length_cons, Nat.pow_succ]
    have : x * 256 ^ xs.length + 256 ^ xs.length ≤ 256 ^ xs.length * 256 := by
      rw [Nat.mul_comm (256 ^ xs.length)]
      calc x * 256 ^ xs.length + 256 ^ xs.length = (x + 1) * 256 ^ xs.length := by
            rw [Nat.add_mul, Nat.one_mul]
        _ ≤ 256 * 256 ^ xs.length := Nat.mul_le_mul_right _ hx
    omega

/-- serialisation of one bucket -/
def encElem (e : Elem Bytes) : Bytes := beBytes e.idx 8 ++ e.hash

/-- an element that survives a serialisation round trip -/
def ElemOK (e : Elem Bytes) : Prop := e.hash.length = 32 ∧ e.idx < 2 ^ 64

theorem encElem_length (e : Elem Bytes) (h : ElemOK e) : (encElem e).length = 40 := by
  simp [encElem, beBytes_length, h.1]

theorem flatMap_enc_length (l : List (Elem Bytes)) (h : ∀ e ∈ l, ElemOK e) :
    (l.flatMap encElem).length = 40 * l.length := by
  induction l with
  | nil => simp
  | cons e l ih =>
    rw [List.flatMap_cons, List.length_append, encElem_length e (h e (by simp)),
      ih (fun x hx => h x (by simp [hx])), List.length_cons]
    omega

theorem decodeBuckets_enc (l : List (Elem Bytes)) (rest : Bytes) (h : ∀ e ∈ l, ElemOK e) :
    decodeBuckets l.length (l.flatMap encElem ++ rest) = some (l, rest) := by
  induction l with
  | nil => simp [decodeBuckets]
  | cons e l ih =>
    have he := h e (by simp)
    have hl := ih (fun x hx => h x (by simp [hx]))
    have h8 : (beBytes e.idx 8).length = 8 := beBytes_length _ _
    have h32 : e.hash.length = 32 := he.1
    simp only [List.length_cons, decodeBuckets, List.flatMap_cons]
    have hlen : ¬ (encElem e ++ l.flatMap encElem ++ rest).length < 40 := by
      simp only [List.length_append, encElem_length e he]; omega
    rw [if_neg hlen]
    have e1 : (encElem e ++ l.flatMap encElem ++ rest).drop 40 = l.flatMap encElem ++ rest := by
      rw [List.append_assoc, List.drop_append_of_le_length (by rw [encElem_length e he]; omega),
        List.drop_of_length_le (by rw [encElem_length e he]; omega)]
      simp
    have e2 : (encElem e ++ l.flatMap encElem ++ rest).take 8 = beBytes e.idx 8 := by
      simp only [encElem, List.append_assoc]
      rw [List.take_append_of_le_length (by omega), List.take_of_length_le (by omega)]
    have e3 : ((encElem e ++ l.flatMap encElem ++ rest).drop 8).take 32 = e.hash := by
      simp only [encElem, List.append_assoc]
      rw [List.drop_append_of_le_length (by omega), List.drop_of_length_le (by omega)]
      simp only [List.nil_append]
      rw [List.take_append_of_le_length (by omega), List.take_of_length_le (by omega)]
    rw [e1, e2, e3, hl, beNat_beBytes8 _ he.2]

theorem decodeBuckets_spec (n : Nat) (bs : Bytes) (es : List (Elem Bytes)) (rest : Bytes)
    (hb : IsBytes bs) (h : decodeBuckets n bs = some (es, rest)) :
    es.length = n ∧ (∀ e ∈ es, ElemOK e) ∧ IsBytes rest := by
  induction n generalizing bs es rest with
  | zero =>
    simp only [decodeBuckets, Option.some.injEq, Prod.mk.injEq] at h
    obtain ⟨rfl, rfl⟩ := h
    simp [hb]
  | succ n ih =>
    simp only [decodeBuckets] at h
    split at h
    · cases h
    · rename_i hlen
      have hbd : IsBytes (bs.drop 40) := fun x hx => hb x (List.mem_of_mem_drop hx)
      cases hrec : decodeBuckets n (bs.drop 40) with
      | none => simp [hrec] at h
      | some p =>
        obtain ⟨es', rest'⟩ := p
        simp only [hrec, Option.some.injEq, Prod.mk.injEq] at h
        obtain ⟨rfl, rfl⟩ := h
        obtain ⟨h1, h2, h3⟩ := ih _ _ _ hbd hrec
        have ht8 : (bs.take 8).length = 8 := by simp; omega
        have hok : ElemOK ⟨beNat (bs.take 8), (bs.drop 8).take 32⟩ := by
          refine ⟨by simp; omega, ?_⟩
          have := beNat_lt (bs.take 8) (fun x hx => hb x (List.mem_of_mem_take hx))
          rw [ht8] at this
          have e : (256 : Nat) ^ 8 = 2 ^ 64 := by decide
          simpa [e] using this
        refine ⟨by simp [h1], ?_, h3⟩
        intro e he
        rcases List.mem_cons.1 he with rfl | he
        · exact hok
        · exact h2 e he

/-- Well-formed byte store: 49 slots, at most 49 active, 64-bit indexes, 32-byte hashes in the
    active slots, inactive slots hold the Go zero value. -/
def Store.WFBytes (s : Store Bytes) : Prop :=
  s.buckets.length = numBuckets ∧ s.lenBuckets ≤ numBuckets ∧ s.index < 2 ^ 64 ∧
  ∀ i e, s.buckets[i]? = some e →
    (i < s.lenBuckets → e.hash.length = 32 ∧ e.idx < 2 ^ 64) ∧
    (s.lenBuckets ≤ i → e = ⟨0, zeroHash⟩)

theorem Store.WFBytes.active_ok {s : Store Bytes} (h : s.WFBytes) :
    ∀ e ∈ s.buckets.take s.lenBuckets, ElemOK e := by
  intro e he
  obtain ⟨i, hi⟩ := List.mem_iff_getElem?.1 he
  rw [List.getElem?_take] at hi
  split at hi
  · rename_i hlt
    exact (h.2.2.2 i e hi).1 hlt
  · cases hi

theorem Store.WFBytes.take_length {s : Store Bytes} (h : s.WFBytes) :
    (s.buckets.take s.lenBuckets).length = s.lenBuckets := by
  rw [List.length_take, h.1]; exact Nat.min_eq_left h.2.1

theorem Store.WFBytes.rebuild {s : Store Bytes} (h : s.WFBytes) :
    s.buckets.take s.lenBuckets ++
      List.replicate (numBuckets - (s.buckets.take s.lenBuckets).length) ⟨0, zeroHash⟩
      = s.buckets := by
  have hd : s.buckets.drop s.lenBuckets
      = List.replicate (numBuckets - (s.buckets.take s.lenBuckets).length) ⟨0, zeroHash⟩ := by
    rw [List.eq_replicate_iff]
    refine ⟨by rw [List.length_drop, h.take_length, h.1], ?_⟩
    intro e he
    obtain ⟨i, hi⟩ := List.mem_iff_getElem?.1 he
    rw [List.getElem?_drop] at hi
    exact (h.2.2.2 _ e hi).2 (by omega)
  rw [← hd, List.take_append_drop]

theorem encode_eq (s : Store Bytes) :
    s.encode = (s.lenBuckets % 256) ::
      ((s.buckets.take s.lenBuckets).flatMap encElem ++ beBytes s.index 8) := by
  simp only [Store.encode, List.cons_append, List.nil_append]
  rfl

theorem encode_length_wf (s : Store Bytes) (h : s.WFBytes) :
    s.encode.length = 1 + 40 * s.lenBuckets + 8 := by
  rw [encode_eq, List.length_cons, List.length_append, flatMap_enc_length _ h.active_ok,
    h.take_length, beBytes_length]
  omega

theorem decode_encode_wf (s : Store Bytes) (h : s.WFBytes) : Store.decode s.encode = .ok s := by
  have hle : s.lenBuckets ≤ 49 := h.2.1
  have hmod : s.lenBuckets % 256 = s.lenBuckets := Nat.mod_eq_of_lt (by omega)
  rw [encode_eq, hmod]
  simp only [Store.decode]
  have hmin : min s.lenBuckets numBuckets = (s.buckets.take s.lenBuckets).length := by
    rw [h.take_length]; exact Nat.min_eq_left h.2.1
  rw [hmin, decodeBuckets_enc _ _ h.active_ok]
  simp only
  rw [if_neg (by simp only [numBuckets]; omega), if_neg (by rw [beBytes_length]; omega)]
  rw [h.rebuild, List.take_of_length_le (by rw [beBytes_length]; omega), beNat_beBytes8 _ h.2.2.1]

theorem decode_wf (bs : Bytes) (s : Store Bytes) (hb : IsBytes bs) (h : Store.decode bs = .ok s) :
    s.WFBytes := by
  cases bs with
  | nil => simp [Store.decode] at h
  | cons n rest =>
    simp only [Store.decode] at h
    have hrest : IsBytes rest := fun x hx => hb x (by simp [hx])
    cases hd : decodeBuckets (min n numBuckets) rest with
    | none => simp [hd] at h
    | some p =>
      obtain ⟨es, rest'⟩ := p
      simp only [hd] at h
      obtain ⟨h1, h2, h3⟩ := decodeBuckets_spec _ _ _ _ hrest hd
      split at h
      · split at h <;> cases h
      · rename_i hn
        split at h
        · cases h
        · rename_i h8
          cases h
          have hn' : n ≤ numBuckets := by omega
          have hlen : es.length = n := by rw [h1]; exact Nat.min_eq_left hn'
          refine ⟨by simp [hlen]; omega, hn', ?_, ?_⟩
          · have := beNat_lt (rest'.take 8) (fun x hx => h3 x (List.mem_of_mem_take hx))
            have e : (256 : Nat) ^ 8 = 2 ^ 64 := by decide
            have l8 : (rest'.take 8).length = 8 := by simp; omega
            rw [l8, e] at this
            exact this
          · intro i e hi
            simp only at hi ⊢
            rw [List.getElem?_append] at hi
            split at hi
            · rename_i hlt
              refine ⟨fun _ => h2 e (List.mem_of_getElem? hi), fun hge => by omega⟩
            · rename_i hge
              refine ⟨fun hlt => by omega, fun _ => ?_⟩
              rw [List.getElem?_replicate] at hi
              split at hi
              · cases hi; rfl
              · cases hi

/-! ## Part 2: characterisation of the acceptance check -/

section Check
variable {H : Type} [DecidableEq H]

theorem checkBuckets_ok_iff (flip : H → Nat → H) (ne : Elem H) (l : List (Elem H)) (n : Nat) :
    checkBuckets flip ne l n = .ok () ↔
      ∀ i, i < n → ∃ b, l[i]? = some b ∧ derive flip ne b.idx = some b := by
  induction l generalizing n with
  | nil =>
    cases n with
    | zero => simp [checkBuckets]
    | succ n =>
      simp only [checkBuckets]
      constructor
      · intro h; cases h
      · intro h
        obtain ⟨b, hb, _⟩ := h 0 (by omega)
        simp at hb
  | cons b bs ih =>
    cases n with
    | zero => simp [checkBuckets]
    | succ n =>
      simp only [checkBuckets]
      constructor
      · intro h
        cases hd : derive flip ne b.idx with
        | none => simp [hd] at h
        | some e =>
          simp only [hd] at h
          split at h
          · rename_i heq
            intro i hi
            cases i with
            | zero => exact ⟨b, by simp, by rw [hd, heq]⟩
            | succ i =>
              obtain ⟨b', hb', hd'⟩ := (ih n).1 h i (by omega)
              exact ⟨b', by simpa using hb', hd'⟩
          · cases h
      · intro h
        obtain ⟨b0, hb0, hd0⟩ := h 0 (by omega)
        simp only [List.getElem?_cons_zero, Option.some.injEq] at hb0
        subst hb0
        rw [hd0]
        simp only [if_true]
        apply (ih n).2
        intro i hi
        obtain ⟨b', hb', hd'⟩ := h (i + 1) (by omega)
        exact ⟨b', by simpa using hb', hd'⟩

/-- the store produced by an accepted insertion -/
def Store.inserted (s : Store H) (h : H) : Store H :=
  { lenBuckets := if ctz s.index + 1 > s.lenBuckets then ctz s.index + 1 else s.lenBuckets,
    buckets := s.buckets.set (ctz s.index) ⟨s.index, h⟩,
    index := (s.index + 2 ^ 64 - 1) % 2 ^ 64 }

/-- the acceptance condition of `AddNextEntry` -/
def Store.Accepts (flip : H → Nat → H) (s : Store H) (h : H) : Prop :=
  ctz s.index < s.buckets.length ∧
  ∀ i, i < ctz s.index →
    ∃ b, s.buckets[i]? = some b ∧ derive flip ⟨s.index, h⟩ b.idx = some b

theorem addNextEntry_of_accepts (flip : H → Nat → H) (s : Store H) (h : H)
    (ha : s.Accepts flip h) : s.addNextEntry flip h = .ok (s.inserted h) := by
  simp only [Store.addNextEntry]
  rw [(checkBuckets_ok_iff flip _ _ _).2 ha.2]
  simp only [if_pos ha.1]
  rfl

theorem accepts_of_addNextEntry (flip : H → Nat → H) (s s' : Store H) (h : H)
    (hadd : s.addNextEntry flip h = .ok s') : s.Accepts flip h ∧ s' = s.inserted h := by
  simp only [Store.addNextEntry] at hadd
  cases hcb : checkBuckets flip ⟨s.index, h⟩ s.buckets (ctz s.index) with
  | error e => simp [hcb] at hadd
  | ok u =>
    simp only [hcb] at hadd
    split at hadd
    · rename_i hlt
      cases hadd
      exact ⟨⟨hlt, (checkBuckets_ok_iff flip _ _ _).1 hcb⟩, rfl⟩
    · cases hadd

end Check

/-! ## Part 1: bit arithmetic -/

theorem getBit_lt_two (i p : Nat) : getBit i p < 2 := by unfold getBit; omega

theorem mod_succ_eq (i b : Nat) : i % 2 ^ (b + 1) = i % 2 ^ b + 2 ^ b * getBit i b := by
  unfold getBit; exact Nat.mod_pow_succ

theorem dvd_step {P a b : Nat} (ha : P ∣ a) (hb : P ∣ b) (h : a < b) : a + P ≤ b := by
  obtain ⟨x, rfl⟩ := ha
  obtain ⟨y, rfl⟩ := hb
  have : x < y := Nat.lt_of_mul_lt_mul_left h
  calc P * x + P = P * (x + 1) := by rw [Nat.mul_succ]
    _ ≤ P * y := Nat.mul_le_mul_left _ this

theorem pow_dvd_of_le {c d i : Nat} (h : c ≤ d) (hd : 2 ^ d ∣ i) : 2 ^ c ∣ i :=
  Nat.dvd_trans (Nat.pow_dvd_pow 2 h) hd

theorem dvd_succ_of_getBit_zero {i z : Nat} (h : 2 ^ z ∣ i) (hb : getBit i z = 0) :
    2 ^ (z + 1) ∣ i := by
  apply Nat.dvd_of_mod_eq_zero
  rw [mod_succ_eq, Nat.mod_eq_zero_of_dvd h, hb]; rfl

theorem ctzFrom_spec (i : Nat) : ∀ fuel z, 2 ^ z ∣ i →
    2 ^ (ctzFrom i z fuel) ∣ i ∧ ctzFrom i z fuel ≤ z + fuel ∧
    (ctzFrom i z fuel < z + fuel → getBit i (ctzFrom i z fuel) = 1) := by
  intro fuel
  induction fuel with
  | zero => intro z h; exact ⟨h, Nat.le_refl _, fun h => absurd h (Nat.lt_irrefl _)⟩
  | succ n ih =>
    intro z h
    unfold ctzFrom
    split
    · rename_i hb
      have := getBit_lt_two i z
      exact ⟨h, by omega, fun _ => by omega⟩
    · rename_i hb
      have hb0 : getBit i z = 0 := by simpa using hb
      obtain ⟨h1, h2, h3⟩ := ih (z + 1) (dvd_succ_of_getBit_zero h hb0)
      exact ⟨h1, by omega, fun hlt => h3 (by omega)⟩

theorem ctz_spec (i : Nat) :
    2 ^ ctz i ∣ i ∧ ctz i ≤ 48 ∧ (ctz i < 48 → getBit i (ctz i) = 1) := by
  have := ctzFrom_spec i maxHeight 0 (by simp)
  simpa [ctz, maxHeight] using this

theorem getBit_zero_of_dvd {i p c : Nat} (hp : p < c) (h : 2 ^ c ∣ i) : getBit i p = 0 := by
  have h1 : 2 ^ (p + 1) ∣ i := pow_dvd_of_le (by omega) h
  have h2 := mod_succ_eq i p
  rw [Nat.mod_eq_zero_of_dvd h1] at h2
  have hpos := Nat.two_pow_pos p
  have := getBit_lt_two i p
  rcases (show getBit i p = 0 ∨ getBit i p = 1 by omega) with h0 | h1'
  · exact h0
  · rw [h1', Nat.mul_one] at h2; omega

theorem ctz_unique {i c : Nat} (hc : c ≤ 48) (hd : 2 ^ c ∣ i) (hb : c < 48 → getBit i c = 1) :
    ctz i = c := by
  obtain ⟨h1, h2, h3⟩ := ctz_spec i
  rcases Nat.lt_trichotomy (ctz i) c with hlt | heq | hgt
  · have := getBit_zero_of_dvd hlt hd
    have := h3 (by omega)
    omega
  · exact heq
  · have := getBit_zero_of_dvd hgt h1
    have := hb (by omega)
    omega

theorem ctz_of_mod {i b : Nat} (hb : b < 48) (h : i % 2 ^ (b + 1) = 2 ^ b) : ctz i = b := by
  have h2 := mod_succ_eq i b
  have hlt : i % 2 ^ b < 2 ^ b := Nat.mod_lt _ (Nat.two_pow_pos b)
  have := getBit_lt_two i b
  rcases (show getBit i b = 0 ∨ getBit i b = 1 by omega) with h0 | h1
  · rw [h0, Nat.mul_zero] at h2; omega
  · rw [h1, Nat.mul_one] at h2
    exact ctz_unique (by omega) (Nat.dvd_of_mod_eq_zero (by omega)) (fun _ => h1)

theorem mod_of_ctz {i b : Nat} (hb : b < 48) (h : ctz i = b) : i % 2 ^ (b + 1) = 2 ^ b := by
  obtain ⟨h1, _, h3⟩ := ctz_spec i
  rw [h] at h1 h3
  rw [mod_succ_eq, Nat.mod_eq_zero_of_dvd h1, h3 hb]; simp

theorem ctz_of_dvd48 {i : Nat} (h : 2 ^ 48 ∣ i) : ctz i = 48 :=
  ctz_unique (Nat.le_refl _) h (fun h => absurd h (Nat.lt_irrefl _))

theorem ctz_zero : ctz 0 = 48 := ctz_of_dvd48 (Nat.dvd_zero _)

theorem getPrefix_le (i p : Nat) : getPrefix i p ≤ i := by unfold getPrefix; omega

theorem getPrefix_eq_mul (i p : Nat) : getPrefix i p = 2 ^ p * (i / 2 ^ p) := by
  unfold getPrefix
  have := Nat.div_add_mod i (2 ^ p)
  omega

theorem getPrefix_dvd (i p : Nat) : 2 ^ p ∣ getPrefix i p := by
  rw [getPrefix_eq_mul]; exact Nat.dvd_mul_right _ _

theorem getPrefix_of_dvd {i p : Nat} (h : 2 ^ p ∣ i) : getPrefix i p = i := by
  unfold getPrefix; rw [Nat.mod_eq_zero_of_dvd h]; rfl

theorem getPrefix_zero (i : Nat) : getPrefix i 0 = i := getPrefix_of_dvd (by simp)

theorem getPrefix_succ (i b : Nat) :
    getPrefix i (b + 1) + 2 ^ b * getBit i b = getPrefix i b := by
  unfold getPrefix
  have h1 := mod_succ_eq i b
  have h2 := Nat.mod_le i (2 ^ (b + 1))
  omega

theorem getBit_getPrefix {i p q : Nat} (h : p ≤ q) : getBit (getPrefix i p) q = getBit i q := by
  obtain ⟨d, rfl⟩ := Nat.exists_eq_add_of_le h
  unfold getBit
  rw [getPrefix_eq_mul, Nat.pow_add, Nat.mul_div_mul_left _ _ (Nat.two_pow_pos p),
    Nat.div_div_eq_div_mul]

/-! ### positions / derive -/

theorem positions_succ (w x : Nat) :
    positions (w + 1) x = if getBit x w = 1 then w :: positions w x else positions w x := by
  unfold positions
  rw [List.range_succ, List.reverse_append]
  simp only [List.reverse_cons, List.reverse_nil, List.nil_append, List.cons_append,
    List.filter_cons, beq_iff_eq]

theorem positions_nil_of_dvd {a z : Nat} (h : 2 ^ z ∣ a) : ∀ z', z' ≤ z → positions z' a = [] := by
  intro z'
  induction z' with
  | zero => intro _; simp [positions]
  | succ w ih =>
    intro hw
    rw [positions_succ, getBit_zero_of_dvd (by omega) h, ih (by omega)]
    simp

theorem positions_prefix {a b z : Nat} (h : a = getPrefix b z) :
    ∀ d, positions (z + d) b = positions (z + d) a ++ positions z b := by
  intro d
  induction d with
  | zero =>
    have ha : positions z a = [] :=
      positions_nil_of_dvd (by rw [h]; exact getPrefix_dvd b z) z (Nat.le_refl _)
    rw [Nat.add_zero, ha]; rfl
  | succ d ih =>
    rw [← Nat.add_assoc, positions_succ, positions_succ, ih, h, getBit_getPrefix (by omega)]
    split <;> simp

section Derive
variable {H : Type}

/-- the secret for index `i` derived from the root (`i < 2^48`) -/
def prod (flip : H → Nat → H) (root : H) (i : Nat) : H :=
  (positions maxHeight i).foldl flip root

theorem derive_eq (flip : H → Nat → H) (e : Elem H) (to : Nat) :
    derive flip e to =
      if e.idx = getPrefix to (ctz e.idx) then
        some ⟨to, (positions (ctz e.idx) to).foldl flip e.hash⟩
      else none := by
  unfold derive
  by_cases h : e.idx = to
  · have hd := (ctz_spec to).1
    rw [if_pos h, h, if_pos (getPrefix_of_dvd hd).symm,
      positions_nil_of_dvd hd _ (Nat.le_refl _)]
    rfl
  · rw [if_neg h]
    by_cases h2 : e.idx = getPrefix to (ctz e.idx)
    · rw [if_pos h2]; simp only [ne_eq]; rw [if_neg (by simpa using h2)]
    · rw [if_neg h2]; simp only [ne_eq]; rw [if_pos h2]

/-- (a) derivation composes -/
theorem prod_compose (flip : H → Nat → H) (root : H) {a b : Nat}
    (h : a = getPrefix b (ctz a)) :
    (positions (ctz a) b).foldl flip (prod flip root a) = prod flip root b := by
  have hz := (ctz_spec a).2.1
  obtain ⟨d, hd⟩ := Nat.exists_eq_add_of_le hz
  unfold prod maxHeight
  rw [hd, positions_prefix h d, List.foldl_append]

theorem derive_prod (flip : H → Nat → H) (root : H) {a b : Nat}
    (h : a = getPrefix b (ctz a)) :
    derive flip ⟨a, prod flip root a⟩ b = some ⟨b, prod flip root b⟩ := by
  rw [derive_eq]
  simp only
  rw [if_pos h, prod_compose flip root h]

theorem derive_some_idx (flip : H → Nat → H) {e e' : Elem H} {to : Nat}
    (h : derive flip e to = some e') : e.idx = getPrefix to (ctz e.idx) := by
  rw [derive_eq] at h
  split at h
  · assumption
  · cases h

theorem newIndex_lt {v : Nat} (h : v < 2 ^ 48) : newIndex v = startIndex - v := by
  unfold newIndex startIndex; omega

theorem producerAt_eq (flip : H → Nat → H) (root : H) {v : Nat} (h : v < 2 ^ 48) :
    producerAt flip root v = some (prod flip root (startIndex - v)) := by
  unfold producerAt
  rw [newIndex_lt h]
  have : (0 : Nat) = getPrefix (startIndex - v) (ctz 0) := by
    rw [ctz_zero]; unfold getPrefix startIndex
    rw [Nat.mod_eq_of_lt (by omega)]; omega
  have hd := derive_prod flip root this
  have hp : prod flip root 0 = root := by
    unfold prod
    rw [positions_nil_of_dvd (Nat.dvd_zero (2 ^ maxHeight)) _ (Nat.le_refl _)]; rfl
  rw [hp] at hd
  rw [hd]; rfl

end Derive

/-! ### the honest-store invariant -/

theorem add_mod_of_dvd {Q n P : Nat} (h : Q ∣ n) (hP : P < Q) : (n + P) % Q = P := by
  obtain ⟨t, rfl⟩ := h
  rw [Nat.mul_add_mod, Nat.mod_eq_of_lt hP]

theorem two_pow_lt_succ (b : Nat) : 2 ^ b < 2 ^ (b + 1) := by
  rw [Nat.pow_succ]; have := Nat.two_pow_pos b; omega

section Honest
variable {H : Type}

/-- Invariant of a store that has received exactly the producer's secrets for the indexes
    `m ≤ i < 2^48` (i.e. `2^48 - m` insertions).  Bucket `b` holds the smallest received index
    with exactly `b` trailing zeros. -/
structure Inv (flip : H → Nat → H) (root : H) (s : Store H) (m : Nat) : Prop where
  hm : m ≤ 2 ^ 48
  len : s.buckets.length = numBuckets
  lenB : s.lenBuckets ≤ numBuckets
  idx : s.index = (m + 2 ^ 64 - 1) % 2 ^ 64
  bucket : ∀ b, b < s.lenBuckets → ∃ j, s.buckets[b]? = some ⟨j, prod flip root j⟩ ∧
    m ≤ j ∧ j < 2 ^ 48 ∧ ctz j = b ∧ ∀ x, m ≤ x → x < j → ctz x ≠ b
  cover : ∀ i, m ≤ i → i < 2 ^ 48 → ctz i < s.lenBuckets

theorem inv_new (flip : H → Nat → H) (root zero : H) :
    Inv flip root (Store.new zero) (2 ^ 48) where
  hm := Nat.le_refl _
  len := by simp [Store.new]
  lenB := by simp [Store.new]
  idx := by simp [Store.new, startIndex]
  bucket := by intro b hb; simp [Store.new] at hb
  cover := by intro i h1 h2; omega

theorem inv_index {flip : H → Nat → H} {root : H} {s : Store H} {n : Nat}
    (inv : Inv flip root s (n + 1)) : s.index = n := by
  have := inv.hm; rw [inv.idx]; omega

theorem add_pow_le {n c : Nat} (hn : n < 2 ^ 48) (hc : c ≤ 48) (hd : 2 ^ c ∣ n) :
    n + 2 ^ c ≤ 2 ^ 48 :=
  dvd_step hd (Nat.pow_dvd_pow 2 hc) hn

/-- in a store that received `n+1 …`, bucket `b < ctz n` is active and holds index `n + 2^b`. -/
theorem inv_below {flip : H → Nat → H} {root : H} {s : Store H} {n : Nat}
    (inv : Inv flip root s (n + 1)) {b : Nat} (hb : b < ctz n) :
    b < s.lenBuckets ∧ s.buckets[b]? = some ⟨n + 2 ^ b, prod flip root (n + 2 ^ b)⟩ ∧
    n = getPrefix (n + 2 ^ b) (ctz n) := by
  obtain ⟨hd, hc, _⟩ := ctz_spec n
  have hn : n < 2 ^ 48 := by have := inv.hm; omega
  have hP := Nat.two_pow_pos b
  have hPc : 2 ^ b < 2 ^ ctz n := Nat.pow_lt_pow_right (by omega) hb
  have hx48 : n + 2 ^ b < 2 ^ 48 := by have := add_pow_le hn hc hd; omega
  have hd1 : 2 ^ (b + 1) ∣ n := pow_dvd_of_le (by omega) hd
  have hd0 : 2 ^ b ∣ n := pow_dvd_of_le (by omega) hd
  have hctz : ctz (n + 2 ^ b) = b :=
    ctz_of_mod (by omega) (add_mod_of_dvd hd1 (two_pow_lt_succ b))
  have hact : b < s.lenBuckets := by
    have := inv.cover (n + 2 ^ b) (by omega) hx48; omega
  obtain ⟨j, hj, hmj, _, hcj, hmin⟩ := inv.bucket b hact
  have hjle : j ≤ n + 2 ^ b := by
    apply Nat.le_of_not_lt
    intro hlt
    exact hmin (n + 2 ^ b) (by omega) hlt hctz
  have hjd : 2 ^ b ∣ j := by have := (ctz_spec j).1; rwa [hcj] at this
  have hjge : n + 2 ^ b ≤ j := dvd_step hd0 hjd (by omega)
  have hje : j = n + 2 ^ b := by omega
  subst hje
  refine ⟨hact, hj, ?_⟩
  unfold getPrefix
  rw [add_mod_of_dvd hd hPc]; omega

theorem inv_accepts {flip : H → Nat → H} {root : H} {s : Store H} {n : Nat}
    (inv : Inv flip root s (n + 1)) : s.Accepts flip (prod flip root n) := by
  have hidx := inv_index inv
  obtain ⟨_, hc, _⟩ := ctz_spec n
  refine ⟨by rw [hidx, inv.len]; simp only [numBuckets]; omega, ?_⟩
  rw [hidx]
  intro b hb
  obtain ⟨_, hget, hpre⟩ := inv_below inv hb
  exact ⟨_, hget, derive_prod flip root hpre⟩

theorem inv_inserted {flip : H → Nat → H} {root : H} {s : Store H} {n : Nat}
    (inv : Inv flip root s (n + 1)) : Inv flip root (s.inserted (prod flip root n)) n := by
  have hidx := inv_index inv
  obtain ⟨_, hc, _⟩ := ctz_spec n
  have hn : n < 2 ^ 48 := by have := inv.hm; omega
  have hlen := inv.len
  have hlenB := inv.lenB
  simp only [numBuckets] at hlen hlenB
  refine ⟨by omega, ?_, ?_, ?_, ?_, ?_⟩
  · simp only [Store.inserted, List.length_set]; exact inv.len
  · simp only [Store.inserted, hidx, numBuckets]; split <;> omega
  · simp only [Store.inserted, hidx]
  · intro b hb
    simp only [Store.inserted, hidx] at hb ⊢
    by_cases hbc : b = ctz n
    · subst hbc
      refine ⟨n, ?_, Nat.le_refl _, hn, rfl, fun x h1 h2 => by omega⟩
      rw [List.getElem?_set_self (by omega)]
    · have hbo : b < s.lenBuckets := by
        by_cases hlt : b < ctz n
        · exact (inv_below inv hlt).1
        · split at hb <;> omega
      obtain ⟨j, hj, hmj, hj48, hcj, hmin⟩ := inv.bucket b hbo
      refine ⟨j, ?_, by omega, hj48, hcj, ?_⟩
      · rw [List.getElem?_set_ne (by omega)]; exact hj
      · intro x h1 h2
        by_cases hxn : x = n
        · subst hxn; omega
        · exact hmin x (by omega) h2
  · intro i h1 h2
    simp only [Store.inserted, hidx]
    by_cases hin : i = n
    · subst hin; split <;> omega
    · have := inv.cover i (by omega) h2
      split <;> omega

/-! ### look-ups in an honest store -/

theorem findSome_unique {α β : Type} {l : List α} {f : α → Option β} {y : β}
    (h1 : ∀ x ∈ l, f x = none ∨ f x = some y) (h2 : ∃ x ∈ l, f x = some y) :
    l.findSome? f = some y := by
  induction l with
  | nil => obtain ⟨x, hx, _⟩ := h2; cases hx
  | cons a l ih =>
    rw [List.findSome?_cons]
    rcases h1 a (by simp) with hn | hs
    · rw [hn]
      apply ih (fun x hx => h1 x (by simp [hx]))
      obtain ⟨x, hx, hfx⟩ := h2
      rcases List.mem_cons.1 hx with rfl | hx
      · rw [hn] at hfx; cases hfx
      · exact ⟨x, hx, hfx⟩
    · rw [hs]

theorem mem_active {s : Store H} {e : Elem H} (h : e ∈ s.buckets.take s.lenBuckets) :
    ∃ b, b < s.lenBuckets ∧ s.buckets[b]? = some e := by
  obtain ⟨i, hi⟩ := List.mem_iff_getElem?.1 h
  rw [List.getElem?_take] at hi
  split at hi
  · exact ⟨i, by assumption, hi⟩
  · cases hi

theorem active_mem {s : Store H} {e : Elem H} {b : Nat} (hb : b < s.lenBuckets)
    (h : s.buckets[b]? = some e) : e ∈ s.buckets.take s.lenBuckets := by
  apply List.mem_iff_getElem?.2
  exact ⟨b, by rw [List.getElem?_take, if_pos hb]; exact h⟩

theorem exists_bucket_aux {flip : H → Nat → H} {root : H} {s : Store H} {m i : Nat}
    (inv : Inv flip root s m) (hmi : m ≤ i) (hi : i < 2 ^ 48) :
    ∀ b, b ≤ 48 →
      (∃ b' j, b' < s.lenBuckets ∧ s.buckets[b']? = some ⟨j, prod flip root j⟩ ∧
        j = getPrefix i (ctz j)) ∨ m ≤ getPrefix i b := by
  intro b
  induction b with
  | zero => intro _; right; rw [getPrefix_zero]; exact hmi
  | succ b ih =>
    intro hb
    rcases ih (by omega) with hl | hr
    · exact Or.inl hl
    · have hs := getPrefix_succ i b
      have := getBit_lt_two i b
      rcases (show getBit i b = 0 ∨ getBit i b = 1 by omega) with h0 | h1
      · rw [h0, Nat.mul_zero, Nat.add_zero] at hs
        right; rw [hs]; exact hr
      · rw [h1, Nat.mul_one] at hs
        by_cases hq : m ≤ getPrefix i (b + 1)
        · exact Or.inr hq
        · left
          have hqd : 2 ^ (b + 1) ∣ getPrefix i (b + 1) := getPrefix_dvd _ _
          have hjm : getPrefix i b % 2 ^ (b + 1) = 2 ^ b := by
            rw [← hs]; exact add_mod_of_dvd hqd (two_pow_lt_succ b)
          have hcj : ctz (getPrefix i b) = b := ctz_of_mod (by omega) hjm
          have hjle := getPrefix_le i b
          have hact : b < s.lenBuckets := by
            have := inv.cover _ hr (by omega); omega
          obtain ⟨j, hj, hmj, _, hcjb, hmin⟩ := inv.bucket b hact
          have hjle' : j ≤ getPrefix i b := by
            apply Nat.le_of_not_lt
            intro hlt
            exact hmin _ hr hlt hcj
          have hjd : 2 ^ b ∣ j := by have := (ctz_spec j).1; rwa [hcjb] at this
          have hjge := dvd_step (pow_dvd_of_le (Nat.le_succ b) hqd) hjd (by omega)
          have hje : j = getPrefix i b := by omega
          exact ⟨b, j, hact, hj, by rw [hcjb]; exact hje⟩

/-- (b) every received index is derivable from some active bucket -/
theorem exists_bucket {flip : H → Nat → H} {root : H} {s : Store H} {m i : Nat}
    (inv : Inv flip root s m) (hmi : m ≤ i) (hi : i < 2 ^ 48) :
    ∃ b' j, b' < s.lenBuckets ∧ s.buckets[b']? = some ⟨j, prod flip root j⟩ ∧
      j = getPrefix i (ctz j) := by
  rcases exists_bucket_aux inv hmi hi 48 (Nat.le_refl _) with h | h
  · exact h
  · have hp : getPrefix i 48 = 0 := by
      unfold getPrefix; rw [Nat.mod_eq_of_lt hi]; omega
    have hm0 : m = 0 := by omega
    subst hm0
    have hact : 48 < s.lenBuckets := by
      have := inv.cover 0 (Nat.le_refl _) (by omega); rwa [ctz_zero] at this
    obtain ⟨j, hj, _, _, hcj, hmin⟩ := inv.bucket 48 hact
    have hj0 : j = 0 := by
      apply Nat.eq_zero_of_not_pos
      intro hpos
      exact hmin 0 (Nat.le_refl _) hpos ctz_zero
    subst hj0
    exact ⟨48, 0, hact, hj, by rw [ctz_zero, hp]⟩

theorem lookUp_received {flip : H → Nat → H} {root : H} {s : Store H} {m v : Nat}
    (inv : Inv flip root s m) (hv : v < 2 ^ 48) (hmi : m ≤ startIndex - v) :
    s.lookUp flip v = some (prod flip root (startIndex - v)) := by
  have hi : startIndex - v < 2 ^ 48 := by unfold startIndex; omega
  unfold Store.lookUp
  rw [newIndex_lt hv]
  apply findSome_unique
  · intro e he
    obtain ⟨b, hb, hget⟩ := mem_active he
    obtain ⟨j, hj, _⟩ := inv.bucket b hb
    rw [hget] at hj
    cases hj
    by_cases hp : j = getPrefix (startIndex - v) (ctz j)
    · right; rw [derive_prod flip root hp]; rfl
    · left; rw [derive_eq, if_neg hp]; rfl
  · obtain ⟨b, j, hb, hget, hp⟩ := exists_bucket inv hmi hi
    exact ⟨_, active_mem hb hget, by rw [derive_prod flip root hp]; rfl⟩

/-- (c) nothing below the received range is derivable -/
theorem lookUp_unreceived {flip : H → Nat → H} {root : H} {s : Store H} {m v : Nat}
    (inv : Inv flip root s m) (hv : v < 2 ^ 48) (hmi : startIndex - v < m) :
    s.lookUp flip v = none := by
  unfold Store.lookUp
  rw [newIndex_lt hv, List.findSome?_eq_none_iff]
  intro e he
  obtain ⟨b, hb, hget⟩ := mem_active he
  obtain ⟨j, hj, hmj, _⟩ := inv.bucket b hb
  rw [hget] at hj
  cases hj
  rw [derive_eq]
  split
  · rename_i hp
    have := getPrefix_le (startIndex - v) (ctz j)
    simp only at hp
    omega
  · rfl

theorem getPrefix_ge {i c : Nat} (hc : c ≤ 48) (hi : 2 ^ 48 ≤ i) : 2 ^ 48 ≤ getPrefix i c := by
  apply Nat.le_of_not_lt
  intro hlt
  have h1 := dvd_step (getPrefix_dvd i c) (Nat.pow_dvd_pow 2 hc) hlt
  have h2 : i % 2 ^ c < 2 ^ c := Nat.mod_lt _ (Nat.two_pow_pos c)
  unfold getPrefix at h1 hlt
  omega

/-- values outside the 2^48 index space are never derivable -/
theorem lookUp_out_of_range {flip : H → Nat → H} {root : H} {s : Store H} {m v : Nat}
    (inv : Inv flip root s m) (hv : 2 ^ 48 ≤ v) (hv' : v < 2 ^ 64) :
    s.lookUp flip v = none := by
  unfold Store.lookUp
  have hi : 2 ^ 48 ≤ newIndex v := by unfold newIndex startIndex; omega
  rw [List.findSome?_eq_none_iff]
  intro e he
  obtain ⟨b, hb, hget⟩ := mem_active he
  obtain ⟨j, hj, _, hj48, _⟩ := inv.bucket b hb
  rw [hget] at hj
  cases hj
  rw [derive_eq]
  split
  · rename_i hp
    have := getPrefix_ge (ctz_spec j).2.1 hi
    simp only at hp
    omega
  · rfl

/-! ### the honest run -/

/-- the producer's first `k` secrets, in release order -/
def secrets (flip : H → Nat → H) (root : H) (k : Nat) : List H :=
  (List.range k).map (fun v => prod flip root (startIndex - v))

/-- the store after the first `k` secrets have been inserted -/
def honestStore (flip : H → Nat → H) (root zero : H) : Nat → Store H
  | 0 => Store.new zero
  | k + 1 => (honestStore flip root zero k).inserted (prod flip root (startIndex - k))

theorem secrets_succ (flip : H → Nat → H) (root : H) (k : Nat) :
    secrets flip root (k + 1) = secrets flip root k ++ [prod flip root (startIndex - k)] := by
  simp [secrets, List.range_succ]

theorem secrets_take (flip : H → Nat → H) (root : H) {j k : Nat} (h : j ≤ k) :
    (secrets flip root k).take j = secrets flip root j := by
  unfold secrets
  rw [← List.map_take, List.take_range, Nat.min_eq_left h]

theorem secrets_spec (flip : H → Nat → H) (root : H) {k : Nat} (hk : k ≤ 2 ^ 48) :
    (secrets flip root k).map some = (List.range k).map (producerAt flip root) := by
  unfold secrets
  rw [List.map_map]
  apply List.map_congr_left
  intro v hv
  have : v < k := List.mem_range.1 hv
  simp only [Function.comp]
  rw [producerAt_eq flip root (by omega)]

theorem secrets_unique (flip : H → Nat → H) (root : H) {k : Nat} (hk : k ≤ 2 ^ 48) {hs : List H}
    (h : hs.map some = (List.range k).map (producerAt flip root)) : hs = secrets flip root k := by
  rw [← secrets_spec flip root hk] at h
  exact (List.map_inj_right (fun x y hxy => Option.some.inj hxy)).1 h

theorem honest_run [DecidableEq H] (flip : H → Nat → H) (root zero : H) :
    ∀ k, k ≤ 2 ^ 48 →
      (secrets flip root k).foldlM (fun st h => st.addNextEntry flip h) (Store.new zero)
        = .ok (honestStore flip root zero k) ∧
      Inv flip root (honestStore flip root zero k) (2 ^ 48 - k) := by
  intro k
  induction k with
  | zero =>
    intro _
    exact ⟨rfl, inv_new flip root zero⟩
  | succ k ih =>
    intro hk
    obtain ⟨hrun, hinv⟩ := ih (by omega)
    have hm : 2 ^ 48 - k = (startIndex - k) + 1 := by unfold startIndex; omega
    have hm' : 2 ^ 48 - (k + 1) = startIndex - k := by unfold startIndex; omega
    rw [hm] at hinv
    refine ⟨?_, ?_⟩
    · rw [secrets_succ, List.foldlM_append, hrun]
      simp only [bind, Except.bind, List.foldlM_cons, List.foldlM_nil]
      rw [addNextEntry_of_accepts flip _ _ (inv_accepts hinv)]
      rfl
    · rw [hm']
      exact inv_inserted hinv

/-! ### a wrong secret is rejected (injective hash step) -/

theorem foldl_flip_injective {flip : H → Nat → H}
    (hinj : ∀ p, Function.Injective (fun h => flip h p)) :
    ∀ (ps : List Nat) (a b : H), ps.foldl flip a = ps.foldl flip b → a = b := by
  intro ps
  induction ps with
  | nil => intro a b h; exact h
  | cons p ps ih =>
    intro a b h
    rw [List.foldl_cons, List.foldl_cons] at h
    exact hinj p (ih _ _ h)

theorem checkBuckets_mismatch_head [DecidableEq H] (flip : H → Nat → H) (ne b0 e : Elem H)
    (bs : List (Elem H)) {z : Nat} (hz : 1 ≤ z) (hd : derive flip ne b0.idx = some e)
    (hne : e ≠ b0) : checkBuckets flip ne (b0 :: bs) z = .error .mismatch := by
  cases z with
  | zero => omega
  | succ c => simp only [checkBuckets, hd, if_neg hne]

theorem inv_rejects [DecidableEq H] {flip : H → Nat → H}
    (hinj : ∀ p, Function.Injective (fun h => flip h p))
    {root : H} {s : Store H} {n : Nat} (inv : Inv flip root s (n + 1))
    (hz : 1 ≤ ctz n) {h : H} (hne : h ≠ prod flip root n) :
    s.addNextEntry flip h = .error .mismatch := by
  obtain ⟨_, hget, hpre⟩ := inv_below inv (b := 0) (by omega)
  have hidx := inv_index inv
  simp only [Nat.pow_zero] at hget hpre
  have hderive : derive flip ⟨n, h⟩ (n + 1)
      = some ⟨n + 1, (positions (ctz n) (n + 1)).foldl flip h⟩ := by
    rw [derive_eq]; simp only; rw [if_pos hpre]
  have hne' : (⟨n + 1, (positions (ctz n) (n + 1)).foldl flip h⟩ : Elem H)
      ≠ ⟨n + 1, prod flip root (n + 1)⟩ := by
    intro heq
    rw [Elem.mk.injEq, ← prod_compose flip root hpre] at heq
    exact hne (foldl_flip_injective hinj _ _ _ heq.2)
  cases hb : s.buckets with
  | nil => rw [hb] at hget; simp at hget
  | cons b0 bs =>
    rw [hb] at hget
    simp only [List.getElem?_cons_zero, Option.some.injEq] at hget
    subst hget
    simp only [Store.addNextEntry, hidx, hb]
    rw [checkBuckets_mismatch_head flip _ _ _ bs hz hderive hne']

end Honest

/-! ### insertion preserves byte-level well-formedness -/

theorem addNextEntry_wfBytes (flip : Bytes → Nat → Bytes) (s s' : Store Bytes) (h : Bytes)
    (hwf : s.WFBytes) (hh : h.length = 32) (hadd : s.addNextEntry flip h = .ok s') :
    s'.WFBytes := by
  obtain ⟨⟨hlt, _⟩, rfl⟩ := accepts_of_addNextEntry flip s s' h hadd
  obtain ⟨h1, h2, h3, h4⟩ := hwf
  rw [h1] at hlt
  refine ⟨by simp only [Store.inserted, List.length_set]; exact h1, ?_, ?_, ?_⟩
  · simp only [Store.inserted]; split <;> omega
  · simp only [Store.inserted]; omega
  · intro i e hi
    simp only [Store.inserted] at hi ⊢
    by_cases hic : i = ctz s.index
    · subst hic
      rw [List.getElem?_set_self (by omega)] at hi
      cases hi
      exact ⟨fun _ => ⟨hh, h3⟩, fun hge => by split at hge <;> omega⟩
    · rw [List.getElem?_set_ne (by omega)] at hi
      obtain ⟨ha, hb⟩ := h4 i e hi
      refine ⟨fun hlt' => ?_, fun hge => hb (by split at hge <;> omega)⟩
      by_cases hlo : i < s.lenBuckets
      · exact ha hlo
      · have := hb (by omega)
        subst this
        exact ⟨by simp [zeroHash], Nat.two_pow_pos 64⟩

end LndModel.C06
