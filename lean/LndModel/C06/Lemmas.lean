/-
C06 — helper definitions and lemmas for the property theorems in Props.lean.
Core Lean only.
-/
import LndModel.C06.Model

namespace LndModel.C06

/-! ## Part 3: serialisation -/

theorem beBytes_succ (n w : Nat) :
    beBytes n (w + 1) = (n / 256 ^ w % 256) :: beBytes n w := by
  unfold beBytes
  rw [List.range_succ_eq_map, List.map_cons, List.map_map]
  congr 1
  apply List.map_congr_left
  intro i _
  simp only [Function.comp]
  congr 3
  omega

theorem beBytes_length (n w : Nat) : (beBytes n w).length = w := by
  simp [beBytes]

theorem foldl_be (acc : Nat) (xs : List Nat) :
    xs.foldl (fun acc b => acc * 256 + b) acc
      = acc * 256 ^ xs.length + xs.foldl (fun acc b => acc * 256 + b) 0 := by
  induction xs generalizing acc with
  | nil => simp
  | cons x xs ih =>
    simp only [List.foldl_cons, List.length_cons]
    rw [ih (acc * 256 + x), ih (0 * 256 + x)]
    simp only [Nat.zero_mul, Nat.zero_add, Nat.pow_succ, Nat.add_mul]
    rw [Nat.mul_assoc, Nat.mul_comm 256, Nat.add_assoc]

theorem beNat_cons (x : Nat) (xs : List Nat) :
    beNat (x :: xs) = x * 256 ^ xs.length + beNat xs := by
  unfold beNat
  rw [List.foldl_cons, foldl_be]
  simp

theorem beNat_beBytes (n w : Nat) : beNat (beBytes n w) = n % 256 ^ w := by
  induction w with
  | zero => simp [beBytes, beNat, Nat.mod_one]
  | succ w ih =>
    rw [beBytes_succ, beNat_cons, ih, beBytes_length, Nat.mod_pow_succ, Nat.mul_comm]
    omega

theorem beNat_beBytes8 (n : Nat) (h : n < 2 ^ 64) : beNat (beBytes n 8) = n := by
  rw [beNat_beBytes]
  apply Nat.mod_eq_of_lt
  have : (256 : Nat) ^ 8 = 2 ^ 64 := by decide
  omega

/-- every element is a byte -/
def IsBytes (bs : List Nat) : Prop := ∀ x ∈ bs, x < 256

theorem beNat_lt (bs : List Nat) (h : IsBytes bs) : beNat bs < 256 ^ bs.length := by
  induction bs with
  | nil => simp [beNat]
  | cons x xs ih =>
    rw [beNat_cons]
    have hx : x < 256 := h x (by simp)
    have hxs := ih (fun y hy => h y (by simp [hy]))
    simp only [List.length_cons, Nat.pow_succ]
    have : x * 256 ^ xs.length + 256 ^ xs.length ≤ 256 ^ xs.length * 256 := by
      rw [Nat.mul_comm (256 ^ xs.length)]
      calc x * 256 ^ xs.length + 256 ^ xs.length = (x + 1) * 256 ^ xs.length := by
            rw [Nat.add_mul, Nat.one_mul]
        _ ≤ 256 * 256 ^ xs.length := Nat.mul_le_mul_right _ hx
    omega

/-- serialisation of one bucket -/
def encElem (e : Elem Bytes) : Bytes := beBytes e.idx 8 ++ e.hash

/-- an element that survives a serialisation round trip -/
def ElemOK (e : Elem Bytes) : Prop := e.hash.length = 32 ∧ e.idx < 2 ^ 64

theorem encElem_length (e : Elem Bytes) (h : ElemOK e) : (encElem e).length = 40 := by
  simp [encElem, beBytes_length, h.1]

theorem flatMap_enc_length (l : List (Elem Bytes)) (h : ∀ e ∈ l, ElemOK e) :
    (l.flatMap encElem).length = 40 * l.length := by
  induction l with
  | nil => simp
  | cons e l ih =>
    rw [List.flatMap_cons, List.length_append, encElem_length e (h e (by simp)),
      ih (fun x hx => h x (by simp [hx])), List.length_cons]
    omega

theorem decodeBuckets_enc (l : List (Elem Bytes)) (rest : Bytes) (h : ∀ e ∈ l, ElemOK e) :
    decodeBuckets l.length (l.flatMap encElem ++ rest) = some (l, rest) := by
  induction l with
  | nil => simp [decodeBuckets]
  | cons e l ih =>
    have he := h e (by simp)
    have hl := ih (fun x hx => h x (by simp [hx]))
    have h8 : (beBytes e.idx 8).length = 8 := beBytes_length _ _
    simp only [List.length_cons, decodeBuckets, List.flatMap_cons]
    have hlen : ¬ (encElem e ++ l.flatMap encElem ++ rest).length < 40 := by
      simp only [List.length_append, encElem_length e he]; omega
    rw [if_neg hlen]
    have e1 : (encElem e ++ l.flatMap encElem ++ rest).drop 40 = l.flatMap encElem ++ rest := by
      rw [List.append_assoc, List.drop_append_of_le_length (by rw [encElem_length e he]; omega),
        List.drop_of_length_le (by rw [encElem_length e he]; omega)]
      simp
    have e2 : (encElem e ++ l.flatMap encElem ++ rest).take 8 = beBytes e.idx 8 := by
      simp only [encElem, List.append_assoc]
      rw [List.take_append_of_le_length (by omega), List.take_of_length_le (by omega)]
    have e3 : ((encElem e ++ l.flatMap encElem ++ rest).drop 8).take 32 = e.hash := by
      simp only [encElem, List.append_assoc]
      rw [List.drop_append_of_le_length (by omega), List.drop_of_length_le (by omega)]
      simp only [List.nil_append]
      rw [List.take_append_of_le_length (by omega), List.take_of_length_le (by omega)]
    rw [e1, e2, e3, hl, beNat_beBytes8 _ he.2]

theorem decodeBuckets_spec (n : Nat) (bs : Bytes) (es : List (Elem Bytes)) (rest : Bytes)
    (hb : IsBytes bs) (h : decodeBuckets n bs = some (es, rest)) :
    es.length = n ∧ (∀ e ∈ es, ElemOK e) ∧ IsBytes rest := by
  induction n generalizing bs es rest with
  | zero =>
    simp only [decodeBuckets, Option.some.injEq, Prod.mk.injEq] at h
    obtain ⟨rfl, rfl⟩ := h
    simp [hb]
  | succ n ih =>
    simp only [decodeBuckets] at h
    split at h
    · cases h
    · rename_i hlen
      have hbd : IsBytes (bs.drop 40) := fun x hx => hb x (List.mem_of_mem_drop hx)
      cases hrec : decodeBuckets n (bs.drop 40) with
      | none => simp [hrec] at h
      | some p =>
        obtain ⟨es', rest'⟩ := p
        simp only [hrec, Option.some.injEq, Prod.mk.injEq] at h
        obtain ⟨rfl, rfl⟩ := h
        obtain ⟨h1, h2, h3⟩ := ih _ _ _ hbd hrec
        have ht8 : (bs.take 8).length = 8 := by simp; omega
        have hok : ElemOK ⟨beNat (bs.take 8), (bs.drop 8).take 32⟩ := by
          refine ⟨by simp; omega, ?_⟩
          have := beNat_lt (bs.take 8) (fun x hx => hb x (List.mem_of_mem_take hx))
          rw [ht8] at this
          have e : (256 : Nat) ^ 8 = 2 ^ 64 := by decide
          simpa [e] using this
        refine ⟨by simp [h1], ?_, h3⟩
        intro e he
        rcases List.mem_cons.1 he with rfl | he
        · exact hok
        · exact h2 e he

end LndModel.C06
