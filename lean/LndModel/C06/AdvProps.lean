/-
C06 — round 7: the store half WITHOUT assuming an honest counterparty.

`Props.store_reproduces_producer` is about the secrets of a producer.  The property also says the
node "rejects any secret not consistent with the earlier ones"; the theorems here make that exact
for ARBITRARY value sequences (any peer, any 32-byte strings), for every hash step `flip`:

* `store_reproduces_accepted` — whatever sequence of values `AddNextEntry` accepted, in order,
  into a fresh store (`k ≤ 2^48` of them), `LookUp v` afterwards returns exactly the `v`-th accepted
  value for every `v < k` and fails for every other `uint64` index.  Acceptance alone is enough:
  nothing is assumed about where the values come from.
* `accepted_sequence_consistent` — the accepted values form one derivation tree: whenever the
  index of the `va`-th value is a prefix of the index of the `vt`-th, deriving from the former
  yields exactly the latter.
* `reject_inconsistent_with_any_earlier` — a value whose derivation towards ANY earlier received
  index in its subtree differs from the value accepted for that index is refused (not only the
  bucket heads which the code compares literally).
* `sha_store_reproduces_accepted_roundtrip` — the same at the byte level with the real step
  flip-bit-then-SHA-256 and the serialisation: bounded size, `decode (encode s) = s`, and the
  decoded store still reproduces every accepted value.
-/
import LndModel.C06.AdvLemmas
import LndModel.C06.StoreProps

namespace LndModel.C06

section Generic
variable {H : Type} [DecidableEq H]

/-- **store_reproduces_accepted**.  For every hash step, every list `hs` of at most `2^48`
    values: if feeding them in order into a fresh store is accepted, then the store reproduces
    each of them exactly (`LookUp v = hs[v]`) and nothing else. -/
theorem store_reproduces_accepted (flip : H → Nat → H) (zero : H) (hs : List H) (s : Store H)
    (hk : hs.length ≤ 2 ^ 48)
    (hrun : hs.foldlM (fun st h => st.addNextEntry flip h) (Store.new zero) = .ok s) :
    (∀ v, v < hs.length → s.lookUp flip v = hs[v]?) ∧
    (∀ v, hs.length ≤ v → v < 2 ^ 64 → s.lookUp flip v = none) := by
  have inv := arun flip zero hs s hk hrun
  refine ⟨?_, ?_⟩
  · intro v hv
    rw [alookUp_received inv (by omega) (by unfold startIndex; omega)]
    unfold secOf
    have : startIndex - (startIndex - v) = v := by unfold startIndex; omega
    rw [this, List.getD, List.getElem?_eq_getElem hv]
    rfl
  · intro v hv hv'
    by_cases h48 : v < 2 ^ 48
    · exact alookUp_unreceived inv h48 (by unfold startIndex; omega)
    · exact alookUp_out_of_range inv (by omega) hv'

/-- **accepted_sequence_consistent**.  The accepted values are mutually consistent: for all
    positions `va, vt < k` such that the index of `va` is a prefix of the index of `vt`,
    `derive` from the `va`-th value gives exactly the `vt`-th value. -/
theorem accepted_sequence_consistent (flip : H → Nat → H) (zero : H) (hs : List H) (s : Store H)
    (hk : hs.length ≤ 2 ^ 48)
    (hrun : hs.foldlM (fun st h => st.addNextEntry flip h) (Store.new zero) = .ok s)
    (va vt : Nat) (ha : va < hs.length) (ht : vt < hs.length)
    (hpre : startIndex - va = getPrefix (startIndex - vt) (ctz (startIndex - va))) :
    derive flip ⟨startIndex - va, hs[va]⟩ (startIndex - vt) = some ⟨startIndex - vt, hs[vt]⟩ := by
  have inv := arun flip zero hs s hk hrun
  have e : ∀ v (hv : v < hs.length), secOf hs zero (startIndex - v) = hs[v] := by
    intro v hv
    unfold secOf
    have : startIndex - (startIndex - v) = v := by unfold startIndex; omega
    rw [this, List.getD, List.getElem?_eq_getElem hv]
    rfl
  have := derive_sec inv (a := startIndex - va) (t := startIndex - vt)
    (by unfold startIndex; omega) (by unfold startIndex; omega) hpre
  rwa [e va ha, e vt ht] at this

/-- **reject_inconsistent_with_any_earlier**.  After any accepted sequence `hs` (`k < 2^48`), a
    value `h` offered for the next index `n = startIndex - k` is refused whenever there is an
    earlier position `vt` in the subtree of `n` (i.e. `n` is a prefix of its index) for which the
    derivation from `h` does not give exactly the value accepted at `vt`. -/
theorem reject_inconsistent_with_any_earlier (flip : H → Nat → H) (zero : H) (hs : List H)
    (s : Store H) (hk : hs.length < 2 ^ 48)
    (hrun : hs.foldlM (fun st h => st.addNextEntry flip h) (Store.new zero) = .ok s)
    (h : H) (vt : Nat) (ht : vt < hs.length)
    (hpre : getPrefix (startIndex - vt) (ctz (startIndex - hs.length)) = startIndex - hs.length)
    (hne : (positions (ctz (startIndex - hs.length)) (startIndex - vt)).foldl flip h ≠ hs[vt]) :
    ∃ e, s.addNextEntry flip h = .error e := by
  have inv := arun flip zero hs s (Nat.le_of_lt hk) hrun
  have hm : 2 ^ 48 - hs.length = (startIndex - hs.length) + 1 := by unfold startIndex; omega
  rw [hm] at inv
  cases hadd : s.addNextEntry flip h with
  | error e => exact ⟨e, rfl⟩
  | ok s' =>
    exfalso
    obtain ⟨hacc, _⟩ := accepts_of_addNextEntry flip s s' h hadd
    have := accepted_derives_all inv hacc (ctz (startIndex - hs.length)) (Nat.le_refl _)
      (startIndex - vt) (by unfold startIndex; omega) hpre
    rw [if_neg (by unfold startIndex; omega)] at this
    apply hne
    rw [this]
    unfold secOf
    have : startIndex - (startIndex - vt) = vt := by unfold startIndex; omega
    rw [this, List.getD, List.getElem?_eq_getElem ht]
    rfl

/-- the honest theorem is a corollary: a producer's sequence is accepted (`honest_run`) and
    therefore reproduced; stated to show that the hypotheses of `store_reproduces_accepted` are
    satisfiable for every `k ≤ 2^48`. -/
theorem store_reproduces_accepted_honest (flip : H → Nat → H) (root zero : H) (k : Nat)
    (hk : k ≤ 2 ^ 48) :
    ∃ s, (secrets flip root k).foldlM (fun st h => st.addNextEntry flip h) (Store.new zero) = .ok s ∧
      ∀ v, v < k → s.lookUp flip v = (secrets flip root k)[v]? := by
  obtain ⟨hrun, _⟩ := honest_run flip root zero k hk
  have hl : (secrets flip root k).length = k := by simp [secrets]
  refine ⟨_, hrun, fun v hv => ?_⟩
  exact (store_reproduces_accepted flip zero _ _ (by omega) hrun).1 v (by omega)

omit [DecidableEq H] in
theorem ok_of_check {ε α : Type} [DecidableEq α] (x : Except ε α) (w : α)
    (h : (match x with | .ok a => decide (a = w) | .error _ => false) = true) : x = .ok w := by
  cases x with
  | error e => simp at h
  | ok a => simp at h; rw [h]

/-- non-vacuity with values that do NOT come from one producer call sequence: the first value
    (odd index) is arbitrary, the second must hash to it, the third (odd index) is arbitrary
    again; the sequence is accepted and reproduced. -/
example :
    let flip : Nat → Nat → Nat := fun h p => 2 * h + p + 1
    ∃ s, [5, 2, 77].foldlM (fun st h => st.addNextEntry flip h) (Store.new 0) = .ok s ∧
      s.lookUp flip 0 = some 5 ∧ s.lookUp flip 1 = some 2 ∧ s.lookUp flip 2 = some 77 ∧
      s.lookUp flip 3 = none := by
  intro flip
  have hrun : ∃ s, [5, 2, 77].foldlM (fun st h => st.addNextEntry flip h) (Store.new 0) = .ok s :=
    ⟨(((Store.new 0).inserted 5).inserted 2).inserted 77, ok_of_check _ _ (by decide)⟩
  obtain ⟨s, hs⟩ := hrun
  obtain ⟨h1, h2⟩ := store_reproduces_accepted flip 0 [5, 2, 77] s (by simp) hs
  exact ⟨s, hs, h1 0 (by simp), h1 1 (by simp), h1 2 (by simp), h2 3 (by simp) (by omega)⟩

/-- non-vacuity of `reject_inconsistent_with_any_earlier`: after `[5]` the value `3` offered for
    index `2^48-2` derives `2·3+0+1 = 7 ≠ 5` at index `2^48-1`: refused. -/
example :
    let flip : Nat → Nat → Nat := fun h p => 2 * h + p + 1
    ∃ s, [5].foldlM (fun st h => st.addNextEntry flip h) (Store.new 0) = .ok s ∧
      ∃ e, s.addNextEntry flip 3 = .error e := by
  intro flip
  have hrun : ∃ s, [5].foldlM (fun st h => st.addNextEntry flip h) (Store.new 0) = .ok s :=
    ⟨(Store.new 0).inserted 5, ok_of_check _ _ (by decide)⟩
  obtain ⟨s, hs⟩ := hrun
  refine ⟨s, hs, ?_⟩
  exact reject_inconsistent_with_any_earlier flip 0 [5] s (by simp) hs 3 0 (by simp)
    (by decide) (by decide)

end Generic

/-! ## Byte level, real SHA-256, serialisation -/

/-- **sha_store_reproduces_accepted_roundtrip**.  Byte-level model, real hash step, no
    assumption about SHA-256 and none about the peer: for every list of at most `2^48` 32-byte
    values which `AddNextEntry` accepts in order into a fresh store, the store reproduces every
    one of them exactly and nothing else, holds at most 49 values, encodes into
    `1 + 40·len + 8 ≤ 1969` bytes, `decode (encode s) = s`, and whatever `decode` returns for the
    encoding reproduces the same values. -/
theorem sha_store_reproduces_accepted_roundtrip (hs : List Bytes) (s : Store Bytes)
    (hk : hs.length ≤ 2 ^ 48) (h32 : ∀ h ∈ hs, h.length = 32)
    (hrun : hs.foldlM (fun st h => st.addNextEntry flipSha h) (Store.new zeroHash) = .ok s) :
    (∀ v, v < hs.length → s.lookUp flipSha v = hs[v]?) ∧
    (∀ v, hs.length ≤ v → v < 2 ^ 64 → s.lookUp flipSha v = none) ∧
    s.buckets.length = 49 ∧ s.lenBuckets ≤ 49 ∧
    s.encode.length = 1 + 40 * s.lenBuckets + 8 ∧ s.encode.length ≤ 1969 ∧
    Store.decode s.encode = .ok s ∧
    (∀ s', Store.decode s.encode = .ok s' → ∀ v, v < hs.length → s'.lookUp flipSha v = hs[v]?) := by
  obtain ⟨h1, h2⟩ := store_reproduces_accepted flipSha zeroHash hs s hk hrun
  have hwf := store_bounded flipSha zeroHash _ s hrun
  have hwfb : s.WFBytes := reachable_wfBytes flipSha _ s h32 hrun
  have hrt := reachable_roundtrip flipSha _ s h32 hrun
  refine ⟨h1, h2, hwf.1, hwf.2, (encode_size s hwfb).1, hrt.2, hrt.1, ?_⟩
  intro s' hs' v hv
  rw [hrt.1] at hs'
  cases hs'
  exact h1 v hv

/-- non-vacuity: the hypotheses hold for the producer sequence of any 32-byte root and any
    `k ≤ 2^48` (see `sha_store_reproduces_bounded_roundtrip`), and for the empty list. -/
example : ([] : List Bytes).foldlM (fun st h => st.addNextEntry flipSha h) (Store.new zeroHash)
    = .ok (Store.new zeroHash) := rfl

end LndModel.C06
