/-
C06 — release rule under write failures.

Model of the part of `lnwallet.LightningChannel` / `chanstate.OpenChannel` /
`channeldb.ChannelStateDB` that decides WHEN a per-commitment secret of the node's own
chain leaves the node, with three views of the local commitment height kept apart:

* `disk`  – `LocalCommitment.CommitHeight` in the database (what survives a restart),
* `mem`   – the same field of the in-memory `*OpenChannel` handle,
* `lc`    – the `LightningChannel` built on the handle (`currentHeight`, local chain tip,
            remote chain tail/tip).

Every durable step of the commitment path (`UpdateChannelCommitment` in
`RevokeCurrentCommitment`, `AppendRemoteCommitChain` in `SignNextCommitment` – also when
called from inside `ProcessChanSyncMsg` –, `AdvanceCommitChainTail` in
`ReceiveRevocation`, `InsertNextRevocation` in `InitNextRevocation`) takes a flag
`writeFails`; a failed write leaves the database as it was.

`Cfg.rollback = true` is the code: `OpenChannel.UpdateCommitment` assigns the in-memory
`LocalCommitment` only after the store accepted the write.  `rollback = false` is the
variant that assigns first and returns the store error (no rollback).

The model describes what the code DOES, including what `RevokeCurrentCommitment` leaves
behind in the `LightningChannel` when its write fails (the local chain stays advanced:
`LC.ahead`).  Hand-written; tied to the code by the behavioural correspondence check
(harness/overlay/lnwallet/zz_c06_verif_test.go → drv_c06 release).
-/
namespace LndModel.C06.Release

structure Cfg where
  /-- `OpenChannel.UpdateCommitment` leaves the handle untouched when the write fails. -/
  rollback : Bool
deriving Repr, DecidableEq

/-- the in-memory state machine object. -/
structure LC where
  /-- `currentHeight` = height of the tail of the local commitment chain. -/
  tail : Nat
  /-- height of the tip of the local chain (a received, not yet revoked-for commitment). -/
  tip : Nat
  rtail : Nat
  rtip : Nat
  /-- a `RevokeCurrentCommitment` of this object failed on its durable write: the local
      chain of the object is one step ahead of everything else. -/
  ahead : Bool
deriving Repr, DecidableEq

inductive Src where
  | revoke   -- returned by `RevokeCurrentCommitment`
  | sync     -- retransmitted by `ProcessChanSyncMsg`
deriving Repr, DecidableEq

/-- one revoke_and_ack that left the node. -/
structure Rel where
  src : Src
  /-- height whose per-commitment secret is revealed. -/
  secret : Nat
  /-- height of the next commitment point carried along. -/
  nextPoint : Nat
  /-- durable local commitment height at the moment the message left the API. -/
  durAt : Nat
  /-- released by an object whose own revoke had failed before (`LC.ahead`). -/
  ahead : Bool
deriving Repr, DecidableEq

/-- one channel_reestablish produced from the handle (`OpenChannel.ChanSyncMsg`). -/
structure Claim where
  /-- `NextLocalCommitHeight`. -/
  next : Nat
  /-- height of `LocalUnrevokedCommitPoint` in the node's own chain. -/
  point : Nat
  /-- `RemoteCommitTailHeight`. -/
  rtail : Nat
  durAt : Nat
deriving Repr, DecidableEq

structure Node where
  disk : Nat
  rdisk : Nat
  /-- a pending remote `CommitDiff` is stored. -/
  rpend : Bool
  mem : Nat
  rmem : Nat
  lc : LC
  /-- everything released so far, newest first. -/
  out : List Rel
  claims : List Claim
deriving Repr, DecidableEq

inductive Op where
  /-- `ReceiveNewCommitment` accepted the peer's signature. -/
  | recv
  /-- `RevokeCurrentCommitment`; the flag is the fate of `UpdateChannelCommitment`. -/
  | revoke (writeFails : Bool)
  /-- `SignNextCommitment`; `AppendRemoteCommitChain`. -/
  | sign (writeFails : Bool)
  /-- `ReceiveRevocation` of a message that passes the secret checks; `AdvanceCommitChainTail`. -/
  | recvRev (writeFails : Bool)
  /-- `InitNextRevocation`; `InsertNextRevocation`. -/
  | ready (writeFails : Bool)
  /-- `NewLightningChannel` on the SAME in-memory handle. -/
  | reopen
  /-- the handle is re-read from the database, then `NewLightningChannel`. -/
  | reload
  /-- `OpenChannel.ChanSyncMsg` on the handle. -/
  | reest
  /-- `ProcessChanSyncMsg` of a well-formed channel_reestablish with the peer's
      `RemoteCommitTailHeight`, `NextLocalCommitHeight`; `owe` = `OweCommitment()`;
      the flag is the fate of the `AppendRemoteCommitChain` of a signature made inside. -/
  | sync (ptail pnext : Nat) (owe : Bool) (writeFails : Bool)
deriving Repr, DecidableEq

inductive Res where
  | ok
  | errWrite   -- the durable write failed; the error is returned to the caller
  | refused    -- refused by a check before any write
  | panic      -- Go would panic (nil commitment)
deriving Repr, DecidableEq

def Node.init : Node :=
  { disk := 0, rdisk := 0, rpend := false, mem := 0, rmem := 0,
    lc := { tail := 0, tip := 0, rtail := 0, rtip := 0, ahead := false }, out := [], claims := [] }

/-- `NewLightningChannel(handle)`: the chains are rebuilt from the handle's commitments and the
    pending remote diff read from the database. -/
def Node.open (n : Node) : Node :=
  { n with lc := { tail := n.mem, tip := n.mem, rtail := n.rmem,
                   rtip := if n.rpend then n.rmem + 1 else n.rmem, ahead := false } }

/-- the `SignNextCommitment` core shared by `sign` and `sync`. -/
def signCore (n : Node) (writeFails : Bool) : Node × Res :=
  if n.lc.rtip > n.lc.rtail then (n, .refused)          -- ErrNoWindow
  else if writeFails then (n, .errWrite)
  else ({ n with rpend := true, lc := { n.lc with rtip := n.lc.rtip + 1 } }, .ok)

/-- the revocation `ProcessChanSyncMsg` retransmits: owed iff the peer's view of our tail is
    exactly one behind the object's tail; it is the one of height `tail - 1`. -/
def owed (n : Node) (ptail : Nat) : List Rel :=
  if ptail + 1 = n.lc.tail then [⟨.sync, n.lc.tail - 1, n.lc.tail + 1, n.disk, n.lc.ahead⟩] else []

/-- inside the "owe a revocation" branch a new commitment is signed when `OweCommitment()`. -/
def syncSign (n : Node) (ptail : Nat) (owe writeFails : Bool) : Node × Res :=
  if ptail + 1 = n.lc.tail ∧ owe = true then
    match signCore n writeFails with
    | (n', .ok) => (n', .ok)
    | (_, .refused) => (n, .ok)                 -- ErrNoWindow is tolerated
    | (_, r) => (n, r)
  else (n, .ok)

def step (cfg : Cfg) (n : Node) : Op → Node × Res
  | .recv => ({ n with lc := { n.lc with tip := n.lc.tip + 1 } }, .ok)
  | .revoke writeFails =>
    if n.lc.tip ≤ n.lc.tail then
      -- nothing to revoke for: the chain is emptied and the nil tail is dereferenced
      (n, .panic)
    else
      let h := n.lc.tail + 1
      if writeFails then
        -- generateRevocation ran, the local chain was advanced, the write failed, the error
        -- is returned: no message leaves, the object stays advanced.
        ({ n with mem := if cfg.rollback then n.mem else h,
                  lc := { n.lc with tail := h, ahead := true } }, .errWrite)
      else
        ({ n with disk := h, mem := h, lc := { n.lc with tail := h },
                  out := ⟨.revoke, n.lc.tail, n.lc.tail + 2, h, n.lc.ahead⟩ :: n.out }, .ok)
  | .sign writeFails => signCore n writeFails
  | .recvRev writeFails =>
    if n.lc.rtip ≤ n.lc.rtail then (n, .refused)
    else if writeFails then (n, .errWrite)
    else ({ n with rdisk := n.rdisk + 1, rmem := n.rmem + 1, rpend := false,
                   lc := { n.lc with rtail := n.lc.rtail + 1 } }, .ok)
  | .ready writeFails => if writeFails then (n, .errWrite) else (n, .ok)
  | .reopen => (n.open, .ok)
  | .reload => ({ n with mem := n.disk, rmem := n.rdisk }.open, .ok)
  | .reest =>
    ({ n with claims := ⟨n.mem + 1, n.mem, n.rmem, n.disk⟩ :: n.claims }, .ok)
  | .sync ptail pnext owe writeFails =>
    -- their view of our chain
    if ptail > n.lc.tail then (n, .refused)                 -- local data loss
    else if ptail + 1 < n.lc.tail then (n, .refused)        -- remote data loss
    else
      let n1 := (syncSign n ptail owe writeFails).1
      if (syncSign n ptail owe writeFails).2 ≠ .ok then (n1, (syncSign n ptail owe writeFails).2)
      -- our view of their chain (heights taken before the signature above)
      else if pnext > n.lc.rtip + 1 then (n1, .refused)
      else if pnext ≤ n.lc.rtail then (n1, .refused)
      else if pnext = n.lc.rtip + 1 then ({ n1 with out := owed n ptail ++ n1.out }, .ok)
      else if n.rpend = false then (n1, .refused)          -- ErrNoPendingCommit
      else ({ n1 with out := owed n ptail ++ n1.out }, .ok)

def run (cfg : Cfg) (n : Node) : List Op → Node
  | [] => n
  | op :: ops => run cfg (step cfg n op).1 ops

/-- the code. -/
def code : Cfg := ⟨true⟩
/-- the variant without rollback. -/
def noRollback : Cfg := ⟨false⟩

end LndModel.C06.Release
