/-
C06 — refinement of the regenerated definitions (LndModel.Gen.C06, produced by tools/go2lean from
shachain/utils.go `getBit`, `getPrefix`, `countTrailingZeros` and the constants of
shachain/element.go) to the hand-written model `LndModel.C06` for ALL inputs of the Go types.
-/
import LndModel.Gen.C06
import LndModel.C06.Model

namespace LndModel.C06.GenRefine
open LndModel.Gen LndModel.Gen.GoInt

theorem maxHeight_refines : Gen.C06.maxHeight = (C06.maxHeight : Nat) := by
  simp only [Gen.C06.maxHeight, C06.maxHeight]; rfl

theorem startIndex_refines : Gen.C06.startIndex = (C06.startIndex : Nat) := by
  simp only [Gen.C06.startIndex, C06.startIndex]; rfl

theorem rootIndex_refines : Gen.C06.rootIndex = 0 := by
  simp only [Gen.C06.rootIndex]

/-- `getBit(index, position)`: for every index and every position (any naturals, in particular
    all `uint64` / `uint8`) the regenerated definition is the model's `getBit`. -/
theorem getBit_refines (i p : Nat) : Gen.C06.getBit i p = (C06.getBit i p : Nat) := by
  simp only [Gen.C06.getBit, C06.getBit, shr, wrapU8, Int.toNat_natCast]
  have h2 : ((2 : Int) ^ p) = ((2 ^ p : Nat) : Int) := by rw [Int.natCast_pow]; rfl
  rw [h2, ← Int.natCast_ediv]
  omega

/-- bit-level fact: masking with `2^64 - 2^p` clears the low `p` bits of a 64-bit value. -/
theorem and_high_mask (i p : Nat) (hi : i < 2 ^ 64) (hp : p ≤ 64) :
    i &&& (2 ^ 64 - 2 ^ p) = i - i % 2 ^ p := by
  have e1 : 2 ^ 64 - 2 ^ p = 2 ^ p * (2 ^ (64 - p) - 1) := by
    rw [Nat.mul_sub, ← Nat.pow_add, Nat.mul_one]
    congr 2; omega
  have e2 : i - i % 2 ^ p = 2 ^ p * (i / 2 ^ p) := by
    have := Nat.div_add_mod i (2 ^ p); omega
  rw [e1, e2]
  apply Nat.eq_of_testBit_eq
  intro j
  rw [Nat.testBit_and, Nat.testBit_two_pow_mul, Nat.testBit_two_pow_mul, Nat.testBit_two_pow_sub_one,
    Nat.testBit_div_two_pow]
  by_cases hj : p ≤ j
  · have : j - p + p = j := by omega
    simp only [hj, decide_true, Bool.true_and, this]
    by_cases h64 : j - p < 64 - p
    · simp [h64]
    · have : i < 2 ^ j := Nat.lt_of_lt_of_le hi (Nat.pow_le_pow_right (by omega) (by omega))
      simp [h64, Nat.testBit_lt_two_pow this]
  · simp [hj]

/-- `getPrefix(index, position)`: for every `uint64` index and every `uint8` position the
    regenerated definition (mask built with wrapping uint64 arithmetic, then `&`) is the model's
    `index - index mod 2^position`. -/
theorem getPrefix_refines (i p : Nat) (hi : i < 2 ^ 64) (_hp : p < 256) :
    Gen.C06.getPrefix i p = (C06.getPrefix i p : Nat) := by
  simp only [Gen.C06.getPrefix, C06.getPrefix, shl, andU, wrapU64, Int.toNat_natCast]
  by_cases hp : p < 64
  · have hpow : (2 : Nat) ^ p < 2 ^ 64 := Nat.pow_lt_pow_right (by omega) hp
    have hpos : 0 < (2 : Nat) ^ p := Nat.two_pow_pos p
    have hmask : ((0 - 1 : Int) % 18446744073709551616 -
        ((1 * 2 ^ p) % 18446744073709551616 - 1) % 18446744073709551616) % 18446744073709551616
          = ((2 ^ 64 - 2 ^ p : Nat) : Int) := by
      have h2 : ((2 : Int) ^ p) = ((2 ^ p : Nat) : Int) := by rw [Int.natCast_pow]; rfl
      rw [h2]
      generalize (2 : Nat) ^ p = k at hpow hpos
      omega
    rw [hmask, Int.toNat_natCast]
    first
    | rw [and_high_mask i p hi (by omega)]
    | rw [Nat.and_comm, and_high_mask i p hi (by omega)]  -- operands of `&` commuted
  · have hpow : (2 : Nat) ^ 64 ∣ 2 ^ p := Nat.pow_dvd_pow 2 (by omega)
    obtain ⟨c, hc⟩ := hpow
    have hmask : ((0 - 1 : Int) % 18446744073709551616 -
        ((1 * 2 ^ p) % 18446744073709551616 - 1) % 18446744073709551616) % 18446744073709551616 = 0 := by
      have h2 : ((2 : Int) ^ p) = ((2 ^ p : Nat) : Int) := by rw [Int.natCast_pow]; rfl
      rw [h2, hc]
      have : ((2 ^ 64 * c : Nat) : Int) = 18446744073709551616 * (c : Int) := by
        rw [Int.natCast_mul]; rfl
      rw [this]
      omega
    have hle : (2 : Nat) ^ 64 ≤ 2 ^ p := Nat.pow_le_pow_right (by omega) (by omega)
    have hmod : i % 2 ^ p = i := Nat.mod_eq_of_lt (Nat.lt_of_lt_of_le hi hle)
    rw [hmask, hmod]
    simp

/-- The loop of `countTrailingZeros`: as long as the counter cannot pass `maxHeight = 48`, the
    fuel-indexed regenerated loop is the model's `ctzFrom`. -/
theorem ctz_loop_refines (i : Nat) : ∀ (fuel z : Nat), z + fuel ≤ 48 →
    Gen.C06.countTrailingZeros_loop1 i fuel z = (C06.ctzFrom i z fuel : Nat) := by
  intro fuel
  induction fuel with
  | zero => intro z _; simp only [Gen.C06.countTrailingZeros_loop1, C06.ctzFrom]
  | succ n ih =>
    intro z hz
    have hlt : (z : Int) < 48 := by omega
    have hw : wrapU8 ((z : Int) + 1) = ((z + 1 : Nat) : Int) := by simp only [wrapU8]; omega
    simp only [Gen.C06.countTrailingZeros_loop1, C06.ctzFrom, hlt, if_true, getBit_refines, hw]
    by_cases hb : C06.getBit i z = 0
    · have hb' : ¬ ((C06.getBit i z : Nat) : Int) ≠ 0 := by omega
      simp only [hb, if_false, ne_eq, not_true_eq_false]
      exact ih (z + 1) (by omega)
    · have hb' : ((C06.getBit i z : Nat) : Int) ≠ 0 := by omega
      simp only [hb, hb', if_true, ne_eq, not_false_eq_true]

/-- `countTrailingZeros(index)`: for every index the regenerated definition is the model's `ctz`
    (capped at `maxHeight`). -/
theorem countTrailingZeros_refines (i : Nat) :
    Gen.C06.countTrailingZeros i = (C06.ctz i : Nat) := by
  simp only [Gen.C06.countTrailingZeros, C06.ctz, C06.maxHeight]
  exact ctz_loop_refines i 48 0 (by omega)

/-- Non-vacuity of the hypotheses, on non-trivial instances. -/
example : Gen.C06.getPrefix 0xFFFF 4 = (C06.getPrefix 0xFFFF 4 : Nat) :=
  getPrefix_refines 0xFFFF 4 (by omega) (by omega)
example : Gen.C06.getPrefix 45 2 = 44 := by decide
example : Gen.C06.getPrefix 45 200 = 0 := by decide
example : Gen.C06.countTrailingZeros 40 = 3 := by decide
example : Gen.C06.countTrailingZeros 0 = 48 := by decide
example : Gen.C06.countTrailingZeros_loop1 40 48 0 = (C06.ctzFrom 40 0 48 : Nat) :=
  ctz_loop_refines 40 48 0 (by omega)

end LndModel.C06.GenRefine
