/-
C06 driver, cases `kind=recv` of stream `release`: replays
harness/overlay/lnwallet/zz_c06_recv_verif_test.go on `LndModel.C06.Receive` with the real
SHA-256 step (correspondence: result, in-memory store bytes, both commitment points, RAW durable
bytes after every step) and evaluates the receiving half of the property on the implementation's
own answers (monitor).

Lines:
  I A init => ok mstore= mcur= mnext= disk= refetch= k0= k1= …
  R A recvrev kind= obj=<clean|poisoned> sec= np= pt= => <res> fail=<method|-> mstore= mcur= mnext= disk= refetch= k0= …
  L A reload => ok mstore= …
-/
import LndModel.Prelude.Lines
import LndModel.C06.Sha
import LndModel.C06.Receive

open LndModel LndModel.Lines LndModel.C06 LndModel.C06.Receive

namespace LndModel.C06.RecvDriver

structure St where
  caseId : String := "0"
  chan : Option (Chan Bytes Bytes) := none
  /-- monitor bookkeeping, from the trace alone -/
  accepted : List String := []     -- hex of the secrets accepted (clean object, result ok), in order
  ann : List String := []          -- announced commitment points: height ↦ hex
  lastDisk : String := ""
  hazard : Bool := false           -- a poisoned object was used again (probe): stop judging the case
  lines : Nat := 0
  cases : Nat := 0
  ops : Nat := 0
  mismatches : Nat := 0
  monitorFails : Nat := 0
  okRecv : Nat := 0
  storeRejects : Nat := 0
  keyMismatches : Nat := 0
  failedWrites : Nat := 0
  reloads : Nat := 0
  lookups : Nat := 0
  poisonedProbes : Nat := 0
  poisonedHazard : Nat := 0
  samples : Nat := 0

def mismatch (s : St) (detail : String) : IO St := do
  IO.println s!"MISMATCH case={s.caseId} line={s.lines} {detail}"
  return { s with mismatches := s.mismatches + 1 }

def monitor (s : St) (clause detail : String) : IO St := do
  IO.println s!"MONITOR case={s.caseId} clause={clause} line={s.lines} {detail}"
  return { s with monitorFails := s.monitorFails + 1 }

def resOf (ws : List String) : String :=
  match ws.dropWhile (· ≠ "=>") with
  | _ :: r :: _ => r
  | _ => "?"

def resStr : Res → String
  | .ok => "ok" | .storeReject => "err:storereject" | .keyMismatch => "err:keymismatch"
  | .writeFail => "err:injected" | .panic => "panic"

def hexOpt (ws : List String) (k : String) : Option Bytes :=
  match kv? ws k with
  | some "-" => none
  | some h => hexBytes? h
  | none => none

def optHex : Option Bytes → String
  | some b => if b.isEmpty then "-" else bytesHex b
  | none => "-"

/-- the implementation's state as printed on a line -/
def implChan (ws : List String) (poisoned : Bool) : Option (Chan Bytes Bytes) := do
  let disk ← (hexOpt ws "disk") >>= RevState.decode
  let mst ← match (hexOpt ws "mstore") with
    | some b => (match Store.decode b with | .ok s => some s | .error _ => none)
    | none => none
  return { mem := { cur := hexOpt ws "mcur", root := disk.root, store := mst, next := hexOpt ws "mnext" },
           disk := disk, poisoned := poisoned }

/-- correspondence: model state vs printed state; on a difference report once and resync. -/
def compare (s : St) (c : Chan Bytes Bytes) (ws : List String) (what : String) : IO St := do
  let mut diffs : List String := []
  let mstore := (kv? ws "mstore").getD "-"
  if bytesHex c.mem.store.encode != mstore then
    diffs := s!"mstore:model={(bytesHex c.mem.store.encode).take 24}..,impl={mstore.take 24}.." :: diffs
  if optHex c.mem.cur != (kv? ws "mcur").getD "-" then diffs := "mcur" :: diffs
  if optHex c.mem.next != (kv? ws "mnext").getD "-" then diffs := "mnext" :: diffs
  let disk := (kv? ws "disk").getD "-"
  if bytesHex c.disk.encode != disk then
    diffs := s!"disk:model={(bytesHex c.disk.encode).length / 2}B,impl={disk.length / 2}B" :: diffs
  if diffs.isEmpty then return { s with chan := some c }
  let s ← mismatch s s!"{what}: revocation state differs: {" ".intercalate diffs.reverse}"
  return { s with chan := (implChan ws c.poisoned).orElse (fun _ => some c) }

/-- monitor clauses that only need the durable bytes and the look-ups printed on the line. -/
def monitorDurable (s : St) (ws : List String) (changedAllowed : Bool) : IO St := do
  let mut s := s
  let disk := (kv? ws "disk").getD "-"
  let refetch := (kv? ws "refetch").getD "-"
  if !changedAllowed && s.lastDisk != "" && disk != s.lastDisk then
    s ← monitor s "recv-refused-silent" "a refused revoke_and_ack (or a restart) changed the durable revocation state"
  if refetch != disk then
    s ← monitor s "recv-roundtrip" "re-encoding the revocation state decoded from the database does not give the stored bytes back"
  if disk.length / 2 > 33 + 32 + 1969 + 33 then
    s ← monitor s "bounded" s!"durable revocation state has {disk.length / 2} bytes"
  -- every accepted secret is reproduced by the decoded durable store, nothing else is
  if !s.hazard then
    let n := s.accepted.length
    for v in List.range (n + 3) do
      match kv? ws s!"k{v}" with
      | none => pure ()
      | some got =>
        s := { s with lookups := s.lookups + 1 }
        let want := (s.accepted[v]?).getD "none"
        if got != want then
          s ← monitor s "recv-reproduce" s!"durable store after {n} accepted revocations: LookUp({v}) = {got.take 16}.., want {want.take 16}.."
  return { s with lastDisk := disk }

def step (s : St) (line : String) : IO St := do
  let s := { s with lines := s.lines + 1 }
  let ws := words line
  match ws with
  | "CASE" :: id :: _ =>
    let s := { s with caseId := id, chan := none, accepted := [], ann := [], lastDisk := "",
                       hazard := false, cases := s.cases + 1 }
    if s.samples < 1 then
      IO.println s!"SAMPLE {line}"
      return { s with samples := s.samples + 1 }
    return s
  | ["END"] => return s
  | "#" :: _ => return s
  | "I" :: _ =>
    let some c := implChan ws false | mismatch s "initial revocation state does not decode"
    let mut s := { s with ann := [(kv? ws "mcur").getD "-", (kv? ws "mnext").getD "-"] }
    if c.mem != c.disk then
      s ← mismatch s "initial in-memory and durable revocation state differ"
    if c.disk.store != Store.new zeroHash then
      s ← mismatch s "initial store is not the fresh store"
    s ← compare s c ws "init"
    monitorDurable s ws true
  | "L" :: _ =>
    let s := { s with ops := s.ops + 1, reloads := s.reloads + 1 }
    if resOf ws != "ok" then return s
    let some c := s.chan | return s
    let s ← compare s c.reload ws "reload"
    monitorDurable s ws false
  | "R" :: _ =>
    let mut s := { s with ops := s.ops + 1 }
    let impl := resOf ws
    let failS := (kv? ws "fail").getD "-"
    let poisonedObj := (kv? ws "obj").getD "clean" == "poisoned"
    let some sec := hexOpt ws "sec" | mismatch s "bad secret"
    let some np := hexOpt ws "np" | mismatch s "bad next point"
    let some ptv := hexOpt ws "pt" | mismatch s "bad point"
    let secHex := (kv? ws "sec").getD "-"
    if s.samples < 4 && impl != "ok" then
      IO.println s!"SAMPLE case={s.caseId} {(line.take 160)}"
      s := { s with samples := s.samples + 1 }
    -- (X) model
    match s.chan with
    | none => pure ()
    | some c =>
      let (r, c') := c.recvRev flipSha (fun _ => ptv) sec np (failS != "-")
      if resStr r != impl then
        s ← mismatch s s!"recvrev: result model={resStr r} impl={impl}"
        s := { s with chan := (implChan ws (impl != "ok" && impl != "err:storereject")).orElse (fun _ => some c') }
      else
        s ← compare s c' ws "recvrev"
    -- (S) monitor, from the line and the history of the case alone
    if poisonedObj then
      -- probe outside the node's behaviour (lnd's link fails on a refused revocation and the
      -- channel is re-read from the database): reported as a count, see `poisoned_object_hazard`
      s := { s with poisonedProbes := s.poisonedProbes + 1, hazard := true }
      if impl == "ok" then s := { s with poisonedHazard := s.poisonedHazard + 1 }
      return { s with lastDisk := (kv? ws "disk").getD "-" }
    let h := s.accepted.length
    if impl == "ok" then
      s := { s with okRecv := s.okRecv + 1 }
      let want := (s.ann[h]?).getD "?"
      if (kv? ws "pt").getD "-" != want then
        s ← monitor s "recv-point-check" s!"accepted a revoke_and_ack for remote height {h} whose secret does not belong to the commitment point announced for that height (pt={((kv? ws "pt").getD "-").take 16}.., announced={want.take 16}..)"
      s := { s with accepted := s.accepted ++ [secHex], ann := s.ann ++ [(kv? ws "np").getD "-"] }
      -- what was persisted is what the object holds: current point ‖ root ‖ store ‖ next point
      let disk := (kv? ws "disk").getD "-"
      let g (k : String) : String := match kv? ws k with | some "-" => "" | some v => v | none => ""
      let expect := g "mcur" ++ ((disk.drop 66).take 64) ++ g "mstore" ++ g "mnext"
      if disk != expect then
        s ← monitor s "recv-persisted-equals-memory" s!"after an accepted revoke_and_ack the durable revocation state ({disk.length / 2} bytes) is not the serialisation of the state the channel object holds ({expect.length / 2} bytes: current point, producer root, store, next point)"
      monitorDurable s ws true
    else
      if (kv? ws "kind").getD "" == "honest" && failS == "-" && !s.hazard then
        s ← monitor s "recv-accept-honest" s!"a clean object refused the honest peer's revoke_and_ack for remote height {h} ({impl})"
      if impl == "err:storereject" then s := { s with storeRejects := s.storeRejects + 1 }
      if impl == "err:keymismatch" then s := { s with keyMismatches := s.keyMismatches + 1 }
      if failS != "-" then s := { s with failedWrites := s.failedWrites + 1 }
      monitorDurable s ws false
  | [] => return s
  | _ => mismatch s s!"unparsed line: {line.take 60}"

def report (s : St) : IO Unit := do
  IO.println s!"STAT rcv_cases={s.cases}"
  IO.println s!"STAT rcv_evaluations={s.ops}"
  IO.println s!"STAT rcv_accepted={s.okRecv}"
  IO.println s!"STAT rcv_store_rejects={s.storeRejects}"
  IO.println s!"STAT rcv_key_mismatches={s.keyMismatches}"
  IO.println s!"STAT rcv_failed_writes={s.failedWrites}"
  IO.println s!"STAT rcv_reloads={s.reloads}"
  IO.println s!"STAT rcv_lookups_checked={s.lookups}"
  IO.println s!"STAT rcv_poisoned_object_probes={s.poisonedProbes}"
  IO.println s!"STAT rcv_poisoned_object_hazard={s.poisonedHazard}"
  IO.println s!"STAT rcv_mismatches={s.mismatches}"
  IO.println s!"STAT rcv_monitor_failures={s.monitorFails}"

end LndModel.C06.RecvDriver
