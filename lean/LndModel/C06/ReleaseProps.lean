/-
C06 — release rule under write failures: theorems about `LndModel.C06.Release`.

All theorems quantify over ALL operation lists (any interleaving of received commitments,
revocations, signatures, reconnects on the same handle, reloads from the database,
channel_reestablish exchanges with arbitrary peer heights) and over an ARBITRARY choice of
failing durable writes (every `writeFails` flag is part of the operation list).
-/
import LndModel.C06.Release

namespace LndModel.C06.Release

/-- the inductive invariant of the code (`rollback = true`). -/
structure Inv (n : Node) : Prop where
  /-- the in-memory handle never runs ahead of (or behind) the database. -/
  handle : n.mem = n.disk
  /-- an object whose revoke never failed stands exactly at the durable height. -/
  obj : n.lc.ahead = false → n.lc.tail = n.disk
  /-- no object stands below the durable height. -/
  above : n.disk ≤ n.lc.tail
  /-- the release rule. -/
  rel : ∀ r ∈ n.out, r.ahead = false → r.secret < r.durAt
  /-- what was durable when a message left is still durable (heights never go back). -/
  mono : ∀ r ∈ n.out, r.durAt ≤ n.disk
  point : ∀ r ∈ n.out, r.nextPoint = r.secret + 2
  retrans : ∀ r ∈ n.out, r.src = .sync → r.ahead = false → r.secret + 1 = r.durAt
  claim : ∀ c ∈ n.claims, c.next = c.durAt + 1 ∧ c.point = c.durAt

theorem inv_init : Inv Node.init := by
  refine ⟨rfl, fun _ => rfl, Nat.le_refl _, ?_, ?_, ?_, ?_, ?_⟩ <;> intro r hr <;>
    simp [Node.init] at hr

theorem signCore_frame (n : Node) (f : Bool) :
    (signCore n f).1.disk = n.disk ∧ (signCore n f).1.mem = n.mem ∧
    (signCore n f).1.lc.tail = n.lc.tail ∧ (signCore n f).1.lc.ahead = n.lc.ahead ∧
    (signCore n f).1.out = n.out ∧ (signCore n f).1.claims = n.claims := by
  unfold signCore
  split
  · simp
  · split <;> simp

theorem inv_signCore {n : Node} (h : Inv n) (f : Bool) : Inv (signCore n f).1 := by
  obtain ⟨h1, h2, h3, h4, h5, h6⟩ := signCore_frame n f
  exact ⟨by rw [h2, h1]; exact h.handle, by rw [h4, h3, h1]; exact h.obj,
    by rw [h1, h3]; exact h.above,
    by rw [h5]; exact h.rel, by rw [h5, h1]; exact h.mono, by rw [h5]; exact h.point,
    by rw [h5]; exact h.retrans, by rw [h6]; exact h.claim⟩

theorem syncSign_cases (n : Node) (ptail : Nat) (owe f : Bool) :
    (syncSign n ptail owe f).1 = n ∨ (syncSign n ptail owe f).1 = (signCore n f).1 := by
  unfold syncSign
  split
  · split
    · rename_i h; right; rw [h]
    · left; rfl
    · left; rfl
  · left; rfl

theorem inv_syncSign {n : Node} (h : Inv n) (ptail : Nat) (owe f : Bool) :
    Inv (syncSign n ptail owe f).1 := by
  rcases syncSign_cases n ptail owe f with e | e <;> rw [e]
  · exact h
  · exact inv_signCore h f

theorem syncSign_frame (n : Node) (ptail : Nat) (owe f : Bool) :
    (syncSign n ptail owe f).1.disk = n.disk ∧ (syncSign n ptail owe f).1.lc.tail = n.lc.tail ∧
    (syncSign n ptail owe f).1.lc.ahead = n.lc.ahead := by
  rcases syncSign_cases n ptail owe f with e | e <;> rw [e]
  · exact ⟨rfl, rfl, rfl⟩
  · obtain ⟨h1, _, h3, h4, _, _⟩ := signCore_frame n f
    exact ⟨h1, h3, h4⟩

theorem syncSign_out (n : Node) (ptail : Nat) (owe f : Bool) :
    (syncSign n ptail owe f).1.out = n.out := by
  rcases syncSign_cases n ptail owe f with e | e <;> rw [e]
  exact (signCore_frame n f).2.2.2.2.1

/-- adding the (at most one) retransmitted revocation keeps the invariant. -/
theorem inv_owed {n m : Node} (h : Inv m) (ptail : Nat) (hd : m.disk = n.disk)
    (ht : m.lc.tail = n.lc.tail) (ha : m.lc.ahead = n.lc.ahead) :
    Inv { m with out := owed n ptail ++ m.out } := by
  unfold owed
  by_cases hp : ptail + 1 = n.lc.tail
  · simp only [hp, if_true, List.singleton_append]
    refine ⟨h.handle, h.obj, h.above, ?_, ?_, ?_, ?_, h.claim⟩
    · intro r hr hna
      rcases List.mem_cons.1 hr with rfl | hr
      · have := h.obj (by rw [ha]; exact hna)
        show n.lc.tail - 1 < n.disk
        omega
      · exact h.rel r hr hna
    · intro r hr
      rcases List.mem_cons.1 hr with rfl | hr
      · show n.disk ≤ m.disk
        omega
      · exact h.mono r hr
    · intro r hr
      rcases List.mem_cons.1 hr with rfl | hr
      · show n.lc.tail + 1 = n.lc.tail - 1 + 2
        omega
      · exact h.point r hr
    · intro r hr hs hna
      rcases List.mem_cons.1 hr with rfl | hr
      · have := h.obj (by rw [ha]; exact hna)
        show n.lc.tail - 1 + 1 = n.disk
        omega
      · exact h.retrans r hr hs hna
  · simp only [hp, if_false, List.nil_append]
    exact h

/-- every operation, with every fate of its durable write, preserves the invariant. -/
theorem inv_step {n : Node} (h : Inv n) (op : Op) : Inv (step code n op).1 := by
  cases op with
  | recv => exact ⟨h.handle, h.obj, h.above, h.rel, h.mono, h.point, h.retrans, h.claim⟩
  | revoke f =>
    simp only [step]
    split
    · exact h
    · cases f with
      | true =>
        simp only [if_true, code]
        exact ⟨h.handle, fun ha => by simp at ha, Nat.le_succ_of_le h.above, h.rel, h.mono,
          h.point, h.retrans, h.claim⟩
      | false =>
        simp only [Bool.false_eq_true, if_false]
        refine ⟨rfl, fun _ => rfl, Nat.le_refl _, ?_, ?_, ?_, ?_, h.claim⟩
        · intro r hr ha
          rcases List.mem_cons.1 hr with rfl | hr
          · show n.lc.tail < n.lc.tail + 1
            omega
          · exact h.rel r hr ha
        · intro r hr
          rcases List.mem_cons.1 hr with rfl | hr
          · exact Nat.le_refl _
          · have h1 := h.mono r hr
            have h2 := h.above
            show r.durAt ≤ n.lc.tail + 1
            omega
        · intro r hr
          rcases List.mem_cons.1 hr with rfl | hr
          · rfl
          · exact h.point r hr
        · intro r hr hs ha
          rcases List.mem_cons.1 hr with rfl | hr
          · cases hs
          · exact h.retrans r hr hs ha
  | sign f => exact inv_signCore h f
  | recvRev f =>
    simp only [step]
    split
    · exact h
    · split
      · exact h
      · exact ⟨h.handle, h.obj, h.above, h.rel, h.mono, h.point, h.retrans, h.claim⟩
  | ready f =>
    simp only [step]
    split <;> exact h
  | reopen =>
    exact ⟨h.handle, fun _ => h.handle, Nat.le_of_eq h.handle.symm, h.rel, h.mono, h.point,
      h.retrans, h.claim⟩
  | reload =>
    exact ⟨rfl, fun _ => rfl, Nat.le_refl _, h.rel, h.mono, h.point, h.retrans, h.claim⟩
  | reest =>
    refine ⟨h.handle, h.obj, h.above, h.rel, h.mono, h.point, h.retrans, ?_⟩
    intro c hc
    rcases List.mem_cons.1 hc with rfl | hc
    · exact ⟨by show n.mem + 1 = n.disk + 1; rw [h.handle], h.handle⟩
    · exact h.claim c hc
  | sync ptail pnext owe f =>
    obtain ⟨hd, ht, ha⟩ := syncSign_frame n ptail owe f
    have h1 := inv_syncSign h ptail owe f
    have h2 := inv_owed (n := n) h1 ptail hd ht ha
    simp only [step]
    repeat' split
    all_goals first | exact h | exact h1 | exact h2

theorem inv_run {n : Node} (h : Inv n) (ops : List Op) : Inv (run code n ops) := by
  induction ops generalizing n with
  | nil => exact h
  | cons op ops ih => exact ih (inv_step h op)

/-! ## The theorems -/

/-- **release_under_write_failures** (must).  For EVERY operation list — any interleaving of
    received commitments, revocations, signatures, received revocations, reconnects on the same
    in-memory handle, reloads from the database, channel_reestablish exchanges with arbitrary peer
    heights — and EVERY choice of failing durable writes: each revoke_and_ack that ever left the
    node (returned by `RevokeCurrentCommitment` or retransmitted by `ProcessChanSyncMsg`) reveals
    the secret of a height strictly below the local commitment height that was durable at that
    moment, and that height is still durable at the end.  The only releases not covered are those
    made by a `LightningChannel` object whose own `RevokeCurrentCommitment` had failed on its
    write before (`Rel.ahead`; see `ahead_object_violates`). -/
theorem release_under_write_failures (ops : List Op) :
    let n := run code Node.init ops
    ∀ r ∈ n.out, r.ahead = false → r.secret < r.durAt ∧ r.durAt ≤ n.disk := by
  intro n r hr ha
  have hI : Inv n := inv_run inv_init ops
  exact ⟨hI.rel r hr ha, hI.mono r hr⟩

/-- a failed write changes nothing durable and hands out nothing: the state after a failed
    durable step differs from the state before it only inside the `LightningChannel` object. -/
theorem failed_write_is_silent (n : Node) (op : Op) (h : (step code n op).2 = .errWrite) :
    (step code n op).1.disk = n.disk ∧ (step code n op).1.rdisk = n.rdisk ∧
    (step code n op).1.rpend = n.rpend ∧ (step code n op).1.mem = n.mem ∧
    (step code n op).1.rmem = n.rmem ∧ (step code n op).1.out = n.out := by
  cases op with
  | recv => simp [step] at h
  | revoke f =>
    by_cases hp : n.lc.tip ≤ n.lc.tail
    · simp [step, hp] at h
    · cases f with
      | true => simp [step, hp, code]
      | false => simp [step, hp] at h
  | sign f =>
    by_cases h1 : n.lc.rtip > n.lc.rtail
    · simp [step, signCore, h1] at h
    · cases f with
      | true => simp [step, signCore, h1]
      | false => simp [step, signCore, h1] at h
  | recvRev f =>
    by_cases h1 : n.lc.rtip ≤ n.lc.rtail
    · simp [step, h1] at h
    · cases f with
      | true => simp [step, h1]
      | false => simp [step, h1] at h
  | ready f =>
    cases f <;> simp [step]
  | reopen => simp [step] at h
  | reload => simp [step] at h
  | reest => simp [step] at h
  | sync ptail pnext owe f =>
    have key : (syncSign n ptail owe f).2 = .errWrite → (syncSign n ptail owe f).1 = n := by
      unfold syncSign
      split
      · split
        · intro hh; cases hh
        · intro hh; cases hh
        · intro _; rfl
      · intro hh; cases hh
    by_cases h1 : ptail > n.lc.tail
    · simp [step, h1] at h
    · by_cases h2 : ptail + 1 < n.lc.tail
      · simp [step, h1, h2] at h
      · by_cases h3 : (syncSign n ptail owe f).2 = .ok
        · simp only [step, h1, h2, h3, if_false, ne_eq, not_true_eq_false] at h
          repeat' split at h
          all_goals cases h
        · simp only [step, h1, h2, h3, if_false, ne_eq, not_false_eq_true, if_true] at h ⊢
          rw [key h]
          exact ⟨rfl, rfl, rfl, rfl, rfl, rfl⟩

/-- secrets returned by `RevokeCurrentCommitment`, oldest first. -/
def revoked (out : List Rel) : List Nat :=
  (out.reverse.filter (fun r => r.src == .revoke)).map Rel.secret

def Chain (n : Node) : Prop := (∀ r ∈ n.out, r.ahead = false) → revoked n.out = List.range n.disk

theorem sync_shape (n : Node) (ptail pnext : Nat) (owe f : Bool) :
    (step code n (.sync ptail pnext owe f)).1.disk = n.disk ∧
    ((step code n (.sync ptail pnext owe f)).1.out = n.out ∨
     (step code n (.sync ptail pnext owe f)).1.out = owed n ptail ++ n.out) := by
  have hd := (syncSign_frame n ptail owe f).1
  have ho := syncSign_out n ptail owe f
  simp only [step]
  repeat' split
  all_goals first
    | exact ⟨rfl, Or.inl rfl⟩
    | exact ⟨hd, Or.inl ho⟩
    | exact ⟨hd, Or.inr (by show owed n ptail ++ _ = _; rw [ho])⟩

theorem revoked_owed (n : Node) (ptail : Nat) (out : List Rel) :
    revoked (owed n ptail ++ out) = revoked out := by
  unfold owed revoked
  split
  · simp [List.filter_append]
  · rfl

theorem chain_step {m : Node} (hm : Inv m) (hc : Chain m) (op : Op) :
    Chain (step code m op).1 := by
  cases op with
  | recv => exact hc
  | revoke f =>
    simp only [step]
    split
    · exact hc
    · cases f with
      | true => simp only [if_true]; exact hc
      | false =>
        simp only [Bool.false_eq_true, if_false]
        intro hall
        have ha : m.lc.ahead = false := hall _ (List.mem_cons_self ..)
        have ht := hm.obj ha
        have hrest := hc (fun r hr => hall r (List.mem_cons_of_mem _ hr))
        show revoked (_ :: m.out) = List.range (m.lc.tail + 1)
        unfold revoked at hrest ⊢
        rw [List.reverse_cons, List.filter_append, List.map_append, hrest, ht, List.range_succ]
        simp
  | sign f =>
    have h := signCore_frame m f
    intro hall
    have hall' : ∀ r ∈ (signCore m f).1.out, r.ahead = false := hall
    show revoked (signCore m f).1.out = List.range (signCore m f).1.disk
    rw [h.2.2.2.2.1] at hall' ⊢
    rw [h.1]
    exact hc hall'
  | recvRev f =>
    simp only [step]
    split
    · exact hc
    · split <;> exact hc
  | ready f =>
    simp only [step]
    split <;> exact hc
  | reopen => exact hc
  | reload => exact hc
  | reest => exact hc
  | sync ptail pnext owe f =>
    obtain ⟨hd, ho⟩ := sync_shape m ptail pnext owe f
    intro hall
    rw [hd]
    rcases ho with ho | ho
    · rw [ho] at hall ⊢
      exact hc hall
    · rw [ho] at hall ⊢
      rw [revoked_owed]
      exact hc (fun r hr => hall r (List.mem_append_right _ hr))

/-- **secrets_follow_chain_under_write_failures**.  In every run in which no release was made
    by an object that was ahead: the revocations returned by `RevokeCurrentCommitment` carry, in
    order, exactly the secrets of heights `0, 1, …, durable height − 1` — no gap and no repeat,
    whatever writes failed in between and however often the node reconnected or reloaded; every
    message carries the commitment point of `secret + 2`; a retransmission on reconnect carries
    exactly the secret of the last height below the durable one. -/
theorem secrets_follow_chain_under_write_failures (ops : List Op) :
    let n := run code Node.init ops
    ((∀ r ∈ n.out, r.ahead = false) → revoked n.out = List.range n.disk) ∧
    (∀ r ∈ n.out, r.nextPoint = r.secret + 2) ∧
    (∀ r ∈ n.out, r.src = .sync → r.ahead = false → r.secret + 1 = r.durAt) := by
  intro n
  have hI : Inv n := inv_run inv_init ops
  refine ⟨?_, hI.point, hI.retrans⟩
  have gen : ∀ (ops : List Op) (m : Node), Inv m → Chain m → Chain (run code m ops) := by
    intro ops
    induction ops with
    | nil => intro m _ hc; exact hc
    | cons op ops ih => intro m hm hc; exact ih _ (inv_step hm op) (chain_step hm hc op)
  exact gen ops Node.init inv_init (by intro _; rfl)

/-- **reestablish_claims_durable**.  Every channel_reestablish the node produces from its
    in-memory handle — after any history of failed writes — asks for the commitment right above
    the durable one (`NextLocalCommitHeight = durable + 1`) and advertises the commitment point of
    the durable height: the node never acknowledges a commitment that is not durable. -/
theorem reestablish_claims_durable (ops : List Op) :
    let n := run code Node.init ops
    ∀ c ∈ n.claims, c.next = c.durAt + 1 ∧ c.point = c.durAt := by
  intro n
  exact (inv_run inv_init ops).claim

/-! ## Non-vacuity and witnesses -/

/-- a run with a failed revoke write, a reconnect on the same handle with a retransmission
    request, a second attempt that succeeds and a retransmission after it: two releases,
    none by an object that was ahead. -/
example :
    let n := run code Node.init
      [.recv, .revoke true, .reopen, .reest, .sync 0 1 false false, .recv, .revoke false,
       .sign false, .reload, .sync 0 1 true false]
    n.out.length = 2 ∧ (∀ r ∈ n.out, r.ahead = false) ∧ n.disk = 1 ∧ revoked n.out = [0] := by
  decide

/-- **no_rollback_violates** (machine-checked witness).  In the variant that assigns the
    in-memory commitment before the write and returns the store error, ONE failed write is enough:
    receive a commitment, the revoke's write fails, a new `LightningChannel` is built on the same
    handle, the peer's channel_reestablish (it never saw a revocation: tail 0) is processed — the
    secret of height 0 leaves the node while the durable commitment height is still 0, and the
    node's own channel_reestablish acknowledges the non-durable commitment. -/
theorem no_rollback_violates :
    let n := run noRollback Node.init [.recv, .revoke true, .reopen, .reest, .sync 0 1 false false]
    (∃ r ∈ n.out, r.ahead = false ∧ r.secret = 0 ∧ r.durAt = 0 ∧ n.disk = 0) ∧
    (∃ c ∈ n.claims, c.next = 2 ∧ c.durAt = 0) := by
  decide

/-- the same operation list on the code releases nothing. -/
example :
    (run code Node.init [.recv, .revoke true, .reopen, .reest, .sync 0 1 false false]).out = [] := by
  decide

/-- **ahead_object_violates** (why `Rel.ahead` is excluded above).  The code does not undo the
    advance of the `LightningChannel`'s own local chain when the write inside
    `RevokeCurrentCommitment` fails: if the caller keeps using THAT object (instead of building a
    new one from the handle or the database) and the peer's channel_reestablish arrives, the object
    retransmits the secret of the newest durable commitment. -/
theorem ahead_object_violates :
    let n := run code Node.init [.recv, .revoke true, .sync 0 1 false false]
    ∃ r ∈ n.out, r.ahead = true ∧ r.secret = 0 ∧ r.durAt = 0 ∧ n.disk = 0 := by
  decide

end LndModel.C06.Release
