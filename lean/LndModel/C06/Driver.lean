/-
C06 driver: replays a harness trace on the model (correspondence, `MISMATCH`)
and evaluates the property monitor on the implementation's answers (`MONITOR`).
-/
import LndModel.Prelude.Lines
import LndModel.C06.Sha
import LndModel.C06.ReleaseDriver
import LndModel.C06.RecvDriver

open LndModel LndModel.Lines LndModel.C06

namespace LndModel.C06.Driver

structure St where
  caseId : String := "0"
  kind : String := ""
  store : Store Bytes := Store.new zeroHash
  root : Bytes := zeroHash
  /-- number of producer secrets the store has received, while `honest`. -/
  k : Nat := 0
  honest : Bool := false
  /-- the whole history of the store is known from the trace: an honest prefix of `k0` producer
      secrets, then the accepted values `vals` (position ↦ hex), `pos` = number of values. -/
  known : Bool := false
  k0 : Nat := 0
  pos : Nat := 0
  vals : List (Nat × String) := []
  accLooks : Nat := 0
  lastEnc : Option String := none
  afterLoadOfEnc : Bool := false
  lines : Nat := 0
  cases : Nat := 0
  mismatches : Nat := 0
  monitorFails : Nat := 0
  ops : Nat := 0
  honestAdds : Nat := 0
  rejects : Nat := 0
  lookHits : Nat := 0
  lookMiss : Nat := 0
  maxLen : Nat := 0
  deepLevels : List Nat := []   -- bucket levels written by accepted adds
  samples : Nat := 0

def mismatch (s : St) (detail : String) : IO St := do
  IO.println s!"MISMATCH case={s.caseId} line={s.lines} {detail}"
  return { s with mismatches := s.mismatches + 1 }

def monitor (s : St) (clause detail : String) : IO St := do
  IO.println s!"MONITOR case={s.caseId} clause={clause} line={s.lines} {detail}"
  return { s with monitorFails := s.monitorFails + 1 }

def resOf (ws : List String) : String :=
  match ws.dropWhile (· ≠ "=>") with
  | _ :: r :: _ => r
  | _ => "?"

def optHex : Option Bytes → String
  | some b => bytesHex b
  | none => "none"

def step (s : St) (line : String) : IO St := do
  let s := { s with lines := s.lines + 1 }
  let ws := words line
  match ws with
  | "FACT" :: rest =>
    let chk (s : St) (key : String) (v : Nat) : IO St :=
      if kvNat? rest key == some v then pure s
      else mismatch s s!"fact {key}: model={v} impl={(kv? rest key).getD "?"}"
    let s ← chk s "maxHeight" maxHeight
    let s ← chk s "startIndex" startIndex
    chk s "numBuckets" numBuckets
  | "CASE" :: id :: rest =>
    let root := ((kv? rest "root").bind hexBytes?).getD zeroHash
    let k0 := (kvNat? rest "k0").getD 0
    let s := { s with caseId := id, kind := (kv? rest "kind").getD "", root := root, k := k0,
                       honest := true, known := true, k0 := k0, pos := k0, vals := [], lastEnc := none, afterLoadOfEnc := false,
                       cases := s.cases + 1 }
    if s.samples < 3 then
      IO.println s!"SAMPLE {line}"
      return { s with samples := s.samples + 1 }
    return s
  | ["END"] => return s
  | ["new"] => return { s with store := Store.new zeroHash, ops := s.ops + 1 }
  | "load" :: hx :: _ =>
    let s := { s with ops := s.ops + 1 }
    let some bs := hexBytes? hx | mismatch s "bad hex"
    let impl := resOf ws
    -- monitor: the implementation's OWN encoding of a store must decode again
    let s ← if s.lastEnc == some hx && impl != "ok" then
        monitor s "roundtrip" s!"NewRevocationStoreFromBytes refuses ({impl}) the {bs.length}-byte encoding that Encode has just produced (lenBuckets={bs.headD 0})"
      else pure s
    match Store.decode bs with
    | .ok st =>
      let s ← if impl == "ok" then pure s else mismatch s s!"load: model=ok impl={impl}"
      -- when the harness loads an arbitrary byte string the store is no longer known honest,
      -- except for the documented honest constructions (kinds deep/foreign) and enc→load.
      let keep := s.kind == "deep" || s.kind == "foreign" || s.kind == "subtree" || s.lastEnc == some hx
      return { s with store := st, honest := s.honest && keep, known := s.known && keep,
                      afterLoadOfEnc := s.lastEnc == some hx }
    | .error .short =>
      if impl == "err" then return { s with honest := false, known := false } else mismatch s s!"load: model=err impl={impl}"
    | .error .outOfRange =>
      if impl == "panic" then return { s with honest := false, known := false } else mismatch s s!"load: model=panic impl={impl}"
  | "add" :: hx :: _ | "addp" :: _ :: hx :: _ =>
    let s := { s with ops := s.ops + 1 }
    let some h := hexBytes? hx | mismatch s "bad hex"
    let impl := resOf ws
    let isProd := ws.head? == some "addp"
    let pv := if isProd then (ws[1]? >>= nat?) else none
    let model := s.store.addNextEntry flipSha h
    let modelRes := match model with
      | .ok _ => "ok" | .error .outOfRange => "panic" | .error _ => "reject"
    let s ← if modelRes == impl then pure s else mismatch s s!"add: model={modelRes} impl={impl}"
    -- monitor (independent of the model's verdict): uses only the trace + SHA-256.
    let want := producerAt flipSha s.root s.k
    let isNext := want == some h
    let bucket := ctz s.store.index
    let mut s := s
    if s.honest then
      if isProd && pv == some s.k && s.k ≤ startIndex then
        if ¬ isNext then
          s ← monitor s "chain" s!"producer value for v={s.k} differs from SHA-256 derivation"
        if impl != "ok" then
          s ← monitor s "accept-next" s!"store with k={s.k} secrets refused/crashed on the producer's next secret ({impl}) index={startIndex - s.k}"
      else if ¬ isNext && bucket ≥ 1 && s.k ≤ startIndex then
        if impl == "ok" then
          s ← monitor s "reject-inconsistent" s!"k={s.k} index={startIndex - s.k} accepted a secret that is not the producer's"
    -- advance monitor bookkeeping from the implementation's answer
    if impl == "ok" then
      s := { s with vals := (s.pos, hx) :: s.vals, pos := s.pos + 1 }
      if s.honest && isNext then
        s := { s with k := s.k + 1, honestAdds := s.honestAdds + 1,
                      deepLevels := if s.deepLevels.contains bucket then s.deepLevels else bucket :: s.deepLevels }
      else
        s := { s with honest := false }
    else
      s := { s with rejects := s.rejects + 1 }
    match model with
    | .ok st => return { s with store := st }
    | .error _ => return s
  | "look" :: v :: _ =>
    let s := { s with ops := s.ops + 1 }
    let some v := nat? v | mismatch s "bad nat"
    let impl := resOf ws
    let model := optHex (s.store.lookUp flipSha v)
    let mut s ← if model == impl then pure s else mismatch s s!"look {v}: model={model} impl={impl}"
    if s.honest then
      let want := if v < s.k then optHex (producerAt flipSha s.root v) else "none"
      if want != impl then
        s ← monitor s "reproduce" s!"k={s.k} look({v}) = {impl}, want {want}"
    if s.known && !s.honest then
      -- theorem store_reproduces_accepted: WHATEVER was accepted is reproduced exactly
      let want :=
        if v < s.k0 then optHex (producerAt flipSha s.root v)
        else if v < s.pos then ((s.vals.find? (·.1 == v)).map (·.2)).getD "none"
        else "none"
      s := { s with accLooks := s.accLooks + 1 }
      if want != impl then
        s ← monitor s "reproduce-accepted" s!"{s.pos} values accepted (honest prefix {s.k0}); look({v}) = {impl.take 16}.., the value accepted at that position is {want.take 16}.."
    if impl == "none" then return { s with lookMiss := s.lookMiss + 1 }
    else return { s with lookHits := s.lookHits + 1 }
  | "prod" :: rhx :: v :: _ =>
    let s := { s with ops := s.ops + 1 }
    let some r := hexBytes? rhx | mismatch s "bad hex"
    let some v := nat? v | mismatch s "bad nat"
    let impl := resOf ws
    let model := match producerAt flipSha r v with
      | some h => bytesHex h | none => "err"
    let mut s ← if model == impl then pure s else mismatch s s!"prod {v}: model={model} impl={impl}"
    -- monitor: the producer's chain has exactly 2^48 positions; anything beyond must be refused
    if v > startIndex && impl != "err" then
      s ← monitor s "producer-range" s!"AtIndex({v}) returned a secret although the chain ends at index {startIndex}"
    return s
  | "enc" :: _ =>
    let s := { s with ops := s.ops + 1 }
    let impl := resOf ws
    let model := bytesHex s.store.encode
    let mut s ← if model == impl then pure s else mismatch s s!"enc: model={model.take 40}.. impl={impl.take 40}.."
    -- monitor: serialisation round trip and size bound
    if s.afterLoadOfEnc then
      if s.lastEnc != some impl then
        s ← monitor s "roundtrip" "encode ∘ decode ∘ encode changed the bytes"
    let nbytes := impl.length / 2
    if impl != "err" && nbytes > 1 + 40 * 49 + 8 then
      s ← monitor s "bounded" s!"encoding has {nbytes} bytes (> 49 values)"
    return { s with lastEnc := some impl, afterLoadOfEnc := false }
  | "state" :: _ =>
    let s := { s with ops := s.ops + 1 }
    let len := (kvNat? ws "len").getD 0
    let idx := (kvNat? ws "index").getD 0
    let mut s := s
    if len != s.store.lenBuckets || idx != s.store.index then
      s ← mismatch s s!"state: model=len={s.store.lenBuckets},index={s.store.index} impl=len={len},index={idx}"
    if s.honest && len > 49 then
      s ← monitor s "bounded" s!"lenBuckets={len}"
    return { s with maxLen := max s.maxLen len }
  | [] => return s
  | _ => mismatch s s!"unparsed line: {line.take 60}"

end LndModel.C06.Driver

namespace LndModel.C06.Driver

/-- stream `release` carries two kinds of cases: `kind=release` (ReleaseDriver.lean) and
    `kind=recv` (RecvDriver.lean). -/
structure RelSt where
  rel : LndModel.C06.ReleaseDriver.St := {}
  rcv : LndModel.C06.RecvDriver.St := {}
  inRecv : Bool := false

def relStep (s : RelSt) (line : String) : IO RelSt := do
  let ws := words line
  match ws with
  | "CASE" :: _ :: rest =>
    if kv? rest "kind" == some "recv" then
      return { s with inRecv := true, rcv := ← LndModel.C06.RecvDriver.step s.rcv line }
    else
      return { s with inRecv := false, rel := ← LndModel.C06.ReleaseDriver.step s.rel line }
  | _ =>
    if s.inRecv then
      let rcv ← LndModel.C06.RecvDriver.step s.rcv line
      return { s with rcv := rcv, inRecv := ws != ["END"] }
    else
      return { s with rel := ← LndModel.C06.ReleaseDriver.step s.rel line }

end LndModel.C06.Driver

open LndModel.C06.Driver in
def main (args : List String) : IO Unit := do
  -- stream `release`: fault-injection trace of the lnwallet harness (ReleaseDriver.lean) and
  -- the receiving-half cases (RecvDriver.lean)
  if args.contains "release" then
    let s ← LndModel.Lines.foldStdin relStep {}
    LndModel.C06.ReleaseDriver.report s.rel
    LndModel.C06.RecvDriver.report s.rcv
    return
  let s ← LndModel.Lines.foldStdin step {}
  IO.println s!"STAT lines={s.lines}"
  IO.println s!"STAT cases={s.cases}"
  IO.println s!"STAT evaluations={s.ops}"
  IO.println s!"STAT nontrivial={s.honestAdds + s.rejects + s.lookHits}"
  IO.println s!"STAT honest_adds={s.honestAdds}"
  IO.println s!"STAT rejects={s.rejects}"
  IO.println s!"STAT look_hits={s.lookHits}"
  IO.println s!"STAT look_misses={s.lookMiss}"
  IO.println s!"STAT looks_after_foreign_accepts={s.accLooks}"
  IO.println s!"STAT max_len_buckets={s.maxLen}"
  IO.println s!"STAT bucket_levels_written={s.deepLevels.length}"
  IO.println s!"STAT mismatches={s.mismatches}"
  IO.println s!"STAT monitor_failures={s.monitorFails}"
