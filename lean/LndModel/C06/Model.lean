/-
C06 — model of lnd's `shachain` package (element.go, utils.go, store.go,
producer.go).  Hand-written; tied to the code by the behavioural
correspondence check (harness/overlay/shachain/zz_c06_verif_test.go →
drv_c06), which replays every harness operation on these definitions with
`flip` instantiated by real SHA-256 and compares results byte for byte.

The model is generic in the hash type `H` and in the one-step function
`flip h p` = "flip bit `p` of `h`, then SHA-256" so that theorems hold for any
hash function.
-/
namespace LndModel.C06

/-- `maxHeight` in utils/element.go. -/
def maxHeight : Nat := 48
/-- `startIndex = (1 << maxHeight) - 1`. -/
def startIndex : Nat := 2 ^ 48 - 1
/-- Number of slots in `RevocationStore.buckets` (49 after the fix: commit "fix: shachain ..."). -/
def numBuckets : Nat := 49

/-- `getBit(index, position)`. -/
def getBit (i p : Nat) : Nat := (i / 2 ^ p) % 2

/-- `getPrefix(index, position)`: `index & ^(2^position - 1)` for a 64-bit index. -/
def getPrefix (i p : Nat) : Nat := i - i % 2 ^ p

/-- Loop of `countTrailingZeros`: first position `z` in `[z0, z0+fuel)` whose bit is set,
    else `z0 + fuel`. -/
def ctzFrom (i : Nat) : Nat → Nat → Nat
  | z, 0 => z
  | z, fuel + 1 => if getBit i z ≠ 0 then z else ctzFrom i (z + 1) fuel

/-- `countTrailingZeros(index)`: capped at `maxHeight`. -/
def ctz (i : Nat) : Nat := ctzFrom i 0 maxHeight

/-- Bit positions `zeros-1 … 0` (high to low) whose bit is set in `to`:
    the loop of `deriveBitTransformations`. -/
def positions (zeros to : Nat) : List Nat :=
  ((List.range zeros).reverse).filter (fun p => getBit to p == 1)

structure Elem (H : Type) where
  idx : Nat
  hash : H
deriving Repr, DecidableEq

variable {H : Type}

/-- `element.derive(toIndex)`; `none` = "prefixes are different". -/
def derive (flip : H → Nat → H) (e : Elem H) (to : Nat) : Option (Elem H) :=
  if e.idx = to then some ⟨to, e.hash⟩
  else
    let z := ctz e.idx
    if e.idx ≠ getPrefix to z then none
    else some ⟨to, (positions z to).foldl flip e.hash⟩

/-- `newIndex(v) = startIndex - index(v)` in uint64 arithmetic. -/
def newIndex (v : Nat) : Nat := (startIndex + 2 ^ 64 - v % 2 ^ 64) % 2 ^ 64

/-- `RevocationProducer.AtIndex(v)` for root hash `root` (root element has index 0). -/
def producerAt (flip : H → Nat → H) (root : H) (v : Nat) : Option H :=
  (derive flip ⟨0, root⟩ (newIndex v)).map (·.hash)

/-- `RevocationStore`. `buckets` always has `numBuckets` entries. -/
structure Store (H : Type) where
  lenBuckets : Nat
  buckets : List (Elem H)
  index : Nat
deriving Repr, DecidableEq

def Store.new (zero : H) : Store H :=
  { lenBuckets := 0, buckets := List.replicate numBuckets ⟨0, zero⟩, index := startIndex }

inductive AddErr where
  | notDerivable   -- derive failed: "prefixes are different"
  | mismatch       -- "hash isn't derivable from previous ones"
  | outOfRange     -- Go would panic: bucket index ≥ len(buckets)
deriving Repr, DecidableEq

/-- the checking loop of `AddNextEntry`: buckets `i, i+1, …` for `n` more iterations. -/
def checkBuckets [DecidableEq H] (flip : H → Nat → H) (ne : Elem H) :
    List (Elem H) → Nat → Except AddErr Unit
  | _, 0 => .ok ()
  | [], _ + 1 => .error .outOfRange
  | b :: bs, n + 1 =>
    match derive flip ne b.idx with
    | none => .error .notDerivable
    | some e => if e = b then checkBuckets flip ne bs n else .error .mismatch

/-- `RevocationStore.AddNextEntry`. -/
def Store.addNextEntry [DecidableEq H] (flip : H → Nat → H) (s : Store H) (h : H) :
    Except AddErr (Store H) :=
  let ne : Elem H := ⟨s.index, h⟩
  let bucket := ctz s.index
  match checkBuckets flip ne s.buckets bucket with
  | .error e => .error e
  | .ok () =>
    if bucket < s.buckets.length then
      .ok { lenBuckets := if bucket + 1 > s.lenBuckets then bucket + 1 else s.lenBuckets,
            buckets := s.buckets.set bucket ne,
            index := (s.index + 2 ^ 64 - 1) % 2 ^ 64 }
    else .error .outOfRange

/-- `RevocationStore.LookUp(v)`: first active bucket from which the index derives. -/
def Store.lookUp (flip : H → Nat → H) (s : Store H) (v : Nat) : Option H :=
  let ind := newIndex v
  (s.buckets.take s.lenBuckets).findSome? (fun b => (derive flip b ind).map (·.hash))

/-! ### Serialisation (`Encode` / `NewRevocationStoreFromBytes`), hashes as 32-byte lists -/

def beBytes (n width : Nat) : List Nat :=
  (List.range width).map (fun i => (n / 256 ^ (width - 1 - i)) % 256)

def beNat (bs : List Nat) : Nat := bs.foldl (fun acc b => acc * 256 + b) 0

abbrev Bytes := List Nat

def Store.encode (s : Store Bytes) : Bytes :=
  [s.lenBuckets % 256] ++
  ((s.buckets.take s.lenBuckets).flatMap (fun e => beBytes e.idx 8 ++ e.hash)) ++
  beBytes s.index 8

def zeroHash : Bytes := List.replicate 32 0

/-- read `n` buckets. -/
def decodeBuckets : Nat → Bytes → Option (List (Elem Bytes) × Bytes)
  | 0, bs => some ([], bs)
  | n + 1, bs =>
    if bs.length < 40 then none else
    let e : Elem Bytes := ⟨beNat (bs.take 8), (bs.drop 8).take 32⟩
    match decodeBuckets n (bs.drop 40) with
    | none => none
    | some (es, rest) => some (e :: es, rest)

inductive DecErr where
  | short       -- unexpected EOF
  | outOfRange  -- Go would panic: lenBuckets > len(buckets)
deriving Repr, DecidableEq

/-- `NewRevocationStoreFromBytes`. Trailing bytes are ignored (the Go reader just stops). -/
def Store.decode (bs : Bytes) : Except DecErr (Store Bytes) :=
  match bs with
  | [] => .error .short
  | n :: rest =>
    match decodeBuckets (min n numBuckets) rest with
    | none => .error .short
    | some (es, rest') =>
      if n > numBuckets then
        -- Go reads the next bucket's 40 bytes and only then indexes out of range
        (if rest'.length < 40 then .error .short else .error .outOfRange)
      else if rest'.length < 8 then .error .short
      else .ok { lenBuckets := n,
                 buckets := es ++ List.replicate (numBuckets - es.length) ⟨0, zeroHash⟩,
                 index := beNat (rest'.take 8) }

end LndModel.C06
