/-
C06 — round 7: the store invariant for an ARBITRARY (adversarial) counterparty.

`Lemmas.lean` characterises the store after it received the secrets of an honest producer
(`Inv`, bucket hashes are `prod flip root j`).  Here nothing is assumed about where the accepted
values come from: `sec i` is simply "the value that was accepted for index `i`".  The invariant
`AInv` says where each accepted value sits and that the accepted values are mutually consistent
(`cons`: whenever index `a` is a prefix of index `t`, deriving from `sec a` gives exactly `sec t`).
It is preserved by EVERY accepted insertion (`ainv_inserted`), which is the content of the
acceptance check of `AddNextEntry`.
Core Lean only.
-/
import LndModel.C06.Lemmas

namespace LndModel.C06

section Adv
variable {H : Type}

/-- Invariant of a store that has accepted a value `sec i` for every index `m ≤ i < 2^48`. -/
structure AInv (flip : H → Nat → H) (sec : Nat → H) (s : Store H) (m : Nat) : Prop where
  hm : m ≤ 2 ^ 48
  len : s.buckets.length = numBuckets
  lenB : s.lenBuckets ≤ numBuckets
  idx : s.index = (m + 2 ^ 64 - 1) % 2 ^ 64
  bucket : ∀ b, b < s.lenBuckets → ∃ j, s.buckets[b]? = some ⟨j, sec j⟩ ∧
    m ≤ j ∧ j < 2 ^ 48 ∧ ctz j = b ∧ ∀ x, m ≤ x → x < j → ctz x ≠ b
  cover : ∀ i, m ≤ i → i < 2 ^ 48 → ctz i < s.lenBuckets
  /-- the accepted values are mutually consistent -/
  cons : ∀ a t, m ≤ a → t < 2 ^ 48 → a = getPrefix t (ctz a) →
    (positions (ctz a) t).foldl flip (sec a) = sec t

theorem ainv_new (flip : H → Nat → H) (sec : Nat → H) (zero : H) :
    AInv flip sec (Store.new zero) (2 ^ 48) where
  hm := Nat.le_refl _
  len := by simp [Store.new]
  lenB := by simp [Store.new]
  idx := by simp [Store.new, startIndex]
  bucket := by intro b hb; simp [Store.new] at hb
  cover := by intro i h1 h2; omega
  cons := by
    intro a t h1 h2 h3
    have := getPrefix_le t (ctz a)
    omega

/-- the honest invariant is an instance -/
theorem ainv_of_inv {flip : H → Nat → H} {root : H} {s : Store H} {m : Nat}
    (inv : Inv flip root s m) : AInv flip (prod flip root) s m where
  hm := inv.hm
  len := inv.len
  lenB := inv.lenB
  idx := inv.idx
  bucket := inv.bucket
  cover := inv.cover
  cons := fun _ _ _ _ h => prod_compose flip root h

theorem ainv_index {flip : H → Nat → H} {sec : Nat → H} {s : Store H} {n : Nat}
    (inv : AInv flip sec s (n + 1)) : s.index = n := by
  have := inv.hm; rw [inv.idx]; omega

theorem derive_sec {flip : H → Nat → H} {sec : Nat → H} {s : Store H} {m a t : Nat}
    (inv : AInv flip sec s m) (ha : m ≤ a) (ht : t < 2 ^ 48)
    (h : a = getPrefix t (ctz a)) :
    derive flip ⟨a, sec a⟩ t = some ⟨t, sec t⟩ := by
  rw [derive_eq]
  simp only
  rw [if_pos h, inv.cons a t ha ht h]

/-- in a store that accepted `n+1 …`, bucket `b < ctz n` is active and holds index `n + 2^b`. -/
theorem ainv_below {flip : H → Nat → H} {sec : Nat → H} {s : Store H} {n : Nat}
    (inv : AInv flip sec s (n + 1)) {b : Nat} (hb : b < ctz n) :
    b < s.lenBuckets ∧ s.buckets[b]? = some ⟨n + 2 ^ b, sec (n + 2 ^ b)⟩ ∧
    n = getPrefix (n + 2 ^ b) (ctz n) ∧ ctz (n + 2 ^ b) = b ∧ n + 2 ^ b < 2 ^ 48 := by
  obtain ⟨hd, hc, _⟩ := ctz_spec n
  have hn : n < 2 ^ 48 := by have := inv.hm; omega
  have hP := Nat.two_pow_pos b
  have hPc : 2 ^ b < 2 ^ ctz n := Nat.pow_lt_pow_right (by omega) hb
  have hx48 : n + 2 ^ b < 2 ^ 48 := by have := add_pow_le hn hc hd; omega
  have hd1 : 2 ^ (b + 1) ∣ n := pow_dvd_of_le (by omega) hd
  have hd0 : 2 ^ b ∣ n := pow_dvd_of_le (by omega) hd
  have hctz : ctz (n + 2 ^ b) = b :=
    ctz_of_mod (by omega) (add_mod_of_dvd hd1 (two_pow_lt_succ b))
  have hact : b < s.lenBuckets := by
    have := inv.cover (n + 2 ^ b) (by omega) hx48; omega
  obtain ⟨j, hj, hmj, _, hcj, hmin⟩ := inv.bucket b hact
  have hjle : j ≤ n + 2 ^ b := by
    apply Nat.le_of_not_lt
    intro hlt
    exact hmin (n + 2 ^ b) (by omega) hlt hctz
  have hjd : 2 ^ b ∣ j := by have := (ctz_spec j).1; rwa [hcj] at this
  have hjge : n + 2 ^ b ≤ j := dvd_step hd0 hjd (by omega)
  have hje : j = n + 2 ^ b := by omega
  subst hje
  refine ⟨hact, hj, ?_, hctz, hx48⟩
  unfold getPrefix
  rw [add_mod_of_dvd hd hPc]; omega

/-- `positions c (n + 2^b) = [b]` when `n` has at least `c > b` trailing zeros. -/
theorem positions_single {n b c : Nat} (hd : 2 ^ c ∣ n) (hb : b < c) :
    positions c (n + 2 ^ b) = [b] := by
  have hd1 : 2 ^ (b + 1) ∣ n := pow_dvd_of_le (by omega) hd
  have hd0 : 2 ^ b ∣ n := pow_dvd_of_le (by omega) hd
  obtain ⟨d, hd'⟩ := Nat.exists_eq_add_of_le (show b + 1 ≤ c by omega)
  have hpre : n = getPrefix (n + 2 ^ b) (b + 1) := by
    unfold getPrefix
    rw [add_mod_of_dvd hd1 (two_pow_lt_succ b)]; omega
  rw [hd', positions_prefix hpre d, positions_nil_of_dvd hd (b + 1 + d) (by omega),
    List.nil_append, positions_succ]
  have hbit : getBit (n + 2 ^ b) b = 1 := by
    have h2 := mod_succ_eq (n + 2 ^ b) b
    rw [add_mod_of_dvd hd1 (two_pow_lt_succ b)] at h2
    have h3 : (n + 2 ^ b) % 2 ^ b = 0 :=
      Nat.mod_eq_zero_of_dvd (Nat.dvd_add hd0 (Nat.dvd_refl _))
    rw [h3] at h2
    have := getBit_lt_two (n + 2 ^ b) b
    have hP := Nat.two_pow_pos b
    rcases (show getBit (n + 2 ^ b) b = 0 ∨ getBit (n + 2 ^ b) b = 1 by omega) with h0 | h1
    · rw [h0] at h2; omega
    · exact h1
  rw [if_pos hbit,
    positions_nil_of_dvd (Nat.dvd_add hd0 (Nat.dvd_refl _)) b (Nat.le_refl _)]

/-- what the acceptance check of `AddNextEntry` establishes: the new value derives, for every
    received index in its range, exactly the value accepted earlier for that index. -/
theorem accepted_derives_all {flip : H → Nat → H} {sec : Nat → H} {s : Store H} {n : Nat}
    (inv : AInv flip sec s (n + 1)) {h : H} (ha : s.Accepts flip h) :
    ∀ b, b ≤ ctz n → ∀ t, t < 2 ^ 48 → getPrefix t b = n →
      (positions b t).foldl flip h = if t = n then h else sec t := by
  have hidx := ainv_index inv
  obtain ⟨hdn, hc, _⟩ := ctz_spec n
  intro b
  induction b with
  | zero =>
    intro _ t _ hp
    rw [getPrefix_zero] at hp
    simp [positions, hp]
  | succ b ih =>
    intro hb t ht hp
    have hs := getPrefix_succ t b
    rw [hp] at hs
    have := getBit_lt_two t b
    rw [positions_succ]
    rcases (show getBit t b = 0 ∨ getBit t b = 1 by omega) with h0 | h1
    · rw [h0, Nat.mul_zero, Nat.add_zero] at hs
      rw [if_neg (by omega)]
      exact ih (by omega) t ht hs.symm
    · rw [h1, Nat.mul_one] at hs
      rw [if_pos h1, List.foldl_cons]
      have hbc : b < ctz n := by omega
      obtain ⟨_, hget, hpre, hctz, hx48⟩ := ainv_below inv hbc
      -- the check: the new element derives bucket `b` exactly
      obtain ⟨e, he, hde⟩ := ha.2 b (by rw [hidx]; exact hbc)
      rw [hget] at he
      cases he
      rw [hidx, derive_eq] at hde
      simp only at hde
      rw [if_pos hpre, positions_single hdn hbc] at hde
      simp only [List.foldl_cons, List.foldl_nil, Option.some.injEq, Elem.mk.injEq, true_and] at hde
      rw [hde]
      have hP := Nat.two_pow_pos b
      have hle := getPrefix_le t b
      have htn : t ≠ n := by omega
      rw [if_neg htn]
      have := inv.cons (n + 2 ^ b) t (by omega) ht (by rw [hctz]; exact hs)
      rw [hctz] at this
      exact this

/-- an accepted insertion preserves the invariant, for ANY accepted value `h`. -/
theorem ainv_inserted {flip : H → Nat → H} {sec : Nat → H} {s : Store H} {n : Nat}
    (inv : AInv flip sec s (n + 1)) {h : H} (ha : s.Accepts flip h) :
    AInv flip (fun i => if i = n then h else sec i) (s.inserted h) n := by
  have hidx := ainv_index inv
  obtain ⟨_, hc, _⟩ := ctz_spec n
  have hn : n < 2 ^ 48 := by have := inv.hm; omega
  have hlen := inv.len
  have hlenB := inv.lenB
  simp only [numBuckets] at hlen hlenB
  refine ⟨by omega, ?_, ?_, ?_, ?_, ?_, ?_⟩
  · simp only [Store.inserted, List.length_set]; exact inv.len
  · simp only [Store.inserted, hidx, numBuckets]; split <;> omega
  · simp only [Store.inserted, hidx]
  · intro b hb
    simp only [Store.inserted, hidx] at hb ⊢
    by_cases hbc : b = ctz n
    · subst hbc
      refine ⟨n, ?_, Nat.le_refl _, hn, rfl, fun x h1 h2 => by omega⟩
      rw [List.getElem?_set_self (by omega)]
      simp
    · have hbo : b < s.lenBuckets := by
        by_cases hlt : b < ctz n
        · exact (ainv_below inv hlt).1
        · split at hb <;> omega
      obtain ⟨j, hj, hmj, hj48, hcj, hmin⟩ := inv.bucket b hbo
      refine ⟨j, ?_, by omega, hj48, hcj, ?_⟩
      · rw [List.getElem?_set_ne (by omega)]
        rw [if_neg (by omega)]; exact hj
      · intro x h1 h2
        by_cases hxn : x = n
        · subst hxn; omega
        · exact hmin x (by omega) h2
  · intro i h1 h2
    simp only [Store.inserted, hidx]
    by_cases hin : i = n
    · subst hin; split <;> omega
    · have := inv.cover i (by omega) h2
      split <;> omega
  · intro a t h1 h2 h3
    have hle := getPrefix_le t (ctz a)
    by_cases han : a = n
    · subst han
      simp only [if_true]
      exact accepted_derives_all inv ha (ctz a) (Nat.le_refl _) t h2 h3.symm
    · rw [if_neg han, if_neg (by omega)]
      exact inv.cons a t (by omega) h2 h3

/-! ### look-ups under the adversarial invariant -/

theorem aexists_bucket_aux {flip : H → Nat → H} {sec : Nat → H} {s : Store H} {m i : Nat}
    (inv : AInv flip sec s m) (hmi : m ≤ i) (hi : i < 2 ^ 48) :
    ∀ b, b ≤ 48 →
      (∃ b' j, b' < s.lenBuckets ∧ s.buckets[b']? = some ⟨j, sec j⟩ ∧ m ≤ j ∧
        j = getPrefix i (ctz j)) ∨ m ≤ getPrefix i b := by
  intro b
  induction b with
  | zero => intro _; right; rw [getPrefix_zero]; exact hmi
  | succ b ih =>
    intro hb
    rcases ih (by omega) with hl | hr
    · exact Or.inl hl
    · have hs := getPrefix_succ i b
      have := getBit_lt_two i b
      rcases (show getBit i b = 0 ∨ getBit i b = 1 by omega) with h0 | h1
      · rw [h0, Nat.mul_zero, Nat.add_zero] at hs
        right; rw [hs]; exact hr
      · rw [h1, Nat.mul_one] at hs
        by_cases hq : m ≤ getPrefix i (b + 1)
        · exact Or.inr hq
        · left
          have hqd : 2 ^ (b + 1) ∣ getPrefix i (b + 1) := getPrefix_dvd _ _
          have hjm : getPrefix i b % 2 ^ (b + 1) = 2 ^ b := by
            rw [← hs]; exact add_mod_of_dvd hqd (two_pow_lt_succ b)
          have hcj : ctz (getPrefix i b) = b := ctz_of_mod (by omega) hjm
          have hjle := getPrefix_le i b
          have hact : b < s.lenBuckets := by
            have := inv.cover _ hr (by omega); omega
          obtain ⟨j, hj, hmj, _, hcjb, hmin⟩ := inv.bucket b hact
          have hjle' : j ≤ getPrefix i b := by
            apply Nat.le_of_not_lt
            intro hlt
            exact hmin _ hr hlt hcj
          have hjd : 2 ^ b ∣ j := by have := (ctz_spec j).1; rwa [hcjb] at this
          have hjge := dvd_step (pow_dvd_of_le (Nat.le_succ b) hqd) hjd (by omega)
          have hje : j = getPrefix i b := by omega
          exact ⟨b, j, hact, hj, hmj, by rw [hcjb]; exact hje⟩

theorem aexists_bucket {flip : H → Nat → H} {sec : Nat → H} {s : Store H} {m i : Nat}
    (inv : AInv flip sec s m) (hmi : m ≤ i) (hi : i < 2 ^ 48) :
    ∃ b' j, b' < s.lenBuckets ∧ s.buckets[b']? = some ⟨j, sec j⟩ ∧ m ≤ j ∧
      j = getPrefix i (ctz j) := by
  rcases aexists_bucket_aux inv hmi hi 48 (Nat.le_refl _) with h | h
  · exact h
  · have hp : getPrefix i 48 = 0 := by
      unfold getPrefix; rw [Nat.mod_eq_of_lt hi]; omega
    have hm0 : m = 0 := by omega
    subst hm0
    have hact : 48 < s.lenBuckets := by
      have := inv.cover 0 (Nat.le_refl _) (by omega); rwa [ctz_zero] at this
    obtain ⟨j, hj, _, _, hcj, hmin⟩ := inv.bucket 48 hact
    have hj0 : j = 0 := by
      apply Nat.eq_zero_of_not_pos
      intro hpos
      exact hmin 0 (Nat.le_refl _) hpos ctz_zero
    subst hj0
    exact ⟨48, 0, hact, hj, Nat.le_refl _, by rw [ctz_zero, hp]⟩

/-- every accepted value is reproduced exactly -/
theorem alookUp_received {flip : H → Nat → H} {sec : Nat → H} {s : Store H} {m v : Nat}
    (inv : AInv flip sec s m) (hv : v < 2 ^ 48) (hmi : m ≤ startIndex - v) :
    s.lookUp flip v = some (sec (startIndex - v)) := by
  have hi : startIndex - v < 2 ^ 48 := by unfold startIndex; omega
  unfold Store.lookUp
  rw [newIndex_lt hv]
  apply findSome_unique
  · intro e he
    obtain ⟨b, hb, hget⟩ := mem_active he
    obtain ⟨j, hj, hmj, _⟩ := inv.bucket b hb
    rw [hget] at hj
    cases hj
    by_cases hp : j = getPrefix (startIndex - v) (ctz j)
    · right; rw [derive_sec inv hmj hi hp]; rfl
    · left; rw [derive_eq, if_neg hp]; rfl
  · obtain ⟨b, j, hb, hget, hmj, hp⟩ := aexists_bucket inv hmi hi
    exact ⟨_, active_mem hb hget, by rw [derive_sec inv hmj hi hp]; rfl⟩

theorem alookUp_unreceived {flip : H → Nat → H} {sec : Nat → H} {s : Store H} {m v : Nat}
    (inv : AInv flip sec s m) (hv : v < 2 ^ 48) (hmi : startIndex - v < m) :
    s.lookUp flip v = none := by
  unfold Store.lookUp
  rw [newIndex_lt hv, List.findSome?_eq_none_iff]
  intro e he
  obtain ⟨b, hb, hget⟩ := mem_active he
  obtain ⟨j, hj, hmj, _⟩ := inv.bucket b hb
  rw [hget] at hj
  cases hj
  rw [derive_eq]
  split
  · rename_i hp
    have := getPrefix_le (startIndex - v) (ctz j)
    simp only at hp
    omega
  · rfl

theorem alookUp_out_of_range {flip : H → Nat → H} {sec : Nat → H} {s : Store H} {m v : Nat}
    (inv : AInv flip sec s m) (hv : 2 ^ 48 ≤ v) (hv' : v < 2 ^ 64) :
    s.lookUp flip v = none := by
  unfold Store.lookUp
  have hi : 2 ^ 48 ≤ newIndex v := by unfold newIndex startIndex; omega
  rw [List.findSome?_eq_none_iff]
  intro e he
  obtain ⟨b, hb, hget⟩ := mem_active he
  obtain ⟨j, hj, _, hj48, _⟩ := inv.bucket b hb
  rw [hget] at hj
  cases hj
  rw [derive_eq]
  split
  · rename_i hp
    have := getPrefix_ge (ctz_spec j).2.1 hi
    simp only at hp
    omega
  · rfl

/-! ### the run over an arbitrary list of accepted values -/

/-- the value accepted for index `i` when the values `hs` were accepted in order
    (`hs[v]` is the value for index `startIndex - v`) -/
def secOf (hs : List H) (d : H) (i : Nat) : H := hs.getD (startIndex - i) d

theorem list_snoc_induction {α : Type} (P : List α → Prop) (hnil : P [])
    (hsnoc : ∀ l a, P l → P (l ++ [a])) : ∀ l, P l := by
  have : ∀ l : List α, P l.reverse := by
    intro l
    induction l with
    | nil => exact hnil
    | cons a l ih => rw [List.reverse_cons]; exact hsnoc _ _ ih
  intro l
  have h := this l.reverse
  rwa [List.reverse_reverse] at h

theorem arun [DecidableEq H] (flip : H → Nat → H) (zero : H) :
    ∀ (hs : List H) (s : Store H), hs.length ≤ 2 ^ 48 →
      hs.foldlM (fun st h => st.addNextEntry flip h) (Store.new zero) = .ok s →
      AInv flip (secOf hs zero) s (2 ^ 48 - hs.length) := by
  intro hs
  induction hs using list_snoc_induction with
  | hnil =>
    intro s _ h
    simp [List.foldlM, pure, Except.pure] at h
    cases h
    exact ainv_new flip _ zero
  | hsnoc hs h ih =>
    intro s hk hrun
    rw [List.length_append, List.length_singleton] at hk
    rw [List.foldlM_append] at hrun
    cases hpre : hs.foldlM (fun st h => st.addNextEntry flip h) (Store.new zero) with
    | error e => rw [hpre] at hrun; cases hrun
    | ok s0 =>
      rw [hpre] at hrun
      simp only [bind, Except.bind, List.foldlM_cons, List.foldlM_nil] at hrun
      cases hadd : s0.addNextEntry flip h with
      | error e => rw [hadd] at hrun; cases hrun
      | ok s1 =>
        rw [hadd] at hrun
        simp only [pure, Except.pure] at hrun
        obtain rfl : s1 = s := by injection hrun
        have inv0 := ih s0 (by omega) hpre
        have hm : 2 ^ 48 - hs.length = (startIndex - hs.length) + 1 := by
          unfold startIndex; omega
        rw [hm] at inv0
        obtain ⟨hacc, rfl⟩ := accepts_of_addNextEntry flip s0 s1 h hadd
        have inv1 := ainv_inserted inv0 hacc
        have hm' : 2 ^ 48 - (hs ++ [h]).length = startIndex - hs.length := by
          rw [List.length_append, List.length_singleton]; unfold startIndex; omega
        rw [hm']
        -- the two descriptions of the accepted values agree on every index of the space
        have hsec : ∀ i, i < 2 ^ 48 →
            (if i = startIndex - hs.length then h else secOf hs zero i)
              = secOf (hs ++ [h]) zero i := by
          intro i hi
          unfold secOf
          by_cases hin : i = startIndex - hs.length
          · rw [if_pos hin]
            have : startIndex - i = hs.length := by unfold startIndex at hin ⊢; omega
            rw [this]; simp [List.getD]
          · rw [if_neg hin]
            by_cases hlt : startIndex - i < hs.length
            · simp [List.getD, List.getElem?_append_left hlt]
            · have hgt : hs.length < startIndex - i := by unfold startIndex at hin ⊢; omega
              simp only [List.getD]
              rw [List.getElem?_eq_none (by omega), List.getElem?_eq_none (by simp; omega)]
        exact {
          hm := inv1.hm, len := inv1.len, lenB := inv1.lenB, idx := inv1.idx,
          cover := inv1.cover,
          bucket := by
            intro b hb
            obtain ⟨j, hj, h1, h2, h3, h4⟩ := inv1.bucket b hb
            exact ⟨j, by rw [← hsec j h2]; exact hj, h1, h2, h3, h4⟩
          cons := by
            intro a t h1 h2 h3
            have hle := getPrefix_le t (ctz a)
            rw [← hsec a (by omega), ← hsec t h2]
            exact inv1.cons a t h1 h2 h3 }

end Adv

end LndModel.C06
