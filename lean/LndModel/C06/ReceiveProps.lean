/-
C06 — round 7: theorems about the receiving side (`Receive.lean`).

* `received_revocations_reproduced` — for ALL operation lists (any secrets, any next points, any
  failing writes, restarts anywhere; at most 2^48 operations) in which a poisoned object is never
  given another message (lnd: the link fails on a refused revocation / failed write and the
  channel is re-read from the database): the DURABLE store reproduces exactly the secret of every
  revoke_and_ack that was accepted, in order, and nothing else; each accepted secret belongs to
  the commitment point that had been announced for its height (funding: heights 0 and 1, then the
  `NextRevocationKey` of the message two heights earlier); the durable points are the announced
  ones of the next two heights; a clean object's memory equals the database.
* `refused_is_silent` — a message that is not accepted leaves the database unchanged.
* `revstate_roundtrip` — `fetchChanRevocationState (putChanRevocationState st) = st` for every
  well-formed state, with or without the next point; `decode_encode_append`: the store decoder
  consumes exactly its own bytes.
* `poisoned_object_hazard` (witness): the very same object, used again after a refused message,
  can persist a store that no longer reproduces an accepted secret.
-/
import LndModel.C06.Receive
import LndModel.C06.AdvProps

namespace LndModel.C06

/-- the store decoder reads exactly its own encoding and ignores what follows. -/
theorem decode_encode_append (s : Store Bytes) (h : s.WFBytes) (tail : Bytes) :
    Store.decode (s.encode ++ tail) = .ok s := by
  have hle : s.lenBuckets ≤ 49 := h.2.1
  have hmod : s.lenBuckets % 256 = s.lenBuckets := Nat.mod_eq_of_lt (by omega)
  rw [encode_eq, hmod]
  simp only [Store.decode, List.cons_append]
  have hmin : min s.lenBuckets numBuckets = (s.buckets.take s.lenBuckets).length := by
    rw [h.take_length]; exact Nat.min_eq_left h.2.1
  rw [hmin, List.append_assoc, decodeBuckets_enc _ _ h.active_ok]
  simp only
  rw [if_neg (by simp only [numBuckets]; omega),
    if_neg (by rw [List.length_append, beBytes_length]; omega)]
  rw [h.rebuild, List.take_append_of_le_length (by rw [beBytes_length]; omega),
    List.take_of_length_le (by rw [beBytes_length]; omega), beNat_beBytes8 _ h.2.2.1]

namespace Receive

/-! ## persistence codec -/

/-- well-formed revocation state at the byte level -/
def RevState.WF (s : RevState Bytes Bytes) : Prop :=
  (∃ c, s.cur = some c ∧ c.length = 33) ∧ s.root.length = 32 ∧ s.store.WFBytes ∧
  (s.next = none ∨ ∃ n, s.next = some n ∧ n.length = 33)

/-- **revstate_roundtrip**: decoding the persisted revocation state returns it. -/
theorem revstate_roundtrip (s : RevState Bytes Bytes) (h : s.WF) :
    RevState.decode s.encode = some s := by
  obtain ⟨⟨c, hc, hc33⟩, hr, hst, hn⟩ := h
  have hel := encode_length_wf s.store hst
  have key : ∀ nb : Bytes, (nb = [] ∧ s.next = none) ∨ (nb.length = 33 ∧ s.next = some nb) →
      RevState.decode (c ++ s.root ++ s.store.encode ++ nb) = some s := by
    intro nb hnb
    unfold RevState.decode
    have hlen : ¬ (c ++ s.root ++ s.store.encode ++ nb).length < 65 := by
      simp only [List.length_append]; omega
    rw [if_neg hlen]
    have e1 : (c ++ s.root ++ s.store.encode ++ nb).drop 65 = s.store.encode ++ nb := by
      rw [List.append_assoc, List.drop_append_of_le_length (by simp only [List.length_append]; omega),
        List.drop_of_length_le (by simp only [List.length_append]; omega)]
      rfl
    have e2 : (c ++ s.root ++ s.store.encode ++ nb).take 33 = c := by
      rw [List.append_assoc, List.append_assoc,
        List.take_append_of_le_length (by omega), List.take_of_length_le (by omega)]
    have e3 : ((c ++ s.root ++ s.store.encode ++ nb).drop 33).take 32 = s.root := by
      rw [List.append_assoc, List.append_assoc,
        List.drop_append_of_le_length (by omega), List.drop_of_length_le (by omega)]
      simp only [List.nil_append]
      rw [List.take_append_of_le_length (by omega), List.take_of_length_le (by omega)]
    simp only [e1, e2, e3, decode_encode_append s.store hst nb]
    have e4 : (s.store.encode ++ nb).drop (1 + 40 * s.store.lenBuckets + 8) = nb := by
      rw [List.drop_append_of_le_length (by omega), List.drop_of_length_le (by omega)]
      rfl
    rw [e4]
    rcases hnb with ⟨rfl, hnone⟩ | ⟨h33, hsome⟩
    · simp only [List.length_nil, if_true]
      cases s; simp_all
    · rw [if_neg (by omega), if_neg (by omega), List.take_of_length_le (by omega)]
      cases s; simp_all
  unfold RevState.encode
  rw [hc]
  rcases hn with hnone | ⟨n, hsome, hn33⟩
  · have := key [] (Or.inl ⟨rfl, hnone⟩)
    simpa [hnone] using this
  · have := key n (Or.inr ⟨hn33, hsome⟩)
    simpa [hsome] using this

/-- non-vacuity: the state of a freshly funded channel (both points known). -/
def exampleState : RevState Bytes Bytes :=
  ⟨some (List.replicate 33 2), List.replicate 32 7, Store.new zeroHash, some (List.replicate 33 3)⟩

example : exampleState.WF := by
  unfold exampleState
  refine ⟨⟨_, rfl, by simp⟩, by simp, ?_, Or.inr ⟨_, rfl, by simp⟩⟩
  refine ⟨by simp [Store.new], by simp [Store.new], by simp [Store.new, startIndex], ?_⟩
  intro i e hi
  simp only [Store.new, List.getElem?_replicate] at hi
  split at hi
  · cases hi; exact ⟨fun h => by simp [Store.new] at h, fun _ => rfl⟩
  · cases hi

/-! ## runs -/

section Run
set_option linter.unusedSectionVars false
variable {H P : Type} [DecidableEq H] [DecidableEq P]

inductive Op (H P : Type) where
  | recv (secret : H) (np : P) (writeFails : Bool)
  | reload

/-- channel + ghost log of the accepted (and therefore persisted) messages -/
structure Sys (H P : Type) where
  c : Chan H P
  log : List (H × P)

def Sys.step (flip : H → Nat → H) (pt : H → P) (s : Sys H P) : Op H P → Sys H P
  | .reload => { s with c := s.c.reload }
  | .recv sec np wf =>
    { c := (s.c.recvRev flip pt sec np wf).2,
      log := if (s.c.recvRev flip pt sec np wf).1 = .ok then s.log ++ [(sec, np)] else s.log }

def Sys.run (flip : H → Nat → H) (pt : H → P) (s : Sys H P) (ops : List (Op H P)) : Sys H P :=
  ops.foldl (Sys.step flip pt) s

/-- a poisoned object is never handed another message -/
def Disciplined (flip : H → Nat → H) (pt : H → P) : Sys H P → List (Op H P) → Prop
  | _, [] => True
  | s, op :: ops =>
    (match op with | .recv .. => s.c.poisoned = false | .reload => True) ∧
    Disciplined flip pt (s.step flip pt op) ops

/-- the commitment point announced for remote height `v` -/
def annF (p0 p1 : P) (log : List (H × P)) (v : Nat) : Option P :=
  if v = 0 then some p0 else if v = 1 then some p1 else (log[v - 2]?).map (·.2)

/-- a freshly funded channel -/
def Sys.init (zero root : H) (p0 p1 : P) : Sys H P :=
  { c := { mem := { cur := some p0, root := root, store := Store.new zero, next := some p1 },
           disk := { cur := some p0, root := root, store := Store.new zero, next := some p1 },
           poisoned := false },
    log := [] }

structure RInv (flip : H → Nat → H) (pt : H → P) (zero : H) (p0 p1 : P) (s : Sys H P) : Prop where
  store : (s.log.map (·.1)).foldlM (fun st h => st.addNextEntry flip h) (Store.new zero)
    = .ok s.c.disk.store
  clean : s.c.poisoned = false → s.c.mem = s.c.disk
  cur : s.c.disk.cur = annF p0 p1 s.log s.log.length
  next : s.c.disk.next = annF p0 p1 s.log (s.log.length + 1)
  pts : ∀ v, v < s.log.length → (s.log[v]?).map (fun m => pt m.1) = annF p0 p1 s.log v

theorem annF_append_lt (p0 p1 : P) (log : List (H × P)) (x : H × P) {v : Nat}
    (hv : v < log.length + 2) : annF p0 p1 (log ++ [x]) v = annF p0 p1 log v := by
  unfold annF
  by_cases h0 : v = 0
  · simp [h0]
  · by_cases h1 : v = 1
    · simp [h1]
    · rw [if_neg h0, if_neg h1, if_neg h0, if_neg h1, List.getElem?_append_left (by omega)]

theorem annF_append_last (p0 p1 : P) (log : List (H × P)) (x : H × P) :
    annF p0 p1 (log ++ [x]) (log.length + 2) = some x.2 := by
  unfold annF
  rw [if_neg (by omega), if_neg (by omega)]
  simp

theorem rinv_init (flip : H → Nat → H) (pt : H → P) (zero root : H) (p0 p1 : P) :
    RInv flip pt zero p0 p1 (Sys.init zero root p0 p1) where
  store := rfl
  clean := fun _ => rfl
  cur := by simp [Sys.init, annF]
  next := by simp [Sys.init, annF]
  pts := by intro v hv; simp [Sys.init] at hv

theorem rinv_step (flip : H → Nat → H) (pt : H → P) (zero : H) (p0 p1 : P) (s : Sys H P)
    (inv : RInv flip pt zero p0 p1 s) (op : Op H P)
    (hd : match op with | .recv .. => s.c.poisoned = false | .reload => True) :
    RInv flip pt zero p0 p1 (s.step flip pt op) := by
  cases op with
  | reload =>
    exact ⟨inv.store, fun _ => rfl, inv.cur, inv.next, inv.pts⟩
  | recv sec np wf =>
    simp only at hd
    have hmem := inv.clean hd
    simp only [Sys.step, Chan.recvRev]
    cases hadd : s.c.mem.store.addNextEntry flip sec with
    | error e =>
      cases e <;> simp only [] <;>
        first
          | exact ⟨inv.store, inv.clean, inv.cur, inv.next, inv.pts⟩
          | exact ⟨inv.store, fun h => by simp at h, inv.cur, inv.next, inv.pts⟩
    | ok st =>
      simp only []
      cases hcur : s.c.mem.cur with
      | none =>
        simp only []
        exact ⟨inv.store, fun h => by simp at h, inv.cur, inv.next, inv.pts⟩
      | some cur =>
        simp only []
        by_cases hpt : pt sec = cur
        · simp only [hpt, ne_eq, not_true_eq_false, if_false]
          cases wf with
          | true =>
            simp only [if_true]
            exact ⟨inv.store, fun h => by simp at h, inv.cur, inv.next, inv.pts⟩
          | false =>
            simp only [Bool.false_eq_true, if_false, if_true]
            have hlen : (s.log ++ [(sec, np)]).length = s.log.length + 1 := by simp
            refine ⟨?_, fun _ => rfl, ?_, ?_, ?_⟩
            · rw [List.map_append, List.foldlM_append, inv.store]
              simp only [List.map_cons, List.map_nil, bind, Except.bind, List.foldlM_cons,
                List.foldlM_nil]
              rw [← hmem, hadd]
              rfl
            · rw [hlen, annF_append_lt p0 p1 s.log _ (by omega), ← inv.next, hmem]
            · rw [hlen]
              exact (annF_append_last p0 p1 s.log (sec, np)).symm
            · intro v hv
              rw [hlen] at hv
              rw [annF_append_lt p0 p1 s.log _ (by omega)]
              by_cases hvl : v < s.log.length
              · rw [List.getElem?_append_left hvl]
                exact inv.pts v hvl
              · have hve : v = s.log.length := by omega
                subst hve
                rw [← inv.cur, ← hmem, hcur]
                simp [hpt]
        · simp only [ne_eq, hpt, not_false_eq_true, if_true]
          exact ⟨inv.store, fun h => by simp at h, inv.cur, inv.next, inv.pts⟩

theorem rinv_run (flip : H → Nat → H) (pt : H → P) (zero : H) (p0 p1 : P) :
    ∀ (ops : List (Op H P)) (s : Sys H P), RInv flip pt zero p0 p1 s → Disciplined flip pt s ops →
      RInv flip pt zero p0 p1 (s.run flip pt ops) ∧
      (s.run flip pt ops).log.length ≤ s.log.length + ops.length := by
  intro ops
  induction ops with
  | nil => intro s inv _; exact ⟨inv, by simp [Sys.run]⟩
  | cons op ops ih =>
    intro s inv hd
    obtain ⟨h1, h2⟩ := hd
    have inv' := rinv_step flip pt zero p0 p1 s inv op h1
    obtain ⟨r1, r2⟩ := ih _ inv' h2
    refine ⟨r1, ?_⟩
    have : (s.step flip pt op).log.length ≤ s.log.length + 1 := by
      cases op with
      | reload => simp [Sys.step]
      | recv sec np wf => simp only [Sys.step]; split <;> simp
    simp only [Sys.run, List.foldl_cons, List.length_cons] at r2 ⊢
    omega

/-- **received_revocations_reproduced** (see the header). -/
theorem received_revocations_reproduced (flip : H → Nat → H) (pt : H → P) (zero root : H)
    (p0 p1 : P) (ops : List (Op H P)) (hlen : ops.length ≤ 2 ^ 48)
    (hd : Disciplined flip pt (Sys.init zero root p0 p1) ops) :
    let s := (Sys.init zero root p0 p1).run flip pt ops
    (∀ v, v < s.log.length →
      s.c.disk.store.lookUp flip v = (s.log[v]?).map (·.1) ∧
      (s.log[v]?).map (fun m => pt m.1) = annF p0 p1 s.log v) ∧
    (∀ v, s.log.length ≤ v → v < 2 ^ 64 → s.c.disk.store.lookUp flip v = none) ∧
    s.c.disk.cur = annF p0 p1 s.log s.log.length ∧
    s.c.disk.next = annF p0 p1 s.log (s.log.length + 1) ∧
    (s.c.poisoned = false → s.c.mem = s.c.disk) ∧
    s.c.disk.store.buckets.length = 49 ∧ s.c.disk.store.lenBuckets ≤ 49 := by
  intro s
  obtain ⟨inv, hl⟩ := rinv_run flip pt zero p0 p1 ops _ (rinv_init flip pt zero root p0 p1) hd
  have hl' : s.log.length ≤ 2 ^ 48 := by
    have : (Sys.init zero root p0 p1).log.length = 0 := rfl
    show ((Sys.init zero root p0 p1).run flip pt ops).log.length ≤ 2 ^ 48
    omega
  have hmaplen : (s.log.map (·.1)).length = s.log.length := by simp
  obtain ⟨h1, h2⟩ := store_reproduces_accepted flip zero _ _ (by rw [hmaplen]; exact hl') inv.store
  have hwf := store_bounded flip zero _ _ inv.store
  refine ⟨?_, ?_, inv.cur, inv.next, inv.clean, hwf.1, hwf.2⟩
  · intro v hv
    refine ⟨?_, inv.pts v hv⟩
    rw [h1 v (by rw [hmaplen]; exact hv), List.getElem?_map]
  · intro v hv hv'
    exact h2 v (by rw [hmaplen]; exact hv) hv'

/-- **refused_is_silent**: whatever is not accepted leaves the database and the log unchanged. -/
theorem refused_is_silent (flip : H → Nat → H) (pt : H → P) (c : Chan H P) (sec : H) (np : P)
    (wf : Bool) (h : (c.recvRev flip pt sec np wf).1 ≠ .ok) :
    (c.recvRev flip pt sec np wf).2.disk = c.disk := by
  unfold Chan.recvRev at h ⊢
  cases hadd : c.mem.store.addNextEntry flip sec with
  | error e => cases e <;> rfl
  | ok st =>
    simp only [hadd] at h ⊢
    cases hcur : c.mem.cur with
    | none => rfl
    | some cur =>
      simp only [hcur] at h ⊢
      by_cases hpt : pt sec = cur
      · simp only [hpt, ne_eq, not_true_eq_false, if_false] at h ⊢
        cases wf with
        | true => rfl
        | false => simp at h
      · simp only [ne_eq, hpt, not_false_eq_true, if_true]

end Run

/-! ## witnesses -/

/-- non-vacuity of `received_revocations_reproduced`: with the toy step `2h+p+1` and `pt = id`,
    a dishonest message (refused by the point comparison, object poisoned), a restart, the honest
    message, a message refused by the store, and a failing write followed by a restart and the
    retry: disciplined, two messages accepted. -/
example :
    let flip : Nat → Nat → Nat := fun h p => 2 * h + p + 1
    let ops : List (Op Nat Nat) :=
      [.recv 9 0 false, .reload, .recv 5 40 false, .recv 3 41 false, .recv 2 41 true, .reload,
       .recv 2 41 false]
    Disciplined flip id (Sys.init 0 0 5 2) ops ∧
    ((Sys.init 0 0 5 2).run flip id ops).log = [(5, 40), (2, 41)] := by
  intro flip ops
  refine ⟨⟨by decide, trivial, by decide, by decide, by decide, trivial, by decide, trivial⟩, by decide⟩

/-- **poisoned_object_hazard** (behaviour of the code, excluded by `Disciplined`): on the SAME
    object, a crafted value refused by the point comparison stays in the in-memory store; if the
    object is given the honest message afterwards, the store takes it for the NEXT slot, the point
    comparison passes and the poisoned store is persisted: the durable store then answers
    `LookUp 0` with the crafted value although the accepted secret was another one. -/
theorem poisoned_object_hazard :
    let flip : Nat → Nat → Nat := fun h p => 2 * h + p + 1
    let s := (Sys.init 0 0 (5 : Nat) (2 : Nat)).run flip id [.recv 11 0 false, .recv 5 40 false]
    s.log = [(5, 40)] ∧ s.c.disk.store.lookUp flip 0 = some 11 := by
  decide

end Receive
end LndModel.C06
