/-
C11 — helper lemmas (core Lean only).
-/
import LndModel.C11.Model

namespace LndModel.C11

/-! ### cipher state: linear position of a (epoch, nonce) pair -/

/-- the nonce is always below the rotation interval -/
def CipherState.WF (c : CipherState) : Prop := c.nonce < keyRotationInterval

/-- number of encryptions since `InitializeKeyWithSalt` -/
def CipherState.pos (c : CipherState) : Nat := c.epoch * keyRotationInterval + c.nonce

def Packet.pos (p : Packet) : Nat := p.epoch * keyRotationInterval + p.nonce

theorem init_wf (s k : Term) : (CipherState.init s k).WF := by
  simp [CipherState.init, CipherState.WF, keyRotationInterval]

theorem advance_wf (c : CipherState) (h : c.WF) : c.advance.WF := by
  simp only [CipherState.advance, CipherState.WF, keyRotationInterval] at *
  by_cases hn : c.nonce + 1 = 1000 <;> simp [hn] <;> omega

theorem advance_pos (c : CipherState) (_h : c.WF) : c.advance.pos = c.pos + 1 := by
  simp only [CipherState.advance, CipherState.WF, CipherState.pos, keyRotationInterval] at *
  by_cases hn : c.nonce + 1 = 1000 <;> simp [hn] <;> omega

theorem advance_salt0 (c : CipherState) : c.advance.salt0 = c.salt0 := by
  simp only [CipherState.advance]; split <;> rfl

theorem advance_key0 (c : CipherState) : c.advance.key0 = c.key0 := by
  simp only [CipherState.advance]; split <;> rfl

theorem stateAt_wf (c : CipherState) (h : c.WF) (i : Nat) : (stateAt c i).WF := by
  induction i with
  | zero => exact h
  | succ n ih => exact advance_wf _ ih

theorem stateAt_pos (c : CipherState) (h : c.WF) (i : Nat) : (stateAt c i).pos = c.pos + i := by
  induction i with
  | zero => simp [stateAt]
  | succ n ih =>
    show (stateAt c n).advance.pos = _
    rw [advance_pos _ (stateAt_wf c h n), ih]; omega

theorem stateAt_salt0 (c : CipherState) (i : Nat) : (stateAt c i).salt0 = c.salt0 := by
  induction i with
  | zero => rfl
  | succ n ih => show (stateAt c n).advance.salt0 = _; rw [advance_salt0, ih]

theorem stateAt_key0 (c : CipherState) (i : Nat) : (stateAt c i).key0 = c.key0 := by
  induction i with
  | zero => rfl
  | succ n ih => show (stateAt c n).advance.key0 = _; rw [advance_key0, ih]

theorem stateAt_add (c : CipherState) (a b : Nat) : stateAt (stateAt c a) b = stateAt c (a + b) := by
  induction b with
  | zero => rfl
  | succ n ih => show (stateAt (stateAt c a) n).advance = (stateAt c (a + n)).advance; rw [ih]

theorem stateAt_two (c : CipherState) : stateAt c 2 = c.advance.advance := rfl

/-- a well-formed state is determined by its base and its position -/
theorem pos_epoch_nonce (c : CipherState) (h : c.WF) :
    c.epoch = c.pos / keyRotationInterval ∧ c.nonce = c.pos % keyRotationInterval := by
  simp only [CipherState.WF, CipherState.pos, keyRotationInterval] at *
  omega

/-- closed form of the `i`-th state: rotation exactly every `keyRotationInterval` uses -/
theorem stateAt_epoch_nonce (c : CipherState) (h : c.WF) (i : Nat) :
    (stateAt c i).epoch = c.epoch + (c.nonce + i) / keyRotationInterval ∧
    (stateAt c i).nonce = (c.nonce + i) % keyRotationInterval := by
  have hw := stateAt_wf c h i
  have hp := stateAt_pos c h i
  simp only [CipherState.WF, CipherState.pos, keyRotationInterval] at *
  omega

/-! ### rendering and opening -/

theorem render_length (p : Packet) : (render p).length = p.pt.len + macSize := by
  simp [render]

theorem render_head (p : Packet) : ∃ tl, render p = WByte.pkt p 0 :: tl := by
  have h : p.pt.len + macSize = (p.pt.len + 15) + 1 := by simp [macSize]
  unfold render
  rw [h, List.range_succ_eq_map]
  exact ⟨_, rfl⟩

theorem render_ne_nil (p : Packet) : render p ≠ [] := by
  obtain ⟨tl, h⟩ := render_head p
  rw [h]; exact List.cons_ne_nil _ _

theorem mem_render (p : Packet) (b : WByte) (h : b ∈ render p) : ∃ off, b = WByte.pkt p off := by
  simp only [render, List.mem_map] at h
  obtain ⟨off, _, rfl⟩ := h
  exact ⟨off, rfl⟩

theorem head_mem_render (p : Packet) : WByte.pkt p 0 ∈ render p := by
  obtain ⟨tl, h⟩ := render_head p
  rw [h]; exact List.mem_cons_self

theorem render_inj (p q : Packet) (h : render p = render q) : p = q := by
  obtain ⟨t1, h1⟩ := render_head p
  obtain ⟨t2, h2⟩ := render_head q
  rw [h1, h2] at h
  injection h with h _
  injection h

theorem seal_pt (c : CipherState) (ad : Term) (m : Msg) : (c.seal ad m).pt = m := rfl

theorem openBytes_render (c : CipherState) (ad : Term) (m : Msg) :
    openBytes c ad (render (c.seal ad m)) = some m := by
  obtain ⟨tl, htl⟩ := render_head (c.seal ad m)
  have h : openBytes c ad (WByte.pkt (c.seal ad m) 0 :: tl) = some m := by
    simp only [openBytes]
    rw [← htl]
    simp [seal_pt]
  rw [htl]; exact h

theorem openBytes_some (c : CipherState) (ad : Term) (bs : List WByte) (m : Msg)
    (h : openBytes c ad bs = some m) : bs = render (c.seal ad m) := by
  cases bs with
  | nil => simp [openBytes] at h
  | cons b tl =>
    cases b with
    | raw x => simp [openBytes] at h
    | pkt p off =>
      simp only [openBytes] at h
      split at h
      · rename_i hc
        injection h with hm
        rw [← hm, ← hc.1]; exact hc.2
      · cases h

/-- `cipher.Open` succeeds on exactly one byte string. -/
theorem openBytes_iff (c : CipherState) (ad : Term) (bs : List WByte) (m : Msg) :
    openBytes c ad bs = some m ↔ bs = render (c.seal ad m) :=
  ⟨openBytes_some c ad bs m, fun h => h ▸ openBytes_render c ad m⟩

/-! ### reading -/

theorem readFull_ok (n : Nat) (w bs w' : List WByte) (h : readFull n w = (.ok bs, w')) :
    w = bs ++ w' ∧ bs.length = n := by
  simp only [readFull] at h
  split at h
  · rename_i hn
    injection h with h1 h2
    injection h1 with h1
    subst h1 h2
    exact ⟨(List.take_append_drop n w).symm, by simp [List.length_take]; omega⟩
  · split at h <;> (injection h with h1 _; cases h1)

theorem readFull_append (bs w : List WByte) : readFull bs.length (bs ++ w) = (.ok bs, w) := by
  simp [readFull]

theorem readHeader_ok (c c' : CipherState) (w w' : List WByte) (n : Nat)
    (h : readHeader c w = (.ok n, c', w')) :
    ∃ m : Msg, w = render (c.seal Term.empty m) ++ w' ∧ m.len = lengthHeaderSize ∧
      n = m.val + macSize ∧ c' = c.advance := by
  simp only [readHeader] at h
  split at h
  · injection h with h1 _; cases h1
  · rename_i bs w1 hr
    obtain ⟨hw, hl⟩ := readFull_ok _ _ _ _ hr
    simp only [decrypt] at h
    split at h
    · injection h with h1 _; cases h1
    · rename_i m c1 hd
      injection hd with ho hc
      injection h with h1 h2
      injection h1 with h1
      injection h2 with h2 h3
      have hb := openBytes_some _ _ _ _ ho
      refine ⟨m, ?_, ?_, h1.symm, ?_⟩
      · rw [hw, hb, h3]
      · have := render_length (c.seal Term.empty m)
        rw [← hb, hl, seal_pt] at this
        simp only [encHeaderSize] at this; omega
      · rw [← h2, ← hc]

theorem readBody_ok (c c' : CipherState) (w w' : List WByte) (n : Nat) (m : Msg)
    (h : readBody c n w = (.ok m, c', w')) :
    w = render (c.seal Term.empty m) ++ w' ∧ n = m.len + macSize ∧ c' = c.advance := by
  simp only [readBody] at h
  split at h
  · injection h with h1 _; cases h1
  · rename_i bs w1 hr
    obtain ⟨hw, hl⟩ := readFull_ok _ _ _ _ hr
    simp only [decrypt] at h
    split at h
    · injection h with h1 _; cases h1
    · rename_i m1 c1 hd
      injection hd with ho hc
      injection h with h1 h2
      injection h1 with h1
      injection h2 with h2 h3
      subst h1
      have hb := openBytes_some _ _ _ _ ho
      refine ⟨?_, ?_, ?_⟩
      · rw [hw, hb, h3]
      · have := render_length (c.seal Term.empty m1)
        rw [← hb, hl, seal_pt] at this
        exact this
      · rw [← h2, ← hc]

/-- a successful `ReadMessage` consumed exactly the two records the sender
    produces for `m` from the same state. -/
theorem readMessage_ok (c c' : CipherState) (w w' : List WByte) (m : Msg)
    (h : readMessage c w = (.ok m, c', w')) :
    w = encodeMsg c m ++ w' ∧ c' = c.advance.advance := by
  simp only [readMessage] at h
  split at h
  · injection h with h1 _; cases h1
  · rename_i n c1 w1 hh
    obtain ⟨hm, hw, hlen, hn, hc⟩ := readHeader_ok _ _ _ _ _ hh
    subst hc
    obtain ⟨hw2, hn2, hc2⟩ := readBody_ok _ _ _ _ _ _ h
    have hv : hm = lenMsg m.len := by
      cases hm with
      | mk l v =>
        simp only [lenMsg] at *
        subst hlen
        congr
        omega
    subst hv
    exact ⟨by rw [hw, hw2, encodeMsg, List.append_assoc], hc2⟩

theorem readMessage_encode (c : CipherState) (m : Msg) (w : List WByte) :
    readMessage c (encodeMsg c m ++ w) = (.ok m, c.advance.advance, w) := by
  have h1 : readFull encHeaderSize (encodeMsg c m ++ w) =
      (.ok (render (c.seal Term.empty (lenMsg m.len))),
        render (c.advance.seal Term.empty m) ++ w) := by
    have := readFull_append (render (c.seal Term.empty (lenMsg m.len)))
      (render (c.advance.seal Term.empty m) ++ w)
    rw [render_length] at this
    simpa [encodeMsg, lenMsg, encHeaderSize, seal_pt, List.append_assoc] using this
  have h2 : readFull (m.len + macSize) (render (c.advance.seal Term.empty m) ++ w) =
      (.ok (render (c.advance.seal Term.empty m)), w) := by
    have := readFull_append (render (c.advance.seal Term.empty m)) w
    rw [render_length, seal_pt] at this
    exact this
  simp only [readMessage, readHeader, h1, decrypt, openBytes_render, lenMsg, readBody, h2]

theorem hdr_length (c : CipherState) (n : Nat) :
    (render (c.seal Term.empty (lenMsg n))).length = encHeaderSize := by
  simp [render_length, seal_pt, lenMsg, encHeaderSize]

theorem encodeMsg_length (c : CipherState) (m : Msg) :
    (encodeMsg c m).length = encHeaderSize + (m.len + macSize) := by
  simp [encodeMsg, render_length, seal_pt, lenMsg, encHeaderSize]

/-- the first 18 bytes of a record (followed by anything) are its header packet -/
theorem take_hdr (c : CipherState) (m : Msg) (w : List WByte) :
    (encodeMsg c m ++ w).take encHeaderSize = render (c.seal Term.empty (lenMsg m.len)) := by
  have h := hdr_length c m.len
  simp only [encodeMsg, List.append_assoc]
  rw [← h]
  exact List.take_left

/-! ### recvAll on an honest stream -/

theorem recvAll_encodeAll (ms : List Msg) : ∀ (c : CipherState) (fuel : Nat), ms.length ≤ fuel →
    recvAll fuel c (encodeAll c ms) = ms := by
  induction ms with
  | nil =>
    intro c fuel _
    cases fuel with
    | zero => rfl
    | succ n => simp [recvAll, encodeAll, readMessage, readHeader, readFull, encHeaderSize, lengthHeaderSize, macSize]
  | cons m ms ih =>
    intro c fuel hf
    cases fuel with
    | zero => simp at hf
    | succ n =>
      simp only [recvAll, encodeAll, readMessage_encode]
      rw [ih _ n (by simpa using hf)]

/-! ### the writer and `Flush` -/

theorem wwrite_le (b : Option Nat) (e : Bool) (len : Nat) : (wwrite b e len).1 ≤ len := by
  unfold wwrite
  cases b with
  | none => simp
  | some x => simp only; omega

theorem wwrite_noerr (b : Option Nat) (e : Bool) (len : Nat) (h : (wwrite b e len).2.1 = false) :
    (wwrite b e len).1 = len := by
  unfold wwrite at *
  cases b with
  | none => rfl
  | some x =>
    simp only [Bool.or_eq_false_iff, decide_eq_false_iff_not] at h
    simp only
    omega

theorem wwrite_none (e : Bool) (len : Nat) : wwrite none e len = (len, false, none) := rfl

/-- one `Flush` moves a prefix of `hdr ++ body` to the writer and keeps the cipher state. -/
theorem flush_conserve (s : Sender) (b : Option Nat) (e : Bool) :
    (flush s b e).out ++ ((flush s b e).st.hdr ++ (flush s b e).st.body) = s.hdr ++ s.body ∧
    (flush s b e).st.cs = s.cs := by
  unfold flush
  by_cases hh : s.hdr = []
  · simp only [hh, if_true, List.take_nil, List.drop_nil]
    by_cases hb : s.body = []
    · simp [hb]
    · simp [hb, List.take_append_drop]
  · simp only [hh, if_false]
    by_cases he : (wwrite b e s.hdr.length).2.1 = true
    · simp only [he, if_true]
      rw [← List.append_assoc, List.take_append_drop]
      exact ⟨rfl, trivial⟩
    · have he' : (wwrite b e s.hdr.length).2.1 = false := by simpa using he
      have hn := wwrite_noerr _ _ _ he'
      by_cases hb : s.body = []
      · simp [he', hb, List.take_append_drop]
      · simp [he', hb, hn, List.take_append_drop]

/-- the count returned by one `Flush` is the number of payload (non-MAC) bytes
    of the body that left the buffer in this call. -/
theorem flush_count (s : Sender) (b : Option Nat) (e : Bool) :
    (flush s b e).nn + ((flush s b e).st.body.length - macSize) = s.body.length - macSize := by
  unfold flush
  generalize (if s.hdr = [] then ((0 : Nat), false, b) else wwrite b e s.hdr.length) = r1
  obtain ⟨n1, e1, b1⟩ := r1
  cases e1 with
  | true => simp
  | false =>
    by_cases hb : s.body = []
    · simp [hb]
    · have hle := wwrite_le b1 e s.body.length
      simp only [hb, if_false, Bool.false_eq_true]
      generalize wwrite b1 e s.body.length = r2 at hle ⊢
      obtain ⟨n2, e2, b2⟩ := r2
      simp only [List.length_drop, flushCount, macSize] at *
      split
      · omega
      · split <;> omega

theorem flush_none (s : Sender) (e : Bool) :
    (flush s none e).st.hdr = [] ∧ (flush s none e).st.body = [] ∧ (flush s none e).err = false := by
  unfold flush
  by_cases hh : s.hdr = [] <;> by_cases hb : s.body = [] <;> simp [hh, hb, wwrite_none]

theorem runFlushes_conserve (fs : List (Option Nat × Bool)) : ∀ (s : Sender),
    (runFlushes s fs).1 ++ ((runFlushes s fs).2.2.hdr ++ (runFlushes s fs).2.2.body) = s.hdr ++ s.body ∧
    (runFlushes s fs).2.2.cs = s.cs ∧
    (runFlushes s fs).2.1.sum + ((runFlushes s fs).2.2.body.length - macSize) = s.body.length - macSize := by
  induction fs with
  | nil => intro s; simp [runFlushes]
  | cons f fs ih =>
    intro s
    obtain ⟨b, e⟩ := f
    obtain ⟨h1, h2, h3⟩ := ih (flush s b e).st
    obtain ⟨g1, g2⟩ := flush_conserve s b e
    have g3 := flush_count s b e
    simp only [runFlushes]
    refine ⟨?_, ?_, ?_⟩
    · rw [List.append_assoc, h1, g1]
    · rw [h2, g2]
    · simp only [List.sum_cons]; omega

theorem runFlushes_append (fs gs : List (Option Nat × Bool)) : ∀ (s : Sender),
    runFlushes s (fs ++ gs) =
      ((runFlushes s fs).1 ++ (runFlushes (runFlushes s fs).2.2 gs).1,
       (runFlushes s fs).2.1 ++ (runFlushes (runFlushes s fs).2.2 gs).2.1,
       (runFlushes (runFlushes s fs).2.2 gs).2.2) := by
  induction fs with
  | nil => intro s; simp [runFlushes]
  | cons f fs ih =>
    intro s
    obtain ⟨b, e⟩ := f
    simp only [List.cons_append, runFlushes, ih, List.append_assoc]

/-- flushing until done (last flush unlimited) emits exactly `hdr ++ body`. -/
theorem runFlushes_final (fs : List (Option Nat × Bool)) (s : Sender) :
    (runFlushes s (fs ++ [(none, false)])).1 = s.hdr ++ s.body ∧
    (runFlushes s (fs ++ [(none, false)])).2.2.hdr = [] ∧
    (runFlushes s (fs ++ [(none, false)])).2.2.body = [] ∧
    (runFlushes s (fs ++ [(none, false)])).2.2.cs = s.cs := by
  obtain ⟨h1, h2, _⟩ := runFlushes_conserve (fs ++ [(none, false)]) s
  have hf := flush_none (runFlushes s fs).2.2 false
  have he : (runFlushes s (fs ++ [(none, false)])).2.2 = (flush (runFlushes s fs).2.2 none false).st := by
    rw [runFlushes_append]; simp [runFlushes]
  rw [he] at h1 h2 ⊢
  rw [hf.1, hf.2.1] at h1
  exact ⟨by simpa using h1, hf.1, hf.2.1, h2⟩

theorem writeMessage_ok (s : Sender) (m : Msg) (hl : m.len ≤ maxPayload) (hh : s.hdr = []) (hb : s.body = []) :
    writeMessage s m = .ok { cs := s.cs.advance.advance,
                             hdr := render (s.cs.seal Term.empty (lenMsg m.len)),
                             body := render (s.cs.advance.seal Term.empty m) } := by
  unfold writeMessage
  have : ¬ m.len > maxPayload := by omega
  simp [this, hh, hb, encrypt]

theorem writeMessage_inv (s s1 : Sender) (m : Msg) (h : writeMessage s m = .ok s1) :
    m.len ≤ maxPayload ∧ s.hdr = [] ∧ s.body = [] ∧
    s1 = { cs := s.cs.advance.advance, hdr := render (s.cs.seal Term.empty (lenMsg m.len)),
           body := render (s.cs.advance.seal Term.empty m) } := by
  unfold writeMessage at h
  split at h
  · cases h
  · rename_i hl
    split at h
    · cases h
    · rename_i hf
      simp only [encrypt] at h
      injection h with h
      have hf' : s.hdr = [] ∧ s.body = [] := by
        simp only [ne_eq, not_or, Decidable.not_not] at hf
        exact hf
      exact ⟨by omega, hf'.1, hf'.2, h.symm⟩

/-- `WriteMessage` + any flush pattern per message puts exactly `encodeAll` on the wire. -/
theorem sendAll_encodeAll (steps : List SendStep) : ∀ (s : Sender), s.hdr = [] → s.body = [] →
    (∀ st ∈ steps, st.msg.len ≤ maxPayload) →
    ∃ s', sendAll s steps = some (encodeAll s.cs (steps.map (·.msg)), s') ∧ s'.hdr = [] ∧ s'.body = [] ∧
      s'.cs = stateAt s.cs (2 * steps.length) := by
  induction steps with
  | nil => intro s hh hb _; exact ⟨s, rfl, hh, hb, rfl⟩
  | cons st rest ih =>
    intro s hh hb hl
    have hw := writeMessage_ok s st.msg (hl st (by simp)) hh hb
    obtain ⟨f1, f2, f3, f4⟩ := runFlushes_final st.flushes
      { cs := s.cs.advance.advance, hdr := render (s.cs.seal Term.empty (lenMsg st.msg.len)),
        body := render (s.cs.advance.seal Term.empty st.msg) }
    obtain ⟨s', g1, g2, g3, g4⟩ := ih _ f2 f3 (fun x hx => hl x (by simp [hx]))
    refine ⟨s', ?_, g2, g3, ?_⟩
    · simp only [sendAll, hw, g1, f1, f4, List.map_cons, encodeAll, encodeMsg]
    · rw [g4, f4]
      show stateAt (stateAt s.cs 2) (2 * rest.length) = _
      rw [stateAt_add]; congr 1; simp only [List.length_cons]; omega

/-! ### the log of sealed packets: positions -/

theorem seal_pos (c : CipherState) (ad : Term) (m : Msg) : (c.seal ad m).pos = c.pos := rfl

theorem mem_sealLog (ms : List Msg) : ∀ (c : CipherState) (p : Packet), p ∈ sealLog c ms →
    ∃ i m, ms[i]? = some m ∧
      (p = (stateAt c (2 * i)).seal Term.empty (lenMsg m.len) ∨
       p = (stateAt c (2 * i + 1)).seal Term.empty m) := by
  induction ms with
  | nil => intro c p h; simp [sealLog] at h
  | cons m ms ih =>
    intro c p h
    simp only [sealLog, List.mem_cons] at h
    rcases h with h | h | h
    · exact ⟨0, m, by simp, Or.inl (by simpa [stateAt] using h)⟩
    · exact ⟨0, m, by simp, Or.inr (by simpa [stateAt] using h)⟩
    · obtain ⟨i, m', hi, hp⟩ := ih _ p h
      refine ⟨i + 1, m', by simpa using hi, ?_⟩
      rw [← stateAt_two, stateAt_add, stateAt_add] at hp
      have e1 : 2 * (i + 1) = 2 + 2 * i := by omega
      have e2 : 2 * (i + 1) + 1 = 2 + (2 * i + 1) := by omega
      rw [e2, e1]; exact hp

theorem sealLog_mem (ms : List Msg) : ∀ (c : CipherState) (i : Nat) (m : Msg), ms[i]? = some m →
    (stateAt c (2 * i)).seal Term.empty (lenMsg m.len) ∈ sealLog c ms ∧
    (stateAt c (2 * i + 1)).seal Term.empty m ∈ sealLog c ms := by
  induction ms with
  | nil => intro c i m h; simp at h
  | cons m0 ms ih =>
    intro c i m h
    cases i with
    | zero =>
      simp only [List.getElem?_cons_zero, Option.some.injEq] at h
      subst h
      simp [sealLog, stateAt]
    | succ j =>
      simp only [List.getElem?_cons_succ] at h
      obtain ⟨h1, h2⟩ := ih c.advance.advance j m h
      rw [← stateAt_two, stateAt_add] at h1 h2
      have e1 : 2 * (j + 1) = 2 + 2 * j := by omega
      have e2 : 2 * (j + 1) + 1 = 2 + (2 * j + 1) := by omega
      rw [e2, e1]
      simp only [sealLog, List.mem_cons]
      exact ⟨Or.inr (Or.inr h1), Or.inr (Or.inr h2)⟩

/-- strictly increasing positions along the log -/
theorem sealLog_pairwise (ms : List Msg) : ∀ (c : CipherState), c.WF →
    (sealLog c ms).Pairwise (fun p q => p.pos < q.pos) ∧ ∀ p ∈ sealLog c ms, c.pos ≤ p.pos := by
  induction ms with
  | nil => intro c _; simp [sealLog]
  | cons m ms ih =>
    intro c hc
    have hc1 := advance_wf c hc
    have hc2 := advance_wf _ hc1
    obtain ⟨ih1, ih2⟩ := ih c.advance.advance hc2
    have p1 := advance_pos c hc
    have p2 := advance_pos _ hc1
    simp only [sealLog]
    refine ⟨?_, ?_⟩
    · refine List.Pairwise.cons ?_ (List.Pairwise.cons ?_ ih1)
      · intro q hq
        simp only [List.mem_cons] at hq
        rcases hq with hq | hq
        · subst hq; simp only [seal_pos]; omega
        · have := ih2 q hq; simp only [seal_pos]; omega
      · intro q hq
        have := ih2 q hq; simp only [seal_pos]; omega
    · intro p hp
      simp only [List.mem_cons] at hp
      rcases hp with hp | hp | hp
      · subst hp; simp [seal_pos]
      · subst hp; simp only [seal_pos]; omega
      · have := ih2 p hp; omega

theorem mem_sealLog_wf (ms : List Msg) (c : CipherState) (hc : c.WF) (p : Packet) (h : p ∈ sealLog c ms) :
    p.nonce < keyRotationInterval ∧ p.salt0 = c.salt0 ∧ p.key0 = c.key0 ∧ p.ad = Term.empty := by
  obtain ⟨i, m, _, hp⟩ := mem_sealLog ms c p h
  rcases hp with hp | hp <;> subst hp
  · exact ⟨stateAt_wf c hc _, stateAt_salt0 c _, stateAt_key0 c _, rfl⟩
  · exact ⟨stateAt_wf c hc _, stateAt_salt0 c _, stateAt_key0 c _, rfl⟩

/-! ### key terms of different epochs / directions are different terms -/

theorem ratchet_size_lt (s k : Term) (n : Nat) :
    (ratchet s k n).2.size < (ratchet s k (n + 1)).2.size ∧
    (ratchet s k n).1.size < (ratchet s k (n + 1)).1.size := by
  have h1 : 0 < (ratchet s k n).1.size := by cases (ratchet s k n).1 <;> simp [Term.size]
  have h2 : 0 < (ratchet s k n).2.size := by cases (ratchet s k n).2 <;> simp [Term.size]
  simp only [ratchet, Term.size]
  omega

theorem ratchet_size_mono (s k : Term) (m n : Nat) (h : m < n) :
    (ratchet s k m).2.size < (ratchet s k n).2.size := by
  induction n with
  | zero => omega
  | succ n ih =>
    have := (ratchet_size_lt s k n).1
    by_cases hm : m = n
    · subst hm; exact this
    · have := ih (by omega); omega

/-- within one direction, the key of every epoch is a different term -/
theorem ratchet_key_inj (s k : Term) (m n : Nat) (h : (ratchet s k m).2 = (ratchet s k n).2) : m = n := by
  rcases Nat.lt_trichotomy m n with hlt | heq | hgt
  · have := ratchet_size_mono s k m n hlt; rw [h] at this; omega
  · exact heq
  · have := ratchet_size_mono s k n m hgt; rw [h] at this; omega

theorem ratchet_size_congr (s k1 k2 : Term) (hk : k1.size = k2.size) (n : Nat) :
    (ratchet s k1 n).1.size = (ratchet s k2 n).1.size ∧ (ratchet s k1 n).2.size = (ratchet s k2 n).2.size := by
  induction n with
  | zero => exact ⟨rfl, hk⟩
  | succ n ih => simp only [ratchet, Term.size]; omega

theorem ratchet_same_epoch_inj (s k1 k2 : Term) (n : Nat) (h : (ratchet s k1 n).2 = (ratchet s k2 n).2) :
    k1 = k2 := by
  induction n with
  | zero => exact h
  | succ n ih =>
    simp only [ratchet] at h
    injection h with _ h2
    exact ih h2

/-- the two directions of a session (same salt, different initial keys of equal
    size) never share a key, whatever the epochs -/
theorem ratchet_directions_distinct (s k1 k2 : Term) (hne : k1 ≠ k2) (hsz : k1.size = k2.size) (m n : Nat) :
    (ratchet s k1 m).2 ≠ (ratchet s k2 n).2 := by
  intro h
  by_cases hmn : m = n
  · subst hmn; exact hne (ratchet_same_epoch_inj s k1 k2 m h)
  · have h1 := (ratchet_size_congr s k1 k2 hsz n).2
    have h2 : (ratchet s k1 m).2.size = (ratchet s k1 n).2.size := by rw [h, h1]
    rcases Nat.lt_or_gt_of_ne hmn with hlt | hgt
    · have := ratchet_size_mono s k1 m n hlt; omega
    · have := ratchet_size_mono s k1 n m hgt; omega

end LndModel.C11
