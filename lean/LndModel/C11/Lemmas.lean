/-
C11 — helper lemmas (core Lean only).
-/
import LndModel.C11.Model

namespace LndModel.C11

/-! ### cipher state -/

/-- the nonce is always below the rotation interval -/
def CipherState.WF (c : CipherState) : Prop := c.nonce < keyRotationInterval

theorem init_wf (s k : Term) : (CipherState.init s k).WF := by
  simp [CipherState.init, CipherState.WF, keyRotationInterval]

theorem advance_wf (c : CipherState) (h : c.WF) : c.advance.WF := by
  simp only [CipherState.advance, CipherState.rotate, CipherState.WF, keyRotationInterval] at *
  by_cases hn : c.nonce + 1 = 1000 <;> simp [hn] <;> omega

theorem stateAt_wf (c : CipherState) (h : c.WF) (i : Nat) : (stateAt c i).WF := by
  induction i with
  | zero => exact h
  | succ n ih => exact advance_wf _ ih

theorem stateAt_add (c : CipherState) (a b : Nat) : stateAt (stateAt c a) b = stateAt c (a + b) := by
  induction b with
  | zero => rfl
  | succ n ih => show (stateAt (stateAt c a) n).advance = (stateAt c (a + n)).advance; rw [ih]

theorem stateAt_two (c : CipherState) : stateAt c 2 = c.advance.advance := rfl

/-! ### key terms of different epochs / directions are different terms -/

theorem ratchet_size_lt (s k : Term) (n : Nat) :
    (ratchet s k n).2.size < (ratchet s k (n + 1)).2.size ∧
    (ratchet s k n).1.size < (ratchet s k (n + 1)).1.size := by
  have h1 : 0 < (ratchet s k n).1.size := by cases (ratchet s k n).1 <;> simp [Term.size]
  have h2 : 0 < (ratchet s k n).2.size := by cases (ratchet s k n).2 <;> simp [Term.size]
  simp only [ratchet, Term.size]
  omega

theorem ratchet_size_mono (s k : Term) (m n : Nat) (h : m < n) :
    (ratchet s k m).2.size < (ratchet s k n).2.size := by
  induction n with
  | zero => omega
  | succ n ih =>
    have := (ratchet_size_lt s k n).1
    by_cases hm : m = n
    · subst hm; exact this
    · have := ih (by omega); omega

/-- within one direction, the key of every epoch is a different term -/
theorem ratchet_key_inj (s k : Term) (m n : Nat) (h : (ratchet s k m).2 = (ratchet s k n).2) : m = n := by
  rcases Nat.lt_trichotomy m n with hlt | heq | hgt
  · have := ratchet_size_mono s k m n hlt; rw [h] at this; omega
  · exact heq
  · have := ratchet_size_mono s k n m hgt; rw [h] at this; omega

theorem ratchet_size_congr (s k1 k2 : Term) (hk : k1.size = k2.size) (n : Nat) :
    (ratchet s k1 n).1.size = (ratchet s k2 n).1.size ∧ (ratchet s k1 n).2.size = (ratchet s k2 n).2.size := by
  induction n with
  | zero => exact ⟨rfl, hk⟩
  | succ n ih => simp only [ratchet, Term.size]; omega

theorem ratchet_same_epoch_inj (s k1 k2 : Term) (n : Nat) (h : (ratchet s k1 n).2 = (ratchet s k2 n).2) :
    k1 = k2 := by
  induction n with
  | zero => exact h
  | succ n ih =>
    simp only [ratchet] at h
    injection h with _ h2
    exact ih h2

/-- the two directions of a session (same salt, different initial keys of equal
    size) never share a key, whatever the epochs -/
theorem ratchet_directions_distinct (s k1 k2 : Term) (hne : k1 ≠ k2) (hsz : k1.size = k2.size) (m n : Nat) :
    (ratchet s k1 m).2 ≠ (ratchet s k2 n).2 := by
  intro h
  by_cases hmn : m = n
  · subst hmn; exact hne (ratchet_same_epoch_inj s k1 k2 m h)
  · have h1 := (ratchet_size_congr s k1 k2 hsz n).2
    have h2 : (ratchet s k1 m).2.size = (ratchet s k1 n).2.size := by rw [h, h1]
    rcases Nat.lt_or_gt_of_ne hmn with hlt | hgt
    · have := ratchet_size_mono s k1 m n hlt; omega
    · have := ratchet_size_mono s k1 n m hgt; omega


/-- closed form of the state after `i` uses: the salt/key are the HKDF ratchet applied
    `⌊(nonce₀ + i) / 1000⌋` times, the nonce is `(nonce₀ + i) mod 1000`. -/
theorem stateAt_closed (c : CipherState) (h : c.WF) (i : Nat) :
    (stateAt c i).salt = (ratchet c.salt c.key ((c.nonce + i) / keyRotationInterval)).1 ∧
    (stateAt c i).key = (ratchet c.salt c.key ((c.nonce + i) / keyRotationInterval)).2 ∧
    (stateAt c i).nonce = (c.nonce + i) % keyRotationInterval := by
  simp only [CipherState.WF, keyRotationInterval] at *
  induction i with
  | zero =>
    have h0 : (c.nonce + 0) / 1000 = 0 := by omega
    have h1 : (c.nonce + 0) % 1000 = c.nonce := by omega
    rw [h0, h1]; exact ⟨rfl, rfl, rfl⟩
  | succ n ih =>
    obtain ⟨h1, h2, h3⟩ := ih
    show (stateAt c n).advance.salt = _ ∧ (stateAt c n).advance.key = _ ∧ (stateAt c n).advance.nonce = _
    simp only [CipherState.advance, CipherState.rotate, keyRotationInterval]
    by_cases hn : (stateAt c n).nonce + 1 = 1000
    · have he : (c.nonce + (n + 1)) / 1000 = (c.nonce + n) / 1000 + 1 := by omega
      have hm : (c.nonce + (n + 1)) % 1000 = 0 := by omega
      rw [he, hm]
      simp only [hn, if_true, ratchet, h1, h2]
      exact ⟨trivial, trivial, trivial⟩
    · have he : (c.nonce + (n + 1)) / 1000 = (c.nonce + n) / 1000 := by omega
      have hm : (c.nonce + (n + 1)) % 1000 = (stateAt c n).nonce + 1 := by omega
      rw [he, hm]
      simp only [hn, if_false, h1, h2]
      exact ⟨trivial, trivial, trivial⟩

/-- two uses of the same cipher stream with the same key term and the same nonce are the same use -/
theorem stateAt_index_inj (c : CipherState) (h : c.WF) (i j : Nat)
    (hk : (stateAt c i).key = (stateAt c j).key) (hn : (stateAt c i).nonce = (stateAt c j).nonce) :
    i = j := by
  obtain ⟨_, k1, n1⟩ := stateAt_closed c h i
  obtain ⟨_, k2, n2⟩ := stateAt_closed c h j
  rw [k1, k2] at hk
  rw [n1, n2] at hn
  have he := ratchet_key_inj _ _ _ _ hk
  simp only [keyRotationInterval] at *
  omega

/-! ### rendering and opening -/

theorem render_length (p : Packet) : (render p).length = p.pt.len + macSize := by
  simp [render]

theorem render_head (p : Packet) : ∃ tl, render p = WByte.pkt p 0 :: tl := by
  have h : p.pt.len + macSize = (p.pt.len + 15) + 1 := by simp [macSize]
  unfold render
  rw [h, List.range_succ_eq_map]
  exact ⟨_, rfl⟩

theorem render_ne_nil (p : Packet) : render p ≠ [] := by
  obtain ⟨tl, h⟩ := render_head p
  rw [h]; exact List.cons_ne_nil _ _

theorem mem_render (p : Packet) (b : WByte) (h : b ∈ render p) : ∃ off, b = WByte.pkt p off := by
  simp only [render, List.mem_map] at h
  obtain ⟨off, _, rfl⟩ := h
  exact ⟨off, rfl⟩

theorem head_mem_render (p : Packet) : WByte.pkt p 0 ∈ render p := by
  obtain ⟨tl, h⟩ := render_head p
  rw [h]; exact List.mem_cons_self

theorem render_inj (p q : Packet) (h : render p = render q) : p = q := by
  obtain ⟨t1, h1⟩ := render_head p
  obtain ⟨t2, h2⟩ := render_head q
  rw [h1, h2] at h
  injection h with h _
  injection h

theorem seal_pt (c : CipherState) (ad : Term) (m : Msg) : (c.seal ad m).pt = m := rfl

theorem openBytes_render (c : CipherState) (ad : Term) (m : Msg) :
    openBytes c ad (render (c.seal ad m)) = some m := by
  obtain ⟨tl, htl⟩ := render_head (c.seal ad m)
  have h : openBytes c ad (WByte.pkt (c.seal ad m) 0 :: tl) = some m := by
    simp only [openBytes]
    rw [← htl]
    simp [seal_pt]
  rw [htl]; exact h

theorem openBytes_some (c : CipherState) (ad : Term) (bs : List WByte) (m : Msg)
    (h : openBytes c ad bs = some m) : bs = render (c.seal ad m) := by
  cases bs with
  | nil => simp [openBytes] at h
  | cons b tl =>
    cases b with
    | raw x => simp [openBytes] at h
    | pkt p off =>
      simp only [openBytes] at h
      split at h
      · rename_i hc
        injection h with hm
        rw [← hm, ← hc.1]; exact hc.2
      · cases h

/-- `cipher.Open` succeeds on exactly one byte string. -/
theorem openBytes_iff (c : CipherState) (ad : Term) (bs : List WByte) (m : Msg) :
    openBytes c ad bs = some m ↔ bs = render (c.seal ad m) :=
  ⟨openBytes_some c ad bs m, fun h => h ▸ openBytes_render c ad m⟩

/-! ### reading -/

theorem readFull_ok (n : Nat) (w bs w' : List WByte) (h : readFull n w = (.ok bs, w')) :
    w = bs ++ w' ∧ bs.length = n := by
  simp only [readFull] at h
  split at h
  · rename_i hn
    injection h with h1 h2
    injection h1 with h1
    subst h1 h2
    exact ⟨(List.take_append_drop n w).symm, by simp [List.length_take]; omega⟩
  · split at h <;> (injection h with h1 _; cases h1)

theorem readFull_append (bs w : List WByte) : readFull bs.length (bs ++ w) = (.ok bs, w) := by
  simp [readFull]

theorem readHeader_ok (c c' : CipherState) (w w' : List WByte) (n : Nat)
    (h : readHeader c w = (.ok n, c', w')) :
    ∃ m : Msg, w = render (c.seal Term.empty m) ++ w' ∧ m.len = lengthHeaderSize ∧
      n = m.val + macSize ∧ c' = c.advance := by
  simp only [readHeader] at h
  split at h
  · injection h with h1 _; cases h1
  · rename_i bs w1 hr
    obtain ⟨hw, hl⟩ := readFull_ok _ _ _ _ hr
    simp only [decrypt] at h
    split at h
    · injection h with h1 _; cases h1
    · rename_i m c1 hd
      injection hd with ho hc
      injection h with h1 h2
      injection h1 with h1
      injection h2 with h2 h3
      have hb := openBytes_some _ _ _ _ ho
      refine ⟨m, ?_, ?_, h1.symm, ?_⟩
      · rw [hw, hb, h3]
      · have := render_length (c.seal Term.empty m)
        rw [← hb, hl, seal_pt] at this
        simp only [encHeaderSize] at this; omega
      · rw [← h2, ← hc]

theorem readBody_ok (c c' : CipherState) (w w' : List WByte) (n : Nat) (m : Msg)
    (h : readBody c n w = (.ok m, c', w')) :
    w = render (c.seal Term.empty m) ++ w' ∧ n = m.len + macSize ∧ c' = c.advance := by
  simp only [readBody] at h
  split at h
  · injection h with h1 _; cases h1
  · rename_i bs w1 hr
    obtain ⟨hw, hl⟩ := readFull_ok _ _ _ _ hr
    simp only [decrypt] at h
    split at h
    · injection h with h1 _; cases h1
    · rename_i m1 c1 hd
      injection hd with ho hc
      injection h with h1 h2
      injection h1 with h1
      injection h2 with h2 h3
      subst h1
      have hb := openBytes_some _ _ _ _ ho
      refine ⟨?_, ?_, ?_⟩
      · rw [hw, hb, h3]
      · have := render_length (c.seal Term.empty m1)
        rw [← hb, hl, seal_pt] at this
        exact this
      · rw [← h2, ← hc]

/-- a successful `ReadMessage` consumed exactly the two records the sender
    produces for `m` from the same state. -/
theorem readMessage_ok (c c' : CipherState) (w w' : List WByte) (m : Msg)
    (h : readMessage c w = (.ok m, c', w')) :
    w = encodeMsg c m ++ w' ∧ c' = c.advance.advance := by
  simp only [readMessage] at h
  split at h
  · injection h with h1 _; cases h1
  · rename_i n c1 w1 hh
    obtain ⟨hm, hw, hlen, hn, hc⟩ := readHeader_ok _ _ _ _ _ hh
    subst hc
    obtain ⟨hw2, hn2, hc2⟩ := readBody_ok _ _ _ _ _ _ h
    have hv : hm = lenMsg m.len := by
      cases hm with
      | mk l v =>
        simp only [lenMsg] at *
        subst hlen
        congr
        omega
    subst hv
    exact ⟨by rw [hw, hw2, encodeMsg, List.append_assoc], hc2⟩

theorem readMessage_encode (c : CipherState) (m : Msg) (w : List WByte) :
    readMessage c (encodeMsg c m ++ w) = (.ok m, c.advance.advance, w) := by
  have h1 : readFull encHeaderSize (encodeMsg c m ++ w) =
      (.ok (render (c.seal Term.empty (lenMsg m.len))),
        render (c.advance.seal Term.empty m) ++ w) := by
    have := readFull_append (render (c.seal Term.empty (lenMsg m.len)))
      (render (c.advance.seal Term.empty m) ++ w)
    rw [render_length] at this
    simpa [encodeMsg, lenMsg, encHeaderSize, seal_pt, List.append_assoc] using this
  have h2 : readFull (m.len + macSize) (render (c.advance.seal Term.empty m) ++ w) =
      (.ok (render (c.advance.seal Term.empty m)), w) := by
    have := readFull_append (render (c.advance.seal Term.empty m)) w
    rw [render_length, seal_pt] at this
    exact this
  simp only [readMessage, readHeader, h1, decrypt, openBytes_render, lenMsg, readBody, h2]

theorem hdr_length (c : CipherState) (n : Nat) :
    (render (c.seal Term.empty (lenMsg n))).length = encHeaderSize := by
  simp [render_length, seal_pt, lenMsg, encHeaderSize]

theorem encodeMsg_length (c : CipherState) (m : Msg) :
    (encodeMsg c m).length = encHeaderSize + (m.len + macSize) := by
  simp [encodeMsg, render_length, seal_pt, lenMsg, encHeaderSize]

/-- the first 18 bytes of a record (followed by anything) are its header packet -/
theorem take_hdr (c : CipherState) (m : Msg) (w : List WByte) :
    (encodeMsg c m ++ w).take encHeaderSize = render (c.seal Term.empty (lenMsg m.len)) := by
  have h := hdr_length c m.len
  simp only [encodeMsg, List.append_assoc]
  rw [← h]
  exact List.take_left

/-! ### recvAll on an honest stream -/

theorem recvAll_encodeAll (ms : List Msg) : ∀ (c : CipherState) (fuel : Nat), ms.length ≤ fuel →
    recvAll fuel c (encodeAll c ms) = ms := by
  induction ms with
  | nil =>
    intro c fuel _
    cases fuel with
    | zero => rfl
    | succ n => simp [recvAll, encodeAll, readMessage, readHeader, readFull, encHeaderSize, lengthHeaderSize, macSize]
  | cons m ms ih =>
    intro c fuel hf
    cases fuel with
    | zero => simp at hf
    | succ n =>
      simp only [recvAll, encodeAll, readMessage_encode]
      rw [ih _ n (by simpa using hf)]

/-! ### the writer and `Flush` -/

theorem wwrite_le (b : Option Nat) (e : Bool) (len : Nat) : (wwrite b e len).1 ≤ len := by
  unfold wwrite
  cases b with
  | none => simp
  | some x => simp only; omega

theorem wwrite_noerr (b : Option Nat) (e : Bool) (len : Nat) (h : (wwrite b e len).2.1 = false) :
    (wwrite b e len).1 = len := by
  unfold wwrite at *
  cases b with
  | none => rfl
  | some x =>
    simp only [Bool.or_eq_false_iff, decide_eq_false_iff_not] at h
    simp only
    omega

theorem wwrite_none (e : Bool) (len : Nat) : wwrite none e len = (len, false, none) := rfl

/-- one `Flush` moves a prefix of `hdr ++ body` to the writer and keeps the cipher state. -/
theorem flush_conserve (s : Sender) (b : Option Nat) (e : Bool) :
    (flush s b e).out ++ ((flush s b e).st.hdr ++ (flush s b e).st.body) = s.hdr ++ s.body ∧
    (flush s b e).st.cs = s.cs := by
  unfold flush
  by_cases hh : s.hdr = []
  · simp only [hh, if_true, List.take_nil, List.drop_nil]
    by_cases hb : s.body = []
    · simp [hb]
    · simp [hb, List.take_append_drop]
  · simp only [hh, if_false]
    by_cases he : (wwrite b e s.hdr.length).2.1 = true
    · simp only [he, if_true]
      rw [← List.append_assoc, List.take_append_drop]
      exact ⟨rfl, trivial⟩
    · have he' : (wwrite b e s.hdr.length).2.1 = false := by simpa using he
      have hn := wwrite_noerr _ _ _ he'
      by_cases hb : s.body = []
      · simp [he', hb, List.take_append_drop]
      · simp [he', hb, hn, List.take_append_drop]

/-- the count returned by one `Flush` is the number of payload (non-MAC) bytes
    of the body that left the buffer in this call. -/
theorem flush_count (s : Sender) (b : Option Nat) (e : Bool) :
    (flush s b e).nn + ((flush s b e).st.body.length - macSize) = s.body.length - macSize := by
  unfold flush
  generalize (if s.hdr = [] then ((0 : Nat), false, b) else wwrite b e s.hdr.length) = r1
  obtain ⟨n1, e1, b1⟩ := r1
  cases e1 with
  | true => simp
  | false =>
    by_cases hb : s.body = []
    · simp [hb]
    · have hle := wwrite_le b1 e s.body.length
      simp only [hb, if_false, Bool.false_eq_true]
      generalize wwrite b1 e s.body.length = r2 at hle ⊢
      obtain ⟨n2, e2, b2⟩ := r2
      simp only [List.length_drop, flushCount, macSize] at *
      split
      · omega
      · split <;> omega

theorem flush_none (s : Sender) (e : Bool) :
    (flush s none e).st.hdr = [] ∧ (flush s none e).st.body = [] ∧ (flush s none e).err = false := by
  unfold flush
  by_cases hh : s.hdr = [] <;> by_cases hb : s.body = [] <;> simp [hh, hb, wwrite_none]

theorem runFlushes_conserve (fs : List (Option Nat × Bool)) : ∀ (s : Sender),
    (runFlushes s fs).1 ++ ((runFlushes s fs).2.2.hdr ++ (runFlushes s fs).2.2.body) = s.hdr ++ s.body ∧
    (runFlushes s fs).2.2.cs = s.cs ∧
    (runFlushes s fs).2.1.sum + ((runFlushes s fs).2.2.body.length - macSize) = s.body.length - macSize := by
  induction fs with
  | nil => intro s; simp [runFlushes]
  | cons f fs ih =>
    intro s
    obtain ⟨b, e⟩ := f
    obtain ⟨h1, h2, h3⟩ := ih (flush s b e).st
    obtain ⟨g1, g2⟩ := flush_conserve s b e
    have g3 := flush_count s b e
    simp only [runFlushes]
    refine ⟨?_, ?_, ?_⟩
    · rw [List.append_assoc, h1, g1]
    · rw [h2, g2]
    · simp only [List.sum_cons]; omega

theorem runFlushes_append (fs gs : List (Option Nat × Bool)) : ∀ (s : Sender),
    runFlushes s (fs ++ gs) =
      ((runFlushes s fs).1 ++ (runFlushes (runFlushes s fs).2.2 gs).1,
       (runFlushes s fs).2.1 ++ (runFlushes (runFlushes s fs).2.2 gs).2.1,
       (runFlushes (runFlushes s fs).2.2 gs).2.2) := by
  induction fs with
  | nil => intro s; simp [runFlushes]
  | cons f fs ih =>
    intro s
    obtain ⟨b, e⟩ := f
    simp only [List.cons_append, runFlushes, ih, List.append_assoc]

/-- flushing until done (last flush unlimited) emits exactly `hdr ++ body`. -/
theorem runFlushes_final (fs : List (Option Nat × Bool)) (s : Sender) :
    (runFlushes s (fs ++ [(none, false)])).1 = s.hdr ++ s.body ∧
    (runFlushes s (fs ++ [(none, false)])).2.2.hdr = [] ∧
    (runFlushes s (fs ++ [(none, false)])).2.2.body = [] ∧
    (runFlushes s (fs ++ [(none, false)])).2.2.cs = s.cs := by
  obtain ⟨h1, h2, _⟩ := runFlushes_conserve (fs ++ [(none, false)]) s
  have hf := flush_none (runFlushes s fs).2.2 false
  have he : (runFlushes s (fs ++ [(none, false)])).2.2 = (flush (runFlushes s fs).2.2 none false).st := by
    rw [runFlushes_append]; simp [runFlushes]
  rw [he] at h1 h2 ⊢
  rw [hf.1, hf.2.1] at h1
  exact ⟨by simpa using h1, hf.1, hf.2.1, h2⟩

theorem writeMessageL_ok (s : Sender) (m : Msg) (hl : m.len ≤ maxPayload) (hh : s.hdr = []) (hb : s.body = []) :
    writeMessageL s m = .ok ({ cs := s.cs.advance.advance,
                               hdr := render (s.cs.seal Term.empty (lenMsg m.len)),
                               body := render (s.cs.advance.seal Term.empty m) },
                             [s.cs.seal Term.empty (lenMsg m.len), s.cs.advance.seal Term.empty m]) := by
  unfold writeMessageL
  have : ¬ m.len > maxPayload := by omega
  simp [this, hh, hb, encrypt]

theorem writeMessageL_inv (s : Sender) (m : Msg) (r : Sender × List Packet) (h : writeMessageL s m = .ok r) :
    m.len ≤ maxPayload ∧ s.hdr = [] ∧ s.body = [] ∧
    r = ({ cs := s.cs.advance.advance, hdr := render (s.cs.seal Term.empty (lenMsg m.len)),
           body := render (s.cs.advance.seal Term.empty m) },
         [s.cs.seal Term.empty (lenMsg m.len), s.cs.advance.seal Term.empty m]) := by
  unfold writeMessageL at h
  split at h
  · cases h
  · rename_i hl
    split at h
    · cases h
    · rename_i hf
      simp only [encrypt] at h
      injection h with h
      have hf' : s.hdr = [] ∧ s.body = [] := by
        simp only [ne_eq, not_or, Decidable.not_not] at hf
        exact hf
      exact ⟨by omega, hf'.1, hf'.2, h.symm⟩

theorem writeMessage_ok (s : Sender) (m : Msg) (hl : m.len ≤ maxPayload) (hh : s.hdr = []) (hb : s.body = []) :
    writeMessage s m = .ok { cs := s.cs.advance.advance,
                             hdr := render (s.cs.seal Term.empty (lenMsg m.len)),
                             body := render (s.cs.advance.seal Term.empty m) } := by
  unfold writeMessage
  rw [writeMessageL_ok s m hl hh hb]

theorem writeMessage_inv (s s1 : Sender) (m : Msg) (h : writeMessage s m = .ok s1) :
    m.len ≤ maxPayload ∧ s.hdr = [] ∧ s.body = [] ∧
    s1 = { cs := s.cs.advance.advance, hdr := render (s.cs.seal Term.empty (lenMsg m.len)),
           body := render (s.cs.advance.seal Term.empty m) } := by
  unfold writeMessage at h
  split at h
  · rename_i r hr
    obtain ⟨a, b, c, d⟩ := writeMessageL_inv s m r hr
    injection h with h
    subst h
    exact ⟨a, b, c, by rw [d]⟩
  · cases h

/-- a refused `WriteMessage` is refused because the message is too long or because
    something is still buffered -/
theorem writeMessageL_error (s : Sender) (m : Msg) (e : WErr) (h : writeMessageL s m = .error e) :
    m.len > maxPayload ∨ s.hdr ≠ [] ∨ s.body ≠ [] := by
  unfold writeMessageL at h
  split at h
  · rename_i hl; exact Or.inl hl
  · split at h
    · rename_i hf; exact Or.inr hf
    · cases h

/-- `WriteMessage` + any flush pattern per message puts exactly `encodeAll` on the wire. -/
theorem sendAll_encodeAll (steps : List SendStep) : ∀ (s : Sender), s.hdr = [] → s.body = [] →
    (∀ st ∈ steps, st.msg.len ≤ maxPayload) →
    ∃ s', sendAll s steps = some (encodeAll s.cs (steps.map (·.msg)), s') ∧ s'.hdr = [] ∧ s'.body = [] ∧
      s'.cs = stateAt s.cs (2 * steps.length) := by
  induction steps with
  | nil => intro s hh hb _; exact ⟨s, rfl, hh, hb, rfl⟩
  | cons st rest ih =>
    intro s hh hb hl
    have hw := writeMessage_ok s st.msg (hl st (by simp)) hh hb
    obtain ⟨f1, f2, f3, f4⟩ := runFlushes_final st.flushes
      { cs := s.cs.advance.advance, hdr := render (s.cs.seal Term.empty (lenMsg st.msg.len)),
        body := render (s.cs.advance.seal Term.empty st.msg) }
    obtain ⟨s', g1, g2, g3, g4⟩ := ih _ f2 f3 (fun x hx => hl x (by simp [hx]))
    refine ⟨s', ?_, g2, g3, ?_⟩
    · simp only [sendAll, hw, g1, f1, f4, List.map_cons, encodeAll, encodeMsg]
    · rw [g4, f4]
      show stateAt (stateAt s.cs 2) (2 * rest.length) = _
      rw [stateAt_add]; congr 1; simp only [List.length_cons]; omega

/-! ### the log of sealed packets -/

theorem mem_sealLog (ms : List Msg) : ∀ (c : CipherState) (p : Packet), p ∈ sealLog c ms →
    ∃ i m, ms[i]? = some m ∧
      (p = (stateAt c (2 * i)).seal Term.empty (lenMsg m.len) ∨
       p = (stateAt c (2 * i + 1)).seal Term.empty m) := by
  induction ms with
  | nil => intro c p h; simp [sealLog] at h
  | cons m ms ih =>
    intro c p h
    simp only [sealLog, List.mem_cons] at h
    rcases h with h | h | h
    · exact ⟨0, m, by simp, Or.inl (by simpa [stateAt] using h)⟩
    · exact ⟨0, m, by simp, Or.inr (by simpa [stateAt] using h)⟩
    · obtain ⟨i, m', hi, hp⟩ := ih _ p h
      refine ⟨i + 1, m', by simpa using hi, ?_⟩
      rw [← stateAt_two, stateAt_add, stateAt_add] at hp
      have e1 : 2 * (i + 1) = 2 + 2 * i := by omega
      have e2 : 2 * (i + 1) + 1 = 2 + (2 * i + 1) := by omega
      rw [e2, e1]; exact hp

theorem sealLog_mem (ms : List Msg) : ∀ (c : CipherState) (i : Nat) (m : Msg), ms[i]? = some m →
    (stateAt c (2 * i)).seal Term.empty (lenMsg m.len) ∈ sealLog c ms ∧
    (stateAt c (2 * i + 1)).seal Term.empty m ∈ sealLog c ms := by
  induction ms with
  | nil => intro c i m h; simp at h
  | cons m0 ms ih =>
    intro c i m h
    cases i with
    | zero =>
      simp only [List.getElem?_cons_zero, Option.some.injEq] at h
      subst h
      simp [sealLog, stateAt]
    | succ j =>
      simp only [List.getElem?_cons_succ] at h
      obtain ⟨h1, h2⟩ := ih c.advance.advance j m h
      rw [← stateAt_two, stateAt_add] at h1 h2
      have e1 : 2 * (j + 1) = 2 + 2 * j := by omega
      have e2 : 2 * (j + 1) + 1 = 2 + (2 * j + 1) := by omega
      rw [e2, e1]
      simp only [sealLog, List.mem_cons]
      exact ⟨Or.inr (Or.inr h1), Or.inr (Or.inr h2)⟩

/-- entry `2i` of the log is the length prefix of message `i` sealed at use `2i`, entry `2i+1`
    its payload sealed at use `2i+1` -/
theorem sealLog_getElem (ms : List Msg) : ∀ (c : CipherState) (i : Nat),
    (sealLog c ms)[2 * i]? = ms[i]?.map (fun m => (stateAt c (2 * i)).seal Term.empty (lenMsg m.len)) ∧
    (sealLog c ms)[2 * i + 1]? = ms[i]?.map (fun m => (stateAt c (2 * i + 1)).seal Term.empty m) := by
  induction ms with
  | nil => intro c i; simp [sealLog]
  | cons m0 ms ih =>
    intro c i
    cases i with
    | zero => simp [sealLog, stateAt]
    | succ j =>
      obtain ⟨h1, h2⟩ := ih c.advance.advance j
      rw [← stateAt_two] at h1 h2
      simp only [stateAt_add] at h1 h2
      have e1 : 2 * (j + 1) = (2 * j + 1) + 1 := by omega
      have e2 : 2 * (j + 1) + 1 = (2 * j + 1 + 1) + 1 := by omega
      have e3 : 2 + 2 * j = 2 * j + 1 + 1 := by omega
      have e4 : 2 + (2 * j + 1) = 2 * j + 1 + 1 + 1 := by omega
      rw [e3] at h1
      rw [e4] at h2
      refine ⟨?_, ?_⟩
      · rw [e1]; simp only [sealLog, List.getElem?_cons_succ]; exact h1
      · rw [e2]; simp only [sealLog, List.getElem?_cons_succ]; exact h2

theorem sealLog_length (ms : List Msg) : ∀ (c : CipherState), (sealLog c ms).length = 2 * ms.length := by
  induction ms with
  | nil => intro c; rfl
  | cons m ms ih => intro c; simp only [sealLog, List.length_cons, ih]; omega

theorem mem_sealLog_wf (ms : List Msg) (c : CipherState) (hc : c.WF) (p : Packet) (h : p ∈ sealLog c ms) :
    p.nonce < keyRotationInterval ∧ (∃ k, p.key = (stateAt c k).key ∧ p.nonce = (stateAt c k).nonce) ∧
    p.ad = Term.empty := by
  obtain ⟨i, m, _, hp⟩ := mem_sealLog ms c p h
  rcases hp with hp | hp <;> subst hp
  · exact ⟨stateAt_wf c hc _, ⟨_, rfl, rfl⟩, rfl⟩
  · exact ⟨stateAt_wf c hc _, ⟨_, rfl, rfl⟩, rfl⟩

/-- no two positions of the log carry the same key term and nonce -/
theorem sealLog_pairwise (ms : List Msg) : ∀ (c : CipherState), c.WF →
    (sealLog c ms).Pairwise (fun p q => ¬ (p.key = q.key ∧ p.nonce = q.nonce)) := by
  induction ms with
  | nil => intro c _; simp [sealLog]
  | cons m ms ih =>
    intro c hc
    have hc2 := advance_wf _ (advance_wf c hc)
    have tail : ∀ q ∈ sealLog c.advance.advance ms, ∃ k, 2 ≤ k ∧ q.key = (stateAt c k).key ∧
        q.nonce = (stateAt c k).nonce := by
      intro q hq
      obtain ⟨_, ⟨k, h1, h2⟩, _⟩ := mem_sealLog_wf ms _ hc2 q hq
      rw [← stateAt_two, stateAt_add] at h1 h2
      exact ⟨2 + k, by omega, h1, h2⟩
    simp only [sealLog]
    refine List.Pairwise.cons ?_ (List.Pairwise.cons ?_ (ih _ hc2))
    · intro q hq ⟨hk, hn⟩
      simp only [List.mem_cons] at hq
      rcases hq with hq | hq
      · subst hq
        have := stateAt_index_inj c hc 0 1 hk hn
        omega
      · obtain ⟨k, hk2, e1, e2⟩ := tail q hq
        have := stateAt_index_inj c hc 0 k (by rw [← e1]; exact hk) (by rw [← e2]; exact hn)
        omega
    · intro q hq ⟨hk, hn⟩
      obtain ⟨k, hk2, e1, e2⟩ := tail q hq
      have := stateAt_index_inj c hc 1 k (by rw [← e1]; exact hk) (by rw [← e2]; exact hn)
      omega

/-! ### arbitrary operation traces -/

theorem sealLog_append (ms : List Msg) (m : Msg) : ∀ (c : CipherState),
    sealLog c (ms ++ [m]) = sealLog c ms ++
      [(stateAt c (2 * ms.length)).seal Term.empty (lenMsg m.len),
       (stateAt c (2 * ms.length + 1)).seal Term.empty m] := by
  induction ms with
  | nil => intro c; simp [sealLog, stateAt]
  | cons m0 ms ih =>
    intro c
    have e1 : 2 * (m0 :: ms).length = 2 + 2 * ms.length := by simp only [List.length_cons]; omega
    have e2 : 2 * (m0 :: ms).length + 1 = 2 + (2 * ms.length + 1) := by simp only [List.length_cons]; omega
    simp only [List.cons_append, sealLog, ih, e1, e2, ← stateAt_add, stateAt_two]

theorem encodeAll_append (ms : List Msg) (m : Msg) : ∀ (c : CipherState),
    encodeAll c (ms ++ [m]) = encodeAll c ms ++ encodeMsg (stateAt c (2 * ms.length)) m := by
  induction ms with
  | nil => intro c; simp [encodeAll, stateAt]
  | cons m0 ms ih =>
    intro c
    have e1 : 2 * (m0 :: ms).length = 2 + 2 * ms.length := by simp only [List.length_cons]; omega
    simp only [List.cons_append, encodeAll, ih, e1, ← stateAt_add, stateAt_two, List.append_assoc]

/-- what every reachable sending-side state satisfies -/
def TraceInv (c0 : CipherState) (t : Trace) : Prop :=
  t.log = sealLog c0 t.accepted ∧
  t.s.cs = stateAt c0 (2 * t.accepted.length) ∧
  t.wire ++ (t.s.hdr ++ t.s.body) = encodeAll c0 t.accepted ∧
  ∀ m ∈ t.accepted, m.len ≤ maxPayload

theorem traceInv_start (c0 : CipherState) : TraceInv c0 (Trace.start c0) := by
  simp [TraceInv, Trace.start, sealLog, encodeAll, stateAt]

theorem traceInv_step (c0 : CipherState) (t : Trace) (op : Op) (h : TraceInv c0 t) :
    TraceInv c0 (t.step op) := by
  obtain ⟨h1, h2, h3, h4⟩ := h
  cases op with
  | write m =>
    simp only [Trace.step]
    split
    · rename_i r hr
      obtain ⟨a, b, c, d⟩ := writeMessageL_inv t.s m r hr
      subst d
      rw [b, c] at h3
      refine ⟨?_, ?_, ?_, ?_⟩
      · simp only [sealLog_append, h1, h2]
        rfl
      · simp only [h2, List.length_append, List.length_cons, List.length_nil]
        show (stateAt c0 (2 * t.accepted.length)).advance.advance = _
        rw [← stateAt_two, stateAt_add]; congr 1
      · simp only [encodeAll_append, ← h3, h2, List.append_nil]
        rfl
      · intro x hx
        rcases List.mem_append.mp hx with hx | hx
        · exact h4 x hx
        · simp only [List.mem_singleton] at hx; subst hx; exact a
    · exact ⟨h1, h2, h3, h4⟩
  | flush b e =>
    simp only [Trace.step]
    obtain ⟨g1, g2⟩ := flush_conserve t.s b e
    refine ⟨h1, by rw [g2]; exact h2, ?_, h4⟩
    rw [List.append_assoc, g1]; exact h3

theorem traceInv_run (c0 : CipherState) (ops : List Op) : ∀ (t : Trace), TraceInv c0 t →
    TraceInv c0 (runOps t ops) := by
  induction ops with
  | nil => intro t h; exact h
  | cons op ops ih => intro t h; exact ih _ (traceInv_step c0 t op h)

theorem mkDh_comm (a b : Nat) : mkDh a b = mkDh b a := by
  simp only [mkDh, Nat.min_comm, Nat.max_comm]

theorem ratchet_size_ge (s k : Term) (n : Nat) : k.size ≤ (ratchet s k n).2.size := by
  rcases Nat.eq_zero_or_pos n with h | h
  · subst h; exact Nat.le_refl _
  · exact Nat.le_of_lt (ratchet_size_mono s k 0 n h)

theorem flush_noerr_clean (s : Sender) (b : Option Nat) (e : Bool) (h : (flush s b e).err = false) :
    (flush s b e).st.hdr = [] ∧ (flush s b e).st.body = [] := by
  unfold flush at *
  by_cases hh : s.hdr = []
  · by_cases hb : s.body = []
    · simp [hh, hb]
    · simp only [hh, if_true, hb, if_false, Bool.false_eq_true] at h ⊢
      have := wwrite_noerr _ _ _ h
      simp [this]
  · simp only [hh, if_false] at h ⊢
    by_cases he : (wwrite b e s.hdr.length).2.1 = true
    · simp [he] at h
    · have he' : (wwrite b e s.hdr.length).2.1 = false := by simpa using he
      have hn := wwrite_noerr _ _ _ he'
      by_cases hb : s.body = []
      · simp [he', hb, hn]
      · simp only [he', hb, if_false, Bool.false_eq_true] at h ⊢
        have := wwrite_noerr _ _ _ h
        simp [this, hn]

theorem flush_none_budget (s : Sender) (e : Bool) : (flush s none e).budget = none := by
  unfold flush
  by_cases hh : s.hdr = [] <;> by_cases hb : s.body = [] <;> simp [hh, hb, wwrite_none]

end LndModel.C11
