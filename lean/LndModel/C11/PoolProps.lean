/-
C11 — theorems about the pooled send buffers (Pool.lean): connections that share the two
`sync.Pool`s cannot see or alter each other's pending ciphertext, whatever the interleaving and
whatever the pools hand out; `ClearPendingSend`.
-/
import LndModel.C11.Pool
import LndModel.C11.Lemmas

namespace LndModel.C11

/-! ### association maps -/

theorem amGet_amSet {α : Type} (d : α) (m : List (Nat × α)) (j : Nat) (v : α) (i : Nat) :
    amGet d (amSet m j v) i = if j = i then v else amGet d m i := by
  induction m with
  | nil => simp [amSet, amGet]
  | cons kv m ih =>
    obtain ⟨k, w⟩ := kv
    by_cases hk : k = j
    · subst hk
      by_cases hi : k = i <;> simp [amSet, amGet, hi]
    · by_cases hi : k = i
      · subst hi
        have : ¬ j = k := fun h => hk h.symm
        simp [amSet, amGet, hk, this]
      · simp [amSet, amGet, hk, hi, ih]

/-! ### the ownership invariant -/

def PMach.owns (m : PMach) (b : Nat) : Prop := m.hb = some b ∨ m.bb = some b

/-- Every buffer referenced by a Machine is referenced by that Machine only, once, and is not in
    a pool; everything ever handed out is below the allocator mark. -/
structure PInv (st : PState) : Prop where
  lt : ∀ i b, (st.mach i).owns b → b < st.next
  notFreeH : ∀ i b, (st.mach i).owns b → b ∉ st.freeH
  notFreeB : ∀ i b, (st.mach i).owns b → b ∉ st.freeB
  excl : ∀ i j b, (st.mach i).owns b → (st.mach j).owns b → i = j
  hbne : ∀ i b, (st.mach i).hb = some b → (st.mach i).bb ≠ some b
  freeLtH : ∀ b ∈ st.freeH, b < st.next
  freeLtB : ∀ b ∈ st.freeB, b < st.next
  nodupH : st.freeH.Nodup
  nodupB : st.freeB.Nodup
  disj : ∀ b ∈ st.freeH, b ∉ st.freeB

/-- a state in which no Machine holds a buffer and the pools are empty (process start; Machines
    after `split`) satisfies the invariant -/
theorem pinv_of_idle (st : PState) (h : ∀ i, (st.mach i).hb = none ∧ (st.mach i).bb = none)
    (hH : st.freeH = []) (hB : st.freeB = []) : PInv st := by
  have no : ∀ i b, ¬ (st.mach i).owns b := by
    intro i b hb
    rcases hb with hb | hb
    · rw [(h i).1] at hb; cases hb
    · rw [(h i).2] at hb; cases hb
  exact
    { lt := fun i b hb => absurd hb (no i b)
      notFreeH := fun i b hb => absurd hb (no i b)
      notFreeB := fun i b hb => absurd hb (no i b)
      excl := fun i j b hb _ => absurd hb (no i b)
      hbne := fun i b hb => by rw [(h i).1] at hb; cases hb
      freeLtH := by rw [hH]; intro b hb; cases hb
      freeLtB := by rw [hB]; intro b hb; cases hb
      nodupH := by rw [hH]; exact List.nodup_nil
      nodupB := by rw [hB]; exact List.nodup_nil
      disj := by rw [hH]; intro b hb; cases hb }

/-- Machines that have just completed their handshakes: cipher states installed, nothing buffered -/
def PState.ofCiphers (l : List (Nat × CipherState)) : PState :=
  { machs := l.map (fun p => (p.1, { cs := p.2 })) }

theorem ofCiphers_idle (l : List (Nat × CipherState)) (i : Nat) :
    ((PState.ofCiphers l).mach i).hb = none ∧ ((PState.ofCiphers l).mach i).bb = none := by
  unfold PState.ofCiphers PState.mach
  induction l with
  | nil => simp [amGet]
  | cons p l ih =>
    simp only [List.map_cons, amGet]
    split
    · exact ⟨rfl, rfl⟩
    · exact ih

theorem pinv_ofCiphers (l : List (Nat × CipherState)) : PInv (PState.ofCiphers l) :=
  pinv_of_idle _ (ofCiphers_idle l) rfl rfl

/-! ### what a view depends on -/

theorem view_congr (st st' : PState) (j : Nat) (hm : st'.mach j = st.mach j)
    (hb : ∀ b, (st.mach j).owns b → st'.buf b = st.buf b) : st'.view j = st.view j := by
  have e1 : st'.slice (st.mach j).hb (st.mach j).hoff = st.slice (st.mach j).hb (st.mach j).hoff := by
    unfold PState.slice
    cases h : (st.mach j).hb with
    | none => rfl
    | some k => simp only; rw [hb k (Or.inl h)]
  have e2 : st'.slice (st.mach j).bb (st.mach j).boff = st.slice (st.mach j).bb (st.mach j).boff := by
    unfold PState.slice
    cases h : (st.mach j).bb with
    | none => rfl
    | some k => simp only; rw [hb k (Or.inr h)]
  simp only [PState.view, hm, e1, e2]

theorem mach_set (st : PState) (i : Nat) (m : PMach) (j : Nat) (st' : PState)
    (h : st'.machs = amSet st.machs i m) : st'.mach j = if i = j then m else st.mach j := by
  unfold PState.mach
  rw [h, amGet_amSet]

/-! ### `releaseBuffers` -/

theorem release_mach (st : PState) (i j : Nat) :
    (st.release i).mach j =
      if i = j then { st.mach i with hb := none, bb := none, hoff := 0, boff := 0 } else st.mach j :=
  mach_set st i _ j _ rfl

theorem release_view_self (st : PState) (i : Nat) :
    (st.release i).view i = { st.view i with hdr := [], body := [] } := by
  unfold PState.view
  rw [release_mach]
  simp [PState.slice]

theorem release_view_other (st : PState) (i j : Nat) (h : j ≠ i) :
    (st.release i).view j = st.view j := by
  apply view_congr
  · rw [release_mach]; simp [Ne.symm h]
  · intro b _; rfl

theorem release_inv (st : PState) (hI : PInv st) (i : Nat) : PInv (st.release i) := by
  have owns' : ∀ j b, ((st.release i).mach j).owns b → j ≠ i ∧ (st.mach j).owns b := by
    intro j b hb
    rw [release_mach] at hb
    by_cases hij : i = j
    · subst hij
      simp [PMach.owns] at hb
    · simp only [hij, if_false] at hb
      exact ⟨fun h => hij h.symm, hb⟩
  have memH : ∀ b, b ∈ (st.release i).freeH ↔ ((st.mach i).hb = some b ∨ b ∈ st.freeH) := by
    intro b
    show b ∈ (match (st.mach i).hb with | some h => [h] | none => []) ++ st.freeH ↔ _
    cases (st.mach i).hb with
    | none => simp
    | some h => simp [eq_comm]
  have memB : ∀ b, b ∈ (st.release i).freeB ↔ ((st.mach i).bb = some b ∨ b ∈ st.freeB) := by
    intro b
    show b ∈ (match (st.mach i).bb with | some h => [h] | none => []) ++ st.freeB ↔ _
    cases (st.mach i).bb with
    | none => simp
    | some h => simp [eq_comm]
  have hnext : (st.release i).next = st.next := rfl
  refine
    { lt := ?_, notFreeH := ?_, notFreeB := ?_, excl := ?_, hbne := ?_, freeLtH := ?_, freeLtB := ?_,
      nodupH := ?_, nodupB := ?_, disj := ?_ }
  · intro j b hb
    exact hI.lt j b (owns' j b hb).2
  · intro j b hb
    obtain ⟨hne, ho⟩ := owns' j b hb
    rw [memH]
    rintro (h | h)
    · exact hne (hI.excl j i b ho (Or.inl h))
    · exact hI.notFreeH j b ho h
  · intro j b hb
    obtain ⟨hne, ho⟩ := owns' j b hb
    rw [memB]
    rintro (h | h)
    · exact hne (hI.excl j i b ho (Or.inr h))
    · exact hI.notFreeB j b ho h
  · intro j k b hj hk
    exact hI.excl j k b (owns' j b hj).2 (owns' k b hk).2
  · intro j b hb
    have : ((st.release i).mach j).owns b := Or.inl hb
    obtain ⟨hne, _⟩ := owns' j b this
    rw [release_mach] at hb ⊢
    have hij : ¬ i = j := fun h => hne h.symm
    simp only [hij, if_false] at hb ⊢
    exact hI.hbne j b hb
  · intro b hb
    rw [memH] at hb
    rcases hb with h | h
    · exact hI.lt i b (Or.inl h)
    · exact hI.freeLtH b h
  · intro b hb
    rw [memB] at hb
    rcases hb with h | h
    · exact hI.lt i b (Or.inr h)
    · exact hI.freeLtB b h
  · show ((match (st.mach i).hb with | some h => [h] | none => []) ++ st.freeH).Nodup
    cases h : (st.mach i).hb with
    | none => simpa using hI.nodupH
    | some k =>
      simp only [List.singleton_append, List.nodup_cons]
      exact ⟨hI.notFreeH i k (Or.inl h), hI.nodupH⟩
  · show ((match (st.mach i).bb with | some h => [h] | none => []) ++ st.freeB).Nodup
    cases h : (st.mach i).bb with
    | none => simpa using hI.nodupB
    | some k =>
      simp only [List.singleton_append, List.nodup_cons]
      exact ⟨hI.notFreeB i k (Or.inr h), hI.nodupB⟩
  · intro b hb
    rw [memH] at hb
    rw [memB]
    rcases hb with h | h
    · rintro (h2 | h2)
      · exact hI.hbne i b h h2
      · exact hI.notFreeB i b (Or.inl h) h2
    · rintro (h2 | h2)
      · exact hI.notFreeH i b (Or.inr h2) h
      · exact hI.disj b h h2

/-! ### `split()` installs a fresh send cipher -/

theorem install_mach (st : PState) (i : Nat) (c : CipherState) (j : Nat) :
    (st.install i c).mach j = if i = j then { cs := c } else st.mach j :=
  mach_set st i _ j _ rfl

/-- installing a send cipher (the Machine then holds no buffer; one it held would be leaked, not
    shared) keeps the ownership invariant and leaves every other Machine as it was -/
theorem install_inv (st : PState) (hI : PInv st) (i : Nat) (c : CipherState) : PInv (st.install i c) := by
  have owns' : ∀ j b, ((st.install i c).mach j).owns b → (st.mach j).owns b := by
    intro j b hb
    rw [install_mach] at hb
    by_cases hij : i = j
    · subst hij
      simp [PMach.owns] at hb
    · simp only [hij, if_false] at hb
      exact hb
  exact
    { lt := fun j b hb => hI.lt j b (owns' j b hb)
      notFreeH := fun j b hb => hI.notFreeH j b (owns' j b hb)
      notFreeB := fun j b hb => hI.notFreeB j b (owns' j b hb)
      excl := fun j k b hj hk => hI.excl j k b (owns' j b hj) (owns' k b hk)
      hbne := fun j b hb => by
        rw [install_mach] at hb ⊢
        by_cases hij : i = j
        · subst hij; simp at hb
        · simp only [hij, if_false] at hb ⊢; exact hI.hbne j b hb
      freeLtH := hI.freeLtH
      freeLtB := hI.freeLtB
      nodupH := hI.nodupH
      nodupB := hI.nodupB
      disj := hI.disj }

theorem install_view_other (st : PState) (i j : Nat) (c : CipherState) (h : j ≠ i) :
    (st.install i c).view j = st.view j := by
  apply view_congr
  · rw [install_mach]; simp [Ne.symm h]
  · intro b _; rfl

/-! ### `sync.Pool.Get` -/

theorem poolGet_cases (free : List Nat) (next : Nat) (choice : Option Nat) :
    ((poolGet free next choice).1 ∈ free ∧
      (poolGet free next choice).2.1 = free.erase (poolGet free next choice).1 ∧
      (poolGet free next choice).2.2 = next) ∨
    ((poolGet free next choice).1 = next ∧ (poolGet free next choice).2.1 = free ∧
      (poolGet free next choice).2.2 = next + 1) := by
  cases choice with
  | none => exact Or.inr ⟨rfl, rfl, rfl⟩
  | some k =>
    by_cases hk : k ∈ free
    · have e : poolGet free next (some k) = (k, free.erase k, next) := by simp [poolGet, hk]
      rw [e]; exact Or.inl ⟨hk, rfl, rfl⟩
    · have e : poolGet free next (some k) = (next, free, next + 1) := by simp [poolGet, hk]
      rw [e]; exact Or.inr ⟨rfl, rfl, rfl⟩

/-- what a `Get` guarantees: the object is pooled or new; it is no longer pooled afterwards; the
    pool only shrinks; the allocator mark only grows and stays above everything handed out. -/
theorem poolGet_spec (free : List Nat) (next : Nat) (choice : Option Nat)
    (hlt : ∀ b ∈ free, b < next) (hnd : free.Nodup) :
    ((poolGet free next choice).1 ∈ free ∨ (poolGet free next choice).1 = next) ∧
    (poolGet free next choice).1 ∉ (poolGet free next choice).2.1 ∧
    (∀ b, b ∈ (poolGet free next choice).2.1 ↔ (b ∈ free ∧ b ≠ (poolGet free next choice).1)) ∧
    (poolGet free next choice).2.1.Nodup ∧
    (poolGet free next choice).1 < (poolGet free next choice).2.2 ∧
    next ≤ (poolGet free next choice).2.2 ∧ (poolGet free next choice).2.2 ≤ next + 1 := by
  rcases poolGet_cases free next choice with ⟨h1, h2, h3⟩ | ⟨h1, h2, h3⟩
  · rw [h2, h3]
    refine ⟨Or.inl h1, ?_, ?_, hnd.erase _, hlt _ h1, Nat.le_refl _, Nat.le_succ _⟩
    · rw [hnd.mem_erase_iff]; simp
    · intro b; rw [hnd.mem_erase_iff]; exact And.comm
  · rw [h2, h3, h1]
    refine ⟨Or.inr rfl, ?_, ?_, hnd, Nat.lt_succ_self _, Nat.le_succ _, Nat.le_refl _⟩
    · intro h; exact Nat.lt_irrefl _ (hlt _ h)
    · intro b
      constructor
      · intro hb; exact ⟨hb, fun e => Nat.lt_irrefl _ (e ▸ hlt _ hb)⟩
      · intro hb; exact hb.1

/-! ### `WriteMessage` -/

theorem buf_set2 (heap : List (Nat × List WByte)) (h b x : Nat) (vh vb : List WByte) (st' : PState)
    (e : st'.heap = amSet (amSet heap h vh) b vb) :
    st'.buf x = if b = x then vb else if h = x then vh else amGet [] heap x := by
  unfold PState.buf
  rw [e, amGet_amSet, amGet_amSet]

/-- the state after an accepted `WriteMessage` (the record `PState.write` builds) -/
def PState.wrote (st : PState) (i : Nat) (s' : Sender) (g1 g2 : Nat × List Nat × Nat) : PState :=
  { heap := amSet (amSet st.heap g1.1 s'.hdr) g2.1 s'.body,
    freeH := g1.2.1, freeB := g2.2.1, next := g2.2.2,
    machs := amSet st.machs i { cs := s'.cs, hb := some g1.1, bb := some g2.1, hoff := 0, boff := 0 } }

/-- an accepted `WriteMessage` of Machine `i`: the invariant is kept, Machine `i` now denotes the
    value model's result, every other Machine denotes what it denoted before. -/
theorem write_ok (st : PState) (hI : PInv st) (i : Nat) (m : Msg) (ch cb : Option Nat) (s' : Sender)
    (hw : writeMessage (st.view i) m = .ok s') :
    PInv (st.write i m ch cb).2 ∧ (st.write i m ch cb).1 = none ∧
    (st.write i m ch cb).2.view i = s' ∧
    ∀ j, j ≠ i → (st.write i m ch cb).2.view j = st.view j := by
  -- the two `Get`s
  obtain ⟨g1a, g1b, g1c, g1d, g1e, g1f, g1g⟩ := poolGet_spec st.freeH st.next ch hI.freeLtH hI.nodupH
  have hltB : ∀ b ∈ st.freeB, b < (poolGet st.freeH st.next ch).2.2 :=
    fun b hb => Nat.lt_of_lt_of_le (hI.freeLtB b hb) g1f
  obtain ⟨g2a, g2b, g2c, g2d, g2e, g2f, g2g⟩ :=
    poolGet_spec st.freeB (poolGet st.freeH st.next ch).2.2 cb hltB hI.nodupB
  generalize hg1 : poolGet st.freeH st.next ch = g1 at *
  generalize hg2 : poolGet st.freeB g1.2.2 cb = g2 at *
  have hst : st.write i m ch cb = (none, st.wrote i s' g1 g2) := by
    unfold PState.write PState.wrote
    rw [hw]
    simp only [hg1, hg2]
  rw [hst]
  generalize hst' : st.wrote i s' g1 g2 = st'
  show PInv st' ∧ (none : Option WErr) = none ∧ st'.view i = s' ∧ ∀ j, j ≠ i → st'.view j = st.view j
  have eH : st'.freeH = g1.2.1 := by rw [← hst']; rfl
  have eB : st'.freeB = g2.2.1 := by rw [← hst']; rfl
  have eN : st'.next = g2.2.2 := by rw [← hst']; rfl
  have eHeap : st'.heap = amSet (amSet st.heap g1.1 s'.hdr) g2.1 s'.body := by rw [← hst']; rfl
  have eM : ∀ j, st'.mach j =
      if i = j then { cs := s'.cs, hb := some g1.1, bb := some g2.1, hoff := 0, boff := 0 } else st.mach j := by
    intro j; exact mach_set st i _ j st' (by rw [← hst']; rfl)
  have hne : g1.1 ≠ g2.1 := by
    intro e
    rcases g2a with h2 | h2
    · rcases g1a with h1 | h1
      · exact hI.disj _ h1 (e ▸ h2)
      · have := hI.freeLtB _ h2; omega
    · omega
  -- nobody owns what the pools hand out
  have fresh : ∀ j x, (st.mach j).owns x → x ≠ g1.1 ∧ x ≠ g2.1 := by
    intro j x hx
    constructor
    · intro e
      rcases g1a with h1 | h1
      · exact hI.notFreeH j x hx (e ▸ h1)
      · have := hI.lt j x hx; omega
    · intro e
      rcases g2a with h2 | h2
      · exact hI.notFreeB j x hx (e ▸ h2)
      · have := hI.lt j x hx; omega
  have owns' : ∀ j x, (st'.mach j).owns x →
      (j = i ∧ (x = g1.1 ∨ x = g2.1)) ∨ (j ≠ i ∧ (st.mach j).owns x) := by
    intro j x hx
    rw [eM] at hx
    by_cases hij : i = j
    · subst hij
      simp only [if_true, PMach.owns, Option.some.injEq] at hx
      exact Or.inl ⟨rfl, hx.imp Eq.symm Eq.symm⟩
    · simp only [hij, if_false] at hx
      exact Or.inr ⟨fun h => hij h.symm, hx⟩
  refine ⟨?_, rfl, ?_, ?_⟩
  · refine
      { lt := ?_, notFreeH := ?_, notFreeB := ?_, excl := ?_, hbne := ?_, freeLtH := ?_, freeLtB := ?_,
        nodupH := ?_, nodupB := ?_, disj := ?_ }
    · intro j x hx
      rw [eN]
      rcases owns' j x hx with ⟨_, h | h⟩ | ⟨_, h⟩
      · omega
      · omega
      · have := hI.lt j x h; omega
    · intro j x hx
      rw [eH, g1c]
      rintro ⟨hx1, hx2⟩
      rcases owns' j x hx with ⟨_, h | h⟩ | ⟨_, h⟩
      · exact hx2 h
      · rcases g2a with h2 | h2
        · exact hI.disj x hx1 (h ▸ h2)
        · have := hI.freeLtH x hx1; omega
      · exact hI.notFreeH j x h hx1
    · intro j x hx
      rw [eB, g2c]
      rintro ⟨hx1, hx2⟩
      rcases owns' j x hx with ⟨_, h | h⟩ | ⟨_, h⟩
      · rcases g1a with h1 | h1
        · exact hI.disj x (h ▸ h1) hx1
        · have := hI.freeLtB x hx1; omega
      · exact hx2 h
      · exact hI.notFreeB j x h hx1
    · intro j k x hj hk
      rcases owns' j x hj with ⟨ej, hj'⟩ | ⟨nj, hj'⟩
      · rcases owns' k x hk with ⟨ek, _⟩ | ⟨_, hk'⟩
        · rw [ej, ek]
        · exfalso
          rcases hj' with h | h
          · exact (fresh k x hk').1 h
          · exact (fresh k x hk').2 h
      · rcases owns' k x hk with ⟨_, hk'⟩ | ⟨_, hk'⟩
        · exfalso
          rcases hk' with h | h
          · exact (fresh j x hj').1 h
          · exact (fresh j x hj').2 h
        · exact hI.excl j k x hj' hk'
    · intro j x hx
      rw [eM] at hx ⊢
      by_cases hij : i = j
      · simp only [hij, if_true, Option.some.injEq] at hx ⊢
        intro e; exact hne (hx.trans (Option.some.inj e).symm)
      · simp only [hij, if_false] at hx ⊢
        exact hI.hbne j x hx
    · intro x hx
      rw [eH, g1c] at hx
      rw [eN]
      have := hI.freeLtH x hx.1; omega
    · intro x hx
      rw [eB, g2c] at hx
      rw [eN]
      have := hI.freeLtB x hx.1; omega
    · rw [eH]; exact g1d
    · rw [eB]; exact g2d
    · intro x hx
      rw [eH, g1c] at hx
      rw [eB, g2c]
      rintro ⟨h, _⟩
      exact hI.disj x hx.1 h
  · -- Machine i
    have e1 : st'.buf g1.1 = s'.hdr := by
      rw [buf_set2 st.heap g1.1 g2.1 g1.1 s'.hdr s'.body st' eHeap]
      simp [Ne.symm hne]
    have e2 : st'.buf g2.1 = s'.body := by
      rw [buf_set2 st.heap g1.1 g2.1 g2.1 s'.hdr s'.body st' eHeap]
      simp
    simp only [PState.view, eM, if_true, PState.slice, e1, e2, List.drop_zero]
  · intro j hj
    apply view_congr
    · rw [eM]; simp [Ne.symm hj]
    · intro x hx
      obtain ⟨n1, n2⟩ := fresh j x hx
      rw [buf_set2 st.heap g1.1 g2.1 x s'.hdr s'.body st' eHeap]
      simp only [Ne.symm n1, Ne.symm n2, if_false]
      rfl

theorem write_refused (st : PState) (i : Nat) (m : Msg) (ch cb : Option Nat) (e : WErr)
    (hw : writeMessage (st.view i) m = .error e) : st.write i m ch cb = (some e, st) := by
  unfold PState.write
  rw [hw]

/-! ### `Flush` -/

theorem flush_shape (s : Sender) (budget : Option Nat) (eager : Bool) :
    ∃ n k, (flush s budget eager).st = { cs := s.cs, hdr := s.hdr.drop n, body := s.body.drop k } := by
  by_cases h1 : s.hdr = []
  · by_cases h2 : s.body = []
    · exact ⟨0, 0, by simp [flush, h1, h2]⟩
    · exact ⟨0, (wwrite budget eager s.body.length).1, by simp [flush, h1, h2]⟩
  · by_cases h3 : (wwrite budget eager s.hdr.length).2.1 = true
    · exact ⟨(wwrite budget eager s.hdr.length).1, 0, by simp [flush, h1, h3]⟩
    · by_cases h2 : s.body = []
      · exact ⟨(wwrite budget eager s.hdr.length).1, 0, by simp [flush, h1, h2, h3]⟩
      · exact ⟨(wwrite budget eager s.hdr.length).1,
          (wwrite (wwrite budget eager s.hdr.length).2.2 eager s.body.length).1,
          by simp [flush, h1, h2, h3]⟩

theorem drop_sub_len {α : Type} (l : List α) (off n : Nat) :
    l.drop (off + ((l.drop off).length - ((l.drop off).drop n).length)) = (l.drop off).drop n := by
  simp only [List.length_drop, List.drop_drop]
  by_cases h : off + n ≤ l.length
  · congr 1; omega
  · rw [List.drop_eq_nil_of_le (by omega), List.drop_eq_nil_of_le (by omega)]

theorem slice_advance (st st' : PState) (b : Option Nat) (off n : Nat)
    (hb : ∀ k, b = some k → st'.buf k = st.buf k) :
    st'.slice b (off + ((st.slice b off).length - ((st.slice b off).drop n).length)) =
      (st.slice b off).drop n := by
  unfold PState.slice
  cases b with
  | none => simp
  | some k => simp only; rw [hb k rfl]; exact drop_sub_len _ _ _

/-- a state that differs only in slice offsets has the same ownership -/
theorem pinv_same_owns (st st' : PState) (hI : PInv st) (hH : st'.freeH = st.freeH)
    (hB : st'.freeB = st.freeB) (hN : st'.next = st.next)
    (hm : ∀ j, (st'.mach j).hb = (st.mach j).hb ∧ (st'.mach j).bb = (st.mach j).bb) : PInv st' := by
  have ow : ∀ j x, (st'.mach j).owns x → (st.mach j).owns x := by
    intro j x hx
    unfold PMach.owns at *
    rw [(hm j).1, (hm j).2] at hx
    exact hx
  exact
    { lt := fun j x hx => hN ▸ hI.lt j x (ow j x hx)
      notFreeH := fun j x hx => hH ▸ hI.notFreeH j x (ow j x hx)
      notFreeB := fun j x hx => hB ▸ hI.notFreeB j x (ow j x hx)
      excl := fun j k x hj hk => hI.excl j k x (ow j x hj) (ow k x hk)
      hbne := fun j x hx => by rw [(hm j).2]; rw [(hm j).1] at hx; exact hI.hbne j x hx
      freeLtH := by rw [hH, hN]; exact hI.freeLtH
      freeLtB := by rw [hB, hN]; exact hI.freeLtB
      nodupH := by rw [hH]; exact hI.nodupH
      nodupB := by rw [hB]; exact hI.nodupB
      disj := by rw [hH, hB]; exact hI.disj }

theorem flush_refines (st : PState) (hI : PInv st) (i : Nat) (budget : Option Nat) (eager : Bool) :
    PInv (st.flush i budget eager).2 ∧
    (st.flush i budget eager).1 = flush (st.view i) budget eager ∧
    (st.flush i budget eager).2.view i = (flush (st.view i) budget eager).st ∧
    ∀ j, j ≠ i → (st.flush i budget eager).2.view j = st.view j := by
  obtain ⟨n, k, hshape⟩ := flush_shape (st.view i) budget eager
  generalize hr : flush (st.view i) budget eager = r at *
  generalize hm' : ({ st.mach i with
      hoff := (st.mach i).hoff + ((st.view i).hdr.length - r.st.hdr.length),
      boff := (st.mach i).boff + ((st.view i).body.length - r.st.body.length) } : PMach) = m'
  generalize hst1 : ({ st with machs := amSet st.machs i m' } : PState) = st1
  have hfl : st.flush i budget eager =
      if !r.err && r.st.hdr.isEmpty && r.st.body.isEmpty then (r, st1.release i) else (r, st1) := by
    unfold PState.flush
    simp only [hr, hm', hst1]
  have eM : ∀ j, st1.mach j = if i = j then m' else st.mach j := by
    intro j; exact mach_set st i _ j st1 (by rw [← hst1])
  have eBuf : ∀ x, st1.buf x = st.buf x := by intro x; rw [← hst1]; rfl
  have hown : ∀ j, (st1.mach j).hb = (st.mach j).hb ∧ (st1.mach j).bb = (st.mach j).bb := by
    intro j
    rw [eM]
    by_cases hij : i = j
    · subst hij; rw [if_pos rfl, ← hm']; exact ⟨rfl, rfl⟩
    · rw [if_neg hij]; exact ⟨rfl, rfl⟩
  have hI1 : PInv st1 :=
    pinv_same_owns st st1 hI (by rw [← hst1]) (by rw [← hst1]) (by rw [← hst1]) hown
  have hv1 : st1.view i = r.st := by
    rw [hshape]
    have eh : (st.view i).hdr = st.slice (st.mach i).hb (st.mach i).hoff := rfl
    have eb : (st.view i).body = st.slice (st.mach i).bb (st.mach i).boff := rfl
    have hh := slice_advance st st1 (st.mach i).hb (st.mach i).hoff n (fun x _ => eBuf x)
    have hb := slice_advance st st1 (st.mach i).bb (st.mach i).boff k (fun x _ => eBuf x)
    rw [hshape] at hm'
    simp only [eh, eb] at hm' ⊢
    simp only [PState.view, eM, if_true]
    rw [← hm']
    simp only [hh, hb]
  have hvo : ∀ j, j ≠ i → st1.view j = st.view j := by
    intro j hj
    apply view_congr
    · rw [eM]; simp [Ne.symm hj]
    · intro x _; exact eBuf x
  rw [hfl]
  by_cases hc : (!r.err && r.st.hdr.isEmpty && r.st.body.isEmpty) = true
  · rw [if_pos hc]
    simp only [Bool.and_eq_true, List.isEmpty_iff] at hc
    refine ⟨release_inv st1 hI1 i, rfl, ?_, ?_⟩
    · simp only
      rw [release_view_self, hv1]
      cases hrs : r.st with
      | mk c h b =>
        rw [hrs] at hc
        simp only at hc
        simp only [hc.1.2, hc.2]
    · intro j hj
      simp only
      rw [release_view_other st1 i j hj]; exact hvo j hj
  · rw [if_neg hc]
    exact ⟨hI1, rfl, hv1, hvo⟩

/-! ### any operation, any interleaving -/

/-- ONE operation of Machine `i` on the shared-memory model: the ownership invariant is kept, the
    caller (and the writer) observes exactly what the value model of Machine `i` ALONE produces,
    Machine `i` afterwards denotes the value model's state, and what every other Machine has
    buffered is untouched. -/
theorem pool_step (st : PState) (hI : PInv st) (i : Nat) (op : POp) :
    PInv (st.step i op).2 ∧
    (st.step i op).1 = ((st.view i).pstep op).1 ∧
    (st.step i op).2.view i = ((st.view i).pstep op).2 ∧
    ∀ j, j ≠ i → (st.step i op).2.view j = st.view j := by
  cases op with
  | write m ch cb =>
    show PInv (st.write i m ch cb).2 ∧
      POut.wrote (st.write i m ch cb).1 = ((st.view i).pstep (.write m ch cb)).1 ∧
      (st.write i m ch cb).2.view i = ((st.view i).pstep (.write m ch cb)).2 ∧
      ∀ j, j ≠ i → (st.write i m ch cb).2.view j = st.view j
    cases hw : writeMessage (st.view i) m with
    | error e =>
      have e2 : (st.view i).pstep (.write m ch cb) = (.wrote (some e), st.view i) := by
        simp only [Sender.pstep, hw]
      rw [e2, write_refused st i m ch cb e hw]
      exact ⟨hI, rfl, rfl, fun _ _ => rfl⟩
    | ok s' =>
      have e2 : (st.view i).pstep (.write m ch cb) = (.wrote none, s') := by
        simp only [Sender.pstep, hw]
      obtain ⟨a, b, c, d⟩ := write_ok st hI i m ch cb s' hw
      rw [e2, b]
      exact ⟨a, rfl, c, d⟩
  | flush b e =>
    obtain ⟨a, b', c, d⟩ := flush_refines st hI i b e
    show PInv (st.flush i b e).2 ∧
      POut.flushed (st.flush i b e).1.nn (st.flush i b e).1.err (st.flush i b e).1.out =
        POut.flushed (flush (st.view i) b e).nn (flush (st.view i) b e).err (flush (st.view i) b e).out ∧
      (st.flush i b e).2.view i = (flush (st.view i) b e).st ∧
      ∀ j, j ≠ i → (st.flush i b e).2.view j = st.view j
    rw [b']
    exact ⟨a, rfl, c, d⟩
  | clear =>
    exact ⟨release_inv st hI i, rfl, release_view_self st i, fun j hj => release_view_other st i j hj⟩

/-- **Isolation of connections sharing the buffer pools.**  For EVERY interleaving of
    `WriteMessage` / `Flush` (any budgets) / `ClearPendingSend` calls of any number of Machines and
    EVERY behaviour of the two `sync.Pool`s (each `Get` returning any pooled buffer or a new one),
    started from a state satisfying the ownership invariant: the results and the bytes handed to
    its writer that Machine `i` observes are exactly those of the value model (`Sender`) run on
    Machine `i`'s own operations alone, and so is what it has buffered at the end. -/
theorem pool_refines (ops : List (Nat × POp)) : ∀ (st : PState), PInv st → ∀ i,
    outsOf i (st.run ops).1 = ((st.view i).prun (opsOf i ops)).1 ∧
    (st.run ops).2.view i = ((st.view i).prun (opsOf i ops)).2 ∧
    PInv (st.run ops).2 := by
  induction ops with
  | nil => intro st hI i; exact ⟨rfl, rfl, hI⟩
  | cons p rest ih =>
    intro st hI i
    obtain ⟨j, op⟩ := p
    obtain ⟨hI', ho, hv, hoth⟩ := pool_step st hI j op
    obtain ⟨r1, r2, r3⟩ := ih (st.step j op).2 hI' i
    by_cases hji : j = i
    · subst hji
      simp only [PState.run, outsOf, opsOf, if_true, Sender.prun]
      rw [r1, r2, hv, ho]
      exact ⟨rfl, rfl, r3⟩
    · simp only [PState.run, outsOf, opsOf, hji, if_false]
      rw [r1, r2, hoth i (fun h => hji h.symm)]
      exact ⟨rfl, rfl, r3⟩

/-- instance: Machines fresh from their handshakes, empty pools -/
theorem pool_refines_fresh (l : List (Nat × CipherState)) (ops : List (Nat × POp)) (i : Nat) :
    outsOf i ((PState.ofCiphers l).run ops).1 =
      (((PState.ofCiphers l).view i).prun (opsOf i ops)).1 ∧
    ((PState.ofCiphers l).run ops).2.view i =
      (((PState.ofCiphers l).view i).prun (opsOf i ops)).2 :=
  let h := pool_refines ops _ (pinv_ofCiphers l) i
  ⟨h.1, h.2.1⟩

/-! ### `ClearPendingSend` on the sending side with history -/

/-- the part of `TraceInv` that survives `ClearPendingSend` -/
def NonceInv (c0 : CipherState) (t : Trace) : Prop :=
  t.log = sealLog c0 t.accepted ∧ t.s.cs = stateAt c0 (2 * t.accepted.length)

theorem nonceInv_step (c0 : CipherState) (t : Trace) (op : Op) (h : NonceInv c0 t) :
    NonceInv c0 (t.step op) := by
  obtain ⟨h1, h2⟩ := h
  cases op with
  | write m =>
    simp only [Trace.step]
    split
    · rename_i r hr
      obtain ⟨_, _, _, d⟩ := writeMessageL_inv t.s m r hr
      subst d
      refine ⟨?_, ?_⟩
      · simp only [sealLog_append, h1, h2]
        rfl
      · simp only [h2, List.length_append, List.length_cons, List.length_nil]
        show (stateAt c0 (2 * t.accepted.length)).advance.advance = _
        rw [← stateAt_two, stateAt_add]; congr 1
    · exact ⟨h1, h2⟩
  | flush b e =>
    simp only [Trace.step]
    exact ⟨h1, by rw [(flush_conserve t.s b e).2]; exact h2⟩

theorem nonceInv_pstep (c0 : CipherState) (t : Trace) (op : POp) (h : NonceInv c0 t) :
    NonceInv c0 (t.pstep op) := by
  cases op with
  | write m ch cb => exact nonceInv_step c0 t (.write m) h
  | flush b e => exact nonceInv_step c0 t (.flush b e) h
  | clear => exact h

theorem nonceInv_prun (c0 : CipherState) (ops : List POp) : ∀ (t : Trace), NonceInv c0 t →
    NonceInv c0 (t.prun ops) := by
  induction ops with
  | nil => intro t h; exact h
  | cons op ops ih => intro t h; exact ih _ (nonceInv_pstep c0 t op h)

/-- **No (key, nonce) is used twice, also with `ClearPendingSend`.**  For ARBITRARY sequences of
    `WriteMessage` (accepted or refused), `Flush` (complete, partial, absent) and
    `ClearPendingSend` (dropping a record that is buffered, half written, or nothing): the log of
    `Encrypt` calls is the sealing of the accepted messages at consecutive cipher states, its
    entries have pairwise different (key term, nonce), and the send cipher has advanced by exactly
    two uses per accepted message — dropping a buffered record never rewinds or reuses its
    nonces. -/
theorem clear_nonce_unique (c : CipherState) (hc : c.WF) (ops : List POp) :
    let t := (Trace.start c).prun ops
    t.log = sealLog c t.accepted ∧
    t.log.Pairwise (fun p q => ¬ (p.key = q.key ∧ p.nonce = q.nonce)) ∧
    t.s.cs = stateAt c (2 * t.accepted.length) := by
  have h0 : NonceInv c (Trace.start c) := by
    simp [NonceInv, Trace.start, sealLog, stateAt]
  obtain ⟨h1, h2⟩ := nonceInv_prun c ops _ h0
  exact ⟨h1, by rw [h1]; exact sealLog_pairwise _ c hc, h2⟩

/-- `ClearPendingSend` with nothing buffered (lnd calls it after every completed write) changes
    nothing -/
theorem clear_idle_noop (t : Trace) (hh : t.s.hdr = []) (hb : t.s.body = []) : t.pstep .clear = t := by
  obtain ⟨s, l, w, a⟩ := t
  obtain ⟨c, h, b⟩ := s
  simp only at hh hb
  subst hh; subst hb
  rfl

/-- the ghost-history run and the plain value model agree on the Machine state -/
theorem prun_state (ops : List POp) : ∀ (t : Trace), (t.prun ops).s = (t.s.prun ops).2 := by
  induction ops with
  | nil => intro t; rfl
  | cons op ops ih =>
    intro t
    show ((t.pstep op).prun ops).s = ((t.s.pstep op).2.prun ops).2
    rw [ih]
    congr 2
    cases op with
    | write m ch cb =>
      simp only [Trace.pstep, Trace.step, Sender.pstep, writeMessage]
      cases writeMessageL t.s m <;> rfl
    | flush b e => rfl
    | clear => rfl

/-- as long as the user never clears a pending record the stream stays the canonical one
    (`TraceInv`, hence `trace_nonce_unique` / `flush_accounting`): a run whose `clear`s all happen
    with nothing buffered is a run of `runOps`. -/
def toOp : POp → Option Op
  | .write m _ _ => some (.write m)
  | .flush b e => some (.flush b e)
  | .clear => none

def ClearsIdle : Trace → List POp → Prop
  | _, [] => True
  | t, .clear :: ops => t.s.hdr = [] ∧ t.s.body = [] ∧ ClearsIdle t ops
  | t, op :: ops => ClearsIdle (t.pstep op) ops

theorem prun_clears_idle (ops : List POp) : ∀ (t : Trace), ClearsIdle t ops →
    t.prun ops = runOps t (ops.filterMap toOp) := by
  induction ops with
  | nil => intro t _; rfl
  | cons op ops ih =>
    intro t h
    cases op with
    | write m ch cb => exact ih _ h
    | flush b e => exact ih _ h
    | clear =>
      obtain ⟨hh, hb, hr⟩ := h
      show (t.pstep .clear).prun ops = _
      rw [clear_idle_noop t hh hb]
      exact ih t hr

/-! ### non-vacuity: concrete interleavings -/

/-- Two connections; the second takes over the header buffer the first one gave back, while the
    first one's body buffer is still pending (half written) — what each writer sees is what the
    value model says for that connection alone. -/
example :
    let c1 := CipherState.init (.atom 7) (.atom 8)
    let c2 := CipherState.init (.atom 9) (.atom 10)
    let ops : List (Nat × POp) :=
      [(1, .write ⟨3, 5⟩ none none), (2, .write ⟨1, 1⟩ none none), (1, .flush (some 20) false),
       (2, .flush none false), (1, .clear), (2, .write ⟨2, 9⟩ (some 2) (some 1)),
       (1, .write ⟨0, 0⟩ (some 0) (some 3)), (2, .flush (some 5) true), (1, .flush none false)]
    let r := (PState.ofCiphers [(1, c1), (2, c2)]).run ops
    (outsOf 1 r.1).length = 5 ∧ r.2.freeH = [0] ∧ r.2.freeB = [3] ∧ r.2.next = 4 ∧
    (r.2.mach 2).hb = some 2 ∧ (r.2.mach 2).bb = some 1 ∧ (r.2.mach 2).hoff = 5 := by
  decide

example : ((Trace.start (CipherState.init (.atom 7) (.atom 8))).prun
    [.write ⟨3, 5⟩ none none, .flush (some 4) true, .clear, .write ⟨1, 1⟩ none none, .flush none false,
     .clear]).accepted = [⟨3, 5⟩, ⟨1, 1⟩] := by decide

end LndModel.C11
