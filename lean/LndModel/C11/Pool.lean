/-
C11 — model extension (round 7): the pooled send buffers of noise.go and `ClearPendingSend`.

`WriteMessage` takes the destination buffers of its two `Encrypt` calls from the package-level
`headerBufferPool` / `bodyBufferPool` (two `sync.Pool`s shared by ALL Machines of the process);
`nextHeaderSend` / `nextBodySend` are slices INTO those pooled buffers; `Flush` re-slices them
and, once both are empty and no error was returned, calls `releaseBuffers` (Put back, references
cleared); `Conn.ClearPendingSend` = `releaseBuffers` at any time.

The value model of Model.lean (`Sender {cs, hdr, body}` holding byte LISTS) abstracts from this
memory sharing.  Here is the concrete memory model: a heap of buffers, two free lists, Machines
holding buffer ids and offsets; `sync.Pool.Get` may return ANY pooled buffer or a new one (the
choice is a parameter of the operation).  PoolProps.lean proves that for every interleaving of
operations of any number of Machines and every choice of the pools each Machine behaves as the
value model run alone (no connection can see or alter another connection's pending ciphertext).

Core Lean only; executable (the driver replays buffer ownership on it).
-/
import LndModel.C11.Model

namespace LndModel.C11

/-! ### small association maps (executable, bounded by the number of live keys) -/

def amGet {α : Type} (d : α) : List (Nat × α) → Nat → α
  | [], _ => d
  | (k, v) :: m, j => if k = j then v else amGet d m j

def amSet {α : Type} : List (Nat × α) → Nat → α → List (Nat × α)
  | [], j, v => [(j, v)]
  | (k, w) :: m, j, v => if k = j then (k, v) :: m else (k, w) :: amSet m j v

/-! ### the sending side of one Machine over shared memory -/

/-- `sendCipher`, `pooledHeaderBuf` / `pooledBodyBuf` (buffer ids), and the offsets at which
    `nextHeaderSend` / `nextBodySend` start inside those buffers. -/
structure PMach where
  cs : CipherState := CipherState.init Term.zeroKey Term.zeroKey
  hb : Option Nat := none
  bb : Option Nat := none
  hoff : Nat := 0
  boff : Nat := 0
deriving Repr, Inhabited

/-- process-wide state: buffer contents, the two pools, the allocator, all Machines -/
structure PState where
  heap : List (Nat × List WByte) := []
  freeH : List Nat := []
  freeB : List Nat := []
  next : Nat := 0
  machs : List (Nat × PMach) := []
deriving Repr, Inhabited

def PState.mach (st : PState) (i : Nat) : PMach := amGet {} st.machs i
def PState.buf (st : PState) (b : Nat) : List WByte := amGet [] st.heap b

/-- the bytes a slice `(buffer, offset)` denotes; a nil slice is empty -/
def PState.slice (st : PState) (b : Option Nat) (off : Nat) : List WByte :=
  match b with
  | none => []
  | some k => (st.buf k).drop off

/-- what Machine `i` would hand to a writer: the abstraction to the value model -/
def PState.view (st : PState) (i : Nat) : Sender :=
  let m := st.mach i
  { cs := m.cs, hdr := st.slice m.hb m.hoff, body := st.slice m.bb m.boff }

/-- `sync.Pool.Get`: a pooled object chosen by the runtime (`choice`), else `New()` -/
def poolGet (free : List Nat) (next : Nat) (choice : Option Nat) : Nat × List Nat × Nat :=
  match choice with
  | some k => if k ∈ free then (k, free.erase k, next) else (next, free, next + 1)
  | none => (next, free, next + 1)

/-- `Machine.releaseBuffers` -/
def PState.release (st : PState) (i : Nat) : PState :=
  let m := st.mach i
  { st with
    freeH := (match m.hb with | some h => [h] | none => []) ++ st.freeH,
    freeB := (match m.bb with | some b => [b] | none => []) ++ st.freeB,
    machs := amSet st.machs i { m with hb := none, bb := none, hoff := 0, boff := 0 } }

/-- `split()`: a fresh `sendCipher`; a Machine has no pooled buffer at that point -/
def PState.install (st : PState) (i : Nat) (c : CipherState) : PState :=
  { st with machs := amSet st.machs i { cs := c } }

/-- `Machine.WriteMessage` of Machine `i`; `ch` / `cb` = what the two pools hand out.  The length
    and not-flushed checks and the two `Encrypt` calls are those of the value model applied to what
    the slices currently denote. -/
def PState.write (st : PState) (i : Nat) (m : Msg) (ch cb : Option Nat) : Option WErr × PState :=
  match writeMessage (st.view i) m with
  | .error e => (some e, st)
  | .ok s' =>
    let g1 := poolGet st.freeH st.next ch
    let g2 := poolGet st.freeB g1.2.2 cb
    (none,
     { heap := amSet (amSet st.heap g1.1 s'.hdr) g2.1 s'.body,
       freeH := g1.2.1, freeB := g2.2.1, next := g2.2.2,
       machs := amSet st.machs i { cs := s'.cs, hb := some g1.1, bb := some g2.1, hoff := 0, boff := 0 } })

/-- `Machine.Flush(w)` of Machine `i` against the budget writer: the writes are those of the value
    model on the denoted bytes; the slices advance by what the writer took; buffers go back to the
    pools iff no error is returned and both slices are empty. -/
def PState.flush (st : PState) (i : Nat) (budget : Option Nat) (eager : Bool) : FlushRes × PState :=
  let s := st.view i
  let r := LndModel.C11.flush s budget eager
  let m := st.mach i
  let m' := { m with hoff := m.hoff + (s.hdr.length - r.st.hdr.length),
                     boff := m.boff + (s.body.length - r.st.body.length) }
  let st' := { st with machs := amSet st.machs i m' }
  if !r.err && r.st.hdr.isEmpty && r.st.body.isEmpty then (r, st'.release i) else (r, st')

/-- operations of the user of Machine / Conn on the sending side -/
inductive POp where
  | write (m : Msg) (ch cb : Option Nat)
  | flush (budget : Option Nat) (eager : Bool)
  /-- `Conn.ClearPendingSend` -/
  | clear
deriving Repr

/-- what the caller (and the underlying writer) observes of one operation -/
inductive POut where
  | wrote (e : Option WErr)
  | flushed (nn : Nat) (err : Bool) (out : List WByte)
  | cleared
deriving Repr

def PState.step (st : PState) (i : Nat) : POp → POut × PState
  | .write m ch cb => let r := st.write i m ch cb; (.wrote r.1, r.2)
  | .flush b e => let r := st.flush i b e; (.flushed r.1.nn r.1.err r.1.out, r.2)
  | .clear => (.cleared, st.release i)

/-- run an interleaving: each element names the Machine that acts -/
def PState.run (st : PState) : List (Nat × POp) → List (Nat × POut) × PState
  | [] => ([], st)
  | (i, op) :: rest =>
    let r := st.step i op
    let t := r.2.run rest
    ((i, r.1) :: t.1, t.2)

/-! ### the same operations on the value model (one Machine alone) -/

def Sender.pstep (s : Sender) : POp → POut × Sender
  | .write m _ _ =>
    match writeMessage s m with
    | .error e => (.wrote (some e), s)
    | .ok s' => (.wrote none, s')
  | .flush b e => let r := LndModel.C11.flush s b e; (.flushed r.nn r.err r.out, r.st)
  | .clear => (.cleared, { s with hdr := [], body := [] })

def Sender.prun (s : Sender) : List POp → List POut × Sender
  | [] => ([], s)
  | op :: rest =>
    let r := s.pstep op
    let t := r.2.prun rest
    (r.1 :: t.1, t.2)

/-- the operations of Machine `i` within an interleaving -/
def opsOf (i : Nat) : List (Nat × POp) → List POp
  | [] => []
  | (j, op) :: rest => if j = i then op :: opsOf i rest else opsOf i rest

def outsOf (i : Nat) : List (Nat × POut) → List POut
  | [] => []
  | (j, o) :: rest => if j = i then o :: outsOf i rest else outsOf i rest

/-! ### sending side with `ClearPendingSend`, ghost history as in `Trace` -/

/-- like `Trace.step`, plus `clear` -/
def Trace.pstep (t : Trace) : POp → Trace
  | .write m _ _ => t.step (.write m)
  | .flush b e => t.step (.flush b e)
  | .clear => { t with s := { t.s with hdr := [], body := [] } }

def Trace.prun (t : Trace) (ops : List POp) : Trace := ops.foldl Trace.pstep t

end LndModel.C11
