/-
C11 — refinement of the regenerated constants (LndModel.Gen.C11, produced by tools/go2lean from
the constant declarations of brontide/noise.go in the tree under test) to the constants of the
hand-written model `LndModel.C11`.  A change of `macSize`, `lengthHeaderSize`, `encHeaderSize`,
`maxMessageSize` (= math.MaxUint16 + macSize), `keyRotationInterval`, `HandshakeVersion` or of an
act size changes the regenerated file and the corresponding theorem stops checking.
(The protocol name and the prologue are strings — not supported by go2lean — and stay `FACT`
lines of the harness; so does the literal `math.MaxUint16` inside WriteMessage / Conn.Write,
which is exercised by the boundary cases 65535/65536.)
-/
import LndModel.Gen.C11
import LndModel.C11.Model

namespace LndModel.C11.GenRefine
open LndModel.Gen

theorem macSize_refines : Gen.C11.macSize = (C11.macSize : Nat) := by
  simp only [Gen.C11.macSize, C11.macSize]; rfl

theorem lengthHeaderSize_refines : Gen.C11.lengthHeaderSize = (C11.lengthHeaderSize : Nat) := by
  simp only [Gen.C11.lengthHeaderSize, C11.lengthHeaderSize]; rfl

theorem encHeaderSize_refines : Gen.C11.encHeaderSize = (C11.encHeaderSize : Nat) := by
  simp only [Gen.C11.encHeaderSize, C11.encHeaderSize, C11.lengthHeaderSize, C11.macSize]; rfl

/-- `maxMessageSize = math.MaxUint16 + macSize`: the model's `maxPayload` (65535) is the code's
    `maxMessageSize - macSize`. -/
theorem maxMessageSize_refines : Gen.C11.maxMessageSize = (C11.maxMessageSize : Nat) := by
  simp only [Gen.C11.maxMessageSize, C11.maxMessageSize, C11.maxPayload, C11.macSize]; rfl

theorem maxPayload_refines : Gen.C11.maxMessageSize - Gen.C11.macSize = (C11.maxPayload : Nat) := by
  simp only [Gen.C11.maxMessageSize, Gen.C11.macSize, C11.maxPayload]; rfl

theorem keyRotationInterval_refines :
    Gen.C11.keyRotationInterval = (C11.keyRotationInterval : Nat) := by
  simp only [Gen.C11.keyRotationInterval, C11.keyRotationInterval]; rfl

theorem handshakeVersion_refines : Gen.C11.HandshakeVersion = (C11.handshakeVersion : Nat) := by
  simp only [Gen.C11.HandshakeVersion, C11.handshakeVersion]; rfl

theorem actOneSize_refines : Gen.C11.ActOneSize = (C11.actOneSize : Nat) := by
  simp only [Gen.C11.ActOneSize, C11.actOneSize]; rfl

theorem actTwoSize_refines : Gen.C11.ActTwoSize = (C11.actTwoSize : Nat) := by
  simp only [Gen.C11.ActTwoSize, C11.actTwoSize]; rfl

theorem actThreeSize_refines : Gen.C11.ActThreeSize = (C11.actThreeSize : Nat) := by
  simp only [Gen.C11.ActThreeSize, C11.actThreeSize]; rfl

/-- the act layouts the byte-level model uses: version ‖ 33-byte key ‖ 16-byte tag, and
    version ‖ 33+16-byte sealed key ‖ 16-byte tag. -/
theorem act_layout :
    Gen.C11.ActOneSize = 1 + (C11.pubKeySize : Nat) + Gen.C11.macSize ∧
    Gen.C11.ActTwoSize = 1 + (C11.pubKeySize : Nat) + Gen.C11.macSize ∧
    Gen.C11.ActThreeSize = 1 + ((C11.pubKeySize : Nat) + Gen.C11.macSize) + Gen.C11.macSize := by
  simp only [Gen.C11.ActOneSize, Gen.C11.ActTwoSize, Gen.C11.ActThreeSize, Gen.C11.macSize,
    C11.pubKeySize]
  exact ⟨rfl, rfl, rfl⟩

end LndModel.C11.GenRefine
