/-
C11 — theorems about the complete control flow of `Listener.doHandshake` / `Dial`
(Listener.lean): a connection is handed out only if every deadline call, read and write
succeeded, the ban closure accepted, and the acts are those of an initiator that dialled the
listener's static key; tie to the byte-level `listenerRun` / `dialRun`.
-/
import LndModel.C11.Listener
import LndModel.C11.Props

namespace LndModel.C11

/-- `doHandshake` hands out a connection ⇒ no injected fault on any of its seven environment
    calls, the ban closure said `accepted` for the reported key, act two was written, and the
    three `Machine` steps succeeded on exactly the acts read. -/
theorem listenerFlow_done (rs re : Nat) (env : LEnv) (keys : CipherState × CipherState) (y : Nat)
    (o : Option Act12) (h : listenerFlow rs re env = (.done keys y, o)) :
    env.dl1 = true ∧ env.wr2 = true ∧ env.dl2 = true ∧ env.dl3 = true ∧ (env.accept y).1 = true ∧
    ∃ a1 a2 a3 r1 r2 r3, env.rd1 = some a1 ∧ env.rd3 = some a3 ∧ o = some a2 ∧
      recvActOne (HState.new false rs none) a1 = (.ok (), r1) ∧ genActTwo r1 re = (.ok a2, r2) ∧
      recvActThree r2 a3 = (.ok keys, r3) ∧ r3.rs = some y := by
  unfold listenerFlow at h
  split at h
  · simp at h
  rename_i d1
  split at h
  · simp at h
  rename_i a1 ha1
  split at h
  · simp at h
  rename_i r1 hr1
  split at h
  · simp at h
  rename_i a2 r2 hr2
  split at h
  · simp at h
  rename_i w2
  split at h
  · simp at h
  rename_i d2
  split at h
  · simp at h
  rename_i a3 ha3
  split at h
  · simp at h
  rename_i keys' r3 hr3
  split at h
  · simp at h
  rename_i d3
  split at h
  · simp at h
  rename_i y' hy
  split at h
  · rename_i hacc
    simp only [Prod.mk.injEq, LRes.done.injEq] at h
    obtain ⟨⟨hk, hy'⟩, ho⟩ := h
    subst hk; subst hy'
    refine ⟨by simpa using d1, by simpa using w2, by simpa using d2, by simpa using d3, hacc,
      a1, a2, a3, r1, r2, r3, ha1, ha3, ho.symm, hr1, hr2, hr3, hy⟩
  · simp at h

/-- **Listener acceptance = authenticated initiator.**  Whatever the environment does (deadline
    errors, short reads, write errors, any ban verdict, any act contents with well-typed tags):
    if `doHandshake` hands out a connection then an initiator with static key `y` (the reported
    remote key, accepted by the ban closure) and some ephemeral key `x` that DIALLED THIS
    listener's static key generates exactly the act one that was read, accepts exactly the act
    two that was written and generates exactly the act three that was read, with mirrored
    session keys. -/
theorem listener_session_auth (rs re : Nat) (env : LEnv) (keys : CipherState × CipherState) (y : Nat)
    (o : Option Act12) (h : listenerFlow rs re env = (.done keys y, o))
    (t1 : ∀ a, env.rd1 = some a → TagOk a.tag) (t3 : ∀ a, env.rd3 = some a → TagOk a.tag) :
    (env.accept y).1 = true ∧
    ∃ x a1 a2 a3, env.rd1 = some a1 ∧ o = some a2 ∧ env.rd3 = some a3 ∧
      (genActOne (HState.new true y (some rs)) x).1 = .ok a1 ∧
      (recvActTwo (genActOne (HState.new true y (some rs)) x).2 a2).1 = .ok () ∧
      (genActThree (recvActTwo (genActOne (HState.new true y (some rs)) x).2 a2).2).1 =
        .ok (a3, keys.2, keys.1) := by
  obtain ⟨_, _, _, _, hacc, a1, a2, a3, r1, r2, r3, e1, e3, eo, h1, h2, h3, hy⟩ :=
    listenerFlow_done rs re env keys y o h
  obtain ⟨x, y', g1, g2, g3, hy'⟩ := responder_auth rs re a1 a2 a3 r1 r2 r3 keys h1 h2 h3 (t1 a1 e1) (t3 a3 e3)
  rw [hy] at hy'
  cases hy'
  exact ⟨hacc, x, a1, a2, a3, e1, eo, e3, g1, g2, g3⟩

/-- any single injected fault makes `doHandshake` reject -/
theorem listenerFlow_fault (rs re : Nat) (env : LEnv)
    (hf : env.dl1 = false ∨ env.rd1 = none ∨ env.wr2 = false ∨ env.dl2 = false ∨ env.rd3 = none ∨
      env.dl3 = false ∨ ∀ y, (env.accept y).1 = false) :
    ∃ why, (listenerFlow rs re env).1 = .rejected why := by
  cases hres : (listenerFlow rs re env) with
  | mk res o =>
    cases res with
    | rejected why => exact ⟨why, rfl⟩
    | done keys y =>
      obtain ⟨d1, w2, d2, d3, hacc, a1, _, a3, _, _, _, e1, e3, _⟩ := listenerFlow_done rs re env keys y o hres
      rcases hf with h | h | h | h | h | h | h
      · rw [d1] at h; cases h
      · rw [e1] at h; cases h
      · rw [w2] at h; cases h
      · rw [d2] at h; cases h
      · rw [e3] at h; cases h
      · rw [d3] at h; cases h
      · rw [h y] at hacc; cases hacc

/-- `Dial` returns a connection ⇒ both writes and both deadline calls succeeded and the act two
    read was accepted by `RecvActTwo` on the state after our own act one. -/
theorem dialFlow_done (is ie target : Nat) (env : DEnv) (keys : CipherState × CipherState)
    (o1 : Option Act12) (o3 : Option Act3) (h : dialFlow is ie target env = (.done keys, o1, o3)) :
    env.wr1 = true ∧ env.dl1 = true ∧ env.wr3 = true ∧ env.dl2 = true ∧
    ∃ a1 a2 a3 i1 i2 i3, o1 = some a1 ∧ env.rd2 = some a2 ∧ o3 = some a3 ∧
      genActOne (HState.new true is (some target)) ie = (.ok a1, i1) ∧
      recvActTwo i1 a2 = (.ok (), i2) ∧ genActThree i2 = (.ok (a3, keys), i3) := by
  unfold dialFlow at h
  split at h
  · simp at h
  rename_i a1 i1 h1
  split at h
  · simp at h
  rename_i w1
  split at h
  · simp at h
  rename_i d1
  split at h
  · simp at h
  rename_i a2 ha2
  split at h
  · simp at h
  rename_i i2 h2
  split at h
  · simp at h
  rename_i a3 keys' i3 h3
  split at h
  · simp at h
  rename_i w3
  split at h
  · simp at h
  rename_i d2
  simp only [Prod.mk.injEq, DRes.done.injEq] at h
  obtain ⟨hk, ho1, ho3⟩ := h
  subst hk
  exact ⟨by simpa using w1, by simpa using d1, by simpa using w3, by simpa using d2,
    a1, a2, a3, i1, i2, i3, ho1.symm, ha2, ho3.symm, h1, h2, h3⟩

/-- **Dial success = the dialled responder answered.** -/
theorem dial_session_auth (is ie target : Nat) (env : DEnv) (keys : CipherState × CipherState)
    (o1 : Option Act12) (o3 : Option Act3) (h : dialFlow is ie target env = (.done keys, o1, o3))
    (t2 : ∀ a, env.rd2 = some a → TagOk a.tag) :
    ∃ a1 a2 i1 i2, o1 = some a1 ∧ env.rd2 = some a2 ∧
      genActOne (HState.new true is (some target)) ie = (.ok a1, i1) ∧
      recvActTwo i1 a2 = (.ok (), i2) ∧
      ∃ z, (recvActOne (HState.new false target none) a1).1 = .ok () ∧
        (genActTwo (recvActOne (HState.new false target none) a1).2 z).1 = .ok a2 := by
  obtain ⟨_, _, _, _, a1, a2, a3, i1, i2, i3, e1, e2, _, h1, h2, _⟩ := dialFlow_done is ie target env keys o1 o3 h
  obtain ⟨z, g1, g2⟩ := initiator_auth is ie target a1 a2 i1 i2 h1 h2 (t2 a2 e2)
  exact ⟨a1, a2, i1, i2, e1, e2, h1, h2, z, g1, g2⟩

/-- tie to the byte-level model of round 5: with every deadline call and the write succeeding,
    `listenerFlow` on the sliced acts is `listenerRun` on the bytes (hence `listener_done_auth`
    applies to it). -/
theorem listenerFlow_run (val : HByte → Nat) (rs re : Nat) (acc : Nat → Bool × Bool)
    (b1 b3 : List HByte) (rest : List IOEv) (h1 : b1.length = actOneSize) (h3 : b3.length = actThreeSize) :
    (listenerFlow rs re
      { dl1 := true, rd1 := some (parseAct12B val b1), wr2 := true, dl2 := true,
        rd3 := some (parseAct3B val b3), dl3 := true, accept := acc }).1 =
      match listenerRun val rs re (fun y => (acc y).1) (.rd b1 :: .wrOk :: .rd b3 :: rest) with
      | .done keys y _ => .done keys y
      | .rejected w => .rejected (LFail.ofHs w) := by
  unfold listenerFlow listenerRun
  simp only [h1, h3, ne_eq, not_true_eq_false, if_false, Bool.not_true, Bool.false_eq_true]
  cases hA : recvActOne (HState.new false rs none) (parseAct12B val b1) with
  | mk ra r1 =>
    cases ra with
    | error e => rfl
    | ok u =>
      cases u
      simp only
      cases hB : genActTwo r1 re with
      | mk rb r2 =>
        cases rb with
        | error e => rfl
        | ok a2 =>
          simp only
          cases hC : recvActThree r2 (parseAct3B val b3) with
          | mk rc r3 =>
            cases rc with
            | error e => rfl
            | ok keys =>
              simp only
              cases hD : r3.rs with
              | none => rfl
              | some y =>
                simp only
                by_cases hE : (acc y).1 = true <;> simp [hE, LFail.ofHs]

/-! ### non-vacuity -/

/-- an honest initiator (static 1, ephemeral 3) dialling listener key 2 (ephemeral 4): accepted
    with remote key 1; the same session with the last deadline call failing, and with a banning
    closure, is rejected for that reason -/
def listenerDemo : Bool :=
  let env0 : LEnv :=
    { dl1 := true, rd1 := none, wr2 := true, dl2 := true, rd3 := none, dl3 := true,
      accept := fun _ => (true, true) }
  match genActOne (HState.new true 1 (some 2)) 3 with
  | (.ok a1, i1) =>
    match (listenerFlow 2 4 { env0 with rd1 := some a1 }).2 with
    | some a2 =>
      match recvActTwo i1 a2 with
      | (.ok (), i2) =>
        match genActThree i2 with
        | (.ok (a3, _), _) =>
          (match (listenerFlow 2 4 { env0 with rd1 := some a1, rd3 := some a3 }).1 with
           | .done _ y => y == 1 | _ => false) &&
          (match (listenerFlow 2 4 { env0 with rd1 := some a1, rd3 := some a3, dl3 := false }).1 with
           | .rejected .deadline => true | _ => false) &&
          (match (listenerFlow 2 4 { env0 with rd1 := some a1, rd3 := some a3,
                                                 accept := fun _ => (false, false) }).1 with
           | .rejected .banned => true | _ => false)
        | _ => false
      | _ => false
    | none => false
  | _ => false

example : listenerDemo = true := by decide

end LndModel.C11
